(* L1 model of BigNum::to_string_base / from_string_base (big_number.rs l.278-368), Display, and
   Num::from_string / Display (num.rs l.213-235, l.473-481).  Text is a list of code points. *)
From Coq Require Import List NArith ZArith Bool.
Import ListNotations.
From HV Require Import Model.Big Model.Rat.
Open Scope N_scope.

Definition NAN_TEXT : list N := [45320; 47924; 32; 52964; 50631; 46; 46; 46].  (* the fixed NaN text *)
Definition CH_MINUS : N := 45.
Definition CH_SLASH : N := 47.

Definition digit_char (d : N) : N := if d <? 10 then 48 + d else 65 + d - 10.

Inductive tsr := TSBase | TSFuel | TSOk (s : list N).

(* digits least significant first; [None] = out of fuel *)
Fixpoint digits_fuel (fuel : nat) (num base : big) : option (list N) :=
  match fuel with
  | O => None
  | S f => if is_zero num then Some []
           else match digits_fuel f (bdiv num base) base with
                | Some r => Some (digit_char (to_int (brem num base)) :: r)
                | None => None
                end
  end.
Definition ts_bound (a : big) : nat := 32 * length (limbs a) + 1.

Definition to_string_base (a : big) (base : N) : tsr :=
  if negb ((1 <=? base) && (base <=? 36)) then TSBase
  else match digits_fuel (ts_bound a) (mkbig true (limbs a)) (bnew (Z.of_N base)) with
       | None => TSFuel
       | Some ds =>
           let ds := match ds with [] => [48] | _ => ds end in
           TSOk (rev (if bpos a then ds else ds ++ [CH_MINUS]))
       end.

(* Display for BigNum = to_string_base(10).unwrap() ; a panic/fuel failure prints as [] and is excluded
   by the theorems *)
Definition big_display (a : big) : list N :=
  match to_string_base a 10 with TSOk s => s | _ => [] end.

Inductive fsr := FSBase | FSParse | FSOk (a : big).

Definition digit_val (c : N) : option N :=
  if (48 <=? c) && (c <=? 57) then Some (c - 48)
  else if (65 <=? c) && (c <=? 90) then Some (c - 65 + 10) else None.

Fixpoint horner (base : big) (s : list N) (acc : big) : option big :=
  match s with
  | [] => Some acc
  | c :: r => match digit_val c with
              | Some k => horner base r (badd (bmul acc base) (bnew (Z.of_N k)))
              | None => None
              end
  end.

Definition from_string_base (s : list N) (base : N) : fsr :=
  if negb ((1 <=? base) && (base <=? 36)) then FSBase
  else let (flip, body) := match s with c :: r => if c =? CH_MINUS then (true, r) else (false, s) | [] => (false, s) end in
       match horner (bnew (Z.of_N base)) body (bnew 0) with
       | None => FSParse
       | Some res => FSOk (if flip then mkbig false (limbs res) else res)
       end.

Definition num_display (n : num) : list N :=
  if is_nan n then NAN_TEXT
  else if beq (down n) bone then big_display (up n)
  else big_display (up n) ++ [CH_SLASH] ++ big_display (down n).

(* str::split('/') *)
Fixpoint split_slash (s : list N) (cur : list N) : list (list N) :=
  match s with
  | [] => [rev cur]
  | c :: r => if c =? CH_SLASH then rev cur :: split_slash r [] else split_slash r (c :: cur)
  end.

(* [None] = the Rust code panics (unwrap on a parse error) *)
Definition num_from_string (s : list N) : option num :=
  if (if list_eq_dec N.eq_dec s NAN_TEXT then true else false) then Some nan
  else let (ng, s1) := match s with c :: r => if c =? CH_MINUS then (true, r) else (false, s) | [] => (false, s) end in
       let parts := split_slash s1 [] in
       let res := match parts with
                  | [a] => match from_string_base a 10 with FSOk u => Some (from_big_num u bone) | _ => None end
                  | a :: b :: _ => match from_string_base a 10, from_string_base b 10 with
                                   | FSOk u, FSOk d => Some (from_big_num u d) | _, _ => None end
                  | [] => None
                  end in
       match res with Some r => Some (if ng then nminus r else r) | None => None end.
