(* L1 model of src/number/num.rs — definitions only.  Follows the tree with the D2 (optimize keeps the
   sign on the numerator) and D3 (cross-multiplication) repairs; the pinned variants are kept as
   [*_pre_fix] for the refutation witnesses. *)
From Coq Require Import List NArith ZArith Bool.
Import ListNotations.
From HV Require Import Model.Big.
Open Scope N_scope.

Record num := mknum { up : big; down : big }.

Definition nan : num := mknum bone bzero.
Definition nzero : num := mknum bzero bone.
Definition n_one : num := mknum bone bone.
Definition from_num (n : Z) : num := mknum (bnew n) bone.

Definition is_nan (n : num) : bool := is_zero (down n).
Definition is_pos (n : num) : bool := bpos (up n) && negb (is_nan n).

(* total wrapper around the fuelled Euclid loop; Proofs/BigGcd.v shows the fuel never runs out on
   well-formed operands (that is the termination proof of the Rust loop) *)
Definition gcd_total (a b : big) : big := match bgcd a b with Some g => g | None => bzero end.

Definition optimize (n : num) : num :=
  let g := gcd_total (up n) (down n) in
  let u := bdiv (up n) g in
  let d := bdiv (down n) g in
  if bpos d then mknum u d else mknum (bminus u) (bminus d).
Definition optimize_pre_fix (n : num) : num :=
  let g := gcd_total (up n) (down n) in mknum (bdiv (up n) g) (bdiv (down n) g).

Definition from_big_num (u d : big) : num := optimize (mknum u d).
(* Num::new(up: isize, down: usize) builds the denominator with `BigNum::new(down as isize)`: the cast wraps a
   denominator of 2^63 or more to a negative machine integer (written into the model explicitly) *)
Definition wrap_isize (d : Z) : Z := if (d <? 2 ^ 63)%Z then d else (d - 2 ^ 64)%Z.
Definition nnew (u : Z) (d : Z) : num := optimize (mknum (bnew u) (bnew (wrap_isize d))).

Definition nminus (n : num) : num := mknum (bminus (up n)) (down n).
Definition nneg (n : num) : num := mknum (bneg (up n)) (down n).
Definition nflip (n : num) : num :=
  if is_nan n then n
  else let u := down n in let d := up n in
       if bpos d then mknum u d else mknum (bminus u) (bminus d).

Definition nadd (l r : num) : num :=
  if is_nan l || is_nan r then nan
  else optimize (mknum (badd (bmul (up l) (down r)) (bmul (down l) (up r))) (bmul (down l) (down r))).
Definition nmul (l r : num) : num :=
  if is_nan l || is_nan r then nan
  else optimize (mknum (bmul (up l) (up r)) (bmul (down l) (down r))).

Definition floor (n : num) : big := if beq (down n) bone then up n else bdiv (up n) (down n).

(* derive(PartialEq) *)
Definition neq (a b : num) : bool := beq (up a) (up b) && beq (down a) (down b).

Definition ncmp (a b : num) : option comparison :=
  if is_nan a || is_nan b then None
  else if neq a b then Some Eq
  else match bcmp (bmul (up a) (down b)) (bmul (down a) (up b)) with
       | Lt => Some Lt | _ => Some Gt end.
Definition ncmp_pre_fix (a b : num) : option comparison :=
  if is_nan a || is_nan b then None
  else if neq a b then Some Eq
  else match bcmp (bmul (up a) (down b)) (bmul (down a) (down b)) with
       | Lt => Some Lt | _ => Some Gt end.

(* representation invariant (l.25-28) *)
Definition wfn (n : num) : Prop :=
  wf (up n) /\ wf (down n) /\ bpos (down n) = true /\
  (bval (down n) <> 0%Z -> Z.gcd (bval (up n)) (bval (down n)) = 1%Z) /\
  (bval (down n) = 0%Z -> Z.abs (bval (up n)) = 1%Z).
Definition wfnb (n : num) : bool :=
  wfb (up n) && wfb (down n) && bpos (down n) &&
  (if (bval (down n) =? 0)%Z then (Z.abs (bval (up n)) =? 1)%Z
   else (Z.gcd (bval (up n)) (bval (down n)) =? 1)%Z).
