(* L1 model of src/core/optimize.rs and of the optimised path of src/app/run.rs — definitions only.
   [fx] selects the repaired code (true) or the pinned code (false) for the three optimiser defects:
     fx5: opt_execute restores the operands of 흣/흡 in original order (v.reverse())
     fx6: output captured by a speculative command that is abandoned is discarded
     fx7: the stack selected by a 흑 command always keeps a private slot. *)
From Coq Require Import List NArith ZArith Bool.
Import ListNotations.
From HV Require Import Model.Big Model.Rat Model.NumText Model.Chars Model.Parse Model.Exec.
Open Scope N_scope.

Record fixes := mkfixes { fx5 : bool; fx6 : bool; fx7 : bool }.
Definition all_fixed : fixes := mkfixes true true true.
Definition pinned : fixes := mkfixes false false false.

(* ---- level 1: stack renumbering (optimize.rs l.184-244) ---- *)
Fixpoint chk_scan (fx : fixes) (code : list ucode) (now : N) : list N :=
  match code with
  | [] => []
  | u :: r =>
      if ty u =? 0 then chk_scan fx r now
      else if ty u =? 5 then now :: (if fx7 fx then [dc u] else []) ++ chk_scan fx r (dc u)
      else now :: chk_scan fx r now
  end.
Fixpoint insert_sorted (x : N) (l : list N) : list N :=
  match l with [] => [x] | y :: r => if x <=? y then x :: l else y :: insert_sorted x r end.
Definition sort_N (l : list N) : list N := fold_right insert_sorted [] l.
(* slots are handed out in increasing order of the original index, starting at 4 *)
Fixpoint assign (l : list N) (m : list (N * N)) (next : N) : list (N * N) * N :=
  match l with
  | [] => (m, next)
  | i :: r => if i <=? 3 then assign r m next
              else match alist_get m i with
                   | Some _ => assign r m next
                   | None => assign r (alist_set m i next) (next + 1)
                   end
  end.
Definition renum_map (fx : fixes) (code : list ucode) : list (N * N) * N := assign (sort_N (chk_scan fx code 3)) [] 4.
Definition renum (m : list (N * N)) (mx : N) (d : N) : N :=
  if d <=? 3 then d else match alist_get m d with Some v => v | None => mx end.
Definition opt_code (m : list (N * N)) (mx : N) (u : ucode) : xcode :=
  mkxcode (ty u) (hc u) (if ty u =? 0 then dc u else renum m mx (dc u)) (hc u * dc u) (ar u).

(* ---- level 2: speculative execution (opt_execute, l.13-155) ---- *)
Definition BAIL : N := 99.     (* abandoning is modelled as the exit code 99 of the state monad; real exits are
                                  unreachable because every pop is guarded *)
Definition guard (cs : N) : M unit := if cs <=? 2 then exit_ BAIL else ret tt.
Definition gpop (cs : N) : M num := bind (guard cs) (fun _ => pop_wrap cs).

Definition obody (fx : fixes) (c : xcode) : M unit :=
  bind get_cur (fun cs =>
  match xty c with
  | 0 => push_wrap cs (nmul (from_num (Z.of_N (xhc c))) (from_num (Z.of_N (xdc c))))
  | 1 => bind (iterM (xhc c) (fun n => bind (gpop cs) (fun v => ret (nadd n v))) nzero) (fun n => push_wrap (xdc c) n)
  | 2 => bind (iterM (xhc c) (fun n => bind (gpop cs) (fun v => ret (nmul n v))) n_one) (fun n => push_wrap (xdc c) n)
  | 3 => bind (iterM (xhc c) (fun v => bind (gpop cs) (fun x => ret (x :: v))) [])
              (fun v =>
               bind (fold_left (fun (m : M num) x => bind m (fun n => let x' := nminus x in
                                 bind (push_wrap cs x') (fun _ => ret (nadd n x')))) (if fx5 fx then v else rev v) (ret nzero))
                    (fun n => push_wrap (xdc c) n))
  | 4 => bind (iterM (xhc c) (fun v => bind (gpop cs) (fun x => ret (x :: v))) [])
              (fun v =>
               bind (fold_left (fun (m : M num) x => bind m (fun n => let x' := nflip x in
                                 bind (push_wrap cs x') (fun _ => ret (nmul n x')))) (if fx5 fx then v else rev v) (ret n_one))
                    (fun n => push_wrap (xdc c) n))
  | _ => bind (gpop cs) (fun n =>
         bind (iterM (xhc c) (fun _ => push_wrap (xdc c) n) tt) (fun _ =>
         bind (push_wrap cs n) (fun _ => set_cur (xdc c))))
  end).

(* one speculative step: next index and whether it was a jump *)
Definition oexecute_one (fx : fixes) (c : xcode) (pc : N) : M (N * bool) :=
  bind (obody fx c) (fun _ =>
  bind get_cur (fun cs =>
  bind (calc (xar c) (xac c) (gpop cs)) (fun t =>
  if t =? 0 then ret (pc + 1, false)
  else if t =? 13 then bind get_latest (fun l => match l with Some loc => ret (loc, true) | None => ret (pc + 1, false) end)
  else let id := xac c * 16 + t in
       bind (get_point id) (fun p =>
       match p with
       | Some v => if pc =? v then ret (pc + 1, false) else bind (set_latest pc) (fun _ => ret (v, true))
       | None => bind (set_point id pc) (fun _ => ret (pc + 1, false))
       end)))).

Inductive ores :=
| ODone (s : state)            (* the command ran to completion: keep the new state *)
| OBail (s : state)            (* abandoned; s is the state reached (only its output buffers may matter) *)
| OErr (e : errkind) (s : state)
| OFuel | OPanic.

Fixpoint opt_loop (fuel : nat) (fx : fixes) (code : list xcode) (s : state) (pc len : N) (jumps : N) : ores :=
  match fuel with
  | O => OFuel
  | S f =>
      if len <=? pc then ODone s
      else if 100 <=? jumps then OBail s
      else match nth_error code (N.to_nat pc) with
           | None => OPanic
           | Some c => match oexecute_one fx c pc s with
                       | ROk (pc', j) s' => opt_loop f fx code s' pc' len (if j then jumps + 1 else jumps)
                       | RExit _ s' => OBail s'
                       | RErr e s' => OErr e s'
                       end
           end
  end.
Definition opt_fuel (code : list xcode) : nat := 101 * (S (length code)) + 1.

(* the pre-execution loop of optimize (l.246-271): returns the code log of the commands kept, the state, and the residual *)
Record opt_result := mkopt { ostate : state; olog : list xcode; orest : list xcode }.
Inductive optimized := OptOk (r : opt_result) | OptErr (e : errkind) | OptStuck.

Definition with_io (s : state) (io : state) : state :=
  mkstate (skind_ s) (stacks s) (cur s) (points s) (latest s) (inp s) (outb io) (errb io).

Fixpoint preexec (fx : fixes) (s : state) (log : list xcode) (todo : list xcode) : optimized :=
  match todo with
  | [] => OptOk (mkopt s log [])
  | c :: r =>
      let code := log ++ [c] in
      let pc := N.of_nat (length log) in
      match opt_loop (opt_fuel code) fx code s pc (pc + 1) 0 with
      | ODone s' => preexec fx s' code r
      | OBail s' => OptOk (mkopt (if fx6 fx then s else with_io s s') log todo)
      | OErr e _ => OptErr e
      | OFuel | OPanic => OptStuck
      end
  end.

Definition optimize_prog (fx : fixes) (code : list ucode) (level : N) (input : list (option (list N))) : optimized :=
  if level =? 0 then OptOk (mkopt (state0 (SOpt 0) input) [] [])
  else
    let '(m, mx) := renum_map fx code in
    let ocode := map (opt_code m mx) code in
    let s0 := state0 (SOpt (mx + 1)) input in
    if level =? 1 then OptOk (mkopt s0 [] ocode)
    else preexec fx s0 [] ocode.

(* ---- run.rs: what `hyeong run -O<level>` does ---- *)
Definition run_level (fx : fixes) (fuel : nat) (code : list ucode) (level : N) (input : list (option (list N))) : final :=
  if level =? 0 then run_inc fuel [] (map xcode_of_ucode code) (state0 SUnopt input)
  else match optimize_prog fx code level input with
       | OptOk r => run_inc fuel (olog r) (orest r) (ostate r)       (* captured output is already in the buffers *)
       | OptErr e => FErr e (state0 SUnopt input)                      (* diagnosed; captured output withheld *)
       | OptStuck => FPanic (state0 SUnopt input)
       end.
