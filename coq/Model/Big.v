(* L1 model of src/number/big_number.rs — definitions only (proofs live in Proofs/).
   Limbs are [N] with the invariant [< B] (u32); the u64 accumulators of mult_core and the
   i64 of sub_core are unbounded [N] here and the no-overflow lemmas of Proofs/BigMul.v and
   Proofs/BigAddSub.v bound them.  Index-out-of-bounds / len-1 underflow sites are made
   explicit by the [*_safe] predicates, which the proofs show to hold for well-formed inputs. *)
From Coq Require Import List NArith ZArith Bool.
Import ListNotations.
Open Scope N_scope.

Definition B : N := 4294967296.            (* 2^32 *)
Definition U64 : N := 18446744073709551616. (* 2^64 *)

Record big := mkbig { bpos : bool; limbs : list N }.

(* value of a little-endian limb vector *)
Fixpoint lval (l : list N) : N := match l with [] => 0 | x :: r => x + B * lval r end.
Definition limbs_ok (l : list N) : Prop := Forall (fun x => x < B) l.
Definition bval (a : big) : Z := if bpos a then Z.of_N (lval (limbs a)) else (- Z.of_N (lval (limbs a)))%Z.

(* ---- shrink_to_fit (l.376): drop leading (most significant) zero limbs, keep one ---- *)
Definition strip (l : list N) : list N :=
  fold_right (fun x acc => match acc with [] => if x =? 0 then [] else [x] | _ => x :: acc end) [] l.
Definition shrink (l : list N) : list N :=
  match strip l with [] => (match l with [] => [] | _ => [0] end) | s => s end.

(* representation invariant (l.75-79): limbs < 2^32, at least one, no leading zero limb unless the
   number is the single limb 0, and zero is non-negative *)
Definition normal (l : list N) : Prop := limbs_ok l /\ l <> [] /\ shrink l = l.
Definition wf (a : big) : Prop := normal (limbs a) /\ (limbs a = [0] -> bpos a = true).
Definition normalb (l : list N) : bool :=
  forallb (fun x => x <? B) l && negb (match l with [] => true | _ => false end)
  && (if list_eq_dec N.eq_dec (shrink l) l then true else false).
Definition wfb (a : big) : bool :=
  normalb (limbs a) && (if list_eq_dec N.eq_dec (limbs a) [0] then bpos a else true).

(* ---- add_core (l.392-416): v = vec![0; max+1], carry written into v[i+1] ---- *)
Fixpoint carry1 (a : list N) (c : N) : list N :=      (* second loop: the longer operand alone *)
  match a with
  | [] => [c]
  | x :: a' => let t := x + c in
               if B <=? t then (t - B) :: carry1 a' 1 else t :: carry1 a' 0
  end.
Fixpoint add_carry (a b : list N) (c : N) : list N :=
  match a, b with
  | [], _ => carry1 b c
  | _, [] => carry1 a c
  | x :: a', y :: b' => let t := x + y + c in
                   if B <=? t then (t - B) :: add_carry a' b' 1 else t :: add_carry a' b' 0
  end.
Definition add_core (a b : list N) : list N := add_carry a b 0.

(* ---- less_core (l.520-543): skip leading zeros, compare lengths, then limbs from the top ---- *)
Fixpoint lt_be (a b : list N) : bool :=   (* big-endian lexicographic, equal lengths *)
  match a, b with
  | x :: a', y :: b' => if x =? y then lt_be a' b' else x <? y
  | _, _ => false
  end.
Definition less_core (l r : list N) : bool :=
  let a := shrink l in let b := shrink r in
  if Nat.eqb (length a) (length b) then lt_be (rev a) (rev b) else Nat.ltb (length a) (length b).
Definition less_core_safe (l r : list N) : Prop := l <> [] /\ r <> [].   (* len()-1 underflow *)

(* ---- sub_core (l.425-454): swap so that a >= b, borrow written into v[i+1] ---- *)
Fixpoint sub_borrow (a b : list N) (c : N) : list N :=
  match a, b with
  | [], _ => [c]                       (* b <> [] here is an index panic: see sub_core_safe *)
  | x :: a', [] => if x <? c then (x + B - c) :: sub_borrow a' [] 1 else (x - c) :: sub_borrow a' [] 0
  | x :: a', y :: b' => if x <? y + c then (x + B - y - c) :: sub_borrow a' b' 1
                        else (x - y - c) :: sub_borrow a' b' 0
  end.
Definition sub_core (l r : list N) : list N * bool :=
  if less_core l r then (sub_borrow r l 0, true) else (sub_borrow l r 0, false).
(* v has max(len)+1 cells; a[i] for i < b.len() must be in range *)
Definition sub_core_safe (l r : list N) : Prop :=
  less_core_safe l r /\ (if less_core l r then length l <= length r else length r <= length l)%nat.
Definition pad_to (n : nat) (l : list N) : list N := l ++ repeat 0 (n - length l).
Definition sub_core_vec (l r : list N) : list N * bool :=
  let (v, s) := sub_core l r in (pad_to (S (Nat.max (length l) (length r))) v, s).

(* ---- mult_core (l.467-485): u64 accumulator vector, inner loop as a function on v[i..] ---- *)
Fixpoint row (x : N) (ys : list N) (w : list N) : list N :=
  match ys, w with
  | [], _ => w
  | y :: ys', w0 :: w1 :: ws =>
      let t := x * y in
      let a := w0 + t mod B in
      let b := w1 + t / B + a / B in
      (a mod B) :: row x ys' (b :: ws)
  | _, _ => w   (* unreachable: the vector has lhs.len()+rhs.len()+1 cells *)
  end.
Fixpoint mult_rows (xs ys w : list N) : list N :=
  match xs with
  | [] => w
  | x :: xs' =>
      match (if x =? 0 then w else row x ys w) with
      | [] => []
      | w0 :: w' => w0 :: mult_rows xs' ys w'
      end
  end.
Definition mult_acc (a b : list N) : list N := mult_rows a b (repeat 0 (length a + length b + 1)).
Definition mult_core (a b : list N) : list N := map (fun x => x mod B) (mult_acc a b).  (* `as u32` *)

(* ---- div_core (l.498-511): bitwise quotient search ---- *)
Definition upd (v : list N) (i : nat) (f : N -> N) : list N :=
  firstn i v ++ match skipn i v with [] => [] | x :: r => f x :: r end.
Definition div_step (lhs rhs : list N) (v : list N) (ij : nat * nat) : list N :=
  let (i, j) := ij in
  let v1 := upd v i (fun x => x + 2 ^ N.of_nat j) in
  if less_core lhs (mult_core v1 rhs) then upd v1 i (fun x => x - 2 ^ N.of_nat j) else v1.
Definition bits_desc : list nat := rev (seq 0 32).
Definition div_order (n : nat) : list (nat * nat) :=
  flat_map (fun i => map (fun j => (i, j)) bits_desc) (rev (seq 0 n)).
Definition div_core (lhs rhs : list N) : list N :=
  fold_left (div_step lhs rhs) (div_order (Nat.max (length lhs) (length rhs)))
            (repeat 0 (Nat.max (length lhs) (length rhs))).

(* ---- public API ---- *)
Definition is_zero (a : big) : bool := if list_eq_dec N.eq_dec (limbs a) [0] then true else false.
Definition from_vec (v : list N) : big := mkbig true (shrink v).
Definition bminus (a : big) : big := if is_zero a then a else mkbig (negb (bpos a)) (limbs a).
Definition bneg (a : big) : big := bminus a.
Definition shrink_big (a : big) : big := mkbig (bpos a) (shrink (limbs a)).
Definition bzero : big := mkbig true [0].
Definition bone : big := mkbig true [1].

Definition flip_if (b : bool) (a : big) : big := if b then bminus a else a.

Definition badd (l r : big) : big :=
  match bpos l, bpos r with
  | true, true => shrink_big (flip_if false (from_vec (add_core (limbs l) (limbs r))))
  | true, false => let (t, s) := sub_core (limbs l) (limbs r) in shrink_big (flip_if s (from_vec t))
  | false, true => let (t, s) := sub_core (limbs l) (limbs r) in shrink_big (flip_if (xorb s true) (from_vec t))
  | false, false => shrink_big (flip_if true (from_vec (add_core (limbs l) (limbs r))))
  end.
Definition bsub (l r : big) : big :=
  match bpos l, bpos r with
  | true, false => shrink_big (flip_if false (from_vec (add_core (limbs l) (limbs r))))
  | true, true => let (t, s) := sub_core (limbs l) (limbs r) in shrink_big (flip_if s (from_vec t))
  | false, false => let (t, s) := sub_core (limbs l) (limbs r) in shrink_big (flip_if (xorb s true) (from_vec t))
  | false, true => shrink_big (flip_if true (from_vec (add_core (limbs l) (limbs r))))
  end.
Definition bmul (l r : big) : big :=
  flip_if (xorb (bpos l) (bpos r)) (from_vec (mult_core (limbs l) (limbs r))).
Definition bdiv (l r : big) : big :=
  flip_if (xorb (bpos l) (bpos r)) (from_vec (div_core (limbs l) (limbs r))).
Definition brem (l r : big) : big := bsub l (bmul (bdiv l r) r).

Definition beq (a b : big) : bool :=
  if is_zero a && is_zero b then true
  else Bool.eqb (bpos a) (bpos b) && (if list_eq_dec N.eq_dec (limbs a) (limbs b) then true else false).
Definition bcmp (a b : big) : comparison :=
  if beq a b then Eq
  else if (if bpos a then (if bpos b then less_core (limbs a) (limbs b) else false)
           else if bpos b then true else less_core (limbs b) (limbs a))
       then Lt else Gt.

(* bgcd (l.772-784): Euclid on signed values with truncating remainder; [None] = out of fuel *)
Fixpoint gcd_fuel (fuel : nat) (a b : big) : option big :=
  match fuel with
  | O => None
  | S f => if is_zero b then Some a else gcd_fuel f b (brem a b)
  end.
Definition gcd_bound (b : big) : nat := 64 * length (limbs b) + 2.
Definition bgcd (a b : big) : option big := gcd_fuel (gcd_bound b) a b.

(* bnew(isize) after the D1 repair: all limbs of |n| (n.unsigned_abs() as u128, >>= 32 loop) *)
Fixpoint to_limbs (fuel : nat) (m : N) : list N :=
  match fuel with
  | O => []
  | S f => (m mod B) :: (if m / B =? 0 then [] else to_limbs f (m / B))
  end.
Definition bnew (n : Z) : big := mkbig (0 <=? n)%Z (to_limbs 4 (Z.abs_N n)).
(* the pinned code: `n as u32` / `(-n) as u32` — kept for the refutation witness *)
Definition new_pre_fix (n : Z) : big := mkbig (0 <=? n)%Z [Z.abs_N n mod B].

Definition to_int (a : big) : N := hd 0 (limbs a).
