(* L1 model of the command-line paths `hyeong run -O<level> FILE` and `hyeong check FILE`
   (src/main.rs, src/app/run.rs, src/app/check.rs, src/util/io.rs read_file/handle) — definitions only. *)
From Coq Require Import List NArith ZArith Bool.
Import ListNotations.
From HV Require Import Model.Big Model.Rat Model.NumText Model.Chars Model.Parse Model.Exec Model.Opt Model.Utf8.
Open Scope N_scope.

Inductive file_in :=
| FUnreadable                                   (* File::open / read fails *)
| FBytes (has_ext : bool) (bytes : list N).     (* has_ext: the path ends in .hyeong *)

Inductive diag := DgFile | DgExt | DgUtf8File | DgUtf8Stdin | DgEnc (n : N).
Inductive cli_out :=
| CExit (c : N) (out err : list N)              (* status 0, or the status the program requested; bytes written *)
| CDiag (k : diag) (out err : list N)           (* status 1 after a diagnostic on stderr; program bytes written before *)
| CPanic
| CRunning.                                     (* the step budget ran out: the program is still running *)

Definition run_cli (level : N) (file : file_in) (stdin : list N) (fuel : nat) : cli_out :=
  match file with
  | FUnreadable => CDiag DgFile [] []
  | FBytes false _ => CDiag DgExt [] []
  | FBytes true b =>
      match decode b with
      | None => CDiag DgUtf8File [] []
      | Some text =>
          match run_level all_fixed fuel (parse text) level (stdin_lines stdin) with
          | FDone s => CExit 0 (encode (rev (outb s))) (encode (rev (errb s)))
          | FExit c s => CExit c (encode (rev (outb s))) (encode (rev (errb s)))
          | FErr (EEnc n) s => CDiag (DgEnc n) (encode (rev (outb s))) (encode (rev (errb s)))
          | FErr EIo s => CDiag DgUtf8Stdin (encode (rev (outb s))) (encode (rev (errb s)))
          | FFuel _ _ => CRunning
          | FPanic _ => CPanic
          end
      end
  end.

(* `check`: parse and list; the listing itself is covered by C08 *)
Definition check_cli (file : file_in) : cli_out :=
  match file with
  | FUnreadable => CDiag DgFile [] []
  | FBytes false _ => CDiag DgExt [] []
  | FBytes true b => match decode b with None => CDiag DgUtf8File [] [] | Some text => CExit 0 [] [] end
  end.
