(* L1 model of src/app/debug.rs (the debugger loop) — definitions only.
   The transcript is a list of abstract events; tools/hv/dbgchecks.py renders them to text.
   Follows the tree with the D11 repair (`break N` rejects N >= number of commands) and the D13 repair
   (buffered output is flushed before an error ends the session); [fx11]/[fx13] = false give the pinned code. *)
From Coq Require Import List NArith ZArith Bool.
Import ListNotations.
From HV Require Import Model.Big Model.Rat Model.NumText Model.Chars Model.Parse Model.Exec Model.Repl.
Open Scope N_scope.

Inductive ierr := IEmpty | IInvalid | IOverflow.     (* ParseIntError kinds of usize::from_str *)
Definition USIZE_MAX : N := 18446744073709551615.
Fixpoint digits_acc (l : list N) (acc : N) : option N + ierr :=     (* inl None: still fine *)
  match l with
  | [] => inl (Some acc)
  | c :: r => if (48 <=? c) && (c <=? 57) then
                let v := acc * 10 + (c - 48) in
                if USIZE_MAX <? v then inr IOverflow else digits_acc r v
              else inr IInvalid
  end.
Definition parse_usize (w : list N) : N + ierr :=
  match w with
  | [] => inr IEmpty
  | c :: r => let body := if c =? 43 then r else w in     (* a leading '+' is accepted *)
              match body with
              | [] => inr IInvalid
              | _ => (* Rust checks every digit before reporting overflow only if digits are valid so far *)
                     match digits_acc body 0 with
                     | inl (Some v) => inl v
                     | inl None => inr IInvalid
                     | inr e => inr e
                     end
              end
  end.

(* str::split(' ') *)
Fixpoint split_sp (l : list N) (cur : list N) : list (list N) :=
  match l with
  | [] => [rev cur]
  | c :: r => if c =? 32 then rev cur :: split_sp r [] else split_sp r (c :: cur)
  end.

Inductive devent :=
| DvPrompt
| DvShowCode (idx : list N)            (* print_un_opt_codes with raw texts, for these command indices *)
| DvFlush (o e : list N)               (* [stdout] / [stderr] lines, each if non-empty *)
| DvMovedBack | DvCantGoBack
| DvState (steps : N)                  (* Debug dump of the state reached after that many executed steps *)
| DvListBreaks
| DvIntErr (e : ierr) | DvRange | DvSet (n : N) | DvUnset (n : N)
| DvHelp
| DvNotFound (w : list N).
Inductive dend := DEof | DQuit | DFinished | DProgExit (c : N) | DFail (e : errkind) | DPanic | DFuelOut.

Record dstate := mkd {
  hist : list (state * N);        (* newest first; never empty *)
  brk : list N;                   (* breakpoint set *)
  running : bool;
  dio : state                     (* only its outb/errb are used: the two capture buffers *)
}.
Definition w_next : list N := [110; 101; 120; 116].
Definition w_previous : list N := [112; 114; 101; 118; 105; 111; 117; 115].
Definition w_run : list N := [114; 117; 110].
Definition w_state : list N := [115; 116; 97; 116; 101].
Definition w_break : list N := [98; 114; 101; 97; 107].
Definition w_help : list N := [104; 101; 108; 112].
Definition w_exit : list N := [101; 120; 105; 116].
Definition is_word (t : list N) (full : list N) (abbr : N) : bool := leqb t full || leqb t [abbr].

Fixpoint ins_asc (x : N) (l : list N) : list N :=
  match l with [] => [x] | y :: r => if x <=? y then x :: l else y :: ins_asc x r end.
Definition sort_asc (l : list N) : list N := fold_right ins_asc [] l.
Definition mem_N (x : N) (l : list N) : bool := existsb (N.eqb x) l.
Definition remove_N (x : N) (l : list N) : list N := filter (fun y => negb (y =? x)) l.

(* one execute_one on a clone of the newest snapshot, with the session's capture buffers *)
Definition dstep (code : list xcode) (d : dstate) : (state * N * state) + (final) :=
  match hist d with
  | [] => inr (FPanic (dio d))
  | (s, pc) :: _ =>
      match nth_error code (N.to_nat pc) with
      | None => inr (FPanic (dio d))
      | Some c =>
          let s_io := mkstate (skind_ s) (stacks s) (cur s) (points s) (latest s) (inp s) (outb (dio d)) (errb (dio d)) in
          match execute_one c pc s_io with
          | ROk pc' s' => inl (s', pc', s')
          | RExit k s' => inr (FExit k s')
          | RErr e s' => inr (FErr e s')
          end
      end
  end.
Definition flushed (io : state) : devent := DvFlush (rev (outb io)) (rev (errb io)).
Definition clear_io (io : state) : state := with_fresh_io io.

(* one iteration of the main loop: the events it shows and either the end of the session or the lines still to
   be read together with the next debugger state *)
Definition dtrans (fx11 fx13 : bool) (code : list xcode) (lines : list (list N)) (d : dstate)
  : list devent * (dend + (list (list N) * dstate)) :=
  match hist d with
  | [] => ([], inl DPanic)
  | (s, pc) :: older =>
    let len := N.of_nat (length code) in
    if len <=? pc then ([flushed (dio d)], inl DFinished)
    else if running d then
      if mem_N pc (brk d) then ([flushed (dio d)], inr (lines, mkd (hist d) (brk d) false (clear_io (dio d))))
      else match dstep code d with
           | inl (s', pc', io') => ([], inr (lines, mkd ((s', pc') :: hist d) (brk d) true io'))
           | inr (FExit k io') => ([flushed io'], inl (DProgExit k))
           | inr (FErr e io') => ((if fx13 then [flushed io'] else []), inl (DFail e))
           | inr _ => ([], inl DPanic)
           end
    else
      match lines with
      | [] => ([DvPrompt], inl DEof)
      | line :: rest =>
        let toks := split_sp (trim line) [] in
        let t0 := hd [] toks in
        let again evs := (DvPrompt :: evs, inr (rest, d)) in
        if is_word t0 w_next 110 then
          match dstep code d with
          | inl (s', pc', io') =>
              ([DvPrompt; DvShowCode [pc]; flushed io'], inr (rest, mkd ((s', pc') :: hist d) (brk d) false (clear_io io')))
          | inr (FExit k io') => ([DvPrompt; DvShowCode [pc]; flushed io'], inl (DProgExit k))
          | inr (FErr e io') => ([DvPrompt; DvShowCode [pc]] ++ (if fx13 then [flushed io'] else []), inl (DFail e))
          | inr _ => ([DvPrompt], inl DPanic)
          end
        else if is_word t0 w_previous 112 then
          match older with
          | [] => again [DvCantGoBack]
          | _ => ([DvPrompt; DvMovedBack], inr (rest, mkd older (brk d) false (dio d)))
          end
        else if is_word t0 w_run 114 then
          match dstep code d with
          | inl (s', pc', io') => ([DvPrompt], inr (rest, mkd ((s', pc') :: hist d) (brk d) true io'))
          | inr (FExit k io') => ([DvPrompt; flushed io'], inl (DProgExit k))
          | inr (FErr e io') => (DvPrompt :: (if fx13 then [flushed io'] else []), inl (DFail e))
          | inr _ => ([DvPrompt], inl DPanic)
          end
        else if is_word t0 w_state 115 then again [DvState (N.of_nat (length older))]
        else if is_word t0 w_break 98 then
          match tl toks with
          | [] => if forallb (fun i => i <? len) (brk d) then again [DvListBreaks; DvShowCode (sort_asc (brk d))]
                  else ([DvPrompt], inl DPanic)
          | w :: _ =>
              match parse_usize w with
              | inr e => again [DvIntErr e]
              | inl n =>
                  if (if fx11 then len <=? n else len <? n) then again [DvRange]
                  else if mem_N n (brk d) then ([DvPrompt; DvUnset n], inr (rest, mkd (hist d) (remove_N n (brk d)) false (dio d)))
                  else ([DvPrompt; DvSet n], inr (rest, mkd (hist d) (n :: brk d) false (dio d)))
              end
          end
        else if is_word t0 w_help 104 then again [DvHelp]
        else if leqb t0 w_exit then ([DvPrompt], inl DQuit)
        else if leqb t0 [] then again []
        else again [DvNotFound t0]
      end
  end.

Fixpoint dloop (fx11 fx13 : bool) (fuel : nat) (code : list xcode) (lines : list (list N)) (d : dstate)
  : list devent * dend :=
  match fuel with
  | O => ([], DFuelOut)
  | S f => match dtrans fx11 fx13 code lines d with
           | (evs, inl e) => (evs, e)
           | (evs, inr (lines', d')) => let (ev, e) := dloop fx11 fx13 f code lines' d' in (evs ++ ev, e)
           end
  end.

Definition debug_run (fx11 fx13 : bool) (fuel : nat) (code : list xcode) (lines : list (list N)) : list devent * dend :=
  dloop fx11 fx13 fuel code lines (mkd [(state0 SUnopt [], 0)] [0] false (state0 SUnopt [])).
