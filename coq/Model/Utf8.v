(* UTF-8 as Rust's std decodes/encodes it (String::from_utf8 / char::encode_utf8): shortest form only,
   no surrogates, at most U+10FFFF.  Bytes and scalar values are [N].  Definitions only.
   This is the documented behaviour of std, entered as an explicit function (trusted base), not as an axiom. *)
From Coq Require Import List NArith Bool.
Import ListNotations.
Open Scope N_scope.

Definition is_scalar_value (c : N) : bool := ((c <? 55296) || (57343 <? c)) && (c <=? 1114111).

Definition encode1 (c : N) : list N :=
  if c <? 128 then [c]
  else if c <? 2048 then [192 + c / 64; 128 + c mod 64]
  else if c <? 65536 then [224 + c / 4096; 128 + (c / 64) mod 64; 128 + c mod 64]
  else [240 + c / 262144; 128 + (c / 4096) mod 64; 128 + (c / 64) mod 64; 128 + c mod 64].
Definition encode (t : list N) : list N := flat_map encode1 t.

Definition is_cont (b : N) : bool := (128 <=? b) && (b <? 192).
(* decode the first character: (scalar value, remaining bytes) *)
Definition decode1 (l : list N) : option (N * list N) :=
  match l with
  | [] => None
  | b0 :: r =>
      if b0 <? 128 then Some (b0, r)
      else if b0 <? 194 then None                                  (* continuation byte or overlong 2-byte lead *)
      else if b0 <? 224 then
        match r with
        | b1 :: r1 => if is_cont b1 then Some ((b0 - 192) * 64 + (b1 - 128), r1) else None
        | _ => None
        end
      else if b0 <? 240 then
        match r with
        | b1 :: b2 :: r2 =>
            if is_cont b1 && is_cont b2 then
              let c := (b0 - 224) * 4096 + (b1 - 128) * 64 + (b2 - 128) in
              if (2048 <=? c) && is_scalar_value c then Some (c, r2) else None
            else None
        | _ => None
        end
      else if b0 <? 245 then
        match r with
        | b1 :: b2 :: b3 :: r3 =>
            if is_cont b1 && is_cont b2 && is_cont b3 then
              let c := (b0 - 240) * 262144 + (b1 - 128) * 4096 + (b2 - 128) * 64 + (b3 - 128) in
              if (65536 <=? c) && (c <=? 1114111) then Some (c, r3) else None
            else None
        | _ => None
        end
      else None
  end.
Fixpoint decode_fuel (fuel : nat) (l : list N) : option (list N) :=
  match l with
  | [] => Some []
  | _ => match fuel with
         | O => None
         | S f => match decode1 l with
                  | Some (c, r) => match decode_fuel f r with Some t => Some (c :: t) | None => None end
                  | None => None
                  end
         end
  end.
Definition decode (l : list N) : option (list N) := decode_fuel (length l) l.

(* Stdin::read_line: the bytes up to and including the next 0x0A (or to the end), decoded as one unit *)
Fixpoint split_nl (l : list N) (cur : list N) : list (list N) :=
  match l with
  | [] => match cur with [] => [] | _ => [rev cur] end
  | b :: r => if b =? 10 then rev (b :: cur) :: split_nl r [] else split_nl r (b :: cur)
  end.
Definition stdin_lines (bytes : list N) : list (option (list N)) := map decode (split_nl bytes []).
