(* L1 model of src/core/compile.rs: build_source as a function to a small IR (not to text), and the
   semantics of the emitted program ([ir_run]) transcribing the prelude and the driver loop
   `while state < n { if/else dispatch; state += 1 }` with `continue` on jumps.  Definitions only.
   Follows the tree with the D8/D9 repairs (start block and white-heart target are block indices computed from
   the block partition); [fx89 = false] gives the pinned code.  (D10, the format-string defect, lives in the
   text of the emitted source and is decided by the rustc run of tools/hv/compchecks.py.) *)
From Coq Require Import List NArith ZArith Bool.
Import ListNotations.
From HV Require Import Model.Big Model.Rat Model.NumText Model.Chars Model.Parse Model.Exec Model.Opt.
Open Scope N_scope.

Definition has_area (c : xcode) : bool := match xar c with Nil => false | _ => true end.

(* the block partition (l.385-456): an area-carrying command is a block by itself, maximal area-free runs are blocks;
   [cur] is the current (reversed) block *)
Fixpoint blk (code : list xcode) (cur : list xcode) : list (list xcode) :=
  match code with
  | [] => match cur with [] => [] | _ => [rev cur] end
  | c :: r => if has_area c then (match cur with [] => [] | _ => [rev cur] end) ++ [c] :: blk r []
              else blk r (c :: cur)
  end.
Definition blocks (code : list xcode) : list (list xcode) := blk code [].

(* block index of the command at index i of [code] (used for label targets: only area-carrying commands) *)
Fixpoint block_of (code : list xcode) (cur_nonempty : bool) (i : nat) (b : N) : N :=
  match code, i with
  | [], _ => b
  | c :: r, O => if has_area c then (if cur_nonempty then b + 1 else b) else b
  | c :: r, S j => if has_area c then block_of r false j ((if cur_nonempty then b + 1 else b) + 1)
                   else block_of r true j b
  end.
Definition block_index (code : list xcode) (i : N) : N := block_of code false (N.to_nat i) 0.

(* the if/else dispatch tree over block indices (l.458-499), as the balanced split it implements *)
Inductive dtree := DLeaf (b : N) | DNode (bound : N) (lo hi : dtree).
Fixpoint build_tree (fuel : nat) (n base : N) : dtree :=
  match fuel with
  | O => DLeaf base
  | S f => if n <=? 1 then DLeaf base
           else let h := n / 2 in DNode (base + h) (build_tree f h base) (build_tree f (n - h) (base + h))
  end.
Definition dispatch_tree (n : N) : dtree := build_tree (N.to_nat n) n 0.
Fixpoint tree_select (t : dtree) (st : N) : N :=
  match t with DLeaf b => b | DNode bound lo hi => if st <? bound then tree_select lo st else tree_select hi st end.

(* the serialised pre-state of a level-2 program *)
Record irprog := mkir {
  ir_blocks : list (list xcode);
  ir_kind : skind;                       (* hash-map (level 0) or vector of that size *)
  ir_stacks : list (N * list (list N));  (* stack contents as number texts, bottom first *)
  ir_cur : N;
  ir_last : option N;                    (* white-heart target: a BLOCK index *)
  ir_points : list (N * N);              (* label id -> BLOCK index *)
  ir_start : N;                          (* first block to run *)
  ir_out : list N; ir_err : list N       (* text printed first (captured by the pre-executed prefix) *)
}.

Definition ser_stack (l : list num) : list (list N) := map num_display (rev l).
Definition nonempty_stacks (s : state) : list (N * list num) := filter (fun p => match snd p with [] => false | _ => true end) (stacks s).

Definition build_ir (fx89 : bool) (level : N) (s : state) (log rest : list xcode) : irprog :=
  if level <? 2 then
    mkir (blocks rest) (skind_ s) [] 3 None [] 0 [] []
  else if (match rest with [] => true | _ => false end) then
    (* `if !code.is_empty()`: nothing but the captured output is emitted when the whole program was pre-executed *)
    mkir [] (skind_ s) [] 3 None [] 0 (rev (outb s)) (rev (errb s))
  else
    let pre := blocks log in
    let all := pre ++ blocks rest in
    let tr := fun i => block_index log i in
    mkir all (skind_ s)
         (map (fun p => (fst p, ser_stack (snd p))) (nonempty_stacks s))
         (cur s)
         (if fx89 then option_map tr (latest s) else latest s)
         (map (fun p => (fst p, tr (snd p))) (points s))
         (if fx89 then N.of_nat (length pre)
          else N.of_nat (length pre) + (match rev log with c :: _ => if has_area c then 1 else 0 | [] => 1 end))
         (rev (outb s)) (rev (errb s)).

(* what app/build.rs feeds to build_source at each level *)
Definition compile_prog (fx : fixes) (fx89 : bool) (code : list ucode) (level : N) : option irprog :=
  if level =? 0 then Some (build_ir fx89 0 (state0 SUnopt []) [] (map xcode_of_ucode code))
  else match optimize_prog fx code level [] with
       | OptOk r => Some (build_ir fx89 level (ostate r) (olog r) (orest r))
       | _ => None
       end.

(* ---- semantics of the emitted program ---- *)
(* the initial run-time state: stacks rebuilt with Num::from_string, labels and last jump as emitted *)
Definition deser_stack (l : list (list N)) : option (list num) :=
  fold_left (fun acc t => match acc, num_from_string t with Some a, Some x => Some (x :: a) | _, _ => None end) l (Some []).
Fixpoint deser_all (l : list (N * list (list N))) : option (list (N * list num)) :=
  match l with
  | [] => Some []
  | (i, t) :: r => match deser_stack t, deser_all r with Some v, Some m => Some ((i, v) :: m) | _, _ => None end
  end.

(* one block: its commands in order; an area-carrying command ends with the label/jump logic over BLOCK indices.
   Uses the interpreter's command semantics (the per-command templates mirror execute_one line by line). *)
Fixpoint run_block (cmds : list xcode) (b : N) : M N :=
  match cmds with
  | [] => ret (b + 1)
  | c :: r => bind (execute_one c b) (fun nb => if nb =? b + 1 then run_block r b else ret nb)
  end.

Inductive irfinal := IDone (s : state) | IExit (c : N) (s : state) | IAbort (n : N) (s : state) | IIoErr (s : state)
                   | IFuel (s : state) | IBadState.

Fixpoint ir_loop (fuel : nat) (p : irprog) (s : state) (b : N) : irfinal :=
  match fuel with
  | O => IFuel s
  | S f =>
      let n := N.of_nat (length (ir_blocks p)) in
      if n <=? b then IDone s
      else match nth_error (ir_blocks p) (N.to_nat (tree_select (dispatch_tree n) b)) with
           | None => IBadState
           | Some cmds => match run_block cmds b s with
                          | ROk b' s' => ir_loop f p s' b'
                          | RExit c s' => IExit c s'
                          | RErr (EEnc k) s' => IAbort k s'          (* from_u32(..).unwrap() panics *)
                          | RErr EIo s' => IIoErr s'                  (* read_line(..).unwrap() panics *)
                          end
           end
  end.

Definition ir_run (fuel : nat) (p : irprog) (input : list (option (list N))) : irfinal :=
  match deser_all (ir_stacks p) with
  | None => IBadState
  | Some st =>
      ir_loop fuel p (mkstate (ir_kind p) st (ir_cur p) (ir_points p) (ir_last p) input (rev (ir_out p)) (rev (ir_err p)))
              (ir_start p)
  end.
