(* L1 model of src/app/check.rs print_un_opt_codes — the listing printed by `hyeong check FILE` (raw = false) and by the
   debugger when it echoes commands (raw = true) — definitions only.  Colours are not modelled (--color never).
   usize subtraction is modelled with its failure: an underflow of a padding width is a panic ([None]). *)
From Coq Require Import List NArith ZArith Bool.
Import ListNotations.
From HV Require Import Model.Chars Model.Parse Spec.Lang.
Open Scope N_scope.

Definition dlen (n : N) : N := N.of_nat (length (dec_N n)).           (* n.to_string().len() *)
Definition usub (a b : N) : option N := if b <=? a then Some (a - b) else None.    (* usize `-` with overflow checks *)
Definition spaces (n : N) : list N := repeat 32 (N.to_nat n).

(* first loop: widths *)
Definition idx_width (es : list (N * ucode)) : N := fold_left (fun m e => N.max m (dlen (fst e))) es 0.
Definition loc_width (es : list (N * ucode)) : N :=
  fold_left (fun m e => N.max m (dlen (fst (loc (snd e))) + dlen (snd (loc (snd e))))) es 0.

(* raw source, or "{COMMANDS[type]}_{syllables}_{dots} {area}" — indexing COMMANDS out of range is a panic *)
Definition entry_tail (rawmode : bool) (c : ucode) : option (list N) :=
  if rawmode then Some (raw c)
  else match nth_error SINGLE (N.to_nat (ty c)) with
       | Some ch => Some ([ch] ++ [95] ++ dec_N (hc c) ++ [95] ++ dec_N (dc c) ++ [32] ++ area_display (ar c))
       | None => None
       end.

(* one row: "{i}{pad} | {file}:{line}:{col}{pad}  {tail}\n" *)
Definition listing_row (rawmode : bool) (fname : list N) (iw lw : N) (e : N * ucode) : option (list N) :=
  let (i, c) := e in
  let (l, k) := loc c in
  match usub iw (dlen i), usub lw (dlen l) with
  | Some p1, Some q =>
      match usub q (dlen k), entry_tail rawmode c with
      | Some p2, Some tl => Some (dec_N i ++ spaces p1 ++ [32; 124; 32] ++ fname ++ [58] ++ dec_N l ++ [58] ++ dec_N k ++ spaces p2 ++ [32; 32]
                                  ++ tl ++ [10])
      | _, _ => None
      end
  | _, _ => None
  end.

Fixpoint listing_rows (rawmode : bool) (fname : list N) (iw lw : N) (es : list (N * ucode)) : option (list N) :=
  match es with
  | [] => Some []
  | e :: r => match listing_row rawmode fname iw lw e, listing_rows rawmode fname iw lw r with
              | Some a, Some b => Some (a ++ b)
              | _, _ => None
              end
  end.

Definition listing_text (rawmode : bool) (fname : list N) (es : list (N * ucode)) : option (list N) :=
  listing_rows rawmode fname (idx_width es) (loc_width es) es.

(* `check`: all commands of the file, numbered from 0 *)
Fixpoint enumerate_from {A} (i : N) (l : list A) : list (N * A) :=
  match l with [] => [] | x :: r => (i, x) :: enumerate_from (i + 1) r end.
Definition check_listing (fname text : list N) : option (list N) := listing_text false fname (enumerate_from 0 (parse text)).
