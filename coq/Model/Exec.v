(* L1 model of src/core/state.rs, src/core/area.rs (calc) and src/core/execute.rs — definitions only.
   The interpreter state carries its I/O: remaining stdin lines, text written so far to stdout/stderr.
   Rust's `?` early returns and process::exit are the [RExit]/[RErr] results of a small state monad. *)
From Coq Require Import List NArith ZArith Bool.
Import ListNotations.
From HV Require Import Model.Big Model.Rat Model.NumText Model.Chars Model.Parse.
Open Scope N_scope.

(* a command as the executor sees it (Code trait): UnOptCode has area_count = hangul*dot, OptCode stores it *)
Record xcode := mkxcode { xty : N; xhc : N; xdc : N; xac : N; xar : area }.
Definition xcode_of_ucode (u : ucode) : xcode := mkxcode (ty u) (hc u) (dc u) (hc u * dc u) (ar u).

Inductive errkind :=
| EEnc (n : N)        (* value is not a Unicode scalar value: "utf-8 encoding error" *)
| EIo.                (* stdin line is not valid UTF-8 *)

(* state.rs: which container backs the stacks *)
Inductive skind := SUnopt | SOpt (size : N).

Record state := mkstate {
  skind_ : skind;
  stacks : list (N * list num);          (* association list; top of a stack = head of its list *)
  cur : N;
  points : list (N * N);                 (* label id -> command index *)
  latest : option N;
  inp : list (option (list N));          (* remaining stdin lines with terminators; None = not valid UTF-8 *)
  outb : list N;                         (* code points written to stdout so far, reversed *)
  errb : list N                          (* ... to stderr, reversed *)
}.
Definition state0 (k : skind) (input : list (option (list N))) : state := mkstate k [] 3 [] None input [] [].

Inductive res (A : Type) :=
| ROk (a : A) (s : state)
| RExit (code : N) (s : state)
| RErr (e : errkind) (s : state).
Arguments ROk {A}. Arguments RExit {A}. Arguments RErr {A}.
Definition M (A : Type) := state -> res A.
Definition ret {A} (a : A) : M A := fun s => ROk a s.
Definition bind {A B} (m : M A) (f : A -> M B) : M B :=
  fun s => match m s with ROk a s' => f a s' | RExit c s' => RExit c s' | RErr e s' => RErr e s' end.

(* ---- stacks ---- *)
Fixpoint alist_get {V} (l : list (N * V)) (k : N) : option V :=
  match l with [] => None | (k', v) :: r => if k' =? k then Some v else alist_get r k end.
Fixpoint alist_set {V} (l : list (N * V)) (k : N) (v : V) : list (N * V) :=
  match l with
  | [] => [(k, v)]
  | (k', v') :: r => if k' =? k then (k, v) :: r else (k', v') :: alist_set r k v
  end.
Definition get_stack (s : state) (i : N) : list num := match alist_get (stacks s) i with Some l => l | None => [] end.
Definition set_stack (s : state) (i : N) (l : list num) : state :=
  mkstate (skind_ s) (alist_set (stacks s) i l) (cur s) (points s) (latest s) (inp s) (outb s) (errb s).
Definition in_range (s : state) (i : N) : bool := match skind_ s with SUnopt => true | SOpt n => i <? n end.

(* State::push_stack / pop_stack (l.23-35; OptState l.126-142: out-of-range index = no-op / NaN) *)
Definition push_stack (i : N) (x : num) : M unit := fun s =>
  if in_range s i then
    let st := get_stack s i in
    match st with
    | [] => if is_nan x then ROk tt s else ROk tt (set_stack s i [x])
    | _ => ROk tt (set_stack s i (x :: st))
    end
  else ROk tt s.
Definition pop_stack (i : N) : M num := fun s =>
  if in_range s i then
    match get_stack s i with
    | [] => ROk nan s
    | x :: r => ROk x (set_stack s i r)
    end
  else ROk nan s.

(* ---- output ---- *)
Definition is_scalar (n : N) : bool := ((n <? 55296) || (57343 <? n)) && (n <=? 1114111).
(* ext::num_to_unicode: lowest limb of floor, then char::from_u32 *)
Definition num_to_unicode (x : num) : N + N :=
  let n := to_int (floor x) in if is_scalar n then inl n else inr n.
Definition write_out (to_err : bool) (txt : list N) : M unit := fun s =>
  if to_err then ROk tt (mkstate (skind_ s) (stacks s) (cur s) (points s) (latest s) (inp s) (outb s) (rev txt ++ errb s))
  else ROk tt (mkstate (skind_ s) (stacks s) (cur s) (points s) (latest s) (inp s) (rev txt ++ outb s) (errb s)).
Definition fail {A} (e : errkind) : M A := fun s => RErr e s.
Definition exit_ {A} (c : N) : M A := fun s => RExit c s.

(* push_stack_wrap (l.30-56) *)
Definition push_wrap (i : N) (x : num) : M unit :=
  if (i =? 1) || (i =? 2) then
    if is_pos x then
      match num_to_unicode x with
      | inl c => write_out (i =? 2) [c]
      | inr n => fail (EEnc n)
      end
    else write_out (i =? 2) (num_display (nneg x))
  else push_stack i x.

(* pop_stack_wrap (l.67-110) *)
Definition read_line : M (list N) := fun s =>
  match inp s with
  | [] => ROk [] s
  | Some l :: r => ROk l (mkstate (skind_ s) (stacks s) (cur s) (points s) (latest s) r (outb s) (errb s))
  | None :: r => RErr EIo (mkstate (skind_ s) (stacks s) (cur s) (points s) (latest s) r (outb s) (errb s))
  end.
Fixpoint push_all (i : N) (l : list N) : M unit :=      (* for c in s.chars().rev() { push_stack(0, c) } with l already reversed *)
  match l with
  | [] => ret tt
  | c :: r => bind (push_stack i (from_num (Z.of_N c))) (fun _ => push_all i r)
  end.
Definition pop_wrap (i : N) : M num :=
  if i =? 0 then
    fun s => match get_stack s 0 with
             | [] => bind read_line (fun l => bind (push_all 0 (rev l)) (fun _ => pop_stack 0)) s
             | _ => pop_stack 0 s
             end
  else if i =? 1 then exit_ 0
  else if i =? 2 then exit_ 1
  else pop_stack i.

(* ---- area::calc (area.rs l.81-111) ---- *)
Fixpoint calc (a : area) (cnt : N) (pop : M num) : M N :=
  match a with
  | Nil => ret 0
  | Val t l r =>
      if t =? 0 then bind pop (fun v => match ncmp v (from_num (Z.of_N cnt)) with Some Lt => calc l cnt pop | _ => calc r cnt pop end)
      else if t =? 1 then bind pop (fun v => match ncmp v (from_num (Z.of_N cnt)) with Some Eq => calc l cnt pop | _ => calc r cnt pop end)
      else ret t
  end.

(* ---- loops of execute_one ---- *)
Definition iterM {A} (n : N) (f : A -> M A) (a : A) : M A :=
  N.iter n (fun m => bind m f) (ret a).
Definition set_cur (c : N) : M unit := fun s =>
  ROk tt (mkstate (skind_ s) (stacks s) c (points s) (latest s) (inp s) (outb s) (errb s)).
Definition get_cur : M N := fun s => ROk (cur s) s.
Fixpoint forM {A} (l : list A) (f : A -> M unit) : M unit :=
  match l with [] => ret tt | x :: r => bind (f x) (fun _ => forM r f) end.

(* the command body (execute.rs l.131-213) *)
Definition body (c : xcode) : M unit :=
  bind get_cur (fun cs =>
  match xty c with
  | 0 => push_wrap cs (nmul (from_num (Z.of_N (xhc c))) (from_num (Z.of_N (xdc c))))
  | 1 => bind (iterM (xhc c) (fun n => bind (pop_wrap cs) (fun v => ret (nadd n v))) nzero) (fun n => push_wrap (xdc c) n)
  | 2 => bind (iterM (xhc c) (fun n => bind (pop_wrap cs) (fun v => ret (nmul n v))) n_one) (fun n => push_wrap (xdc c) n)
  | 3 => bind (iterM (xhc c) (fun v => bind (pop_wrap cs) (fun x => ret (x :: v))) [])    (* v.push then v.reverse(): head = last popped *)
              (fun v =>
               bind (fold_left (fun (m : M num) x => bind m (fun n => let x' := nminus x in
                                 bind (push_wrap cs x') (fun _ => ret (nadd n x')))) v (ret nzero))
                    (fun n => push_wrap (xdc c) n))
  | 4 => bind (iterM (xhc c) (fun v => bind (pop_wrap cs) (fun x => ret (x :: v))) [])
              (fun v =>
               bind (fold_left (fun (m : M num) x => bind m (fun n => let x' := nflip x in
                                 bind (push_wrap cs x') (fun _ => ret (nmul n x')))) v (ret n_one))
                    (fun n => push_wrap (xdc c) n))
  | _ => bind (pop_wrap cs) (fun n =>
         bind (iterM (xhc c) (fun _ => push_wrap (xdc c) n) tt) (fun _ =>
         bind (push_wrap cs n) (fun _ => set_cur (xdc c))))
  end).

Definition get_point (id : N) : M (option N) := fun s => ROk (alist_get (points s) id) s.
Definition set_point (id loc : N) : M unit := fun s =>
  ROk tt (mkstate (skind_ s) (stacks s) (cur s) (alist_set (points s) id loc) (latest s) (inp s) (outb s) (errb s)).
Definition set_latest (loc : N) : M unit := fun s =>
  ROk tt (mkstate (skind_ s) (stacks s) (cur s) (points s) (Some loc) (inp s) (outb s) (errb s)).
Definition get_latest : M (option N) := fun s => ROk (latest s) s.

(* execute_one (l.113-239): returns the next command index *)
Definition execute_one (c : xcode) (pc : N) : M N :=
  bind (body c) (fun _ =>
  bind get_cur (fun cs =>
  bind (calc (xar c) (xac c) (pop_wrap cs)) (fun t =>
  if t =? 0 then ret (pc + 1)
  else if t =? 13 then bind get_latest (fun l => match l with Some loc => ret loc | None => ret (pc + 1) end)
  else let id := xac c * 16 + t in
       bind (get_point id) (fun p =>
       match p with
       | Some v => if pc =? v then ret (pc + 1) else bind (set_latest pc) (fun _ => ret v)
       | None => bind (set_point id pc) (fun _ => ret (pc + 1))
       end)))).

(* ---- whole runs ---- *)
Inductive final :=
| FDone (s : state)                    (* control ran past the last command *)
| FExit (code : N) (s : state)         (* program-requested exit *)
| FErr (e : errkind) (s : state)       (* diagnosed error *)
| FFuel (s : state) (pc : N)           (* step budget exhausted: still running *)
| FPanic (s : state).                  (* index out of bounds on the code vector *)

(* the preloaded loop (library-level observation: execute_one over the whole program) *)
Fixpoint run_pre (fuel : nat) (code : list xcode) (s : state) (pc : N) : final :=
  match fuel with
  | O => FFuel s pc
  | S f =>
      if N.of_nat (length code) <=? pc then FDone s
      else match nth_error code (N.to_nat pc) with
           | None => FPanic s
           | Some c => match execute_one c pc s with
                       | ROk pc' s' => run_pre f code s' pc'
                       | RExit k s' => FExit k s'
                       | RErr e s' => FErr e s'
                       end
           end
  end.

(* execute (l.259-279) as used by run.rs / the REPL: push one command, run until control passes it.
   [code] is the log of commands pushed so far, in order.  Returns the remaining fuel as well. *)
Fixpoint exec_loop (fuel : nat) (code : list xcode) (s : state) (pc len : N) : final * nat :=
  match fuel with
  | O => (FFuel s pc, O)
  | S f =>
      if len <=? pc then (FDone s, fuel)
      else match nth_error code (N.to_nat pc) with
           | None => (FPanic s, f)
           | Some c => match execute_one c pc s with
                       | ROk pc' s' => exec_loop f code s' pc' len
                       | RExit k s' => (FExit k s', f)
                       | RErr e s' => (FErr e s', f)
                       end
           end
  end.
Fixpoint run_inc (fuel : nat) (done todo : list xcode) (s : state) : final :=
  match todo with
  | [] => FDone s
  | c :: r =>
      let code := done ++ [c] in
      let pc := N.of_nat (length done) in
      match exec_loop fuel code s pc (pc + 1) with
      | (FDone s', f') => run_inc f' code r s'
      | (x, _) => x
      end
  end.

Definition final_state (f : final) : state :=
  match f with FDone s | FExit _ s | FErr _ s | FFuel s _ | FPanic s => s end.
