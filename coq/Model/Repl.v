(* L1 model of src/app/interpreter.rs (the interactive interpreter) — definitions only.
   Follows the tree with the D12 repair (the line's buffered output is flushed before an error is reported);
   [fx12 = false] reproduces the pinned code, which dropped it. *)
From Coq Require Import List NArith ZArith Bool.
Import ListNotations.
From HV Require Import Model.Big Model.Rat Model.NumText Model.Chars Model.Parse Model.Exec.
Open Scope N_scope.

(* str::trim: strip Unicode White_Space at both ends *)
Fixpoint trim_left (l : list N) : list N :=
  match l with c :: r => if is_ws c then trim_left r else l | [] => [] end.
Definition trim (l : list N) : list N := rev (trim_left (rev (trim_left l))).

Definition KW_CLEAR : list N := [99; 108; 101; 97; 114].
Definition KW_HELP : list N := [104; 101; 108; 112].
Definition KW_EXIT : list N := [101; 120; 105; 116].
Definition leqb (a b : list N) : bool := if list_eq_dec N.eq_dec a b then true else false.

(* what the user sees for one entered line *)
Inductive revent :=
| EvNothing                         (* blank line: no flush at all *)
| EvHelp                            (* the help text *)
| EvFlush (o e : list N).           (* the line's captured stdout / stderr text, each shown if non-empty *)
Inductive rend :=
| RAlive                            (* end of input reached: exit 0 *)
| RQuit                             (* the `exit` keyword *)
| RProgExit (c : N)                 (* the program exited through stack 1/2 *)
| RFail (e : errkind)               (* diagnosed error, exit 1 *)
| RFuelOut | RPanicked.

Definition with_fresh_io (s : state) : state :=
  mkstate (skind_ s) (stacks s) (cur s) (points s) (latest s) (inp s) [] [].
Definition flush_of (s : state) : revent := EvFlush (rev (outb s)) (rev (errb s)).

(* the read-eval loop; [log] is the list of all commands entered since the last `clear` *)
Fixpoint repl (fx12 : bool) (fuel : nat) (lines : list (list N)) (log : list xcode) (s : state) : list revent * rend :=
  match lines with
  | [] => ([], RAlive)
  | line :: rest =>
      let t := trim line in
      if leqb t [] then let (ev, e) := repl fx12 fuel rest log s in (EvNothing :: ev, e)
      else if leqb t KW_CLEAR then
        let (ev, e) := repl fx12 fuel rest [] (state0 SUnopt (inp s)) in (EvFlush [] [] :: ev, e)
      else if leqb t KW_HELP then let (ev, e) := repl fx12 fuel rest log s in (EvHelp :: ev, e)
      else if leqb t KW_EXIT then ([], RQuit)
      else
        let cmds := map xcode_of_ucode (parse line) in
        match run_inc fuel log cmds (with_fresh_io s) with
        | FDone s' => let (ev, e) := repl fx12 fuel rest (log ++ cmds) s' in (flush_of s' :: ev, e)
        | FExit c s' => ([flush_of s'], RProgExit c)
        | FErr e s' => (if fx12 then [flush_of s'] else [], RFail e)
        | FFuel s' _ => ([flush_of s'], RFuelOut)
        | FPanic s' => ([flush_of s'], RPanicked)
        end
  end.
Definition repl_run (fx12 : bool) (fuel : nat) (lines : list (list N)) : list revent * rend :=
  repl fx12 fuel lines [] (state0 SUnopt []).

(* all text shown for stdout (resp. stderr), in order *)
Definition shown_out (evs : list revent) : list N :=
  flat_map (fun e => match e with EvFlush o _ => o | _ => [] end) evs.
Definition shown_err (evs : list revent) : list N :=
  flat_map (fun e => match e with EvFlush _ x => x | _ => [] end) evs.
