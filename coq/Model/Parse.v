(* L1 model of src/core/parse.rs (definitions only).  The two raw cursors `leaf` / `qu_leaf` into the
   partially built right-nested trees are zippers: the `!`-subtree under construction is its closed
   slots plus the current slot, the `?`-spine the list of finished `!`-subtrees.
   [bug = true] reproduces the pinned tree (D4: the area cursors are reset only when a pending
   command is flushed); [bug = false] is the repaired code. *)
From Coq Require Import List NArith Bool.
Import ListNotations.
From HV Require Import Model.Chars.
Open Scope N_scope.

Inductive area := Nil | Val (t : N) (l r : area).
Definition leafA (t : N) : area := Val t Nil Nil.
Definition slot := option N.                  (* heart type 2..13 *)
Definition slotA (s : slot) : area := match s with None => Nil | Some t => leafA t end.
Record bangz := mkbz { closed : list slot; curslot : slot }.
Fixpoint bang_tree (cl : list slot) (last : slot) : area :=
  match cl with [] => slotA last | s :: r => Val 1 (slotA s) (bang_tree r last) end.
Definition bangA (b : bangz) : area := bang_tree (closed b) (curslot b).
Definition bang0 : bangz := mkbz [] None.
Fixpoint qu_tree (qs : list area) (last : area) : area :=
  match qs with [] => last | a :: r => Val 0 a (qu_tree r last) end.

Record ucode := mkucode { ty : N; hc : N; dc : N; loc : N * N; ar : area; raw : list N }.

Record pst := mkpst {
  res : list ucode;            (* reversed *)
  type_ : N;                   (* 10 = none; 6,7,8 = inside a multi-syllable command of class 0,1,2 *)
  hangul : N; dots : N; cloc : N * N;
  st : N;                      (* 0,1,2 *)
  bz : bangz; qz : list area;  (* reversed closed `?` operands *)
  line : N; line_start : N;
  rawc : list N                (* reversed *)
}.
Definition pst0 : pst := mkpst [] 10 0 0 (1, 0) 0 bang0 [] 0 0 [].

Definition finish (s : pst) : area := qu_tree (rev (qz s)) (bangA (bz s)).
Definition flush (s : pst) : list ucode :=
  if type_ s =? 10 then res s
  else mkucode (type_ s) (hangul s) (dots s) (cloc s) (finish s) (rev (rawc s)) :: res s.

(* pre-pass (l.127-138): last index of each end-syllable class, 0 if none *)
Fixpoint max_pos (l : list N) (i : N) (m : N * N * N) : N * N * N :=
  match l with
  | [] => m
  | c :: r =>
    let '(a, b, d) := m in
    max_pos r (i + 1) (match end_class c with
                       | Some k => if k =? 0 then (i, b, d) else if k =? 1 then (a, i, d) else (a, b, i)
                       | None => m end)
  end.
Definition mp_get (m : N * N * N) (k : N) : N :=
  let '(a, b, d) := m in if k =? 0 then a else if k =? 1 then b else d.

Definition step (bug : bool) (mp : N * N * N) (s : pst) (i : N) (c : N) : pst :=
  if is_ws c then
    if c =? CH_NL then mkpst (res s) (type_ s) (hangul s) (dots s) (cloc s) (st s) (bz s) (qz s)
                             (line s + 1) (i + 1) (rawc s)
    else s
  else if st s =? 1 then
    let h := is_hangul c in
    let hangul' := if h then hangul s + 1 else hangul s in
    let raw' := if h then c :: rawc s else rawc s in
    let fin := match end_kind c with
               | Some k => if class_of_kind k + 6 =? type_ s then Some k else None
               | None => None end in
    match fin with
    | Some t => mkpst (res s) t hangul' 0 (cloc s) 0 (bz s) (qz s) (line s) (line_start s) raw'
    | None => mkpst (res s) (type_ s) hangul' (dots s) (cloc s) 1 (bz s) (qz s) (line s) (line_start s) raw'
    end
  else
    let start (t : N) :=
      let fl := negb (type_ s =? 10) in
      let reset := fl || negb bug in
      mkpst (flush s) t 1 0 (line s + 1, i - line_start s) (if t <? 6 then 0 else 1)
            (if reset then bang0 else bz s) (if reset then [] else qz s)
            (line s) (line_start s) [c] in
    match index_of c SINGLE, index_of c START with
    | Some k, _ => start k
    | None, Some k => if mp_get mp k <=? i then s else start (k + 6)
    | None, None =>
      if is_dot c then
        if st s =? 0 then mkpst (res s) (type_ s) (hangul s) (dots s + dot_val c) (cloc s) 0 (bz s) (qz s)
                                (line s) (line_start s) (c :: rawc s)
        else s
      else if c =? CH_Q then
        mkpst (res s) (type_ s) (hangul s) (dots s) (cloc s) 2 bang0 (bangA (bz s) :: qz s)
              (line s) (line_start s) (c :: rawc s)
      else if c =? CH_BANG then
        mkpst (res s) (type_ s) (hangul s) (dots s) (cloc s) 2
              (mkbz (closed (bz s) ++ [curslot (bz s)]) None) (qz s) (line s) (line_start s) (c :: rawc s)
      else match index_of c HEARTS with
           | Some k =>
             mkpst (res s) (type_ s) (hangul s) (dots s) (cloc s) 2
                   (mkbz (closed (bz s)) (match curslot (bz s) with None => Some (k + 2) | x => x end))
                   (qz s) (line s) (line_start s) (c :: rawc s)
           | None => s
           end
    end.

Fixpoint run (bug : bool) (mp : N * N * N) (l : list N) (i : N) (s : pst) : pst :=
  match l with [] => s | c :: r => run bug mp r (i + 1) (step bug mp s i c) end.
Definition parse_gen (bug : bool) (l : list N) : list ucode :=
  rev (flush (run bug (max_pos l 0 (0, 0, 0)) l 0 pst0)).
Definition parse : list N -> list ucode := parse_gen false.
Definition parse_pre_fix : list N -> list ucode := parse_gen true.

(* ---- renderings of area trees (area.rs l.115-207) ---- *)
Fixpoint area_debug (a : area) : list N :=
  match a with
  | Nil => [CH_US]
  | Val t l r => area_char t :: (if t <=? 1 then area_debug l ++ area_debug r else [])
  end.
Fixpoint area_display (a : area) : list N :=
  match a with
  | Nil => [CH_US]
  | Val t l r => if t <=? 1 then [CH_LB] ++ area_display l ++ [CH_RB] ++ [area_char t] ++ [CH_LB] ++ area_display r ++ [CH_RB]
                 else [area_char t]
  end.
