(* Character tables of src/core/parse.rs and src/core/area.rs as numeric code points (no non-ASCII literals). *)
From Coq Require Import List NArith Bool.
Import ListNotations.
Open Scope N_scope.

Fixpoint index_from (c : N) (l : list N) (i : N) : option N :=
  match l with [] => None | x :: r => if x =? c then Some i else index_from c r (i + 1) end.
Definition index_of (c : N) (l : list N) : option N := index_from c l 0.

Definition SINGLE : list N := [54805; 54637; 54635; 55139; 55137; 55121].  (* the six one-syllable commands, kinds 0..5 *)
Definition START : list N := [54784; 54616; 55120].                         (* start syllables of classes 0,1,2 *)
Definition HEARTS : list N :=
  [9829; 10084; 128149; 128150; 128151; 128152; 128153; 128154; 128155; 128156; 128157; 9825]. (* types 2..13 *)
Definition CH_Q : N := 63.     (* ? *)
Definition CH_BANG : N := 33.  (* ! *)
Definition CH_US : N := 95.    (* _ *)
Definition CH_LB : N := 91.    (* [ *)
Definition CH_RB : N := 93.    (* ] *)
Definition CH_NL : N := 10.
Definition CH_SP : N := 32.
Definition is_dot (c : N) : bool := (c =? 46) || (c =? 8230) || (c =? 8943) || (c =? 8942).
Definition dot_val (c : N) : N := if c =? 46 then 1 else 3.
Definition is_hangul (c : N) : bool := (44032 <=? c) && (c <=? 55203).
(* char::is_whitespace = Unicode White_Space *)
Definition is_ws (c : N) : bool :=
  ((9 <=? c) && (c <=? 13)) || (c =? 32) || (c =? 133) || (c =? 160) || (c =? 5760)
  || ((8192 <=? c) && (c <=? 8202)) || (c =? 8232) || (c =? 8233) || (c =? 8239) || (c =? 8287) || (c =? 12288).
(* end syllables: class 0: kind 0 ; class 1: kinds 1,2 ; class 2: kinds 3,4,5 *)
Definition end_class (c : N) : option N :=
  if c =? 50633 then Some 0
  else if (c =? 50521) || (c =? 50519) then Some 1
  else if (c =? 51023) || (c =? 51021) || (c =? 51005) then Some 2 else None.
Definition end_kind (c : N) : option N :=
  if c =? 50633 then Some 0 else if c =? 50521 then Some 1 else if c =? 50519 then Some 2
  else if c =? 51023 then Some 3 else if c =? 51021 then Some 4 else if c =? 51005 then Some 5 else None.
Definition class_of_kind (k : N) : N := if k =? 0 then 0 else if k <=? 2 then 1 else 2.
(* the character printed for an area node type (area.rs l.125, l.163) *)
Definition area_char (t : N) : N := nth (N.to_nat t) ([CH_Q; CH_BANG] ++ HEARTS) 0.
