(* L2: the language definition of Hyeong as an executable specification over mathematical rationals.
   Written from the language description, not from the interpreter's code: values are NaN or a rational
   (kept in lowest terms by Qred), stacks are lists, the six commands are stated with whole-list
   operations, the I/O stacks 0/1/2 and the NaN rules are stated once in [spush]/[spop].
   Definitions only. *)
From Coq Require Import List NArith ZArith QArith Qround Qreduction Bool.
Import ListNotations.
From HV Require Import Model.Chars Model.Parse.
Open Scope N_scope.

Inductive value := VNaN | VRat (q : Q).

Definition vadd (a b : value) : value := match a, b with VRat x, VRat y => VRat (Qred (x + y)) | _, _ => VNaN end.
Definition vmul (a b : value) : value := match a, b with VRat x, VRat y => VRat (Qred (x * y)) | _, _ => VNaN end.
Definition vneg (a : value) : value := match a with VRat x => VRat (Qred (- x)) | VNaN => VNaN end.
Definition vrecip (a : value) : value :=
  match a with VRat x => if Qeq_bool x 0 then VNaN else VRat (Qred (/ x)) | VNaN => VNaN end.
Definition vnat (n : N) : value := VRat (inject_Z (Z.of_N n)).

(* ---- decimal text of a value ---- *)
Fixpoint dec_digits (fuel : nat) (n : N) (acc : list N) : list N :=
  match fuel with
  | O => acc
  | S f => if n <? 10 then (48 + n) :: acc else dec_digits f (n / 10) ((48 + n mod 10) :: acc)
  end.
Definition dec_N (n : N) : list N := dec_digits (S (N.to_nat (N.log2 n))) n [].
Definition dec_Z (z : Z) : list N := (if (z <? 0)%Z then [45] else []) ++ dec_N (Z.abs_N z).
Definition NAN_TEXT_SPEC : list N := [45320; 47924; 32; 52964; 50631; 46; 46; 46].
Definition value_text (v : value) : list N :=
  match v with
  | VNaN => NAN_TEXT_SPEC
  | VRat q => let q := Qred q in
              if (Zpos (Qden q) =? 1)%Z then dec_Z (Qnum q) else dec_Z (Qnum q) ++ [47] ++ dec_Z (Zpos (Qden q))
  end.

(* ---- state ---- *)
Inductive serr := SEnc (n : N) | SIo.
Record lstate := mklstate {
  stk : list (N * list value);         (* only the listed stacks are non-default; absent = empty; head = top *)
  sel : N;                             (* selected stack, initially 3 *)
  labels : list (N * N);               (* (count*16 + heart type) -> command index, first registration wins *)
  lastj : option N;                    (* the command that jumped last: target of the white heart *)
  input : list (option (list N));      (* remaining stdin lines with terminators; None = not valid UTF-8 *)
  out : list N; err : list N           (* text written so far *)
}.
Definition lstate0 (i : list (option (list N))) : lstate := mklstate [] 3 [] None i [] [].

Fixpoint lookup {V} (l : list (N * V)) (k : N) : option V :=
  match l with [] => None | (k', v) :: r => if k' =? k then Some v else lookup r k end.
Fixpoint update {V} (l : list (N * V)) (k : N) (v : V) : list (N * V) :=
  match l with [] => [(k, v)] | (k', v') :: r => if k' =? k then (k, v) :: r else (k', v') :: update r k v end.
Definition sget (s : lstate) (i : N) : list value := match lookup (stk s) i with Some l => l | None => [] end.
Definition sset (s : lstate) (i : N) (l : list value) : lstate :=
  mklstate (update (stk s) i l) (sel s) (labels s) (lastj s) (input s) (out s) (err s).

Inductive sres (A : Type) := SOk (a : A) (s : lstate) | SExit (code : N) (s : lstate) | SErr (e : serr) (s : lstate).
Arguments SOk {A}. Arguments SExit {A}. Arguments SErr {A}.

Definition scalar (n : N) : bool := ((n <? 55296) || (57343 <? n)) && (n <=? 1114111).

(* pushing v on stack i.  Stacks 1 and 2 are standard output and standard error: a non-negative value
   writes the character whose scalar value is its floor (values of 2^32 and above are unspecified by
   the language; the reference keeps the low 32 bits), any other value writes the text of its
   negation.  NaN is not stored on an empty stack. *)
Definition spush (i : N) (v : value) (s : lstate) : sres unit :=
  if (i =? 1) || (i =? 2) then
    let emit txt := if i =? 1 then mklstate (stk s) (sel s) (labels s) (lastj s) (input s) (out s ++ txt) (err s)
                    else mklstate (stk s) (sel s) (labels s) (lastj s) (input s) (out s) (err s ++ txt) in
    match v with
    | VRat q => if Qle_bool 0 q then
                  let n := Z.to_N (Qfloor q) mod 4294967296 in
                  if scalar n then SOk tt (emit [n]) else SErr (SEnc n) s
                else SOk tt (emit (value_text (vneg v)))
    | VNaN => SOk tt (emit (value_text VNaN))
    end
  else match sget s i, v with
       | [], VNaN => SOk tt s
       | l, _ => SOk tt (sset s i (v :: l))
       end.

(* popping from stack i.  Stack 0 is standard input: when empty it is refilled with the characters of the
   next line (first character on top); at end of input nothing is added.  An empty stack yields NaN.
   Popping from stack 1 / 2 ends the program with status 0 / 1. *)
Definition spop (i : N) (s : lstate) : sres value :=
  if i =? 1 then SExit 0 s
  else if i =? 2 then SExit 1 s
  else
    let refill :=
      if (i =? 0) && match sget s 0 with [] => true | _ => false end then
        match input s with
        | [] => inl s
        | Some line :: r =>
            let s' := mklstate (stk s) (sel s) (labels s) (lastj s) r (out s) (err s) in
            inl (match line with [] => s' | _ => sset s' 0 (map vnat line) end)
        | None :: r => inr (mklstate (stk s) (sel s) (labels s) (lastj s) r (out s) (err s))
        end
      else inl s in
    match refill with
    | inr s' => SErr SIo s'
    | inl s' => match sget s' i with
                | [] => SOk VNaN s'
                | v :: l => SOk v (sset s' i l)
                end
    end.

(* n pops from the same stack, in pop order *)
Fixpoint spops (n : nat) (i : N) (s : lstate) : sres (list value) :=
  match n with
  | O => SOk [] s
  | S m => match spop i s with
           | SOk v s' => match spops m i s' with
                         | SOk l s'' => SOk (v :: l) s''
                         | SExit c s'' => SExit c s''
                         | SErr e s'' => SErr e s''
                         end
           | SExit c s' => SExit c s'
           | SErr e s' => SErr e s'
           end
  end.
Fixpoint spushes (i : N) (l : list value) (s : lstate) : sres unit :=
  match l with
  | [] => SOk tt s
  | v :: r => match spush i v s with
              | SOk _ s' => spushes i r s'
              | SExit c s' => SExit c s'
              | SErr e s' => SErr e s'
              end
  end.

(* the six commands: n syllables, d dots, acting on the selected stack *)
Definition scommand (kind n d : N) (s : lstate) : sres unit :=
  let c := sel s in
  match kind with
  | 0 => spush c (vmul (vnat n) (vnat d)) s
  | 1 => match spops (N.to_nat n) c s with
         | SOk l s' => spush d (fold_left vadd l (vnat 0)) s'
         | SExit k s' => SExit k s' | SErr e s' => SErr e s'
         end
  | 2 => match spops (N.to_nat n) c s with
         | SOk l s' => spush d (fold_left vmul l (vnat 1)) s'
         | SExit k s' => SExit k s' | SErr e s' => SErr e s'
         end
  | 3 => match spops (N.to_nat n) c s with
         | SOk l s' => let l' := map vneg (rev l) in     (* put back, negated, in the original order *)
                       match spushes c l' s' with
                       | SOk _ s'' => spush d (fold_left vadd l' (vnat 0)) s''
                       | SExit k s'' => SExit k s'' | SErr e s'' => SErr e s''
                       end
         | SExit k s' => SExit k s' | SErr e s' => SErr e s'
         end
  | 4 => match spops (N.to_nat n) c s with
         | SOk l s' => let l' := map vrecip (rev l) in
                       match spushes c l' s' with
                       | SOk _ s'' => spush d (fold_left vmul l' (vnat 1)) s''
                       | SExit k s'' => SExit k s'' | SErr e s'' => SErr e s''
                       end
         | SExit k s' => SExit k s' | SErr e s' => SErr e s'
         end
  | _ => match spop c s with
         | SOk v s' => match spushes d (repeat v (N.to_nat n)) s' with
                       | SOk _ s'' => match spush c v s'' with
                                      | SOk _ s3 => SOk tt (mklstate (stk s3) d (labels s3) (lastj s3) (input s3) (out s3) (err s3))
                                      | SExit k s3 => SExit k s3 | SErr e s3 => SErr e s3
                                      end
                       | SExit k s'' => SExit k s'' | SErr e s'' => SErr e s''
                       end
         | SExit k s' => SExit k s' | SErr e s' => SErr e s'
         end
  end.

Definition vlt (v : value) (n : N) : bool := match v with VRat q => match (q ?= inject_Z (Z.of_N n))%Q with Lt => true | _ => false end | VNaN => false end.
Definition veq (v : value) (n : N) : bool := match v with VRat q => Qeq_bool q (inject_Z (Z.of_N n)) | VNaN => false end.

(* area: `?` takes its left branch iff the popped value is below the count, `!` iff it equals it, NaN goes
   right; the result is the heart type reached (0 = none) *)
Fixpoint sarea (a : area) (count : N) (s : lstate) : sres N :=
  match a with
  | Nil => SOk 0 s
  | Val t l r =>
      if t =? 0 then
        match spop (sel s) s with
        | SOk v s' => if vlt v count then sarea l count s' else sarea r count s'
        | SExit k s' => SExit k s' | SErr e s' => SErr e s'
        end
      else if t =? 1 then
        match spop (sel s) s with
        | SOk v s' => if veq v count then sarea l count s' else sarea r count s'
        | SExit k s' => SExit k s' | SErr e s' => SErr e s'
        end
      else SOk t s
  end.

(* one command of the program at index pc: its body, then its area, then the jump rule *)
Definition sstep (kind n d count : N) (a : area) (pc : N) (s : lstate) : sres N :=
  match scommand kind n d s with
  | SOk _ s1 =>
      match sarea a count s1 with
      | SOk t s2 =>
          if t =? 0 then SOk (pc + 1) s2
          else if t =? 13 then SOk (match lastj s2 with Some j => j | None => pc + 1 end) s2
          else let id := count * 16 + t in
               match lookup (labels s2) id with
               | Some j => if j =? pc then SOk (pc + 1) s2
                           else SOk j (mklstate (stk s2) (sel s2) (labels s2) (Some pc) (input s2) (out s2) (err s2))
               | None => SOk (pc + 1) (mklstate (stk s2) (sel s2) (update (labels s2) id pc) (lastj s2) (input s2) (out s2) (err s2))
               end
      | SExit k s2 => SExit k s2 | SErr e s2 => SErr e s2
      end
  | SExit k s1 => SExit k s1 | SErr e s1 => SErr e s1
  end.

Record scmd := mkscmd { sk : N; sn : N; sd : N; scount : N; sa : area }.
Definition scmd_of_ucode (u : ucode) : scmd := mkscmd (ty u) (hc u) (dc u) (hc u * dc u) (ar u).

Inductive sfinal :=
| SDone (s : lstate) | SExited (code : N) (s : lstate) | SFailed (e : serr) (s : lstate) | SRunning (s : lstate) (pc : N).

Fixpoint srun (fuel : nat) (prog : list scmd) (s : lstate) (pc : N) : sfinal :=
  match fuel with
  | O => SRunning s pc
  | S f => match nth_error prog (N.to_nat pc) with
           | None => SDone s
           | Some c => match sstep (sk c) (sn c) (sd c) (scount c) (sa c) pc s with
                       | SOk pc' s' => srun f prog s' pc'
                       | SExit k s' => SExited k s'
                       | SErr e s' => SFailed e s'
                       end
           end
  end.
