(* L2: the grammar of Hyeong source text, generatively — the opposite direction from the parser.
   A concrete syntax tree lists, for every command, the characters it is written with (including
   every ignorable character); [flatten] gives the text, [abstract] the meaning (the commands with
   their locations and significant source characters).  [valid] is the one context condition.
   Definitions only. *)
From Coq Require Import List NArith Bool.
Import ListNotations.
From HV Require Import Model.Chars Model.Parse.
Open Scope N_scope.

(* ---- does a character start a command, given the text that follows it ---- *)
Definition later_end (k : N) (rest : list N) : bool :=
  existsb (fun c => match end_class c with Some j => j =? k | None => false end) rest.
Definition starts (c : N) (rest : list N) : bool :=
  match index_of c SINGLE, index_of c START with
  | Some _, _ => true
  | None, Some k => later_end k rest
  | None, None => false
  end.
Definition is_heart (c : N) : bool := match index_of c HEARTS with Some _ => true | None => false end.
Definition is_areach (c : N) : bool := (c =? CH_Q) || (c =? CH_BANG) || is_heart c.

(* ---- the meaning of a sequence of area characters: `?` binds loosest, `!` next, both nest to the
        right, the first heart of a slot counts ---- *)
Fixpoint split_on (sep : N) (l : list N) (cur : list N) : list (list N) :=
  match l with
  | [] => [rev cur]
  | c :: r => if c =? sep then rev cur :: split_on sep r [] else split_on sep r (c :: cur)
  end.
Fixpoint slot_of (l : list N) : slot :=
  match l with
  | [] => None
  | c :: r => match index_of c HEARTS with Some k => Some (k + 2) | None => slot_of r end
  end.
Definition bang_of (seg : list N) : area :=
  let slots := map slot_of (split_on CH_BANG seg []) in bang_tree (removelast slots) (last slots None).
Definition area_of (toks : list N) : area :=
  let bangs := map bang_of (split_on CH_Q toks []) in qu_tree (removelast bangs) (last bangs Nil).

(* ---- concrete syntax ---- *)
Inductive head :=
| HSingle (c : N)                              (* one of the six one-syllable commands *)
| HMulti (s : N) (inner : list N) (e : N).     (* start syllable, inner items, terminator *)
Record ccmd := mkccmd { chead : head; cdotitems : list N; careaitems : list N }.
Record cst := mkcst { cprefix : list N; ccmds : list ccmd }.

Definition flat_head (h : head) : list N :=
  match h with HSingle c => [c] | HMulti s inner e => s :: inner ++ [e] end.
Definition flat_cmd (c : ccmd) : list N := flat_head (chead c) ++ cdotitems c ++ careaitems c.
Definition flat_cmds (cs : list ccmd) : list N := flat_map flat_cmd cs.
Definition flatten (t : cst) : list N := cprefix t ++ flat_cmds (ccmds t).

(* every character x of [items], seen with the text that follows it, satisfies p *)
Fixpoint all_ctx (p : N -> list N -> bool) (items : list N) (after : list N) : bool :=
  match items with
  | [] => true
  | x :: r => p x (r ++ after) && all_ctx p r after
  end.

Definition valid_head (h : head) : bool :=
  match h with
  | HSingle c => match index_of c SINGLE with Some _ => true | None => false end
  | HMulti s inner e =>
      match index_of s START, end_class e with
      | Some k, Some k' => (k =? k') && forallb (fun x => match end_class x with Some j => negb (j =? k) | None => true end) inner
      | _, _ => false
      end
  end.
Definition valid_cmd (c : ccmd) (after : list N) : bool :=
  valid_head (chead c)
  && all_ctx (fun x a => negb (starts x a) && negb (is_areach x)) (cdotitems c) (careaitems c ++ after)
  && match careaitems c with [] => true | x :: _ => is_areach x end
  && all_ctx (fun x a => negb (starts x a)) (careaitems c) after.
Fixpoint valid_cmds (cs : list ccmd) : bool :=
  match cs with
  | [] => true
  | c :: r => valid_cmd c (flat_cmds r) && valid_cmds r
  end.
Definition valid (t : cst) : bool :=
  all_ctx (fun x a => negb (starts x a)) (cprefix t) (flat_cmds (ccmds t)) && valid_cmds (ccmds t).

(* ---- meaning ---- *)
Definition head_kind (h : head) : N :=
  match h with
  | HSingle c => match index_of c SINGLE with Some k => k | None => 0 end
  | HMulti _ _ e => match end_kind e with Some k => k | None => 0 end
  end.
Definition head_syl (h : head) : N :=
  match h with
  | HSingle _ => 1
  | HMulti _ inner _ => 2 + N.of_nat (length (filter is_hangul inner))
  end.
Definition head_raw (h : head) : list N :=
  match h with
  | HSingle c => [c]
  | HMulti s inner e => s :: filter is_hangul inner ++ [e]
  end.
Definition dots_of (items : list N) : N := fold_right (fun c acc => (if is_dot c then dot_val c else 0) + acc) 0 items.

(* position bookkeeping: 1-based line, 0-based column counted in characters since the last U+000A *)
Fixpoint advance (l : list N) (lc : N * N) : N * N :=
  match l with
  | [] => lc
  | c :: r => advance r (if c =? CH_NL then (fst lc + 1, 0) else (fst lc, snd lc + 1))
  end.

Definition abstract_cmd (c : ccmd) (lc : N * N) : ucode :=
  mkucode (head_kind (chead c)) (head_syl (chead c)) (dots_of (cdotitems c)) lc
          (area_of (filter is_areach (careaitems c)))
          (head_raw (chead c) ++ filter is_dot (cdotitems c) ++ filter is_areach (careaitems c)).
Fixpoint abstract_cmds (cs : list ccmd) (lc : N * N) : list ucode :=
  match cs with
  | [] => []
  | c :: r => abstract_cmd c lc :: abstract_cmds r (advance (flat_cmd c) lc)
  end.
Definition abstract (t : cst) : list ucode := abstract_cmds (ccmds t) (advance (cprefix t) (1, 0)).

(* ---- every text has a concrete syntax tree: the decomposition, by one left-to-right scan ---- *)
Inductive dmode := DPrefix | DInner (k : N) | DDots | DArea.
Record dst := mkdst {
  dpre : list N;                  (* reversed prefix *)
  ddone : list ccmd;              (* reversed finished commands *)
  dmode_ : dmode;
  dstart : N; dinner : list N;    (* pending multi-syllable head: start syllable, reversed inner items *)
  dhead : head;                   (* head of the pending command (modes DDots / DArea) *)
  ddots : list N; darea : list N  (* reversed items of the pending command *)
}.
Definition dst0 : dst := mkdst [] [] DPrefix 0 [] (HSingle 0) [] [].
Definition dclose (s : dst) : list ccmd :=
  match dmode_ s with
  | DDots | DArea => mkccmd (dhead s) (rev (ddots s)) (rev (darea s)) :: ddone s
  | _ => ddone s
  end.
Definition dstep (s : dst) (c : N) (rest : list N) : dst :=
  match dmode_ s with
  | DInner k =>
      match end_class c with
      | Some j => if j =? k then mkdst (dpre s) (ddone s) DDots 0 [] (HMulti (dstart s) (rev (dinner s)) c) [] []
                  else mkdst (dpre s) (ddone s) (DInner k) (dstart s) (c :: dinner s) (dhead s) [] []
      | None => mkdst (dpre s) (ddone s) (DInner k) (dstart s) (c :: dinner s) (dhead s) [] []
      end
  | m =>
      if starts c rest then
        match index_of c SINGLE, index_of c START with
        | Some _, _ => mkdst (dpre s) (dclose s) DDots 0 [] (HSingle c) [] []
        | None, Some k => mkdst (dpre s) (dclose s) (DInner k) c [] (HSingle 0) [] []
        | None, None => s
        end
      else match m with
           | DPrefix => mkdst (c :: dpre s) (ddone s) DPrefix 0 [] (dhead s) [] []
           | DDots => if is_areach c then mkdst (dpre s) (ddone s) DArea 0 [] (dhead s) (ddots s) [c]
                      else mkdst (dpre s) (ddone s) DDots 0 [] (dhead s) (c :: ddots s) []
           | _ => mkdst (dpre s) (ddone s) DArea 0 [] (dhead s) (ddots s) (c :: darea s)
           end
  end.
Fixpoint dscan (l : list N) (s : dst) : dst :=
  match l with [] => s | c :: r => dscan r (dstep s c r) end.
Definition decompose (text : list N) : cst :=
  let s := dscan text dst0 in mkcst (rev (dpre s)) (rev (dclose s)).

(* ---- the canonical, noise-free way of writing a command list ---- *)
Definition gbang := (list slot * slot)%type.          (* closed slots, last slot *)
Definition gq := (list gbang * gbang)%type.           (* closed `!`-groups, last group *)
Definition gbangA (b : gbang) : area := bang_tree (fst b) (snd b).
Definition gqA (q : gq) : area := qu_tree (map gbangA (fst q)) (gbangA (snd q)).
Record cmd := mkcmd { kind : N; syl : N; dotc : N; garea : gq }.
Definition heart_char (t : N) : N := nth (N.to_nat (t - 2)) HEARTS 0.
Definition slot_text (s : slot) : list N := match s with None => [] | Some t => [heart_char t] end.
Definition gbang_text (b : gbang) : list N := flat_map (fun s => slot_text s ++ [CH_BANG]) (fst b) ++ slot_text (snd b).
Definition gq_text (q : gq) : list N := flat_map (fun b => gbang_text b ++ [CH_Q]) (fst q) ++ gbang_text (snd q).
Definition FILLER : list N := [50612; 50500; 51004].   (* the customary filler syllables of classes 0,1,2 *)
Definition ENDS : list N := [50633; 50521; 50519; 51023; 51021; 51005].
Definition canon_head (k n : N) : head :=
  if n =? 1 then HSingle (nth (N.to_nat k) SINGLE 0)
  else let cl := class_of_kind k in
       HMulti (nth (N.to_nat cl) START 0) (repeat (nth (N.to_nat cl) FILLER 0) (N.to_nat (n - 2))) (nth (N.to_nat k) ENDS 0).
Definition canon_cmd (c : cmd) : ccmd :=
  mkccmd (canon_head (kind c) (syl c)) (repeat 46 (N.to_nat (dotc c))) (gq_text (garea c)).
Definition canon (cs : list cmd) : cst := mkcst [] (map canon_cmd cs).
Definition cmd_ok (c : cmd) : bool :=
  (kind c <? 6) && (1 <=? syl c)
  && forallb (fun b : gbang => forallb (fun s : slot => match s with Some t => (2 <=? t) && (t <=? 13) | None => true end) (snd b :: fst b))
             (snd (garea c) :: fst (garea c)).
