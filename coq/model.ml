
(** val xorb : bool -> bool -> bool **)

let xorb b1 b2 =
  if b1 then if b2 then false else true else b2

(** val negb : bool -> bool **)

let negb = function
| true -> false
| false -> true

type nat =
| O
| S of nat

(** val option_map : ('a1 -> 'a2) -> 'a1 option -> 'a2 option **)

let option_map f = function
| Some a -> Some (f a)
| None -> None

type ('a, 'b) sum =
| Inl of 'a
| Inr of 'b

(** val fst : ('a1 * 'a2) -> 'a1 **)

let fst = function
| (x, _) -> x

(** val snd : ('a1 * 'a2) -> 'a2 **)

let snd = function
| (_, y) -> y

(** val length : 'a1 list -> nat **)

let rec length = function
| [] -> O
| _ :: l' -> S (length l')

(** val app : 'a1 list -> 'a1 list -> 'a1 list **)

let rec app l m0 =
  match l with
  | [] -> m0
  | a :: l1 -> a :: (app l1 m0)

type comparison =
| Eq
| Lt
| Gt

(** val compOpp : comparison -> comparison **)

let compOpp = function
| Eq -> Eq
| Lt -> Gt
| Gt -> Lt

module Coq__1 = struct
 (** val add : nat -> nat -> nat **)
 let rec add n0 m0 =
   match n0 with
   | O -> m0
   | S p -> S (add p m0)
end
include Coq__1

(** val mul : nat -> nat -> nat **)

let rec mul n0 m0 =
  match n0 with
  | O -> O
  | S p -> add m0 (mul p m0)

(** val eqb : bool -> bool -> bool **)

let eqb b1 b2 =
  if b1 then b2 else if b2 then false else true

module Nat =
 struct
  (** val eqb : nat -> nat -> bool **)

  let rec eqb n0 m0 =
    match n0 with
    | O -> (match m0 with
            | O -> true
            | S _ -> false)
    | S n' -> (match m0 with
               | O -> false
               | S m' -> eqb n' m')

  (** val leb : nat -> nat -> bool **)

  let rec leb n0 m0 =
    match n0 with
    | O -> true
    | S n' -> (match m0 with
               | O -> false
               | S m' -> leb n' m')

  (** val ltb : nat -> nat -> bool **)

  let ltb n0 m0 =
    leb (S n0) m0

  (** val max : nat -> nat -> nat **)

  let rec max n0 m0 =
    match n0 with
    | O -> m0
    | S n' -> (match m0 with
               | O -> n0
               | S m' -> S (max n' m'))
 end

(** val hd : 'a1 -> 'a1 list -> 'a1 **)

let hd default = function
| [] -> default
| x :: _ -> x

(** val tl : 'a1 list -> 'a1 list **)

let tl = function
| [] -> []
| _ :: m0 -> m0

(** val nth : nat -> 'a1 list -> 'a1 -> 'a1 **)

let rec nth n0 l default =
  match n0 with
  | O -> (match l with
          | [] -> default
          | x :: _ -> x)
  | S m0 -> (match l with
             | [] -> default
             | _ :: t -> nth m0 t default)

(** val nth_error : 'a1 list -> nat -> 'a1 option **)

let rec nth_error l = function
| O -> (match l with
        | [] -> None
        | x :: _ -> Some x)
| S n1 -> (match l with
           | [] -> None
           | _ :: l0 -> nth_error l0 n1)

(** val last : 'a1 list -> 'a1 -> 'a1 **)

let rec last l d =
  match l with
  | [] -> d
  | a :: l0 -> (match l0 with
                | [] -> a
                | _ :: _ -> last l0 d)

(** val removelast : 'a1 list -> 'a1 list **)

let rec removelast = function
| [] -> []
| a :: l0 -> (match l0 with
              | [] -> []
              | _ :: _ -> a :: (removelast l0))

(** val rev : 'a1 list -> 'a1 list **)

let rec rev = function
| [] -> []
| x :: l' -> app (rev l') (x :: [])

(** val list_eq_dec : ('a1 -> 'a1 -> bool) -> 'a1 list -> 'a1 list -> bool **)

let rec list_eq_dec eq_dec0 l l' =
  match l with
  | [] -> (match l' with
           | [] -> true
           | _ :: _ -> false)
  | y :: l0 ->
    (match l' with
     | [] -> false
     | a :: l1 -> if eq_dec0 y a then list_eq_dec eq_dec0 l0 l1 else false)

(** val map : ('a1 -> 'a2) -> 'a1 list -> 'a2 list **)

let rec map f = function
| [] -> []
| a :: t -> (f a) :: (map f t)

(** val flat_map : ('a1 -> 'a2 list) -> 'a1 list -> 'a2 list **)

let rec flat_map f = function
| [] -> []
| x :: t -> app (f x) (flat_map f t)

(** val fold_left : ('a1 -> 'a2 -> 'a1) -> 'a2 list -> 'a1 -> 'a1 **)

let rec fold_left f l a0 =
  match l with
  | [] -> a0
  | b0 :: t -> fold_left f t (f a0 b0)

(** val fold_right : ('a2 -> 'a1 -> 'a1) -> 'a1 -> 'a2 list -> 'a1 **)

let rec fold_right f a0 = function
| [] -> a0
| b0 :: t -> f b0 (fold_right f a0 t)

(** val existsb : ('a1 -> bool) -> 'a1 list -> bool **)

let rec existsb f = function
| [] -> false
| a :: l0 -> (||) (f a) (existsb f l0)

(** val forallb : ('a1 -> bool) -> 'a1 list -> bool **)

let rec forallb f = function
| [] -> true
| a :: l0 -> (&&) (f a) (forallb f l0)

(** val filter : ('a1 -> bool) -> 'a1 list -> 'a1 list **)

let rec filter f = function
| [] -> []
| x :: l0 -> if f x then x :: (filter f l0) else filter f l0

(** val firstn : nat -> 'a1 list -> 'a1 list **)

let rec firstn n0 l =
  match n0 with
  | O -> []
  | S n1 -> (match l with
             | [] -> []
             | a :: l0 -> a :: (firstn n1 l0))

(** val skipn : nat -> 'a1 list -> 'a1 list **)

let rec skipn n0 l =
  match n0 with
  | O -> l
  | S n1 -> (match l with
             | [] -> []
             | _ :: l0 -> skipn n1 l0)

(** val seq : nat -> nat -> nat list **)

let rec seq start = function
| O -> []
| S len0 -> start :: (seq (S start) len0)

(** val repeat : 'a1 -> nat -> 'a1 list **)

let rec repeat x = function
| O -> []
| S k -> x :: (repeat x k)

type positive =
| XI of positive
| XO of positive
| XH

type n =
| N0
| Npos of positive

type z =
| Z0
| Zpos of positive
| Zneg of positive

module Pos =
 struct
  type mask =
  | IsNul
  | IsPos of positive
  | IsNeg
 end

module Coq_Pos =
 struct
  (** val succ : positive -> positive **)

  let rec succ = function
  | XI p -> XO (succ p)
  | XO p -> XI p
  | XH -> XO XH

  (** val add : positive -> positive -> positive **)

  let rec add x y =
    match x with
    | XI p ->
      (match y with
       | XI q0 -> XO (add_carry p q0)
       | XO q0 -> XI (add p q0)
       | XH -> XO (succ p))
    | XO p ->
      (match y with
       | XI q0 -> XI (add p q0)
       | XO q0 -> XO (add p q0)
       | XH -> XI p)
    | XH -> (match y with
             | XI q0 -> XO (succ q0)
             | XO q0 -> XI q0
             | XH -> XO XH)

  (** val add_carry : positive -> positive -> positive **)

  and add_carry x y =
    match x with
    | XI p ->
      (match y with
       | XI q0 -> XI (add_carry p q0)
       | XO q0 -> XO (add_carry p q0)
       | XH -> XI (succ p))
    | XO p ->
      (match y with
       | XI q0 -> XO (add_carry p q0)
       | XO q0 -> XI (add p q0)
       | XH -> XO (succ p))
    | XH ->
      (match y with
       | XI q0 -> XI (succ q0)
       | XO q0 -> XO (succ q0)
       | XH -> XI XH)

  (** val pred_double : positive -> positive **)

  let rec pred_double = function
  | XI p -> XI (XO p)
  | XO p -> XI (pred_double p)
  | XH -> XH

  type mask = Pos.mask =
  | IsNul
  | IsPos of positive
  | IsNeg

  (** val succ_double_mask : mask -> mask **)

  let succ_double_mask = function
  | IsNul -> IsPos XH
  | IsPos p -> IsPos (XI p)
  | IsNeg -> IsNeg

  (** val double_mask : mask -> mask **)

  let double_mask = function
  | IsPos p -> IsPos (XO p)
  | x0 -> x0

  (** val double_pred_mask : positive -> mask **)

  let double_pred_mask = function
  | XI p -> IsPos (XO (XO p))
  | XO p -> IsPos (XO (pred_double p))
  | XH -> IsNul

  (** val sub_mask : positive -> positive -> mask **)

  let rec sub_mask x y =
    match x with
    | XI p ->
      (match y with
       | XI q0 -> double_mask (sub_mask p q0)
       | XO q0 -> succ_double_mask (sub_mask p q0)
       | XH -> IsPos (XO p))
    | XO p ->
      (match y with
       | XI q0 -> succ_double_mask (sub_mask_carry p q0)
       | XO q0 -> double_mask (sub_mask p q0)
       | XH -> IsPos (pred_double p))
    | XH -> (match y with
             | XH -> IsNul
             | _ -> IsNeg)

  (** val sub_mask_carry : positive -> positive -> mask **)

  and sub_mask_carry x y =
    match x with
    | XI p ->
      (match y with
       | XI q0 -> succ_double_mask (sub_mask_carry p q0)
       | XO q0 -> double_mask (sub_mask p q0)
       | XH -> IsPos (pred_double p))
    | XO p ->
      (match y with
       | XI q0 -> double_mask (sub_mask_carry p q0)
       | XO q0 -> succ_double_mask (sub_mask_carry p q0)
       | XH -> double_pred_mask p)
    | XH -> IsNeg

  (** val sub : positive -> positive -> positive **)

  let sub x y =
    match sub_mask x y with
    | IsPos z0 -> z0
    | _ -> XH

  (** val mul : positive -> positive -> positive **)

  let rec mul x y =
    match x with
    | XI p -> add y (XO (mul p y))
    | XO p -> XO (mul p y)
    | XH -> y

  (** val iter : ('a1 -> 'a1) -> 'a1 -> positive -> 'a1 **)

  let rec iter f x = function
  | XI n' -> f (iter f (iter f x n') n')
  | XO n' -> iter f (iter f x n') n'
  | XH -> f x

  (** val pow : positive -> positive -> positive **)

  let pow x =
    iter (mul x) XH

  (** val size_nat : positive -> nat **)

  let rec size_nat = function
  | XI p0 -> S (size_nat p0)
  | XO p0 -> S (size_nat p0)
  | XH -> S O

  (** val size : positive -> positive **)

  let rec size = function
  | XI p0 -> succ (size p0)
  | XO p0 -> succ (size p0)
  | XH -> XH

  (** val compare_cont : comparison -> positive -> positive -> comparison **)

  let rec compare_cont r x y =
    match x with
    | XI p ->
      (match y with
       | XI q0 -> compare_cont r p q0
       | XO q0 -> compare_cont Gt p q0
       | XH -> Gt)
    | XO p ->
      (match y with
       | XI q0 -> compare_cont Lt p q0
       | XO q0 -> compare_cont r p q0
       | XH -> Gt)
    | XH -> (match y with
             | XH -> r
             | _ -> Lt)

  (** val compare : positive -> positive -> comparison **)

  let compare =
    compare_cont Eq

  (** val eqb : positive -> positive -> bool **)

  let rec eqb p q0 =
    match p with
    | XI p0 -> (match q0 with
                | XI q1 -> eqb p0 q1
                | _ -> false)
    | XO p0 -> (match q0 with
                | XO q1 -> eqb p0 q1
                | _ -> false)
    | XH -> (match q0 with
             | XH -> true
             | _ -> false)

  (** val gcdn : nat -> positive -> positive -> positive **)

  let rec gcdn n0 a b0 =
    match n0 with
    | O -> XH
    | S n1 ->
      (match a with
       | XI a' ->
         (match b0 with
          | XI b' ->
            (match compare a' b' with
             | Eq -> a
             | Lt -> gcdn n1 (sub b' a') a
             | Gt -> gcdn n1 (sub a' b') b0)
          | XO b1 -> gcdn n1 a b1
          | XH -> XH)
       | XO a0 ->
         (match b0 with
          | XI _ -> gcdn n1 a0 b0
          | XO b1 -> XO (gcdn n1 a0 b1)
          | XH -> XH)
       | XH -> XH)

  (** val gcd : positive -> positive -> positive **)

  let gcd a b0 =
    gcdn (Coq__1.add (size_nat a) (size_nat b0)) a b0

  (** val ggcdn :
      nat -> positive -> positive -> positive * (positive * positive) **)

  let rec ggcdn n0 a b0 =
    match n0 with
    | O -> (XH, (a, b0))
    | S n1 ->
      (match a with
       | XI a' ->
         (match b0 with
          | XI b' ->
            (match compare a' b' with
             | Eq -> (a, (XH, XH))
             | Lt ->
               let (g, p) = ggcdn n1 (sub b' a') a in
               let (ba, aa) = p in (g, (aa, (add aa (XO ba))))
             | Gt ->
               let (g, p) = ggcdn n1 (sub a' b') b0 in
               let (ab, bb) = p in (g, ((add bb (XO ab)), bb)))
          | XO b1 ->
            let (g, p) = ggcdn n1 a b1 in
            let (aa, bb) = p in (g, (aa, (XO bb)))
          | XH -> (XH, (a, XH)))
       | XO a0 ->
         (match b0 with
          | XI _ ->
            let (g, p) = ggcdn n1 a0 b0 in
            let (aa, bb) = p in (g, ((XO aa), bb))
          | XO b1 -> let (g, p) = ggcdn n1 a0 b1 in ((XO g), p)
          | XH -> (XH, (a, XH)))
       | XH -> (XH, (XH, b0)))

  (** val ggcd : positive -> positive -> positive * (positive * positive) **)

  let ggcd a b0 =
    ggcdn (Coq__1.add (size_nat a) (size_nat b0)) a b0

  (** val iter_op : ('a1 -> 'a1 -> 'a1) -> positive -> 'a1 -> 'a1 **)

  let rec iter_op op p a =
    match p with
    | XI p0 -> op a (iter_op op p0 (op a a))
    | XO p0 -> iter_op op p0 (op a a)
    | XH -> a

  (** val to_nat : positive -> nat **)

  let to_nat x =
    iter_op Coq__1.add x (S O)

  (** val of_succ_nat : nat -> positive **)

  let rec of_succ_nat = function
  | O -> XH
  | S x -> succ (of_succ_nat x)

  (** val eq_dec : positive -> positive -> bool **)

  let rec eq_dec p x0 =
    match p with
    | XI p0 -> (match x0 with
                | XI p1 -> eq_dec p0 p1
                | _ -> false)
    | XO p0 -> (match x0 with
                | XO p1 -> eq_dec p0 p1
                | _ -> false)
    | XH -> (match x0 with
             | XH -> true
             | _ -> false)
 end

module N =
 struct
  (** val succ_double : n -> n **)

  let succ_double = function
  | N0 -> Npos XH
  | Npos p -> Npos (XI p)

  (** val double : n -> n **)

  let double = function
  | N0 -> N0
  | Npos p -> Npos (XO p)

  (** val add : n -> n -> n **)

  let add n0 m0 =
    match n0 with
    | N0 -> m0
    | Npos p -> (match m0 with
                 | N0 -> n0
                 | Npos q0 -> Npos (Coq_Pos.add p q0))

  (** val sub : n -> n -> n **)

  let sub n0 m0 =
    match n0 with
    | N0 -> N0
    | Npos n' ->
      (match m0 with
       | N0 -> n0
       | Npos m' ->
         (match Coq_Pos.sub_mask n' m' with
          | Coq_Pos.IsPos p -> Npos p
          | _ -> N0))

  (** val mul : n -> n -> n **)

  let mul n0 m0 =
    match n0 with
    | N0 -> N0
    | Npos p -> (match m0 with
                 | N0 -> N0
                 | Npos q0 -> Npos (Coq_Pos.mul p q0))

  (** val compare : n -> n -> comparison **)

  let compare n0 m0 =
    match n0 with
    | N0 -> (match m0 with
             | N0 -> Eq
             | Npos _ -> Lt)
    | Npos n' -> (match m0 with
                  | N0 -> Gt
                  | Npos m' -> Coq_Pos.compare n' m')

  (** val eqb : n -> n -> bool **)

  let eqb n0 m0 =
    match n0 with
    | N0 -> (match m0 with
             | N0 -> true
             | Npos _ -> false)
    | Npos p -> (match m0 with
                 | N0 -> false
                 | Npos q0 -> Coq_Pos.eqb p q0)

  (** val leb : n -> n -> bool **)

  let leb x y =
    match compare x y with
    | Gt -> false
    | _ -> true

  (** val ltb : n -> n -> bool **)

  let ltb x y =
    match compare x y with
    | Lt -> true
    | _ -> false

  (** val max : n -> n -> n **)

  let max n0 n' =
    match compare n0 n' with
    | Gt -> n0
    | _ -> n'

  (** val pow : n -> n -> n **)

  let pow n0 = function
  | N0 -> Npos XH
  | Npos p0 -> (match n0 with
                | N0 -> N0
                | Npos q0 -> Npos (Coq_Pos.pow q0 p0))

  (** val log2 : n -> n **)

  let log2 = function
  | N0 -> N0
  | Npos p0 ->
    (match p0 with
     | XI p -> Npos (Coq_Pos.size p)
     | XO p -> Npos (Coq_Pos.size p)
     | XH -> N0)

  (** val pos_div_eucl : positive -> n -> n * n **)

  let rec pos_div_eucl a b0 =
    match a with
    | XI a' ->
      let (q0, r) = pos_div_eucl a' b0 in
      let r' = succ_double r in
      if leb b0 r' then ((succ_double q0), (sub r' b0)) else ((double q0), r')
    | XO a' ->
      let (q0, r) = pos_div_eucl a' b0 in
      let r' = double r in
      if leb b0 r' then ((succ_double q0), (sub r' b0)) else ((double q0), r')
    | XH ->
      (match b0 with
       | N0 -> (N0, (Npos XH))
       | Npos p -> (match p with
                    | XH -> ((Npos XH), N0)
                    | _ -> (N0, (Npos XH))))

  (** val div_eucl : n -> n -> n * n **)

  let div_eucl a b0 =
    match a with
    | N0 -> (N0, N0)
    | Npos na -> (match b0 with
                  | N0 -> (N0, a)
                  | Npos _ -> pos_div_eucl na b0)

  (** val div : n -> n -> n **)

  let div a b0 =
    fst (div_eucl a b0)

  (** val modulo : n -> n -> n **)

  let modulo a b0 =
    snd (div_eucl a b0)

  (** val to_nat : n -> nat **)

  let to_nat = function
  | N0 -> O
  | Npos p -> Coq_Pos.to_nat p

  (** val of_nat : nat -> n **)

  let of_nat = function
  | O -> N0
  | S n' -> Npos (Coq_Pos.of_succ_nat n')

  (** val iter : n -> ('a1 -> 'a1) -> 'a1 -> 'a1 **)

  let iter n0 f x =
    match n0 with
    | N0 -> x
    | Npos p -> Coq_Pos.iter f x p

  (** val eq_dec : n -> n -> bool **)

  let eq_dec n0 m0 =
    match n0 with
    | N0 -> (match m0 with
             | N0 -> true
             | Npos _ -> false)
    | Npos p -> (match m0 with
                 | N0 -> false
                 | Npos p0 -> Coq_Pos.eq_dec p p0)
 end

module Z =
 struct
  (** val double : z -> z **)

  let double = function
  | Z0 -> Z0
  | Zpos p -> Zpos (XO p)
  | Zneg p -> Zneg (XO p)

  (** val succ_double : z -> z **)

  let succ_double = function
  | Z0 -> Zpos XH
  | Zpos p -> Zpos (XI p)
  | Zneg p -> Zneg (Coq_Pos.pred_double p)

  (** val pred_double : z -> z **)

  let pred_double = function
  | Z0 -> Zneg XH
  | Zpos p -> Zpos (Coq_Pos.pred_double p)
  | Zneg p -> Zneg (XI p)

  (** val pos_sub : positive -> positive -> z **)

  let rec pos_sub x y =
    match x with
    | XI p ->
      (match y with
       | XI q0 -> double (pos_sub p q0)
       | XO q0 -> succ_double (pos_sub p q0)
       | XH -> Zpos (XO p))
    | XO p ->
      (match y with
       | XI q0 -> pred_double (pos_sub p q0)
       | XO q0 -> double (pos_sub p q0)
       | XH -> Zpos (Coq_Pos.pred_double p))
    | XH ->
      (match y with
       | XI q0 -> Zneg (XO q0)
       | XO q0 -> Zneg (Coq_Pos.pred_double q0)
       | XH -> Z0)

  (** val add : z -> z -> z **)

  let add x y =
    match x with
    | Z0 -> y
    | Zpos x' ->
      (match y with
       | Z0 -> x
       | Zpos y' -> Zpos (Coq_Pos.add x' y')
       | Zneg y' -> pos_sub x' y')
    | Zneg x' ->
      (match y with
       | Z0 -> x
       | Zpos y' -> pos_sub y' x'
       | Zneg y' -> Zneg (Coq_Pos.add x' y'))

  (** val opp : z -> z **)

  let opp = function
  | Z0 -> Z0
  | Zpos x0 -> Zneg x0
  | Zneg x0 -> Zpos x0

  (** val sub : z -> z -> z **)

  let sub m0 n0 =
    add m0 (opp n0)

  (** val mul : z -> z -> z **)

  let mul x y =
    match x with
    | Z0 -> Z0
    | Zpos x' ->
      (match y with
       | Z0 -> Z0
       | Zpos y' -> Zpos (Coq_Pos.mul x' y')
       | Zneg y' -> Zneg (Coq_Pos.mul x' y'))
    | Zneg x' ->
      (match y with
       | Z0 -> Z0
       | Zpos y' -> Zneg (Coq_Pos.mul x' y')
       | Zneg y' -> Zpos (Coq_Pos.mul x' y'))

  (** val pow_pos : z -> positive -> z **)

  let pow_pos z0 =
    Coq_Pos.iter (mul z0) (Zpos XH)

  (** val pow : z -> z -> z **)

  let pow x = function
  | Z0 -> Zpos XH
  | Zpos p -> pow_pos x p
  | Zneg _ -> Z0

  (** val compare : z -> z -> comparison **)

  let compare x y =
    match x with
    | Z0 -> (match y with
             | Z0 -> Eq
             | Zpos _ -> Lt
             | Zneg _ -> Gt)
    | Zpos x' -> (match y with
                  | Zpos y' -> Coq_Pos.compare x' y'
                  | _ -> Gt)
    | Zneg x' ->
      (match y with
       | Zneg y' -> compOpp (Coq_Pos.compare x' y')
       | _ -> Lt)

  (** val sgn : z -> z **)

  let sgn = function
  | Z0 -> Z0
  | Zpos _ -> Zpos XH
  | Zneg _ -> Zneg XH

  (** val leb : z -> z -> bool **)

  let leb x y =
    match compare x y with
    | Gt -> false
    | _ -> true

  (** val ltb : z -> z -> bool **)

  let ltb x y =
    match compare x y with
    | Lt -> true
    | _ -> false

  (** val eqb : z -> z -> bool **)

  let eqb x y =
    match x with
    | Z0 -> (match y with
             | Z0 -> true
             | _ -> false)
    | Zpos p -> (match y with
                 | Zpos q0 -> Coq_Pos.eqb p q0
                 | _ -> false)
    | Zneg p -> (match y with
                 | Zneg q0 -> Coq_Pos.eqb p q0
                 | _ -> false)

  (** val abs : z -> z **)

  let abs = function
  | Zneg p -> Zpos p
  | x -> x

  (** val abs_N : z -> n **)

  let abs_N = function
  | Z0 -> N0
  | Zpos p -> Npos p
  | Zneg p -> Npos p

  (** val to_N : z -> n **)

  let to_N = function
  | Zpos p -> Npos p
  | _ -> N0

  (** val of_N : n -> z **)

  let of_N = function
  | N0 -> Z0
  | Npos p -> Zpos p

  (** val to_pos : z -> positive **)

  let to_pos = function
  | Zpos p -> p
  | _ -> XH

  (** val pos_div_eucl : positive -> z -> z * z **)

  let rec pos_div_eucl a b0 =
    match a with
    | XI a' ->
      let (q0, r) = pos_div_eucl a' b0 in
      let r' = add (mul (Zpos (XO XH)) r) (Zpos XH) in
      if ltb r' b0
      then ((mul (Zpos (XO XH)) q0), r')
      else ((add (mul (Zpos (XO XH)) q0) (Zpos XH)), (sub r' b0))
    | XO a' ->
      let (q0, r) = pos_div_eucl a' b0 in
      let r' = mul (Zpos (XO XH)) r in
      if ltb r' b0
      then ((mul (Zpos (XO XH)) q0), r')
      else ((add (mul (Zpos (XO XH)) q0) (Zpos XH)), (sub r' b0))
    | XH -> if leb (Zpos (XO XH)) b0 then (Z0, (Zpos XH)) else ((Zpos XH), Z0)

  (** val div_eucl : z -> z -> z * z **)

  let div_eucl a b0 =
    match a with
    | Z0 -> (Z0, Z0)
    | Zpos a' ->
      (match b0 with
       | Z0 -> (Z0, a)
       | Zpos _ -> pos_div_eucl a' b0
       | Zneg b' ->
         let (q0, r) = pos_div_eucl a' (Zpos b') in
         (match r with
          | Z0 -> ((opp q0), Z0)
          | _ -> ((opp (add q0 (Zpos XH))), (add b0 r))))
    | Zneg a' ->
      (match b0 with
       | Z0 -> (Z0, a)
       | Zpos _ ->
         let (q0, r) = pos_div_eucl a' b0 in
         (match r with
          | Z0 -> ((opp q0), Z0)
          | _ -> ((opp (add q0 (Zpos XH))), (sub b0 r)))
       | Zneg b' -> let (q0, r) = pos_div_eucl a' (Zpos b') in (q0, (opp r)))

  (** val div : z -> z -> z **)

  let div a b0 =
    let (q0, _) = div_eucl a b0 in q0

  (** val gcd : z -> z -> z **)

  let gcd a b0 =
    match a with
    | Z0 -> abs b0
    | Zpos a0 ->
      (match b0 with
       | Z0 -> abs a
       | Zpos b1 -> Zpos (Coq_Pos.gcd a0 b1)
       | Zneg b1 -> Zpos (Coq_Pos.gcd a0 b1))
    | Zneg a0 ->
      (match b0 with
       | Z0 -> abs a
       | Zpos b1 -> Zpos (Coq_Pos.gcd a0 b1)
       | Zneg b1 -> Zpos (Coq_Pos.gcd a0 b1))

  (** val ggcd : z -> z -> z * (z * z) **)

  let ggcd a b0 =
    match a with
    | Z0 -> ((abs b0), (Z0, (sgn b0)))
    | Zpos a0 ->
      (match b0 with
       | Z0 -> ((abs a), ((sgn a), Z0))
       | Zpos b1 ->
         let (g, p) = Coq_Pos.ggcd a0 b1 in
         let (aa, bb) = p in ((Zpos g), ((Zpos aa), (Zpos bb)))
       | Zneg b1 ->
         let (g, p) = Coq_Pos.ggcd a0 b1 in
         let (aa, bb) = p in ((Zpos g), ((Zpos aa), (Zneg bb))))
    | Zneg a0 ->
      (match b0 with
       | Z0 -> ((abs a), ((sgn a), Z0))
       | Zpos b1 ->
         let (g, p) = Coq_Pos.ggcd a0 b1 in
         let (aa, bb) = p in ((Zpos g), ((Zneg aa), (Zpos bb)))
       | Zneg b1 ->
         let (g, p) = Coq_Pos.ggcd a0 b1 in
         let (aa, bb) = p in ((Zpos g), ((Zneg aa), (Zneg bb))))
 end

(** val zeq_bool : z -> z -> bool **)

let zeq_bool x y =
  match Z.compare x y with
  | Eq -> true
  | _ -> false

type q = { qnum : z; qden : positive }

(** val inject_Z : z -> q **)

let inject_Z x =
  { qnum = x; qden = XH }

(** val qcompare : q -> q -> comparison **)

let qcompare p q0 =
  Z.compare (Z.mul p.qnum (Zpos q0.qden)) (Z.mul q0.qnum (Zpos p.qden))

(** val qeq_bool : q -> q -> bool **)

let qeq_bool x y =
  zeq_bool (Z.mul x.qnum (Zpos y.qden)) (Z.mul y.qnum (Zpos x.qden))

(** val qle_bool : q -> q -> bool **)

let qle_bool x y =
  Z.leb (Z.mul x.qnum (Zpos y.qden)) (Z.mul y.qnum (Zpos x.qden))

(** val qplus : q -> q -> q **)

let qplus x y =
  { qnum = (Z.add (Z.mul x.qnum (Zpos y.qden)) (Z.mul y.qnum (Zpos x.qden)));
    qden = (Coq_Pos.mul x.qden y.qden) }

(** val qmult : q -> q -> q **)

let qmult x y =
  { qnum = (Z.mul x.qnum y.qnum); qden = (Coq_Pos.mul x.qden y.qden) }

(** val qopp : q -> q **)

let qopp x =
  { qnum = (Z.opp x.qnum); qden = x.qden }

(** val qinv : q -> q **)

let qinv x =
  match x.qnum with
  | Z0 -> { qnum = Z0; qden = XH }
  | Zpos p -> { qnum = (Zpos x.qden); qden = p }
  | Zneg p -> { qnum = (Zneg x.qden); qden = p }

(** val qred : q -> q **)

let qred q0 =
  let { qnum = q1; qden = q2 } = q0 in
  let (r1, r2) = snd (Z.ggcd q1 (Zpos q2)) in
  { qnum = r1; qden = (Z.to_pos r2) }

(** val b : n **)

let b =
  Npos (XO (XO (XO (XO (XO (XO (XO (XO (XO (XO (XO (XO (XO (XO (XO (XO (XO
    (XO (XO (XO (XO (XO (XO (XO (XO (XO (XO (XO (XO (XO (XO (XO
    XH))))))))))))))))))))))))))))))))

type big = { bpos : bool; limbs : n list }

(** val lval : n list -> n **)

let rec lval = function
| [] -> N0
| x :: r -> N.add x (N.mul b (lval r))

(** val bval : big -> z **)

let bval a =
  if a.bpos then Z.of_N (lval a.limbs) else Z.opp (Z.of_N (lval a.limbs))

(** val strip : n list -> n list **)

let strip l =
  fold_right (fun x acc ->
    match acc with
    | [] -> if N.eqb x N0 then [] else x :: []
    | _ :: _ -> x :: acc) [] l

(** val shrink : n list -> n list **)

let shrink l =
  match strip l with
  | [] -> (match l with
           | [] -> []
           | _ :: _ -> N0 :: [])
  | n0 :: l0 -> n0 :: l0

(** val normalb : n list -> bool **)

let normalb l =
  (&&)
    ((&&) (forallb (fun x -> N.ltb x b) l)
      (negb (match l with
             | [] -> true
             | _ :: _ -> false)))
    (if list_eq_dec N.eq_dec (shrink l) l then true else false)

(** val wfb : big -> bool **)

let wfb a =
  (&&) (normalb a.limbs)
    (if list_eq_dec N.eq_dec a.limbs (N0 :: []) then a.bpos else true)

(** val carry1 : n list -> n -> n list **)

let rec carry1 a c =
  match a with
  | [] -> c :: []
  | x :: a' ->
    let t = N.add x c in
    if N.leb b t
    then (N.sub t b) :: (carry1 a' (Npos XH))
    else t :: (carry1 a' N0)

(** val add_carry0 : n list -> n list -> n -> n list **)

let rec add_carry0 a b0 c =
  match a with
  | [] -> carry1 b0 c
  | x :: a' ->
    (match b0 with
     | [] -> carry1 a c
     | y :: b' ->
       let t = N.add (N.add x y) c in
       if N.leb b t
       then (N.sub t b) :: (add_carry0 a' b' (Npos XH))
       else t :: (add_carry0 a' b' N0))

(** val add_core : n list -> n list -> n list **)

let add_core a b0 =
  add_carry0 a b0 N0

(** val lt_be : n list -> n list -> bool **)

let rec lt_be a b0 =
  match a with
  | [] -> false
  | x :: a' ->
    (match b0 with
     | [] -> false
     | y :: b' -> if N.eqb x y then lt_be a' b' else N.ltb x y)

(** val less_core : n list -> n list -> bool **)

let less_core l r =
  let a = shrink l in
  let b0 = shrink r in
  if Nat.eqb (length a) (length b0)
  then lt_be (rev a) (rev b0)
  else Nat.ltb (length a) (length b0)

(** val sub_borrow : n list -> n list -> n -> n list **)

let rec sub_borrow a b0 c =
  match a with
  | [] -> c :: []
  | x :: a' ->
    (match b0 with
     | [] ->
       if N.ltb x c
       then (N.sub (N.add x b) c) :: (sub_borrow a' [] (Npos XH))
       else (N.sub x c) :: (sub_borrow a' [] N0)
     | y :: b' ->
       if N.ltb x (N.add y c)
       then (N.sub (N.sub (N.add x b) y) c) :: (sub_borrow a' b' (Npos XH))
       else (N.sub (N.sub x y) c) :: (sub_borrow a' b' N0))

(** val sub_core : n list -> n list -> n list * bool **)

let sub_core l r =
  if less_core l r
  then ((sub_borrow r l N0), true)
  else ((sub_borrow l r N0), false)

(** val row : n -> n list -> n list -> n list **)

let rec row x ys w =
  match ys with
  | [] -> w
  | y :: ys' ->
    (match w with
     | [] -> w
     | w0 :: l ->
       (match l with
        | [] -> w
        | w1 :: ws ->
          let t = N.mul x y in
          let a = N.add w0 (N.modulo t b) in
          let b0 = N.add (N.add w1 (N.div t b)) (N.div a b) in
          (N.modulo a b) :: (row x ys' (b0 :: ws))))

(** val mult_rows : n list -> n list -> n list -> n list **)

let rec mult_rows xs ys w =
  match xs with
  | [] -> w
  | x :: xs' ->
    (match if N.eqb x N0 then w else row x ys w with
     | [] -> []
     | w0 :: w' -> w0 :: (mult_rows xs' ys w'))

(** val mult_acc : n list -> n list -> n list **)

let mult_acc a b0 =
  mult_rows a b0 (repeat N0 (add (add (length a) (length b0)) (S O)))

(** val mult_core : n list -> n list -> n list **)

let mult_core a b0 =
  map (fun x -> N.modulo x b) (mult_acc a b0)

(** val upd : n list -> nat -> (n -> n) -> n list **)

let upd v i f =
  app (firstn i v) (match skipn i v with
                    | [] -> []
                    | x :: r -> (f x) :: r)

(** val div_step : n list -> n list -> n list -> (nat * nat) -> n list **)

let div_step lhs rhs v = function
| (i, j) ->
  let v1 = upd v i (fun x -> N.add x (N.pow (Npos (XO XH)) (N.of_nat j))) in
  if less_core lhs (mult_core v1 rhs)
  then upd v1 i (fun x -> N.sub x (N.pow (Npos (XO XH)) (N.of_nat j)))
  else v1

(** val bits_desc : nat list **)

let bits_desc =
  rev
    (seq O (S (S (S (S (S (S (S (S (S (S (S (S (S (S (S (S (S (S (S (S (S (S
      (S (S (S (S (S (S (S (S (S (S O)))))))))))))))))))))))))))))))))

(** val div_order : nat -> (nat * nat) list **)

let div_order n0 =
  flat_map (fun i -> map (fun j -> (i, j)) bits_desc) (rev (seq O n0))

(** val div_core : n list -> n list -> n list **)

let div_core lhs rhs =
  fold_left (div_step lhs rhs)
    (div_order (Nat.max (length lhs) (length rhs)))
    (repeat N0 (Nat.max (length lhs) (length rhs)))

(** val is_zero : big -> bool **)

let is_zero a =
  if list_eq_dec N.eq_dec a.limbs (N0 :: []) then true else false

(** val from_vec : n list -> big **)

let from_vec v =
  { bpos = true; limbs = (shrink v) }

(** val bminus : big -> big **)

let bminus a =
  if is_zero a then a else { bpos = (negb a.bpos); limbs = a.limbs }

(** val bneg : big -> big **)

let bneg =
  bminus

(** val shrink_big : big -> big **)

let shrink_big a =
  { bpos = a.bpos; limbs = (shrink a.limbs) }

(** val bzero : big **)

let bzero =
  { bpos = true; limbs = (N0 :: []) }

(** val bone : big **)

let bone =
  { bpos = true; limbs = ((Npos XH) :: []) }

(** val flip_if : bool -> big -> big **)

let flip_if b0 a =
  if b0 then bminus a else a

(** val badd : big -> big -> big **)

let badd l r =
  if l.bpos
  then if r.bpos
       then shrink_big (flip_if false (from_vec (add_core l.limbs r.limbs)))
       else let (t, s) = sub_core l.limbs r.limbs in
            shrink_big (flip_if s (from_vec t))
  else if r.bpos
       then let (t, s) = sub_core l.limbs r.limbs in
            shrink_big (flip_if (xorb s true) (from_vec t))
       else shrink_big (flip_if true (from_vec (add_core l.limbs r.limbs)))

(** val bsub : big -> big -> big **)

let bsub l r =
  if l.bpos
  then if r.bpos
       then let (t, s) = sub_core l.limbs r.limbs in
            shrink_big (flip_if s (from_vec t))
       else shrink_big (flip_if false (from_vec (add_core l.limbs r.limbs)))
  else if r.bpos
       then shrink_big (flip_if true (from_vec (add_core l.limbs r.limbs)))
       else let (t, s) = sub_core l.limbs r.limbs in
            shrink_big (flip_if (xorb s true) (from_vec t))

(** val bmul : big -> big -> big **)

let bmul l r =
  flip_if (xorb l.bpos r.bpos) (from_vec (mult_core l.limbs r.limbs))

(** val bdiv : big -> big -> big **)

let bdiv l r =
  flip_if (xorb l.bpos r.bpos) (from_vec (div_core l.limbs r.limbs))

(** val brem : big -> big -> big **)

let brem l r =
  bsub l (bmul (bdiv l r) r)

(** val beq : big -> big -> bool **)

let beq a b0 =
  if (&&) (is_zero a) (is_zero b0)
  then true
  else (&&) (eqb a.bpos b0.bpos)
         (if list_eq_dec N.eq_dec a.limbs b0.limbs then true else false)

(** val bcmp : big -> big -> comparison **)

let bcmp a b0 =
  if beq a b0
  then Eq
  else if if a.bpos
          then if b0.bpos then less_core a.limbs b0.limbs else false
          else if b0.bpos then true else less_core b0.limbs a.limbs
       then Lt
       else Gt

(** val gcd_fuel : nat -> big -> big -> big option **)

let rec gcd_fuel fuel a b0 =
  match fuel with
  | O -> None
  | S f -> if is_zero b0 then Some a else gcd_fuel f b0 (brem a b0)

(** val gcd_bound : big -> nat **)

let gcd_bound b0 =
  add
    (mul (S (S (S (S (S (S (S (S (S (S (S (S (S (S (S (S (S (S (S (S (S (S (S
      (S (S (S (S (S (S (S (S (S (S (S (S (S (S (S (S (S (S (S (S (S (S (S (S
      (S (S (S (S (S (S (S (S (S (S (S (S (S (S (S (S (S
      O))))))))))))))))))))))))))))))))))))))))))))))))))))))))))))))))
      (length b0.limbs)) (S (S O))

(** val bgcd : big -> big -> big option **)

let bgcd a b0 =
  gcd_fuel (gcd_bound b0) a b0

(** val to_limbs : nat -> n -> n list **)

let rec to_limbs fuel m0 =
  match fuel with
  | O -> []
  | S f ->
    (N.modulo m0 b) :: (if N.eqb (N.div m0 b) N0
                        then []
                        else to_limbs f (N.div m0 b))

(** val bnew : z -> big **)

let bnew n0 =
  { bpos = (Z.leb Z0 n0); limbs = (to_limbs (S (S (S (S O)))) (Z.abs_N n0)) }

(** val new_pre_fix : z -> big **)

let new_pre_fix n0 =
  { bpos = (Z.leb Z0 n0); limbs = ((N.modulo (Z.abs_N n0) b) :: []) }

(** val to_int : big -> n **)

let to_int a =
  hd N0 a.limbs

type num = { up : big; down : big }

(** val nan : num **)

let nan =
  { up = bone; down = bzero }

(** val nzero : num **)

let nzero =
  { up = bzero; down = bone }

(** val n_one : num **)

let n_one =
  { up = bone; down = bone }

(** val from_num : z -> num **)

let from_num n0 =
  { up = (bnew n0); down = bone }

(** val is_nan : num -> bool **)

let is_nan n0 =
  is_zero n0.down

(** val is_pos : num -> bool **)

let is_pos n0 =
  (&&) n0.up.bpos (negb (is_nan n0))

(** val gcd_total : big -> big -> big **)

let gcd_total a b0 =
  match bgcd a b0 with
  | Some g -> g
  | None -> bzero

(** val optimize : num -> num **)

let optimize n0 =
  let g = gcd_total n0.up n0.down in
  let u = bdiv n0.up g in
  let d = bdiv n0.down g in
  if d.bpos
  then { up = u; down = d }
  else { up = (bminus u); down = (bminus d) }

(** val optimize_pre_fix : num -> num **)

let optimize_pre_fix n0 =
  let g = gcd_total n0.up n0.down in
  { up = (bdiv n0.up g); down = (bdiv n0.down g) }

(** val from_big_num : big -> big -> num **)

let from_big_num u d =
  optimize { up = u; down = d }

(** val wrap_isize : z -> z **)

let wrap_isize d =
  if Z.ltb d (Z.pow (Zpos (XO XH)) (Zpos (XI (XI (XI (XI (XI XH)))))))
  then d
  else Z.sub d (Z.pow (Zpos (XO XH)) (Zpos (XO (XO (XO (XO (XO (XO XH))))))))

(** val nnew : z -> z -> num **)

let nnew u d =
  optimize { up = (bnew u); down = (bnew (wrap_isize d)) }

(** val nminus : num -> num **)

let nminus n0 =
  { up = (bminus n0.up); down = n0.down }

(** val nneg : num -> num **)

let nneg n0 =
  { up = (bneg n0.up); down = n0.down }

(** val nflip : num -> num **)

let nflip n0 =
  if is_nan n0
  then n0
  else let u = n0.down in
       let d = n0.up in
       if d.bpos
       then { up = u; down = d }
       else { up = (bminus u); down = (bminus d) }

(** val nadd : num -> num -> num **)

let nadd l r =
  if (||) (is_nan l) (is_nan r)
  then nan
  else optimize { up = (badd (bmul l.up r.down) (bmul l.down r.up)); down =
         (bmul l.down r.down) }

(** val nmul : num -> num -> num **)

let nmul l r =
  if (||) (is_nan l) (is_nan r)
  then nan
  else optimize { up = (bmul l.up r.up); down = (bmul l.down r.down) }

(** val floor : num -> big **)

let floor n0 =
  if beq n0.down bone then n0.up else bdiv n0.up n0.down

(** val neq : num -> num -> bool **)

let neq a b0 =
  (&&) (beq a.up b0.up) (beq a.down b0.down)

(** val ncmp : num -> num -> comparison option **)

let ncmp a b0 =
  if (||) (is_nan a) (is_nan b0)
  then None
  else if neq a b0
       then Some Eq
       else (match bcmp (bmul a.up b0.down) (bmul a.down b0.up) with
             | Eq -> Some Gt
             | x -> Some x)

(** val ncmp_pre_fix : num -> num -> comparison option **)

let ncmp_pre_fix a b0 =
  if (||) (is_nan a) (is_nan b0)
  then None
  else if neq a b0
       then Some Eq
       else (match bcmp (bmul a.up b0.down) (bmul a.down b0.down) with
             | Eq -> Some Gt
             | x -> Some x)

(** val wfnb : num -> bool **)

let wfnb n0 =
  (&&) ((&&) ((&&) (wfb n0.up) (wfb n0.down)) n0.down.bpos)
    (if Z.eqb (bval n0.down) Z0
     then Z.eqb (Z.abs (bval n0.up)) (Zpos XH)
     else Z.eqb (Z.gcd (bval n0.up) (bval n0.down)) (Zpos XH))

(** val nAN_TEXT : n list **)

let nAN_TEXT =
  (Npos (XO (XO (XO (XI (XO (XO (XO (XO (XI (XO (XO (XO (XI (XI (XO
    XH)))))))))))))))) :: ((Npos (XO (XO (XI (XO (XI (XI (XO (XO (XI (XI (XO
    (XI (XI (XI (XO XH)))))))))))))))) :: ((Npos (XO (XO (XO (XO (XO
    XH)))))) :: ((Npos (XO (XO (XI (XO (XO (XI (XI (XI (XO (XI (XI (XI (XO
    (XO (XI XH)))))))))))))))) :: ((Npos (XI (XI (XI (XO (XO (XO (XI (XI (XI
    (XO (XI (XO (XO (XO (XI XH)))))))))))))))) :: ((Npos (XO (XI (XI (XI (XO
    XH)))))) :: ((Npos (XO (XI (XI (XI (XO XH)))))) :: ((Npos (XO (XI (XI (XI
    (XO XH)))))) :: [])))))))

(** val cH_MINUS : n **)

let cH_MINUS =
  Npos (XI (XO (XI (XI (XO XH)))))

(** val cH_SLASH : n **)

let cH_SLASH =
  Npos (XI (XI (XI (XI (XO XH)))))

(** val digit_char : n -> n **)

let digit_char d =
  if N.ltb d (Npos (XO (XI (XO XH))))
  then N.add (Npos (XO (XO (XO (XO (XI XH)))))) d
  else N.sub (N.add (Npos (XI (XO (XO (XO (XO (XO XH))))))) d) (Npos (XO (XI
         (XO XH))))

type tsr =
| TSBase
| TSFuel
| TSOk of n list

(** val digits_fuel : nat -> big -> big -> n list option **)

let rec digits_fuel fuel num0 base =
  match fuel with
  | O -> None
  | S f ->
    if is_zero num0
    then Some []
    else (match digits_fuel f (bdiv num0 base) base with
          | Some r -> Some ((digit_char (to_int (brem num0 base))) :: r)
          | None -> None)

(** val ts_bound : big -> nat **)

let ts_bound a =
  add
    (mul (S (S (S (S (S (S (S (S (S (S (S (S (S (S (S (S (S (S (S (S (S (S (S
      (S (S (S (S (S (S (S (S (S O))))))))))))))))))))))))))))))))
      (length a.limbs)) (S O)

(** val to_string_base : big -> n -> tsr **)

let to_string_base a base =
  if negb
       ((&&) (N.leb (Npos XH) base)
         (N.leb base (Npos (XO (XO (XI (XO (XO XH))))))))
  then TSBase
  else (match digits_fuel (ts_bound a) { bpos = true; limbs = a.limbs }
                (bnew (Z.of_N base)) with
        | Some ds ->
          let ds0 =
            match ds with
            | [] -> (Npos (XO (XO (XO (XO (XI XH)))))) :: []
            | _ :: _ -> ds
          in
          TSOk (rev (if a.bpos then ds0 else app ds0 (cH_MINUS :: [])))
        | None -> TSFuel)

(** val big_display : big -> n list **)

let big_display a =
  match to_string_base a (Npos (XO (XI (XO XH)))) with
  | TSOk s -> s
  | _ -> []

type fsr =
| FSBase
| FSParse
| FSOk of big

(** val digit_val : n -> n option **)

let digit_val c =
  if (&&) (N.leb (Npos (XO (XO (XO (XO (XI XH)))))) c)
       (N.leb c (Npos (XI (XO (XO (XI (XI XH)))))))
  then Some (N.sub c (Npos (XO (XO (XO (XO (XI XH)))))))
  else if (&&) (N.leb (Npos (XI (XO (XO (XO (XO (XO XH))))))) c)
            (N.leb c (Npos (XO (XI (XO (XI (XI (XO XH))))))))
       then Some
              (N.add (N.sub c (Npos (XI (XO (XO (XO (XO (XO XH)))))))) (Npos
                (XO (XI (XO XH)))))
       else None

(** val horner : big -> n list -> big -> big option **)

let rec horner base s acc =
  match s with
  | [] -> Some acc
  | c :: r ->
    (match digit_val c with
     | Some k -> horner base r (badd (bmul acc base) (bnew (Z.of_N k)))
     | None -> None)

(** val from_string_base : n list -> n -> fsr **)

let from_string_base s base =
  if negb
       ((&&) (N.leb (Npos XH) base)
         (N.leb base (Npos (XO (XO (XI (XO (XO XH))))))))
  then FSBase
  else (match s with
        | [] ->
          let flip = false in
          (match horner (bnew (Z.of_N base)) s (bnew Z0) with
           | Some res1 ->
             FSOk
               (if flip then { bpos = false; limbs = res1.limbs } else res1)
           | None -> FSParse)
        | c :: r ->
          if N.eqb c cH_MINUS
          then let flip = true in
               (match horner (bnew (Z.of_N base)) r (bnew Z0) with
                | Some res1 ->
                  FSOk
                    (if flip
                     then { bpos = false; limbs = res1.limbs }
                     else res1)
                | None -> FSParse)
          else let flip = false in
               (match horner (bnew (Z.of_N base)) s (bnew Z0) with
                | Some res1 ->
                  FSOk
                    (if flip
                     then { bpos = false; limbs = res1.limbs }
                     else res1)
                | None -> FSParse))

(** val num_display : num -> n list **)

let num_display n0 =
  if is_nan n0
  then nAN_TEXT
  else if beq n0.down bone
       then big_display n0.up
       else app (big_display n0.up)
              (app (cH_SLASH :: []) (big_display n0.down))

(** val split_slash : n list -> n list -> n list list **)

let rec split_slash s cur0 =
  match s with
  | [] -> (rev cur0) :: []
  | c :: r ->
    if N.eqb c cH_SLASH
    then (rev cur0) :: (split_slash r [])
    else split_slash r (c :: cur0)

(** val num_from_string : n list -> num option **)

let num_from_string s =
  if list_eq_dec N.eq_dec s nAN_TEXT
  then Some nan
  else (match s with
        | [] ->
          let ng = false in
          let parts = split_slash s [] in
          let res1 =
            match parts with
            | [] -> None
            | a :: l ->
              (match l with
               | [] ->
                 (match from_string_base a (Npos (XO (XI (XO XH)))) with
                  | FSBase -> None
                  | FSParse -> None
                  | FSOk u -> Some (from_big_num u bone))
               | b0 :: _ ->
                 (match from_string_base a (Npos (XO (XI (XO XH)))) with
                  | FSOk u ->
                    (match from_string_base b0 (Npos (XO (XI (XO XH)))) with
                     | FSOk d -> Some (from_big_num u d)
                     | _ -> None)
                  | _ -> None))
          in
          (match res1 with
           | Some r -> Some (if ng then nminus r else r)
           | None -> None)
        | c :: r ->
          if N.eqb c cH_MINUS
          then let ng = true in
               let parts = split_slash r [] in
               let res1 =
                 match parts with
                 | [] -> None
                 | a :: l ->
                   (match l with
                    | [] ->
                      (match from_string_base a (Npos (XO (XI (XO XH)))) with
                       | FSBase -> None
                       | FSParse -> None
                       | FSOk u -> Some (from_big_num u bone))
                    | b0 :: _ ->
                      (match from_string_base a (Npos (XO (XI (XO XH)))) with
                       | FSOk u ->
                         (match from_string_base b0 (Npos (XO (XI (XO XH)))) with
                          | FSOk d -> Some (from_big_num u d)
                          | _ -> None)
                       | _ -> None))
               in
               (match res1 with
                | Some r0 -> Some (if ng then nminus r0 else r0)
                | None -> None)
          else let ng = false in
               let parts = split_slash s [] in
               let res1 =
                 match parts with
                 | [] -> None
                 | a :: l ->
                   (match l with
                    | [] ->
                      (match from_string_base a (Npos (XO (XI (XO XH)))) with
                       | FSBase -> None
                       | FSParse -> None
                       | FSOk u -> Some (from_big_num u bone))
                    | b0 :: _ ->
                      (match from_string_base a (Npos (XO (XI (XO XH)))) with
                       | FSOk u ->
                         (match from_string_base b0 (Npos (XO (XI (XO XH)))) with
                          | FSOk d -> Some (from_big_num u d)
                          | _ -> None)
                       | _ -> None))
               in
               (match res1 with
                | Some r0 -> Some (if ng then nminus r0 else r0)
                | None -> None))

(** val index_from : n -> n list -> n -> n option **)

let rec index_from c l i =
  match l with
  | [] -> None
  | x :: r -> if N.eqb x c then Some i else index_from c r (N.add i (Npos XH))

(** val index_of : n -> n list -> n option **)

let index_of c l =
  index_from c l N0

(** val sINGLE : n list **)

let sINGLE =
  (Npos (XI (XO (XI (XO (XI (XO (XO (XO (XO (XI (XI (XO (XI (XO (XI
    XH)))))))))))))))) :: ((Npos (XI (XO (XI (XI (XO (XI (XI (XO (XI (XO (XI
    (XO (XI (XO (XI XH)))))))))))))))) :: ((Npos (XI (XI (XO (XI (XO (XI (XI
    (XO (XI (XO (XI (XO (XI (XO (XI XH)))))))))))))))) :: ((Npos (XI (XI (XO
    (XO (XO (XI (XI (XO (XI (XI (XI (XO (XI (XO (XI
    XH)))))))))))))))) :: ((Npos (XI (XO (XO (XO (XO (XI (XI (XO (XI (XI (XI
    (XO (XI (XO (XI XH)))))))))))))))) :: ((Npos (XI (XO (XO (XO (XI (XO (XI
    (XO (XI (XI (XI (XO (XI (XO (XI XH)))))))))))))))) :: [])))))

(** val sTART : n list **)

let sTART =
  (Npos (XO (XO (XO (XO (XO (XO (XO (XO (XO (XI (XI (XO (XI (XO (XI
    XH)))))))))))))))) :: ((Npos (XO (XO (XO (XI (XI (XO (XI (XO (XI (XO (XI
    (XO (XI (XO (XI XH)))))))))))))))) :: ((Npos (XO (XO (XO (XO (XI (XO (XI
    (XO (XI (XI (XI (XO (XI (XO (XI XH)))))))))))))))) :: []))

(** val hEARTS : n list **)

let hEARTS =
  (Npos (XI (XO (XI (XO (XO (XI (XI (XO (XO (XI (XI (XO (XO
    XH)))))))))))))) :: ((Npos (XO (XO (XI (XO (XO (XI (XI (XO (XI (XI (XI
    (XO (XO XH)))))))))))))) :: ((Npos (XI (XO (XI (XO (XI (XO (XO (XI (XO
    (XO (XI (XO (XI (XI (XI (XI XH))))))))))))))))) :: ((Npos (XO (XI (XI (XO
    (XI (XO (XO (XI (XO (XO (XI (XO (XI (XI (XI (XI
    XH))))))))))))))))) :: ((Npos (XI (XI (XI (XO (XI (XO (XO (XI (XO (XO (XI
    (XO (XI (XI (XI (XI XH))))))))))))))))) :: ((Npos (XO (XO (XO (XI (XI (XO
    (XO (XI (XO (XO (XI (XO (XI (XI (XI (XI XH))))))))))))))))) :: ((Npos (XI
    (XO (XO (XI (XI (XO (XO (XI (XO (XO (XI (XO (XI (XI (XI (XI
    XH))))))))))))))))) :: ((Npos (XO (XI (XO (XI (XI (XO (XO (XI (XO (XO (XI
    (XO (XI (XI (XI (XI XH))))))))))))))))) :: ((Npos (XI (XI (XO (XI (XI (XO
    (XO (XI (XO (XO (XI (XO (XI (XI (XI (XI XH))))))))))))))))) :: ((Npos (XO
    (XO (XI (XI (XI (XO (XO (XI (XO (XO (XI (XO (XI (XI (XI (XI
    XH))))))))))))))))) :: ((Npos (XI (XO (XI (XI (XI (XO (XO (XI (XO (XO (XI
    (XO (XI (XI (XI (XI XH))))))))))))))))) :: ((Npos (XI (XO (XO (XO (XO (XI
    (XI (XO (XO (XI (XI (XO (XO XH)))))))))))))) :: [])))))))))))

(** val cH_Q : n **)

let cH_Q =
  Npos (XI (XI (XI (XI (XI XH)))))

(** val cH_BANG : n **)

let cH_BANG =
  Npos (XI (XO (XO (XO (XO XH)))))

(** val cH_US : n **)

let cH_US =
  Npos (XI (XI (XI (XI (XI (XO XH))))))

(** val cH_LB : n **)

let cH_LB =
  Npos (XI (XI (XO (XI (XI (XO XH))))))

(** val cH_RB : n **)

let cH_RB =
  Npos (XI (XO (XI (XI (XI (XO XH))))))

(** val cH_NL : n **)

let cH_NL =
  Npos (XO (XI (XO XH)))

(** val is_dot : n -> bool **)

let is_dot c =
  (||)
    ((||)
      ((||) (N.eqb c (Npos (XO (XI (XI (XI (XO XH)))))))
        (N.eqb c (Npos (XO (XI (XI (XO (XO (XI (XO (XO (XO (XO (XO (XO (XO
          XH))))))))))))))))
      (N.eqb c (Npos (XI (XI (XI (XI (XO (XI (XI (XI (XO (XI (XO (XO (XO
        XH))))))))))))))))
    (N.eqb c (Npos (XO (XI (XI (XI (XO (XI (XI (XI (XO (XI (XO (XO (XO
      XH)))))))))))))))

(** val dot_val : n -> n **)

let dot_val c =
  if N.eqb c (Npos (XO (XI (XI (XI (XO XH)))))) then Npos XH else Npos (XI XH)

(** val is_hangul : n -> bool **)

let is_hangul c =
  (&&)
    (N.leb (Npos (XO (XO (XO (XO (XO (XO (XO (XO (XO (XO (XI (XI (XO (XI (XO
      XH)))))))))))))))) c)
    (N.leb c (Npos (XI (XI (XO (XO (XO (XI (XO (XI (XI (XI (XI (XO (XI (XO
      (XI XH)))))))))))))))))

(** val is_ws : n -> bool **)

let is_ws c =
  (||)
    ((||)
      ((||)
        ((||)
          ((||)
            ((||)
              ((||)
                ((||)
                  ((||)
                    ((||)
                      ((&&) (N.leb (Npos (XI (XO (XO XH)))) c)
                        (N.leb c (Npos (XI (XO (XI XH))))))
                      (N.eqb c (Npos (XO (XO (XO (XO (XO XH))))))))
                    (N.eqb c (Npos (XI (XO (XI (XO (XO (XO (XO XH))))))))))
                  (N.eqb c (Npos (XO (XO (XO (XO (XO (XI (XO XH))))))))))
                (N.eqb c (Npos (XO (XO (XO (XO (XO (XO (XO (XI (XO (XI (XI
                  (XO XH)))))))))))))))
              ((&&)
                (N.leb (Npos (XO (XO (XO (XO (XO (XO (XO (XO (XO (XO (XO (XO
                  (XO XH)))))))))))))) c)
                (N.leb c (Npos (XO (XI (XO (XI (XO (XO (XO (XO (XO (XO (XO
                  (XO (XO XH)))))))))))))))))
            (N.eqb c (Npos (XO (XO (XO (XI (XO (XI (XO (XO (XO (XO (XO (XO
              (XO XH))))))))))))))))
          (N.eqb c (Npos (XI (XO (XO (XI (XO (XI (XO (XO (XO (XO (XO (XO (XO
            XH))))))))))))))))
        (N.eqb c (Npos (XI (XI (XI (XI (XO (XI (XO (XO (XO (XO (XO (XO (XO
          XH))))))))))))))))
      (N.eqb c (Npos (XI (XI (XI (XI (XI (XO (XI (XO (XO (XO (XO (XO (XO
        XH))))))))))))))))
    (N.eqb c (Npos (XO (XO (XO (XO (XO (XO (XO (XO (XO (XO (XO (XO (XI
      XH)))))))))))))))

(** val end_class : n -> n option **)

let end_class c =
  if N.eqb c (Npos (XI (XO (XO (XI (XO (XO (XI (XI (XI (XO (XI (XO (XO (XO
       (XI XH))))))))))))))))
  then Some N0
  else if (||)
            (N.eqb c (Npos (XI (XO (XO (XI (XI (XO (XI (XO (XI (XO (XI (XO
              (XO (XO (XI XH)))))))))))))))))
            (N.eqb c (Npos (XI (XI (XI (XO (XI (XO (XI (XO (XI (XO (XI (XO
              (XO (XO (XI XH)))))))))))))))))
       then Some (Npos XH)
       else if (||)
                 ((||)
                   (N.eqb c (Npos (XI (XI (XI (XI (XO (XO (XI (XO (XI (XI (XI
                     (XO (XO (XO (XI XH)))))))))))))))))
                   (N.eqb c (Npos (XI (XO (XI (XI (XO (XO (XI (XO (XI (XI (XI
                     (XO (XO (XO (XI XH))))))))))))))))))
                 (N.eqb c (Npos (XI (XO (XI (XI (XI (XI (XO (XO (XI (XI (XI
                   (XO (XO (XO (XI XH)))))))))))))))))
            then Some (Npos (XO XH))
            else None

(** val end_kind : n -> n option **)

let end_kind c =
  if N.eqb c (Npos (XI (XO (XO (XI (XO (XO (XI (XI (XI (XO (XI (XO (XO (XO
       (XI XH))))))))))))))))
  then Some N0
  else if N.eqb c (Npos (XI (XO (XO (XI (XI (XO (XI (XO (XI (XO (XI (XO (XO
            (XO (XI XH))))))))))))))))
       then Some (Npos XH)
       else if N.eqb c (Npos (XI (XI (XI (XO (XI (XO (XI (XO (XI (XO (XI (XO
                 (XO (XO (XI XH))))))))))))))))
            then Some (Npos (XO XH))
            else if N.eqb c (Npos (XI (XI (XI (XI (XO (XO (XI (XO (XI (XI (XI
                      (XO (XO (XO (XI XH))))))))))))))))
                 then Some (Npos (XI XH))
                 else if N.eqb c (Npos (XI (XO (XI (XI (XO (XO (XI (XO (XI
                           (XI (XI (XO (XO (XO (XI XH))))))))))))))))
                      then Some (Npos (XO (XO XH)))
                      else if N.eqb c (Npos (XI (XO (XI (XI (XI (XI (XO (XO
                                (XI (XI (XI (XO (XO (XO (XI XH))))))))))))))))
                           then Some (Npos (XI (XO XH)))
                           else None

(** val class_of_kind : n -> n **)

let class_of_kind k =
  if N.eqb k N0
  then N0
  else if N.leb k (Npos (XO XH)) then Npos XH else Npos (XO XH)

(** val area_char : n -> n **)

let area_char t =
  nth (N.to_nat t) (app (cH_Q :: (cH_BANG :: [])) hEARTS) N0

type area =
| Nil
| Val of n * area * area

(** val leafA : n -> area **)

let leafA t =
  Val (t, Nil, Nil)

type slot = n option

(** val slotA : slot -> area **)

let slotA = function
| Some t -> leafA t
| None -> Nil

type bangz = { closed : slot list; curslot : slot }

(** val bang_tree : slot list -> slot -> area **)

let rec bang_tree cl last0 =
  match cl with
  | [] -> slotA last0
  | s :: r -> Val ((Npos XH), (slotA s), (bang_tree r last0))

(** val bangA : bangz -> area **)

let bangA b0 =
  bang_tree b0.closed b0.curslot

(** val bang0 : bangz **)

let bang0 =
  { closed = []; curslot = None }

(** val qu_tree : area list -> area -> area **)

let rec qu_tree qs last0 =
  match qs with
  | [] -> last0
  | a :: r -> Val (N0, a, (qu_tree r last0))

type ucode = { ty : n; hc : n; dc : n; loc : (n * n); ar : area; raw : n list }

type pst = { res : ucode list; type_ : n; hangul : n; dots : n;
             cloc : (n * n); st : n; bz : bangz; qz : area list; line : 
             n; line_start : n; rawc : n list }

(** val pst0 : pst **)

let pst0 =
  { res = []; type_ = (Npos (XO (XI (XO XH)))); hangul = N0; dots = N0;
    cloc = ((Npos XH), N0); st = N0; bz = bang0; qz = []; line = N0;
    line_start = N0; rawc = [] }

(** val finish : pst -> area **)

let finish s =
  qu_tree (rev s.qz) (bangA s.bz)

(** val flush : pst -> ucode list **)

let flush s =
  if N.eqb s.type_ (Npos (XO (XI (XO XH))))
  then s.res
  else { ty = s.type_; hc = s.hangul; dc = s.dots; loc = s.cloc; ar =
         (finish s); raw = (rev s.rawc) } :: s.res

(** val max_pos : n list -> n -> ((n * n) * n) -> (n * n) * n **)

let rec max_pos l i m0 =
  match l with
  | [] -> m0
  | c :: r ->
    let (p, d) = m0 in
    let (a, b0) = p in
    max_pos r (N.add i (Npos XH))
      (match end_class c with
       | Some k ->
         if N.eqb k N0
         then ((i, b0), d)
         else if N.eqb k (Npos XH) then ((a, i), d) else ((a, b0), i)
       | None -> m0)

(** val mp_get : ((n * n) * n) -> n -> n **)

let mp_get m0 k =
  let (p, d) = m0 in
  let (a, b0) = p in
  if N.eqb k N0 then a else if N.eqb k (Npos XH) then b0 else d

(** val step : bool -> ((n * n) * n) -> pst -> n -> n -> pst **)

let step bug mp s i c =
  if is_ws c
  then if N.eqb c cH_NL
       then { res = s.res; type_ = s.type_; hangul = s.hangul; dots = s.dots;
              cloc = s.cloc; st = s.st; bz = s.bz; qz = s.qz; line =
              (N.add s.line (Npos XH)); line_start = (N.add i (Npos XH));
              rawc = s.rawc }
       else s
  else if N.eqb s.st (Npos XH)
       then let h = is_hangul c in
            let hangul' = if h then N.add s.hangul (Npos XH) else s.hangul in
            let raw' = if h then c :: s.rawc else s.rawc in
            let fin =
              match end_kind c with
              | Some k ->
                if N.eqb (N.add (class_of_kind k) (Npos (XO (XI XH)))) s.type_
                then Some k
                else None
              | None -> None
            in
            (match fin with
             | Some t ->
               { res = s.res; type_ = t; hangul = hangul'; dots = N0; cloc =
                 s.cloc; st = N0; bz = s.bz; qz = s.qz; line = s.line;
                 line_start = s.line_start; rawc = raw' }
             | None ->
               { res = s.res; type_ = s.type_; hangul = hangul'; dots =
                 s.dots; cloc = s.cloc; st = (Npos XH); bz = s.bz; qz = s.qz;
                 line = s.line; line_start = s.line_start; rawc = raw' })
       else let start = fun t ->
              let fl = negb (N.eqb s.type_ (Npos (XO (XI (XO XH))))) in
              let reset = (||) fl (negb bug) in
              { res = (flush s); type_ = t; hangul = (Npos XH); dots = N0;
              cloc = ((N.add s.line (Npos XH)), (N.sub i s.line_start)); st =
              (if N.ltb t (Npos (XO (XI XH))) then N0 else Npos XH); bz =
              (if reset then bang0 else s.bz); qz =
              (if reset then [] else s.qz); line = s.line; line_start =
              s.line_start; rawc = (c :: []) }
            in
            (match index_of c sINGLE with
             | Some k -> start k
             | None ->
               (match index_of c sTART with
                | Some k ->
                  if N.leb (mp_get mp k) i
                  then s
                  else start (N.add k (Npos (XO (XI XH))))
                | None ->
                  if is_dot c
                  then if N.eqb s.st N0
                       then { res = s.res; type_ = s.type_; hangul =
                              s.hangul; dots = (N.add s.dots (dot_val c));
                              cloc = s.cloc; st = N0; bz = s.bz; qz = s.qz;
                              line = s.line; line_start = s.line_start;
                              rawc = (c :: s.rawc) }
                       else s
                  else if N.eqb c cH_Q
                       then { res = s.res; type_ = s.type_; hangul =
                              s.hangul; dots = s.dots; cloc = s.cloc; st =
                              (Npos (XO XH)); bz = bang0; qz =
                              ((bangA s.bz) :: s.qz); line = s.line;
                              line_start = s.line_start; rawc =
                              (c :: s.rawc) }
                       else if N.eqb c cH_BANG
                            then { res = s.res; type_ = s.type_; hangul =
                                   s.hangul; dots = s.dots; cloc = s.cloc;
                                   st = (Npos (XO XH)); bz = { closed =
                                   (app s.bz.closed (s.bz.curslot :: []));
                                   curslot = None }; qz = s.qz; line =
                                   s.line; line_start = s.line_start; rawc =
                                   (c :: s.rawc) }
                            else (match index_of c hEARTS with
                                  | Some k ->
                                    { res = s.res; type_ = s.type_; hangul =
                                      s.hangul; dots = s.dots; cloc = s.cloc;
                                      st = (Npos (XO XH)); bz = { closed =
                                      s.bz.closed; curslot =
                                      (match s.bz.curslot with
                                       | Some n0 -> Some n0
                                       | None -> Some (N.add k (Npos (XO XH)))) };
                                      qz = s.qz; line = s.line; line_start =
                                      s.line_start; rawc = (c :: s.rawc) }
                                  | None -> s)))

(** val run : bool -> ((n * n) * n) -> n list -> n -> pst -> pst **)

let rec run bug mp l i s =
  match l with
  | [] -> s
  | c :: r -> run bug mp r (N.add i (Npos XH)) (step bug mp s i c)

(** val parse_gen : bool -> n list -> ucode list **)

let parse_gen bug l =
  rev (flush (run bug (max_pos l N0 ((N0, N0), N0)) l N0 pst0))

(** val parse : n list -> ucode list **)

let parse =
  parse_gen false

(** val parse_pre_fix : n list -> ucode list **)

let parse_pre_fix =
  parse_gen true

(** val area_debug : area -> n list **)

let rec area_debug = function
| Nil -> cH_US :: []
| Val (t, l, r) ->
  (area_char t) :: (if N.leb t (Npos XH)
                    then app (area_debug l) (area_debug r)
                    else [])

(** val area_display : area -> n list **)

let rec area_display = function
| Nil -> cH_US :: []
| Val (t, l, r) ->
  if N.leb t (Npos XH)
  then app (cH_LB :: [])
         (app (area_display l)
           (app (cH_RB :: [])
             (app ((area_char t) :: [])
               (app (cH_LB :: []) (app (area_display r) (cH_RB :: []))))))
  else (area_char t) :: []

(** val later_end : n -> n list -> bool **)

let later_end k rest =
  existsb (fun c ->
    match end_class c with
    | Some j -> N.eqb j k
    | None -> false) rest

(** val starts : n -> n list -> bool **)

let starts c rest =
  match index_of c sINGLE with
  | Some _ -> true
  | None ->
    (match index_of c sTART with
     | Some k -> later_end k rest
     | None -> false)

(** val is_heart : n -> bool **)

let is_heart c =
  match index_of c hEARTS with
  | Some _ -> true
  | None -> false

(** val is_areach : n -> bool **)

let is_areach c =
  (||) ((||) (N.eqb c cH_Q) (N.eqb c cH_BANG)) (is_heart c)

(** val split_on : n -> n list -> n list -> n list list **)

let rec split_on sep l cur0 =
  match l with
  | [] -> (rev cur0) :: []
  | c :: r ->
    if N.eqb c sep
    then (rev cur0) :: (split_on sep r [])
    else split_on sep r (c :: cur0)

(** val slot_of : n list -> slot **)

let rec slot_of = function
| [] -> None
| c :: r ->
  (match index_of c hEARTS with
   | Some k -> Some (N.add k (Npos (XO XH)))
   | None -> slot_of r)

(** val bang_of : n list -> area **)

let bang_of seg =
  let slots = map slot_of (split_on cH_BANG seg []) in
  bang_tree (removelast slots) (last slots None)

(** val area_of : n list -> area **)

let area_of toks =
  let bangs = map bang_of (split_on cH_Q toks []) in
  qu_tree (removelast bangs) (last bangs Nil)

type head =
| HSingle of n
| HMulti of n * n list * n

type ccmd = { chead : head; cdotitems : n list; careaitems : n list }

type cst = { cprefix : n list; ccmds : ccmd list }

(** val flat_head : head -> n list **)

let flat_head = function
| HSingle c -> c :: []
| HMulti (s, inner, e) -> s :: (app inner (e :: []))

(** val flat_cmd : ccmd -> n list **)

let flat_cmd c =
  app (flat_head c.chead) (app c.cdotitems c.careaitems)

(** val flat_cmds : ccmd list -> n list **)

let flat_cmds cs =
  flat_map flat_cmd cs

(** val flatten : cst -> n list **)

let flatten t =
  app t.cprefix (flat_cmds t.ccmds)

(** val all_ctx : (n -> n list -> bool) -> n list -> n list -> bool **)

let rec all_ctx p items after =
  match items with
  | [] -> true
  | x :: r -> (&&) (p x (app r after)) (all_ctx p r after)

(** val valid_head : head -> bool **)

let valid_head = function
| HSingle c -> (match index_of c sINGLE with
                | Some _ -> true
                | None -> false)
| HMulti (s, inner, e) ->
  (match index_of s sTART with
   | Some k ->
     (match end_class e with
      | Some k' ->
        (&&) (N.eqb k k')
          (forallb (fun x ->
            match end_class x with
            | Some j -> negb (N.eqb j k)
            | None -> true) inner)
      | None -> false)
   | None -> false)

(** val valid_cmd : ccmd -> n list -> bool **)

let valid_cmd c after =
  (&&)
    ((&&)
      ((&&) (valid_head c.chead)
        (all_ctx (fun x a -> (&&) (negb (starts x a)) (negb (is_areach x)))
          c.cdotitems (app c.careaitems after)))
      (match c.careaitems with
       | [] -> true
       | x :: _ -> is_areach x))
    (all_ctx (fun x a -> negb (starts x a)) c.careaitems after)

(** val valid_cmds : ccmd list -> bool **)

let rec valid_cmds = function
| [] -> true
| c :: r -> (&&) (valid_cmd c (flat_cmds r)) (valid_cmds r)

(** val valid : cst -> bool **)

let valid t =
  (&&) (all_ctx (fun x a -> negb (starts x a)) t.cprefix (flat_cmds t.ccmds))
    (valid_cmds t.ccmds)

(** val head_kind : head -> n **)

let head_kind = function
| HSingle c -> (match index_of c sINGLE with
                | Some k -> k
                | None -> N0)
| HMulti (_, _, e) -> (match end_kind e with
                       | Some k -> k
                       | None -> N0)

(** val head_syl : head -> n **)

let head_syl = function
| HSingle _ -> Npos XH
| HMulti (_, inner, _) ->
  N.add (Npos (XO XH)) (N.of_nat (length (filter is_hangul inner)))

(** val head_raw : head -> n list **)

let head_raw = function
| HSingle c -> c :: []
| HMulti (s, inner, e) -> s :: (app (filter is_hangul inner) (e :: []))

(** val dots_of : n list -> n **)

let dots_of items =
  fold_right (fun c acc -> N.add (if is_dot c then dot_val c else N0) acc) N0
    items

(** val advance : n list -> (n * n) -> n * n **)

let rec advance l lc =
  match l with
  | [] -> lc
  | c :: r ->
    advance r
      (if N.eqb c cH_NL
       then ((N.add (fst lc) (Npos XH)), N0)
       else ((fst lc), (N.add (snd lc) (Npos XH))))

(** val abstract_cmd : ccmd -> (n * n) -> ucode **)

let abstract_cmd c lc =
  { ty = (head_kind c.chead); hc = (head_syl c.chead); dc =
    (dots_of c.cdotitems); loc = lc; ar =
    (area_of (filter is_areach c.careaitems)); raw =
    (app (head_raw c.chead)
      (app (filter is_dot c.cdotitems) (filter is_areach c.careaitems))) }

(** val abstract_cmds : ccmd list -> (n * n) -> ucode list **)

let rec abstract_cmds cs lc =
  match cs with
  | [] -> []
  | c :: r ->
    (abstract_cmd c lc) :: (abstract_cmds r (advance (flat_cmd c) lc))

(** val abstract : cst -> ucode list **)

let abstract t =
  abstract_cmds t.ccmds (advance t.cprefix ((Npos XH), N0))

type dmode =
| DPrefix
| DInner of n
| DDots
| DArea

type dst = { dpre : n list; ddone : ccmd list; dmode_ : dmode; dstart : 
             n; dinner : n list; dhead : head; ddots : n list; darea : 
             n list }

(** val dst0 : dst **)

let dst0 =
  { dpre = []; ddone = []; dmode_ = DPrefix; dstart = N0; dinner = [];
    dhead = (HSingle N0); ddots = []; darea = [] }

(** val dclose : dst -> ccmd list **)

let dclose s =
  match s.dmode_ with
  | DPrefix -> s.ddone
  | DInner _ -> s.ddone
  | _ ->
    { chead = s.dhead; cdotitems = (rev s.ddots); careaitems =
      (rev s.darea) } :: s.ddone

(** val dstep : dst -> n -> n list -> dst **)

let dstep s c rest =
  match s.dmode_ with
  | DPrefix ->
    if starts c rest
    then (match index_of c sINGLE with
          | Some _ ->
            { dpre = s.dpre; ddone = (dclose s); dmode_ = DDots; dstart = N0;
              dinner = []; dhead = (HSingle c); ddots = []; darea = [] }
          | None ->
            (match index_of c sTART with
             | Some k ->
               { dpre = s.dpre; ddone = (dclose s); dmode_ = (DInner k);
                 dstart = c; dinner = []; dhead = (HSingle N0); ddots = [];
                 darea = [] }
             | None -> s))
    else { dpre = (c :: s.dpre); ddone = s.ddone; dmode_ = DPrefix; dstart =
           N0; dinner = []; dhead = s.dhead; ddots = []; darea = [] }
  | DInner k ->
    (match end_class c with
     | Some j ->
       if N.eqb j k
       then { dpre = s.dpre; ddone = s.ddone; dmode_ = DDots; dstart = N0;
              dinner = []; dhead = (HMulti (s.dstart, (rev s.dinner), c));
              ddots = []; darea = [] }
       else { dpre = s.dpre; ddone = s.ddone; dmode_ = (DInner k); dstart =
              s.dstart; dinner = (c :: s.dinner); dhead = s.dhead; ddots =
              []; darea = [] }
     | None ->
       { dpre = s.dpre; ddone = s.ddone; dmode_ = (DInner k); dstart =
         s.dstart; dinner = (c :: s.dinner); dhead = s.dhead; ddots = [];
         darea = [] })
  | DDots ->
    if starts c rest
    then (match index_of c sINGLE with
          | Some _ ->
            { dpre = s.dpre; ddone = (dclose s); dmode_ = DDots; dstart = N0;
              dinner = []; dhead = (HSingle c); ddots = []; darea = [] }
          | None ->
            (match index_of c sTART with
             | Some k ->
               { dpre = s.dpre; ddone = (dclose s); dmode_ = (DInner k);
                 dstart = c; dinner = []; dhead = (HSingle N0); ddots = [];
                 darea = [] }
             | None -> s))
    else if is_areach c
         then { dpre = s.dpre; ddone = s.ddone; dmode_ = DArea; dstart = N0;
                dinner = []; dhead = s.dhead; ddots = s.ddots; darea =
                (c :: []) }
         else { dpre = s.dpre; ddone = s.ddone; dmode_ = DDots; dstart = N0;
                dinner = []; dhead = s.dhead; ddots = (c :: s.ddots); darea =
                [] }
  | DArea ->
    if starts c rest
    then (match index_of c sINGLE with
          | Some _ ->
            { dpre = s.dpre; ddone = (dclose s); dmode_ = DDots; dstart = N0;
              dinner = []; dhead = (HSingle c); ddots = []; darea = [] }
          | None ->
            (match index_of c sTART with
             | Some k ->
               { dpre = s.dpre; ddone = (dclose s); dmode_ = (DInner k);
                 dstart = c; dinner = []; dhead = (HSingle N0); ddots = [];
                 darea = [] }
             | None -> s))
    else { dpre = s.dpre; ddone = s.ddone; dmode_ = DArea; dstart = N0;
           dinner = []; dhead = s.dhead; ddots = s.ddots; darea =
           (c :: s.darea) }

(** val dscan : n list -> dst -> dst **)

let rec dscan l s =
  match l with
  | [] -> s
  | c :: r -> dscan r (dstep s c r)

(** val decompose : n list -> cst **)

let decompose text =
  let s = dscan text dst0 in
  { cprefix = (rev s.dpre); ccmds = (rev (dclose s)) }

type xcode = { xty : n; xhc : n; xdc : n; xac : n; xar : area }

(** val xcode_of_ucode : ucode -> xcode **)

let xcode_of_ucode u =
  { xty = u.ty; xhc = u.hc; xdc = u.dc; xac = (N.mul u.hc u.dc); xar = u.ar }

type errkind =
| EEnc of n
| EIo

type skind =
| SUnopt
| SOpt of n

type state = { skind_ : skind; stacks : (n * num list) list; cur : n;
               points : (n * n) list; latest : n option;
               inp : n list option list; outb : n list; errb : n list }

(** val state0 : skind -> n list option list -> state **)

let state0 k input0 =
  { skind_ = k; stacks = []; cur = (Npos (XI XH)); points = []; latest =
    None; inp = input0; outb = []; errb = [] }

type 'a res0 =
| ROk of 'a * state
| RExit of n * state
| RErr of errkind * state

type 'a m = state -> 'a res0

(** val ret : 'a1 -> 'a1 m **)

let ret a s =
  ROk (a, s)

(** val bind : 'a1 m -> ('a1 -> 'a2 m) -> 'a2 m **)

let bind m0 f s =
  match m0 s with
  | ROk (a, s') -> f a s'
  | RExit (c, s') -> RExit (c, s')
  | RErr (e, s') -> RErr (e, s')

(** val alist_get : (n * 'a1) list -> n -> 'a1 option **)

let rec alist_get l k =
  match l with
  | [] -> None
  | p :: r -> let (k', v) = p in if N.eqb k' k then Some v else alist_get r k

(** val alist_set : (n * 'a1) list -> n -> 'a1 -> (n * 'a1) list **)

let rec alist_set l k v =
  match l with
  | [] -> (k, v) :: []
  | p :: r ->
    let (k', v') = p in
    if N.eqb k' k then (k, v) :: r else (k', v') :: (alist_set r k v)

(** val get_stack : state -> n -> num list **)

let get_stack s i =
  match alist_get s.stacks i with
  | Some l -> l
  | None -> []

(** val set_stack : state -> n -> num list -> state **)

let set_stack s i l =
  { skind_ = s.skind_; stacks = (alist_set s.stacks i l); cur = s.cur;
    points = s.points; latest = s.latest; inp = s.inp; outb = s.outb; errb =
    s.errb }

(** val in_range : state -> n -> bool **)

let in_range s i =
  match s.skind_ with
  | SUnopt -> true
  | SOpt n0 -> N.ltb i n0

(** val push_stack : n -> num -> unit m **)

let push_stack i x s =
  if in_range s i
  then let st0 = get_stack s i in
       (match st0 with
        | [] ->
          if is_nan x
          then ROk ((), s)
          else ROk ((), (set_stack s i (x :: [])))
        | _ :: _ -> ROk ((), (set_stack s i (x :: st0))))
  else ROk ((), s)

(** val pop_stack : n -> num m **)

let pop_stack i s =
  if in_range s i
  then (match get_stack s i with
        | [] -> ROk (nan, s)
        | x :: r -> ROk (x, (set_stack s i r)))
  else ROk (nan, s)

(** val is_scalar : n -> bool **)

let is_scalar n0 =
  (&&)
    ((||)
      (N.ltb n0 (Npos (XO (XO (XO (XO (XO (XO (XO (XO (XO (XO (XO (XI (XI (XO
        (XI XH)))))))))))))))))
      (N.ltb (Npos (XI (XI (XI (XI (XI (XI (XI (XI (XI (XI (XI (XI (XI (XO
        (XI XH)))))))))))))))) n0))
    (N.leb n0 (Npos (XI (XI (XI (XI (XI (XI (XI (XI (XI (XI (XI (XI (XI (XI
      (XI (XI (XO (XO (XO (XO XH))))))))))))))))))))))

(** val num_to_unicode : num -> (n, n) sum **)

let num_to_unicode x =
  let n0 = to_int (floor x) in if is_scalar n0 then Inl n0 else Inr n0

(** val write_out : bool -> n list -> unit m **)

let write_out to_err txt s =
  if to_err
  then ROk ((), { skind_ = s.skind_; stacks = s.stacks; cur = s.cur; points =
         s.points; latest = s.latest; inp = s.inp; outb = s.outb; errb =
         (app (rev txt) s.errb) })
  else ROk ((), { skind_ = s.skind_; stacks = s.stacks; cur = s.cur; points =
         s.points; latest = s.latest; inp = s.inp; outb =
         (app (rev txt) s.outb); errb = s.errb })

(** val fail : errkind -> 'a1 m **)

let fail e s =
  RErr (e, s)

(** val exit_ : n -> 'a1 m **)

let exit_ c s =
  RExit (c, s)

(** val push_wrap : n -> num -> unit m **)

let push_wrap i x =
  if (||) (N.eqb i (Npos XH)) (N.eqb i (Npos (XO XH)))
  then if is_pos x
       then (match num_to_unicode x with
             | Inl c -> write_out (N.eqb i (Npos (XO XH))) (c :: [])
             | Inr n0 -> fail (EEnc n0))
       else write_out (N.eqb i (Npos (XO XH))) (num_display (nneg x))
  else push_stack i x

(** val read_line : n list m **)

let read_line s =
  match s.inp with
  | [] -> ROk ([], s)
  | o :: r ->
    (match o with
     | Some l ->
       ROk (l, { skind_ = s.skind_; stacks = s.stacks; cur = s.cur; points =
         s.points; latest = s.latest; inp = r; outb = s.outb; errb = s.errb })
     | None ->
       RErr (EIo, { skind_ = s.skind_; stacks = s.stacks; cur = s.cur;
         points = s.points; latest = s.latest; inp = r; outb = s.outb; errb =
         s.errb }))

(** val push_all : n -> n list -> unit m **)

let rec push_all i = function
| [] -> ret ()
| c :: r -> bind (push_stack i (from_num (Z.of_N c))) (fun _ -> push_all i r)

(** val pop_wrap : n -> num m **)

let pop_wrap i =
  if N.eqb i N0
  then (fun s ->
         match get_stack s N0 with
         | [] ->
           bind read_line (fun l ->
             bind (push_all N0 (rev l)) (fun _ -> pop_stack N0)) s
         | _ :: _ -> pop_stack N0 s)
  else if N.eqb i (Npos XH)
       then exit_ N0
       else if N.eqb i (Npos (XO XH)) then exit_ (Npos XH) else pop_stack i

(** val calc : area -> n -> num m -> n m **)

let rec calc a cnt pop =
  match a with
  | Nil -> ret N0
  | Val (t, l, r) ->
    if N.eqb t N0
    then bind pop (fun v ->
           match ncmp v (from_num (Z.of_N cnt)) with
           | Some c ->
             (match c with
              | Lt -> calc l cnt pop
              | _ -> calc r cnt pop)
           | None -> calc r cnt pop)
    else if N.eqb t (Npos XH)
         then bind pop (fun v ->
                match ncmp v (from_num (Z.of_N cnt)) with
                | Some c ->
                  (match c with
                   | Eq -> calc l cnt pop
                   | _ -> calc r cnt pop)
                | None -> calc r cnt pop)
         else ret t

(** val iterM : n -> ('a1 -> 'a1 m) -> 'a1 -> 'a1 m **)

let iterM n0 f a =
  N.iter n0 (fun m0 -> bind m0 f) (ret a)

(** val set_cur : n -> unit m **)

let set_cur c s =
  ROk ((), { skind_ = s.skind_; stacks = s.stacks; cur = c; points =
    s.points; latest = s.latest; inp = s.inp; outb = s.outb; errb = s.errb })

(** val get_cur : n m **)

let get_cur s =
  ROk (s.cur, s)

(** val body : xcode -> unit m **)

let body c =
  bind get_cur (fun cs ->
    match c.xty with
    | N0 ->
      push_wrap cs (nmul (from_num (Z.of_N c.xhc)) (from_num (Z.of_N c.xdc)))
    | Npos p ->
      (match p with
       | XI p0 ->
         (match p0 with
          | XH ->
            bind
              (iterM c.xhc (fun v ->
                bind (pop_wrap cs) (fun x -> ret (x :: v))) []) (fun v ->
              bind
                (fold_left (fun m0 x ->
                  bind m0 (fun n0 ->
                    let x' = nminus x in
                    bind (push_wrap cs x') (fun _ -> ret (nadd n0 x')))) v
                  (ret nzero)) (fun n0 -> push_wrap c.xdc n0))
          | _ ->
            bind (pop_wrap cs) (fun n0 ->
              bind (iterM c.xhc (fun _ -> push_wrap c.xdc n0) ()) (fun _ ->
                bind (push_wrap cs n0) (fun _ -> set_cur c.xdc))))
       | XO p0 ->
         (match p0 with
          | XI _ ->
            bind (pop_wrap cs) (fun n0 ->
              bind (iterM c.xhc (fun _ -> push_wrap c.xdc n0) ()) (fun _ ->
                bind (push_wrap cs n0) (fun _ -> set_cur c.xdc)))
          | XO p1 ->
            (match p1 with
             | XH ->
               bind
                 (iterM c.xhc (fun v ->
                   bind (pop_wrap cs) (fun x -> ret (x :: v))) []) (fun v ->
                 bind
                   (fold_left (fun m0 x ->
                     bind m0 (fun n0 ->
                       let x' = nflip x in
                       bind (push_wrap cs x') (fun _ -> ret (nmul n0 x')))) v
                     (ret n_one)) (fun n0 -> push_wrap c.xdc n0))
             | _ ->
               bind (pop_wrap cs) (fun n0 ->
                 bind (iterM c.xhc (fun _ -> push_wrap c.xdc n0) ())
                   (fun _ -> bind (push_wrap cs n0) (fun _ -> set_cur c.xdc))))
          | XH ->
            bind
              (iterM c.xhc (fun n0 ->
                bind (pop_wrap cs) (fun v -> ret (nmul n0 v))) n_one)
              (fun n0 -> push_wrap c.xdc n0))
       | XH ->
         bind
           (iterM c.xhc (fun n0 ->
             bind (pop_wrap cs) (fun v -> ret (nadd n0 v))) nzero) (fun n0 ->
           push_wrap c.xdc n0)))

(** val get_point : n -> n option m **)

let get_point id s =
  ROk ((alist_get s.points id), s)

(** val set_point : n -> n -> unit m **)

let set_point id loc0 s =
  ROk ((), { skind_ = s.skind_; stacks = s.stacks; cur = s.cur; points =
    (alist_set s.points id loc0); latest = s.latest; inp = s.inp; outb =
    s.outb; errb = s.errb })

(** val set_latest : n -> unit m **)

let set_latest loc0 s =
  ROk ((), { skind_ = s.skind_; stacks = s.stacks; cur = s.cur; points =
    s.points; latest = (Some loc0); inp = s.inp; outb = s.outb; errb =
    s.errb })

(** val get_latest : n option m **)

let get_latest s =
  ROk (s.latest, s)

(** val execute_one : xcode -> n -> n m **)

let execute_one c pc =
  bind (body c) (fun _ ->
    bind get_cur (fun cs ->
      bind (calc c.xar c.xac (pop_wrap cs)) (fun t ->
        if N.eqb t N0
        then ret (N.add pc (Npos XH))
        else if N.eqb t (Npos (XI (XO (XI XH))))
             then bind get_latest (fun l ->
                    match l with
                    | Some loc0 -> ret loc0
                    | None -> ret (N.add pc (Npos XH)))
             else let id = N.add (N.mul c.xac (Npos (XO (XO (XO (XO XH)))))) t
                  in
                  bind (get_point id) (fun p ->
                    match p with
                    | Some v ->
                      if N.eqb pc v
                      then ret (N.add pc (Npos XH))
                      else bind (set_latest pc) (fun _ -> ret v)
                    | None ->
                      bind (set_point id pc) (fun _ ->
                        ret (N.add pc (Npos XH)))))))

type final =
| FDone of state
| FExit of n * state
| FErr of errkind * state
| FFuel of state * n
| FPanic of state

(** val run_pre : nat -> xcode list -> state -> n -> final **)

let rec run_pre fuel code s pc =
  match fuel with
  | O -> FFuel (s, pc)
  | S f ->
    if N.leb (N.of_nat (length code)) pc
    then FDone s
    else (match nth_error code (N.to_nat pc) with
          | Some c ->
            (match execute_one c pc s with
             | ROk (pc', s') -> run_pre f code s' pc'
             | RExit (k, s') -> FExit (k, s')
             | RErr (e, s') -> FErr (e, s'))
          | None -> FPanic s)

(** val exec_loop : nat -> xcode list -> state -> n -> n -> final * nat **)

let rec exec_loop fuel code s pc len =
  match fuel with
  | O -> ((FFuel (s, pc)), O)
  | S f ->
    if N.leb len pc
    then ((FDone s), fuel)
    else (match nth_error code (N.to_nat pc) with
          | Some c ->
            (match execute_one c pc s with
             | ROk (pc', s') -> exec_loop f code s' pc' len
             | RExit (k, s') -> ((FExit (k, s')), f)
             | RErr (e, s') -> ((FErr (e, s')), f))
          | None -> ((FPanic s), f))

(** val run_inc : nat -> xcode list -> xcode list -> state -> final **)

let rec run_inc fuel done0 todo s =
  match todo with
  | [] -> FDone s
  | c :: r ->
    let code = app done0 (c :: []) in
    let pc = N.of_nat (length done0) in
    let (x, f') = exec_loop fuel code s pc (N.add pc (Npos XH)) in
    (match x with
     | FDone s' -> run_inc f' code r s'
     | _ -> x)

(** val final_state : final -> state **)

let final_state = function
| FDone s -> s
| FExit (_, s) -> s
| FErr (_, s) -> s
| FFuel (s, _) -> s
| FPanic s -> s

(** val qfloor : q -> z **)

let qfloor x =
  let { qnum = n0; qden = d } = x in Z.div n0 (Zpos d)

type value =
| VNaN
| VRat of q

(** val vadd : value -> value -> value **)

let vadd a b0 =
  match a with
  | VNaN -> VNaN
  | VRat x -> (match b0 with
               | VNaN -> VNaN
               | VRat y -> VRat (qred (qplus x y)))

(** val vmul : value -> value -> value **)

let vmul a b0 =
  match a with
  | VNaN -> VNaN
  | VRat x -> (match b0 with
               | VNaN -> VNaN
               | VRat y -> VRat (qred (qmult x y)))

(** val vneg : value -> value **)

let vneg = function
| VNaN -> VNaN
| VRat x -> VRat (qred (qopp x))

(** val vrecip : value -> value **)

let vrecip = function
| VNaN -> VNaN
| VRat x ->
  if qeq_bool x { qnum = Z0; qden = XH } then VNaN else VRat (qred (qinv x))

(** val vnat : n -> value **)

let vnat n0 =
  VRat (inject_Z (Z.of_N n0))

(** val dec_digits : nat -> n -> n list -> n list **)

let rec dec_digits fuel n0 acc =
  match fuel with
  | O -> acc
  | S f ->
    if N.ltb n0 (Npos (XO (XI (XO XH))))
    then (N.add (Npos (XO (XO (XO (XO (XI XH)))))) n0) :: acc
    else dec_digits f (N.div n0 (Npos (XO (XI (XO XH)))))
           ((N.add (Npos (XO (XO (XO (XO (XI XH))))))
              (N.modulo n0 (Npos (XO (XI (XO XH)))))) :: acc)

(** val dec_N : n -> n list **)

let dec_N n0 =
  dec_digits (S (N.to_nat (N.log2 n0))) n0 []

(** val dec_Z : z -> n list **)

let dec_Z z0 =
  app (if Z.ltb z0 Z0 then (Npos (XI (XO (XI (XI (XO XH)))))) :: [] else [])
    (dec_N (Z.abs_N z0))

(** val nAN_TEXT_SPEC : n list **)

let nAN_TEXT_SPEC =
  (Npos (XO (XO (XO (XI (XO (XO (XO (XO (XI (XO (XO (XO (XI (XI (XO
    XH)))))))))))))))) :: ((Npos (XO (XO (XI (XO (XI (XI (XO (XO (XI (XI (XO
    (XI (XI (XI (XO XH)))))))))))))))) :: ((Npos (XO (XO (XO (XO (XO
    XH)))))) :: ((Npos (XO (XO (XI (XO (XO (XI (XI (XI (XO (XI (XI (XI (XO
    (XO (XI XH)))))))))))))))) :: ((Npos (XI (XI (XI (XO (XO (XO (XI (XI (XI
    (XO (XI (XO (XO (XO (XI XH)))))))))))))))) :: ((Npos (XO (XI (XI (XI (XO
    XH)))))) :: ((Npos (XO (XI (XI (XI (XO XH)))))) :: ((Npos (XO (XI (XI (XI
    (XO XH)))))) :: [])))))))

(** val value_text : value -> n list **)

let value_text = function
| VNaN -> nAN_TEXT_SPEC
| VRat q0 ->
  let q1 = qred q0 in
  if Z.eqb (Zpos q1.qden) (Zpos XH)
  then dec_Z q1.qnum
  else app (dec_Z q1.qnum)
         (app ((Npos (XI (XI (XI (XI (XO XH)))))) :: [])
           (dec_Z (Zpos q1.qden)))

type serr =
| SEnc of n
| SIo

type lstate = { stk : (n * value list) list; sel : n; labels : (n * n) list;
                lastj : n option; input : n list option list; out : n list;
                err : n list }

(** val lstate0 : n list option list -> lstate **)

let lstate0 i =
  { stk = []; sel = (Npos (XI XH)); labels = []; lastj = None; input = i;
    out = []; err = [] }

(** val lookup : (n * 'a1) list -> n -> 'a1 option **)

let rec lookup l k =
  match l with
  | [] -> None
  | p :: r -> let (k', v) = p in if N.eqb k' k then Some v else lookup r k

(** val update : (n * 'a1) list -> n -> 'a1 -> (n * 'a1) list **)

let rec update l k v =
  match l with
  | [] -> (k, v) :: []
  | p :: r ->
    let (k', v') = p in
    if N.eqb k' k then (k, v) :: r else (k', v') :: (update r k v)

(** val sget : lstate -> n -> value list **)

let sget s i =
  match lookup s.stk i with
  | Some l -> l
  | None -> []

(** val sset : lstate -> n -> value list -> lstate **)

let sset s i l =
  { stk = (update s.stk i l); sel = s.sel; labels = s.labels; lastj =
    s.lastj; input = s.input; out = s.out; err = s.err }

type 'a sres =
| SOk of 'a * lstate
| SExit of n * lstate
| SErr of serr * lstate

(** val scalar : n -> bool **)

let scalar n0 =
  (&&)
    ((||)
      (N.ltb n0 (Npos (XO (XO (XO (XO (XO (XO (XO (XO (XO (XO (XO (XI (XI (XO
        (XI XH)))))))))))))))))
      (N.ltb (Npos (XI (XI (XI (XI (XI (XI (XI (XI (XI (XI (XI (XI (XI (XO
        (XI XH)))))))))))))))) n0))
    (N.leb n0 (Npos (XI (XI (XI (XI (XI (XI (XI (XI (XI (XI (XI (XI (XI (XI
      (XI (XI (XO (XO (XO (XO XH))))))))))))))))))))))

(** val spush : n -> value -> lstate -> unit sres **)

let spush i v s =
  if (||) (N.eqb i (Npos XH)) (N.eqb i (Npos (XO XH)))
  then let emit = fun txt ->
         if N.eqb i (Npos XH)
         then { stk = s.stk; sel = s.sel; labels = s.labels; lastj = s.lastj;
                input = s.input; out = (app s.out txt); err = s.err }
         else { stk = s.stk; sel = s.sel; labels = s.labels; lastj = s.lastj;
                input = s.input; out = s.out; err = (app s.err txt) }
       in
       (match v with
        | VNaN -> SOk ((), (emit (value_text VNaN)))
        | VRat q0 ->
          if qle_bool { qnum = Z0; qden = XH } q0
          then let n0 =
                 N.modulo (Z.to_N (qfloor q0)) (Npos (XO (XO (XO (XO (XO (XO
                   (XO (XO (XO (XO (XO (XO (XO (XO (XO (XO (XO (XO (XO (XO
                   (XO (XO (XO (XO (XO (XO (XO (XO (XO (XO (XO (XO
                   XH)))))))))))))))))))))))))))))))))
               in
               if scalar n0
               then SOk ((), (emit (n0 :: [])))
               else SErr ((SEnc n0), s)
          else SOk ((), (emit (value_text (vneg v)))))
  else (match sget s i with
        | [] ->
          (match v with
           | VNaN -> SOk ((), s)
           | VRat _ -> SOk ((), (sset s i (v :: []))))
        | v0 :: l0 -> SOk ((), (sset s i (v :: (v0 :: l0)))))

(** val spop : n -> lstate -> value sres **)

let spop i s =
  if N.eqb i (Npos XH)
  then SExit (N0, s)
  else if N.eqb i (Npos (XO XH))
       then SExit ((Npos XH), s)
       else let refill =
              if (&&) (N.eqb i N0)
                   (match sget s N0 with
                    | [] -> true
                    | _ :: _ -> false)
              then (match s.input with
                    | [] -> Inl s
                    | o :: r ->
                      (match o with
                       | Some line0 ->
                         let s' = { stk = s.stk; sel = s.sel; labels =
                           s.labels; lastj = s.lastj; input = r; out = s.out;
                           err = s.err }
                         in
                         Inl
                         (match line0 with
                          | [] -> s'
                          | _ :: _ -> sset s' N0 (map vnat line0))
                       | None ->
                         Inr { stk = s.stk; sel = s.sel; labels = s.labels;
                           lastj = s.lastj; input = r; out = s.out; err =
                           s.err }))
              else Inl s
            in
            (match refill with
             | Inl s' ->
               (match sget s' i with
                | [] -> SOk (VNaN, s')
                | v :: l -> SOk (v, (sset s' i l)))
             | Inr s' -> SErr (SIo, s'))

(** val spops : nat -> n -> lstate -> value list sres **)

let rec spops n0 i s =
  match n0 with
  | O -> SOk ([], s)
  | S m0 ->
    (match spop i s with
     | SOk (v, s') ->
       (match spops m0 i s' with
        | SOk (l, s'') -> SOk ((v :: l), s'')
        | x -> x)
     | SExit (c, s') -> SExit (c, s')
     | SErr (e, s') -> SErr (e, s'))

(** val spushes : n -> value list -> lstate -> unit sres **)

let rec spushes i l s =
  match l with
  | [] -> SOk ((), s)
  | v :: r -> (match spush i v s with
               | SOk (_, s') -> spushes i r s'
               | x -> x)

(** val scommand : n -> n -> n -> lstate -> unit sres **)

let scommand kind n0 d s =
  let c = s.sel in
  (match kind with
   | N0 -> spush c (vmul (vnat n0) (vnat d)) s
   | Npos p ->
     (match p with
      | XI p0 ->
        (match p0 with
         | XH ->
           (match spops (N.to_nat n0) c s with
            | SOk (l, s') ->
              let l' = map vneg (rev l) in
              (match spushes c l' s' with
               | SOk (_, s'') -> spush d (fold_left vadd l' (vnat N0)) s''
               | x -> x)
            | SExit (k, s') -> SExit (k, s')
            | SErr (e, s') -> SErr (e, s'))
         | _ ->
           (match spop c s with
            | SOk (v, s') ->
              (match spushes d (repeat v (N.to_nat n0)) s' with
               | SOk (_, s'') ->
                 (match spush c v s'' with
                  | SOk (_, s3) ->
                    SOk ((), { stk = s3.stk; sel = d; labels = s3.labels;
                      lastj = s3.lastj; input = s3.input; out = s3.out; err =
                      s3.err })
                  | x -> x)
               | x -> x)
            | SExit (k, s') -> SExit (k, s')
            | SErr (e, s') -> SErr (e, s')))
      | XO p0 ->
        (match p0 with
         | XI _ ->
           (match spop c s with
            | SOk (v, s') ->
              (match spushes d (repeat v (N.to_nat n0)) s' with
               | SOk (_, s'') ->
                 (match spush c v s'' with
                  | SOk (_, s3) ->
                    SOk ((), { stk = s3.stk; sel = d; labels = s3.labels;
                      lastj = s3.lastj; input = s3.input; out = s3.out; err =
                      s3.err })
                  | x -> x)
               | x -> x)
            | SExit (k, s') -> SExit (k, s')
            | SErr (e, s') -> SErr (e, s'))
         | XO p1 ->
           (match p1 with
            | XH ->
              (match spops (N.to_nat n0) c s with
               | SOk (l, s') ->
                 let l' = map vrecip (rev l) in
                 (match spushes c l' s' with
                  | SOk (_, s'') ->
                    spush d (fold_left vmul l' (vnat (Npos XH))) s''
                  | x -> x)
               | SExit (k, s') -> SExit (k, s')
               | SErr (e, s') -> SErr (e, s'))
            | _ ->
              (match spop c s with
               | SOk (v, s') ->
                 (match spushes d (repeat v (N.to_nat n0)) s' with
                  | SOk (_, s'') ->
                    (match spush c v s'' with
                     | SOk (_, s3) ->
                       SOk ((), { stk = s3.stk; sel = d; labels = s3.labels;
                         lastj = s3.lastj; input = s3.input; out = s3.out;
                         err = s3.err })
                     | x -> x)
                  | x -> x)
               | SExit (k, s') -> SExit (k, s')
               | SErr (e, s') -> SErr (e, s')))
         | XH ->
           (match spops (N.to_nat n0) c s with
            | SOk (l, s') -> spush d (fold_left vmul l (vnat (Npos XH))) s'
            | SExit (k, s') -> SExit (k, s')
            | SErr (e, s') -> SErr (e, s')))
      | XH ->
        (match spops (N.to_nat n0) c s with
         | SOk (l, s') -> spush d (fold_left vadd l (vnat N0)) s'
         | SExit (k, s') -> SExit (k, s')
         | SErr (e, s') -> SErr (e, s'))))

(** val vlt : value -> n -> bool **)

let vlt v n0 =
  match v with
  | VNaN -> false
  | VRat q0 ->
    (match qcompare q0 (inject_Z (Z.of_N n0)) with
     | Lt -> true
     | _ -> false)

(** val veq : value -> n -> bool **)

let veq v n0 =
  match v with
  | VNaN -> false
  | VRat q0 -> qeq_bool q0 (inject_Z (Z.of_N n0))

(** val sarea : area -> n -> lstate -> n sres **)

let rec sarea a count s =
  match a with
  | Nil -> SOk (N0, s)
  | Val (t, l, r) ->
    if N.eqb t N0
    then (match spop s.sel s with
          | SOk (v, s') ->
            if vlt v count then sarea l count s' else sarea r count s'
          | SExit (k, s') -> SExit (k, s')
          | SErr (e, s') -> SErr (e, s'))
    else if N.eqb t (Npos XH)
         then (match spop s.sel s with
               | SOk (v, s') ->
                 if veq v count then sarea l count s' else sarea r count s'
               | SExit (k, s') -> SExit (k, s')
               | SErr (e, s') -> SErr (e, s'))
         else SOk (t, s)

(** val sstep : n -> n -> n -> n -> area -> n -> lstate -> n sres **)

let sstep kind n0 d count a pc s =
  match scommand kind n0 d s with
  | SOk (_, s1) ->
    (match sarea a count s1 with
     | SOk (t, s2) ->
       if N.eqb t N0
       then SOk ((N.add pc (Npos XH)), s2)
       else if N.eqb t (Npos (XI (XO (XI XH))))
            then SOk
                   ((match s2.lastj with
                     | Some j -> j
                     | None -> N.add pc (Npos XH)), s2)
            else let id = N.add (N.mul count (Npos (XO (XO (XO (XO XH)))))) t
                 in
                 (match lookup s2.labels id with
                  | Some j ->
                    if N.eqb j pc
                    then SOk ((N.add pc (Npos XH)), s2)
                    else SOk (j, { stk = s2.stk; sel = s2.sel; labels =
                           s2.labels; lastj = (Some pc); input = s2.input;
                           out = s2.out; err = s2.err })
                  | None ->
                    SOk ((N.add pc (Npos XH)), { stk = s2.stk; sel = s2.sel;
                      labels = (update s2.labels id pc); lastj = s2.lastj;
                      input = s2.input; out = s2.out; err = s2.err }))
     | x -> x)
  | SExit (k, s1) -> SExit (k, s1)
  | SErr (e, s1) -> SErr (e, s1)

type scmd = { sk : n; sn : n; sd : n; scount : n; sa : area }

(** val scmd_of_ucode : ucode -> scmd **)

let scmd_of_ucode u =
  { sk = u.ty; sn = u.hc; sd = u.dc; scount = (N.mul u.hc u.dc); sa = u.ar }

type sfinal =
| SDone of lstate
| SExited of n * lstate
| SFailed of serr * lstate
| SRunning of lstate * n

(** val srun : nat -> scmd list -> lstate -> n -> sfinal **)

let rec srun fuel prog s pc =
  match fuel with
  | O -> SRunning (s, pc)
  | S f ->
    (match nth_error prog (N.to_nat pc) with
     | Some c ->
       (match sstep c.sk c.sn c.sd c.scount c.sa pc s with
        | SOk (pc', s') -> srun f prog s' pc'
        | SExit (k, s') -> SExited (k, s')
        | SErr (e, s') -> SFailed (e, s'))
     | None -> SDone s)

type fixes = { fx5 : bool; fx6 : bool; fx7 : bool }

(** val all_fixed : fixes **)

let all_fixed =
  { fx5 = true; fx6 = true; fx7 = true }

(** val pinned : fixes **)

let pinned =
  { fx5 = false; fx6 = false; fx7 = false }

(** val chk_scan : fixes -> ucode list -> n -> n list **)

let rec chk_scan fx code now =
  match code with
  | [] -> []
  | u :: r ->
    if N.eqb u.ty N0
    then chk_scan fx r now
    else if N.eqb u.ty (Npos (XI (XO XH)))
         then now :: (app (if fx.fx7 then u.dc :: [] else [])
                       (chk_scan fx r u.dc))
         else now :: (chk_scan fx r now)

(** val insert_sorted : n -> n list -> n list **)

let rec insert_sorted x l = match l with
| [] -> x :: []
| y :: r -> if N.leb x y then x :: l else y :: (insert_sorted x r)

(** val sort_N : n list -> n list **)

let sort_N l =
  fold_right insert_sorted [] l

(** val assign : n list -> (n * n) list -> n -> (n * n) list * n **)

let rec assign l m0 next =
  match l with
  | [] -> (m0, next)
  | i :: r ->
    if N.leb i (Npos (XI XH))
    then assign r m0 next
    else (match alist_get m0 i with
          | Some _ -> assign r m0 next
          | None -> assign r (alist_set m0 i next) (N.add next (Npos XH)))

(** val renum_map : fixes -> ucode list -> (n * n) list * n **)

let renum_map fx code =
  assign (sort_N (chk_scan fx code (Npos (XI XH)))) [] (Npos (XO (XO XH)))

(** val renum : (n * n) list -> n -> n -> n **)

let renum m0 mx d =
  if N.leb d (Npos (XI XH))
  then d
  else (match alist_get m0 d with
        | Some v -> v
        | None -> mx)

(** val opt_code : (n * n) list -> n -> ucode -> xcode **)

let opt_code m0 mx u =
  { xty = u.ty; xhc = u.hc; xdc =
    (if N.eqb u.ty N0 then u.dc else renum m0 mx u.dc); xac =
    (N.mul u.hc u.dc); xar = u.ar }

(** val bAIL : n **)

let bAIL =
  Npos (XI (XI (XO (XO (XO (XI XH))))))

(** val guard : n -> unit m **)

let guard cs =
  if N.leb cs (Npos (XO XH)) then exit_ bAIL else ret ()

(** val gpop : n -> num m **)

let gpop cs =
  bind (guard cs) (fun _ -> pop_wrap cs)

(** val obody : fixes -> xcode -> unit m **)

let obody fx c =
  bind get_cur (fun cs ->
    match c.xty with
    | N0 ->
      push_wrap cs (nmul (from_num (Z.of_N c.xhc)) (from_num (Z.of_N c.xdc)))
    | Npos p ->
      (match p with
       | XI p0 ->
         (match p0 with
          | XH ->
            bind
              (iterM c.xhc (fun v -> bind (gpop cs) (fun x -> ret (x :: v)))
                []) (fun v ->
              bind
                (fold_left (fun m0 x ->
                  bind m0 (fun n0 ->
                    let x' = nminus x in
                    bind (push_wrap cs x') (fun _ -> ret (nadd n0 x'))))
                  (if fx.fx5 then v else rev v) (ret nzero)) (fun n0 ->
                push_wrap c.xdc n0))
          | _ ->
            bind (gpop cs) (fun n0 ->
              bind (iterM c.xhc (fun _ -> push_wrap c.xdc n0) ()) (fun _ ->
                bind (push_wrap cs n0) (fun _ -> set_cur c.xdc))))
       | XO p0 ->
         (match p0 with
          | XI _ ->
            bind (gpop cs) (fun n0 ->
              bind (iterM c.xhc (fun _ -> push_wrap c.xdc n0) ()) (fun _ ->
                bind (push_wrap cs n0) (fun _ -> set_cur c.xdc)))
          | XO p1 ->
            (match p1 with
             | XH ->
               bind
                 (iterM c.xhc (fun v ->
                   bind (gpop cs) (fun x -> ret (x :: v))) []) (fun v ->
                 bind
                   (fold_left (fun m0 x ->
                     bind m0 (fun n0 ->
                       let x' = nflip x in
                       bind (push_wrap cs x') (fun _ -> ret (nmul n0 x'))))
                     (if fx.fx5 then v else rev v) (ret n_one)) (fun n0 ->
                   push_wrap c.xdc n0))
             | _ ->
               bind (gpop cs) (fun n0 ->
                 bind (iterM c.xhc (fun _ -> push_wrap c.xdc n0) ())
                   (fun _ -> bind (push_wrap cs n0) (fun _ -> set_cur c.xdc))))
          | XH ->
            bind
              (iterM c.xhc (fun n0 ->
                bind (gpop cs) (fun v -> ret (nmul n0 v))) n_one) (fun n0 ->
              push_wrap c.xdc n0))
       | XH ->
         bind
           (iterM c.xhc (fun n0 -> bind (gpop cs) (fun v -> ret (nadd n0 v)))
             nzero) (fun n0 -> push_wrap c.xdc n0)))

(** val oexecute_one : fixes -> xcode -> n -> (n * bool) m **)

let oexecute_one fx c pc =
  bind (obody fx c) (fun _ ->
    bind get_cur (fun cs ->
      bind (calc c.xar c.xac (gpop cs)) (fun t ->
        if N.eqb t N0
        then ret ((N.add pc (Npos XH)), false)
        else if N.eqb t (Npos (XI (XO (XI XH))))
             then bind get_latest (fun l ->
                    match l with
                    | Some loc0 -> ret (loc0, true)
                    | None -> ret ((N.add pc (Npos XH)), false))
             else let id = N.add (N.mul c.xac (Npos (XO (XO (XO (XO XH)))))) t
                  in
                  bind (get_point id) (fun p ->
                    match p with
                    | Some v ->
                      if N.eqb pc v
                      then ret ((N.add pc (Npos XH)), false)
                      else bind (set_latest pc) (fun _ -> ret (v, true))
                    | None ->
                      bind (set_point id pc) (fun _ ->
                        ret ((N.add pc (Npos XH)), false))))))

type ores =
| ODone of state
| OBail of state
| OErr of errkind * state
| OFuel
| OPanic

(** val opt_loop :
    nat -> fixes -> xcode list -> state -> n -> n -> n -> ores **)

let rec opt_loop fuel fx code s pc len jumps =
  match fuel with
  | O -> OFuel
  | S f ->
    if N.leb len pc
    then ODone s
    else if N.leb (Npos (XO (XO (XI (XO (XO (XI XH))))))) jumps
         then OBail s
         else (match nth_error code (N.to_nat pc) with
               | Some c ->
                 (match oexecute_one fx c pc s with
                  | ROk (a, s') ->
                    let (pc', j) = a in
                    opt_loop f fx code s' pc' len
                      (if j then N.add jumps (Npos XH) else jumps)
                  | RExit (_, s') -> OBail s'
                  | RErr (e, s') -> OErr (e, s'))
               | None -> OPanic)

(** val opt_fuel : xcode list -> nat **)

let opt_fuel code =
  add
    (mul (S (S (S (S (S (S (S (S (S (S (S (S (S (S (S (S (S (S (S (S (S (S (S
      (S (S (S (S (S (S (S (S (S (S (S (S (S (S (S (S (S (S (S (S (S (S (S (S
      (S (S (S (S (S (S (S (S (S (S (S (S (S (S (S (S (S (S (S (S (S (S (S (S
      (S (S (S (S (S (S (S (S (S (S (S (S (S (S (S (S (S (S (S (S (S (S (S (S
      (S (S (S (S (S (S
      O)))))))))))))))))))))))))))))))))))))))))))))))))))))))))))))))))))))))))))))))))))))))))))))))))))))
      (S (length code))) (S O)

type opt_result = { ostate : state; olog : xcode list; orest : xcode list }

type optimized =
| OptOk of opt_result
| OptErr of errkind
| OptStuck

(** val with_io : state -> state -> state **)

let with_io s io =
  { skind_ = s.skind_; stacks = s.stacks; cur = s.cur; points = s.points;
    latest = s.latest; inp = s.inp; outb = io.outb; errb = io.errb }

(** val preexec : fixes -> state -> xcode list -> xcode list -> optimized **)

let rec preexec fx s log todo = match todo with
| [] -> OptOk { ostate = s; olog = log; orest = [] }
| c :: r ->
  let code = app log (c :: []) in
  let pc = N.of_nat (length log) in
  (match opt_loop (opt_fuel code) fx code s pc (N.add pc (Npos XH)) N0 with
   | ODone s' -> preexec fx s' code r
   | OBail s' ->
     OptOk { ostate = (if fx.fx6 then s else with_io s s'); olog = log;
       orest = todo }
   | OErr (e, _) -> OptErr e
   | _ -> OptStuck)

(** val optimize_prog :
    fixes -> ucode list -> n -> n list option list -> optimized **)

let optimize_prog fx code level input0 =
  if N.eqb level N0
  then OptOk { ostate = (state0 (SOpt N0) input0); olog = []; orest = [] }
  else let (m0, mx) = renum_map fx code in
       let ocode = map (opt_code m0 mx) code in
       let s0 = state0 (SOpt (N.add mx (Npos XH))) input0 in
       if N.eqb level (Npos XH)
       then OptOk { ostate = s0; olog = []; orest = ocode }
       else preexec fx s0 [] ocode

(** val run_level :
    fixes -> nat -> ucode list -> n -> n list option list -> final **)

let run_level fx fuel code level input0 =
  if N.eqb level N0
  then run_inc fuel [] (map xcode_of_ucode code) (state0 SUnopt input0)
  else (match optimize_prog fx code level input0 with
        | OptOk r -> run_inc fuel r.olog r.orest r.ostate
        | OptErr e -> FErr (e, (state0 SUnopt input0))
        | OptStuck -> FPanic (state0 SUnopt input0))

(** val trim_left : n list -> n list **)

let rec trim_left l = match l with
| [] -> []
| c :: r -> if is_ws c then trim_left r else l

(** val trim : n list -> n list **)

let trim l =
  rev (trim_left (rev (trim_left l)))

(** val kW_CLEAR : n list **)

let kW_CLEAR =
  (Npos (XI (XI (XO (XO (XO (XI XH))))))) :: ((Npos (XO (XO (XI (XI (XO (XI
    XH))))))) :: ((Npos (XI (XO (XI (XO (XO (XI XH))))))) :: ((Npos (XI (XO
    (XO (XO (XO (XI XH))))))) :: ((Npos (XO (XI (XO (XO (XI (XI
    XH))))))) :: []))))

(** val kW_HELP : n list **)

let kW_HELP =
  (Npos (XO (XO (XO (XI (XO (XI XH))))))) :: ((Npos (XI (XO (XI (XO (XO (XI
    XH))))))) :: ((Npos (XO (XO (XI (XI (XO (XI XH))))))) :: ((Npos (XO (XO
    (XO (XO (XI (XI XH))))))) :: [])))

(** val kW_EXIT : n list **)

let kW_EXIT =
  (Npos (XI (XO (XI (XO (XO (XI XH))))))) :: ((Npos (XO (XO (XO (XI (XI (XI
    XH))))))) :: ((Npos (XI (XO (XO (XI (XO (XI XH))))))) :: ((Npos (XO (XO
    (XI (XO (XI (XI XH))))))) :: [])))

(** val leqb : n list -> n list -> bool **)

let leqb a b0 =
  if list_eq_dec N.eq_dec a b0 then true else false

type revent =
| EvNothing
| EvHelp
| EvFlush of n list * n list

type rend =
| RAlive
| RQuit
| RProgExit of n
| RFail of errkind
| RFuelOut
| RPanicked

(** val with_fresh_io : state -> state **)

let with_fresh_io s =
  { skind_ = s.skind_; stacks = s.stacks; cur = s.cur; points = s.points;
    latest = s.latest; inp = s.inp; outb = []; errb = [] }

(** val flush_of : state -> revent **)

let flush_of s =
  EvFlush ((rev s.outb), (rev s.errb))

(** val repl :
    bool -> nat -> n list list -> xcode list -> state -> revent list * rend **)

let rec repl fx12 fuel lines log s =
  match lines with
  | [] -> ([], RAlive)
  | line0 :: rest ->
    let t = trim line0 in
    if leqb t []
    then let (ev, e) = repl fx12 fuel rest log s in ((EvNothing :: ev), e)
    else if leqb t kW_CLEAR
         then let (ev, e) = repl fx12 fuel rest [] (state0 SUnopt s.inp) in
              (((EvFlush ([], [])) :: ev), e)
         else if leqb t kW_HELP
              then let (ev, e) = repl fx12 fuel rest log s in
                   ((EvHelp :: ev), e)
              else if leqb t kW_EXIT
                   then ([], RQuit)
                   else let cmds = map xcode_of_ucode (parse line0) in
                        (match run_inc fuel log cmds (with_fresh_io s) with
                         | FDone s' ->
                           let (ev, e) = repl fx12 fuel rest (app log cmds) s'
                           in
                           (((flush_of s') :: ev), e)
                         | FExit (c, s') ->
                           (((flush_of s') :: []), (RProgExit c))
                         | FErr (e, s') ->
                           ((if fx12 then (flush_of s') :: [] else []),
                             (RFail e))
                         | FFuel (s', _) -> (((flush_of s') :: []), RFuelOut)
                         | FPanic s' -> (((flush_of s') :: []), RPanicked))

(** val repl_run : bool -> nat -> n list list -> revent list * rend **)

let repl_run fx12 fuel lines =
  repl fx12 fuel lines [] (state0 SUnopt [])

type ierr =
| IEmpty
| IInvalid
| IOverflow

(** val uSIZE_MAX : n **)

let uSIZE_MAX =
  Npos (XI (XI (XI (XI (XI (XI (XI (XI (XI (XI (XI (XI (XI (XI (XI (XI (XI
    (XI (XI (XI (XI (XI (XI (XI (XI (XI (XI (XI (XI (XI (XI (XI (XI (XI (XI
    (XI (XI (XI (XI (XI (XI (XI (XI (XI (XI (XI (XI (XI (XI (XI (XI (XI (XI
    (XI (XI (XI (XI (XI (XI (XI (XI (XI (XI
    XH)))))))))))))))))))))))))))))))))))))))))))))))))))))))))))))))

(** val digits_acc : n list -> n -> (n option, ierr) sum **)

let rec digits_acc l acc =
  match l with
  | [] -> Inl (Some acc)
  | c :: r ->
    if (&&) (N.leb (Npos (XO (XO (XO (XO (XI XH)))))) c)
         (N.leb c (Npos (XI (XO (XO (XI (XI XH)))))))
    then let v =
           N.add (N.mul acc (Npos (XO (XI (XO XH)))))
             (N.sub c (Npos (XO (XO (XO (XO (XI XH)))))))
         in
         if N.ltb uSIZE_MAX v then Inr IOverflow else digits_acc r v
    else Inr IInvalid

(** val parse_usize : n list -> (n, ierr) sum **)

let parse_usize w = match w with
| [] -> Inr IEmpty
| c :: r ->
  let body0 = if N.eqb c (Npos (XI (XI (XO (XI (XO XH)))))) then r else w in
  (match body0 with
   | [] -> Inr IInvalid
   | _ :: _ ->
     (match digits_acc body0 N0 with
      | Inl o -> (match o with
                  | Some v -> Inl v
                  | None -> Inr IInvalid)
      | Inr e -> Inr e))

(** val split_sp : n list -> n list -> n list list **)

let rec split_sp l cur0 =
  match l with
  | [] -> (rev cur0) :: []
  | c :: r ->
    if N.eqb c (Npos (XO (XO (XO (XO (XO XH))))))
    then (rev cur0) :: (split_sp r [])
    else split_sp r (c :: cur0)

type devent =
| DvPrompt
| DvShowCode of n list
| DvFlush of n list * n list
| DvMovedBack
| DvCantGoBack
| DvState of n
| DvListBreaks
| DvIntErr of ierr
| DvRange
| DvSet of n
| DvUnset of n
| DvHelp
| DvNotFound of n list

type dend =
| DEof
| DQuit
| DFinished
| DProgExit of n
| DFail of errkind
| DPanic
| DFuelOut

type dstate = { hist : (state * n) list; brk : n list; running : bool;
                dio : state }

(** val w_next : n list **)

let w_next =
  (Npos (XO (XI (XI (XI (XO (XI XH))))))) :: ((Npos (XI (XO (XI (XO (XO (XI
    XH))))))) :: ((Npos (XO (XO (XO (XI (XI (XI XH))))))) :: ((Npos (XO (XO
    (XI (XO (XI (XI XH))))))) :: [])))

(** val w_previous : n list **)

let w_previous =
  (Npos (XO (XO (XO (XO (XI (XI XH))))))) :: ((Npos (XO (XI (XO (XO (XI (XI
    XH))))))) :: ((Npos (XI (XO (XI (XO (XO (XI XH))))))) :: ((Npos (XO (XI
    (XI (XO (XI (XI XH))))))) :: ((Npos (XI (XO (XO (XI (XO (XI
    XH))))))) :: ((Npos (XI (XI (XI (XI (XO (XI XH))))))) :: ((Npos (XI (XO
    (XI (XO (XI (XI XH))))))) :: ((Npos (XI (XI (XO (XO (XI (XI
    XH))))))) :: [])))))))

(** val w_run : n list **)

let w_run =
  (Npos (XO (XI (XO (XO (XI (XI XH))))))) :: ((Npos (XI (XO (XI (XO (XI (XI
    XH))))))) :: ((Npos (XO (XI (XI (XI (XO (XI XH))))))) :: []))

(** val w_state : n list **)

let w_state =
  (Npos (XI (XI (XO (XO (XI (XI XH))))))) :: ((Npos (XO (XO (XI (XO (XI (XI
    XH))))))) :: ((Npos (XI (XO (XO (XO (XO (XI XH))))))) :: ((Npos (XO (XO
    (XI (XO (XI (XI XH))))))) :: ((Npos (XI (XO (XI (XO (XO (XI
    XH))))))) :: []))))

(** val w_break : n list **)

let w_break =
  (Npos (XO (XI (XO (XO (XO (XI XH))))))) :: ((Npos (XO (XI (XO (XO (XI (XI
    XH))))))) :: ((Npos (XI (XO (XI (XO (XO (XI XH))))))) :: ((Npos (XI (XO
    (XO (XO (XO (XI XH))))))) :: ((Npos (XI (XI (XO (XI (XO (XI
    XH))))))) :: []))))

(** val w_help : n list **)

let w_help =
  (Npos (XO (XO (XO (XI (XO (XI XH))))))) :: ((Npos (XI (XO (XI (XO (XO (XI
    XH))))))) :: ((Npos (XO (XO (XI (XI (XO (XI XH))))))) :: ((Npos (XO (XO
    (XO (XO (XI (XI XH))))))) :: [])))

(** val w_exit : n list **)

let w_exit =
  (Npos (XI (XO (XI (XO (XO (XI XH))))))) :: ((Npos (XO (XO (XO (XI (XI (XI
    XH))))))) :: ((Npos (XI (XO (XO (XI (XO (XI XH))))))) :: ((Npos (XO (XO
    (XI (XO (XI (XI XH))))))) :: [])))

(** val is_word : n list -> n list -> n -> bool **)

let is_word t full abbr =
  (||) (leqb t full) (leqb t (abbr :: []))

(** val ins_asc : n -> n list -> n list **)

let rec ins_asc x l = match l with
| [] -> x :: []
| y :: r -> if N.leb x y then x :: l else y :: (ins_asc x r)

(** val sort_asc : n list -> n list **)

let sort_asc l =
  fold_right ins_asc [] l

(** val mem_N : n -> n list -> bool **)

let mem_N x l =
  existsb (N.eqb x) l

(** val remove_N : n -> n list -> n list **)

let remove_N x l =
  filter (fun y -> negb (N.eqb y x)) l

(** val dstep0 : xcode list -> dstate -> ((state * n) * state, final) sum **)

let dstep0 code d =
  match d.hist with
  | [] -> Inr (FPanic d.dio)
  | p :: _ ->
    let (s, pc) = p in
    (match nth_error code (N.to_nat pc) with
     | Some c ->
       let s_io = { skind_ = s.skind_; stacks = s.stacks; cur = s.cur;
         points = s.points; latest = s.latest; inp = s.inp; outb =
         d.dio.outb; errb = d.dio.errb }
       in
       (match execute_one c pc s_io with
        | ROk (pc', s') -> Inl ((s', pc'), s')
        | RExit (k, s') -> Inr (FExit (k, s'))
        | RErr (e, s') -> Inr (FErr (e, s')))
     | None -> Inr (FPanic d.dio))

(** val flushed : state -> devent **)

let flushed io =
  DvFlush ((rev io.outb), (rev io.errb))

(** val clear_io : state -> state **)

let clear_io =
  with_fresh_io

(** val dtrans :
    bool -> bool -> xcode list -> n list list -> dstate -> devent
    list * (dend, n list list * dstate) sum **)

let dtrans fx11 fx13 code lines d =
  match d.hist with
  | [] -> ([], (Inl DPanic))
  | p :: older ->
    let (_, pc) = p in
    let len = N.of_nat (length code) in
    if N.leb len pc
    then (((flushed d.dio) :: []), (Inl DFinished))
    else if d.running
         then if mem_N pc d.brk
              then (((flushed d.dio) :: []), (Inr (lines, { hist = d.hist;
                     brk = d.brk; running = false; dio = (clear_io d.dio) })))
              else (match dstep0 code d with
                    | Inl p0 ->
                      let (p1, io') = p0 in
                      ([], (Inr (lines, { hist = (p1 :: d.hist); brk = d.brk;
                      running = true; dio = io' })))
                    | Inr f ->
                      (match f with
                       | FExit (k, io') ->
                         (((flushed io') :: []), (Inl (DProgExit k)))
                       | FErr (e, io') ->
                         ((if fx13 then (flushed io') :: [] else []), (Inl
                           (DFail e)))
                       | _ -> ([], (Inl DPanic))))
         else (match lines with
               | [] -> ((DvPrompt :: []), (Inl DEof))
               | line0 :: rest ->
                 let toks = split_sp (trim line0) [] in
                 let t0 = hd [] toks in
                 let again = fun evs -> ((DvPrompt :: evs), (Inr (rest, d)))
                 in
                 if is_word t0 w_next (Npos (XO (XI (XI (XI (XO (XI XH)))))))
                 then (match dstep0 code d with
                       | Inl p0 ->
                         let (p1, io') = p0 in
                         ((DvPrompt :: ((DvShowCode
                         (pc :: [])) :: ((flushed io') :: []))), (Inr (rest,
                         { hist = (p1 :: d.hist); brk = d.brk; running =
                         false; dio = (clear_io io') })))
                       | Inr f ->
                         (match f with
                          | FExit (k, io') ->
                            ((DvPrompt :: ((DvShowCode
                              (pc :: [])) :: ((flushed io') :: []))), (Inl
                              (DProgExit k)))
                          | FErr (e, io') ->
                            ((app (DvPrompt :: ((DvShowCode
                               (pc :: [])) :: []))
                               (if fx13 then (flushed io') :: [] else [])),
                              (Inl (DFail e)))
                          | _ -> ((DvPrompt :: []), (Inl DPanic))))
                 else if is_word t0 w_previous (Npos (XO (XO (XO (XO (XI (XI
                           XH)))))))
                      then (match older with
                            | [] -> again (DvCantGoBack :: [])
                            | _ :: _ ->
                              ((DvPrompt :: (DvMovedBack :: [])), (Inr (rest,
                                { hist = older; brk = d.brk; running = false;
                                dio = d.dio }))))
                      else if is_word t0 w_run (Npos (XO (XI (XO (XO (XI (XI
                                XH)))))))
                           then (match dstep0 code d with
                                 | Inl p0 ->
                                   let (p1, io') = p0 in
                                   ((DvPrompt :: []), (Inr (rest, { hist =
                                   (p1 :: d.hist); brk = d.brk; running =
                                   true; dio = io' })))
                                 | Inr f ->
                                   (match f with
                                    | FExit (k, io') ->
                                      ((DvPrompt :: ((flushed io') :: [])),
                                        (Inl (DProgExit k)))
                                    | FErr (e, io') ->
                                      ((DvPrompt :: (if fx13
                                                     then (flushed io') :: []
                                                     else [])), (Inl (DFail
                                        e)))
                                    | _ -> ((DvPrompt :: []), (Inl DPanic))))
                           else if is_word t0 w_state (Npos (XI (XI (XO (XO
                                     (XI (XI XH)))))))
                                then again ((DvState
                                       (N.of_nat (length older))) :: [])
                                else if is_word t0 w_break (Npos (XO (XI (XO
                                          (XO (XO (XI XH)))))))
                                     then (match tl toks with
                                           | [] ->
                                             if forallb (fun i ->
                                                  N.ltb i len) d.brk
                                             then again
                                                    (DvListBreaks :: ((DvShowCode
                                                    (sort_asc d.brk)) :: []))
                                             else ((DvPrompt :: []), (Inl
                                                    DPanic))
                                           | w :: _ ->
                                             (match parse_usize w with
                                              | Inl n0 ->
                                                if if fx11
                                                   then N.leb len n0
                                                   else N.ltb len n0
                                                then again (DvRange :: [])
                                                else if mem_N n0 d.brk
                                                     then ((DvPrompt :: ((DvUnset
                                                            n0) :: [])), (Inr
                                                            (rest, { hist =
                                                            d.hist; brk =
                                                            (remove_N n0
                                                              d.brk);
                                                            running = false;
                                                            dio = d.dio })))
                                                     else ((DvPrompt :: ((DvSet
                                                            n0) :: [])), (Inr
                                                            (rest, { hist =
                                                            d.hist; brk =
                                                            (n0 :: d.brk);
                                                            running = false;
                                                            dio = d.dio })))
                                              | Inr e ->
                                                again ((DvIntErr e) :: [])))
                                     else if is_word t0 w_help (Npos (XO (XO
                                               (XO (XI (XO (XI XH)))))))
                                          then again (DvHelp :: [])
                                          else if leqb t0 w_exit
                                               then ((DvPrompt :: []), (Inl
                                                      DQuit))
                                               else if leqb t0 []
                                                    then again []
                                                    else again ((DvNotFound
                                                           t0) :: []))

(** val dloop :
    bool -> bool -> nat -> xcode list -> n list list -> dstate -> devent
    list * dend **)

let rec dloop fx11 fx13 fuel code lines d =
  match fuel with
  | O -> ([], DFuelOut)
  | S f ->
    let (evs, s) = dtrans fx11 fx13 code lines d in
    (match s with
     | Inl e -> (evs, e)
     | Inr p ->
       let (lines', d') = p in
       let (ev, e) = dloop fx11 fx13 f code lines' d' in ((app evs ev), e))

(** val debug_run :
    bool -> bool -> nat -> xcode list -> n list list -> devent list * dend **)

let debug_run fx11 fx13 fuel code lines =
  dloop fx11 fx13 fuel code lines { hist = (((state0 SUnopt []), N0) :: []);
    brk = (N0 :: []); running = false; dio = (state0 SUnopt []) }

(** val is_scalar_value : n -> bool **)

let is_scalar_value c =
  (&&)
    ((||)
      (N.ltb c (Npos (XO (XO (XO (XO (XO (XO (XO (XO (XO (XO (XO (XI (XI (XO
        (XI XH)))))))))))))))))
      (N.ltb (Npos (XI (XI (XI (XI (XI (XI (XI (XI (XI (XI (XI (XI (XI (XO
        (XI XH)))))))))))))))) c))
    (N.leb c (Npos (XI (XI (XI (XI (XI (XI (XI (XI (XI (XI (XI (XI (XI (XI
      (XI (XI (XO (XO (XO (XO XH))))))))))))))))))))))

(** val encode1 : n -> n list **)

let encode1 c =
  if N.ltb c (Npos (XO (XO (XO (XO (XO (XO (XO XH))))))))
  then c :: []
  else if N.ltb c (Npos (XO (XO (XO (XO (XO (XO (XO (XO (XO (XO (XO
            XH))))))))))))
       then (N.add (Npos (XO (XO (XO (XO (XO (XO (XI XH))))))))
              (N.div c (Npos (XO (XO (XO (XO (XO (XO XH))))))))) :: (
              (N.add (Npos (XO (XO (XO (XO (XO (XO (XO XH))))))))
                (N.modulo c (Npos (XO (XO (XO (XO (XO (XO XH))))))))) :: [])
       else if N.ltb c (Npos (XO (XO (XO (XO (XO (XO (XO (XO (XO (XO (XO (XO
                 (XO (XO (XO (XO XH)))))))))))))))))
            then (N.add (Npos (XO (XO (XO (XO (XO (XI (XI XH))))))))
                   (N.div c (Npos (XO (XO (XO (XO (XO (XO (XO (XO (XO (XO (XO
                     (XO XH))))))))))))))) :: ((N.add (Npos (XO (XO (XO (XO
                                                 (XO (XO (XO XH))))))))
                                                 (N.modulo
                                                   (N.div c (Npos (XO (XO (XO
                                                     (XO (XO (XO XH))))))))
                                                   (Npos (XO (XO (XO (XO (XO
                                                   (XO XH))))))))) :: (
                   (N.add (Npos (XO (XO (XO (XO (XO (XO (XO XH))))))))
                     (N.modulo c (Npos (XO (XO (XO (XO (XO (XO XH))))))))) :: []))
            else (N.add (Npos (XO (XO (XO (XO (XI (XI (XI XH))))))))
                   (N.div c (Npos (XO (XO (XO (XO (XO (XO (XO (XO (XO (XO (XO
                     (XO (XO (XO (XO (XO (XO (XO XH))))))))))))))))))))) :: (
                   (N.add (Npos (XO (XO (XO (XO (XO (XO (XO XH))))))))
                     (N.modulo
                       (N.div c (Npos (XO (XO (XO (XO (XO (XO (XO (XO (XO (XO
                         (XO (XO XH)))))))))))))) (Npos (XO (XO (XO (XO (XO
                       (XO XH))))))))) :: ((N.add (Npos (XO (XO (XO (XO (XO
                                             (XO (XO XH))))))))
                                             (N.modulo
                                               (N.div c (Npos (XO (XO (XO (XO
                                                 (XO (XO XH)))))))) (Npos (XO
                                               (XO (XO (XO (XO (XO XH))))))))) :: (
                   (N.add (Npos (XO (XO (XO (XO (XO (XO (XO XH))))))))
                     (N.modulo c (Npos (XO (XO (XO (XO (XO (XO XH))))))))) :: [])))

(** val encode : n list -> n list **)

let encode t =
  flat_map encode1 t

(** val is_cont : n -> bool **)

let is_cont b0 =
  (&&) (N.leb (Npos (XO (XO (XO (XO (XO (XO (XO XH)))))))) b0)
    (N.ltb b0 (Npos (XO (XO (XO (XO (XO (XO (XI XH)))))))))

(** val decode1 : n list -> (n * n list) option **)

let decode1 = function
| [] -> None
| b0 :: r ->
  if N.ltb b0 (Npos (XO (XO (XO (XO (XO (XO (XO XH))))))))
  then Some (b0, r)
  else if N.ltb b0 (Npos (XO (XI (XO (XO (XO (XO (XI XH))))))))
       then None
       else if N.ltb b0 (Npos (XO (XO (XO (XO (XO (XI (XI XH))))))))
            then (match r with
                  | [] -> None
                  | b1 :: r1 ->
                    if is_cont b1
                    then Some
                           ((N.add
                              (N.mul
                                (N.sub b0 (Npos (XO (XO (XO (XO (XO (XO (XI
                                  XH))))))))) (Npos (XO (XO (XO (XO (XO (XO
                                XH))))))))
                              (N.sub b1 (Npos (XO (XO (XO (XO (XO (XO (XO
                                XH)))))))))), r1)
                    else None)
            else if N.ltb b0 (Npos (XO (XO (XO (XO (XI (XI (XI XH))))))))
                 then (match r with
                       | [] -> None
                       | b1 :: l0 ->
                         (match l0 with
                          | [] -> None
                          | b2 :: r2 ->
                            if (&&) (is_cont b1) (is_cont b2)
                            then let c =
                                   N.add
                                     (N.add
                                       (N.mul
                                         (N.sub b0 (Npos (XO (XO (XO (XO (XO
                                           (XI (XI XH))))))))) (Npos (XO (XO
                                         (XO (XO (XO (XO (XO (XO (XO (XO (XO
                                         (XO XH))))))))))))))
                                       (N.mul
                                         (N.sub b1 (Npos (XO (XO (XO (XO (XO
                                           (XO (XO XH))))))))) (Npos (XO (XO
                                         (XO (XO (XO (XO XH)))))))))
                                     (N.sub b2 (Npos (XO (XO (XO (XO (XO (XO
                                       (XO XH)))))))))
                                 in
                                 if (&&)
                                      (N.leb (Npos (XO (XO (XO (XO (XO (XO
                                        (XO (XO (XO (XO (XO XH)))))))))))) c)
                                      (is_scalar_value c)
                                 then Some (c, r2)
                                 else None
                            else None))
                 else if N.ltb b0 (Npos (XI (XO (XI (XO (XI (XI (XI XH))))))))
                      then (match r with
                            | [] -> None
                            | b1 :: l0 ->
                              (match l0 with
                               | [] -> None
                               | b2 :: l1 ->
                                 (match l1 with
                                  | [] -> None
                                  | b3 :: r3 ->
                                    if (&&) ((&&) (is_cont b1) (is_cont b2))
                                         (is_cont b3)
                                    then let c =
                                           N.add
                                             (N.add
                                               (N.add
                                                 (N.mul
                                                   (N.sub b0 (Npos (XO (XO
                                                     (XO (XO (XI (XI (XI
                                                     XH))))))))) (Npos (XO
                                                   (XO (XO (XO (XO (XO (XO
                                                   (XO (XO (XO (XO (XO (XO
                                                   (XO (XO (XO (XO (XO
                                                   XH))))))))))))))))))))
                                                 (N.mul
                                                   (N.sub b1 (Npos (XO (XO
                                                     (XO (XO (XO (XO (XO
                                                     XH))))))))) (Npos (XO
                                                   (XO (XO (XO (XO (XO (XO
                                                   (XO (XO (XO (XO (XO
                                                   XH)))))))))))))))
                                               (N.mul
                                                 (N.sub b2 (Npos (XO (XO (XO
                                                   (XO (XO (XO (XO XH)))))))))
                                                 (Npos (XO (XO (XO (XO (XO
                                                 (XO XH)))))))))
                                             (N.sub b3 (Npos (XO (XO (XO (XO
                                               (XO (XO (XO XH)))))))))
                                         in
                                         if (&&)
                                              (N.leb (Npos (XO (XO (XO (XO
                                                (XO (XO (XO (XO (XO (XO (XO
                                                (XO (XO (XO (XO (XO
                                                XH))))))))))))))))) c)
                                              (N.leb c (Npos (XI (XI (XI (XI
                                                (XI (XI (XI (XI (XI (XI (XI
                                                (XI (XI (XI (XI (XI (XO (XO
                                                (XO (XO
                                                XH))))))))))))))))))))))
                                         then Some (c, r3)
                                         else None
                                    else None)))
                      else None

(** val decode_fuel : nat -> n list -> n list option **)

let rec decode_fuel fuel l = match l with
| [] -> Some []
| _ :: _ ->
  (match fuel with
   | O -> None
   | S f ->
     (match decode1 l with
      | Some p ->
        let (c, r) = p in
        (match decode_fuel f r with
         | Some t -> Some (c :: t)
         | None -> None)
      | None -> None))

(** val decode : n list -> n list option **)

let decode l =
  decode_fuel (length l) l

(** val split_nl : n list -> n list -> n list list **)

let rec split_nl l cur0 =
  match l with
  | [] -> (match cur0 with
           | [] -> []
           | _ :: _ -> (rev cur0) :: [])
  | b0 :: r ->
    if N.eqb b0 (Npos (XO (XI (XO XH))))
    then (rev (b0 :: cur0)) :: (split_nl r [])
    else split_nl r (b0 :: cur0)

(** val stdin_lines : n list -> n list option list **)

let stdin_lines bytes =
  map decode (split_nl bytes [])

type file_in =
| FUnreadable
| FBytes of bool * n list

type diag =
| DgFile
| DgExt
| DgUtf8File
| DgUtf8Stdin
| DgEnc of n

type cli_out =
| CExit of n * n list * n list
| CDiag of diag * n list * n list
| CPanic
| CRunning

(** val run_cli : n -> file_in -> n list -> nat -> cli_out **)

let run_cli level file stdin fuel =
  match file with
  | FUnreadable -> CDiag (DgFile, [], [])
  | FBytes (has_ext, b0) ->
    if has_ext
    then (match decode b0 with
          | Some text ->
            (match run_level all_fixed fuel (parse text) level
                     (stdin_lines stdin) with
             | FDone s ->
               CExit (N0, (encode (rev s.outb)), (encode (rev s.errb)))
             | FExit (c, s) ->
               CExit (c, (encode (rev s.outb)), (encode (rev s.errb)))
             | FErr (e, s) ->
               (match e with
                | EEnc n0 ->
                  CDiag ((DgEnc n0), (encode (rev s.outb)),
                    (encode (rev s.errb)))
                | EIo ->
                  CDiag (DgUtf8Stdin, (encode (rev s.outb)),
                    (encode (rev s.errb))))
             | FFuel (_, _) -> CRunning
             | FPanic _ -> CPanic)
          | None -> CDiag (DgUtf8File, [], []))
    else CDiag (DgExt, [], [])

(** val check_cli : file_in -> cli_out **)

let check_cli = function
| FUnreadable -> CDiag (DgFile, [], [])
| FBytes (has_ext, b0) ->
  if has_ext
  then (match decode b0 with
        | Some _ -> CExit (N0, [], [])
        | None -> CDiag (DgUtf8File, [], []))
  else CDiag (DgExt, [], [])

(** val has_area : xcode -> bool **)

let has_area c =
  match c.xar with
  | Nil -> false
  | Val (_, _, _) -> true

(** val blk : xcode list -> xcode list -> xcode list list **)

let rec blk code cur0 =
  match code with
  | [] -> (match cur0 with
           | [] -> []
           | _ :: _ -> (rev cur0) :: [])
  | c :: r ->
    if has_area c
    then app (match cur0 with
              | [] -> []
              | _ :: _ -> (rev cur0) :: []) ((c :: []) :: (blk r []))
    else blk r (c :: cur0)

(** val blocks : xcode list -> xcode list list **)

let blocks code =
  blk code []

(** val block_of : xcode list -> bool -> nat -> n -> n **)

let rec block_of code cur_nonempty i b0 =
  match code with
  | [] -> b0
  | c :: r ->
    (match i with
     | O ->
       if has_area c
       then if cur_nonempty then N.add b0 (Npos XH) else b0
       else b0
     | S j ->
       if has_area c
       then block_of r false j
              (N.add (if cur_nonempty then N.add b0 (Npos XH) else b0) (Npos
                XH))
       else block_of r true j b0)

(** val block_index : xcode list -> n -> n **)

let block_index code i =
  block_of code false (N.to_nat i) N0

type dtree =
| DLeaf of n
| DNode of n * dtree * dtree

(** val build_tree : nat -> n -> n -> dtree **)

let rec build_tree fuel n0 base =
  match fuel with
  | O -> DLeaf base
  | S f ->
    if N.leb n0 (Npos XH)
    then DLeaf base
    else let h = N.div n0 (Npos (XO XH)) in
         DNode ((N.add base h), (build_tree f h base),
         (build_tree f (N.sub n0 h) (N.add base h)))

(** val dispatch_tree : n -> dtree **)

let dispatch_tree n0 =
  build_tree (N.to_nat n0) n0 N0

(** val tree_select : dtree -> n -> n **)

let rec tree_select t st0 =
  match t with
  | DLeaf b0 -> b0
  | DNode (bound, lo, hi) ->
    if N.ltb st0 bound then tree_select lo st0 else tree_select hi st0

type irprog = { ir_blocks : xcode list list; ir_kind : skind;
                ir_stacks : (n * n list list) list; ir_cur : n;
                ir_last : n option; ir_points : (n * n) list; ir_start : 
                n; ir_out : n list; ir_err : n list }

(** val ser_stack : num list -> n list list **)

let ser_stack l =
  map num_display (rev l)

(** val nonempty_stacks : state -> (n * num list) list **)

let nonempty_stacks s =
  filter (fun p -> match snd p with
                   | [] -> false
                   | _ :: _ -> true) s.stacks

(** val build_ir :
    bool -> n -> state -> xcode list -> xcode list -> irprog **)

let build_ir fx89 level s log rest =
  if N.ltb level (Npos (XO XH))
  then { ir_blocks = (blocks rest); ir_kind = s.skind_; ir_stacks = [];
         ir_cur = (Npos (XI XH)); ir_last = None; ir_points = []; ir_start =
         N0; ir_out = []; ir_err = [] }
  else (match rest with
        | [] ->
          { ir_blocks = []; ir_kind = s.skind_; ir_stacks = []; ir_cur =
            (Npos (XI XH)); ir_last = None; ir_points = []; ir_start = N0;
            ir_out = (rev s.outb); ir_err = (rev s.errb) }
        | _ :: _ ->
          let pre = blocks log in
          let all = app pre (blocks rest) in
          let tr = fun i -> block_index log i in
          { ir_blocks = all; ir_kind = s.skind_; ir_stacks =
          (map (fun p -> ((fst p), (ser_stack (snd p)))) (nonempty_stacks s));
          ir_cur = s.cur; ir_last =
          (if fx89 then option_map tr s.latest else s.latest); ir_points =
          (map (fun p -> ((fst p), (tr (snd p)))) s.points); ir_start =
          (if fx89
           then N.of_nat (length pre)
           else N.add (N.of_nat (length pre))
                  (match rev log with
                   | [] -> Npos XH
                   | c :: _ -> if has_area c then Npos XH else N0)); ir_out =
          (rev s.outb); ir_err = (rev s.errb) })

(** val compile_prog : fixes -> bool -> ucode list -> n -> irprog option **)

let compile_prog fx fx89 code level =
  if N.eqb level N0
  then Some (build_ir fx89 N0 (state0 SUnopt []) [] (map xcode_of_ucode code))
  else (match optimize_prog fx code level [] with
        | OptOk r -> Some (build_ir fx89 level r.ostate r.olog r.orest)
        | _ -> None)

(** val deser_stack : n list list -> num list option **)

let deser_stack l =
  fold_left (fun acc t ->
    match acc with
    | Some a ->
      (match num_from_string t with
       | Some x -> Some (x :: a)
       | None -> None)
    | None -> None) l (Some [])

(** val deser_all : (n * n list list) list -> (n * num list) list option **)

let rec deser_all = function
| [] -> Some []
| p :: r ->
  let (i, t) = p in
  (match deser_stack t with
   | Some v ->
     (match deser_all r with
      | Some m0 -> Some ((i, v) :: m0)
      | None -> None)
   | None -> None)

(** val run_block : xcode list -> n -> n m **)

let rec run_block cmds b0 =
  match cmds with
  | [] -> ret (N.add b0 (Npos XH))
  | c :: r ->
    bind (execute_one c b0) (fun nb ->
      if N.eqb nb (N.add b0 (Npos XH)) then run_block r b0 else ret nb)

type irfinal =
| IDone of state
| IExit of n * state
| IAbort of n * state
| IIoErr of state
| IFuel of state
| IBadState

(** val ir_loop : nat -> irprog -> state -> n -> irfinal **)

let rec ir_loop fuel p s b0 =
  match fuel with
  | O -> IFuel s
  | S f ->
    let n0 = N.of_nat (length p.ir_blocks) in
    if N.leb n0 b0
    then IDone s
    else (match nth_error p.ir_blocks
                  (N.to_nat (tree_select (dispatch_tree n0) b0)) with
          | Some cmds ->
            (match run_block cmds b0 s with
             | ROk (b', s') -> ir_loop f p s' b'
             | RExit (c, s') -> IExit (c, s')
             | RErr (e, s') ->
               (match e with
                | EEnc k -> IAbort (k, s')
                | EIo -> IIoErr s'))
          | None -> IBadState)

(** val ir_run : nat -> irprog -> n list option list -> irfinal **)

let ir_run fuel p input0 =
  match deser_all p.ir_stacks with
  | Some st0 ->
    ir_loop fuel p { skind_ = p.ir_kind; stacks = st0; cur = p.ir_cur;
      points = p.ir_points; latest = p.ir_last; inp = input0; outb =
      (rev p.ir_out); errb = (rev p.ir_err) } p.ir_start
  | None -> IBadState

(** val dlen : n -> n **)

let dlen n0 =
  N.of_nat (length (dec_N n0))

(** val usub : n -> n -> n option **)

let usub a b0 =
  if N.leb b0 a then Some (N.sub a b0) else None

(** val spaces : n -> n list **)

let spaces n0 =
  repeat (Npos (XO (XO (XO (XO (XO XH)))))) (N.to_nat n0)

(** val idx_width : (n * ucode) list -> n **)

let idx_width es =
  fold_left (fun m0 e -> N.max m0 (dlen (fst e))) es N0

(** val loc_width : (n * ucode) list -> n **)

let loc_width es =
  fold_left (fun m0 e ->
    N.max m0 (N.add (dlen (fst (snd e).loc)) (dlen (snd (snd e).loc)))) es N0

(** val entry_tail : bool -> ucode -> n list option **)

let entry_tail rawmode c =
  if rawmode
  then Some c.raw
  else (match nth_error sINGLE (N.to_nat c.ty) with
        | Some ch ->
          Some
            (app (ch :: [])
              (app ((Npos (XI (XI (XI (XI (XI (XO XH))))))) :: [])
                (app (dec_N c.hc)
                  (app ((Npos (XI (XI (XI (XI (XI (XO XH))))))) :: [])
                    (app (dec_N c.dc)
                      (app ((Npos (XO (XO (XO (XO (XO XH)))))) :: [])
                        (area_display c.ar)))))))
        | None -> None)

(** val listing_row :
    bool -> n list -> n -> n -> (n * ucode) -> n list option **)

let listing_row rawmode fname iw lw = function
| (i, c) ->
  let (l, k) = c.loc in
  (match usub iw (dlen i) with
   | Some p1 ->
     (match usub lw (dlen l) with
      | Some q0 ->
        (match usub q0 (dlen k) with
         | Some p2 ->
           (match entry_tail rawmode c with
            | Some tl0 ->
              Some
                (app (dec_N i)
                  (app (spaces p1)
                    (app ((Npos (XO (XO (XO (XO (XO XH)))))) :: ((Npos (XO
                      (XO (XI (XI (XI (XI XH))))))) :: ((Npos (XO (XO (XO (XO
                      (XO XH)))))) :: [])))
                      (app fname
                        (app ((Npos (XO (XI (XO (XI (XI XH)))))) :: [])
                          (app (dec_N l)
                            (app ((Npos (XO (XI (XO (XI (XI XH)))))) :: [])
                              (app (dec_N k)
                                (app (spaces p2)
                                  (app ((Npos (XO (XO (XO (XO (XO
                                    XH)))))) :: ((Npos (XO (XO (XO (XO (XO
                                    XH)))))) :: []))
                                    (app tl0 ((Npos (XO (XI (XO XH)))) :: []))))))))))))
            | None -> None)
         | None -> None)
      | None -> None)
   | None -> None)

(** val listing_rows :
    bool -> n list -> n -> n -> (n * ucode) list -> n list option **)

let rec listing_rows rawmode fname iw lw = function
| [] -> Some []
| e :: r ->
  (match listing_row rawmode fname iw lw e with
   | Some a ->
     (match listing_rows rawmode fname iw lw r with
      | Some b0 -> Some (app a b0)
      | None -> None)
   | None -> None)

(** val listing_text : bool -> n list -> (n * ucode) list -> n list option **)

let listing_text rawmode fname es =
  listing_rows rawmode fname (idx_width es) (loc_width es) es

(** val enumerate_from : n -> 'a1 list -> (n * 'a1) list **)

let rec enumerate_from i = function
| [] -> []
| x :: r -> (i, x) :: (enumerate_from (N.add i (Npos XH)) r)

(** val check_listing : n list -> n list -> n list option **)

let check_listing fname text =
  listing_text false fname (enumerate_from N0 (parse text))
