
(** val xorb : bool -> bool -> bool **)

let xorb b1 b2 =
  if b1 then if b2 then false else true else b2

(** val negb : bool -> bool **)

let negb = function
| true -> false
| false -> true

type nat =
| O
| S of nat

(** val fst : ('a1 * 'a2) -> 'a1 **)

let fst = function
| (x, _) -> x

(** val snd : ('a1 * 'a2) -> 'a2 **)

let snd = function
| (_, y) -> y

(** val length : 'a1 list -> nat **)

let rec length = function
| [] -> O
| _ :: l' -> S (length l')

(** val app : 'a1 list -> 'a1 list -> 'a1 list **)

let rec app l m =
  match l with
  | [] -> m
  | a :: l1 -> a :: (app l1 m)

type comparison =
| Eq
| Lt
| Gt

(** val compOpp : comparison -> comparison **)

let compOpp = function
| Eq -> Eq
| Lt -> Gt
| Gt -> Lt

module Coq__1 = struct
 (** val add : nat -> nat -> nat **)
 let rec add n0 m =
   match n0 with
   | O -> m
   | S p -> S (add p m)
end
include Coq__1

(** val mul : nat -> nat -> nat **)

let rec mul n0 m =
  match n0 with
  | O -> O
  | S p -> add m (mul p m)

(** val eqb : bool -> bool -> bool **)

let eqb b1 b2 =
  if b1 then b2 else if b2 then false else true

module Nat =
 struct
  (** val eqb : nat -> nat -> bool **)

  let rec eqb n0 m =
    match n0 with
    | O -> (match m with
            | O -> true
            | S _ -> false)
    | S n' -> (match m with
               | O -> false
               | S m' -> eqb n' m')

  (** val leb : nat -> nat -> bool **)

  let rec leb n0 m =
    match n0 with
    | O -> true
    | S n' -> (match m with
               | O -> false
               | S m' -> leb n' m')

  (** val ltb : nat -> nat -> bool **)

  let ltb n0 m =
    leb (S n0) m

  (** val max : nat -> nat -> nat **)

  let rec max n0 m =
    match n0 with
    | O -> m
    | S n' -> (match m with
               | O -> n0
               | S m' -> S (max n' m'))
 end

(** val hd : 'a1 -> 'a1 list -> 'a1 **)

let hd default = function
| [] -> default
| x :: _ -> x

(** val nth : nat -> 'a1 list -> 'a1 -> 'a1 **)

let rec nth n0 l default =
  match n0 with
  | O -> (match l with
          | [] -> default
          | x :: _ -> x)
  | S m -> (match l with
            | [] -> default
            | _ :: t -> nth m t default)

(** val last : 'a1 list -> 'a1 -> 'a1 **)

let rec last l d =
  match l with
  | [] -> d
  | a :: l0 -> (match l0 with
                | [] -> a
                | _ :: _ -> last l0 d)

(** val removelast : 'a1 list -> 'a1 list **)

let rec removelast = function
| [] -> []
| a :: l0 -> (match l0 with
              | [] -> []
              | _ :: _ -> a :: (removelast l0))

(** val rev : 'a1 list -> 'a1 list **)

let rec rev = function
| [] -> []
| x :: l' -> app (rev l') (x :: [])

(** val list_eq_dec : ('a1 -> 'a1 -> bool) -> 'a1 list -> 'a1 list -> bool **)

let rec list_eq_dec eq_dec0 l l' =
  match l with
  | [] -> (match l' with
           | [] -> true
           | _ :: _ -> false)
  | y :: l0 ->
    (match l' with
     | [] -> false
     | a :: l1 -> if eq_dec0 y a then list_eq_dec eq_dec0 l0 l1 else false)

(** val map : ('a1 -> 'a2) -> 'a1 list -> 'a2 list **)

let rec map f = function
| [] -> []
| a :: t -> (f a) :: (map f t)

(** val flat_map : ('a1 -> 'a2 list) -> 'a1 list -> 'a2 list **)

let rec flat_map f = function
| [] -> []
| x :: t -> app (f x) (flat_map f t)

(** val fold_left : ('a1 -> 'a2 -> 'a1) -> 'a2 list -> 'a1 -> 'a1 **)

let rec fold_left f l a0 =
  match l with
  | [] -> a0
  | b0 :: t -> fold_left f t (f a0 b0)

(** val fold_right : ('a2 -> 'a1 -> 'a1) -> 'a1 -> 'a2 list -> 'a1 **)

let rec fold_right f a0 = function
| [] -> a0
| b0 :: t -> f b0 (fold_right f a0 t)

(** val existsb : ('a1 -> bool) -> 'a1 list -> bool **)

let rec existsb f = function
| [] -> false
| a :: l0 -> (||) (f a) (existsb f l0)

(** val forallb : ('a1 -> bool) -> 'a1 list -> bool **)

let rec forallb f = function
| [] -> true
| a :: l0 -> (&&) (f a) (forallb f l0)

(** val filter : ('a1 -> bool) -> 'a1 list -> 'a1 list **)

let rec filter f = function
| [] -> []
| x :: l0 -> if f x then x :: (filter f l0) else filter f l0

(** val firstn : nat -> 'a1 list -> 'a1 list **)

let rec firstn n0 l =
  match n0 with
  | O -> []
  | S n1 -> (match l with
             | [] -> []
             | a :: l0 -> a :: (firstn n1 l0))

(** val skipn : nat -> 'a1 list -> 'a1 list **)

let rec skipn n0 l =
  match n0 with
  | O -> l
  | S n1 -> (match l with
             | [] -> []
             | _ :: l0 -> skipn n1 l0)

(** val seq : nat -> nat -> nat list **)

let rec seq start = function
| O -> []
| S len0 -> start :: (seq (S start) len0)

(** val repeat : 'a1 -> nat -> 'a1 list **)

let rec repeat x = function
| O -> []
| S k -> x :: (repeat x k)

type positive =
| XI of positive
| XO of positive
| XH

type n =
| N0
| Npos of positive

type z =
| Z0
| Zpos of positive
| Zneg of positive

module Pos =
 struct
  type mask =
  | IsNul
  | IsPos of positive
  | IsNeg
 end

module Coq_Pos =
 struct
  (** val succ : positive -> positive **)

  let rec succ = function
  | XI p -> XO (succ p)
  | XO p -> XI p
  | XH -> XO XH

  (** val add : positive -> positive -> positive **)

  let rec add x y =
    match x with
    | XI p ->
      (match y with
       | XI q -> XO (add_carry p q)
       | XO q -> XI (add p q)
       | XH -> XO (succ p))
    | XO p ->
      (match y with
       | XI q -> XI (add p q)
       | XO q -> XO (add p q)
       | XH -> XI p)
    | XH -> (match y with
             | XI q -> XO (succ q)
             | XO q -> XI q
             | XH -> XO XH)

  (** val add_carry : positive -> positive -> positive **)

  and add_carry x y =
    match x with
    | XI p ->
      (match y with
       | XI q -> XI (add_carry p q)
       | XO q -> XO (add_carry p q)
       | XH -> XI (succ p))
    | XO p ->
      (match y with
       | XI q -> XO (add_carry p q)
       | XO q -> XI (add p q)
       | XH -> XO (succ p))
    | XH ->
      (match y with
       | XI q -> XI (succ q)
       | XO q -> XO (succ q)
       | XH -> XI XH)

  (** val pred_double : positive -> positive **)

  let rec pred_double = function
  | XI p -> XI (XO p)
  | XO p -> XI (pred_double p)
  | XH -> XH

  type mask = Pos.mask =
  | IsNul
  | IsPos of positive
  | IsNeg

  (** val succ_double_mask : mask -> mask **)

  let succ_double_mask = function
  | IsNul -> IsPos XH
  | IsPos p -> IsPos (XI p)
  | IsNeg -> IsNeg

  (** val double_mask : mask -> mask **)

  let double_mask = function
  | IsPos p -> IsPos (XO p)
  | x0 -> x0

  (** val double_pred_mask : positive -> mask **)

  let double_pred_mask = function
  | XI p -> IsPos (XO (XO p))
  | XO p -> IsPos (XO (pred_double p))
  | XH -> IsNul

  (** val sub_mask : positive -> positive -> mask **)

  let rec sub_mask x y =
    match x with
    | XI p ->
      (match y with
       | XI q -> double_mask (sub_mask p q)
       | XO q -> succ_double_mask (sub_mask p q)
       | XH -> IsPos (XO p))
    | XO p ->
      (match y with
       | XI q -> succ_double_mask (sub_mask_carry p q)
       | XO q -> double_mask (sub_mask p q)
       | XH -> IsPos (pred_double p))
    | XH -> (match y with
             | XH -> IsNul
             | _ -> IsNeg)

  (** val sub_mask_carry : positive -> positive -> mask **)

  and sub_mask_carry x y =
    match x with
    | XI p ->
      (match y with
       | XI q -> succ_double_mask (sub_mask_carry p q)
       | XO q -> double_mask (sub_mask p q)
       | XH -> IsPos (pred_double p))
    | XO p ->
      (match y with
       | XI q -> double_mask (sub_mask_carry p q)
       | XO q -> succ_double_mask (sub_mask_carry p q)
       | XH -> double_pred_mask p)
    | XH -> IsNeg

  (** val sub : positive -> positive -> positive **)

  let sub x y =
    match sub_mask x y with
    | IsPos z0 -> z0
    | _ -> XH

  (** val mul : positive -> positive -> positive **)

  let rec mul x y =
    match x with
    | XI p -> add y (XO (mul p y))
    | XO p -> XO (mul p y)
    | XH -> y

  (** val iter : ('a1 -> 'a1) -> 'a1 -> positive -> 'a1 **)

  let rec iter f x = function
  | XI n' -> f (iter f (iter f x n') n')
  | XO n' -> iter f (iter f x n') n'
  | XH -> f x

  (** val pow : positive -> positive -> positive **)

  let pow x =
    iter (mul x) XH

  (** val size_nat : positive -> nat **)

  let rec size_nat = function
  | XI p0 -> S (size_nat p0)
  | XO p0 -> S (size_nat p0)
  | XH -> S O

  (** val compare_cont : comparison -> positive -> positive -> comparison **)

  let rec compare_cont r x y =
    match x with
    | XI p ->
      (match y with
       | XI q -> compare_cont r p q
       | XO q -> compare_cont Gt p q
       | XH -> Gt)
    | XO p ->
      (match y with
       | XI q -> compare_cont Lt p q
       | XO q -> compare_cont r p q
       | XH -> Gt)
    | XH -> (match y with
             | XH -> r
             | _ -> Lt)

  (** val compare : positive -> positive -> comparison **)

  let compare =
    compare_cont Eq

  (** val eqb : positive -> positive -> bool **)

  let rec eqb p q =
    match p with
    | XI p0 -> (match q with
                | XI q0 -> eqb p0 q0
                | _ -> false)
    | XO p0 -> (match q with
                | XO q0 -> eqb p0 q0
                | _ -> false)
    | XH -> (match q with
             | XH -> true
             | _ -> false)

  (** val gcdn : nat -> positive -> positive -> positive **)

  let rec gcdn n0 a b0 =
    match n0 with
    | O -> XH
    | S n1 ->
      (match a with
       | XI a' ->
         (match b0 with
          | XI b' ->
            (match compare a' b' with
             | Eq -> a
             | Lt -> gcdn n1 (sub b' a') a
             | Gt -> gcdn n1 (sub a' b') b0)
          | XO b1 -> gcdn n1 a b1
          | XH -> XH)
       | XO a0 ->
         (match b0 with
          | XI _ -> gcdn n1 a0 b0
          | XO b1 -> XO (gcdn n1 a0 b1)
          | XH -> XH)
       | XH -> XH)

  (** val gcd : positive -> positive -> positive **)

  let gcd a b0 =
    gcdn (Coq__1.add (size_nat a) (size_nat b0)) a b0

  (** val iter_op : ('a1 -> 'a1 -> 'a1) -> positive -> 'a1 -> 'a1 **)

  let rec iter_op op p a =
    match p with
    | XI p0 -> op a (iter_op op p0 (op a a))
    | XO p0 -> iter_op op p0 (op a a)
    | XH -> a

  (** val to_nat : positive -> nat **)

  let to_nat x =
    iter_op Coq__1.add x (S O)

  (** val of_succ_nat : nat -> positive **)

  let rec of_succ_nat = function
  | O -> XH
  | S x -> succ (of_succ_nat x)

  (** val eq_dec : positive -> positive -> bool **)

  let rec eq_dec p x0 =
    match p with
    | XI p0 -> (match x0 with
                | XI p1 -> eq_dec p0 p1
                | _ -> false)
    | XO p0 -> (match x0 with
                | XO p1 -> eq_dec p0 p1
                | _ -> false)
    | XH -> (match x0 with
             | XH -> true
             | _ -> false)
 end

module N =
 struct
  (** val succ_double : n -> n **)

  let succ_double = function
  | N0 -> Npos XH
  | Npos p -> Npos (XI p)

  (** val double : n -> n **)

  let double = function
  | N0 -> N0
  | Npos p -> Npos (XO p)

  (** val add : n -> n -> n **)

  let add n0 m =
    match n0 with
    | N0 -> m
    | Npos p -> (match m with
                 | N0 -> n0
                 | Npos q -> Npos (Coq_Pos.add p q))

  (** val sub : n -> n -> n **)

  let sub n0 m =
    match n0 with
    | N0 -> N0
    | Npos n' ->
      (match m with
       | N0 -> n0
       | Npos m' ->
         (match Coq_Pos.sub_mask n' m' with
          | Coq_Pos.IsPos p -> Npos p
          | _ -> N0))

  (** val mul : n -> n -> n **)

  let mul n0 m =
    match n0 with
    | N0 -> N0
    | Npos p -> (match m with
                 | N0 -> N0
                 | Npos q -> Npos (Coq_Pos.mul p q))

  (** val compare : n -> n -> comparison **)

  let compare n0 m =
    match n0 with
    | N0 -> (match m with
             | N0 -> Eq
             | Npos _ -> Lt)
    | Npos n' -> (match m with
                  | N0 -> Gt
                  | Npos m' -> Coq_Pos.compare n' m')

  (** val eqb : n -> n -> bool **)

  let eqb n0 m =
    match n0 with
    | N0 -> (match m with
             | N0 -> true
             | Npos _ -> false)
    | Npos p -> (match m with
                 | N0 -> false
                 | Npos q -> Coq_Pos.eqb p q)

  (** val leb : n -> n -> bool **)

  let leb x y =
    match compare x y with
    | Gt -> false
    | _ -> true

  (** val ltb : n -> n -> bool **)

  let ltb x y =
    match compare x y with
    | Lt -> true
    | _ -> false

  (** val pow : n -> n -> n **)

  let pow n0 = function
  | N0 -> Npos XH
  | Npos p0 -> (match n0 with
                | N0 -> N0
                | Npos q -> Npos (Coq_Pos.pow q p0))

  (** val pos_div_eucl : positive -> n -> n * n **)

  let rec pos_div_eucl a b0 =
    match a with
    | XI a' ->
      let (q, r) = pos_div_eucl a' b0 in
      let r' = succ_double r in
      if leb b0 r' then ((succ_double q), (sub r' b0)) else ((double q), r')
    | XO a' ->
      let (q, r) = pos_div_eucl a' b0 in
      let r' = double r in
      if leb b0 r' then ((succ_double q), (sub r' b0)) else ((double q), r')
    | XH ->
      (match b0 with
       | N0 -> (N0, (Npos XH))
       | Npos p -> (match p with
                    | XH -> ((Npos XH), N0)
                    | _ -> (N0, (Npos XH))))

  (** val div_eucl : n -> n -> n * n **)

  let div_eucl a b0 =
    match a with
    | N0 -> (N0, N0)
    | Npos na -> (match b0 with
                  | N0 -> (N0, a)
                  | Npos _ -> pos_div_eucl na b0)

  (** val div : n -> n -> n **)

  let div a b0 =
    fst (div_eucl a b0)

  (** val modulo : n -> n -> n **)

  let modulo a b0 =
    snd (div_eucl a b0)

  (** val to_nat : n -> nat **)

  let to_nat = function
  | N0 -> O
  | Npos p -> Coq_Pos.to_nat p

  (** val of_nat : nat -> n **)

  let of_nat = function
  | O -> N0
  | S n' -> Npos (Coq_Pos.of_succ_nat n')

  (** val eq_dec : n -> n -> bool **)

  let eq_dec n0 m =
    match n0 with
    | N0 -> (match m with
             | N0 -> true
             | Npos _ -> false)
    | Npos p -> (match m with
                 | N0 -> false
                 | Npos p0 -> Coq_Pos.eq_dec p p0)
 end

module Z =
 struct
  (** val opp : z -> z **)

  let opp = function
  | Z0 -> Z0
  | Zpos x0 -> Zneg x0
  | Zneg x0 -> Zpos x0

  (** val compare : z -> z -> comparison **)

  let compare x y =
    match x with
    | Z0 -> (match y with
             | Z0 -> Eq
             | Zpos _ -> Lt
             | Zneg _ -> Gt)
    | Zpos x' -> (match y with
                  | Zpos y' -> Coq_Pos.compare x' y'
                  | _ -> Gt)
    | Zneg x' ->
      (match y with
       | Zneg y' -> compOpp (Coq_Pos.compare x' y')
       | _ -> Lt)

  (** val leb : z -> z -> bool **)

  let leb x y =
    match compare x y with
    | Gt -> false
    | _ -> true

  (** val eqb : z -> z -> bool **)

  let eqb x y =
    match x with
    | Z0 -> (match y with
             | Z0 -> true
             | _ -> false)
    | Zpos p -> (match y with
                 | Zpos q -> Coq_Pos.eqb p q
                 | _ -> false)
    | Zneg p -> (match y with
                 | Zneg q -> Coq_Pos.eqb p q
                 | _ -> false)

  (** val abs : z -> z **)

  let abs = function
  | Zneg p -> Zpos p
  | x -> x

  (** val abs_N : z -> n **)

  let abs_N = function
  | Z0 -> N0
  | Zpos p -> Npos p
  | Zneg p -> Npos p

  (** val of_N : n -> z **)

  let of_N = function
  | N0 -> Z0
  | Npos p -> Zpos p

  (** val gcd : z -> z -> z **)

  let gcd a b0 =
    match a with
    | Z0 -> abs b0
    | Zpos a0 ->
      (match b0 with
       | Z0 -> abs a
       | Zpos b1 -> Zpos (Coq_Pos.gcd a0 b1)
       | Zneg b1 -> Zpos (Coq_Pos.gcd a0 b1))
    | Zneg a0 ->
      (match b0 with
       | Z0 -> abs a
       | Zpos b1 -> Zpos (Coq_Pos.gcd a0 b1)
       | Zneg b1 -> Zpos (Coq_Pos.gcd a0 b1))
 end

(** val b : n **)

let b =
  Npos (XO (XO (XO (XO (XO (XO (XO (XO (XO (XO (XO (XO (XO (XO (XO (XO (XO
    (XO (XO (XO (XO (XO (XO (XO (XO (XO (XO (XO (XO (XO (XO (XO
    XH))))))))))))))))))))))))))))))))

type big = { bpos : bool; limbs : n list }

(** val lval : n list -> n **)

let rec lval = function
| [] -> N0
| x :: r -> N.add x (N.mul b (lval r))

(** val bval : big -> z **)

let bval a =
  if a.bpos then Z.of_N (lval a.limbs) else Z.opp (Z.of_N (lval a.limbs))

(** val strip : n list -> n list **)

let strip l =
  fold_right (fun x acc ->
    match acc with
    | [] -> if N.eqb x N0 then [] else x :: []
    | _ :: _ -> x :: acc) [] l

(** val shrink : n list -> n list **)

let shrink l =
  match strip l with
  | [] -> (match l with
           | [] -> []
           | _ :: _ -> N0 :: [])
  | n0 :: l0 -> n0 :: l0

(** val normalb : n list -> bool **)

let normalb l =
  (&&)
    ((&&) (forallb (fun x -> N.ltb x b) l)
      (negb (match l with
             | [] -> true
             | _ :: _ -> false)))
    (if list_eq_dec N.eq_dec (shrink l) l then true else false)

(** val wfb : big -> bool **)

let wfb a =
  (&&) (normalb a.limbs)
    (if list_eq_dec N.eq_dec a.limbs (N0 :: []) then a.bpos else true)

(** val carry1 : n list -> n -> n list **)

let rec carry1 a c =
  match a with
  | [] -> c :: []
  | x :: a' ->
    let t = N.add x c in
    if N.leb b t
    then (N.sub t b) :: (carry1 a' (Npos XH))
    else t :: (carry1 a' N0)

(** val add_carry0 : n list -> n list -> n -> n list **)

let rec add_carry0 a b0 c =
  match a with
  | [] -> carry1 b0 c
  | x :: a' ->
    (match b0 with
     | [] -> carry1 a c
     | y :: b' ->
       let t = N.add (N.add x y) c in
       if N.leb b t
       then (N.sub t b) :: (add_carry0 a' b' (Npos XH))
       else t :: (add_carry0 a' b' N0))

(** val add_core : n list -> n list -> n list **)

let add_core a b0 =
  add_carry0 a b0 N0

(** val lt_be : n list -> n list -> bool **)

let rec lt_be a b0 =
  match a with
  | [] -> false
  | x :: a' ->
    (match b0 with
     | [] -> false
     | y :: b' -> if N.eqb x y then lt_be a' b' else N.ltb x y)

(** val less_core : n list -> n list -> bool **)

let less_core l r =
  let a = shrink l in
  let b0 = shrink r in
  if Nat.eqb (length a) (length b0)
  then lt_be (rev a) (rev b0)
  else Nat.ltb (length a) (length b0)

(** val sub_borrow : n list -> n list -> n -> n list **)

let rec sub_borrow a b0 c =
  match a with
  | [] -> c :: []
  | x :: a' ->
    (match b0 with
     | [] ->
       if N.ltb x c
       then (N.sub (N.add x b) c) :: (sub_borrow a' [] (Npos XH))
       else (N.sub x c) :: (sub_borrow a' [] N0)
     | y :: b' ->
       if N.ltb x (N.add y c)
       then (N.sub (N.sub (N.add x b) y) c) :: (sub_borrow a' b' (Npos XH))
       else (N.sub (N.sub x y) c) :: (sub_borrow a' b' N0))

(** val sub_core : n list -> n list -> n list * bool **)

let sub_core l r =
  if less_core l r
  then ((sub_borrow r l N0), true)
  else ((sub_borrow l r N0), false)

(** val row : n -> n list -> n list -> n list **)

let rec row x ys w =
  match ys with
  | [] -> w
  | y :: ys' ->
    (match w with
     | [] -> w
     | w0 :: l ->
       (match l with
        | [] -> w
        | w1 :: ws ->
          let t = N.mul x y in
          let a = N.add w0 (N.modulo t b) in
          let b0 = N.add (N.add w1 (N.div t b)) (N.div a b) in
          (N.modulo a b) :: (row x ys' (b0 :: ws))))

(** val mult_rows : n list -> n list -> n list -> n list **)

let rec mult_rows xs ys w =
  match xs with
  | [] -> w
  | x :: xs' ->
    (match if N.eqb x N0 then w else row x ys w with
     | [] -> []
     | w0 :: w' -> w0 :: (mult_rows xs' ys w'))

(** val mult_acc : n list -> n list -> n list **)

let mult_acc a b0 =
  mult_rows a b0 (repeat N0 (add (add (length a) (length b0)) (S O)))

(** val mult_core : n list -> n list -> n list **)

let mult_core a b0 =
  map (fun x -> N.modulo x b) (mult_acc a b0)

(** val upd : n list -> nat -> (n -> n) -> n list **)

let upd v i f =
  app (firstn i v) (match skipn i v with
                    | [] -> []
                    | x :: r -> (f x) :: r)

(** val div_step : n list -> n list -> n list -> (nat * nat) -> n list **)

let div_step lhs rhs v = function
| (i, j) ->
  let v1 = upd v i (fun x -> N.add x (N.pow (Npos (XO XH)) (N.of_nat j))) in
  if less_core lhs (mult_core v1 rhs)
  then upd v1 i (fun x -> N.sub x (N.pow (Npos (XO XH)) (N.of_nat j)))
  else v1

(** val bits_desc : nat list **)

let bits_desc =
  rev
    (seq O (S (S (S (S (S (S (S (S (S (S (S (S (S (S (S (S (S (S (S (S (S (S
      (S (S (S (S (S (S (S (S (S (S O)))))))))))))))))))))))))))))))))

(** val div_order : nat -> (nat * nat) list **)

let div_order n0 =
  flat_map (fun i -> map (fun j -> (i, j)) bits_desc) (rev (seq O n0))

(** val div_core : n list -> n list -> n list **)

let div_core lhs rhs =
  fold_left (div_step lhs rhs)
    (div_order (Nat.max (length lhs) (length rhs)))
    (repeat N0 (Nat.max (length lhs) (length rhs)))

(** val is_zero : big -> bool **)

let is_zero a =
  if list_eq_dec N.eq_dec a.limbs (N0 :: []) then true else false

(** val from_vec : n list -> big **)

let from_vec v =
  { bpos = true; limbs = (shrink v) }

(** val bminus : big -> big **)

let bminus a =
  if is_zero a then a else { bpos = (negb a.bpos); limbs = a.limbs }

(** val bneg : big -> big **)

let bneg =
  bminus

(** val shrink_big : big -> big **)

let shrink_big a =
  { bpos = a.bpos; limbs = (shrink a.limbs) }

(** val bzero : big **)

let bzero =
  { bpos = true; limbs = (N0 :: []) }

(** val bone : big **)

let bone =
  { bpos = true; limbs = ((Npos XH) :: []) }

(** val flip_if : bool -> big -> big **)

let flip_if b0 a =
  if b0 then bminus a else a

(** val badd : big -> big -> big **)

let badd l r =
  if l.bpos
  then if r.bpos
       then shrink_big (flip_if false (from_vec (add_core l.limbs r.limbs)))
       else let (t, s) = sub_core l.limbs r.limbs in
            shrink_big (flip_if s (from_vec t))
  else if r.bpos
       then let (t, s) = sub_core l.limbs r.limbs in
            shrink_big (flip_if (xorb s true) (from_vec t))
       else shrink_big (flip_if true (from_vec (add_core l.limbs r.limbs)))

(** val bsub : big -> big -> big **)

let bsub l r =
  if l.bpos
  then if r.bpos
       then let (t, s) = sub_core l.limbs r.limbs in
            shrink_big (flip_if s (from_vec t))
       else shrink_big (flip_if false (from_vec (add_core l.limbs r.limbs)))
  else if r.bpos
       then shrink_big (flip_if true (from_vec (add_core l.limbs r.limbs)))
       else let (t, s) = sub_core l.limbs r.limbs in
            shrink_big (flip_if (xorb s true) (from_vec t))

(** val bmul : big -> big -> big **)

let bmul l r =
  flip_if (xorb l.bpos r.bpos) (from_vec (mult_core l.limbs r.limbs))

(** val bdiv : big -> big -> big **)

let bdiv l r =
  flip_if (xorb l.bpos r.bpos) (from_vec (div_core l.limbs r.limbs))

(** val brem : big -> big -> big **)

let brem l r =
  bsub l (bmul (bdiv l r) r)

(** val beq : big -> big -> bool **)

let beq a b0 =
  if (&&) (is_zero a) (is_zero b0)
  then true
  else (&&) (eqb a.bpos b0.bpos)
         (if list_eq_dec N.eq_dec a.limbs b0.limbs then true else false)

(** val bcmp : big -> big -> comparison **)

let bcmp a b0 =
  if beq a b0
  then Eq
  else if if a.bpos
          then if b0.bpos then less_core a.limbs b0.limbs else false
          else if b0.bpos then true else less_core b0.limbs a.limbs
       then Lt
       else Gt

(** val gcd_fuel : nat -> big -> big -> big option **)

let rec gcd_fuel fuel a b0 =
  match fuel with
  | O -> None
  | S f -> if is_zero b0 then Some a else gcd_fuel f b0 (brem a b0)

(** val gcd_bound : big -> nat **)

let gcd_bound b0 =
  add
    (mul (S (S (S (S (S (S (S (S (S (S (S (S (S (S (S (S (S (S (S (S (S (S (S
      (S (S (S (S (S (S (S (S (S (S (S (S (S (S (S (S (S (S (S (S (S (S (S (S
      (S (S (S (S (S (S (S (S (S (S (S (S (S (S (S (S (S
      O))))))))))))))))))))))))))))))))))))))))))))))))))))))))))))))))
      (length b0.limbs)) (S (S O))

(** val bgcd : big -> big -> big option **)

let bgcd a b0 =
  gcd_fuel (gcd_bound b0) a b0

(** val to_limbs : nat -> n -> n list **)

let rec to_limbs fuel m =
  match fuel with
  | O -> []
  | S f ->
    (N.modulo m b) :: (if N.eqb (N.div m b) N0
                       then []
                       else to_limbs f (N.div m b))

(** val bnew : z -> big **)

let bnew n0 =
  { bpos = (Z.leb Z0 n0); limbs = (to_limbs (S (S (S (S O)))) (Z.abs_N n0)) }

(** val new_pre_fix : z -> big **)

let new_pre_fix n0 =
  { bpos = (Z.leb Z0 n0); limbs = ((N.modulo (Z.abs_N n0) b) :: []) }

(** val to_int : big -> n **)

let to_int a =
  hd N0 a.limbs

type num = { up : big; down : big }

(** val nan : num **)

let nan =
  { up = bone; down = bzero }

(** val from_num : z -> num **)

let from_num n0 =
  { up = (bnew n0); down = bone }

(** val is_nan : num -> bool **)

let is_nan n0 =
  is_zero n0.down

(** val is_pos : num -> bool **)

let is_pos n0 =
  (&&) n0.up.bpos (negb (is_nan n0))

(** val gcd_total : big -> big -> big **)

let gcd_total a b0 =
  match bgcd a b0 with
  | Some g -> g
  | None -> bzero

(** val optimize : num -> num **)

let optimize n0 =
  let g = gcd_total n0.up n0.down in
  let u = bdiv n0.up g in
  let d = bdiv n0.down g in
  if d.bpos
  then { up = u; down = d }
  else { up = (bminus u); down = (bminus d) }

(** val optimize_pre_fix : num -> num **)

let optimize_pre_fix n0 =
  let g = gcd_total n0.up n0.down in
  { up = (bdiv n0.up g); down = (bdiv n0.down g) }

(** val from_big_num : big -> big -> num **)

let from_big_num u d =
  optimize { up = u; down = d }

(** val nnew : z -> z -> num **)

let nnew u d =
  optimize { up = (bnew u); down = (bnew d) }

(** val nminus : num -> num **)

let nminus n0 =
  { up = (bminus n0.up); down = n0.down }

(** val nneg : num -> num **)

let nneg n0 =
  { up = (bneg n0.up); down = n0.down }

(** val nflip : num -> num **)

let nflip n0 =
  if is_nan n0
  then n0
  else let u = n0.down in
       let d = n0.up in
       if d.bpos
       then { up = u; down = d }
       else { up = (bminus u); down = (bminus d) }

(** val nadd : num -> num -> num **)

let nadd l r =
  if (||) (is_nan l) (is_nan r)
  then nan
  else optimize { up = (badd (bmul l.up r.down) (bmul l.down r.up)); down =
         (bmul l.down r.down) }

(** val nmul : num -> num -> num **)

let nmul l r =
  if (||) (is_nan l) (is_nan r)
  then nan
  else optimize { up = (bmul l.up r.up); down = (bmul l.down r.down) }

(** val floor : num -> big **)

let floor n0 =
  if beq n0.down bone then n0.up else bdiv n0.up n0.down

(** val neq : num -> num -> bool **)

let neq a b0 =
  (&&) (beq a.up b0.up) (beq a.down b0.down)

(** val ncmp : num -> num -> comparison option **)

let ncmp a b0 =
  if (||) (is_nan a) (is_nan b0)
  then None
  else if neq a b0
       then Some Eq
       else (match bcmp (bmul a.up b0.down) (bmul a.down b0.up) with
             | Eq -> Some Gt
             | x -> Some x)

(** val ncmp_pre_fix : num -> num -> comparison option **)

let ncmp_pre_fix a b0 =
  if (||) (is_nan a) (is_nan b0)
  then None
  else if neq a b0
       then Some Eq
       else (match bcmp (bmul a.up b0.down) (bmul a.down b0.down) with
             | Eq -> Some Gt
             | x -> Some x)

(** val wfnb : num -> bool **)

let wfnb n0 =
  (&&) ((&&) ((&&) (wfb n0.up) (wfb n0.down)) n0.down.bpos)
    (if Z.eqb (bval n0.down) Z0
     then Z.eqb (Z.abs (bval n0.up)) (Zpos XH)
     else Z.eqb (Z.gcd (bval n0.up) (bval n0.down)) (Zpos XH))

(** val nAN_TEXT : n list **)

let nAN_TEXT =
  (Npos (XO (XO (XO (XI (XO (XO (XO (XO (XI (XO (XO (XO (XI (XI (XO
    XH)))))))))))))))) :: ((Npos (XO (XO (XI (XO (XI (XI (XO (XO (XI (XI (XO
    (XI (XI (XI (XO XH)))))))))))))))) :: ((Npos (XO (XO (XO (XO (XO
    XH)))))) :: ((Npos (XO (XO (XI (XO (XO (XI (XI (XI (XO (XI (XI (XI (XO
    (XO (XI XH)))))))))))))))) :: ((Npos (XI (XI (XI (XO (XO (XO (XI (XI (XI
    (XO (XI (XO (XO (XO (XI XH)))))))))))))))) :: ((Npos (XO (XI (XI (XI (XO
    XH)))))) :: ((Npos (XO (XI (XI (XI (XO XH)))))) :: ((Npos (XO (XI (XI (XI
    (XO XH)))))) :: [])))))))

(** val cH_MINUS : n **)

let cH_MINUS =
  Npos (XI (XO (XI (XI (XO XH)))))

(** val cH_SLASH : n **)

let cH_SLASH =
  Npos (XI (XI (XI (XI (XO XH)))))

(** val digit_char : n -> n **)

let digit_char d =
  if N.ltb d (Npos (XO (XI (XO XH))))
  then N.add (Npos (XO (XO (XO (XO (XI XH)))))) d
  else N.sub (N.add (Npos (XI (XO (XO (XO (XO (XO XH))))))) d) (Npos (XO (XI
         (XO XH))))

type tsr =
| TSBase
| TSFuel
| TSOk of n list

(** val digits_fuel : nat -> big -> big -> n list option **)

let rec digits_fuel fuel num0 base =
  match fuel with
  | O -> None
  | S f ->
    if is_zero num0
    then Some []
    else (match digits_fuel f (bdiv num0 base) base with
          | Some r -> Some ((digit_char (to_int (brem num0 base))) :: r)
          | None -> None)

(** val ts_bound : big -> nat **)

let ts_bound a =
  add
    (mul (S (S (S (S (S (S (S (S (S (S (S (S (S (S (S (S (S (S (S (S (S (S (S
      (S (S (S (S (S (S (S (S (S O))))))))))))))))))))))))))))))))
      (length a.limbs)) (S O)

(** val to_string_base : big -> n -> tsr **)

let to_string_base a base =
  if negb
       ((&&) (N.leb (Npos XH) base)
         (N.leb base (Npos (XO (XO (XI (XO (XO XH))))))))
  then TSBase
  else (match digits_fuel (ts_bound a) { bpos = true; limbs = a.limbs }
                (bnew (Z.of_N base)) with
        | Some ds ->
          let ds0 =
            match ds with
            | [] -> (Npos (XO (XO (XO (XO (XI XH)))))) :: []
            | _ :: _ -> ds
          in
          TSOk (rev (if a.bpos then ds0 else app ds0 (cH_MINUS :: [])))
        | None -> TSFuel)

(** val big_display : big -> n list **)

let big_display a =
  match to_string_base a (Npos (XO (XI (XO XH)))) with
  | TSOk s -> s
  | _ -> []

type fsr =
| FSBase
| FSParse
| FSOk of big

(** val digit_val : n -> n option **)

let digit_val c =
  if (&&) (N.leb (Npos (XO (XO (XO (XO (XI XH)))))) c)
       (N.leb c (Npos (XI (XO (XO (XI (XI XH)))))))
  then Some (N.sub c (Npos (XO (XO (XO (XO (XI XH)))))))
  else if (&&) (N.leb (Npos (XI (XO (XO (XO (XO (XO XH))))))) c)
            (N.leb c (Npos (XO (XI (XO (XI (XI (XO XH))))))))
       then Some
              (N.add (N.sub c (Npos (XI (XO (XO (XO (XO (XO XH)))))))) (Npos
                (XO (XI (XO XH)))))
       else None

(** val horner : big -> n list -> big -> big option **)

let rec horner base s acc =
  match s with
  | [] -> Some acc
  | c :: r ->
    (match digit_val c with
     | Some k -> horner base r (badd (bmul acc base) (bnew (Z.of_N k)))
     | None -> None)

(** val from_string_base : n list -> n -> fsr **)

let from_string_base s base =
  if negb
       ((&&) (N.leb (Npos XH) base)
         (N.leb base (Npos (XO (XO (XI (XO (XO XH))))))))
  then FSBase
  else (match s with
        | [] ->
          let flip = false in
          (match horner (bnew (Z.of_N base)) s (bnew Z0) with
           | Some res0 ->
             FSOk
               (if flip then { bpos = false; limbs = res0.limbs } else res0)
           | None -> FSParse)
        | c :: r ->
          if N.eqb c cH_MINUS
          then let flip = true in
               (match horner (bnew (Z.of_N base)) r (bnew Z0) with
                | Some res0 ->
                  FSOk
                    (if flip
                     then { bpos = false; limbs = res0.limbs }
                     else res0)
                | None -> FSParse)
          else let flip = false in
               (match horner (bnew (Z.of_N base)) s (bnew Z0) with
                | Some res0 ->
                  FSOk
                    (if flip
                     then { bpos = false; limbs = res0.limbs }
                     else res0)
                | None -> FSParse))

(** val num_display : num -> n list **)

let num_display n0 =
  if is_nan n0
  then nAN_TEXT
  else if beq n0.down bone
       then big_display n0.up
       else app (big_display n0.up)
              (app (cH_SLASH :: []) (big_display n0.down))

(** val split_slash : n list -> n list -> n list list **)

let rec split_slash s cur =
  match s with
  | [] -> (rev cur) :: []
  | c :: r ->
    if N.eqb c cH_SLASH
    then (rev cur) :: (split_slash r [])
    else split_slash r (c :: cur)

(** val num_from_string : n list -> num option **)

let num_from_string s =
  if list_eq_dec N.eq_dec s nAN_TEXT
  then Some nan
  else (match s with
        | [] ->
          let ng = false in
          let parts = split_slash s [] in
          let res0 =
            match parts with
            | [] -> None
            | a :: l ->
              (match l with
               | [] ->
                 (match from_string_base a (Npos (XO (XI (XO XH)))) with
                  | FSBase -> None
                  | FSParse -> None
                  | FSOk u -> Some (from_big_num u bone))
               | b0 :: _ ->
                 (match from_string_base a (Npos (XO (XI (XO XH)))) with
                  | FSOk u ->
                    (match from_string_base b0 (Npos (XO (XI (XO XH)))) with
                     | FSOk d -> Some (from_big_num u d)
                     | _ -> None)
                  | _ -> None))
          in
          (match res0 with
           | Some r -> Some (if ng then nminus r else r)
           | None -> None)
        | c :: r ->
          if N.eqb c cH_MINUS
          then let ng = true in
               let parts = split_slash r [] in
               let res0 =
                 match parts with
                 | [] -> None
                 | a :: l ->
                   (match l with
                    | [] ->
                      (match from_string_base a (Npos (XO (XI (XO XH)))) with
                       | FSBase -> None
                       | FSParse -> None
                       | FSOk u -> Some (from_big_num u bone))
                    | b0 :: _ ->
                      (match from_string_base a (Npos (XO (XI (XO XH)))) with
                       | FSOk u ->
                         (match from_string_base b0 (Npos (XO (XI (XO XH)))) with
                          | FSOk d -> Some (from_big_num u d)
                          | _ -> None)
                       | _ -> None))
               in
               (match res0 with
                | Some r0 -> Some (if ng then nminus r0 else r0)
                | None -> None)
          else let ng = false in
               let parts = split_slash s [] in
               let res0 =
                 match parts with
                 | [] -> None
                 | a :: l ->
                   (match l with
                    | [] ->
                      (match from_string_base a (Npos (XO (XI (XO XH)))) with
                       | FSBase -> None
                       | FSParse -> None
                       | FSOk u -> Some (from_big_num u bone))
                    | b0 :: _ ->
                      (match from_string_base a (Npos (XO (XI (XO XH)))) with
                       | FSOk u ->
                         (match from_string_base b0 (Npos (XO (XI (XO XH)))) with
                          | FSOk d -> Some (from_big_num u d)
                          | _ -> None)
                       | _ -> None))
               in
               (match res0 with
                | Some r0 -> Some (if ng then nminus r0 else r0)
                | None -> None))

(** val index_from : n -> n list -> n -> n option **)

let rec index_from c l i =
  match l with
  | [] -> None
  | x :: r -> if N.eqb x c then Some i else index_from c r (N.add i (Npos XH))

(** val index_of : n -> n list -> n option **)

let index_of c l =
  index_from c l N0

(** val sINGLE : n list **)

let sINGLE =
  (Npos (XI (XO (XI (XO (XI (XO (XO (XO (XO (XI (XI (XO (XI (XO (XI
    XH)))))))))))))))) :: ((Npos (XI (XO (XI (XI (XO (XI (XI (XO (XI (XO (XI
    (XO (XI (XO (XI XH)))))))))))))))) :: ((Npos (XI (XI (XO (XI (XO (XI (XI
    (XO (XI (XO (XI (XO (XI (XO (XI XH)))))))))))))))) :: ((Npos (XI (XI (XO
    (XO (XO (XI (XI (XO (XI (XI (XI (XO (XI (XO (XI
    XH)))))))))))))))) :: ((Npos (XI (XO (XO (XO (XO (XI (XI (XO (XI (XI (XI
    (XO (XI (XO (XI XH)))))))))))))))) :: ((Npos (XI (XO (XO (XO (XI (XO (XI
    (XO (XI (XI (XI (XO (XI (XO (XI XH)))))))))))))))) :: [])))))

(** val sTART : n list **)

let sTART =
  (Npos (XO (XO (XO (XO (XO (XO (XO (XO (XO (XI (XI (XO (XI (XO (XI
    XH)))))))))))))))) :: ((Npos (XO (XO (XO (XI (XI (XO (XI (XO (XI (XO (XI
    (XO (XI (XO (XI XH)))))))))))))))) :: ((Npos (XO (XO (XO (XO (XI (XO (XI
    (XO (XI (XI (XI (XO (XI (XO (XI XH)))))))))))))))) :: []))

(** val hEARTS : n list **)

let hEARTS =
  (Npos (XI (XO (XI (XO (XO (XI (XI (XO (XO (XI (XI (XO (XO
    XH)))))))))))))) :: ((Npos (XO (XO (XI (XO (XO (XI (XI (XO (XI (XI (XI
    (XO (XO XH)))))))))))))) :: ((Npos (XI (XO (XI (XO (XI (XO (XO (XI (XO
    (XO (XI (XO (XI (XI (XI (XI XH))))))))))))))))) :: ((Npos (XO (XI (XI (XO
    (XI (XO (XO (XI (XO (XO (XI (XO (XI (XI (XI (XI
    XH))))))))))))))))) :: ((Npos (XI (XI (XI (XO (XI (XO (XO (XI (XO (XO (XI
    (XO (XI (XI (XI (XI XH))))))))))))))))) :: ((Npos (XO (XO (XO (XI (XI (XO
    (XO (XI (XO (XO (XI (XO (XI (XI (XI (XI XH))))))))))))))))) :: ((Npos (XI
    (XO (XO (XI (XI (XO (XO (XI (XO (XO (XI (XO (XI (XI (XI (XI
    XH))))))))))))))))) :: ((Npos (XO (XI (XO (XI (XI (XO (XO (XI (XO (XO (XI
    (XO (XI (XI (XI (XI XH))))))))))))))))) :: ((Npos (XI (XI (XO (XI (XI (XO
    (XO (XI (XO (XO (XI (XO (XI (XI (XI (XI XH))))))))))))))))) :: ((Npos (XO
    (XO (XI (XI (XI (XO (XO (XI (XO (XO (XI (XO (XI (XI (XI (XI
    XH))))))))))))))))) :: ((Npos (XI (XO (XI (XI (XI (XO (XO (XI (XO (XO (XI
    (XO (XI (XI (XI (XI XH))))))))))))))))) :: ((Npos (XI (XO (XO (XO (XO (XI
    (XI (XO (XO (XI (XI (XO (XO XH)))))))))))))) :: [])))))))))))

(** val cH_Q : n **)

let cH_Q =
  Npos (XI (XI (XI (XI (XI XH)))))

(** val cH_BANG : n **)

let cH_BANG =
  Npos (XI (XO (XO (XO (XO XH)))))

(** val cH_US : n **)

let cH_US =
  Npos (XI (XI (XI (XI (XI (XO XH))))))

(** val cH_LB : n **)

let cH_LB =
  Npos (XI (XI (XO (XI (XI (XO XH))))))

(** val cH_RB : n **)

let cH_RB =
  Npos (XI (XO (XI (XI (XI (XO XH))))))

(** val cH_NL : n **)

let cH_NL =
  Npos (XO (XI (XO XH)))

(** val is_dot : n -> bool **)

let is_dot c =
  (||)
    ((||)
      ((||) (N.eqb c (Npos (XO (XI (XI (XI (XO XH)))))))
        (N.eqb c (Npos (XO (XI (XI (XO (XO (XI (XO (XO (XO (XO (XO (XO (XO
          XH))))))))))))))))
      (N.eqb c (Npos (XI (XI (XI (XI (XO (XI (XI (XI (XO (XI (XO (XO (XO
        XH))))))))))))))))
    (N.eqb c (Npos (XO (XI (XI (XI (XO (XI (XI (XI (XO (XI (XO (XO (XO
      XH)))))))))))))))

(** val dot_val : n -> n **)

let dot_val c =
  if N.eqb c (Npos (XO (XI (XI (XI (XO XH)))))) then Npos XH else Npos (XI XH)

(** val is_hangul : n -> bool **)

let is_hangul c =
  (&&)
    (N.leb (Npos (XO (XO (XO (XO (XO (XO (XO (XO (XO (XO (XI (XI (XO (XI (XO
      XH)))))))))))))))) c)
    (N.leb c (Npos (XI (XI (XO (XO (XO (XI (XO (XI (XI (XI (XI (XO (XI (XO
      (XI XH)))))))))))))))))

(** val is_ws : n -> bool **)

let is_ws c =
  (||)
    ((||)
      ((||)
        ((||)
          ((||)
            ((||)
              ((||)
                ((||)
                  ((||)
                    ((||)
                      ((&&) (N.leb (Npos (XI (XO (XO XH)))) c)
                        (N.leb c (Npos (XI (XO (XI XH))))))
                      (N.eqb c (Npos (XO (XO (XO (XO (XO XH))))))))
                    (N.eqb c (Npos (XI (XO (XI (XO (XO (XO (XO XH))))))))))
                  (N.eqb c (Npos (XO (XO (XO (XO (XO (XI (XO XH))))))))))
                (N.eqb c (Npos (XO (XO (XO (XO (XO (XO (XO (XI (XO (XI (XI
                  (XO XH)))))))))))))))
              ((&&)
                (N.leb (Npos (XO (XO (XO (XO (XO (XO (XO (XO (XO (XO (XO (XO
                  (XO XH)))))))))))))) c)
                (N.leb c (Npos (XO (XI (XO (XI (XO (XO (XO (XO (XO (XO (XO
                  (XO (XO XH)))))))))))))))))
            (N.eqb c (Npos (XO (XO (XO (XI (XO (XI (XO (XO (XO (XO (XO (XO
              (XO XH))))))))))))))))
          (N.eqb c (Npos (XI (XO (XO (XI (XO (XI (XO (XO (XO (XO (XO (XO (XO
            XH))))))))))))))))
        (N.eqb c (Npos (XI (XI (XI (XI (XO (XI (XO (XO (XO (XO (XO (XO (XO
          XH))))))))))))))))
      (N.eqb c (Npos (XI (XI (XI (XI (XI (XO (XI (XO (XO (XO (XO (XO (XO
        XH))))))))))))))))
    (N.eqb c (Npos (XO (XO (XO (XO (XO (XO (XO (XO (XO (XO (XO (XO (XI
      XH)))))))))))))))

(** val end_class : n -> n option **)

let end_class c =
  if N.eqb c (Npos (XI (XO (XO (XI (XO (XO (XI (XI (XI (XO (XI (XO (XO (XO
       (XI XH))))))))))))))))
  then Some N0
  else if (||)
            (N.eqb c (Npos (XI (XO (XO (XI (XI (XO (XI (XO (XI (XO (XI (XO
              (XO (XO (XI XH)))))))))))))))))
            (N.eqb c (Npos (XI (XI (XI (XO (XI (XO (XI (XO (XI (XO (XI (XO
              (XO (XO (XI XH)))))))))))))))))
       then Some (Npos XH)
       else if (||)
                 ((||)
                   (N.eqb c (Npos (XI (XI (XI (XI (XO (XO (XI (XO (XI (XI (XI
                     (XO (XO (XO (XI XH)))))))))))))))))
                   (N.eqb c (Npos (XI (XO (XI (XI (XO (XO (XI (XO (XI (XI (XI
                     (XO (XO (XO (XI XH))))))))))))))))))
                 (N.eqb c (Npos (XI (XO (XI (XI (XI (XI (XO (XO (XI (XI (XI
                   (XO (XO (XO (XI XH)))))))))))))))))
            then Some (Npos (XO XH))
            else None

(** val end_kind : n -> n option **)

let end_kind c =
  if N.eqb c (Npos (XI (XO (XO (XI (XO (XO (XI (XI (XI (XO (XI (XO (XO (XO
       (XI XH))))))))))))))))
  then Some N0
  else if N.eqb c (Npos (XI (XO (XO (XI (XI (XO (XI (XO (XI (XO (XI (XO (XO
            (XO (XI XH))))))))))))))))
       then Some (Npos XH)
       else if N.eqb c (Npos (XI (XI (XI (XO (XI (XO (XI (XO (XI (XO (XI (XO
                 (XO (XO (XI XH))))))))))))))))
            then Some (Npos (XO XH))
            else if N.eqb c (Npos (XI (XI (XI (XI (XO (XO (XI (XO (XI (XI (XI
                      (XO (XO (XO (XI XH))))))))))))))))
                 then Some (Npos (XI XH))
                 else if N.eqb c (Npos (XI (XO (XI (XI (XO (XO (XI (XO (XI
                           (XI (XI (XO (XO (XO (XI XH))))))))))))))))
                      then Some (Npos (XO (XO XH)))
                      else if N.eqb c (Npos (XI (XO (XI (XI (XI (XI (XO (XO
                                (XI (XI (XI (XO (XO (XO (XI XH))))))))))))))))
                           then Some (Npos (XI (XO XH)))
                           else None

(** val class_of_kind : n -> n **)

let class_of_kind k =
  if N.eqb k N0
  then N0
  else if N.leb k (Npos (XO XH)) then Npos XH else Npos (XO XH)

(** val area_char : n -> n **)

let area_char t =
  nth (N.to_nat t) (app (cH_Q :: (cH_BANG :: [])) hEARTS) N0

type area =
| Nil
| Val of n * area * area

(** val leafA : n -> area **)

let leafA t =
  Val (t, Nil, Nil)

type slot = n option

(** val slotA : slot -> area **)

let slotA = function
| Some t -> leafA t
| None -> Nil

type bangz = { closed : slot list; curslot : slot }

(** val bang_tree : slot list -> slot -> area **)

let rec bang_tree cl last0 =
  match cl with
  | [] -> slotA last0
  | s :: r -> Val ((Npos XH), (slotA s), (bang_tree r last0))

(** val bangA : bangz -> area **)

let bangA b0 =
  bang_tree b0.closed b0.curslot

(** val bang0 : bangz **)

let bang0 =
  { closed = []; curslot = None }

(** val qu_tree : area list -> area -> area **)

let rec qu_tree qs last0 =
  match qs with
  | [] -> last0
  | a :: r -> Val (N0, a, (qu_tree r last0))

type ucode = { ty : n; hc : n; dc : n; loc : (n * n); ar : area; raw : n list }

type pst = { res : ucode list; type_ : n; hangul : n; dots : n;
             cloc : (n * n); st : n; bz : bangz; qz : area list; line : 
             n; line_start : n; rawc : n list }

(** val pst0 : pst **)

let pst0 =
  { res = []; type_ = (Npos (XO (XI (XO XH)))); hangul = N0; dots = N0;
    cloc = ((Npos XH), N0); st = N0; bz = bang0; qz = []; line = N0;
    line_start = N0; rawc = [] }

(** val finish : pst -> area **)

let finish s =
  qu_tree (rev s.qz) (bangA s.bz)

(** val flush : pst -> ucode list **)

let flush s =
  if N.eqb s.type_ (Npos (XO (XI (XO XH))))
  then s.res
  else { ty = s.type_; hc = s.hangul; dc = s.dots; loc = s.cloc; ar =
         (finish s); raw = (rev s.rawc) } :: s.res

(** val max_pos : n list -> n -> ((n * n) * n) -> (n * n) * n **)

let rec max_pos l i m =
  match l with
  | [] -> m
  | c :: r ->
    let (p, d) = m in
    let (a, b0) = p in
    max_pos r (N.add i (Npos XH))
      (match end_class c with
       | Some k ->
         if N.eqb k N0
         then ((i, b0), d)
         else if N.eqb k (Npos XH) then ((a, i), d) else ((a, b0), i)
       | None -> m)

(** val mp_get : ((n * n) * n) -> n -> n **)

let mp_get m k =
  let (p, d) = m in
  let (a, b0) = p in
  if N.eqb k N0 then a else if N.eqb k (Npos XH) then b0 else d

(** val step : bool -> ((n * n) * n) -> pst -> n -> n -> pst **)

let step bug mp s i c =
  if is_ws c
  then if N.eqb c cH_NL
       then { res = s.res; type_ = s.type_; hangul = s.hangul; dots = s.dots;
              cloc = s.cloc; st = s.st; bz = s.bz; qz = s.qz; line =
              (N.add s.line (Npos XH)); line_start = (N.add i (Npos XH));
              rawc = s.rawc }
       else s
  else if N.eqb s.st (Npos XH)
       then let h = is_hangul c in
            let hangul' = if h then N.add s.hangul (Npos XH) else s.hangul in
            let raw' = if h then c :: s.rawc else s.rawc in
            let fin =
              match end_kind c with
              | Some k ->
                if N.eqb (N.add (class_of_kind k) (Npos (XO (XI XH)))) s.type_
                then Some k
                else None
              | None -> None
            in
            (match fin with
             | Some t ->
               { res = s.res; type_ = t; hangul = hangul'; dots = N0; cloc =
                 s.cloc; st = N0; bz = s.bz; qz = s.qz; line = s.line;
                 line_start = s.line_start; rawc = raw' }
             | None ->
               { res = s.res; type_ = s.type_; hangul = hangul'; dots =
                 s.dots; cloc = s.cloc; st = (Npos XH); bz = s.bz; qz = s.qz;
                 line = s.line; line_start = s.line_start; rawc = raw' })
       else let start = fun t ->
              let fl = negb (N.eqb s.type_ (Npos (XO (XI (XO XH))))) in
              let reset = (||) fl (negb bug) in
              { res = (flush s); type_ = t; hangul = (Npos XH); dots = N0;
              cloc = ((N.add s.line (Npos XH)), (N.sub i s.line_start)); st =
              (if N.ltb t (Npos (XO (XI XH))) then N0 else Npos XH); bz =
              (if reset then bang0 else s.bz); qz =
              (if reset then [] else s.qz); line = s.line; line_start =
              s.line_start; rawc = (c :: []) }
            in
            (match index_of c sINGLE with
             | Some k -> start k
             | None ->
               (match index_of c sTART with
                | Some k ->
                  if N.leb (mp_get mp k) i
                  then s
                  else start (N.add k (Npos (XO (XI XH))))
                | None ->
                  if is_dot c
                  then if N.eqb s.st N0
                       then { res = s.res; type_ = s.type_; hangul =
                              s.hangul; dots = (N.add s.dots (dot_val c));
                              cloc = s.cloc; st = N0; bz = s.bz; qz = s.qz;
                              line = s.line; line_start = s.line_start;
                              rawc = (c :: s.rawc) }
                       else s
                  else if N.eqb c cH_Q
                       then { res = s.res; type_ = s.type_; hangul =
                              s.hangul; dots = s.dots; cloc = s.cloc; st =
                              (Npos (XO XH)); bz = bang0; qz =
                              ((bangA s.bz) :: s.qz); line = s.line;
                              line_start = s.line_start; rawc =
                              (c :: s.rawc) }
                       else if N.eqb c cH_BANG
                            then { res = s.res; type_ = s.type_; hangul =
                                   s.hangul; dots = s.dots; cloc = s.cloc;
                                   st = (Npos (XO XH)); bz = { closed =
                                   (app s.bz.closed (s.bz.curslot :: []));
                                   curslot = None }; qz = s.qz; line =
                                   s.line; line_start = s.line_start; rawc =
                                   (c :: s.rawc) }
                            else (match index_of c hEARTS with
                                  | Some k ->
                                    { res = s.res; type_ = s.type_; hangul =
                                      s.hangul; dots = s.dots; cloc = s.cloc;
                                      st = (Npos (XO XH)); bz = { closed =
                                      s.bz.closed; curslot =
                                      (match s.bz.curslot with
                                       | Some n0 -> Some n0
                                       | None -> Some (N.add k (Npos (XO XH)))) };
                                      qz = s.qz; line = s.line; line_start =
                                      s.line_start; rawc = (c :: s.rawc) }
                                  | None -> s)))

(** val run : bool -> ((n * n) * n) -> n list -> n -> pst -> pst **)

let rec run bug mp l i s =
  match l with
  | [] -> s
  | c :: r -> run bug mp r (N.add i (Npos XH)) (step bug mp s i c)

(** val parse_gen : bool -> n list -> ucode list **)

let parse_gen bug l =
  rev (flush (run bug (max_pos l N0 ((N0, N0), N0)) l N0 pst0))

(** val parse : n list -> ucode list **)

let parse =
  parse_gen false

(** val parse_pre_fix : n list -> ucode list **)

let parse_pre_fix =
  parse_gen true

(** val area_debug : area -> n list **)

let rec area_debug = function
| Nil -> cH_US :: []
| Val (t, l, r) ->
  (area_char t) :: (if N.leb t (Npos XH)
                    then app (area_debug l) (area_debug r)
                    else [])

(** val area_display : area -> n list **)

let rec area_display = function
| Nil -> cH_US :: []
| Val (t, l, r) ->
  if N.leb t (Npos XH)
  then app (cH_LB :: [])
         (app (area_display l)
           (app (cH_RB :: [])
             (app ((area_char t) :: [])
               (app (cH_LB :: []) (app (area_display r) (cH_RB :: []))))))
  else (area_char t) :: []

(** val later_end : n -> n list -> bool **)

let later_end k rest =
  existsb (fun c ->
    match end_class c with
    | Some j -> N.eqb j k
    | None -> false) rest

(** val starts : n -> n list -> bool **)

let starts c rest =
  match index_of c sINGLE with
  | Some _ -> true
  | None ->
    (match index_of c sTART with
     | Some k -> later_end k rest
     | None -> false)

(** val is_heart : n -> bool **)

let is_heart c =
  match index_of c hEARTS with
  | Some _ -> true
  | None -> false

(** val is_areach : n -> bool **)

let is_areach c =
  (||) ((||) (N.eqb c cH_Q) (N.eqb c cH_BANG)) (is_heart c)

(** val split_on : n -> n list -> n list -> n list list **)

let rec split_on sep l cur =
  match l with
  | [] -> (rev cur) :: []
  | c :: r ->
    if N.eqb c sep
    then (rev cur) :: (split_on sep r [])
    else split_on sep r (c :: cur)

(** val slot_of : n list -> slot **)

let rec slot_of = function
| [] -> None
| c :: r ->
  (match index_of c hEARTS with
   | Some k -> Some (N.add k (Npos (XO XH)))
   | None -> slot_of r)

(** val bang_of : n list -> area **)

let bang_of seg =
  let slots = map slot_of (split_on cH_BANG seg []) in
  bang_tree (removelast slots) (last slots None)

(** val area_of : n list -> area **)

let area_of toks =
  let bangs = map bang_of (split_on cH_Q toks []) in
  qu_tree (removelast bangs) (last bangs Nil)

type head =
| HSingle of n
| HMulti of n * n list * n

type ccmd = { chead : head; cdotitems : n list; careaitems : n list }

type cst = { cprefix : n list; ccmds : ccmd list }

(** val flat_head : head -> n list **)

let flat_head = function
| HSingle c -> c :: []
| HMulti (s, inner, e) -> s :: (app inner (e :: []))

(** val flat_cmd : ccmd -> n list **)

let flat_cmd c =
  app (flat_head c.chead) (app c.cdotitems c.careaitems)

(** val flat_cmds : ccmd list -> n list **)

let flat_cmds cs =
  flat_map flat_cmd cs

(** val flatten : cst -> n list **)

let flatten t =
  app t.cprefix (flat_cmds t.ccmds)

(** val all_ctx : (n -> n list -> bool) -> n list -> n list -> bool **)

let rec all_ctx p items after =
  match items with
  | [] -> true
  | x :: r -> (&&) (p x (app r after)) (all_ctx p r after)

(** val valid_head : head -> bool **)

let valid_head = function
| HSingle c -> (match index_of c sINGLE with
                | Some _ -> true
                | None -> false)
| HMulti (s, inner, e) ->
  (match index_of s sTART with
   | Some k ->
     (match end_class e with
      | Some k' ->
        (&&) (N.eqb k k')
          (forallb (fun x ->
            match end_class x with
            | Some j -> negb (N.eqb j k)
            | None -> true) inner)
      | None -> false)
   | None -> false)

(** val valid_cmd : ccmd -> n list -> bool **)

let valid_cmd c after =
  (&&)
    ((&&)
      ((&&) (valid_head c.chead)
        (all_ctx (fun x a -> (&&) (negb (starts x a)) (negb (is_areach x)))
          c.cdotitems (app c.careaitems after)))
      (match c.careaitems with
       | [] -> true
       | x :: _ -> is_areach x))
    (all_ctx (fun x a -> negb (starts x a)) c.careaitems after)

(** val valid_cmds : ccmd list -> bool **)

let rec valid_cmds = function
| [] -> true
| c :: r -> (&&) (valid_cmd c (flat_cmds r)) (valid_cmds r)

(** val valid : cst -> bool **)

let valid t =
  (&&) (all_ctx (fun x a -> negb (starts x a)) t.cprefix (flat_cmds t.ccmds))
    (valid_cmds t.ccmds)

(** val head_kind : head -> n **)

let head_kind = function
| HSingle c -> (match index_of c sINGLE with
                | Some k -> k
                | None -> N0)
| HMulti (_, _, e) -> (match end_kind e with
                       | Some k -> k
                       | None -> N0)

(** val head_syl : head -> n **)

let head_syl = function
| HSingle _ -> Npos XH
| HMulti (_, inner, _) ->
  N.add (Npos (XO XH)) (N.of_nat (length (filter is_hangul inner)))

(** val head_raw : head -> n list **)

let head_raw = function
| HSingle c -> c :: []
| HMulti (s, inner, e) -> s :: (app (filter is_hangul inner) (e :: []))

(** val dots_of : n list -> n **)

let dots_of items =
  fold_right (fun c acc -> N.add (if is_dot c then dot_val c else N0) acc) N0
    items

(** val advance : n list -> (n * n) -> n * n **)

let rec advance l lc =
  match l with
  | [] -> lc
  | c :: r ->
    advance r
      (if N.eqb c cH_NL
       then ((N.add (fst lc) (Npos XH)), N0)
       else ((fst lc), (N.add (snd lc) (Npos XH))))

(** val abstract_cmd : ccmd -> (n * n) -> ucode **)

let abstract_cmd c lc =
  { ty = (head_kind c.chead); hc = (head_syl c.chead); dc =
    (dots_of c.cdotitems); loc = lc; ar =
    (area_of (filter is_areach c.careaitems)); raw =
    (app (head_raw c.chead)
      (app (filter is_dot c.cdotitems) (filter is_areach c.careaitems))) }

(** val abstract_cmds : ccmd list -> (n * n) -> ucode list **)

let rec abstract_cmds cs lc =
  match cs with
  | [] -> []
  | c :: r ->
    (abstract_cmd c lc) :: (abstract_cmds r (advance (flat_cmd c) lc))

(** val abstract : cst -> ucode list **)

let abstract t =
  abstract_cmds t.ccmds (advance t.cprefix ((Npos XH), N0))

type dmode =
| DPrefix
| DInner of n
| DDots
| DArea

type dst = { dpre : n list; ddone : ccmd list; dmode_ : dmode; dstart : 
             n; dinner : n list; dhead : head; ddots : n list; darea : 
             n list }

(** val dst0 : dst **)

let dst0 =
  { dpre = []; ddone = []; dmode_ = DPrefix; dstart = N0; dinner = [];
    dhead = (HSingle N0); ddots = []; darea = [] }

(** val dclose : dst -> ccmd list **)

let dclose s =
  match s.dmode_ with
  | DPrefix -> s.ddone
  | DInner _ -> s.ddone
  | _ ->
    { chead = s.dhead; cdotitems = (rev s.ddots); careaitems =
      (rev s.darea) } :: s.ddone

(** val dstep : dst -> n -> n list -> dst **)

let dstep s c rest =
  match s.dmode_ with
  | DPrefix ->
    if starts c rest
    then (match index_of c sINGLE with
          | Some _ ->
            { dpre = s.dpre; ddone = (dclose s); dmode_ = DDots; dstart = N0;
              dinner = []; dhead = (HSingle c); ddots = []; darea = [] }
          | None ->
            (match index_of c sTART with
             | Some k ->
               { dpre = s.dpre; ddone = (dclose s); dmode_ = (DInner k);
                 dstart = c; dinner = []; dhead = (HSingle N0); ddots = [];
                 darea = [] }
             | None -> s))
    else { dpre = (c :: s.dpre); ddone = s.ddone; dmode_ = DPrefix; dstart =
           N0; dinner = []; dhead = s.dhead; ddots = []; darea = [] }
  | DInner k ->
    (match end_class c with
     | Some j ->
       if N.eqb j k
       then { dpre = s.dpre; ddone = s.ddone; dmode_ = DDots; dstart = N0;
              dinner = []; dhead = (HMulti (s.dstart, (rev s.dinner), c));
              ddots = []; darea = [] }
       else { dpre = s.dpre; ddone = s.ddone; dmode_ = (DInner k); dstart =
              s.dstart; dinner = (c :: s.dinner); dhead = s.dhead; ddots =
              []; darea = [] }
     | None ->
       { dpre = s.dpre; ddone = s.ddone; dmode_ = (DInner k); dstart =
         s.dstart; dinner = (c :: s.dinner); dhead = s.dhead; ddots = [];
         darea = [] })
  | DDots ->
    if starts c rest
    then (match index_of c sINGLE with
          | Some _ ->
            { dpre = s.dpre; ddone = (dclose s); dmode_ = DDots; dstart = N0;
              dinner = []; dhead = (HSingle c); ddots = []; darea = [] }
          | None ->
            (match index_of c sTART with
             | Some k ->
               { dpre = s.dpre; ddone = (dclose s); dmode_ = (DInner k);
                 dstart = c; dinner = []; dhead = (HSingle N0); ddots = [];
                 darea = [] }
             | None -> s))
    else if is_areach c
         then { dpre = s.dpre; ddone = s.ddone; dmode_ = DArea; dstart = N0;
                dinner = []; dhead = s.dhead; ddots = s.ddots; darea =
                (c :: []) }
         else { dpre = s.dpre; ddone = s.ddone; dmode_ = DDots; dstart = N0;
                dinner = []; dhead = s.dhead; ddots = (c :: s.ddots); darea =
                [] }
  | DArea ->
    if starts c rest
    then (match index_of c sINGLE with
          | Some _ ->
            { dpre = s.dpre; ddone = (dclose s); dmode_ = DDots; dstart = N0;
              dinner = []; dhead = (HSingle c); ddots = []; darea = [] }
          | None ->
            (match index_of c sTART with
             | Some k ->
               { dpre = s.dpre; ddone = (dclose s); dmode_ = (DInner k);
                 dstart = c; dinner = []; dhead = (HSingle N0); ddots = [];
                 darea = [] }
             | None -> s))
    else { dpre = s.dpre; ddone = s.ddone; dmode_ = DArea; dstart = N0;
           dinner = []; dhead = s.dhead; ddots = s.ddots; darea =
           (c :: s.darea) }

(** val dscan : n list -> dst -> dst **)

let rec dscan l s =
  match l with
  | [] -> s
  | c :: r -> dscan r (dstep s c r)

(** val decompose : n list -> cst **)

let decompose text =
  let s = dscan text dst0 in
  { cprefix = (rev s.dpre); ccmds = (rev (dclose s)) }
