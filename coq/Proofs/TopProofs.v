(* Capstone proofs: `hyeong run -O<level> FILE` (Model/Cli.v) against the language definition (Spec/Lang.v). *)
From Coq Require Import List NArith ZArith Lia Bool. Import ListNotations. From HV Require Import Model.Big Model.Rat Model.NumText Model.Chars Model.Parse Model.Exec Model.Opt Model.Utf8 Model.Cli Spec.Lang Proofs.OptSpec Proofs.ExecSpec Proofs.UniSpec Proofs.AppSpec Proofs.TopSpec Proofs.ExecAll Proofs.OptAll Proofs.AppAll. From HV Require Proofs.UniProofs Proofs.ExtraProofs Proofs.OptTerm Proofs.ReplProofs. Open Scope N_scope.

(* ---------- finished runs: monotonicity and determinism across step budgets ---------- *)
Definition not_fuel (x : final) : Prop := forall t p, x <> FFuel t p.

Lemma inc_mono f f' done todo s x : (f <= f')%nat -> run_inc f done todo s = x -> not_fuel x ->
  run_inc f' done todo s = x.
Proof.
  intros Hle H Hx. pose proof (run_mono_t f f' done todo s Hle) as HM. rewrite H in HM.
  destruct x as [s'|q s'|e s'|t p|s']; try exact HM.
  exfalso. exact (Hx t p eq_refl).
Qed.

Lemma inc_det f f' done todo s x y : run_inc f done todo s = x -> run_inc f' done todo s = y ->
  not_fuel x -> not_fuel y -> x = y.
Proof.
  intros Hx Hy Nx Ny.
  pose proof (inc_mono f (Nat.max f f') done todo s x (Nat.le_max_l _ _) Hx Nx) as H1.
  pose proof (inc_mono f' (Nat.max f f') done todo s y (Nat.le_max_r _ _) Hy Ny) as H2.
  rewrite <- H1. exact H2.
Qed.

(* a finished preloaded run is a finished incremental run, whatever the outcome *)
Lemma pre_to_inc_gen fuel code s x : targets_ok 0 s -> run_pre fuel code s 0 = x -> not_fuel x ->
  run_inc fuel [] code s = x.
Proof.
  intros T H Hx.
  assert (H1 : run_pre (S fuel) code s 0 = x).
  { replace (S fuel) with (fuel + 1)%nat by lia. apply ExtraProofs.run_pre_more; [exact H | exact Hx]. }
  pose proof (inc_pre_t fuel [] code s T) as HP. cbn [app length N.of_nat] in HP.
  destruct (run_inc fuel [] code s) as [s'|q s'|e s'|t p|s'] eqn:E.
  - rewrite H1 in HP. symmetry. exact HP.
  - rewrite H1 in HP. symmetry. exact HP.
  - rewrite H1 in HP. symmetry. exact HP.
  - pose proof (ExtraProofs.run_inc_fuel code fuel [] s t p T E) as HF. cbn [app length N.of_nat] in HF.
    rewrite H in HF. exfalso. exact (Hx t p HF).
  - rewrite H1 in HP. symmetry. exact HP.
Qed.

(* ---------- the command line in terms of the observable behaviour ---------- *)
Definition cli_of (b : fkind * list N * list N) : cli_out :=
  match b with
  | (KDone, o, e) => CExit 0 (encode o) (encode e)
  | (KExit c, o, e) => CExit c (encode o) (encode e)
  | (KErr (EEnc n), o, e) => CDiag (DgEnc n) (encode o) (encode e)
  | (KErr EIo, o, e) => CDiag DgUtf8Stdin (encode o) (encode e)
  | (KFuel, _, _) => CRunning
  | (KPanic, _, _) => CPanic
  end.

Lemma run_cli_beh level text input F : scalars text -> scalars input ->
  run_cli level (FBytes true (encode text)) (encode input) F =
  cli_of (beh (run_level all_fixed F (parse text) level (lines_of input))).
Proof.
  intros Ht Hi. unfold run_cli. rewrite (UniProofs.utf8_roundtrip text Ht).
  rewrite (UniProofs.stdin_lines_ok input Hi). fold (lines_of input).
  destruct (run_level all_fixed F (parse text) level (lines_of input)) as [s|c s|e s|s p|s]; try reflexivity.
Qed.

(* ---------- level 0 against the definition ---------- *)
Definition code_of (text : list N) : list xcode := map xcode_of_ucode (parse text).

Lemma code_prog text : map scmd_of_xcode (code_of text) = prog_of_text text.
Proof.
  unfold code_of, prog_of_text. rewrite map_map. apply map_ext. intros u. reflexivity.
Qed.

Lemma code_small text : small_text text -> Forall small (code_of text).
Proof.
  intros H. unfold small_text in H. rewrite Forall_forall in H.
  apply Forall_forall. intros c Hc. unfold code_of in Hc. apply in_map_iff in Hc.
  destruct Hc as (u & <- & Hu). specialize (H u Hu). destruct H as (H1 & H2 & H3).
  unfold small, xcode_of_ucode. cbn [xhc xdc xac]. split; [exact H1 | split; [exact H2 | exact H3]].
Qed.

Lemma level0_eq fx f code inp :
  run_level fx f code 0 inp = run_inc f [] (map xcode_of_ucode code) (state0 SUnopt inp).
Proof. reflexivity. Qed.

Lemma level0_refines text input f : scalars input -> small_text text ->
  final_rel (run_pre f (code_of text) (state0 SUnopt (lines_of input)) 0)
            (srun f (prog_of_text text) (lstate0 (lines_of input)) 0).
Proof.
  intros Hi Hs.
  pose proof (R_init_t (lines_of input) (ExtraProofs.lines_small input Hi)) as HR.
  pose proof (run_refines_t f (code_of text) _ _ 0 HR (code_small text Hs)) as HF.
  rewrite code_prog in HF. exact HF.
Qed.

(* a finished run of the definition gives a finished level-0 run related to it *)
Lemma level0_finished text input f y : scalars input -> small_text text ->
  srun f (prog_of_text text) (lstate0 (lines_of input)) 0 = y -> (forall t p, y <> SRunning t p) ->
  exists x, run_level all_fixed f (parse text) 0 (lines_of input) = x /\ not_fuel x /\ final_rel x y.
Proof.
  intros Hi Hs Hy Ny. pose proof (level0_refines text input f Hi Hs) as HF. rewrite Hy in HF.
  remember (run_pre f (code_of text) (state0 SUnopt (lines_of input)) 0) as x eqn:Ex. symmetry in Ex.
  assert (Nx : not_fuel x).
  { intros t p ->. destruct y as [s|c s|e s|s q]; cbn [final_rel] in HF; try contradiction.
    exact (Ny s q eq_refl). }
  exists x. split; [|split; [exact Nx | exact HF]].
  rewrite level0_eq. fold (code_of text).
  apply pre_to_inc_gen; [apply ExtraProofs.targets_ok_state0 | exact Ex | exact Nx].
Qed.

(* ---------- all levels from level 0 ---------- *)
Lemma levels code inp f x level : kinds_ok code -> level <= 2 ->
  run_level all_fixed f code 0 inp = x -> not_fuel x ->
  exists F, beh (run_level all_fixed F code level inp) = beh x \/
            (level = 2 /\ exists e s', x = FErr e s' /\
                                       run_level all_fixed F code level inp = FErr e (state0 SUnopt inp)).
Proof.
  intros Hk Hl Hx Nx.
  assert (Hc : level = 0 \/ level = 1 \/ level = 2) by lia.
  destruct Hc as [-> | [-> | ->]].
  - exists f. left. rewrite Hx. reflexivity.
  - exists f. left. rewrite (level1_wt_t f code inp Hk), Hx. reflexivity.
  - pose proof (level2_wt_t code inp Hk) as H2.
    destruct (optimize_prog all_fixed code 2 inp) as [r|e|] eqn:Eo.
    + destruct H2 as (k & H2). exists f. left. rewrite <- (H2 f).
      rewrite level0_eq in Hx |- *.
      rewrite (inc_mono f (k + f) _ _ _ x (Nat.le_add_l f k) Hx Nx). reflexivity.
    + destruct H2 as (f' & s' & H2 & _). exists f. right. split; [reflexivity|].
      exists e, s'. split.
      * rewrite level0_eq in Hx, H2.
        apply (inc_det f f' _ _ _ x (FErr e s') Hx H2 Nx). intros t p. discriminate.
      * unfold run_level. change (2 =? 0) with false. cbv iota. rewrite Eo. reflexivity.
    + contradiction.
Qed.

(* ---------- the theorems ---------- *)
Theorem cli_done : cli_done_stmt.
Proof.
  intros level text input f s Hl Ht Hi Hs Hrun.
  destruct (level0_finished text input f _ Hi Hs Hrun) as (x & Hx & Nx & HF).
  { intros t p. discriminate. }
  destruct x as [s1|c s1|e s1|s1 p|s1]; cbn [final_rel] in HF; try contradiction.
  destruct (levels (parse text) (lines_of input) f _ level (parse_kinds_ok text) Hl Hx Nx) as (F & [Hb | Hb]).
  - exists F. rewrite (run_cli_beh level text input F Ht Hi), Hb. cbn [beh cli_of].
    rewrite (R_out _ _ HF), (R_err _ _ HF). reflexivity.
  - destruct Hb as (_ & e & s' & Hb & _). discriminate Hb.
Qed.
Print Assumptions cli_done.

Theorem cli_exit : cli_exit_stmt.
Proof.
  intros level text input f c s Hl Ht Hi Hs Hrun.
  destruct (level0_finished text input f _ Hi Hs Hrun) as (x & Hx & Nx & HF).
  { intros t p. discriminate. }
  destruct x as [s1|c1 s1|e s1|s1 p|s1]; cbn [final_rel] in HF; try contradiction.
  destruct HF as (-> & Ho & He).
  destruct (levels (parse text) (lines_of input) f _ level (parse_kinds_ok text) Hl Hx Nx) as (F & [Hb | Hb]).
  - exists F. rewrite (run_cli_beh level text input F Ht Hi), Hb. cbn [beh cli_of].
    rewrite Ho, He. reflexivity.
  - destruct Hb as (_ & e & s' & Hb & _). discriminate Hb.
Qed.
Print Assumptions cli_exit.

Theorem cli_enc : cli_enc_stmt.
Proof.
  intros level text input f n s Hl Ht Hi Hs Hrun.
  destruct (level0_finished text input f _ Hi Hs Hrun) as (x & Hx & Nx & HF).
  { intros t p. discriminate. }
  destruct x as [s1|c1 s1|e s1|s1 p|s1]; cbn [final_rel] in HF; try contradiction.
  destruct HF as (He1 & Ho & He).
  destruct e as [n'|]; cbn [err_rel] in He1; [|contradiction]. subst n'.
  destruct (levels (parse text) (lines_of input) f _ level (parse_kinds_ok text) Hl Hx Nx) as (F & [Hb | Hb]).
  - exists F, (encode (rev (outb s1))), (encode (rev (errb s1))). split.
    + rewrite (run_cli_beh level text input F Ht Hi), Hb. reflexivity.
    + intros _. rewrite Ho, He. split; reflexivity.
  - destruct Hb as (-> & e & s' & Hb & Hr). injection Hb as <- <-.
    exists F, (encode []), (encode []). split.
    + rewrite (run_cli_beh 2 text input F Ht Hi), Hr. reflexivity.
    + intros H0. discriminate H0.
Qed.
Print Assumptions cli_enc.
