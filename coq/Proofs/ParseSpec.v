(* Statements of the parser-layer lemmas, as named propositions. *)
From Coq Require Import List NArith Bool.
Import ListNotations.
From HV Require Import Model.Chars Model.Parse Spec.Grammar.
Open Scope N_scope.

(* the parser with the pre-pass replaced by "a terminator of the class occurs in the strict suffix" *)
Definition step_s (bug : bool) (rest : list N) (s : pst) (i : N) (c : N) : pst :=
  step bug (if later_end 0 rest then i + 1 else 0, if later_end 1 rest then i + 1 else 0, if later_end 2 rest then i + 1 else 0) s i c.
Fixpoint run_s (bug : bool) (l : list N) (i : N) (s : pst) : pst :=
  match l with [] => s | c :: r => run_s bug r (i + 1) (step_s bug r s i c) end.
Definition run_suffix_stmt := forall bug l, run bug (max_pos l 0 (0, 0, 0)) l 0 pst0 = run_s bug l 0 pst0.

(* area characters: folding the cursor updates over a token string gives the grammar's tree *)
Definition area_step (z : bangz * list area) (c : N) : bangz * list area :=
  let '(b, q) := z in
  if c =? CH_Q then (bang0, bangA b :: q)
  else if c =? CH_BANG then (mkbz (closed b ++ [curslot b]) None, q)
  else match index_of c HEARTS with
       | Some k => (mkbz (closed b) (match curslot b with None => Some (k + 2) | x => x end), q)
       | None => z
       end.
Definition area_finish (z : bangz * list area) : area := qu_tree (rev (snd z)) (bangA (fst z)).
Definition area_build_stmt := forall toks, area_finish (fold_left area_step toks (bang0, [])) = area_of toks.
Definition area_shape_stmt := forall toks, exists q : gq, area_of toks = gqA q.
Definition area_text_stmt := forall q : gq,
  forallb (fun b : gbang => forallb (fun s : slot => match s with Some t => (2 <=? t) && (t <=? 13) | None => true end) (snd b :: fst b))
          (snd q :: fst q) = true ->
  area_of (gq_text q) = gqA q.

(* the main theorems *)
Definition parse_render_stmt := forall t, valid t = true -> parse (flatten t) = abstract t.
Definition decompose_flatten_stmt := forall text, flatten (decompose text) = text.
Definition decompose_valid_stmt := forall text, valid (decompose text) = true.
Definition strip_u (u : ucode) : N * N * N * area := (ty u, hc u, dc u, ar u).
Definition writable_stmt := forall cs, forallb cmd_ok cs = true ->
  valid (canon cs) = true /\
  map strip_u (abstract (canon cs)) = map (fun c => (kind c, syl c, dotc c, gqA (garea c))) cs.
Definition reparse_raw_stmt := forall text,
  map strip_u (parse (concat (map raw (parse text)))) = map strip_u (parse text).
Definition parse_area_shape_stmt := forall text u, In u (parse text) -> exists q : gq, ar u = gqA q.
(* D4: the pinned parser violates parse_render on a text whose prefix holds an area character *)
Definition parse_prefix_refuted_stmt := exists t, valid t = true /\ parse_pre_fix (flatten t) <> abstract t.

(* listing injectivity (C08 clause 3) *)
Definition grammar_shaped (a : area) : Prop := exists q : gq, a = gqA q.
Definition display_injective_stmt := forall a b, grammar_shaped a -> grammar_shaped b -> area_display a = area_display b -> a = b.
Definition debug_injective_stmt := forall a b, grammar_shaped a -> grammar_shaped b -> area_debug a = area_debug b -> a = b.
