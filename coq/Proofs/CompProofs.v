(* Proofs for the compiler model (Model/Compile.v): dispatch tree, block partition, label translation, the pinned
   start-block defect, and the two-way simulation between the emitted program and the interpreter. *)
From Coq Require Import List NArith ZArith Lia Bool. Import ListNotations.
From HV Require Import Model.Big Model.Rat Model.NumText Model.Chars Model.Parse Model.Exec Model.Opt Model.Compile Proofs.OptSpec Proofs.CompSpec.
From HV Require Proofs.OptTerm.
Open Scope N_scope.

Arguments N.add : simpl never.
Arguments N.mul : simpl never.
Arguments N.sub : simpl never.
Arguments N.div : simpl never.
Arguments N.leb : simpl never.
Arguments N.ltb : simpl never.
Arguments N.eqb : simpl never.

(* ------------------------------------------------------------------ *)
(* the dispatch tree *)

Lemma build_tree_select : forall fuel n base b, (N.to_nat n <= fuel)%nat -> base <= b < base + n ->
  tree_select (build_tree fuel n base) b = b.
Proof.
  induction fuel as [|f IH]; intros n base b Hf Hb.
  - assert (n = 0) by lia. subst n. lia.
  - cbn [build_tree]. destruct (n <=? 1) eqn:E.
    + apply N.leb_le in E. cbn [tree_select]. lia.
    + apply N.leb_gt in E. cbv zeta. cbn [tree_select].
      assert (Hh : 1 <= n / 2 < n).
      { split.
        - change 1 with (2 / 2). apply N.div_le_mono; lia.
        - apply N.div_lt; lia. }
      destruct (b <? base + n / 2) eqn:Eb.
      * apply N.ltb_lt in Eb. apply IH; lia.
      * apply N.ltb_ge in Eb. apply IH; lia.
Qed.

Theorem dispatch_selects : dispatch_selects_stmt.
Proof.
  intros n b Hb. unfold dispatch_tree. apply build_tree_select; lia.
Qed.
Print Assumptions dispatch_selects.

(* ------------------------------------------------------------------ *)
(* the block partition *)

Definition area_free (l : list xcode) : bool := forallb (fun c => negb (has_area c)) l.

Lemma area_free_rev l : area_free l = true -> area_free (rev l) = true.
Proof.
  unfold area_free. rewrite !forallb_forall. intros H x Hx. apply H. apply in_rev. exact Hx.
Qed.

Definition close (cur : list xcode) : list (list xcode) := match cur with [] => [] | _ => [rev cur] end.

Lemma close_concat cur : concat (close cur) = rev cur.
Proof. destruct cur; [reflexivity|]. unfold close. cbn [concat]. apply app_nil_r. Qed.

Lemma close_ok cur : area_free cur = true -> Forall block_ok (close cur).
Proof.
  intros H. destruct cur as [|c r]; [constructor|]. unfold close. constructor; [|constructor].
  split.
  - intros E. apply (f_equal (@length _)) in E. rewrite rev_length in E. discriminate E.
  - right. apply area_free_rev. exact H.
Qed.

Lemma blk_unfold c r cur :
  blk (c :: r) cur = if has_area c then close cur ++ [c] :: blk r [] else blk r (c :: cur).
Proof. reflexivity. Qed.

Lemma blk_partition : forall code cur, area_free cur = true ->
  concat (blk code cur) = rev cur ++ code /\ Forall block_ok (blk code cur).
Proof.
  induction code as [|c r IH]; intros cur Hc.
  - change (blk [] cur) with (close cur). rewrite close_concat, app_nil_r. split; [reflexivity | apply close_ok; exact Hc].
  - rewrite blk_unfold. destruct (has_area c) eqn:Ea.
    + destruct (IH [] eq_refl) as [I1 I2]. split.
      * rewrite concat_app, close_concat. cbn [concat]. rewrite I1. reflexivity.
      * apply Forall_app. split; [apply close_ok; exact Hc|]. constructor; [|exact I2].
        split; [discriminate|]. left. exists c. split; [reflexivity | exact Ea].
    + assert (Hc' : area_free (c :: cur) = true).
      { unfold area_free. cbn [forallb]. rewrite Ea. exact Hc. }
      destruct (IH (c :: cur) Hc') as [I1 I2]. split; [|exact I2].
      rewrite I1. cbn [rev]. rewrite <- app_assoc. reflexivity.
Qed.

Theorem blocks_partition : blocks_partition_stmt.
Proof. intros code. apply (blk_partition code [] eq_refl). Qed.
Print Assumptions blocks_partition.

(* ------------------------------------------------------------------ *)
(* block indices of area-carrying commands *)

Lemma block_of_shift : forall code ne i b, block_of code ne i b = b + block_of code ne i 0.
Proof.
  induction code as [|c r IH]; intros ne i b.
  - destruct i; cbn [block_of]; lia.
  - destruct i as [|j]; cbn [block_of].
    + destruct (has_area c), ne; lia.
    + destruct (has_area c).
      * rewrite IH. rewrite (IH false j ((if ne then 0 + 1 else 0) + 1)). destruct ne; lia.
      * apply IH.
Qed.

Definition nonempty {A} (l : list A) : bool := match l with [] => false | _ => true end.

Lemma close_length cur : N.of_nat (length (close cur)) = if nonempty cur then 1 else 0.
Proof. destruct cur; reflexivity. Qed.

Lemma blk_area : forall code cur i c, nth_error code i = Some c -> has_area c = true ->
  exists pre post, blk code cur = pre ++ [c] :: post /\
                   N.of_nat (length pre) = block_of code (nonempty cur) i 0 /\
                   length (concat pre) = (length cur + i)%nat.
Proof.
  induction code as [|c0 r IH]; intros cur i c Hn Ha.
  - destruct i; discriminate Hn.
  - rewrite blk_unfold. destruct i as [|j].
    + cbn [nth_error] in Hn. injection Hn as ->. rewrite Ha.
      exists (close cur), (blk r []). split; [reflexivity|]. split.
      * cbn [block_of]. rewrite Ha, close_length. destruct (nonempty cur); lia.
      * rewrite close_concat, rev_length. lia.
    + cbn [nth_error] in Hn. cbn [block_of]. destruct (has_area c0) eqn:E0.
      * destruct (IH [] j c Hn Ha) as (pre & post & E & L & C).
        exists (close cur ++ [c0] :: pre), post. split; [|split].
        -- rewrite E, <- app_assoc. reflexivity.
        -- rewrite block_of_shift. cbn [nonempty] in L. rewrite <- L.
           rewrite app_length. cbn [length]. pose proof (close_length cur) as CL.
           destruct (nonempty cur); lia.
        -- rewrite concat_app. cbn [concat]. rewrite app_length, close_concat, rev_length.
           cbn [app length]. cbn [length] in C. lia.
      * destruct (IH (c0 :: cur) j c Hn Ha) as (pre & post & E & L & C).
        exists pre, post. split; [exact E|]. split; [exact L|]. cbn [length] in C. lia.
Qed.

Lemma blocks_area code i c : nth_error code (N.to_nat i) = Some c -> has_area c = true ->
  exists pre post, blocks code = pre ++ [c] :: post /\
                   length pre = N.to_nat (block_index code i) /\
                   length (concat pre) = N.to_nat i.
Proof.
  intros Hn Ha. destruct (blk_area code [] _ c Hn Ha) as (pre & post & E & L & C).
  exists pre, post. split; [exact E|]. split.
  - unfold block_index. cbn [nonempty] in L. rewrite <- L. rewrite Nat2N.id. reflexivity.
  - exact C.
Qed.

Theorem block_index_ok : block_index_stmt.
Proof.
  intros code i c Hn Ha. destruct (blocks_area code i c Hn Ha) as (pre & post & E & L & _).
  rewrite E, <- L. rewrite nth_error_app2 by lia. rewrite Nat.sub_diag. reflexivity.
Qed.
Print Assumptions block_index_ok.

(* ------------------------------------------------------------------ *)
(* the pinned start block *)

Definition wit_text : list N :=
  [54784;50612;50612;50612;50633] ++ repeat 46 13%nat ++ [9829;32;55121;10084;32;54637;46].

Theorem compiled_pinned_refuted : compiled_pinned_refuted_stmt.
Proof.
  exists (parse wit_text), [], 100%nat.
  destruct (compile_prog all_fixed false (parse wit_text) 2) as [p|] eqn:E1; [|vm_compute in E1; discriminate E1].
  destruct (compile_prog all_fixed true (parse wit_text) 2) as [p'|] eqn:E2; [|vm_compute in E2; discriminate E2].
  exists p, p'. split; [reflexivity|]. split; [reflexivity|].
  assert (B1 : ibeh (ir_run 100 p []) = (KDone, [], [])).
  { vm_compute in E1. injection E1 as <-. vm_compute. reflexivity. }
  assert (B2 : ibeh (ir_run 100 p' []) = (KDone, [65], [])).
  { vm_compute in E2. injection E2 as <-. vm_compute. reflexivity. }
  rewrite B1, B2. split; [discriminate|]. vm_compute. reflexivity.
Qed.
Print Assumptions compiled_pinned_refuted.

(* ------------------------------------------------------------------ *)
(* computations that neither read nor write the label fields *)

Definition relab (P : list (N * N)) (L : option N) (s : state) : state :=
  mkstate (skind_ s) (stacks s) (cur s) P L (inp s) (outb s) (errb s).
Definition lift_res {A} (f : state -> state) (r : res A) : res A :=
  match r with ROk a s => ROk a (f s) | RExit k s => RExit k (f s) | RErr e s => RErr e (f s) end.
Definition frame {A} (m : M A) : Prop := forall P L s, m (relab P L s) = lift_res (relab P L) (m s).

Lemma frame_ret {A} (a : A) : frame (ret a).
Proof. intros P L s. reflexivity. Qed.
Lemma frame_fail {A} e : frame (@fail A e).
Proof. intros P L s. reflexivity. Qed.
Lemma frame_exit {A} k : frame (@exit_ A k).
Proof. intros P L s. reflexivity. Qed.
Lemma frame_bind {A B} (m : M A) (f : A -> M B) : frame m -> (forall a, frame (f a)) -> frame (bind m f).
Proof.
  intros Hm Hf P L s. unfold bind. rewrite Hm. destruct (m s) as [a t|k t|e t]; cbn [lift_res]; [apply Hf | reflexivity | reflexivity].
Qed.
Lemma frame_iterM {A} n (f : A -> M A) a : (forall x, frame (f x)) -> frame (iterM n f a).
Proof.
  intros Hf. induction n as [|n IH] using N.peano_ind.
  - rewrite OptTerm.iterM_0. apply frame_ret.
  - rewrite OptTerm.iterM_succ. apply frame_bind; assumption.
Qed.
Lemma frame_fold_left {B X} (g : M B -> X -> M B) l m0 :
  (forall m x, frame m -> frame (g m x)) -> frame m0 -> frame (fold_left g l m0).
Proof.
  intros Hg. revert m0. induction l as [|x l IH]; intros m0 H0; cbn [fold_left].
  - exact H0.
  - apply IH. apply Hg. exact H0.
Qed.
Lemma frame_calc a cnt pop : frame pop -> frame (calc a cnt pop).
Proof.
  intros Hp. induction a as [|t l IHl r IHr]; cbn [calc].
  - apply frame_ret.
  - destruct (t =? 0).
    + apply frame_bind; [exact Hp|]. intros v. destruct (ncmp v _) as [[| |]|]; assumption.
    + destruct (t =? 1).
      * apply frame_bind; [exact Hp|]. intros v. destruct (ncmp v _) as [[| |]|]; assumption.
      * apply frame_ret.
Qed.

Lemma frame_push_stack i x : frame (push_stack i x).
Proof.
  intros P L s. unfold push_stack.
  change (in_range (relab P L s) i) with (in_range s i).
  change (get_stack (relab P L s) i) with (get_stack s i).
  destruct (in_range s i); [|reflexivity].
  destruct (get_stack s i); [destruct (is_nan x)|]; reflexivity.
Qed.
Lemma frame_pop_stack i : frame (pop_stack i).
Proof.
  intros P L s. unfold pop_stack.
  change (in_range (relab P L s) i) with (in_range s i).
  change (get_stack (relab P L s) i) with (get_stack s i).
  destruct (in_range s i); [|reflexivity].
  destruct (get_stack s i); reflexivity.
Qed.
Lemma frame_write_out b txt : frame (write_out b txt).
Proof. intros P L s. unfold write_out. destruct b; reflexivity. Qed.
Lemma frame_push_wrap i x : frame (push_wrap i x).
Proof.
  unfold push_wrap. destruct ((i =? 1) || (i =? 2)).
  - destruct (is_pos x).
    + destruct (num_to_unicode x); [apply frame_write_out | apply frame_fail].
    + apply frame_write_out.
  - apply frame_push_stack.
Qed.
Lemma frame_read_line : frame read_line.
Proof.
  intros P L s. unfold read_line. change (inp (relab P L s)) with (inp s).
  destruct (inp s) as [|[l|] r]; reflexivity.
Qed.
Lemma frame_push_all i l : frame (push_all i l).
Proof.
  induction l as [|c r IH]; cbn [push_all].
  - apply frame_ret.
  - apply frame_bind; [apply frame_push_stack | intros _; exact IH].
Qed.
Lemma frame_pop_wrap i : frame (pop_wrap i).
Proof.
  unfold pop_wrap. destruct (i =? 0).
  - intros P L s. change (get_stack (relab P L s) 0) with (get_stack s 0). destruct (get_stack s 0).
    + apply (frame_bind read_line (fun l => bind (push_all 0 (rev l)) (fun _ => pop_stack 0))).
      * apply frame_read_line.
      * intros l. apply frame_bind; [apply frame_push_all | intros _; apply frame_pop_stack].
    + apply frame_pop_stack.
  - destruct (i =? 1); [apply frame_exit|].
    destruct (i =? 2); [apply frame_exit|]. apply frame_pop_stack.
Qed.
Lemma frame_get_cur : frame get_cur.
Proof. intros P L s. reflexivity. Qed.
Lemma frame_set_cur c : frame (set_cur c).
Proof. intros P L s. reflexivity. Qed.

Ltac frame_tac :=
  repeat first
    [ apply frame_ret | apply frame_push_wrap | apply frame_pop_wrap
    | apply frame_set_cur | apply frame_get_cur
    | apply frame_bind; [ | intro ]
    | apply frame_iterM; intro ].

Lemma frame_fold_push cs (h : num -> num) (g : num -> num -> num) (v : list num) (m0 : M num) :
  frame m0 ->
  frame (fold_left (fun (m : M num) x => bind m (fun n => let x' := h x in
                         bind (push_wrap cs x') (fun _ => ret (g n x')))) v m0).
Proof.
  intros H0. apply frame_fold_left; [|exact H0]. intros m x Hm. cbv zeta.
  apply frame_bind; [exact Hm|]. intro. frame_tac.
Qed.

Lemma frame_body c : frame (body c).
Proof.
  unfold body. apply frame_bind; [apply frame_get_cur|]. intros cs.
  apply (OptTerm.ty_case (@frame unit)); frame_tac; try (apply frame_fold_push; apply frame_ret).
Qed.

(* ------------------------------------------------------------------ *)
(* execute_one = the label-independent prelude, then the label logic *)

Definition prel (c : xcode) : M N :=
  bind (body c) (fun _ => bind get_cur (fun cs => calc (xar c) (xac c) (pop_wrap cs))).
Definition lbl (c : xcode) (pc t : N) : M N :=
  if t =? 0 then ret (pc + 1)
  else if t =? 13 then bind get_latest (fun l => match l with Some loc => ret loc | None => ret (pc + 1) end)
  else let id := xac c * 16 + t in
       bind (get_point id) (fun p =>
       match p with
       | Some v => if pc =? v then ret (pc + 1) else bind (set_latest pc) (fun _ => ret v)
       | None => bind (set_point id pc) (fun _ => ret (pc + 1))
       end).

Lemma exec_split c pc s : execute_one c pc s = bind (prel c) (lbl c pc) s.
Proof.
  unfold execute_one, prel, lbl, bind. destruct (body c s) as [u s1|k s1|e s1]; reflexivity.
Qed.

Lemma frame_prel c : frame (prel c).
Proof.
  unfold prel. apply frame_bind; [apply frame_body|]. intros _.
  apply frame_bind; [apply frame_get_cur|]. intros cs. apply frame_calc. apply frame_pop_wrap.
Qed.
Lemma ext_prel c : OptTerm.pres OptTerm.ext (prel c).
Proof.
  unfold prel. apply OptTerm.e_bind; [apply OptTerm.pres_body|]. intros _.
  apply OptTerm.e_bind; [apply OptTerm.pres_get_cur|]. intros cs. apply OptTerm.e_calc. apply OptTerm.pres_pop_wrap.
Qed.

Lemma prel_free c s : has_area c = false ->
  prel c s = match body c s with ROk _ s1 => ROk 0 s1 | RExit k s1 => RExit k s1 | RErr e s1 => RErr e s1 end.
Proof.
  unfold has_area. intros H. destruct (xar c) eqn:E; [|discriminate H].
  unfold prel, bind. rewrite E. destruct (body c s); reflexivity.
Qed.

Lemma exec_free c p s : has_area c = false ->
  execute_one c p s = match prel c s with ROk _ s1 => ROk (p + 1) s1 | RExit k s1 => RExit k s1 | RErr e s1 => RErr e s1 end.
Proof.
  intros H. rewrite exec_split. unfold bind. rewrite (prel_free c s H).
  destruct (body c s); reflexivity.
Qed.

(* ------------------------------------------------------------------ *)
(* label translation *)

Definition trP (code : list xcode) (P : list (N * N)) : list (N * N) := map (fun p => (fst p, block_index code (snd p))) P.
Definition trL (code : list xcode) (L : option N) : option N := option_map (block_index code) L.
Definition T (code : list xcode) (s : state) : state := relab (trP code (points s)) (trL code (latest s)) s.

Lemma trP_get code P id : alist_get (trP code P) id = option_map (block_index code) (alist_get P id).
Proof.
  induction P as [|[k v] r IH]; cbn [trP map alist_get fst snd option_map]; [reflexivity|].
  destruct (k =? id); [reflexivity | exact IH].
Qed.
Lemma trP_set code P id v : trP code (alist_set P id v) = alist_set (trP code P) id (block_index code v).
Proof.
  induction P as [|[k w] r IH]; cbn [trP map alist_set fst snd]; [reflexivity|].
  destruct (k =? id); cbn [map fst snd]; [reflexivity|]. f_equal. exact IH.
Qed.

Lemma prel_T code c s : prel c (T code s) = lift_res (T code) (prel c s).
Proof.
  unfold T at 1. rewrite frame_prel. pose proof (ext_prel c s) as H.
  destruct (prel c s) as [a t|k t|e t]; cbn [lift_res OptTerm.post] in *; destruct H as (HP & HL & _);
    unfold T; rewrite HP, HL; reflexivity.
Qed.

(* ------------------------------------------------------------------ *)
(* positions: block starts *)

Lemma nth_split_concat {A} : forall (l : list (list A)) b x, nth_error l b = Some x ->
  concat l = concat (firstn b l) ++ x ++ concat (skipn (S b) l) /\
  concat (firstn (S b) l) = concat (firstn b l) ++ x.
Proof.
  induction l as [|y l IH]; intros b x H.
  - destruct b; discriminate H.
  - destruct b as [|b].
    + cbn [nth_error] in H. injection H as ->. cbn [firstn skipn concat app]. rewrite app_nil_r. split; reflexivity.
    + cbn [nth_error] in H. destruct (IH b x H) as [I1 I2]. split.
      * cbn [concat]. rewrite I1 at 1. cbn [firstn concat skipn]. rewrite <- app_assoc. reflexivity.
      * change (firstn (S (S b)) (y :: l)) with (y :: firstn (S b) l).
        change (firstn (S b) (y :: l)) with (y :: firstn b l). cbn [concat]. rewrite I2, app_assoc. reflexivity.
Qed.

Definition area_at (code : list xcode) (v : N) : Prop :=
  exists c, nth_error code (N.to_nat v) = Some c /\ has_area c = true.
Definition inv (code : list xcode) (s : state) : Prop :=
  (forall id v, alist_get (points s) id = Some v -> area_at code v) /\ (forall v, latest s = Some v -> area_at code v).

Section Sim.
Variable code : list xcode.
Let nb : nat := length (blocks code).

Lemma blocks_concat : concat (blocks code) = code.
Proof. apply blocks_partition. Qed.

Lemma block_nth_ok b cmds : nth_error (blocks code) b = Some cmds -> block_ok cmds.
Proof.
  intros H. destruct (blocks_partition code) as [_ F]. rewrite Forall_forall in F. apply F.
  eapply nth_error_In. exact H.
Qed.

Lemma block_split b cmds : nth_error (blocks code) b = Some cmds ->
  code = concat (firstn b (blocks code)) ++ cmds ++ concat (skipn (S b) (blocks code)).
Proof. intros H. rewrite <- blocks_concat at 1. apply nth_split_concat. exact H. Qed.

Lemma bstart_succ b cmds : nth_error (blocks code) b = Some cmds ->
  block_start code (S b) = N.of_nat (length (concat (firstn b (blocks code)) ++ cmds)).
Proof. intros H. unfold block_start. destruct (nth_split_concat _ _ _ H) as [_ ->]. reflexivity. Qed.

Lemma bstart_succ' b cmds : nth_error (blocks code) b = Some cmds ->
  block_start code (S b) = block_start code b + N.of_nat (length cmds).
Proof. intros H. rewrite (bstart_succ b cmds H). unfold block_start. rewrite app_length. lia. Qed.

Lemma bstart_end : block_start code nb = N.of_nat (length code).
Proof. unfold block_start, nb. rewrite firstn_all, blocks_concat. reflexivity. Qed.

Lemma block_nonempty b cmds : nth_error (blocks code) b = Some cmds -> (1 <= length cmds)%nat.
Proof.
  intros H. destruct (block_nth_ok b cmds H) as [Hne _]. destruct cmds; [contradiction Hne; reflexivity | cbn; lia].
Qed.

Lemma nth_lt_some b : (b < nb)%nat -> exists cmds, nth_error (blocks code) b = Some cmds.
Proof.
  intros H. destruct (nth_error (blocks code) b) eqn:E; [eauto|]. apply nth_error_None in E. unfold nb in H. lia.
Qed.

Lemma bstart_lt : forall b2 b1, (b1 < b2 <= nb)%nat -> block_start code b1 < block_start code b2.
Proof.
  induction b2 as [|b IH]; intros b1 H; [lia|].
  destruct (nth_lt_some b) as [cmds Hc]; [lia|].
  rewrite (bstart_succ' b cmds Hc). pose proof (block_nonempty b cmds Hc) as Hl.
  destruct (Nat.eq_dec b1 b) as [->|Hne]; [lia|].
  assert (block_start code b1 < block_start code b) by (apply IH; lia). lia.
Qed.

Lemma bstart_inj b1 b2 : (b1 <= nb)%nat -> (b2 <= nb)%nat -> block_start code b1 = block_start code b2 -> b1 = b2.
Proof.
  intros H1 H2 E. destruct (Nat.lt_trichotomy b1 b2) as [L|[L|L]]; [|exact L|].
  - pose proof (bstart_lt b2 b1). lia.
  - pose proof (bstart_lt b1 b2). lia.
Qed.

Lemma bstart_area v c : nth_error code (N.to_nat v) = Some c -> has_area c = true ->
  (N.to_nat (block_index code v) < nb)%nat /\
  block_start code (N.to_nat (block_index code v)) = v /\
  nth_error (blocks code) (N.to_nat (block_index code v)) = Some [c].
Proof.
  intros Hn Ha. destruct (blocks_area code v c Hn Ha) as (l1 & l2 & E & L & C).
  split; [|split].
  - unfold nb. rewrite E, app_length. cbn [length]. lia.
  - unfold block_start. rewrite E, <- L. rewrite firstn_app, firstn_all, Nat.sub_diag. cbn [firstn].
    rewrite app_nil_r, C. lia.
  - apply block_index_ok; assumption.
Qed.

(* ------------------------------------------------------------------ *)
(* the interpreter over a stretch of commands *)

Lemma run_pre_S f s pc c : nth_error code (N.to_nat pc) = Some c ->
  run_pre (S f) code s pc = match execute_one c pc s with
                            | ROk pc' s' => run_pre f code s' pc'
                            | RExit k s' => FExit k s'
                            | RErr e s' => FErr e s'
                            end.
Proof.
  intros H. cbn [run_pre]. rewrite H.
  assert (L : (N.to_nat pc < length code)%nat) by (apply nth_error_Some; rewrite H; discriminate).
  destruct (N.of_nat (length code) <=? pc) eqn:E; [apply N.leb_le in E; lia | reflexivity].
Qed.

Definition nonfuel (x : final) : Prop := match x with FFuel _ _ => False | _ => True end.

Lemma run_pre_more : forall f d s pc, nonfuel (run_pre f code s pc) -> run_pre (f + d) code s pc = run_pre f code s pc.
Proof.
  induction f as [|f IH]; intros d s pc H.
  - cbn in H. contradiction.
  - cbn [Nat.add]. cbn [run_pre] in *. destruct (N.of_nat (length code) <=? pc); [reflexivity|].
    destruct (nth_error code (N.to_nat pc)) as [c|]; [|reflexivity].
    destruct (execute_one c pc s) as [pc' s'|k s'|e s']; [|reflexivity|reflexivity].
    apply IH. exact H.
Qed.

Fixpoint run_seq (cmds : list xcode) : M unit :=
  match cmds with [] => ret tt | c :: r => bind (prel c) (fun _ => run_seq r) end.

End Sim.

Lemma run_pre_free : forall cmds code l1 l2 s, code = l1 ++ cmds ++ l2 -> area_free cmds = true ->
  match run_seq cmds s with
  | ROk _ s' => forall f, run_pre (length cmds + f) code s (N.of_nat (length l1)) = run_pre f code s' (N.of_nat (length (l1 ++ cmds)))
  | RExit k s' => forall f, run_pre (length cmds + f) code s (N.of_nat (length l1)) = FExit k s'
  | RErr e s' => forall f, run_pre (length cmds + f) code s (N.of_nat (length l1)) = FErr e s'
  end.
Proof.
  induction cmds as [|c r IH]; intros code l1 l2 s Hc Hf.
  - cbn [run_seq ret length Nat.add]. rewrite app_nil_r. reflexivity.
  - unfold area_free in Hf. cbn [forallb] in Hf. apply andb_prop in Hf. destruct Hf as [Hc0 Hr].
    apply negb_true_iff in Hc0.
    assert (Hn : nth_error code (N.to_nat (N.of_nat (length l1))) = Some c).
    { rewrite Nat2N.id, Hc, nth_error_app2 by lia. rewrite Nat.sub_diag. reflexivity. }
    cbn [run_seq length Nat.add]. unfold bind.
    assert (Hc' : code = (l1 ++ [c]) ++ r ++ l2) by (rewrite Hc, <- app_assoc; reflexivity).
    specialize (IH code (l1 ++ [c]) l2).
    destruct (prel c s) as [a s1|k s1|e s1] eqn:Ep.
    + specialize (IH s1 Hc' Hr). 
      assert (Hpos : N.of_nat (length l1) + 1 = N.of_nat (length (l1 ++ [c]))) by (rewrite app_length; cbn [length]; lia).
      assert (Happ : (l1 ++ [c]) ++ r = l1 ++ c :: r) by (rewrite <- app_assoc; reflexivity).
      rewrite Happ in IH.
      destruct (run_seq r s1) as [u s'|k s'|e s']; intros f; rewrite (run_pre_S code _ _ _ c Hn), (exec_free c _ s Hc0), Ep, Hpos; apply IH.
    + intros f. rewrite (run_pre_S code _ _ _ c Hn), (exec_free c _ s Hc0), Ep. reflexivity.
    + intros f. rewrite (run_pre_S code _ _ _ c Hn), (exec_free c _ s Hc0), Ep. reflexivity.
Qed.

Lemma run_block_free code : forall cmds b s, area_free cmds = true ->
  run_block cmds b (T code s) = match run_seq cmds s with
                                | ROk _ s' => ROk (b + 1) (T code s')
                                | RExit k s' => RExit k (T code s')
                                | RErr e s' => RErr e (T code s')
                                end.
Proof.
  induction cmds as [|c r IH]; intros b s Hf.
  - reflexivity.
  - unfold area_free in Hf. cbn [forallb] in Hf. apply andb_prop in Hf. destruct Hf as [Hc0 Hr].
    apply negb_true_iff in Hc0.
    cbn [run_block run_seq]. unfold bind. rewrite (exec_free c b _ Hc0), prel_T.
    destruct (prel c s) as [a s1|k s1|e s1]; cbn [lift_res]; [|reflexivity|reflexivity].
    rewrite N.eqb_refl. apply IH. exact Hr.
Qed.

Lemma run_block_single c b s : run_block [c] b s = execute_one c b s.
Proof.
  cbn [run_block]. unfold bind. destruct (execute_one c b s) as [a t|k t|e t]; [|reflexivity|reflexivity].
  destruct (a =? b + 1) eqn:E; [|reflexivity]. apply N.eqb_eq in E. subst a. reflexivity.
Qed.

(* ------------------------------------------------------------------ *)
(* one block step of the emitted program against the interpreter *)

Lemma nth_error_mid {A} (l l1 l2 : list A) c : l = l1 ++ c :: l2 -> nth_error l (length l1) = Some c.
Proof. intros ->. rewrite nth_error_app2 by lia. rewrite Nat.sub_diag. reflexivity. Qed.

Lemma ext_run_seq cmds : OptTerm.pres OptTerm.ext (run_seq cmds).
Proof.
  induction cmds as [|c r IH]; cbn [run_seq].
  - apply OptTerm.e_ret.
  - apply OptTerm.e_bind; [apply ext_prel | intros _; exact IH].
Qed.

Lemma inv_ext code s t : points t = points s -> latest t = latest s -> inv code s -> inv code t.
Proof. intros P L [H1 H2]. split; [rewrite P | rewrite L]; assumption. Qed.

Section Sim2.
Variable code : list xcode.
Let nb : nat := length (blocks code).

Definition posrel (pc b : N) : Prop := (N.to_nat b <= length (blocks code))%nat /\ block_start code (N.to_nat b) = pc.

Lemma area_pos v : area_at code v -> posrel v (block_index code v).
Proof.
  intros (c & Hn & Ha). destruct (bstart_area code v c Hn Ha) as (H1 & H2 & _). split; [lia | exact H2].
Qed.

Lemma lbl_sim c pc t s1 : inv code s1 -> nth_error code (N.to_nat pc) = Some c -> has_area c = true ->
  exists pc' s' b', lbl c pc t s1 = ROk pc' s' /\ lbl c (block_index code pc) t (T code s1) = ROk b' (T code s') /\
                    inv code s' /\ posrel pc' b'.
Proof.
  intros Hi Hn Ha.
  destruct (bstart_area code pc c Hn Ha) as (Blt & Bst & Bnth).
  assert (FT : posrel (pc + 1) (block_index code pc + 1)).
  { split; [lia|]. replace (N.to_nat (block_index code pc + 1)) with (S (N.to_nat (block_index code pc))) by lia.
    rewrite (bstart_succ' code _ _ Bnth), Bst. cbn [length]. lia. }
  unfold lbl. destruct (t =? 0).
  { exists (pc + 1), s1, (block_index code pc + 1). split; [reflexivity|]. split; [reflexivity|]. split; assumption. }
  destruct (t =? 13).
  { unfold bind, get_latest. change (latest (T code s1)) with (trL code (latest s1)).
    destruct (latest s1) as [loc|] eqn:EL; cbn [trL option_map].
    - exists loc, s1, (block_index code loc). split; [reflexivity|]. split; [reflexivity|]. split; [exact Hi|].
      apply area_pos. apply (proj2 Hi). exact EL.
    - exists (pc + 1), s1, (block_index code pc + 1). split; [reflexivity|]. split; [reflexivity|]. split; assumption. }
  cbv zeta. unfold bind, get_point. change (points (T code s1)) with (trP code (points s1)). rewrite trP_get.
  set (id := xac c * 16 + t).
  destruct (alist_get (points s1) id) as [v|] eqn:EP; cbn [option_map].
  - assert (Av : area_at code v) by (eapply (proj1 Hi); exact EP). destruct (area_pos v Av) as [Vle Vst].
    destruct (pc =? v) eqn:E.
    + apply N.eqb_eq in E. subst v. rewrite N.eqb_refl.
      exists (pc + 1), s1, (block_index code pc + 1). split; [reflexivity|]. split; [reflexivity|]. split; assumption.
    + apply N.eqb_neq in E.
      assert (E' : (block_index code pc =? block_index code v) = false).
      { apply N.eqb_neq. intros X. apply E. rewrite <- Bst, <- Vst, X. reflexivity. }
      rewrite E'. unfold set_latest, ret.
      eexists v, _, (block_index code v). split; [reflexivity|]. split; [reflexivity|]. split.
      * destruct Hi as [H1 H2]. split; [exact H1|]. cbn [latest]. intros w Hw. injection Hw as <-. exists c. split; assumption.
      * split; assumption.
  - unfold set_point, ret.
    eexists (pc + 1), _, (block_index code pc + 1). split; [reflexivity|]. split.
    + unfold T. cbn [points latest]. rewrite trP_set. reflexivity.
    + split; [|exact FT]. destruct Hi as [H1 H2]. split; [|exact H2]. cbn [points]. intros id' w Hw.
      apply OptTerm.alist_get_set in Hw. destruct Hw as [[_ ->]|Hw]; [exists c; split; assumption | eapply H1; exact Hw].
Qed.

Lemma step_area c b s : inv code s -> (N.to_nat b < length (blocks code))%nat ->
  nth_error (blocks code) (N.to_nat b) = Some [c] -> has_area c = true ->
  nth_error code (N.to_nat (block_start code (N.to_nat b))) = Some c /\
  match execute_one c (block_start code (N.to_nat b)) s with
  | ROk pc' s' => exists b', execute_one c b (T code s) = ROk b' (T code s') /\ inv code s' /\ posrel pc' b'
  | RExit k s' => execute_one c b (T code s) = RExit k (T code s')
  | RErr e s' => execute_one c b (T code s) = RErr e (T code s')
  end.
Proof.
  intros Hi Hb Hc Ha.
  assert (Hn : nth_error code (N.to_nat (block_start code (N.to_nat b))) = Some c).
  { unfold block_start. rewrite Nat2N.id. eapply nth_error_mid. apply (block_split code _ _ Hc). }
  split; [exact Hn|].
  set (pc := block_start code (N.to_nat b)) in *.
  destruct (bstart_area code pc c Hn Ha) as (Blt & Bst & _).
  assert (Eb : b = block_index code pc).
  { apply N2Nat.inj. symmetry. apply (bstart_inj code); [lia | lia | exact Bst]. }
  rewrite !exec_split. unfold bind. rewrite prel_T.
  pose proof (ext_prel c s) as Hx.
  destruct (prel c s) as [t s1|k s1|e s1]; cbn [lift_res]; [|reflexivity|reflexivity].
  cbn [OptTerm.post] in Hx. destruct Hx as (HP & HL & _).
  assert (Hi1 : inv code s1) by (apply (inv_ext code s); assumption).
  destruct (lbl_sim c pc t s1 Hi1 Hn Ha) as (pc' & s' & b' & E1 & E2 & Hi' & Hp).
  rewrite E1. exists b'. rewrite Eb, E2. split; [reflexivity|]. split; assumption.
Qed.

(* ------------------------------------------------------------------ *)
(* the whole loop *)

Definition agrees (n : nat) (s : state) (pc : N) (y : irfinal) : Prop :=
  match y with
  | IFuel t => exists k s' pc', t = T code s' /\ (n <= k)%nat /\ forall f, run_pre (k + f) code s pc = run_pre f code s' pc'
  | IDone t => exists k s', t = T code s' /\ forall f, run_pre (k + f) code s pc = FDone s'
  | IExit c t => exists k s', t = T code s' /\ forall f, run_pre (k + f) code s pc = FExit c s'
  | IAbort m t => exists k s', t = T code s' /\ forall f, run_pre (k + f) code s pc = FErr (EEnc m) s'
  | IIoErr t => exists k s', t = T code s' /\ forall f, run_pre (k + f) code s pc = FErr EIo s'
  | IBadState => False
  end.

Lemma agrees_step n d s pc s1 pc1 y : (1 <= d)%nat ->
  (forall f, run_pre (d + f) code s pc = run_pre f code s1 pc1) -> agrees n s1 pc1 y -> agrees (S n) s pc y.
Proof.
  intros Hd H A. destruct y as [t|c t|m t|t|t|]; cbn [agrees] in *.
  - destruct A as (k & s' & E & R). exists (d + k)%nat, s'. split; [exact E|]. intros f. rewrite <- Nat.add_assoc, H. apply R.
  - destruct A as (k & s' & E & R). exists (d + k)%nat, s'. split; [exact E|]. intros f. rewrite <- Nat.add_assoc, H. apply R.
  - destruct A as (k & s' & E & R). exists (d + k)%nat, s'. split; [exact E|]. intros f. rewrite <- Nat.add_assoc, H. apply R.
  - destruct A as (k & s' & E & R). exists (d + k)%nat, s'. split; [exact E|]. intros f. rewrite <- Nat.add_assoc, H. apply R.
  - destruct A as (k & s' & pc' & E & L & R). exists (d + k)%nat, s', pc'. split; [exact E|]. split; [lia|].
    intros f. rewrite <- Nat.add_assoc, H. apply R.
  - exact A.
Qed.

Lemma sim p : ir_blocks p = blocks code -> forall n s b, inv code s -> (N.to_nat b <= length (blocks code))%nat ->
  agrees n s (block_start code (N.to_nat b)) (ir_loop n p (T code s) b).
Proof.
  intros Hp. induction n as [|n IH]; intros s b Hi Hb.
  - cbn [ir_loop agrees]. exists 0%nat, s, (block_start code (N.to_nat b)). split; [reflexivity|]. split; [lia|].
    intros f. reflexivity.
  - cbn [ir_loop]. rewrite Hp.
    destruct (N.of_nat (length (blocks code)) <=? b) eqn:E.
    + apply N.leb_le in E. assert (Hbn : N.to_nat b = length (blocks code)) by lia. rewrite Hbn, bstart_end.
      cbn [agrees]. exists 1%nat, s. split; [reflexivity|]. intros f. cbn [Nat.add run_pre]. rewrite N.leb_refl. reflexivity.
    + apply N.leb_gt in E. rewrite dispatch_selects by exact E.
      destruct (nth_lt_some code (N.to_nat b)) as [cmds Hc]; [lia|]. rewrite Hc.
      destruct (block_nth_ok code _ _ Hc) as [Hne [(c & -> & Ha)|Hfree]].
      * rewrite run_block_single.
        destruct (step_area c b s Hi ltac:(lia) Hc Ha) as [Hn Hs].
        destruct (execute_one c (block_start code (N.to_nat b)) s) as [pc' s'|k s'|e s'] eqn:Ex.
        -- destruct Hs as (b' & Eb & Hi' & Hle & Hst). rewrite Eb.
           apply (agrees_step n 1 s _ s' pc'); [lia| |].
           ++ intros f. cbn [Nat.add]. rewrite (run_pre_S code _ _ _ c Hn), Ex. reflexivity.
           ++ rewrite <- Hst. apply IH; assumption.
        -- rewrite Hs. cbn [agrees]. exists 1%nat, s'. split; [reflexivity|]. intros f. cbn [Nat.add].
           rewrite (run_pre_S code _ _ _ c Hn), Ex. reflexivity.
        -- rewrite Hs. destruct e as [m|]; cbn [agrees]; exists 1%nat, s'; (split; [reflexivity|]); intros f; cbn [Nat.add];
             rewrite (run_pre_S code _ _ _ c Hn), Ex; reflexivity.
      * rewrite (run_block_free code cmds b s Hfree).
        pose proof (run_pre_free cmds code _ _ s (block_split code _ _ Hc) Hfree) as R.
        pose proof (ext_run_seq cmds s) as Hx.
        fold (block_start code (N.to_nat b)) in R. rewrite <- (bstart_succ code _ _ Hc) in R.
        destruct (run_seq cmds s) as [u s'|k s'|e s']; cbn [OptTerm.post] in Hx; destruct Hx as (HP & HL & _).
        -- apply (agrees_step n (length cmds) s _ s' (block_start code (S (N.to_nat b)))).
           ++ apply (block_nonempty code _ _ Hc).
           ++ exact R.
           ++ replace (S (N.to_nat b)) with (N.to_nat (b + 1)) by lia. apply IH; [|lia].
              apply (inv_ext code s); assumption.
        -- cbn [agrees]. exists (length cmds), s'. split; [reflexivity | exact R].
        -- destruct e as [m|]; cbn [agrees]; exists (length cmds), s'; (split; [reflexivity | exact R]).
Qed.

End Sim2.

(* ------------------------------------------------------------------ *)
(* the two directions *)

Lemma inv_state0 code k input : inv code (state0 k input).
Proof. split; cbn; intros; discriminate. Qed.

Lemma ir_run_start k fuel code input :
  ir_run fuel (build_ir true 1 (state0 k input) [] code) input =
  ir_loop fuel (build_ir true 1 (state0 k input) [] code) (T code (state0 k input)) 0.
Proof. reflexivity. Qed.

Lemma start_agrees k fuel code input :
  agrees code fuel (state0 k input) 0 (ir_run fuel (build_ir true 1 (state0 k input) [] code) input).
Proof.
  rewrite ir_run_start.
  apply (sim code (build_ir true 1 (state0 k input) [] code) eq_refl fuel (state0 k input) 0).
  - apply inv_state0.
  - cbn. lia.
Qed.

Theorem compiled_complete : compiled_complete_stmt.
Proof.
  intros k fuel code input. pose proof (start_agrees k fuel code input) as A.
  destruct (ir_run fuel (build_ir true 1 (state0 k input) [] code) input) as [t|c t|m t|t|t|]; cbn [agrees] in A.
  - destruct A as (n & s' & -> & R). exists (n + 0)%nat. rewrite R. reflexivity.
  - destruct A as (n & s' & -> & R). exists (n + 0)%nat. rewrite R. reflexivity.
  - destruct A as (n & s' & -> & R). exists (n + 0)%nat. rewrite R. reflexivity.
  - destruct A as (n & s' & -> & R). exists (n + 0)%nat. rewrite R. reflexivity.
  - exact I.
  - exact A.
Qed.
Print Assumptions compiled_complete.

Lemma sound_aux k fuel code input x : run_pre fuel code (state0 k input) 0 = x -> nonfuel x ->
  ibeh (ir_run fuel (build_ir true 1 (state0 k input) [] code) input) = beh x.
Proof.
  intros Hx Hnf. pose proof (start_agrees k fuel code input) as A.
  assert (M : forall d, run_pre (fuel + d) code (state0 k input) 0 = x).
  { intros d. rewrite run_pre_more; [exact Hx | rewrite Hx; exact Hnf]. }
  destruct (ir_run fuel (build_ir true 1 (state0 k input) [] code) input) as [t|c t|m t|t|t|]; cbn [agrees] in A.
  - destruct A as (n & s' & -> & R). specialize (R fuel). rewrite Nat.add_comm, M in R. rewrite R. reflexivity.
  - destruct A as (n & s' & -> & R). specialize (R fuel). rewrite Nat.add_comm, M in R. rewrite R. reflexivity.
  - destruct A as (n & s' & -> & R). specialize (R fuel). rewrite Nat.add_comm, M in R. rewrite R. reflexivity.
  - destruct A as (n & s' & -> & R). specialize (R fuel). rewrite Nat.add_comm, M in R. rewrite R. reflexivity.
  - destruct A as (n & s' & pc' & -> & L & R). specialize (R 0%nat). cbn [run_pre] in R.
    replace (n + 0)%nat with (fuel + (n - fuel))%nat in R by lia. rewrite M in R. rewrite R in Hnf. contradiction Hnf.
  - contradiction A.
Qed.

Theorem compiled_sound : compiled_sound_stmt.
Proof.
  intros k fuel code input.
  destruct (run_pre fuel code (state0 k input) 0) as [s|c s|e s|s pc|s] eqn:Hx; try exact I;
    exists fuel; apply (sound_aux k fuel code input _ Hx); exact I.
Qed.
Print Assumptions compiled_sound.
