(* L1 (Model/Exec.v) refines L2 (Spec/Lang.v): one step, whole runs, initial states.
   The value-level facts are premises (proved elsewhere). *)
From Coq Require Import List NArith ZArith QArith Lia Bool.
Import ListNotations.
From HV Require Import Model.Big Model.Rat Model.NumText Model.Chars Model.Parse Model.Exec Spec.Lang Proofs.RatSpec Proofs.ExecSpec.
Open Scope N_scope.

(* ---- the L2 side written with a bind ---- *)
Definition sbind {A B} (r : sres A) (g : A -> lstate -> sres B) : sres B :=
  match r with SOk b t => g b t | SExit k t => SExit k t | SErr e t => SErr e t end.

Lemma res_rel_bind {A A' B B'} (P : A -> A' -> Prop) (Q : B -> B' -> Prop)
  (m : M A) (f : A -> M B) s1 (r2 : sres A') (g : A' -> lstate -> sres B') :
  res_rel P (m s1) r2 ->
  (forall a b t1 t2, m s1 = ROk a t1 -> r2 = SOk b t2 -> P a b -> R t1 t2 -> res_rel Q (f a t1) (g b t2)) ->
  res_rel Q (bind m f s1) (sbind r2 g).
Proof.
  intros H K. unfold bind, sbind.
  destruct (m s1) as [a t1|k t1|e t1], r2 as [b t2|k2 t2|e2 t2]; cbn in H; try contradiction.
  - destruct H as [HP HR]. apply K; auto.
  - exact H.
  - exact H.
Qed.

Lemma res_rel_mono {A A'} (P Q : A -> A' -> Prop) r1 r2 :
  (forall a b, P a b -> Q a b) -> res_rel P r1 r2 -> res_rel Q r1 r2.
Proof.
  intros HPQ. destruct r1, r2; cbn; auto. intros [H1 H2]; split; auto.
Qed.

Lemma sbind_assoc {A B C} (r : sres A) (g : A -> lstate -> sres B) (h : B -> lstate -> sres C) :
  sbind (sbind r g) h = sbind r (fun a s => sbind (g a s) h).
Proof. destruct r; reflexivity. Qed.

Lemma sbind_ret {A} (r : sres A) : sbind r (fun a s => SOk a s) = r.
Proof. destruct r; reflexivity. Qed.

Lemma sbind_ext {A B} (r : sres A) (g g' : A -> lstate -> sres B) :
  (forall a s, g a s = g' a s) -> sbind r g = sbind r g'.
Proof. intros H. destruct r; cbn; auto. Qed.

(* ---- association lists ---- *)
Lemma alist_get_set {V} (l : list (N * V)) k v k' :
  alist_get (alist_set l k v) k' = if k' =? k then Some v else alist_get l k'.
Proof.
  induction l as [|[k0 v0] r IH]; cbn [alist_get alist_set].
  - rewrite (N.eqb_sym k k'). destruct (k' =? k); reflexivity.
  - destruct (N.eqb_spec k0 k) as [->|Hne]; cbn [alist_get].
    + rewrite (N.eqb_sym k k'). destruct (k' =? k); reflexivity.
    + rewrite IH. destruct (N.eqb_spec k0 k'), (N.eqb_spec k' k); subst; try reflexivity; congruence.
Qed.

Lemma lookup_update {V} (l : list (N * V)) k v k' :
  lookup (update l k v) k' = if k' =? k then Some v else lookup l k'.
Proof.
  induction l as [|[k0 v0] r IH]; cbn [lookup update].
  - rewrite (N.eqb_sym k k'). destruct (k' =? k); reflexivity.
  - destruct (N.eqb_spec k0 k) as [->|Hne]; cbn [lookup].
    + rewrite (N.eqb_sym k k'). destruct (k' =? k); reflexivity.
    + rewrite IH. destruct (N.eqb_spec k0 k'), (N.eqb_spec k' k); subst; try reflexivity; congruence.
Qed.

Lemma update_update {V} (l : list (N * V)) k v w : update (update l k v) k w = update l k w.
Proof.
  induction l as [|[k0 v0] r IH]; cbn [update].
  - rewrite N.eqb_refl. reflexivity.
  - destruct (N.eqb_spec k0 k) as [->|Hne]; cbn [update].
    + rewrite N.eqb_refl. reflexivity.
    + destruct (N.eqb_spec k0 k); [contradiction|]. rewrite IH. reflexivity.
Qed.

Lemma get_stack_set s i l j : get_stack (set_stack s i l) j = if j =? i then l else get_stack s j.
Proof.
  unfold get_stack, set_stack; cbn [stacks]. rewrite alist_get_set. destruct (j =? i); reflexivity.
Qed.

Lemma sget_sset s i l j : sget (sset s i l) j = if j =? i then l else sget s j.
Proof.
  unfold sget, sset; cbn [stk]. rewrite lookup_update. destruct (j =? i); reflexivity.
Qed.

Lemma sset_sset s i l l' : sset (sset s i l) i l' = sset s i l'.
Proof. unfold sset; cbn. rewrite update_update. reflexivity. Qed.

Lemma R_Rio s1 s2 : R s1 s2 -> Rio s1 s2.
Proof. intros H; split; [apply (R_out _ _ H)|apply (R_err _ _ H)]. Qed.

Lemma R_set s1 s2 i l1 : R s1 s2 -> (forall x, In x l1 -> wfn x) ->
  R (set_stack s1 i l1) (sset s2 i (map vof l1)).
Proof.
  intros HR Hl. destruct HR as [Hk Hw Hs Hc Hp Hl' Hi His Ho He].
  constructor; try assumption.
  - intros j x. rewrite get_stack_set. destruct (j =? i); auto. apply Hw.
  - intros j. rewrite get_stack_set, sget_sset. destruct (j =? i); auto.
Qed.

Lemma bind_get_cur {A} (f : N -> M A) s : bind get_cur f s = f (cur s) s.
Proof. reflexivity. Qed.

Lemma iterM_succ {A} n (f : A -> M A) a : iterM (N.succ n) f a = bind (iterM n f a) f.
Proof. unfold iterM. rewrite N.iter_succ. reflexivity. Qed.

Lemma iterM_0 {A} (f : A -> M A) a : iterM 0 f a = ret a.
Proof. reflexivity. Qed.

(* ---- pure L2 facts ---- *)
Lemma spops_S m i s :
  spops (S m) i s = sbind (spop i s) (fun v s' => sbind (spops m i s') (fun l s'' => SOk (v :: l) s'')).
Proof. reflexivity. Qed.

Lemma spops_snoc m : forall i s,
  spops (S m) i s = sbind (spops m i s) (fun l s' => sbind (spop i s') (fun v s'' => SOk (l ++ [v]) s'')).
Proof.
  induction m as [|m IH]; intros i s.
  - cbn [spops]. unfold sbind. destruct (spop i s); reflexivity.
  - rewrite spops_S. rewrite (spops_S m).
    rewrite sbind_assoc. apply sbind_ext. intros v s'.
    rewrite IH. rewrite !sbind_assoc. apply sbind_ext. intros l s''.
    cbn [sbind]. rewrite sbind_assoc. apply sbind_ext. intros w s3. reflexivity.
Qed.

Lemma spushes_cons i v r s :
  spushes i (v :: r) s = sbind (spush i v s) (fun _ s' => spushes i r s').
Proof. reflexivity. Qed.

Lemma spushes_app i l1 : forall l2 s,
  spushes i (l1 ++ l2) s = sbind (spushes i l1 s) (fun _ s' => spushes i l2 s').
Proof.
  induction l1 as [|v r IH]; intros l2 s.
  - reflexivity.
  - cbn [app]. rewrite !spushes_cons, sbind_assoc. apply sbind_ext. intros _ s'. apply IH.
Qed.

Lemma repeat_snoc {A} (v : A) n : repeat v (S n) = repeat v n ++ [v].
Proof. induction n as [|n IH]; [reflexivity|]. cbn [repeat app] in *. rewrite <- IH. reflexivity. Qed.

Lemma spop_sel i s v s' : spop i s = SOk v s' -> sel s' = sel s.
Proof.
  unfold spop. destruct (i =? 1); [discriminate|]. destruct (i =? 2); [discriminate|].
  set (refill := if (i =? 0) && _ then _ else _).
  assert (Hr : forall t, refill = inl t -> sel t = sel s).
  { subst refill. destruct (_ && _).
    - destruct (input s) as [|[line|] r]; intros t E; inversion E; [reflexivity|]. destruct line; reflexivity.
    - intros t E; inversion E; reflexivity. }
  destruct refill as [t|t]; [|discriminate]. specialize (Hr t eq_refl).
  destruct (sget t i); intros E; inversion E; subst; cbn; auto.
Qed.

Lemma spush_vnat_0 a s : spush 0 (vnat a) s = SOk tt (sset s 0 (vnat a :: sget s 0)).
Proof. unfold spush. cbn. destruct (sget s 0); reflexivity. Qed.

Lemma spushes_vnat l : forall a s,
  spushes 0 (map vnat (a :: l)) s = SOk tt (sset s 0 (rev (map vnat (a :: l)) ++ sget s 0)).
Proof.
  induction l as [|b l IH]; intros a s.
  - cbn [map rev app spushes]. rewrite spush_vnat_0. reflexivity.
  - change (map vnat (a :: b :: l)) with (vnat a :: map vnat (b :: l)).
    rewrite spushes_cons, spush_vnat_0. cbn [sbind]. rewrite IH.
    rewrite sset_sset, sget_sset. cbn [N.eqb rev]. rewrite <- app_assoc. reflexivity.
Qed.

Lemma spushes_line line s : sget s 0 = [] ->
  spushes 0 (map vnat (rev line)) s = SOk tt (match line with [] => s | _ => sset s 0 (map vnat line) end).
Proof.
  intros He. destruct line as [|c line']; [reflexivity|].
  destruct (rev (c :: line')) as [|a l] eqn:E.
  - apply (f_equal (@length N)) in E. rewrite rev_length in E. discriminate.
  - rewrite spushes_vnat, He, app_nil_r, <- E, map_rev, rev_involutive. reflexivity.
Qed.

Section Step.
Hypothesis Hadd : vof_add_stmt.
Hypothesis Hmul : vof_mul_stmt.
Hypothesis Hneg : vof_neg_stmt.
Hypothesis Hflip : vof_flip_stmt.
Hypothesis Hnat : vof_nat_stmt.
Hypothesis Hconsts : vof_consts_stmt.
Hypothesis Hnan : vof_nan_stmt.
Hypothesis Hcmp : vof_cmp_stmt.
Hypothesis Hout : vof_out_stmt.
Hypothesis Htext : vof_text_stmt.
Hypothesis Hscalar : scalar_stmt.

Lemma wfn_nan : wfn nan. Proof. apply Hconsts. Qed.
Lemma vof_nan : vof nan = VNaN. Proof. apply Hconsts. Qed.
Lemma wfn_nzero : wfn nzero. Proof. apply Hconsts. Qed.
Lemma vof_nzero : vof nzero = vnat 0. Proof. apply Hconsts. Qed.
Lemma wfn_none : wfn n_one. Proof. apply Hconsts. Qed.
Lemma vof_none : vof n_one = vnat 1. Proof. apply Hconsts. Qed.

(* ---- stack primitives ---- *)
Lemma push_stack_sim i x s1 s2 : R s1 s2 -> wfn x -> (i =? 1) || (i =? 2) = false ->
  res_rel (fun _ _ : unit => True) (push_stack i x s1) (spush i (vof x) s2).
Proof.
  intros HR Hx Hi. unfold push_stack, in_range, spush. rewrite (R_kind _ _ HR), Hi.
  rewrite <- (R_stk _ _ HR i). pose proof (R_wf _ _ HR i) as Hw.
  destruct (get_stack s1 i) as [|y r] eqn:E; cbn [map].
  - destruct (is_nan x) eqn:En.
    + apply (Hnan x Hx) in En. rewrite En. cbn. auto.
    + destruct (vof x) as [|q] eqn:Ev.
      * apply (Hnan x Hx) in Ev. congruence.
      * cbn [res_rel]. split; auto. rewrite <- Ev. apply (R_set s1 s2 i [x] HR).
        intros z [<-|[]]; auto.
  - assert (HR' : R (set_stack s1 i (x :: y :: r)) (sset s2 i (vof x :: vof y :: map vof r))).
    { apply (R_set s1 s2 i (x :: y :: r) HR). intros z [<-|Hz]; auto. }
    destruct (vof x); cbn [res_rel]; auto.
Qed.

Lemma write_out_sim i txt s1 s2 : R s1 s2 -> (i =? 1) || (i =? 2) = true ->
  res_rel (fun _ _ : unit => True) (write_out (i =? 2) txt s1)
    (SOk tt (if i =? 1 then mklstate (stk s2) (sel s2) (labels s2) (lastj s2) (input s2) (out s2 ++ txt) (err s2)
             else mklstate (stk s2) (sel s2) (labels s2) (lastj s2) (input s2) (out s2) (err s2 ++ txt))).
Proof.
  intros HR Hi. destruct HR as [Hk Hw Hs Hc Hp Hl' Hin His Ho He].
  destruct (N.eqb_spec i 1) as [->|H1].
  - change (1 =? 2) with false. unfold write_out. cbn [res_rel]. split; auto.
    constructor; try assumption. cbn [outb out]. rewrite rev_app_distr, rev_involutive. congruence.
  - cbn [orb] in Hi. rewrite Hi. unfold write_out. cbn [res_rel]. split; auto.
    constructor; try assumption. cbn [errb err]. rewrite rev_app_distr, rev_involutive. congruence.
Qed.

Lemma push_wrap_sim i x s1 s2 : R s1 s2 -> wfn x ->
  res_rel (fun _ _ : unit => True) (push_wrap i x s1) (spush i (vof x) s2).
Proof.
  intros HR Hx. unfold push_wrap.
  destruct ((i =? 1) || (i =? 2)) eqn:Hi; [|apply push_stack_sim; auto].
  unfold spush. rewrite Hi. cbv zeta.
  pose proof (Hout x Hx) as Ho. destruct (Hneg x Hx) as (Hwn & Hvn & _).
  pose proof (Htext _ Hwn) as Ht. rewrite Hvn in Ht.
  destruct (vof x) as [|q] eqn:Ev.
  - rewrite Ho, Ht. apply write_out_sim; auto.
  - destruct Ho as [Hp Hfl]. rewrite Hp. destruct (Qle_bool 0 q) eqn:Hq.
    + unfold num_to_unicode. rewrite (Hfl eq_refl), Hscalar.
      destruct (scalar _) eqn:Hsc.
      * apply write_out_sim; auto.
      * unfold fail. cbn [res_rel err_rel]. split; auto. apply R_Rio; auto.
    + rewrite Ht. apply write_out_sim; auto.
Qed.

Lemma pop_stack_sim i s1 s2 : R s1 s2 ->
  res_rel (fun a b => wfn a /\ vof a = b) (pop_stack i s1)
    (match sget s2 i with [] => SOk VNaN s2 | v :: l => SOk v (sset s2 i l) end).
Proof.
  intros HR. unfold pop_stack, in_range. rewrite (R_kind _ _ HR), <- (R_stk _ _ HR i).
  pose proof (R_wf _ _ HR i) as Hw.
  destruct (get_stack s1 i) as [|x r]; cbn [map res_rel].
  - split; [split; [apply wfn_nan|apply vof_nan]|exact HR].
  - split; [split; [apply Hw; left|]; reflexivity|].
    apply R_set; auto. intros z Hz. apply Hw. right; auto.
Qed.

Lemma push_all_sim l : forall s1 s2, R s1 s2 -> (forall c, In c l -> c < 2 ^ 63) ->
  res_rel (fun _ _ : unit => True) (push_all 0 l s1) (spushes 0 (map vnat l) s2).
Proof.
  induction l as [|c r IH]; intros s1 s2 HR Hl.
  - cbn. auto.
  - cbn [push_all map]. rewrite spushes_cons.
    destruct (Hnat c (Hl c (or_introl eq_refl))) as [Hw Hv].
    apply res_rel_bind with (P := fun _ _ : unit => True).
    + rewrite <- Hv. apply push_stack_sim; auto.
    + intros _ _ t1 t2 _ _ _ HR'. apply IH; auto. intros c' Hc'. apply Hl. right; auto.
Qed.

Lemma pop_wrap_sim i s1 s2 : R s1 s2 ->
  res_rel (fun a b => wfn a /\ vof a = b) (pop_wrap i s1) (spop i s2).
Proof.
  intros HR. unfold pop_wrap, spop.
  destruct (N.eqb_spec i 1) as [->|H1].
  { cbn. split; auto. apply R_Rio; auto. }
  destruct (N.eqb_spec i 2) as [->|H2].
  { cbn. split; auto. apply R_Rio; auto. }
  destruct (N.eqb_spec i 0) as [->|H0]; [|cbn [andb]; apply pop_stack_sim; auto].
  cbn [andb]. pose proof (R_stk _ _ HR 0) as Hs0.
  destruct (get_stack s1 0) as [|x0 r0] eqn:E0.
  2:{ pose proof (pop_stack_sim 0 s1 s2 HR) as Hp. rewrite <- Hs0 in Hp. rewrite <- Hs0. cbn [map] in Hp. cbn [map]. cbv iota. rewrite <- Hs0. cbn [map]. exact Hp. }
  rewrite <- Hs0. cbn [map]. unfold bind at 1. unfold read_line.
  pose proof (R_inp _ _ HR) as Hin. pose proof (R_inp_small _ _ HR) as Hsm.
  rewrite <- Hin. destruct (inp s1) as [|[line|] rest] eqn:Ei.
  - change (push_all 0 (rev [])) with (@ret unit tt). unfold bind, ret. apply pop_stack_sim; auto.
  - set (t1 := mkstate _ _ _ _ _ rest _ _). set (t2 := mklstate _ _ _ _ rest _ _).
    assert (HR1 : R t1 t2).
    { destruct HR as [Hk Hw Hs Hc Hp Hl' Hin' His Ho He]. subst t1 t2.
      constructor; try assumption.
      - cbn [inp input]. rewrite Ei in Hin'. congruence.
      - cbn [inp]. intros ln c Hln Hc'. apply (His ln c); auto. rewrite Ei. right; auto. }
    assert (He2 : sget t2 0 = []) by (subst t2; unfold sget in *; cbn [stk]; auto).
    pose proof (push_all_sim (rev line) t1 t2 HR1) as Hpa.
    rewrite (spushes_line line t2 He2) in Hpa.
    change (bind (push_all 0 (rev line)) (fun _ => pop_stack 0) t1) with
      (match push_all 0 (rev line) t1 with ROk a s' => pop_stack 0 s' | RExit c s' => RExit c s' | RErr e s' => RErr e s' end).
    destruct (push_all 0 (rev line) t1) as [u t1'|k t1'|e t1']; cbn [res_rel] in Hpa.
    + apply pop_stack_sim. apply Hpa.
      intros c Hc. apply (Hsm line c); [left; reflexivity|]. apply in_rev; auto.
    + exfalso. apply Hpa. intros c Hc. apply (Hsm line c); [left; reflexivity|]. apply in_rev; auto.
    + exfalso. apply Hpa. intros c Hc. apply (Hsm line c); [left; reflexivity|]. apply in_rev; auto.
  - cbn [res_rel err_rel]. split; auto. destruct HR. split; cbn; auto.
Qed.

(* ---- n pops with an accumulator ---- *)
Lemma iter_pops {A} (Inv : A -> list value -> Prop) (g : A -> num -> A) i a0 :
  Inv a0 [] ->
  (forall acc l v, Inv acc l -> wfn v -> Inv (g acc v) (l ++ [vof v])) ->
  forall n s1 s2, R s1 s2 ->
  res_rel Inv (iterM n (fun acc => bind (pop_wrap i) (fun v => ret (g acc v))) a0 s1) (spops (N.to_nat n) i s2).
Proof.
  intros H0 Hstep n. induction n as [|n IH] using N.peano_ind; intros s1 s2 HR.
  - cbn. auto.
  - rewrite iterM_succ, N2Nat.inj_succ, spops_snoc.
    apply res_rel_bind with (P := Inv); [apply IH; auto|].
    intros acc l t1 t2 _ _ Hinv HR1.
    apply res_rel_bind with (P := fun a b => wfn a /\ vof a = b); [apply pop_wrap_sim; auto|].
    intros v v' u1 u2 _ _ [Hwv Hv] HR2. cbn [ret res_rel]. split; auto. rewrite <- Hv. auto.
Qed.

(* ---- the restore loops of kinds 3 and 4 ---- *)
Lemma restore_sim (g : num -> num) (g' : value -> value) (op : num -> num -> num) (op' : value -> value -> value) cs :
  (forall x, wfn x -> wfn (g x) /\ vof (g x) = g' (vof x)) ->
  (forall a b, wfn a -> wfn b -> wfn (op a b) /\ vof (op a b) = op' (vof a) (vof b)) ->
  forall v (m0 : M num) s1 (r2 : sres value), (forall x, In x v -> wfn x) ->
  res_rel (fun a b => wfn a /\ vof a = b) (m0 s1) r2 ->
  res_rel (fun a b => wfn a /\ vof a = b)
    (fold_left (fun (m : M num) x => bind m (fun n => let x' := g x in
                 bind (push_wrap cs x') (fun _ => ret (op n x')))) v m0 s1)
    (sbind r2 (fun a s => sbind (spushes cs (map g' (map vof v)) s)
                            (fun _ s' => SOk (fold_left op' (map g' (map vof v)) a) s'))).
Proof.
  intros Hg Hop v. induction v as [|x v IH]; intros m0 s1 r2 Hv H0.
  - cbn [fold_left map spushes sbind]. rewrite sbind_ret. exact H0.
  - cbn [fold_left map].
    destruct (Hg x (Hv x (or_introl eq_refl))) as [Hwg Hvg].
    specialize (IH (bind m0 (fun n => let x' := g x in bind (push_wrap cs x') (fun _ => ret (op n x')))) s1
      (sbind r2 (fun a s => sbind (spush cs (g' (vof x)) s) (fun _ s' => SOk (op' a (g' (vof x))) s')))).
    rewrite sbind_assoc in IH.
    erewrite sbind_ext; [apply IH|].
    + intros y Hy. apply Hv. right; auto.
    + apply res_rel_bind with (P := fun a b => wfn a /\ vof a = b); [exact H0|].
      intros a b t1 t2 _ _ [Hwa Hva] HR1. cbv zeta.
      apply res_rel_bind with (P := fun _ _ : unit => True).
      * rewrite <- Hvg. apply push_wrap_sim; auto.
      * intros _ _ u1 u2 _ _ _ HR2. cbn [ret res_rel]. split; auto.
        destruct (Hop a (g x) Hwa Hwg) as [Hw1 Hv1]. split; auto. rewrite Hv1, Hvg, Hva. reflexivity.
    + intros a s. cbn beta. rewrite spushes_cons, !sbind_assoc. apply sbind_ext. intros _ s'.
      cbn [sbind fold_left]. reflexivity.
Qed.

(* ---- kind 5: repeated pushes ---- *)
Lemma iter_pushes d x : wfn x -> forall n s1 s2, R s1 s2 ->
  res_rel (fun _ _ : unit => True) (iterM n (fun _ => push_wrap d x) tt s1) (spushes d (repeat (vof x) (N.to_nat n)) s2).
Proof.
  intros Hx n. induction n as [|n IH] using N.peano_ind; intros s1 s2 HR.
  - cbn. auto.
  - rewrite iterM_succ, N2Nat.inj_succ, repeat_snoc, spushes_app.
    apply res_rel_bind with (P := fun _ _ : unit => True); [apply IH; auto|].
    intros _ _ t1 t2 _ _ _ HR1. cbn [spushes].
    pose proof (push_wrap_sim d x t1 t2 HR1 Hx) as Hp.
    destruct (push_wrap d x t1), (spush d (vof x) t2); cbn in *; auto.
Qed.

(* ---- the six command bodies ---- *)
Definition U (_ _ : unit) : Prop := True.

Lemma kind0_sim c s1 s2 : R s1 s2 -> small c ->
  res_rel U (push_wrap (cur s1) (nmul (from_num (Z.of_N (xhc c))) (from_num (Z.of_N (xdc c)))) s1)
            (spush (sel s2) (vmul (vnat (xhc c)) (vnat (xdc c))) s2).
Proof.
  intros HR (Hh & Hd & _). destruct (Hnat _ Hh) as [Hw1 Hv1]. destruct (Hnat _ Hd) as [Hw2 Hv2].
  destruct (Hmul _ _ Hw1 Hw2) as [Hw Hv]. rewrite <- Hv1, <- Hv2, <- Hv, (R_cur _ _ HR).
  apply push_wrap_sim; auto.
Qed.

Lemma fold_sim (op : num -> num -> num) (op' : value -> value -> value) i a0 a0' :
  (forall a b, wfn a -> wfn b -> wfn (op a b) /\ vof (op a b) = op' (vof a) (vof b)) ->
  wfn a0 -> vof a0 = a0' ->
  forall n d s1 s2, R s1 s2 ->
  res_rel U (bind (iterM n (fun acc => bind (pop_wrap i) (fun v => ret (op acc v))) a0) (fun acc => push_wrap d acc) s1)
            (sbind (spops (N.to_nat n) i s2) (fun l s' => spush d (fold_left op' l a0') s')).
Proof.
  intros Hop Hw0 Hv0 n d s1 s2 HR.
  apply res_rel_bind with (P := fun acc l => wfn acc /\ vof acc = fold_left op' l a0').
  - apply iter_pops; auto.
    intros acc l v [Hwa Hva] Hwv. destruct (Hop acc v Hwa Hwv) as [Hw Hv]. split; auto.
    rewrite fold_left_app. cbn [fold_left]. rewrite Hv, Hva. reflexivity.
  - intros acc l t1 t2 _ _ [Hwa Hva] HR1. rewrite <- Hva. apply push_wrap_sim; auto.
Qed.

Lemma unfold_sim (g : num -> num) (g' : value -> value) (op : num -> num -> num) (op' : value -> value -> value) a0 a0' :
  (forall x, wfn x -> wfn (g x) /\ vof (g x) = g' (vof x)) ->
  (forall a b, wfn a -> wfn b -> wfn (op a b) /\ vof (op a b) = op' (vof a) (vof b)) ->
  wfn a0 -> vof a0 = a0' ->
  forall n cs d s1 s2, R s1 s2 ->
  res_rel U
    (bind (iterM n (fun v => bind (pop_wrap cs) (fun x => ret (x :: v))) [])
       (fun v => bind (fold_left (fun (m : M num) x => bind m (fun n => let x' := g x in
                                    bind (push_wrap cs x') (fun _ => ret (op n x')))) v (ret a0))
                   (fun n => push_wrap d n)) s1)
    (sbind (spops (N.to_nat n) cs s2) (fun l s' =>
       sbind (spushes cs (map g' (rev l)) s') (fun _ s'' => spush d (fold_left op' (map g' (rev l)) a0') s''))).
Proof.
  intros Hg Hop Hw0 Hv0 n cs d s1 s2 HR.
  apply res_rel_bind with (P := fun v l => (forall x, In x v -> wfn x) /\ map vof v = rev l).
  - apply iter_pops with (g := fun v x => x :: v); auto.
    + split; auto. intros x [].
    + intros acc l v [Hwa Hva] Hwv. split.
      * intros x [<-|Hx]; auto.
      * rewrite rev_app_distr. cbn [rev app map]. rewrite Hva. reflexivity.
  - intros v l t1 t2 _ _ [Hwv Hvv] HR1. rewrite <- Hvv.
    pose proof (restore_sim g g' op op' cs Hg Hop v (ret a0) t1 (SOk a0' t2) Hwv) as Hrs.
    cbn [sbind] in Hrs.
    assert (Hs : forall (r : sres unit) a,
               sbind r (fun _ s'' => spush d a s'') = sbind (sbind r (fun _ s' => SOk a s')) (fun n s => spush d n s)).
    { intros r a. destruct r; reflexivity. }
    rewrite Hs.
    apply res_rel_bind with (P := fun a b => wfn a /\ vof a = b).
    + apply Hrs. cbn [ret res_rel]. auto.
    + intros a b u1 u2 _ _ [Hwa Hva] HR2. rewrite <- Hva. apply push_wrap_sim; auto.
Qed.

Lemma kind5_sim c s1 s2 : R s1 s2 ->
  res_rel U
    (bind (pop_wrap (cur s1)) (fun n =>
       bind (iterM (xhc c) (fun _ => push_wrap (xdc c) n) tt) (fun _ =>
       bind (push_wrap (cur s1) n) (fun _ => set_cur (xdc c)))) s1)
    (sbind (spop (sel s2) s2) (fun v s' =>
       sbind (spushes (xdc c) (repeat v (N.to_nat (xhc c))) s') (fun _ s'' =>
       sbind (spush (sel s2) v s'') (fun _ s3 =>
         SOk tt (mklstate (stk s3) (xdc c) (labels s3) (lastj s3) (input s3) (out s3) (err s3)))))).
Proof.
  intros HR. rewrite (R_cur _ _ HR).
  apply res_rel_bind with (P := fun a b => wfn a /\ vof a = b); [apply pop_wrap_sim; auto|].
  intros n v t1 t2 _ _ [Hwn <-] HR1.
  apply res_rel_bind with (P := U); [apply iter_pushes; auto|].
  intros _ _ u1 u2 _ _ _ HR2.
  apply res_rel_bind with (P := U); [apply push_wrap_sim; auto|].
  intros _ _ w1 w2 _ _ _ HR3. unfold set_cur. cbn [res_rel]. split; [exact I|].
  destruct HR3 as [Hk Hw Hs Hc Hp Hl' Hin His Ho He]. constructor; try assumption. reflexivity.
Qed.

Lemma neg_ok x : wfn x -> wfn (nminus x) /\ vof (nminus x) = vneg (vof x).
Proof. intros Hx. destruct (Hneg x Hx) as (H1 & H2 & H3). rewrite H3. auto. Qed.

Lemma body_sim c s1 s2 : R s1 s2 -> small c ->
  res_rel U (body c s1) (scommand (xty c) (xhc c) (xdc c) s2).
Proof.
  intros HR Hsm. unfold body. rewrite bind_get_cur. unfold scommand. cbv zeta.
  pose proof (R_cur _ _ HR) as Hc.
  pose proof (kind5_sim c s1 s2 HR) as K5.
  destruct (xty c) as [|[[p|p|]|[[p|p|]|[p|p|]|]|]]; cbv beta iota; try exact K5.
  - exact (kind0_sim c s1 s2 HR Hsm).
  - rewrite Hc. exact (unfold_sim nminus vneg nadd vadd nzero (vnat 0) neg_ok Hadd wfn_nzero vof_nzero (xhc c) (sel s2) (xdc c) s1 s2 HR).
  - rewrite Hc. exact (unfold_sim nflip vrecip nmul vmul n_one (vnat 1) Hflip Hmul wfn_none vof_none (xhc c) (sel s2) (xdc c) s1 s2 HR).
  - rewrite Hc. exact (fold_sim nmul vmul (sel s2) n_one (vnat 1) Hmul wfn_none vof_none (xhc c) (xdc c) s1 s2 HR).
  - rewrite Hc. exact (fold_sim nadd vadd (sel s2) nzero (vnat 0) Hadd wfn_nzero vof_nzero (xhc c) (xdc c) s1 s2 HR).
Qed.

(* ---- the area ---- *)
Lemma calc_sim cnt (a : area) : cnt < 2 ^ 63 -> forall s1 s2, R s1 s2 ->
  res_rel (fun t1 t2 : N => t1 = t2) (calc a cnt (pop_wrap (sel s2)) s1) (sarea a cnt s2).
Proof.
  intros Hcnt. induction a as [|t l IHl r IHr]; intros s1 s2 HR.
  - cbn. auto.
  - cbn [calc sarea]. destruct (t =? 0).
    + apply res_rel_bind with (P := fun a b => wfn a /\ vof a = b); [apply pop_wrap_sim; auto|].
      intros v v' t1 t2 _ E2 [Hwv <-] HR1. apply spop_sel in E2. rewrite <- E2.
      destruct (Hcmp v cnt Hwv Hcnt) as [Hlt _]. rewrite <- Hlt.
      destruct (ncmp v (from_num (Z.of_N cnt))) as [[| |]|]; auto.
    + destruct (t =? 1).
      * apply res_rel_bind with (P := fun a b => wfn a /\ vof a = b); [apply pop_wrap_sim; auto|].
        intros v v' t1 t2 _ E2 [Hwv <-] HR1. apply spop_sel in E2. rewrite <- E2.
        destruct (Hcmp v cnt Hwv Hcnt) as [_ Heq]. rewrite <- Heq.
        destruct (ncmp v (from_num (Z.of_N cnt))) as [[| |]|]; auto.
      * cbn. auto.
Qed.

Theorem step_refines : step_refines_stmt.
Proof.
  intros c pc s1 s2 HR Hsm. unfold execute_one, sstep.
  apply res_rel_bind with (P := U); [apply body_sim; auto|].
  intros _ _ t1 t2 _ _ _ HR1. rewrite bind_get_cur, (R_cur _ _ HR1).
  apply res_rel_bind with (P := fun a b : N => a = b); [apply calc_sim; auto; apply Hsm|].
  intros t t' u1 u2 _ _ <- HR2.
  destruct (t =? 0). { cbn [ret res_rel]. auto. }
  destruct (t =? 13).
  { unfold bind, get_latest. rewrite (R_lat _ _ HR2). destruct (lastj u2); cbn [ret res_rel]; auto. }
  cbv zeta. unfold bind at 1. unfold get_point. rewrite (R_pts _ _ HR2).
  destruct (lookup (labels u2) (xac c * 16 + t)) as [j|] eqn:El.
  - rewrite (N.eqb_sym pc j). destruct (j =? pc). { cbn [ret res_rel]. auto. }
    unfold bind, set_latest, ret. cbn [res_rel]. split; auto.
    destruct HR2 as [Hk Hw Hs Hc Hp Hl' Hin His Ho He]. constructor; try assumption. reflexivity.
  - unfold bind, set_point, ret. cbn [res_rel]. split; auto.
    destruct HR2 as [Hk Hw Hs Hc Hp Hl' Hin His Ho He]. constructor; try assumption.
    cbn [points labels]. intros id. rewrite alist_get_set, lookup_update, Hp. reflexivity.
Qed.

Theorem run_refines : run_refines_stmt.
Proof.
  intros fuel. induction fuel as [|f IH]; intros code s1 s2 pc HR Hall.
  - cbn. auto.
  - cbn [run_pre srun].
    destruct (N.leb_spec (N.of_nat (length code)) pc) as [Hle|Hlt].
    + assert (Hn : nth_error (map scmd_of_xcode code) (N.to_nat pc) = None).
      { apply nth_error_None. rewrite map_length. lia. }
      rewrite Hn. cbn. exact HR.
    + destruct (nth_error code (N.to_nat pc)) as [c|] eqn:En.
      2:{ apply nth_error_None in En. lia. }
      rewrite (map_nth_error scmd_of_xcode _ _ En).
      assert (Hsm : small c). { rewrite Forall_forall in Hall. apply Hall. eapply nth_error_In; eauto. }
      pose proof (step_refines c pc s1 s2 HR Hsm) as Hst.
      cbn [scmd_of_xcode sk sn sd scount sa].
      destruct (execute_one c pc s1) as [p1 t1|k1 t1|e1 t1],
               (sstep (xty c) (xhc c) (xdc c) (xac c) (xar c) pc s2) as [p2 t2|k2 t2|e2 t2];
        cbn [res_rel] in Hst; try contradiction.
      * destruct Hst as [<- HR1]. apply IH; auto.
      * exact Hst.
      * exact Hst.
Qed.

End Step.

Theorem R_init : R_init_stmt.
Proof.
  intros input Hsm. unfold state0, lstate0. constructor; cbn; auto.
  intros i x [].
Qed.

Print Assumptions step_refines.
Print Assumptions run_refines.
Print Assumptions R_init.
