(* C13: the command-line paths of the model never reach a panic site. *)
From Coq Require Import List NArith ZArith Lia Bool.
Import ListNotations.
From HV Require Import Model.Big Model.Rat Model.NumText Model.Chars Model.Parse Model.Exec Model.Opt Model.Utf8 Model.Cli
  Proofs.OptSpec Proofs.OptAll Proofs.UniSpec.
From HV Require Proofs.OptTerm Proofs.ReplProofs.
Open Scope N_scope.

(* ------------------------------------------------------------------ *)
(* the incremental loop *)

Definition loop_ok (len : N) (x : final) : Prop :=
  match x with FPanic _ => False | FDone t => targets_ok len t | _ => True end.

Lemma exec_loop_ok fuel : forall code s pc,
  targets_ok (N.of_nat (length code)) s -> pc <= N.of_nat (length code) ->
  loop_ok (N.of_nat (length code)) (fst (exec_loop fuel code s pc (N.of_nat (length code)))).
Proof.
  induction fuel as [|f IH]; intros code s pc T Hpc.
  - cbn [exec_loop fst loop_ok]. exact I.
  - cbn [exec_loop].
    destruct (N.of_nat (length code) <=? pc) eqn:E1.
    + cbn [fst loop_ok]. exact T.
    + apply N.leb_gt in E1.
      destruct (nth_error code (N.to_nat pc)) as [c|] eqn:En.
      2:{ exfalso. apply nth_error_None in En. lia. }
      destruct (execute_one c pc s) as [pc' s'|k s'|e s'] eqn:Es.
      * destruct (ReplProofs.step_facts _ _ _ _ _ _ Es T E1) as (T' & Hpc').
        apply IH; [exact T' | lia].
      * cbn [fst loop_ok]. exact I.
      * cbn [fst loop_ok]. exact I.
Qed.

Theorem run_inc_no_panic : run_inc_no_panic_stmt.
Proof.
  intros fuel done todo. revert fuel done.
  induction todo as [|c r IH]; intros fuel done s T t; cbn [run_inc].
  - intros X; discriminate X.
  - cbv zeta.
    assert (E := OptTerm.len_snoc done c).
    assert (T1 : targets_ok (N.of_nat (length (done ++ [c]))) s).
    { apply (OptTerm.targets_ok_weaken (N.of_nat (length done))); [lia | exact T]. }
    assert (Hpc : N.of_nat (length done) <= N.of_nat (length (done ++ [c]))) by lia.
    pose proof (exec_loop_ok fuel (done ++ [c]) s (N.of_nat (length done)) T1 Hpc) as H.
    rewrite E in H.
    destruct (exec_loop fuel (done ++ [c]) s (N.of_nat (length done)) (N.of_nat (length done) + 1)) as [x f'].
    cbn [fst] in H.
    destruct x as [s'|k s'|e s'|s' p|s']; cbn [loop_ok] in H.
    + apply IH. rewrite E. exact H.
    + intros X; discriminate X.
    + intros X; discriminate X.
    + intros X; discriminate X.
    + contradiction.
Qed.
Print Assumptions run_inc_no_panic.

(* ------------------------------------------------------------------ *)
(* the optimiser returns a state whose targets lie inside its log *)

Lemma preexec_targets fx todo : forall s log r,
  targets_ok (N.of_nat (length log)) s -> preexec fx s log todo = OptOk r ->
  targets_ok (N.of_nat (length (olog r))) (ostate r).
Proof.
  induction todo as [|c rest IH]; intros s log r T; cbn [preexec].
  - intros H. injection H as <-. cbn [olog ostate]. exact T.
  - pose proof (oloop_total_t fx (log ++ [c]) s (N.of_nat (length log)) 0 (opt_fuel (log ++ [c]))) as H.
    cbv zeta in H.
    assert (E := OptTerm.len_snoc log c).
    assert (H1 : targets_ok (N.of_nat (length (log ++ [c]))) s).
    { apply (OptTerm.targets_ok_weaken (N.of_nat (length log))); [lia | exact T]. }
    assert (H2 : N.of_nat (length log) <= N.of_nat (length (log ++ [c]))) by lia.
    assert (H3 : 0 <= 100) by lia.
    assert (H4 : (N.to_nat ((100 - 0) * (N.of_nat (length (log ++ [c])) + 1)
                   + (N.of_nat (length (log ++ [c])) - N.of_nat (length log))) < opt_fuel (log ++ [c]))%nat).
    { unfold opt_fuel. rewrite E, app_length. cbn [length]. rewrite N.sub_0_r. lia. }
    specialize (H H1 H2 H3 H4). clear H1 H2 H3 H4.
    rewrite <- E.
    destruct (opt_loop (opt_fuel (log ++ [c])) fx (log ++ [c]) s (N.of_nat (length log))
                (N.of_nat (length (log ++ [c]))) 0) as [s'|s'|e s'| |].
    + apply IH. exact H.
    + intros X. injection X as <-. cbn [olog ostate].
      destruct (fx6 fx); [exact T|].
      apply (OptTerm.targets_ok_same _ s); [reflexivity | reflexivity | exact T].
    + intros X; discriminate X.
    + contradiction.
    + contradiction.
Qed.

Theorem optimized_targets : optimized_targets_stmt.
Proof.
  intros fx code level input r. unfold optimize_prog.
  destruct (level =? 0).
  { intros H. injection H as <-. cbn [olog ostate]. apply OptTerm.targets_ok_state0. }
  destruct (renum_map fx code) as [m mx].
  destruct (level =? 1).
  { intros H. injection H as <-. cbn [olog ostate]. apply OptTerm.targets_ok_state0. }
  apply preexec_targets. apply OptTerm.targets_ok_state0.
Qed.
Print Assumptions optimized_targets.

(* ------------------------------------------------------------------ *)
(* the run path *)

Lemma run_level_no_panic fx fuel code level input t : run_level fx fuel code level input <> FPanic t.
Proof.
  unfold run_level.
  destruct (level =? 0).
  - apply run_inc_no_panic. apply OptTerm.targets_ok_state0.
  - destruct (optimize_prog fx code level input) as [r|e|] eqn:Eo.
    + apply run_inc_no_panic. exact (optimized_targets _ _ _ _ _ Eo).
    + intros X; discriminate X.
    + exfalso. exact (optimize_total_t _ _ _ _ Eo).
Qed.

Theorem cli_no_panic : cli_no_panic_stmt.
Proof.
  intros level file stdin fuel. unfold run_cli.
  destruct file as [|[|] b]; try (intros X; discriminate X).
  destruct (decode b) as [text|]; [|intros X; discriminate X].
  pose proof (run_level_no_panic all_fixed fuel (parse text) level (stdin_lines stdin)) as H.
  destruct (run_level all_fixed fuel (parse text) level (stdin_lines stdin)) as [s|k s|e s|s p|s].
  - intros X; discriminate X.
  - intros X; discriminate X.
  - destruct e; intros X; discriminate X.
  - intros X; discriminate X.
  - exfalso. exact (H s eq_refl).
Qed.
Print Assumptions cli_no_panic.

Theorem check_no_panic : check_no_panic_stmt.
Proof.
  intros file. unfold check_cli.
  destruct file as [|[|] b]; try (split; intros X; discriminate X).
  destruct (decode b); split; intros X; discriminate X.
Qed.
Print Assumptions check_no_panic.
