(* The interactive interpreter: I/O framing, instalment runs, incremental = preloaded, REPL = whole program. *)
From Coq Require Import List NArith ZArith Lia Bool.
Import ListNotations.
From HV Require Import Model.Big Model.Rat Model.NumText Model.Chars Model.Parse Model.Exec Model.Opt Model.Repl
  Proofs.OptSpec Proofs.OptAll Proofs.AppSpec.
From HV Require Proofs.OptTerm.
Open Scope N_scope.

Arguments N.add : simpl never.
Arguments N.mul : simpl never.
Arguments N.sub : simpl never.
Arguments N.leb : simpl never.
Arguments N.ltb : simpl never.
Arguments N.eqb : simpl never.

(* ------------------------------------------------------------------ *)
(* computations that commute with "old text underneath the buffers" *)

Definition framed {A} (m : M A) : Prop :=
  forall s o e, m (add_io o e s) = map_res (add_io o e) (m s).

Lemma framed_ret {A} (a : A) : framed (ret a).
Proof. intros s o e. reflexivity. Qed.
Lemma framed_fail {A} x : framed (@fail A x).
Proof. intros s o e. reflexivity. Qed.
Lemma framed_exit {A} k : framed (@exit_ A k).
Proof. intros s o e. reflexivity. Qed.

Lemma framed_bind {A B} (m : M A) (f : A -> M B) : framed m -> (forall a, framed (f a)) -> framed (bind m f).
Proof.
  intros Hm Hf s o e. unfold bind. rewrite Hm.
  destruct (m s) as [a t|k t|x t]; cbn [map_res]; [apply Hf | reflexivity | reflexivity].
Qed.

Lemma framed_iterM {A} n (f : A -> M A) a : (forall x, framed (f x)) -> framed (iterM n f a).
Proof.
  intros Hf. induction n as [|n IH] using N.peano_ind.
  - rewrite OptTerm.iterM_0. apply framed_ret.
  - rewrite OptTerm.iterM_succ. apply framed_bind; assumption.
Qed.

Lemma framed_fold_left {B X} (g : M B -> X -> M B) l m0 :
  (forall m x, framed m -> framed (g m x)) -> framed m0 -> framed (fold_left g l m0).
Proof.
  intros Hg. revert m0. induction l as [|x l IH]; intros m0 H0; cbn [fold_left].
  - exact H0.
  - apply IH. apply Hg. exact H0.
Qed.

Lemma framed_calc a cnt pop : framed pop -> framed (calc a cnt pop).
Proof.
  intros Hp. induction a as [|t l IHl r IHr]; cbn [calc].
  - apply framed_ret.
  - destruct (t =? 0).
    + apply framed_bind; [exact Hp|]. intros v. destruct (ncmp v _) as [[| |]|]; assumption.
    + destruct (t =? 1).
      * apply framed_bind; [exact Hp|]. intros v. destruct (ncmp v _) as [[| |]|]; assumption.
      * apply framed_ret.
Qed.

(* primitives *)
Lemma framed_push_stack i x : framed (push_stack i x).
Proof.
  intros s o e. unfold push_stack.
  change (in_range (add_io o e s) i) with (in_range s i).
  change (get_stack (add_io o e s) i) with (get_stack s i).
  destruct (in_range s i); [|reflexivity].
  destruct (get_stack s i); [destruct (is_nan x)|]; reflexivity.
Qed.

Lemma framed_pop_stack i : framed (pop_stack i).
Proof.
  intros s o e. unfold pop_stack.
  change (in_range (add_io o e s) i) with (in_range s i).
  change (get_stack (add_io o e s) i) with (get_stack s i).
  destruct (in_range s i); [|reflexivity].
  destruct (get_stack s i); reflexivity.
Qed.

Lemma framed_write_out b txt : framed (write_out b txt).
Proof.
  intros s o e. unfold write_out. destruct b; cbn [map_res add_io skind_ stacks cur points latest inp outb errb];
    rewrite app_assoc; reflexivity.
Qed.

Lemma framed_push_wrap i x : framed (push_wrap i x).
Proof.
  unfold push_wrap. destruct ((i =? 1) || (i =? 2)).
  - destruct (is_pos x).
    + destruct (num_to_unicode x); [apply framed_write_out | apply framed_fail].
    + apply framed_write_out.
  - apply framed_push_stack.
Qed.

Lemma framed_read_line : framed read_line.
Proof.
  intros s o e. unfold read_line.
  change (inp (add_io o e s)) with (inp s).
  destruct (inp s) as [|[l|] r]; reflexivity.
Qed.

Lemma framed_push_all i l : framed (push_all i l).
Proof.
  induction l as [|c r IH]; cbn [push_all].
  - apply framed_ret.
  - apply framed_bind; [apply framed_push_stack | intros _; exact IH].
Qed.

Lemma framed_pop_wrap i : framed (pop_wrap i).
Proof.
  unfold pop_wrap. destruct (i =? 0).
  - intros s o e.
    change (get_stack (add_io o e s) 0) with (get_stack s 0).
    destruct (get_stack s 0).
    + revert s o e. change (framed (bind read_line (fun l => bind (push_all 0 (rev l)) (fun _ => pop_stack 0)))).
      apply framed_bind; [apply framed_read_line|]. intros l.
      apply framed_bind; [apply framed_push_all | intros _; apply framed_pop_stack].
    + apply framed_pop_stack.
  - destruct (i =? 1); [apply framed_exit|].
    destruct (i =? 2); [apply framed_exit|]. apply framed_pop_stack.
Qed.

Lemma framed_get_cur : framed get_cur.
Proof. intros s o e. reflexivity. Qed.
Lemma framed_set_cur c : framed (set_cur c).
Proof. intros s o e. reflexivity. Qed.
Lemma framed_get_latest : framed get_latest.
Proof. intros s o e. reflexivity. Qed.
Lemma framed_set_latest l : framed (set_latest l).
Proof. intros s o e. reflexivity. Qed.
Lemma framed_get_point id : framed (get_point id).
Proof. intros s o e. reflexivity. Qed.
Lemma framed_set_point id l : framed (set_point id l).
Proof. intros s o e. reflexivity. Qed.

Ltac framed_tac :=
  repeat first
    [ apply framed_ret | apply framed_push_wrap | apply framed_pop_wrap
    | apply framed_set_cur | apply framed_get_cur
    | apply framed_bind; [ | intro ]
    | apply framed_iterM; intro ].

Lemma framed_fold_push cs (h : num -> num) (g : num -> num -> num) (v : list num) (m0 : M num) :
  framed m0 ->
  framed (fold_left (fun (m : M num) x => bind m (fun n => let x' := h x in
                         bind (push_wrap cs x') (fun _ => ret (g n x')))) v m0).
Proof.
  intros H0. apply framed_fold_left; [|exact H0]. intros m x Hm. cbv zeta.
  apply framed_bind; [exact Hm|]. intro. framed_tac.
Qed.

Lemma framed_body c : framed (body c).
Proof.
  unfold body. apply framed_bind; [apply framed_get_cur|]. intros cs.
  apply (OptTerm.ty_case (@framed unit)); framed_tac; try (apply framed_fold_push; apply framed_ret).
Qed.

Lemma framed_execute_one c pc : framed (execute_one c pc).
Proof.
  unfold execute_one.
  apply framed_bind; [apply framed_body|]. intros _.
  apply framed_bind; [apply framed_get_cur|]. intros cs.
  apply framed_bind; [apply framed_calc, framed_pop_wrap|]. intros t.
  destruct (t =? 0); [apply framed_ret|].
  destruct (t =? 13).
  { apply framed_bind; [apply framed_get_latest|]. intros [loc|]; apply framed_ret. }
  cbv zeta. apply framed_bind; [apply framed_get_point|]. intros [v|].
  - destruct (pc =? v); [apply framed_ret|].
    apply framed_bind; [apply framed_set_latest | intros _; apply framed_ret].
  - apply framed_bind; [apply framed_set_point | intros _; apply framed_ret].
Qed.

Theorem io_frame : io_frame_stmt.
Proof. intros c pc s o e. apply framed_execute_one. Qed.
Print Assumptions io_frame.

(* ------------------------------------------------------------------ *)
(* lifting to the loops *)

Lemma exec_loop_frame f : forall code s pc len o e,
  exec_loop f code (add_io o e s) pc len =
  (map_final (add_io o e) (fst (exec_loop f code s pc len)), snd (exec_loop f code s pc len)).
Proof.
  induction f as [|f IH]; intros code s pc len o e; cbn [exec_loop].
  - reflexivity.
  - destruct (len <=? pc); [reflexivity|].
    destruct (nth_error code (N.to_nat pc)) as [c|]; [|reflexivity].
    rewrite (io_frame c pc s o e).
    destruct (execute_one c pc s) as [pc' s'|k s'|x s']; cbn [map_res]; [apply IH | reflexivity | reflexivity].
Qed.

Theorem run_inc_frame : run_inc_frame_stmt.
Proof.
  intros fuel done todo. revert fuel done.
  induction todo as [|c r IH]; intros fuel done s o e; cbn [run_inc].
  - reflexivity.
  - rewrite exec_loop_frame.
    destruct (exec_loop fuel (done ++ [c]) s (N.of_nat (length done)) (N.of_nat (length done) + 1)) as [x f1].
    cbn [fst snd]. destruct x; cbn [map_final]; try reflexivity. apply IH.
Qed.
Print Assumptions run_inc_frame.

(* ------------------------------------------------------------------ *)
(* clear *)

Lemma leqb_true a b : leqb a b = true -> a = b.
Proof. unfold leqb. destruct (list_eq_dec N.eq_dec a b) as [E|E]; [intros _; exact E | intros H; discriminate H]. Qed.
Lemma leqb_neq a b : a <> b -> leqb a b = false.
Proof. unfold leqb. destruct (list_eq_dec N.eq_dec a b) as [E|E]; [intros H; contradiction | reflexivity]. Qed.

Theorem repl_clear : repl_clear_stmt.
Proof.
  intros fx fuel line rest log s H. cbn [repl].
  pose proof (leqb_true _ _ H) as E.
  assert (H0 : leqb (trim line) [] = false).
  { apply leqb_neq. rewrite E. unfold KW_CLEAR. intros X; discriminate X. }
  cbv zeta. rewrite H0, H. reflexivity.
Qed.
Print Assumptions repl_clear.

(* ------------------------------------------------------------------ *)
(* the pinned REPL dropped the text written before an error *)

Definition witness_line : list N :=
  [54805] ++ repeat 46 65 ++ [32; 54637; 46; 32; 54784; 50612; 50612; 50612; 50612; 50612; 50612; 50633]
          ++ repeat 46 (N.to_nat 6912) ++ [32; 54637; 46; 10].

Theorem repl_pinned_refuted : repl_pinned_refuted_stmt.
Proof.
  exists 100%nat, [witness_line]. split.
  - vm_compute. reflexivity.
  - vm_compute. intros H. discriminate H.
Qed.
Print Assumptions repl_pinned_refuted.

(* ------------------------------------------------------------------ *)
(* instalments *)

Lemma exec_loop_done_used f : forall code s pc len s' r,
  exec_loop f code s pc len = (FDone s', r) ->
  exists u, f = (u + r)%nat /\ forall d, exec_loop (u + S d) code s pc len = (FDone s', S d).
Proof.
  induction f as [|f IH]; intros code s pc len s' r H.
  - cbn in H. discriminate H.
  - cbn [exec_loop] in H. destruct (len <=? pc) eqn:E1.
    { injection H as <- <-. exists 0%nat. split; [reflexivity|]. intros d.
      cbn [Nat.add exec_loop]. rewrite E1. reflexivity. }
    destruct (nth_error code (N.to_nat pc)) as [c|] eqn:En; [|discriminate H].
    destruct (execute_one c pc s) as [pc' s1|k s1|e s1] eqn:Ee; try discriminate H.
    destruct (IH _ _ _ _ _ _ H) as (u & Hu & Hd).
    exists (S u). split; [lia|]. intros d.
    change (S u + S d)%nat with (S (u + S d)). cbn [exec_loop]. rewrite E1, En, Ee. apply Hd.
Qed.

Lemma run_inc_used a : forall f1 done b s s1, run_inc f1 done a s = FDone s1 ->
  exists u, (u <= f1)%nat /\ forall g, run_inc (u + S g) done (a ++ b) s = run_inc (S g) (done ++ a) b s1.
Proof.
  induction a as [|c r IH]; intros f1 done b s s1 H.
  - cbn in H. injection H as <-. exists 0%nat. split; [lia|]. intros g. rewrite app_nil_r. reflexivity.
  - cbn [run_inc] in H.
    destruct (exec_loop f1 (done ++ [c]) s (N.of_nat (length done)) (N.of_nat (length done) + 1)) as [x f'] eqn:E.
    destruct x as [s'|k s'|e s'|t p|s']; try discriminate H.
    destruct (exec_loop_done_used _ _ _ _ _ _ _ E) as (u1 & Hu1 & Hd).
    destruct (IH _ _ b _ _ H) as (u2 & Hu2 & Hg).
    exists (u1 + u2)%nat. split; [lia|]. intros g.
    cbn [app run_inc].
    replace (u1 + u2 + S g)%nat with (u1 + S (u2 + g))%nat by lia.
    rewrite Hd.
    replace (S (u2 + g)) with (u2 + S g)%nat by lia.
    rewrite Hg. rewrite <- app_assoc. reflexivity.
Qed.

(* [run_inc_app_stmt] itself is false (see [run_inc_app_refuted] below); with one more unit of fuel on both sides
   it holds for every state *)
Definition run_inc_app_S_stmt := forall f1 done a b s s1, run_inc f1 done a s = FDone s1 ->
  forall f2, exists F, forall g, run_inc (F + S g) done (a ++ b) s = run_inc (f2 + S g) (done ++ a) b s1.

Theorem run_inc_app_S : run_inc_app_S_stmt.
Proof.
  intros f1 done a b s s1 H f2.
  destruct (run_inc_used a f1 done b s s1 H) as (u & _ & Hg).
  exists (u + f2)%nat. intros g.
  replace (u + f2 + S g)%nat with (u + S (f2 + g))%nat by lia.
  replace (f2 + S g)%nat with (S (f2 + g)) by lia. apply Hg.
Qed.
Print Assumptions run_inc_app_S.

(* the form used for the REPL: a finished second instalment *)
Lemma run_inc_app_fin f1 f2 done a b s s1 x :
  run_inc f1 done a s = FDone s1 -> run_inc f2 (done ++ a) b s1 = x -> (forall t p, x <> FFuel t p) ->
  exists F, run_inc F done (a ++ b) s = x.
Proof.
  intros H1 H2 Hx.
  destruct (run_inc_used a f1 done b s s1 H1) as (u & _ & Hg).
  exists (u + S f2)%nat. rewrite Hg.
  pose proof (run_mono_t f2 (S f2) (done ++ a) b s1 (Nat.le_succ_diag_r f2)) as Hm.
  rewrite H2 in Hm. destruct x; try exact Hm. exfalso. eapply Hx. reflexivity.
Qed.

(* the counterexample: a state holding a jump target beyond the program *)
Definition cx_c1 := mkxcode 0 1 1 1 (Val 5 Nil Nil).
Definition cx_c2 := mkxcode 0 1 1 1 Nil.
Definition cx_s := mkstate SUnopt [] 3 [(21, 1000)] None [] [] [].

Theorem run_inc_app_refuted : ~ run_inc_app_stmt.
Proof.
  intros H.
  pose (s1 := final_state (run_inc 5 [] [cx_c1] cx_s)).
  assert (E1 : run_inc 5 [] [cx_c1] cx_s = FDone s1) by (vm_compute; reflexivity).
  destruct (H 5%nat [] [cx_c1] [cx_c2] cx_s s1 E1 0%nat) as [F HF].
  specialize (HF 0%nat). rewrite Nat.add_0_r in HF.
  destruct F as [|[|[|k]]].
  - vm_compute in HF. discriminate HF.
  - vm_compute in HF. discriminate HF.
  - vm_compute in HF. discriminate HF.
  - pose (s2 := final_state (run_inc 3 [] [cx_c1; cx_c2] cx_s)).
    assert (E3 : run_inc 3 [] [cx_c1; cx_c2] cx_s = FDone s2) by (vm_compute; reflexivity).
    assert (Hle : (3 <= S (S (S k)))%nat) by lia.
    pose proof (run_mono_t 3%nat (S (S (S k))) [] [cx_c1; cx_c2] cx_s Hle) as Hm.
    rewrite E3 in Hm.
    change ([cx_c1] ++ [cx_c2]) with [cx_c1; cx_c2] in HF. rewrite Hm in HF.
    vm_compute in HF. discriminate HF.
Qed.
Print Assumptions run_inc_app_refuted.

Theorem run_inc_app_stop : run_inc_app_stop_stmt.
Proof.
  intros f1 done a b. revert f1 done.
  induction a as [|c r IH]; intros f1 done s x H Hd Hf.
  - cbn in H. exfalso. eapply Hd. symmetry. exact H.
  - cbn [app run_inc] in *.
    destruct (exec_loop f1 (done ++ [c]) s (N.of_nat (length done)) (N.of_nat (length done) + 1)) as [y f'].
    destruct y; try exact H. apply IH; assumption.
Qed.
Print Assumptions run_inc_app_stop.

(* ------------------------------------------------------------------ *)
(* the REPL shows what the whole program shows *)

Lemma add_io_fresh s : add_io (outb s) (errb s) (with_fresh_io s) = s.
Proof. destruct s; reflexivity. Qed.

Lemma run_from_fresh fuel log cmds s :
  run_inc fuel log cmds s = map_final (add_io (outb s) (errb s)) (run_inc fuel log cmds (with_fresh_io s)).
Proof. rewrite <- run_inc_frame, add_io_fresh. reflexivity. Qed.

Lemma beh_map_final o e x :
  beh (map_final (add_io o e) x) = (fst (fst (beh x)), rev o ++ snd (fst (beh x)), rev e ++ snd (beh x)).
Proof. destruct x; cbn; rewrite !rev_app_distr; reflexivity. Qed.

Lemma repl_gen lines : forall fuel log s evs e, forallb plain_line lines = true ->
  repl true fuel lines log s = (evs, e) -> e <> RFuelOut ->
  exists F, beh (run_inc F log (flat_map line_cmds lines) s) =
            (rkind e, rev (outb s) ++ shown_out evs, rev (errb s) ++ shown_err evs).
Proof.
  induction lines as [|line rest IH]; intros fuel log s evs e Hp Hr He.
  - cbn in Hr. injection Hr as <- <-. exists 0%nat. cbn. rewrite !app_nil_r. reflexivity.
  - cbn [forallb] in Hp. apply andb_true_iff in Hp. destruct Hp as [Hl Hp].
    unfold plain_line in Hl. apply andb_true_iff in Hl. destruct Hl as [Hc Hx].
    apply negb_true_iff in Hc. apply negb_true_iff in Hx.
    cbn [repl] in Hr. cbv zeta in Hr. cbn [flat_map]. unfold line_cmds at 1. cbv zeta.
    destruct (leqb (trim line) []) eqn:E0.
    { cbn [orb app]. destruct (repl true fuel rest log s) as [ev e'] eqn:Er. injection Hr as <- <-.
      destruct (IH _ _ _ _ _ Hp Er He) as [F HF]. exists F. exact HF. }
    rewrite Hc in Hr.
    destruct (leqb (trim line) KW_HELP) eqn:E2.
    { cbn [orb app]. destruct (repl true fuel rest log s) as [ev e'] eqn:Er. injection Hr as <- <-.
      destruct (IH _ _ _ _ _ Hp Er He) as [F HF]. exists F. exact HF. }
    rewrite Hx in Hr. cbn [orb].
    set (cmds := map xcode_of_ucode (parse line)) in *.
    set (rc := flat_map line_cmds rest).
    pose proof (run_from_fresh fuel log cmds s) as Hf.
    destruct (run_inc fuel log cmds (with_fresh_io s)) as [s'|k s'|x s'|s' p|s'] eqn:Er; cbn [map_final] in Hf.
    + destruct (repl true fuel rest (log ++ cmds) s') as [ev e'] eqn:Er2. injection Hr as <- <-.
      destruct (IH _ _ _ _ _ Hp Er2 He) as [F' HF']. fold rc in HF'.
      pose proof (run_inc_frame F' (log ++ cmds) rc s' (outb s) (errb s)) as Hfr.
      assert (Hnf : forall t p, map_final (add_io (outb s) (errb s)) (run_inc F' (log ++ cmds) rc s') <> FFuel t p).
      { intros t p. destruct (run_inc F' (log ++ cmds) rc s'); cbn [map_final]; try (intros X; discriminate X).
        cbn [beh] in HF'. exfalso. destruct e'; try discriminate HF'. apply He. reflexivity. }
      destruct (run_inc_app_fin _ _ _ _ _ _ _ _ Hf Hfr Hnf) as [F HF].
      exists F. rewrite HF, beh_map_final, HF'. cbn [fst snd]. reflexivity.
    + injection Hr as <- <-. exists fuel.
      rewrite (run_inc_app_stop _ _ _ rc _ _ Hf) by (intros; discriminate).
      cbn [beh add_io outb errb rkind shown_out shown_err flat_map flush_of]. rewrite !rev_app_distr, !app_nil_r. reflexivity.
    + injection Hr as <- <-. exists fuel.
      rewrite (run_inc_app_stop _ _ _ rc _ _ Hf) by (intros; discriminate).
      cbn [beh add_io outb errb rkind shown_out shown_err flat_map flush_of]. rewrite !rev_app_distr, !app_nil_r. reflexivity.
    + injection Hr as <- <-. exfalso. apply He. reflexivity.
    + injection Hr as <- <-. exists fuel.
      rewrite (run_inc_app_stop _ _ _ rc _ _ Hf) by (intros; discriminate).
      cbn [beh add_io outb errb rkind shown_out shown_err flat_map flush_of]. rewrite !rev_app_distr, !app_nil_r. reflexivity.
Qed.

Theorem repl_whole : repl_whole_stmt.
Proof.
  intros fuel lines evs e Hp Hr He. unfold repl_run in Hr.
  destruct (repl_gen lines fuel [] (state0 SUnopt []) evs e Hp Hr He) as [F HF].
  exists F. exact HF.
Qed.
Print Assumptions repl_whole.

(* ------------------------------------------------------------------ *)
(* incremental execution = execution over the preloaded program *)

Ltac disc := let X := fresh in intros X; discriminate X.

(* jump targets stay below the number of pushed commands; a step goes to pc + 1 or to such a target *)
Lemma step_facts c pc s pc' s' len :
  execute_one c pc s = ROk pc' s' -> targets_ok len s -> pc < len ->
  targets_ok len s' /\ (pc' = pc + 1 \/ pc' < len).
Proof.
  intros H T Hpc. unfold execute_one in H.
  apply OptTerm.bind_ok in H. destruct H as (u & s1 & Hb & H).
  apply (OptTerm.pres_ok _ _ _ _ (OptTerm.pres_body c)) in Hb. destruct Hb as (P1 & L1 & _).
  apply OptTerm.bind_ok in H. destruct H as (cs & s1' & Hc & H).
  unfold get_cur in Hc. injection Hc as Hcs Hs1. subst s1'.
  apply OptTerm.bind_ok in H. destruct H as (t & s2 & Hk & H).
  apply (OptTerm.pres_ok _ _ _ _ (OptTerm.e_calc _ _ _ (OptTerm.pres_pop_wrap cs))) in Hk. destruct Hk as (P2 & L2 & _).
  assert (T2 : targets_ok len s2).
  { apply (OptTerm.targets_ok_same len s); [congruence | congruence | exact T]. }
  clear P1 L1 P2 L2 T s s1 Hcs.
  destruct (t =? 0).
  { injection H as <- <-. split; [exact T2|]. left. reflexivity. }
  destruct (t =? 13).
  { unfold bind, get_latest in H. destruct (latest s2) as [loc|] eqn:EL.
    - injection H as <- <-. split; [exact T2|]. right. apply T2. exact EL.
    - injection H as <- <-. split; [exact T2|]. left. reflexivity. }
  cbv zeta in H. unfold bind, get_point in H.
  destruct (alist_get (points s2) (xac c * 16 + t)) as [v|] eqn:EP.
  - destruct (pc =? v).
    + injection H as <- <-. split; [exact T2|]. left. reflexivity.
    + unfold set_latest, ret in H. injection H as <- <-. split.
      * destruct T2 as [Ta Tb]. split; cbn; [exact Ta|]. intros w Hw. injection Hw as <-. exact Hpc.
      * right. destruct T2 as [Ta _]. eapply Ta. exact EP.
  - unfold set_point, ret in H. injection H as <- <-. split.
    + destruct T2 as [Ta Tb]. split; cbn; [|exact Tb]. intros id w Hw.
      apply OptTerm.alist_get_set in Hw. destruct Hw as [[_ ->]|Hw]; [exact Hpc | eapply Ta; exact Hw].
    + left. reflexivity.
Qed.

Lemma run_pre_step n code r s pc : pc < N.of_nat (length code) ->
  run_pre (S n) (code ++ r) s pc =
  match nth_error code (N.to_nat pc) with
  | None => FPanic s
  | Some c => match execute_one c pc s with
              | ROk pc' s' => run_pre n (code ++ r) s' pc'
              | RExit k s' => FExit k s'
              | RErr e s' => FErr e s'
              end
  end.
Proof.
  intros Hpc. cbn [run_pre].
  assert (E : N.of_nat (length (code ++ r)) <=? pc = false).
  { apply N.leb_gt. rewrite app_length. lia. }
  rewrite E. rewrite nth_error_app1 by lia. reflexivity.
Qed.

Lemma exec_loop_pre f : forall code r s pc x f',
  targets_ok (N.of_nat (length code)) s -> pc <= N.of_nat (length code) ->
  exec_loop f code s pc (N.of_nat (length code)) = (x, f') ->
  match x with
  | FDone s' => targets_ok (N.of_nat (length code)) s' /\
                exists u, f = (u + f')%nat /\
                  forall k, run_pre (u + k) (code ++ r) s pc = run_pre k (code ++ r) s' (N.of_nat (length code))
  | FFuel _ _ => True
  | _ => forall k, run_pre (f + k) (code ++ r) s pc = x
  end.
Proof.
  induction f as [|f IH]; intros code r s pc x f' T Hpc H.
  - cbn in H. injection H as <- <-. exact I.
  - cbn [exec_loop] in H. destruct (N.of_nat (length code) <=? pc) eqn:E1.
    { injection H as <- <-. split; [exact T|]. exists 0%nat. split; [reflexivity|]. intros k.
      apply N.leb_le in E1. assert (pc = N.of_nat (length code)) by lia. subst pc. reflexivity. }
    apply N.leb_gt in E1.
    destruct (nth_error code (N.to_nat pc)) as [c|] eqn:En.
    2:{ injection H as <- <-. intros k. change (S f + k)%nat with (S (f + k)).
        rewrite run_pre_step by exact E1. rewrite En. reflexivity. }
    destruct (execute_one c pc s) as [pc' s1|q s1|e s1] eqn:Ee.
    + destruct (step_facts _ _ _ _ _ _ Ee T E1) as (T1 & Hpc').
      assert (Hle : pc' <= N.of_nat (length code)) by lia.
      specialize (IH code r s1 pc' x f' T1 Hle H).
      destruct x as [s'|q s'|e s'|t p|s'].
      * destruct IH as (T' & u & Hu & Hk). split; [exact T'|]. exists (S u). split; [lia|]. intros k.
        change (S u + k)%nat with (S (u + k)). rewrite run_pre_step by exact E1. rewrite En, Ee. apply Hk.
      * intros k. change (S f + k)%nat with (S (f + k)). rewrite run_pre_step by exact E1. rewrite En, Ee. apply IH.
      * intros k. change (S f + k)%nat with (S (f + k)). rewrite run_pre_step by exact E1. rewrite En, Ee. apply IH.
      * exact I.
      * intros k. change (S f + k)%nat with (S (f + k)). rewrite run_pre_step by exact E1. rewrite En, Ee. apply IH.
    + injection H as <- <-. intros k. change (S f + k)%nat with (S (f + k)).
      rewrite run_pre_step by exact E1. rewrite En, Ee. reflexivity.
    + injection H as <- <-. intros k. change (S f + k)%nat with (S (f + k)).
      rewrite run_pre_step by exact E1. rewrite En, Ee. reflexivity.
Qed.

Theorem inc_pre : inc_pre_stmt.
Proof.
  intros f done todo. revert f done.
  induction todo as [|c r IH]; intros f done s T.
  - cbn [run_inc]. rewrite app_nil_r. cbn [run_pre]. rewrite N.leb_refl. reflexivity.
  - cbn [run_inc].
    assert (T0 : targets_ok (N.of_nat (length (done ++ [c]))) s).
    { apply (OptTerm.targets_ok_weaken (N.of_nat (length done))); [rewrite OptTerm.len_snoc; lia | exact T]. }
    assert (Hpc : N.of_nat (length done) <= N.of_nat (length (done ++ [c]))) by (rewrite OptTerm.len_snoc; lia).
    rewrite <- (OptTerm.len_snoc done c).
    destruct (exec_loop f (done ++ [c]) s (N.of_nat (length done)) (N.of_nat (length (done ++ [c])))) as [x f'] eqn:E.
    pose proof (exec_loop_pre f (done ++ [c]) r s (N.of_nat (length done)) x f' T0 Hpc E) as HP.
    rewrite <- app_assoc in HP. cbn [app] in HP.
    destruct x as [s'|q s'|e s'|t p|s'].
    + destruct HP as (T' & u & Hu & Hk).
      specialize (IH f' (done ++ [c]) s' T'). rewrite <- app_assoc in IH. cbn [app] in IH.
      assert (EF : S f = (u + S f')%nat) by lia.
      rewrite EF, Hk.
      destruct (run_inc f' (done ++ [c]) r s'); exact IH.
    + specialize (HP 1%nat). replace (f + 1)%nat with (S f) in HP by lia. exact HP.
    + specialize (HP 1%nat). replace (f + 1)%nat with (S f) in HP by lia. exact HP.
    + exact I.
    + specialize (HP 1%nat). replace (f + 1)%nat with (S f) in HP by lia. exact HP.
Qed.
Print Assumptions inc_pre.

(* ------------------------------------------------------------------ *)
(* [run_inc_app_stmt] does hold for states whose jump targets lie inside the pushed program *)

Lemma exec_loop_done_exact f : forall code s pc len s' r,
  targets_ok len s -> pc <= len -> exec_loop f code s pc len = (FDone s', r) ->
  targets_ok len s' /\
  exists u, f = (u + r)%nat /\
    (forall d, exec_loop (u + S d) code s pc len = (FDone s', S d)) /\
    exec_loop u code s pc len = (FFuel s' len, 0%nat).
Proof.
  induction f as [|f IH]; intros code s pc len s' r T Hpc H.
  - cbn in H. discriminate H.
  - cbn [exec_loop] in H. destruct (len <=? pc) eqn:E1.
    { injection H as <- <-. split; [exact T|]. exists 0%nat. split; [reflexivity|]. split.
      - intros d. cbn [Nat.add exec_loop]. rewrite E1. reflexivity.
      - apply N.leb_le in E1. assert (pc = len) by lia. subst pc. reflexivity. }
    destruct (nth_error code (N.to_nat pc)) as [c|] eqn:En; [|discriminate H].
    destruct (execute_one c pc s) as [pc' s1|k s1|e s1] eqn:Ee; try discriminate H.
    pose proof E1 as E1'. apply N.leb_gt in E1'.
    destruct (step_facts _ _ _ _ _ _ Ee T E1') as (T1 & Hpc').
    assert (Hle : pc' <= len) by lia.
    destruct (IH _ _ _ _ _ _ T1 Hle H) as (T' & u & Hu & Hd & H0).
    split; [exact T'|]. exists (S u). split; [lia|]. split.
    + intros d. change (S u + S d)%nat with (S (u + S d)). cbn [exec_loop]. rewrite E1, En, Ee. apply Hd.
    + cbn [exec_loop]. rewrite E1, En, Ee. exact H0.
Qed.

Lemma run_inc_used_ok cb rb a : forall f1 done s s1, targets_ok (N.of_nat (length done)) s ->
  run_inc f1 done a s = FDone s1 ->
  exists u, forall g, run_inc (u + g) done (a ++ cb :: rb) s = run_inc g (done ++ a) (cb :: rb) s1.
Proof.
  induction a as [|c r IH]; intros f1 done s s1 T H.
  - cbn in H. injection H as <-. exists 0%nat. intros g. rewrite app_nil_r. reflexivity.
  - cbn [run_inc] in H.
    destruct (exec_loop f1 (done ++ [c]) s (N.of_nat (length done)) (N.of_nat (length done) + 1)) as [x f'] eqn:E.
    destruct x as [s'|k s'|e s'|t p|s']; try discriminate H.
    assert (T0 : targets_ok (N.of_nat (length done) + 1) s).
    { apply (OptTerm.targets_ok_weaken (N.of_nat (length done))); [lia | exact T]. }
    assert (Hpc : N.of_nat (length done) <= N.of_nat (length done) + 1) by lia.
    destruct (exec_loop_done_exact _ _ _ _ _ _ _ T0 Hpc E) as (T' & u1 & Hu1 & Hd & H0).
    rewrite <- (OptTerm.len_snoc done c) in T'.
    destruct (IH _ _ _ _ T' H) as (u2 & Hg).
    exists (u1 + u2)%nat. intros g. cbn [app run_inc].
    rewrite <- Nat.add_assoc. destruct (u2 + g)%nat as [|n] eqn:En.
    + rewrite Nat.add_0_r, H0.
      assert (u2 = 0%nat) by lia. assert (g = 0%nat) by lia. subst u2 g.
      specialize (Hg 0%nat). rewrite <- app_assoc in Hg. cbn [app Nat.add] in Hg.
      etransitivity; [|exact Hg].
      rewrite <- (OptTerm.len_snoc done c). destruct r; reflexivity.
    + rewrite Hd, <- En, Hg, <- app_assoc. reflexivity.
Qed.

Definition run_inc_app_ok_stmt := forall f1 done a b s s1, targets_ok (N.of_nat (length done)) s ->
  run_inc f1 done a s = FDone s1 ->
  forall f2, exists F, forall g, run_inc (F + g) done (a ++ b) s = run_inc (f2 + g) (done ++ a) b s1.

Theorem run_inc_app_ok : run_inc_app_ok_stmt.
Proof.
  intros f1 done a b s s1 T H f2. destruct b as [|cb rb].
  - exists f1. intros g. rewrite app_nil_r. cbn [run_inc].
    assert (Hle : (f1 <= f1 + g)%nat) by lia.
    pose proof (run_mono_t f1 (f1 + g)%nat done a s Hle) as Hm. rewrite H in Hm. exact Hm.
  - destruct (run_inc_used_ok cb rb a f1 done s s1 T H) as (u & Hg).
    exists (u + f2)%nat. intros g. rewrite <- Nat.add_assoc. apply Hg.
Qed.
Print Assumptions run_inc_app_ok.
