(* The interactive interpreter on histories that contain `clear`: split at the first `clear`, and the whole session
   segment by segment. *)
From Coq Require Import List NArith ZArith Lia Bool.
Import ListNotations.
From HV Require Import Model.Big Model.Rat Model.NumText Model.Chars Model.Parse Model.Exec Model.Opt Model.Repl
  Proofs.OptSpec Proofs.OptAll Proofs.AppSpec Proofs.App2Spec.
From HV Require Proofs.OptTerm Proofs.ReplProofs.
Open Scope N_scope.

Arguments N.add : simpl never.
Arguments N.mul : simpl never.
Arguments N.sub : simpl never.
Arguments N.leb : simpl never.
Arguments N.ltb : simpl never.
Arguments N.eqb : simpl never.

(* ------------------------------------------------------------------ *)
(* an exhausted standard input stays exhausted *)

Definition ni (s t : state) : Prop := inp s = [] -> inp t = [].

Lemma ni_refl s : ni s s.
Proof. intros H. exact H. Qed.
Lemma ni_trans s t u : ni s t -> ni t u -> ni s u.
Proof. intros H1 H2 H. apply H2, H1, H. Qed.
Lemma ni_same s t : inp t = inp s -> ni s t.
Proof. intros E H. rewrite E. exact H. Qed.

Definition n_ret {A} (a : A) : OptTerm.pres ni (ret a) := OptTerm.pres_ret ni ni_refl a.
Definition n_fail {A} e : OptTerm.pres ni (@fail A e) := OptTerm.pres_fail ni ni_refl e.
Definition n_exit {A} k : OptTerm.pres ni (@exit_ A k) := OptTerm.pres_exit ni ni_refl k.
Definition n_bind {A B} (m : M A) (f : A -> M B) := OptTerm.pres_bind ni ni_trans m f.
Definition n_iterM {A} n (f : A -> M A) a := OptTerm.pres_iterM ni ni_refl ni_trans n f a.
Definition n_calc a cnt pop := OptTerm.pres_calc ni ni_refl ni_trans a cnt pop.

Lemma ni_set_stack s i l : ni s (set_stack s i l).
Proof. apply ni_same. reflexivity. Qed.

Lemma ni_push_stack i x : OptTerm.pres ni (push_stack i x).
Proof.
  intros s. unfold push_stack. destruct (in_range s i); [|apply ni_refl].
  destruct (get_stack s i); [destruct (is_nan x)|]; cbn [OptTerm.post]; auto using ni_set_stack, ni_refl.
Qed.

Lemma ni_pop_stack i : OptTerm.pres ni (pop_stack i).
Proof.
  intros s. unfold pop_stack. destruct (in_range s i); [|apply ni_refl].
  destruct (get_stack s i); cbn [OptTerm.post]; auto using ni_set_stack, ni_refl.
Qed.

Lemma ni_write_out b txt : OptTerm.pres ni (write_out b txt).
Proof. intros s. unfold write_out. destruct b; cbn [OptTerm.post]; apply ni_same; reflexivity. Qed.

Lemma ni_push_wrap i x : OptTerm.pres ni (push_wrap i x).
Proof.
  unfold push_wrap. destruct ((i =? 1) || (i =? 2)).
  - destruct (is_pos x).
    + destruct (num_to_unicode x); [apply ni_write_out | apply n_fail].
    + apply ni_write_out.
  - apply ni_push_stack.
Qed.

Lemma ni_read_line : OptTerm.pres ni read_line.
Proof.
  intros s. unfold read_line, ni. destruct (inp s) as [|[l|] r] eqn:E; cbn [OptTerm.post]; intros H.
  - exact E.
  - discriminate H.
  - discriminate H.
Qed.

Lemma ni_push_all i l : OptTerm.pres ni (push_all i l).
Proof.
  induction l as [|c r IH]; cbn [push_all].
  - apply n_ret.
  - apply n_bind; [apply ni_push_stack | intros _; exact IH].
Qed.

Lemma ni_pop_wrap i : OptTerm.pres ni (pop_wrap i).
Proof.
  unfold pop_wrap. destruct (i =? 0).
  - intros s. destruct (get_stack s 0).
    + revert s. change (OptTerm.pres ni (bind read_line (fun l => bind (push_all 0 (rev l)) (fun _ => pop_stack 0)))).
      apply n_bind; [apply ni_read_line|]. intros l.
      apply n_bind; [apply ni_push_all | intros _; apply ni_pop_stack].
    + apply ni_pop_stack.
  - destruct (i =? 1); [apply n_exit|].
    destruct (i =? 2); [apply n_exit|]. apply ni_pop_stack.
Qed.

Lemma ni_get_cur : OptTerm.pres ni get_cur.
Proof. intros s. cbn. apply ni_refl. Qed.
Lemma ni_set_cur c : OptTerm.pres ni (set_cur c).
Proof. intros s. cbn. apply ni_same; reflexivity. Qed.
Lemma ni_get_latest : OptTerm.pres ni get_latest.
Proof. intros s. cbn. apply ni_refl. Qed.
Lemma ni_set_latest l : OptTerm.pres ni (set_latest l).
Proof. intros s. cbn. apply ni_same; reflexivity. Qed.
Lemma ni_get_point id : OptTerm.pres ni (get_point id).
Proof. intros s. cbn. apply ni_refl. Qed.
Lemma ni_set_point id l : OptTerm.pres ni (set_point id l).
Proof. intros s. cbn. apply ni_same; reflexivity. Qed.

Ltac ni_tac :=
  repeat first
    [ apply n_ret | apply ni_push_wrap | apply ni_pop_wrap
    | apply ni_set_cur | apply ni_get_cur
    | apply n_bind; [ | intro ]
    | apply n_iterM; intro ].

Lemma ni_fold_push cs (h : num -> num) (g : num -> num -> num) (v : list num) (m0 : M num) :
  OptTerm.pres ni m0 ->
  OptTerm.pres ni (fold_left (fun (m : M num) x => bind m (fun n => let x' := h x in
                         bind (push_wrap cs x') (fun _ => ret (g n x')))) v m0).
Proof.
  intros H0. apply (OptTerm.pres_fold_left ni); [|exact H0]. intros m x Hm. cbv zeta.
  apply n_bind; [exact Hm|]. intro. ni_tac.
Qed.

Lemma ni_body c : OptTerm.pres ni (body c).
Proof.
  unfold body. apply n_bind; [apply ni_get_cur|]. intros cs.
  apply (OptTerm.ty_case (@OptTerm.pres ni unit)); ni_tac; try (apply ni_fold_push; apply n_ret).
Qed.

Lemma ni_execute_one c pc : OptTerm.pres ni (execute_one c pc).
Proof.
  unfold execute_one.
  apply n_bind; [apply ni_body|]. intros _.
  apply n_bind; [apply ni_get_cur|]. intros cs.
  apply n_bind; [apply n_calc, ni_pop_wrap|]. intros t.
  destruct (t =? 0); [apply n_ret|].
  destruct (t =? 13).
  { apply n_bind; [apply ni_get_latest|]. intros [loc|]; apply n_ret. }
  cbv zeta. apply n_bind; [apply ni_get_point|]. intros [v|].
  - destruct (pc =? v); [apply n_ret|].
    apply n_bind; [apply ni_set_latest | intros _; apply n_ret].
  - apply n_bind; [apply ni_set_point | intros _; apply n_ret].
Qed.

Lemma exec_loop_ni f : forall code s pc len, inp s = [] ->
  inp (final_state (fst (exec_loop f code s pc len))) = [].
Proof.
  induction f as [|f IH]; intros code s pc len H; cbn [exec_loop].
  - exact H.
  - destruct (len <=? pc); [exact H|].
    destruct (nth_error code (N.to_nat pc)) as [c|]; [|exact H].
    pose proof (ni_execute_one c pc s H) as Hs.
    destruct (execute_one c pc s) as [pc' s'|k s'|x s']; cbn [OptTerm.post] in Hs.
    + apply IH. exact Hs.
    + exact Hs.
    + exact Hs.
Qed.

Lemma run_inc_ni todo : forall fuel done s, inp s = [] -> inp (final_state (run_inc fuel done todo s)) = [].
Proof.
  induction todo as [|c r IH]; intros fuel done s H; cbn [run_inc].
  - exact H.
  - pose proof (exec_loop_ni fuel (done ++ [c]) s (N.of_nat (length done)) (N.of_nat (length done) + 1) H) as He.
    destruct (exec_loop fuel (done ++ [c]) s (N.of_nat (length done)) (N.of_nat (length done) + 1)) as [x f'].
    cbn [fst] in He. destruct x; try exact He. apply IH. exact He.
Qed.

(* ------------------------------------------------------------------ *)
(* split at the first `clear` *)

Definition split_post (fuel : nat) (rest : list (list N)) (evs : list revent) (e : rend) (k : fkind) (o x : list N) : Prop :=
  (k <> KDone /\ rkind e = k /\ shown_out evs = o /\ shown_err evs = x) \/
  (k = KDone /\ e = snd (repl_run true fuel rest) /\
   shown_out evs = o ++ shown_out (fst (repl_run true fuel rest)) /\
   shown_err evs = x ++ shown_err (fst (repl_run true fuel rest))).

Lemma split_post_cons fuel rest ev evs e k o x a b :
  shown_out evs = a ++ shown_out ev -> shown_err evs = b ++ shown_err ev ->
  split_post fuel rest ev e k o x -> split_post fuel rest evs e k (a ++ o) (b ++ x).
Proof.
  intros Ho Hx [(H1 & H2 & H3 & H4)|(H1 & H2 & H3 & H4)].
  - left. repeat split; try assumption.
    + rewrite Ho, H3. reflexivity.
    + rewrite Hx, H4. reflexivity.
  - right. repeat split; try assumption.
    + rewrite Ho, H3, app_assoc. reflexivity.
    + rewrite Hx, H4, app_assoc. reflexivity.
Qed.

Lemma split_post_nofuel fuel rest ev e k o x : e <> RFuelOut -> split_post fuel rest ev e k o x -> k <> KFuel.
Proof.
  intros He [(H1 & H2 & _)|(H1 & _)].
  - intros E. apply He. rewrite E in H2. destruct e; try discriminate H2. reflexivity.
  - rewrite H1. intros E. discriminate E.
Qed.

Lemma repl_split_gen c rest seg : forall fuel log s evs e, forallb plain_line seg = true ->
  leqb (trim c) KW_CLEAR = true -> inp s = [] ->
  repl true fuel (seg ++ c :: rest) log s = (evs, e) -> e <> RFuelOut ->
  exists F k o x, beh (run_inc F log (flat_map line_cmds seg) s) = (k, rev (outb s) ++ o, rev (errb s) ++ x) /\
    split_post fuel rest evs e k o x.
Proof.
  induction seg as [|line seg IH]; intros fuel log s evs e Hp Hc Hi Hr He.
  - cbn [app] in Hr. rewrite (ReplProofs.repl_clear true fuel c rest log s Hc) in Hr. rewrite Hi in Hr.
    fold (repl_run true fuel rest) in Hr.
    destruct (repl_run true fuel rest) as [ev e'] eqn:Er. injection Hr as <- <-.
    exists 0%nat, KDone, [], []. split.
    + cbn. rewrite !app_nil_r. reflexivity.
    + right. rewrite Er. cbn. repeat split; reflexivity.
  - cbn [forallb] in Hp. apply andb_true_iff in Hp. destruct Hp as [Hl Hp].
    unfold plain_line in Hl. apply andb_true_iff in Hl. destruct Hl as [Hcl Hx].
    apply negb_true_iff in Hcl. apply negb_true_iff in Hx.
    cbn [app repl] in Hr. cbv zeta in Hr. cbn [flat_map]. unfold line_cmds at 1. cbv zeta.
    destruct (leqb (trim line) []) eqn:E0.
    { cbn [orb app]. destruct (repl true fuel (seg ++ c :: rest) log s) as [ev e'] eqn:Er. injection Hr as <- <-.
      destruct (IH _ _ _ _ _ Hp Hc Hi Er He) as (F & k & o & x & HF & HP). exists F, k, o, x. split; [exact HF|].
      apply (split_post_cons fuel rest ev _ e' k o x [] []); [reflexivity | reflexivity | exact HP]. }
    rewrite Hcl in Hr.
    destruct (leqb (trim line) KW_HELP) eqn:E2.
    { cbn [orb app]. destruct (repl true fuel (seg ++ c :: rest) log s) as [ev e'] eqn:Er. injection Hr as <- <-.
      destruct (IH _ _ _ _ _ Hp Hc Hi Er He) as (F & k & o & x & HF & HP). exists F, k, o, x. split; [exact HF|].
      apply (split_post_cons fuel rest ev _ e' k o x [] []); [reflexivity | reflexivity | exact HP]. }
    rewrite Hx in Hr. cbn [orb].
    set (cmds := map xcode_of_ucode (parse line)) in *.
    set (rc := flat_map line_cmds seg).
    pose proof (ReplProofs.run_from_fresh fuel log cmds s) as Hf.
    assert (Hi0 : inp (with_fresh_io s) = []) by exact Hi.
    pose proof (run_inc_ni cmds fuel log (with_fresh_io s) Hi0) as Hi'.
    destruct (run_inc fuel log cmds (with_fresh_io s)) as [s'|q s'|y s'|s' p|s'] eqn:Er;
      cbn [map_final] in Hf; cbn [final_state] in Hi'.
    + destruct (repl true fuel (seg ++ c :: rest) (log ++ cmds) s') as [ev e'] eqn:Er2. injection Hr as <- <-.
      destruct (IH _ _ _ _ _ Hp Hc Hi' Er2 He) as (F' & k & o & x & HF' & HP). fold rc in HF'.
      pose proof (ReplProofs.run_inc_frame F' (log ++ cmds) rc s' (outb s) (errb s)) as Hfr.
      pose proof (split_post_nofuel _ _ _ _ _ _ _ He HP) as Hk.
      assert (Hnf : forall t p, map_final (add_io (outb s) (errb s)) (run_inc F' (log ++ cmds) rc s') <> FFuel t p).
      { intros t p. destruct (run_inc F' (log ++ cmds) rc s'); cbn [map_final]; try (intros X; discriminate X).
        cbn [beh] in HF'. exfalso. apply Hk. injection HF' as <- _ _. reflexivity. }
      destruct (ReplProofs.run_inc_app_fin _ _ _ _ _ _ _ _ Hf Hfr Hnf) as [F HF].
      exists F, k, (rev (outb s') ++ o), (rev (errb s') ++ x). split.
      * rewrite HF, ReplProofs.beh_map_final, HF'. cbn [fst snd]. reflexivity.
      * apply (split_post_cons fuel rest ev _ e' k o x); [reflexivity | reflexivity | exact HP].
    + injection Hr as <- <-. exists fuel, (KExit q), (rev (outb s')), (rev (errb s')). split.
      * rewrite (ReplProofs.run_inc_app_stop _ _ _ rc _ _ Hf) by (intros; discriminate).
        cbn [beh add_io outb errb]. rewrite !rev_app_distr. reflexivity.
      * left. cbn. rewrite !app_nil_r. repeat split; try reflexivity. intros X; discriminate X.
    + injection Hr as <- <-. exists fuel, (KErr y), (rev (outb s')), (rev (errb s')). split.
      * rewrite (ReplProofs.run_inc_app_stop _ _ _ rc _ _ Hf) by (intros; discriminate).
        cbn [beh add_io outb errb]. rewrite !rev_app_distr. reflexivity.
      * left. cbn. rewrite !app_nil_r. repeat split; try reflexivity. intros X; discriminate X.
    + injection Hr as <- <-. exfalso. apply He. reflexivity.
    + injection Hr as <- <-. exists fuel, KPanic, (rev (outb s')), (rev (errb s')). split.
      * rewrite (ReplProofs.run_inc_app_stop _ _ _ rc _ _ Hf) by (intros; discriminate).
        cbn [beh add_io outb errb]. rewrite !rev_app_distr. reflexivity.
      * left. cbn. rewrite !app_nil_r. repeat split; try reflexivity. intros X; discriminate X.
Qed.

Theorem repl_clear_split : repl_clear_split_stmt.
Proof.
  intros fuel seg c rest evs e Hp Hc Hr He. unfold repl_run in Hr.
  destruct (repl_split_gen c rest seg fuel [] (state0 SUnopt []) evs e Hp Hc eq_refl Hr He) as (F & k & o & x & HF & HP).
  exists F, k, o, x. split; [exact HF | exact HP].
Qed.
Print Assumptions repl_clear_split.

(* ------------------------------------------------------------------ *)
(* the whole session *)

Lemma join_clear_cons c seg s r : join_clear c (seg :: s :: r) = seg ++ c :: join_clear c (s :: r).
Proof. reflexivity. Qed.

Theorem repl_session : repl_session_stmt.
Proof.
  intros fuel c segs. induction segs as [|seg r IH]; intros evs e Hall Hc Hr He.
  - cbn in Hr. injection Hr as <- <-. cbn. apply SB_nil.
  - inversion Hall as [|seg' r' Hseg Hr']; subst seg' r'.
    destruct r as [|s2 r2].
    + cbn [join_clear] in Hr.
      destruct (ReplProofs.repl_whole fuel seg evs e Hseg Hr He) as [F HF].
      apply (SB_last seg F); [exact HF|]. intros E. apply He. destruct e; try discriminate E. reflexivity.
    + rewrite join_clear_cons in Hr.
      destruct (repl_clear_split fuel seg c _ evs e Hseg Hc Hr He) as (F & k & o & x & HF & [(H1 & H2 & H3 & H4)|(H1 & H2 & H3 & H4)]).
      * rewrite H2, H3, H4. apply (SB_stop seg (s2 :: r2) F); try assumption.
        -- intros X; discriminate X.
        -- intros E. apply He. rewrite E in H2. destruct e; try discriminate H2. reflexivity.
      * subst k. rewrite H3, H4.
        destruct (repl_run true fuel (join_clear c (s2 :: r2))) as [ev2 e2] eqn:E2. cbn [fst snd] in *. subst e2.
        apply (SB_cons seg (s2 :: r2) F); [intros X; discriminate X | exact HF |].
        apply IH; [exact Hr' | exact Hc | reflexivity | exact He].
Qed.
Print Assumptions repl_session.
