(* Statements of the number-layer lemmas, as named propositions.  Each is proved in its own file; files
   that need a lemma proved elsewhere take it as a Section hypothesis of exactly this shape, and
   Proofs/BigAll.v closes everything. *)
From Coq Require Import List NArith ZArith Lia Bool.
Import ListNotations.
From HV Require Import Model.Big.
Open Scope N_scope.

(* ---- limb level ---- *)
Definition shrink_val_stmt := forall l, lval (shrink l) = lval l.
Definition shrink_ok_stmt := forall l, limbs_ok l -> limbs_ok (shrink l).
Definition shrink_normal_stmt := forall l, limbs_ok l -> l <> [] -> normal (shrink l).
Definition normal_unique_stmt := forall a b, normal a -> normal b -> lval a = lval b -> a = b.
Definition normal_length_stmt := forall a b, normal a -> normal b -> lval a <= lval b -> (length a <= length b)%nat.

Definition add_core_stmt := forall a b, limbs_ok a -> limbs_ok b ->
  limbs_ok (add_core a b) /\ lval (add_core a b) = lval a + lval b /\ add_core a b <> [].

Definition less_core_stmt := forall a b, limbs_ok a -> limbs_ok b -> a <> [] -> b <> [] ->
  less_core a b = (lval a <? lval b).

Definition sub_core_stmt := forall a b, limbs_ok a -> limbs_ok b -> sub_core_safe a b ->
  limbs_ok (fst (sub_core a b)) /\ fst (sub_core a b) <> [] /\
  snd (sub_core a b) = (lval a <? lval b) /\
  lval (fst (sub_core a b)) = (if lval a <? lval b then lval b - lval a else lval a - lval b).
Definition sub_core_safe_stmt := forall a b, normal a -> normal b -> sub_core_safe a b.

Definition mult_core_stmt := forall a b, limbs_ok a -> limbs_ok b ->
  limbs_ok (mult_core a b) /\ lval (mult_core a b) = lval a * lval b /\
  length (mult_core a b) = (length a + length b + 1)%nat /\
  mult_acc a b = mult_core a b.     (* every cell already < 2^32: the final `as u32` is lossless *)

Definition div_core_stmt := forall a b, limbs_ok a -> limbs_ok b -> a <> [] -> b <> [] -> lval b <> 0 ->
  limbs_ok (div_core a b) /\ div_core a b <> [] /\ lval (div_core a b) = lval a / lval b.

(* ---- signed level ---- *)
Definition badd_stmt := forall a b, wf a -> wf b -> wf (badd a b) /\ bval (badd a b) = (bval a + bval b)%Z.
Definition bsub_stmt := forall a b, wf a -> wf b -> wf (bsub a b) /\ bval (bsub a b) = (bval a - bval b)%Z.
Definition bmul_stmt := forall a b, wf a -> wf b -> wf (bmul a b) /\ bval (bmul a b) = (bval a * bval b)%Z.
Definition bdiv_stmt := forall a b, wf a -> wf b -> bval b <> 0%Z ->
  wf (bdiv a b) /\ bval (bdiv a b) = Z.quot (bval a) (bval b).
Definition brem_stmt := forall a b, wf a -> wf b -> bval b <> 0%Z ->
  wf (brem a b) /\ bval (brem a b) = Z.rem (bval a) (bval b).
Definition bneg_stmt := forall a, wf a -> wf (bneg a) /\ bval (bneg a) = (- bval a)%Z.
Definition beq_stmt := forall a b, wf a -> wf b -> (beq a b = true <-> bval a = bval b).
Definition bcmp_stmt := forall a b, wf a -> wf b -> bcmp a b = (bval a ?= bval b)%Z.
Definition wf_unique_stmt := forall a b, wf a -> wf b -> bval a = bval b -> a = b.
Definition is_zero_stmt := forall a, wf a -> (is_zero a = true <-> bval a = 0%Z).
Definition bgcd_stmt := forall a b, wf a -> wf b ->
  exists g, bgcd a b = Some g /\ wf g /\ Z.abs (bval g) = Z.gcd (bval a) (bval b).
Definition bnew_stmt := forall n, (Z.abs n < 2 ^ 127)%Z -> wf (bnew n) /\ bval (bnew n) = n.
Definition from_vec_stmt := forall v, limbs_ok v -> v <> [] -> wf (from_vec v) /\ bval (from_vec v) = Z.of_N (lval v).
