(* Closes the lemmas of Text2Proofs. *)
From Coq Require Import List NArith ZArith Bool.
From HV Require Import Model.Big Model.Rat Model.NumText Proofs.BigSpec Proofs.RatSpec Proofs.BigAll Proofs.Text2Spec.
From HV Require Proofs.Text2Proofs.
Definition fsb_any_t : fsb_any_stmt := Text2Proofs.fsb_any badd_t bmul_t bnew_t.
