(* Proofs about the debugger model (Model/Debug.v): statements in Proofs/AppSpec.v. *)
From Coq Require Import List NArith ZArith Lia Bool.
Import ListNotations.
From HV Require Import Model.Big Model.Rat Model.NumText Model.Chars Model.Parse Model.Exec Model.Opt Model.Repl Model.Debug
  Proofs.OptSpec Proofs.AppSpec.
Open Scope N_scope.

(* ---------- small facts that need no hypothesis ---------- *)
Lemma core_idem s : core (core s) = core s.
Proof. reflexivity. Qed.
Lemma core_add_io o e s : core (add_io o e s) = core s.
Proof. reflexivity. Qed.
Lemma s_io_add_io (s io : state) :
  mkstate (skind_ s) (stacks s) (cur s) (points s) (latest s) (inp s) (outb io) (errb io)
  = add_io (outb io) (errb io) (core s).
Proof. reflexivity. Qed.

Lemma forallb_filter {A} (p q : A -> bool) l : forallb p l = true -> forallb p (filter q l) = true.
Proof.
  induction l as [|a l IH]; intros H; [reflexivity|].
  cbn [forallb] in H. apply andb_true_iff in H. destruct H as [Ha Hl].
  cbn [filter]. destruct (q a); [cbn [forallb]; rewrite Ha, (IH Hl); reflexivity | exact (IH Hl)].
Qed.

Lemma dinv_mk code h b r io : hist_ok code h ->
  forallb (fun i => i <? N.of_nat (length code)) b = true -> dinv code (mkd h b r io).
Proof. intros H1 H2. split; assumption. Qed.

Lemma nth_error_lt_some (code : list xcode) pc : (N.of_nat (length code) <=? pc) = false ->
  exists c, nth_error code (N.to_nat pc) = Some c.
Proof.
  intros H. apply N.leb_gt in H.
  destruct (nth_error code (N.to_nat pc)) as [c|] eqn:E; [exists c; reflexivity|].
  apply nth_error_None in E. lia.
Qed.

Theorem dinv_init : dinv_init_stmt.
Proof.
  intros code Hne. split.
  - cbn. split; [reflexivity | left; reflexivity].
  - cbn [dinit brk forallb]. rewrite andb_true_r. apply N.ltb_lt.
    destruct code; [contradiction Hne; reflexivity | cbn [length]; lia].
Qed.
Print Assumptions dinv_init.

Theorem debug_pinned_panics : debug_pinned_panics_stmt.
Proof.
  exists 10%nat, [mkxcode 0 1 1 1 Nil],
    [[98;114;101;97;107;32;49;10]; [98;114;101;97;107;10]].
  split; [discriminate | vm_compute; reflexivity].
Qed.
Print Assumptions debug_pinned_panics.

Theorem debug_state : debug_state_stmt.
Proof.
  intros code line rest d _ Hrun [s [pc [Hhd Hpc]]] Hst Hnx Hpv Hrn.
  unfold dtrans. destruct (hist d) as [|[s1 pc1] older] eqn:Eh; [discriminate|].
  cbn [hd_error] in Hhd. inversion Hhd; subst s1 pc1. clear Hhd.
  apply N.leb_gt in Hpc. cbv zeta. rewrite Hpc, Hrun, Hnx, Hpv, Hrn, Hst.
  reflexivity.
Qed.
Print Assumptions debug_state.

Theorem debug_previous : debug_previous_stmt.
Proof.
  intros code line rest d s pc older Eh Hne Hrun Hpc Hpv Hnx.
  unfold dtrans. rewrite Eh. apply N.leb_gt in Hpc. cbv zeta. rewrite Hpc, Hrun, Hnx, Hpv.
  destruct older; [contradiction Hne; reflexivity | reflexivity].
Qed.
Print Assumptions debug_previous.

Section WithFrame.
  Hypothesis Hframe : io_frame_stmt.

  (* a successful step of the debugger is a step of the interpreter *)
  Lemma dstep_inl code d s pc older s' pc' io' :
    hist d = (s, pc) :: older -> dstep code d = inl (s', pc', io') ->
    nsteps (length older) code = Some (core s, pc) ->
    nsteps (S (length older)) code = Some (core s', pc').
  Proof.
    intros Eh Ed Hn. unfold dstep in Ed. rewrite Eh in Ed.
    cbn [nsteps]. rewrite Hn.
    destruct (nth_error code (N.to_nat pc)) as [c|]; [|discriminate].
    rewrite s_io_add_io, Hframe in Ed. rewrite core_idem.
    destruct (execute_one c pc (core s)) as [a s1|k s1|e s1]; cbn [map_res] in Ed; inversion Ed.
    rewrite core_add_io. reflexivity.
  Qed.

  Lemma dstep_push code d s pc older s' pc' io' :
    hist_ok code (hist d) -> hist d = (s, pc) :: older -> dstep code d = inl (s', pc', io') ->
    hist_ok code ((s', pc') :: hist d).
  Proof.
    intros Hh Eh Ed. cbn [hist_ok]. split; [|right; exact Hh].
    rewrite Eh in Hh |- *. cbn [hist_ok] in Hh. destruct Hh as [Hn _].
    cbn [length]. eapply dstep_inl; eassumption.
  Qed.

  (* inside the program, dstep never produces a panic-like result *)
  Lemma dstep_np code d s pc older : hist d = (s, pc) :: older ->
    (N.of_nat (length code) <=? pc) = false ->
    match dstep code d with
    | inl _ => True | inr (FExit _ _) => True | inr (FErr _ _) => True | inr _ => False
    end.
  Proof.
    intros Eh Hpc. unfold dstep. rewrite Eh.
    destruct (nth_error_lt_some code pc Hpc) as [c Hc]. rewrite Hc.
    destruct (execute_one c pc _); exact I.
  Qed.

  (* one iteration of the loop: never a panic, and the invariant is kept *)
  Lemma dtrans_inv code lines d : dinv code d ->
    match dtrans true true code lines d with
    | (_, inl e) => e <> DPanic
    | (_, inr (_, d')) => dinv code d'
    end.
  Proof.
    intros Hinv. pose proof Hinv as [Hh Hb].
    unfold dtrans.
    destruct (hist d) as [|[s pc] older] eqn:Eh; [contradiction Hh|].
    cbv zeta.
    destruct (N.of_nat (length code) <=? pc) eqn:Elen; [discriminate|].
    pose proof (dstep_np code d s pc older Eh Elen) as Hnp.
    assert (Hpush : forall s' pc' io', dstep code d = inl (s', pc', io') ->
                                       hist_ok code ((s', pc') :: (s, pc) :: older)).
    { intros s' pc' io' Ed. rewrite <- Eh. eapply dstep_push; [rewrite Eh; exact Hh | exact Eh | exact Ed]. }
    assert (Hsame : forall r io, dinv code (mkd ((s, pc) :: older) (brk d) r io)).
    { intros r io. apply dinv_mk; assumption. }
    destruct (running d).
    { destruct (mem_N pc (brk d)); [apply Hsame|].
      destruct (dstep code d) as [[[s' pc'] io']|[]] eqn:Ed; try contradiction; try discriminate.
      apply dinv_mk; [eapply Hpush; reflexivity | exact Hb]. }
    destruct lines as [|line rest]; [discriminate|].
    destruct (is_word _ w_next 110).
    { destruct (dstep code d) as [[[s' pc'] io']|[]] eqn:Ed; try contradiction; try discriminate.
      apply dinv_mk; [eapply Hpush; reflexivity | exact Hb]. }
    destruct (is_word _ w_previous 112).
    { destruct older as [|p o2]; [exact Hinv|].
      apply dinv_mk; [|exact Hb].
      cbn [hist_ok] in Hh. destruct Hh as [_ [Hh|Hh]]; [discriminate | exact Hh]. }
    destruct (is_word _ w_run 114).
    { destruct (dstep code d) as [[[s' pc'] io']|[]] eqn:Ed; try contradiction; try discriminate.
      apply dinv_mk; [eapply Hpush; reflexivity | exact Hb]. }
    destruct (is_word _ w_state 115); [exact Hinv|].
    destruct (is_word _ w_break 98).
    { destruct (tl _) as [|w ws].
      - rewrite Hb. exact Hinv.
      - destruct (parse_usize w) as [n|e]; [|exact Hinv].
        destruct (N.of_nat (length code) <=? n) eqn:En; [exact Hinv|].
        destruct (mem_N n (brk d)).
        + apply dinv_mk; [exact Hh|]. unfold remove_N. apply forallb_filter. exact Hb.
        + apply dinv_mk; [exact Hh|]. cbn [forallb]. rewrite Hb, andb_true_r.
          apply N.ltb_lt. apply N.leb_gt in En. exact En. }
    destruct (is_word _ w_help 104); [exact Hinv|].
    destruct (leqb _ w_exit); [discriminate|].
    destruct (leqb _ []); exact Hinv.
  Qed.

  Theorem dinv_step : dinv_step_stmt.
  Proof.
    intros code lines d evs lines' d' Hinv Ht.
    pose proof (dtrans_inv code lines d Hinv) as H. rewrite Ht in H. exact H.
  Qed.

  Theorem debug_no_panic : debug_no_panic_stmt.
  Proof.
    intros code lines d evs Hinv Ht.
    pose proof (dtrans_inv code lines d Hinv) as H. rewrite Ht in H. apply H; reflexivity.
  Qed.

  Lemma dloop_no_panic : forall fuel code lines d evs e, dinv code d ->
    dloop true true fuel code lines d = (evs, e) -> e <> DPanic.
  Proof.
    induction fuel as [|f IH]; intros code lines d evs e Hinv Hl.
    - cbn [dloop] in Hl. inversion Hl. discriminate.
    - cbn [dloop] in Hl.
      destruct (dtrans true true code lines d) as [ev1 [e1|[lines' d']]] eqn:Et.
      + inversion Hl; subst. intros ->. exact (debug_no_panic code lines d evs Hinv Et).
      + destruct (dloop true true f code lines' d') as [ev2 e2] eqn:El.
        inversion Hl; subst. eapply IH; [|exact El].
        exact (dinv_step code lines d ev1 lines' d' Hinv Et).
  Qed.

  Theorem debug_run_no_panic : debug_run_no_panic_stmt.
  Proof.
    intros fuel code lines evs e Hne Hr. unfold debug_run in Hr.
    eapply dloop_no_panic; [|exact Hr]. apply dinv_init. exact Hne.
  Qed.
End WithFrame.

Print Assumptions dinv_step.
Print Assumptions debug_no_panic.
Print Assumptions debug_run_no_panic.
