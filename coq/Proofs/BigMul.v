From Coq Require Import List NArith ZArith Lia Bool.
Import ListNotations.
From HV Require Import Model.Big Proofs.BigBase Proofs.BigSpec.
Open Scope N_scope.
(* mult_core (big_number.rs l.464-485): value, limb bounds, length, losslessness of the final `as u32`
   cast, and absence of u64 overflow in every intermediate accumulator of the double loop. *)
Arguments N.add : simpl never. Arguments N.mul : simpl never. Arguments N.div : simpl never.
Arguments N.modulo : simpl never. Arguments N.pow : simpl never. Arguments N.sub : simpl never.
Arguments N.leb : simpl never. Arguments N.ltb : simpl never. Arguments N.eqb : simpl never.

(* ------------------------------------------------------------------------------------------ *)
(* arithmetic of one inner-loop step                                                          *)
(* ------------------------------------------------------------------------------------------ *)

Lemma prod_lt x y : x < B -> y < B -> x * y < B * (B - 1) /\ x * y < U64.
Proof.
  intros Hx Hy.
  assert (H1 : x * y <= (B - 1) * (B - 1)) by (apply N.mul_le_mono; lia).
  unfold B, U64 in *. lia.
Qed.

(* t = x*y, a = w0 + t mod B, b1 = w1 + t/B, b = b1 + a/B *)
Lemma step_bounds x y w0 w1 : x < B -> y < B -> w0 < 2 * B -> w1 < B ->
  let t := x * y in let a := w0 + t mod B in let b := w1 + t / B + a / B in
  t < U64 /\ a < 3 * B /\ w1 + t / B < 2 * B /\ b < 2 * B /\ a mod B < B.
Proof.
  intros Hx Hy Hw0 Hw1 t a b.
  destruct (prod_lt x y Hx Hy) as [Ht Ht64]. fold t in Ht, Ht64.
  assert (Htm : t mod B < B) by (apply N.mod_lt, B_nz).
  assert (Htd : t / B < B - 1) by (apply N.div_lt_upper_bound; [apply B_nz | exact Ht]).
  assert (Ha : a < 3 * B) by (subst a; lia).
  assert (Had : a / B < 3) by (apply N.div_lt_upper_bound; [apply B_nz | lia]).
  assert (Ham : a mod B < B) by (apply N.mod_lt, B_nz).
  subst b. repeat split; try assumption; unfold B in *; lia.
Qed.

(* ------------------------------------------------------------------------------------------ *)
(* the inner loop                                                                             *)
(* ------------------------------------------------------------------------------------------ *)

Lemma row_val x ys : forall w, (length ys < length w)%nat ->
  lval (row x ys w) = lval w + x * lval ys.
Proof.
  induction ys as [|y ys IH]; intros w Hl; cbn [row].
  - cbn [lval]. lia.
  - destruct w as [|w0 [|w1 ws]]; cbn [length] in Hl; try lia.
    cbn zeta. cbn [lval]. rewrite IH by (cbn [length]; lia). cbn [lval].
    pose proof (N.div_mod (x * y) B B_nz).
    pose proof (N.div_mod (w0 + (x * y) mod B) B B_nz).
    nia.
Qed.

Lemma row_length x ys : forall w, length (row x ys w) = length w.
Proof.
  induction ys as [|y ys IH]; intros w; cbn [row]; [reflexivity|].
  destruct w as [|w0 [|w1 ws]]; try reflexivity. cbn zeta. cbn [length]. rewrite IH. reflexivity.
Qed.

(* [almost n l]: cells 0..n-1 are < B, cell n exists and is < 2B, the cells above are < B *)
Fixpoint almost (n : nat) (l : list N) : Prop :=
  match n, l with
  | _, [] => False
  | O, c :: r => c < 2 * B /\ limbs_ok r
  | S n', c :: r => c < B /\ almost n' r
  end.

Lemma row_almost x ys : x < B -> limbs_ok ys -> forall w0 ws,
  (length ys < length (w0 :: ws))%nat -> w0 < 2 * B -> limbs_ok ws ->
  almost (length ys) (row x ys (w0 :: ws)).
Proof.
  intros Hx Hys. induction Hys as [|y ys Hy Hys IH]; intros w0 ws Hl Hw0 Hws.
  - cbn [row length almost]. split; assumption.
  - destruct ws as [|w1 ws]; cbn [length] in Hl; [lia|].
    inversion Hws as [|? ? Hw1 Hws']; subst.
    cbn [row length almost]. cbn zeta.
    destruct (step_bounds x y w0 w1 Hx Hy Hw0 Hw1) as (_ & _ & _ & Hb & Ham).
    split; [exact Ham|].
    apply IH; [cbn [length]; lia | exact Hb | exact Hws'].
Qed.

Lemma almost_ok n : forall l, almost n l -> lval l < B ^ N.of_nat (S n) -> limbs_ok l.
Proof.
  induction n as [|n IH]; intros l Ha Hv; destruct l as [|c r]; cbn [almost] in Ha; try contradiction.
  - destruct Ha as [Hc Hr]. cbn [lval] in Hv. change (N.of_nat 1) with 1 in Hv. rewrite N.pow_1_r in Hv.
    constructor; [|exact Hr]. pose proof B_pos. nia.
  - destruct Ha as [Hc Hr]. cbn [lval] in Hv. rewrite Nat2N.inj_succ, N.pow_succ_r' in Hv.
    constructor; [exact Hc|]. apply IH; [exact Hr|]. pose proof B_pos. nia.
Qed.

(* ------------------------------------------------------------------------------------------ *)
(* one iteration of the outer loop                                                            *)
(* ------------------------------------------------------------------------------------------ *)

Lemma step_inv x ys w : x < B -> limbs_ok ys -> limbs_ok w -> (length ys < length w)%nat ->
  lval w < B ^ N.of_nat (length ys) ->
  let w' := if x =? 0 then w else row x ys w in
  limbs_ok w' /\ lval w' = lval w + x * lval ys /\ length w' = length w /\
  lval w' < B ^ N.of_nat (S (length ys)).
Proof.
  intros Hx Hys Hw Hl Hv w'.
  pose proof B_pos as HB.
  assert (HP : 0 < B ^ N.of_nat (length ys)) by (apply N.neq_0_lt_0, N.pow_nonzero, B_nz).
  assert (Hval : lval w' = lval w + x * lval ys /\ length w' = length w).
  { subst w'. destruct (N.eqb_spec x 0) as [E|E].
    - subst x. split; [lia | reflexivity].
    - split; [apply row_val; exact Hl | apply row_length]. }
  destruct Hval as [Hval Hlen].
  assert (Hlt : lval w' < B ^ N.of_nat (S (length ys))).
  { rewrite Hval, Nat2N.inj_succ, N.pow_succ_r'.
    pose proof (lval_bound ys Hys) as HL.
    set (P := B ^ N.of_nat (length ys)) in *. set (L := lval ys) in *.
    assert (x * L <= x * P) by (apply N.mul_le_mono_l; lia).
    assert (x * P + P <= B * P) by nia.
    lia. }
  repeat split; try assumption.
  subst w'. destruct (N.eqb_spec x 0) as [E|E]; [exact Hw|].
  destruct w as [|w0 ws]; [cbn [length] in Hl; lia|].
  inversion Hw as [|? ? Hw0 Hws]; subst.
  apply (almost_ok (length ys)); [|exact Hlt].
  apply row_almost; try assumption. lia.
Qed.

Lemma tail_inv m w0 w : lval (w0 :: w) < B ^ N.of_nat (S m) -> lval w < B ^ N.of_nat m.
Proof.
  cbn [lval]. rewrite Nat2N.inj_succ, N.pow_succ_r'. pose proof B_pos. nia.
Qed.

(* ------------------------------------------------------------------------------------------ *)
(* the outer loop                                                                             *)
(* ------------------------------------------------------------------------------------------ *)

Lemma mult_rows_spec ys : limbs_ok ys -> forall xs, limbs_ok xs -> forall w, limbs_ok w ->
  length w = (length xs + length ys + 1)%nat -> lval w < B ^ N.of_nat (length ys) ->
  limbs_ok (mult_rows xs ys w) /\ lval (mult_rows xs ys w) = lval w + lval xs * lval ys /\
  length (mult_rows xs ys w) = length w.
Proof.
  intros Hys xs Hxs. induction Hxs as [|x xs Hx Hxs IH]; intros w Hw Hl Hv.
  - cbn [mult_rows lval]. repeat split; [exact Hw | lia].
  - cbn [mult_rows]. cbn [length] in Hl.
    destruct (step_inv x ys w Hx Hys Hw ltac:(lia) Hv) as (Hok & Hval & Hlen & Hlt).
    destruct (if x =? 0 then w else row x ys w) as [|w0 w'] eqn:E.
    { cbn [length] in Hlen. lia. }
    inversion Hok as [|? ? Hw0 Hw']; subst.
    cbn [length] in Hlen.
    destruct (IH w' Hw' ltac:(lia) (tail_inv _ _ _ Hlt)) as (IH1 & IH2 & IH3).
    split; [constructor; assumption|]. split.
    + cbn [lval] in *. rewrite IH2. lia.
    + cbn [length]. rewrite IH3. exact Hlen.
Qed.

Lemma lval_repeat0 n : lval (repeat 0 n) = 0.
Proof. induction n as [|n IH]; cbn [repeat lval]; [reflexivity | rewrite IH; lia]. Qed.

Lemma ok_repeat0 n : limbs_ok (repeat 0 n).
Proof. induction n as [|n IH]; cbn [repeat]; constructor; [reflexivity | exact IH]. Qed.

Lemma map_mod_id l : limbs_ok l -> map (fun x => x mod B) l = l.
Proof.
  induction 1 as [|x l Hx _ IH]; cbn [map]; [reflexivity|].
  rewrite IH, N.mod_small by exact Hx. reflexivity.
Qed.

Lemma mult_acc_spec a b : limbs_ok a -> limbs_ok b ->
  limbs_ok (mult_acc a b) /\ lval (mult_acc a b) = lval a * lval b /\
  length (mult_acc a b) = (length a + length b + 1)%nat.
Proof.
  intros Ha Hb. unfold mult_acc.
  destruct (mult_rows_spec b Hb a Ha (repeat 0 (length a + length b + 1))) as (H1 & H2 & H3).
  - apply ok_repeat0.
  - apply repeat_length.
  - rewrite lval_repeat0. apply N.neq_0_lt_0, N.pow_nonzero, B_nz.
  - rewrite lval_repeat0 in H2. rewrite repeat_length in H3. repeat split; [exact H1 | lia | exact H3].
Qed.

Theorem mult_core_spec : mult_core_stmt.
Proof.
  intros a b Ha Hb. destruct (mult_acc_spec a b Ha Hb) as (H1 & H2 & H3).
  assert (E : mult_core a b = mult_acc a b) by (unfold mult_core; apply map_mod_id; exact H1).
  rewrite E. repeat split; try assumption.
Qed.
Print Assumptions mult_core_spec.

(* ------------------------------------------------------------------------------------------ *)
(* no u64 overflow: instrumented copies of [row] / [mult_rows]                                *)
(* ------------------------------------------------------------------------------------------ *)

(* Every u64 value that the Rust inner-loop body computes or stores, in program order:
     t                     = (lhs[i] as u64) * (rhs[j] as u64)
     a  = w0 + t mod B     : v[i+j]   after  `v[i+j]   += t % 2^32`
     b1 = w1 + t / B       : v[i+j+1] after  `v[i+j+1] += t / 2^32`
     b  = b1 + a / B       : v[i+j+1] after  `v[i+j+1] += v[i+j] / 2^32`
     a mod B               : v[i+j]   after  `v[i+j]   %= 2^32`
   The first component is the data ([row] itself), the second the trace. *)
Fixpoint row_tr (x : N) (ys : list N) (w : list N) : list N * list N :=
  match ys, w with
  | [], _ => (w, [])
  | y :: ys', w0 :: w1 :: ws =>
      let t := x * y in
      let a := w0 + t mod B in
      let b1 := w1 + t / B in
      let b := b1 + a / B in
      let r := row_tr x ys' (b :: ws) in
      ((a mod B) :: fst r, t :: a :: b1 :: b :: (a mod B) :: snd r)
  | _, _ => (w, [])
  end.

(* the trace starts with the initial contents of the vector (vec![0; n]) when called from [mult_trace];
   here it collects the traces of the rows *)
Fixpoint mult_rows_tr (xs ys w : list N) : list N * list N :=
  match xs with
  | [] => (w, [])
  | x :: xs' =>
      let r := if x =? 0 then (w, []) else row_tr x ys w in
      match fst r with
      | [] => ([], snd r)
      | w0 :: w' => let r' := mult_rows_tr xs' ys w' in (w0 :: fst r', snd r ++ snd r')
      end
  end.

Definition mult_acc_tr (a b : list N) : list N * list N :=
  let v0 := repeat 0 (length a + length b + 1) in
  let r := mult_rows_tr a b v0 in
  (fst r, v0 ++ snd r ++ fst r).      (* initial cells, all loop intermediates, final cells *)
Definition mult_trace (a b : list N) : list N := snd (mult_acc_tr a b).

(* faithfulness of the instrumentation *)
Lemma row_tr_data x ys : forall w, fst (row_tr x ys w) = row x ys w.
Proof.
  induction ys as [|y ys IH]; intros w; cbn [row_tr row]; [reflexivity|].
  destruct w as [|w0 [|w1 ws]]; try reflexivity. cbn zeta. cbn [fst]. rewrite IH. reflexivity.
Qed.

Lemma mult_rows_tr_data ys : forall xs w, fst (mult_rows_tr xs ys w) = mult_rows xs ys w.
Proof.
  induction xs as [|x xs IH]; intros w; cbn [mult_rows_tr mult_rows]; [reflexivity|].
  cbn zeta.
  assert (E : fst (if x =? 0 then (w, []) else row_tr x ys w) = (if x =? 0 then w else row x ys w)).
  { destruct (x =? 0); [reflexivity | apply row_tr_data]. }
  rewrite E. destruct (if x =? 0 then w else row x ys w) as [|w0 w']; [reflexivity|].
  cbn [fst]. rewrite IH. reflexivity.
Qed.

Theorem mult_acc_tr_data a b : fst (mult_acc_tr a b) = mult_acc a b.
Proof. unfold mult_acc_tr, mult_acc. cbn zeta. cbn [fst]. apply mult_rows_tr_data. Qed.

(* bounds *)
Lemma lt_B_U64 x : x < 3 * B -> x < U64.
Proof. unfold B, U64. lia. Qed.

Lemma row_tr_bound x ys : x < B -> limbs_ok ys -> forall w0 ws, w0 < 2 * B -> limbs_ok ws ->
  Forall (fun v => v < U64) (snd (row_tr x ys (w0 :: ws))).
Proof.
  intros Hx Hys. induction Hys as [|y ys Hy Hys IH]; intros w0 ws Hw0 Hws.
  - cbn [row_tr snd]. constructor.
  - destruct ws as [|w1 ws]; [cbn [row_tr snd]; constructor|].
    inversion Hws as [|? ? Hw1 Hws']; subst.
    cbn [row_tr]. cbn zeta. cbn [snd].
    destruct (step_bounds x y w0 w1 Hx Hy Hw0 Hw1) as (Ht & Ha & Hb1 & Hb & Ham).
    repeat (constructor; [first [exact Ht | apply lt_B_U64; lia]|]).
    apply IH; [exact Hb | exact Hws'].
Qed.

Lemma mult_rows_tr_bound ys : limbs_ok ys -> forall xs, limbs_ok xs -> forall w, limbs_ok w ->
  length w = (length xs + length ys + 1)%nat -> lval w < B ^ N.of_nat (length ys) ->
  Forall (fun v => v < U64) (snd (mult_rows_tr xs ys w)).
Proof.
  intros Hys xs Hxs. induction Hxs as [|x xs Hx Hxs IH]; intros w Hw Hl Hv.
  - cbn [mult_rows_tr snd]. constructor.
  - cbn [mult_rows_tr]. cbn zeta. cbn [length] in Hl.
    destruct (step_inv x ys w Hx Hys Hw ltac:(lia) Hv) as (Hok & _ & Hlen & Hlt).
    assert (E : fst (if x =? 0 then (w, []) else row_tr x ys w) = (if x =? 0 then w else row x ys w)).
    { destruct (x =? 0); [reflexivity | apply row_tr_data]. }
    assert (Htr : Forall (fun v => v < U64) (snd (if x =? 0 then (w, []) else row_tr x ys w))).
    { destruct (x =? 0); [constructor|].
      destruct w as [|w0 ws]; [cbn [length] in Hl; lia|].
      inversion Hw as [|? ? Hw0 Hws]; subst.
      apply row_tr_bound; try assumption. lia. }
    rewrite E.
    destruct (if x =? 0 then w else row x ys w) as [|w0 w'] eqn:E'.
    { exact Htr. }
    inversion Hok as [|? ? Hw0 Hw']; subst.
    cbn [length] in Hlen. cbn [snd].
    apply Forall_app. split; [exact Htr|].
    apply IH; [exact Hw' | lia | exact (tail_inv _ _ _ Hlt)].
Qed.

Lemma ok_U64 l : limbs_ok l -> Forall (fun v => v < U64) l.
Proof. apply Forall_impl. intros x Hx. apply lt_B_U64. lia. Qed.

Theorem mult_no_overflow : forall a b, limbs_ok a -> limbs_ok b ->
  Forall (fun x => x < U64) (mult_trace a b).
Proof.
  intros a b Ha Hb. unfold mult_trace, mult_acc_tr. cbn zeta. cbn [snd].
  apply Forall_app. split; [apply ok_U64, ok_repeat0|].
  apply Forall_app. split.
  - apply (mult_rows_tr_bound b Hb a Ha).
    + apply ok_repeat0.
    + apply repeat_length.
    + rewrite lval_repeat0. apply N.neq_0_lt_0, N.pow_nonzero, B_nz.
  - rewrite mult_rows_tr_data. apply ok_U64.
    exact (proj1 (mult_acc_spec a b Ha Hb)).
Qed.
Print Assumptions mult_no_overflow.
