(* Closes the rational-layer lemmas: every named statement of RatSpec.v, with no premises left. *)
From Coq Require Import List NArith ZArith QArith Bool.
From HV Require Import Model.Big Model.Rat Proofs.BigSpec Proofs.RatSpec Proofs.BigAll.
From HV Require Proofs.RatOps.

Definition optimize_t : optimize_stmt := RatOps.optimize_spec bdiv_t bneg_t is_zero_t bgcd_t.
Definition nadd_t : nadd_stmt := RatOps.nadd_spec badd_t bmul_t bdiv_t bneg_t is_zero_t bgcd_t.
Definition nmul_t : nmul_stmt := RatOps.nmul_spec bmul_t bdiv_t bneg_t is_zero_t bgcd_t.
Definition nneg_t : nneg_stmt := RatOps.nneg_spec bneg_t is_zero_t.
Definition nflip_t : nflip_stmt := RatOps.nflip_spec bneg_t is_zero_t.
Definition floor_t : floor_stmt := RatOps.floor_spec bdiv_t beq_t is_zero_t.
Definition is_pos_t : is_pos_stmt := RatOps.is_pos_spec is_zero_t.
Definition is_nan_t : is_nan_stmt := RatOps.is_nan_spec.
Definition wfn_unique_t : wfn_unique_stmt := RatOps.wfn_unique wf_unique_t is_zero_t.
Definition neq_t : neq_stmt := RatOps.neq_spec beq_t is_zero_t.
Definition ncmp_t : ncmp_stmt := RatOps.ncmp_spec bmul_t beq_t bcmp_t is_zero_t.
Definition from_num_t : from_num_stmt := RatOps.from_num_spec is_zero_t bnew_t.
