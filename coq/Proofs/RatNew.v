(* Num::new(up: isize, down: usize), including the `down as isize` cast. *)
From Coq Require Import List NArith ZArith QArith Lia Bool.
From HV Require Import Model.Big Model.Rat Proofs.BigSpec Proofs.RatSpec Proofs.BigAll Proofs.RatAll.
Open Scope Z_scope.

(* the machine ranges: isize and usize on a 64-bit target *)
Definition isize_range (u : Z) : Prop := - 2 ^ 63 <= u < 2 ^ 63.
Definition usize_range (d : Z) : Prop := 0 <= d < 2 ^ 64.

(* for every pair of machine integers (not both zero) the result is canonical and its value is up / (down as isize) *)
Definition nnew_stmt := forall u d, isize_range u -> usize_range d -> (u <> 0 \/ d <> 0) ->
  wfn (nnew u d) /\ oq_eq (nval (nnew u d)) (frac u (wrap_isize d)).
(* hence exactly up/down for denominators below 2^63 ... *)
Definition nnew_exact_stmt := forall u d, isize_range u -> 0 <= d < 2 ^ 63 -> (u <> 0 \/ d <> 0) ->
  wfn (nnew u d) /\ oq_eq (nval (nnew u d)) (frac u d).
(* ... and never up/down from 2^63 on (the value has the opposite sign, or is 0 = -0): the cast is a latent defect of
   the constructor, outside every operation the properties name *)
Definition nnew_wrapped_stmt := forall u d, isize_range u -> 2 ^ 63 <= d < 2 ^ 64 -> u <> 0 ->
  ~ oq_eq (nval (nnew u d)) (frac u d).

Lemma wrap_small d : 0 <= d < 2 ^ 63 -> wrap_isize d = d.
Proof. intros H. unfold wrap_isize. destruct (Z.ltb_spec d (2 ^ 63)); [reflexivity|lia]. Qed.
Lemma wrap_big d : 2 ^ 63 <= d < 2 ^ 64 -> wrap_isize d = d - 2 ^ 64.
Proof. intros H. unfold wrap_isize. destruct (Z.ltb_spec d (2 ^ 63)); [lia|reflexivity]. Qed.
Lemma wrap_range d : usize_range d -> - 2 ^ 63 <= wrap_isize d < 2 ^ 63 /\ (wrap_isize d = 0 -> d = 0).
Proof.
  intros H. unfold usize_range in H. unfold wrap_isize. destruct (Z.ltb_spec d (2 ^ 63)); split; lia.
Qed.

Theorem nnew_spec : nnew_stmt.
Proof.
  intros u d Hu Hd Hnz. unfold isize_range in Hu.
  destruct (wrap_range d Hd) as [Hw Hw0].
  destruct (bnew_t u) as [Hwu Hvu]; [lia|].
  destruct (bnew_t (wrap_isize d)) as [Hwd Hvd]; [lia|].
  pose proof (optimize_t (bnew u) (bnew (wrap_isize d)) Hwu Hwd) as Hopt.
  rewrite Hvu, Hvd in Hopt. unfold nnew. apply Hopt.
  destruct Hnz as [H|H]; [left; exact H|right; intros E; apply H, Hw0, E].
Qed.

Theorem nnew_exact : nnew_exact_stmt.
Proof.
  intros u d Hu Hd Hnz. rewrite <- (wrap_small d Hd) at 3.
  apply nnew_spec; [exact Hu|unfold usize_range; lia|exact Hnz].
Qed.

Theorem nnew_wrapped : nnew_wrapped_stmt.
Proof.
  intros u d Hu Hd Hnz Heq.
  destruct (nnew_spec u d Hu) as [_ Hv]; [unfold usize_range; lia|left; exact Hnz|].
  rewrite (wrap_big d Hd) in Hv.
  unfold frac in Hv, Heq.
  destruct (Z.eqb_spec (d - 2 ^ 64) 0); [lia|]. destruct (Z.eqb_spec d 0); [lia|].
  destruct (Z.ltb_spec 0 (d - 2 ^ 64)); [lia|]. destruct (Z.ltb_spec 0 d); [|lia].
  destruct (nval (nnew u d)) as [q|]; [|exact Hv].
  cbn [oq_eq] in Hv, Heq. rewrite Hv in Heq. unfold Qeq in Heq. cbn [Qnum Qden] in Heq.
  rewrite !Z2Pos.id in Heq by lia. nia.
Qed.
