(* Statements of the interpreter-layer lemmas: L1 (Model/Exec.v) refines L2 (Spec/Lang.v). *)
From Coq Require Import List NArith ZArith QArith Qround Qreduction Bool.
Import ListNotations.
From HV Require Import Model.Big Model.Rat Model.NumText Model.Chars Model.Parse Model.Exec Spec.Lang Proofs.RatSpec.
Open Scope N_scope.

(* abstraction of a number *)
Definition vof (x : num) : value := match nval x with None => VNaN | Some q => VRat (Qred q) end.

(* ---- value level ---- *)
Definition vof_add_stmt := forall a b, wfn a -> wfn b -> wfn (nadd a b) /\ vof (nadd a b) = vadd (vof a) (vof b).
Definition vof_mul_stmt := forall a b, wfn a -> wfn b -> wfn (nmul a b) /\ vof (nmul a b) = vmul (vof a) (vof b).
Definition vof_neg_stmt := forall a, wfn a -> wfn (nneg a) /\ vof (nneg a) = vneg (vof a) /\ nminus a = nneg a.
Definition vof_flip_stmt := forall a, wfn a -> wfn (nflip a) /\ vof (nflip a) = vrecip (vof a).
Definition vof_nat_stmt := forall n, n < 2 ^ 63 -> wfn (from_num (Z.of_N n)) /\ vof (from_num (Z.of_N n)) = vnat n.
Definition vof_consts_stmt := wfn nzero /\ vof nzero = vnat 0 /\ wfn n_one /\ vof n_one = vnat 1 /\ wfn nan /\ vof nan = VNaN.
Definition vof_nan_stmt := forall a, wfn a -> (is_nan a = true <-> vof a = VNaN).
Definition vof_cmp_stmt := forall a n, wfn a -> n < 2 ^ 63 ->
  (match ncmp a (from_num (Z.of_N n)) with Some Lt => true | _ => false end) = vlt (vof a) n /\
  (match ncmp a (from_num (Z.of_N n)) with Some Eq => true | _ => false end) = veq (vof a) n.
(* output of a value on stack 1/2: the same character / error / text *)
Definition vof_out_stmt := forall a, wfn a ->
  match vof a with
  | VRat q => is_pos a = Qle_bool 0 q /\
              (Qle_bool 0 q = true -> to_int (floor a) = Z.to_N (Qfloor q) mod 4294967296)
  | VNaN => is_pos a = false
  end.
Definition vof_text_stmt := forall a, wfn a -> num_display a = value_text (vof a).
Definition scalar_stmt := forall n, is_scalar n = scalar n.

(* ---- state level ---- *)
Record R (s1 : state) (s2 : lstate) : Prop := mkR {
  R_kind : skind_ s1 = SUnopt;
  R_wf : forall i x, In x (get_stack s1 i) -> wfn x;
  R_stk : forall i, map vof (get_stack s1 i) = sget s2 i;
  R_cur : cur s1 = sel s2;
  R_pts : forall id, alist_get (points s1) id = lookup (labels s2) id;
  R_lat : latest s1 = lastj s2;
  R_inp : inp s1 = input s2;
  R_inp_small : forall line c, In (Some line) (inp s1) -> In c line -> c < 2 ^ 63;
  R_out : rev (outb s1) = out s2;
  R_err : rev (errb s1) = err s2 }.
(* after an exit or an error only what was written (and what is left of the input) is observable *)
Definition Rio (s1 : state) (s2 : lstate) : Prop := rev (outb s1) = out s2 /\ rev (errb s1) = err s2.
Definition err_rel (e1 : errkind) (e2 : serr) : Prop :=
  match e1, e2 with EEnc n, SEnc m => n = m | EIo, SIo => True | _, _ => False end.
Definition small (c : xcode) : Prop := xhc c < 2 ^ 63 /\ xdc c < 2 ^ 63 /\ xac c < 2 ^ 63.
Definition scmd_of_xcode (c : xcode) : scmd := mkscmd (xty c) (xhc c) (xdc c) (xac c) (xar c).

Definition res_rel {A B} (P : A -> B -> Prop) (r1 : res A) (r2 : sres B) : Prop :=
  match r1, r2 with
  | ROk a t1, SOk b t2 => P a b /\ R t1 t2
  | RExit k1 t1, SExit k2 t2 => k1 = k2 /\ Rio t1 t2
  | RErr e1 t1, SErr e2 t2 => err_rel e1 e2 /\ Rio t1 t2
  | _, _ => False
  end.

Definition step_refines_stmt := forall c pc s1 s2, R s1 s2 -> small c ->
  res_rel (fun p1 p2 : N => p1 = p2) (execute_one c pc s1) (sstep (xty c) (xhc c) (xdc c) (xac c) (xar c) pc s2).

Definition final_rel (f1 : final) (f2 : sfinal) : Prop :=
  match f1, f2 with
  | FDone t1, SDone t2 => R t1 t2
  | FExit k1 t1, SExited k2 t2 => k1 = k2 /\ Rio t1 t2
  | FErr e1 t1, SFailed e2 t2 => err_rel e1 e2 /\ Rio t1 t2
  | FFuel t1 p1, SRunning t2 p2 => p1 = p2 /\ R t1 t2
  | _, _ => False
  end.
Definition run_refines_stmt := forall fuel code s1 s2 pc, R s1 s2 -> Forall small code ->
  final_rel (run_pre fuel code s1 pc) (srun fuel (map scmd_of_xcode code) s2 pc).
Definition R_init_stmt := forall input, (forall line c, In (Some line) input -> In c line -> c < 2 ^ 63) ->
  R (state0 SUnopt input) (lstate0 input).
