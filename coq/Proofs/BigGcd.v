(* bgcd: correctness and termination of the fuelled Euclid loop (truncating remainder). *)
From Coq Require Import List NArith ZArith Lia Bool Znumtheory.
Import ListNotations.
From HV Require Import Model.Big Proofs.BigBase Proofs.BigSpec.
Open Scope N_scope.

(* ---- the abstract loop on Z ---- *)
Fixpoint zg (fuel : nat) (x y : Z) : option Z :=
  match fuel with
  | O => None
  | S f => if (y =? 0)%Z then Some x else zg f y (Z.rem x y)
  end.

Lemma gcd_rem_step x y : Z.gcd x y = Z.gcd y (Z.rem x y).
Proof.
  rewrite (Z.gcd_comm x y).
  pose proof (Z.quot_rem' x y) as E.
  rewrite E at 1.
  rewrite Z.add_comm, (Z.mul_comm y).
  apply Z.gcd_add_mult_diag_r.
Qed.

Lemma zg_correct fuel : forall x y g, zg fuel x y = Some g -> Z.abs g = Z.gcd x y.
Proof.
  induction fuel as [|f IH]; intros x y g H; cbn [zg] in H.
  - discriminate.
  - destruct (Z.eqb_spec y 0) as [E|E].
    + inversion H; subst. symmetry. apply Z.gcd_0_r.
    + rewrite gcd_rem_step. apply IH. exact H.
Qed.

(* halving: two Euclid steps at least halve the second component *)
Lemma rem_half y r : r <> 0%Z -> (Z.abs r < Z.abs y)%Z -> (2 * Z.abs (Z.rem y r) < Z.abs y)%Z.
Proof.
  intros Hr Hlt.
  rewrite <- Z.rem_abs by exact Hr.
  assert (Hb : (0 < Z.abs r)%Z) by lia.
  assert (Ha : (0 <= Z.abs y)%Z) by lia.
  rewrite Z.rem_mod_nonneg by lia.
  generalize dependent (Z.abs y). generalize dependent (Z.abs r). clear y r Hr.
  intros b Hb a Hlt Ha.
  pose proof (Z.div_mod a b ltac:(lia)) as E.
  pose proof (Z.mod_pos_bound a b Hb) as Hm.
  assert (Hq : (1 <= a / b)%Z).
  { apply Z.div_le_lower_bound; lia. }
  nia.
Qed.

Lemma zg_terminates (k : nat) : forall fuel x y,
  (Z.abs y < 2 ^ Z.of_nat k)%Z -> (2 * k + 1 <= fuel)%nat -> exists g, zg fuel x y = Some g.
Proof.
  induction k as [|k IH]; intros fuel x y Hy Hf.
  - destruct fuel as [|f]; [lia|]. cbn [zg].
    change (2 ^ Z.of_nat 0)%Z with 1%Z in Hy.
    assert (y = 0%Z) by lia. subst. cbn. eauto.
  - destruct fuel as [|f]; [lia|]. cbn [zg].
    destruct (Z.eqb_spec y 0) as [E|E]; [eauto|].
    destruct f as [|f]; [lia|]. cbn [zg].
    pose proof (Z.rem_bound_abs x y E) as Hr1.
    destruct (Z.eqb_spec (Z.rem x y) 0) as [E1|E1]; [eauto|].
    apply IH; [|lia].
    pose proof (rem_half y (Z.rem x y) E1 Hr1) as Hh.
    rewrite Nat2Z.inj_succ, Z.pow_succ_r in Hy by lia.
    lia.
Qed.

Lemma bval_abs_bound a : limbs_ok (limbs a) ->
  (Z.abs (bval a) < 2 ^ Z.of_nat (32 * length (limbs a)))%Z.
Proof.
  intros Hok.
  pose proof (lval_bound _ Hok) as Hb.
  assert (Hz : (Z.of_N (lval (limbs a)) < Z.of_N (B ^ N.of_nat (length (limbs a))))%Z) by lia.
  rewrite N2Z.inj_pow, nat_N_Z in Hz.
  change (Z.of_N B) with (2 ^ 32)%Z in Hz.
  rewrite <- Z.pow_mul_r in Hz by lia.
  replace (Z.of_nat (32 * length (limbs a))) with (32 * Z.of_nat (length (limbs a)))%Z by lia.
  unfold bval. destruct (bpos a); lia.
Qed.

Section Gcd.
  Hypothesis Hrem : brem_stmt.
  Hypothesis Hzero : is_zero_stmt.

  Lemma gcd_fuel_sim fuel : forall a b gz, wf a -> wf b ->
    zg fuel (bval a) (bval b) = Some gz ->
    exists g, gcd_fuel fuel a b = Some g /\ wf g /\ bval g = gz.
  Proof.
    induction fuel as [|f IH]; intros a b gz Ha Hb H; cbn [zg] in H.
    - discriminate.
    - cbn [gcd_fuel].
      pose proof (Hzero b Hb) as Hz.
      destruct (Z.eqb_spec (bval b) 0) as [E|E].
      + apply Hz in E. rewrite E. inversion H; subst. eauto.
      + destruct (is_zero b) eqn:Ez.
        * exfalso. apply E. apply Hz. reflexivity.
        * destruct (Hrem a b Ha Hb E) as [Hwr Hvr].
          apply IH; [exact Hb|exact Hwr|]. rewrite Hvr. exact H.
  Qed.

  Theorem bgcd_spec : bgcd_stmt.
  Proof.
    intros a b Ha Hb. unfold bgcd.
    assert (Hok : limbs_ok (limbs b)) by (destruct Hb as [[Hok _] _]; exact Hok).
    pose proof (bval_abs_bound b Hok) as Hbound.
    destruct (zg_terminates (32 * length (limbs b)) (gcd_bound b) (bval a) (bval b) Hbound)
      as [gz Hgz].
    { unfold gcd_bound. lia. }
    destruct (gcd_fuel_sim _ a b gz Ha Hb Hgz) as [g [Hg [Hwf Hv]]].
    exists g. split; [exact Hg|]. split; [exact Hwf|].
    rewrite Hv. apply (zg_correct _ _ _ _ Hgz).
  Qed.
End Gcd.

Print Assumptions bgcd_spec.
