(* First facts about radix conversion: the base range check. *)
From Coq Require Import List NArith ZArith Lia Bool.
Import ListNotations.
From HV Require Import Model.Big Model.Rat Model.NumText.
Open Scope N_scope.

Lemma tsb_base_range a base : base = 0 \/ 36 < base -> to_string_base a base = TSBase.
Proof.
  unfold to_string_base. intros [->|H]; [reflexivity|].
  destruct (N.leb_spec base 36); [lia|]. rewrite andb_false_r. reflexivity.
Qed.
Lemma fsb_base_range s base : base = 0 \/ 36 < base -> from_string_base s base = FSBase.
Proof.
  unfold from_string_base. intros [->|H]; [reflexivity|].
  destruct (N.leb_spec base 36); [lia|]. rewrite andb_false_r. reflexivity.
Qed.
