(* Closes the text-layer lemmas. *)
From Coq Require Import List NArith ZArith QArith Bool.
From HV Require Import Model.Big Model.Rat Model.NumText Proofs.BigSpec Proofs.RatSpec Proofs.BigAll Proofs.RatAll.
From HV Require Proofs.TextProofs.
Definition tsb_t : tsb_stmt := TextProofs.tsb_spec bdiv_t brem_t wf_unique_t is_zero_t bnew_t.
Definition fsb_tsb_t : fsb_tsb_stmt := TextProofs.fsb_tsb badd_t bmul_t bdiv_t brem_t wf_unique_t is_zero_t bnew_t.
Definition num_display_t : num_display_stmt := TextProofs.num_display_spec beq_t.
Definition num_roundtrip_t : num_roundtrip_stmt :=
  TextProofs.num_roundtrip badd_t bmul_t bdiv_t brem_t beq_t wf_unique_t is_zero_t bnew_t optimize_t wfn_unique_t.
