(* C14 at every optimisation level and compiled: the copy programs through the CLI model and through the emitted program. *)
From Coq Require Import List NArith ZArith Bool.
Import ListNotations.
From HV Require Import Model.Big Model.Rat Model.NumText Model.Chars Model.Parse Model.Exec Model.Opt Model.Utf8 Model.Cli Model.Compile
  Spec.Lang Proofs.OptSpec Proofs.ExecSpec Proofs.UniSpec Proofs.ExtraSpec Proofs.CompSpec.
Open Scope N_scope.

(* "흑" followed by n times " 항." *)
Definition COPY_SRC (n : nat) : list N := 55121 :: concat (repeat [32; 54637; 46] n).

(* the copy loop and the fixed-count copy, at every level of `hyeong run`: bytes in = bytes out, exit status 0, nothing on stderr *)
Definition cat_cli_levels_stmt := forall level t, level <= 2 -> t <> [] -> scalars t ->
  exists fuel, run_cli level (FBytes true (encode CAT_SRC)) (encode t) fuel = CExit 0 (encode t) [].
Definition copy_cli_levels_stmt := forall level n t, level <= 2 -> scalars t ->
  exists fuel, run_cli level (FBytes true (encode (COPY_SRC n))) (encode t) fuel =
               CExit 0 (encode (firstn n t ++ nan_texts (n - length t))) [].

(* ... and compiled at every level: the emitted program (Model/Compile.v), run on the lines of the text, ends normally having
   written exactly the text *)
Definition cat_compiled_stmt := forall level t p, level <= 2 -> t <> [] -> scalars t ->
  compile_prog all_fixed true (parse CAT_SRC) level = Some p ->
  exists fuel s, ir_run fuel p (lines_of t) = IDone s /\ rev (outb s) = t /\ rev (errb s) = [].
Definition copy_compiled_stmt := forall level n t p, level <= 2 -> scalars t ->
  compile_prog all_fixed true (parse (COPY_SRC n)) level = Some p ->
  exists fuel s, ir_run fuel p (lines_of t) = IDone s /\ rev (outb s) = firstn n t ++ nan_texts (n - length t) /\ rev (errb s) = [].
(* and the compiler does return a program for them *)
Definition copy_compiles_stmt := forall level n, level <= 2 ->
  (exists p, compile_prog all_fixed true (parse CAT_SRC) level = Some p) /\
  (exists p, compile_prog all_fixed true (parse (COPY_SRC n)) level = Some p).
