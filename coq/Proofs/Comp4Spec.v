(* Level 2, unconditional: the NaN-sign premise removed, both directions, and the end-to-end statement against level 0. *)
From Coq Require Import List NArith ZArith Bool.
Import ListNotations.
From HV Require Import Model.Big Model.Rat Model.NumText Model.Chars Model.Parse Model.Exec Model.Opt Model.Compile
  Proofs.RatSpec Proofs.OptSpec Proofs.CompSpec Proofs.CoroSpec Proofs.Comp2Spec Proofs.Comp3Spec.
Open Scope N_scope.

Definition input_ok (input : list (option (list N))) : Prop := forall line c, In (Some line) input -> In c line -> c < 2 ^ 63.

(* the emitted level-2 program behaves like the interpreter resumed after pre-execution — no premise on the NaN signs:
   a NaN of negative sign on a pre-executed stack is read back as the canonical NaN, and no command can tell them apart *)
Definition compiled2_opt_sound_stmt := forall code input r fuel, small_code (map xcode_of_ucode code) -> input_ok input ->
  optimize_prog all_fixed code 2 [] = OptOk r -> orest r <> [] ->
  match run_inc fuel (olog r) (orest r) (with_input (ostate r) input) with
  | FFuel _ _ => True
  | FPanic _ => True
  | x => exists fuel', ibeh (ir_run fuel' (build_ir true 2 (ostate r) (olog r) (orest r)) input) = beh x
  end.
Definition compiled2_opt_complete_stmt := forall code input r fuel, small_code (map xcode_of_ucode code) -> input_ok input ->
  optimize_prog all_fixed code 2 [] = OptOk r -> orest r <> [] ->
  match ir_run fuel (build_ir true 2 (ostate r) (olog r) (orest r)) input with
  | IFuel _ => True
  | IBadState => False
  | y => exists fuel', beh (run_inc fuel' (olog r) (orest r) (with_input (ostate r) input)) = ibeh y
  end.

(* end to end: whatever app/build.rs emits at a level (compile_prog) behaves like `hyeong run -O0` on the same program and
   input: every finished level-0 run is matched by the emitted program and conversely.  Level 2 with an empty residual
   program is the print-only program (covered by compiled_sound at level... see Compile.build_ir); the statement covers every
   case in which compile_prog returns a program. *)
Definition compiled_end_to_end_sound_stmt := forall level code input p fuel, level <= 2 -> kinds_ok code ->
  small_code (map xcode_of_ucode code) -> input_ok input ->
  compile_prog all_fixed true code level = Some p ->
  match run_level all_fixed fuel code 0 input with
  | FFuel _ _ => True
  | FPanic _ => True
  | x => exists fuel', ibeh (ir_run fuel' p input) = beh x
  end.
Definition compiled_end_to_end_complete_stmt := forall level code input p fuel, level <= 2 -> kinds_ok code ->
  small_code (map xcode_of_ucode code) -> input_ok input ->
  compile_prog all_fixed true code level = Some p ->
  match ir_run fuel p input with
  | IFuel _ => True
  | IBadState => False
  | y => exists fuel', beh (run_level all_fixed fuel' code 0 input) = ibeh y
  end.
