(* Level-1 optimisation (stack renumbering): privacy of the slots, one-step simulation, lockstep of whole runs. *)
From Coq Require Import List NArith ZArith Lia Bool. Import ListNotations.
From HV Require Import Model.Big Model.Rat Model.NumText Model.Chars Model.Parse Model.Exec Model.Opt Proofs.OptSpec.
Open Scope N_scope.

Arguments N.add : simpl never.
Arguments N.mul : simpl never.
Arguments N.sub : simpl never.

(* ------------------------------------------------------------------ *)
(* association lists                                                    *)
(* ------------------------------------------------------------------ *)
Lemma alist_get_set : forall {V} (l : list (N * V)) k v j,
  alist_get (alist_set l k v) j = if k =? j then Some v else alist_get l j.
Proof.
  intros V l k v j. induction l as [|[k' v'] r IH]; cbn [alist_set alist_get].
  - reflexivity.
  - destruct (N.eqb_spec k' k) as [E|E]; cbn [alist_get].
    + subst k'. destruct (k =? j); reflexivity.
    + destruct (N.eqb_spec k' j) as [E'|E'].
      * subst k'. destruct (N.eqb_spec k j) as [E2|E2]; [congruence|reflexivity].
      * exact IH.
Qed.

(* ------------------------------------------------------------------ *)
(* Part 1: the renumbering map                                          *)
(* ------------------------------------------------------------------ *)
Lemma chk_scan_in5 : forall code now u, In u code -> ty u = 5 -> In (dc u) (chk_scan all_fixed code now).
Proof.
  induction code as [|c r IH]; intros now u Hin Hty; [destruct Hin|].
  cbn [chk_scan]. destruct Hin as [E|Hin].
  - subst c. rewrite Hty. cbn. right. left. reflexivity.
  - destruct (ty c =? 0); [apply IH; assumption|].
    destruct (ty c =? 5).
    + right. apply in_or_app. right. apply IH; assumption.
    + right. apply IH; assumption.
Qed.

Lemma insert_in : forall x y l, In x (insert_sorted y l) <-> x = y \/ In x l.
Proof.
  intros x y l. induction l as [|z r IH]; cbn [insert_sorted].
  - cbn. intuition.
  - destruct (y <=? z); cbn [In].
    + intuition.
    + rewrite IH. intuition.
Qed.

Lemma sort_in : forall x l, In x (sort_N l) <-> In x l.
Proof.
  intros x l. induction l as [|y r IH]; cbn [sort_N fold_right In].
  - tauto.
  - fold (sort_N r). rewrite insert_in, IH. intuition.
Qed.

Definition minv (m : list (N * N)) (next : N) : Prop :=
  (forall i v, alist_get m i = Some v -> 3 < i /\ 4 <= v < next) /\
  (forall i j v, alist_get m i = Some v -> alist_get m j = Some v -> i = j).

Lemma minv_set : forall m next i, minv m next -> 3 < i -> 4 <= next -> alist_get m i = None ->
  minv (alist_set m i next) (next + 1).
Proof.
  intros m next i [Hr Hi] Hgt Hn Hnone. split.
  - intros j v. rewrite alist_get_set. destruct (N.eqb_spec i j) as [E|E]; intros H.
    + inversion H; subst. lia.
    + destruct (Hr _ _ H). lia.
  - intros j k v. rewrite !alist_get_set.
    destruct (N.eqb_spec i j) as [E|E]; destruct (N.eqb_spec i k) as [E'|E']; intros H1 H2.
    + congruence.
    + inversion H1; subst. destruct (Hr _ _ H2). lia.
    + inversion H2; subst. destruct (Hr _ _ H1). lia.
    + eapply Hi; eassumption.
Qed.

Lemma assign_spec : forall l m next m' next', minv m next -> 4 <= next -> assign l m next = (m', next') ->
  minv m' next' /\ 4 <= next' /\
  (forall i v, alist_get m i = Some v -> alist_get m' i = Some v) /\
  (forall i, In i l -> 3 < i -> exists v, alist_get m' i = Some v).
Proof.
  induction l as [|a r IH]; intros m next m' next' Hinv Hn Has; cbn [assign] in Has.
  - inversion Has; subst. split; [assumption|split; [assumption|split; [auto|intros i []]]].
  - destruct (N.leb_spec a 3) as [La|La].
    + destruct (IH _ _ _ _ Hinv Hn Has) as (A & B & C & D). split; [assumption|split; [assumption|split]]; auto.
      intros i [E|Hin] Hi; [lia|]. apply D; assumption.
    + destruct (alist_get m a) as [va|] eqn:Ega.
      * destruct (IH _ _ _ _ Hinv Hn Has) as (A & B & C & D). split; [assumption|split; [assumption|split]]; auto.
        intros i [E|Hin] Hi; [subst; eexists; apply C; eassumption|]. apply D; assumption.
      * assert (Hinv' : minv (alist_set m a next) (next + 1)) by (apply minv_set; assumption).
        assert (Hn' : 4 <= next + 1) by lia.
        destruct (IH _ _ _ _ Hinv' Hn' Has) as (A & B & C & D). split; [assumption|split; [assumption|split]]; auto.
        -- intros i v Hv. apply C. rewrite alist_get_set.
           destruct (N.eqb_spec a i) as [E|E]; [congruence|assumption].
        -- intros i [E|Hin] Hi; [|apply D; assumption].
           subst. eexists. apply C. rewrite alist_get_set, N.eqb_refl. reflexivity.
Qed.

Theorem renum_private : renum_private_stmt.
Proof.
  intros code m mx Hmap. unfold renum_map in Hmap.
  assert (H0 : minv [] 4) by (split; intros; discriminate).
  destruct (assign_spec _ _ _ _ _ H0 (N.le_refl 4) Hmap) as ([Hr Hi] & Hmx & _ & Hall).
  assert (Hsel : forall i, selectable code i -> 3 < i -> exists v, alist_get m i = Some v).
  { intros i [Hle|(u & Hin & Hty & Hdc)] Hgt; [lia|].
    apply Hall; [|assumption]. apply sort_in. subst i. apply chk_scan_in5; assumption. }
  split; [|split; [|split]].
  - intros i Hs. unfold renum. destruct (N.leb_spec i 3) as [L|L].
    + split; [lia|reflexivity].
    + destruct (Hsel i Hs L) as [v Hv]. rewrite Hv. destruct (Hr _ _ Hv). split; lia.
  - intros i j Hs. unfold renum.
    destruct (N.leb_spec i 3) as [L|L]; destruct (N.leb_spec j 3) as [L'|L'].
    + auto.
    + destruct (alist_get m j) as [v|] eqn:Ev; [destruct (Hr _ _ Ev)|]; lia.
    + destruct (Hsel i Hs L) as [v Hv]. rewrite Hv. destruct (Hr _ _ Hv). lia.
    + destruct (Hsel i Hs L) as [v Hv]. rewrite Hv. destruct (Hr _ _ Hv).
      destruct (alist_get m j) as [v'|] eqn:Ev; intros E.
      * subst v'. eapply Hi; eassumption.
      * lia.
  - intros j. unfold renum. destruct (N.leb_spec j 3) as [L|L]; [lia|].
    destruct (alist_get m j) as [v|] eqn:Ev; [destruct (Hr _ _ Ev)|]; lia.
  - assumption.
Qed.
Print Assumptions renum_private.

(* ------------------------------------------------------------------ *)
(* Part 2: one-step simulation                                          *)
(* ------------------------------------------------------------------ *)
Lemma get_set_stack : forall s i l j, get_stack (set_stack s i l) j = if i =? j then l else get_stack s j.
Proof.
  intros. unfold get_stack, set_stack. cbn [stacks]. rewrite alist_get_set. destruct (i =? j); reflexivity.
Qed.

Lemma sel_dec : forall code i, selectable code i \/ ~ selectable code i.
Proof.
  intros code i. unfold selectable. destruct (N.leb_spec i 3) as [L|L]; [left; left; assumption|].
  assert (D : (exists u, In u code /\ ty u = 5 /\ dc u = i) \/ ~ (exists u, In u code /\ ty u = 5 /\ dc u = i)).
  { induction code as [|c r IH].
    - right. intros (u & [] & _).
    - destruct IH as [(u & Hin & H5 & Hd)|IH].
      + left. exists u. split; [right; assumption|auto].
      + destruct (N.eqb_spec (ty c) 5) as [E5|E5]; [destruct (N.eqb_spec (dc c) i) as [Ed|Ed]|].
        * left. exists c. split; [left; reflexivity|auto].
        * right. intros (u & [E|Hin] & H5 & Hd); [subst; congruence|]. apply IH. exists u. auto.
        * right. intros (u & [E|Hin] & H5 & Hd); [subst; congruence|]. apply IH. exists u. auto. }
  destruct D as [D|D]; [left; right; assumption|]. right. intros [H|H]; [lia|auto].
Qed.

(* the command body with the selected stack as a parameter and the kind dispatch as a chain of tests *)
Definition b_fold (op : num -> num -> num) (z : num) (h cs d : N) : M unit :=
  bind (iterM h (fun n => bind (pop_wrap cs) (fun v => ret (op n v))) z) (fun n => push_wrap d n).
Definition b_inv (g : num -> num) (op : num -> num -> num) (z : num) (h cs d : N) : M unit :=
  bind (iterM h (fun v => bind (pop_wrap cs) (fun x => ret (x :: v))) [])
       (fun v => bind (fold_left (fun (mm : M num) x => bind mm (fun n =>
                                    bind (push_wrap cs (g x)) (fun _ => ret (op n (g x))))) v (ret z))
                      (fun n => push_wrap d n)).
Definition b_dup (h cs d : N) : M unit :=
  bind (pop_wrap cs) (fun n =>
  bind (iterM h (fun _ => push_wrap d n) tt) (fun _ =>
  bind (push_wrap cs n) (fun _ => set_cur d))).
Definition body2 (c : xcode) (cs : N) : M unit :=
  if xty c =? 0 then push_wrap cs (nmul (from_num (Z.of_N (xhc c))) (from_num (Z.of_N (xdc c))))
  else if xty c =? 1 then b_fold nadd nzero (xhc c) cs (xdc c)
  else if xty c =? 2 then b_fold nmul n_one (xhc c) cs (xdc c)
  else if xty c =? 3 then b_inv nminus nadd nzero (xhc c) cs (xdc c)
  else if xty c =? 4 then b_inv nflip nmul n_one (xhc c) cs (xdc c)
  else b_dup (xhc c) cs (xdc c).

Lemma body_eq : forall c s, body c s = body2 c (cur s) s.
Proof.
  intros c s. unfold body, body2.
  destruct (xty c) as [|p]; [reflexivity|].
  destruct p as [p|p|]; try reflexivity;
  destruct p as [p|p|]; try reflexivity;
  destruct p as [p|p|]; reflexivity.
Qed.

Definition ex_tail (pc ac t : N) : M N :=
  if t =? 0 then ret (pc + 1)
  else if t =? 13 then bind get_latest (fun l => match l with Some loc => ret loc | None => ret (pc + 1) end)
  else let id := ac * 16 + t in
       bind (get_point id) (fun p =>
       match p with
       | Some v => if pc =? v then ret (pc + 1) else bind (set_latest pc) (fun _ => ret v)
       | None => bind (set_point id pc) (fun _ => ret (pc + 1))
       end).

Lemma bind_unf : forall {A B} (m : M A) (f : A -> M B) s,
  bind m f s = match m s with ROk a s' => f a s' | RExit c s' => RExit c s' | RErr e s' => RErr e s' end.
Proof. reflexivity. Qed.

Lemma exec_eq : forall c pc s, execute_one c pc s =
  match body2 c (cur s) s with
  | ROk _ s' => bind (calc (xar c) (xac c) (pop_wrap (cur s'))) (ex_tail pc (xac c)) s'
  | RExit k s' => RExit k s'
  | RErr e s' => RErr e s'
  end.
Proof.
  intros c pc s. unfold execute_one. rewrite bind_unf, body_eq.
  destruct (body2 c (cur s) s); reflexivity.
Qed.

Lemma iterM_0 : forall {A} (f : A -> M A) a, iterM 0 f a = ret a.
Proof. reflexivity. Qed.
Lemma iterM_succ : forall {A} n (f : A -> M A) a, iterM (N.succ n) f a = bind (iterM n f a) f.
Proof. intros. unfold iterM. rewrite N.iter_succ. reflexivity. Qed.

Section Step.
Variables (code : list ucode) (m : list (N * N)) (mx : N).
Hypothesis Hsel : forall i, selectable code i -> renum m mx i < mx /\ (i <= 3 -> renum m mx i = i).
Hypothesis Hinj : forall i j, selectable code i -> renum m mx i = renum m mx j -> i = j.
Hypothesis Hle : forall j, renum m mx j <= mx.
Hypothesis Hmx : 4 <= mx.
Hypothesis Hwt : forall u, In u code -> ty u <= 5.

Notation rn := (renum m mx).
Notation R := (Rn code m mx).
Notation rr := (rn_res code m mx).
Notation sel := (selectable code).
Definition rrM {A} (m1 m2 : M A) : Prop := forall s t, R s t -> rr (m1 s) (m2 t).

Lemma sel_small : forall k, k <= 3 -> sel k.
Proof. intros; left; assumption. Qed.
Lemma rn_small : forall k, k <= 3 -> rn k = k.
Proof. intros k Hk. apply Hsel; [apply sel_small|]; assumption. Qed.
Lemma rn_eq_small : forall d k, k <= 3 -> rn d = k -> d = k.
Proof.
  intros d k Hk E. symmetry. apply Hinj; [apply sel_small; assumption|]. rewrite rn_small; auto.
Qed.
Lemma rn_eqb_small : forall d k, k <= 3 -> (rn d =? k) = (d =? k).
Proof.
  intros d k Hk. destruct (N.eqb_spec d k) as [E|E].
  - subst. rewrite rn_small by assumption. apply N.eqb_refl.
  - apply N.eqb_neq. intros E'. apply E. apply rn_eq_small; assumption.
Qed.
Lemma rn_in_range : forall d, (rn d <? mx + 1) = true.
Proof. intros d. apply N.ltb_lt. pose proof (Hle d). lia. Qed.

Lemma R_io : forall s t, R s t -> Rn_io s t.
Proof. intros s t HR. split; apply HR. Qed.

Ltac rn_split HR :=
  destruct HR as [Hks Hkt Hstk Hcur Hpts Hlat Hinp Hout Herr]; constructor;
  cbn [skind_ stacks cur points latest inp outb errb set_stack]; try congruence; auto.

Lemma Rn_set : forall s t i l, R s t -> sel i -> R (set_stack s i l) (set_stack t (rn i) l).
Proof.
  intros s t i l HR Hi. pose proof (Rn_stk _ _ _ _ _ HR) as Hs. rn_split HR.
  intros j Hj. rewrite !get_set_stack. destruct (N.eqb_spec i j) as [E|E].
  - subst. rewrite N.eqb_refl. reflexivity.
  - destruct (N.eqb_spec (rn i) (rn j)) as [E'|E']; [|apply Hs; assumption].
    exfalso. apply E. apply Hinj; assumption.
Qed.
Lemma Rn_set_l : forall s t d l, R s t -> ~ sel d -> R (set_stack s d l) t.
Proof.
  intros s t d l HR Hd. pose proof (Rn_stk _ _ _ _ _ HR) as Hs. rn_split HR.
  intros j Hj. rewrite get_set_stack. destruct (N.eqb_spec d j) as [E|E]; [subst; contradiction|].
  apply Hs; assumption.
Qed.
Lemma Rn_set_r : forall s t d l, R s t -> ~ sel d -> R s (set_stack t (rn d) l).
Proof.
  intros s t d l HR Hd. pose proof (Rn_stk _ _ _ _ _ HR) as Hs. rn_split HR.
  intros j Hj. rewrite get_set_stack. destruct (N.eqb_spec (rn d) (rn j)) as [E|E]; [|apply Hs; assumption].
  exfalso. apply Hd. symmetry in E. apply Hinj in E; [subst|]; assumption.
Qed.

(* --- monadic rules --- *)
Lemma rr_ret : forall {A} (a : A), rrM (ret a) (ret a).
Proof. intros A a s t HR. unfold ret, rn_res. auto. Qed.
Lemma rr_bind : forall {A B} (m1 m2 : M A) (f1 f2 : A -> M B),
  rrM m1 m2 -> (forall a, rrM (f1 a) (f2 a)) -> rrM (bind m1 f1) (bind m2 f2).
Proof.
  intros A B m1 m2 f1 f2 H1 H2 s t HR. unfold bind. specialize (H1 s t HR).
  destruct (m1 s), (m2 t); unfold rn_res in H1; try contradiction.
  - destruct H1 as [E HR']. subst. apply H2. assumption.
  - exact H1.
  - exact H1.
Qed.
Lemma rr_exit : forall {A} k, rrM (@exit_ A k) (@exit_ A k).
Proof. intros A k s t HR. unfold exit_, rn_res. split; [reflexivity|apply R_io; assumption]. Qed.
Lemma rr_fail : forall {A} e, rrM (@fail A e) (@fail A e).
Proof. intros A e s t HR. unfold fail, rn_res. split; [reflexivity|apply R_io; assumption]. Qed.
Lemma rr_write_out : forall b txt, rrM (write_out b txt) (write_out b txt).
Proof.
  intros b txt s t HR. unfold write_out, rn_res. destruct b; (split; [reflexivity|]); rn_split HR.
Qed.
Lemma rr_read_line : rrM read_line read_line.
Proof.
  intros s t HR. unfold read_line. rewrite <- (Rn_inp _ _ _ _ _ HR).
  destruct (inp s) as [|[l|] r] eqn:Ei; unfold rn_res.
  - auto.
  - split; [reflexivity|]. rn_split HR.
  - split; [reflexivity|]. split; cbn [outb errb]; apply HR.
Qed.
Lemma rr_get_latest : rrM get_latest get_latest.
Proof. intros s t HR. unfold get_latest, rn_res. split; [apply HR|assumption]. Qed.
Lemma rr_get_point : forall id, rrM (get_point id) (get_point id).
Proof. intros id s t HR. unfold get_point, rn_res. rewrite (Rn_pts _ _ _ _ _ HR). auto. Qed.
Lemma rr_set_latest : forall l, rrM (set_latest l) (set_latest l).
Proof. intros l s t HR. unfold set_latest, rn_res. split; [reflexivity|]. rn_split HR. Qed.
Lemma rr_set_point : forall id l, rrM (set_point id l) (set_point id l).
Proof. intros id l s t HR. unfold set_point, rn_res. split; [reflexivity|]. rn_split HR. Qed.
Lemma rr_set_cur : forall d, sel d -> rrM (set_cur d) (set_cur (rn d)).
Proof. intros d Hd s t HR. unfold set_cur, rn_res. split; [reflexivity|]. rn_split HR. Qed.

(* --- stack operations --- *)
Lemma rr_push_stack_sel : forall i x, sel i -> rrM (push_stack i x) (push_stack (rn i) x).
Proof.
  intros i x Hi s t HR. unfold push_stack, in_range.
  rewrite (Rn_ks _ _ _ _ _ HR), (Rn_kt _ _ _ _ _ HR), rn_in_range, <- (Rn_stk _ _ _ _ _ HR i Hi).
  destruct (get_stack s i) as [|y r]; [destruct (is_nan x)|]; unfold rn_res; (split; [reflexivity|]);
    try assumption; apply Rn_set; assumption.
Qed.
Lemma rr_push_stack_nonsel : forall d x y, ~ sel d -> rrM (push_stack d x) (push_stack (rn d) y).
Proof.
  intros d x y Hd s t HR. unfold push_stack.
  destruct (in_range s d); destruct (in_range t (rn d));
    destruct (get_stack s d); destruct (get_stack t (rn d));
    try destruct (is_nan x); try destruct (is_nan y); unfold rn_res; (split; [reflexivity|]);
    repeat (apply Rn_set_l; [|assumption]); repeat (apply Rn_set_r; [|assumption]); assumption.
Qed.
Lemma rr_pop_stack_sel : forall i, sel i -> rrM (pop_stack i) (pop_stack (rn i)).
Proof.
  intros i Hi s t HR. unfold pop_stack, in_range.
  rewrite (Rn_ks _ _ _ _ _ HR), (Rn_kt _ _ _ _ _ HR), rn_in_range, <- (Rn_stk _ _ _ _ _ HR i Hi).
  destruct (get_stack s i) as [|y r]; unfold rn_res; (split; [reflexivity|]);
    try assumption; apply Rn_set; assumption.
Qed.
Lemma rr_push_all0 : forall l, rrM (push_all 0 l) (push_all 0 l).
Proof.
  induction l as [|c r IH]; cbn [push_all]; [apply rr_ret|].
  apply rr_bind; [|intros _; exact IH].
  pose proof (rr_push_stack_sel 0 (from_num (Z.of_N c)) (sel_small 0 ltac:(lia))) as H.
  rewrite rn_small in H by lia. exact H.
Qed.
Lemma rr_pop_wrap : forall i, sel i -> rrM (pop_wrap i) (pop_wrap (rn i)).
Proof.
  intros i Hi. unfold pop_wrap.
  rewrite !rn_eqb_small by lia.
  destruct (N.eqb_spec i 0) as [E0|E0].
  - intros s t HR. pose proof (Rn_stk _ _ _ _ _ HR 0 (sel_small 0 ltac:(lia))) as H0.
    rewrite rn_small in H0 by lia. rewrite <- H0.
    pose proof (rr_pop_stack_sel 0 (sel_small 0 ltac:(lia))) as Hp. rewrite rn_small in Hp by lia.
    destruct (get_stack s 0); [|apply Hp; assumption].
    apply rr_bind; [apply rr_read_line| |assumption].
    intros l. apply rr_bind; [apply rr_push_all0|]. intros _. exact Hp.
  - destruct (i =? 1); [apply rr_exit|]. destruct (i =? 2); [apply rr_exit|].
    apply rr_pop_stack_sel; assumption.
Qed.
Lemma rr_push_wrap : forall d x, rrM (push_wrap d x) (push_wrap (rn d) x).
Proof.
  intros d x. unfold push_wrap. rewrite !rn_eqb_small by lia.
  destruct ((d =? 1) || (d =? 2)) eqn:Eio.
  - destruct (is_pos x); [|apply rr_write_out].
    destruct (num_to_unicode x); [apply rr_write_out|apply rr_fail].
  - destruct (sel_dec code d) as [Hd|Hd].
    + apply rr_push_stack_sel; assumption.
    + apply rr_push_stack_nonsel; assumption.
Qed.

(* --- loops --- *)
Lemma rr_iterM : forall {A} n (f1 f2 : A -> M A) a,
  (forall a, rrM (f1 a) (f2 a)) -> rrM (iterM n f1 a) (iterM n f2 a).
Proof.
  intros A n f1 f2 a Hf. induction n as [|n IH] using N.peano_ind.
  - rewrite !iterM_0. apply rr_ret.
  - rewrite !iterM_succ. apply rr_bind; assumption.
Qed.
Lemma rr_fold : forall {A B} (F1 F2 : M B -> A -> M B) v m1 m2,
  (forall m1 m2 x, rrM m1 m2 -> rrM (F1 m1 x) (F2 m2 x)) -> rrM m1 m2 ->
  rrM (fold_left F1 v m1) (fold_left F2 v m2).
Proof.
  intros A B F1 F2 v. induction v as [|x r IH]; intros m1 m2 HF Hm; cbn [fold_left]; [assumption|].
  apply IH; [assumption|]. apply HF; assumption.
Qed.
Lemma rr_calc : forall a cnt p1 p2, rrM p1 p2 -> rrM (calc a cnt p1) (calc a cnt p2).
Proof.
  intros a cnt p1 p2 Hp. induction a as [|t l IHl r IHr]; cbn [calc]; [apply rr_ret|].
  destruct (t =? 0).
  - apply rr_bind; [assumption|]. intros v. destruct (ncmp v (from_num (Z.of_N cnt))) as [[| |]|]; assumption.
  - destruct (t =? 1); [|apply rr_ret].
    apply rr_bind; [assumption|]. intros v. destruct (ncmp v (from_num (Z.of_N cnt))) as [[| |]|]; assumption.
Qed.

(* --- command bodies --- *)
Lemma rr_b_fold : forall op z h cs d, sel cs -> rrM (b_fold op z h cs d) (b_fold op z h (rn cs) (rn d)).
Proof.
  intros op z h cs d Hcs. unfold b_fold. apply rr_bind; [|intros n; apply rr_push_wrap].
  apply rr_iterM. intros n. apply rr_bind; [apply rr_pop_wrap; assumption|]. intros v. apply rr_ret.
Qed.
Lemma rr_b_inv : forall g op z h cs d, sel cs -> rrM (b_inv g op z h cs d) (b_inv g op z h (rn cs) (rn d)).
Proof.
  intros g op z h cs d Hcs. unfold b_inv. apply rr_bind.
  - apply rr_iterM. intros v. apply rr_bind; [apply rr_pop_wrap; assumption|]. intros x. apply rr_ret.
  - intros v. apply rr_bind; [|intros n; apply rr_push_wrap].
    apply rr_fold; [|apply rr_ret].
    intros m1 m2 x Hm. apply rr_bind; [assumption|]. intros n.
    apply rr_bind; [apply rr_push_wrap|]. intros _. apply rr_ret.
Qed.
Lemma rr_b_dup : forall h cs d, sel cs -> sel d -> rrM (b_dup h cs d) (b_dup h (rn cs) (rn d)).
Proof.
  intros h cs d Hcs Hd. unfold b_dup. apply rr_bind; [apply rr_pop_wrap; assumption|]. intros n.
  apply rr_bind; [apply rr_iterM; intros _; apply rr_push_wrap|]. intros _.
  apply rr_bind; [apply rr_push_wrap|]. intros _. apply rr_set_cur; assumption.
Qed.

Lemma rr_body : forall u cs, In u code -> sel cs ->
  rrM (body2 (xcode_of_ucode u) cs) (body2 (opt_code m mx u) (rn cs)).
Proof.
  intros u cs Hin Hcs. unfold body2. cbn [xty xhc xdc xcode_of_ucode opt_code].
  destruct (N.eqb_spec (ty u) 0) as [E0|E0]; [apply rr_push_wrap|].
  destruct (N.eqb_spec (ty u) 1) as [E1|E1]; [apply rr_b_fold; assumption|].
  destruct (N.eqb_spec (ty u) 2) as [E2|E2]; [apply rr_b_fold; assumption|].
  destruct (N.eqb_spec (ty u) 3) as [E3|E3]; [apply rr_b_inv; assumption|].
  destruct (N.eqb_spec (ty u) 4) as [E4|E4]; [apply rr_b_inv; assumption|].
  apply rr_b_dup; [assumption|]. right. exists u. pose proof (Hwt u Hin). repeat split; auto. lia.
Qed.

Lemma rr_tail : forall pc ac t, rrM (ex_tail pc ac t) (ex_tail pc ac t).
Proof.
  intros pc ac t. unfold ex_tail. destruct (t =? 0); [apply rr_ret|].
  destruct (t =? 13).
  - apply rr_bind; [apply rr_get_latest|]. intros [l|]; apply rr_ret.
  - cbv zeta. apply rr_bind; [apply rr_get_point|]. intros [v|].
    + destruct (pc =? v); [apply rr_ret|]. apply rr_bind; [apply rr_set_latest|]. intros _. apply rr_ret.
    + apply rr_bind; [apply rr_set_point|]. intros _. apply rr_ret.
Qed.

Lemma rr_step : forall u pc, In u code ->
  rrM (execute_one (xcode_of_ucode u) pc) (execute_one (opt_code m mx u) pc).
Proof.
  intros u pc Hin s t HR. rewrite !exec_eq.
  destruct (Rn_cur _ _ _ _ _ HR) as [Hc Hct]. rewrite Hct.
  pose proof (rr_body u (cur s) Hin Hc s t HR) as Hb.
  destruct (body2 (xcode_of_ucode u) (cur s) s) as [[] s'|k s'|e s'],
           (body2 (opt_code m mx u) (rn (cur s)) t) as [[] t'|k' t'|e' t'];
    unfold rn_res in Hb; try contradiction; try exact Hb.
  destruct Hb as [_ HR']. destruct (Rn_cur _ _ _ _ _ HR') as [Hc' Hct']. rewrite Hct'.
  cbn [xar xac xcode_of_ucode opt_code].
  apply rr_bind; [|intros a; apply rr_tail|assumption].
  apply rr_calc. apply rr_pop_wrap. assumption.
Qed.

(* ------------------------------------------------------------------ *)
(* Part 3: whole runs in lockstep                                       *)
(* ------------------------------------------------------------------ *)
Definition frel (f1 f2 : final) : Prop :=
  match f1, f2 with
  | FDone s, FDone t => R s t
  | FExit k s, FExit k' t => k = k' /\ Rn_io s t
  | FErr e s, FErr e' t => e = e' /\ Rn_io s t
  | FFuel s _, FFuel t _ => Rn_io s t
  | FPanic s, FPanic t => Rn_io s t
  | _, _ => False
  end.

Lemma nth_error_map' : forall {A B} (f : A -> B) l n, nth_error (map f l) n = option_map f (nth_error l n).
Proof.
  intros A B f l. induction l as [|x r IH]; intros [|n]; cbn [map nth_error option_map]; auto.
Qed.

Lemma exec_loop_rel : forall fuel du s t pc len, incl du code -> R s t ->
  frel (fst (exec_loop fuel (map xcode_of_ucode du) s pc len))
       (fst (exec_loop fuel (map (opt_code m mx) du) t pc len)) /\
  snd (exec_loop fuel (map xcode_of_ucode du) s pc len) = snd (exec_loop fuel (map (opt_code m mx) du) t pc len).
Proof.
  induction fuel as [|f IH]; intros du s t pc len Hdu HR; cbn [exec_loop].
  - cbn [fst snd frel]. split; [apply R_io; assumption|reflexivity].
  - destruct (len <=? pc); [cbn [fst snd frel]; auto|].
    rewrite !nth_error_map'. destruct (nth_error du (N.to_nat pc)) as [u|] eqn:En; cbn [option_map].
    + assert (Hin : In u code) by (apply Hdu; eapply nth_error_In; eassumption).
      pose proof (rr_step u pc Hin s t HR) as Hs.
      destruct (execute_one (xcode_of_ucode u) pc s) as [a s'|k s'|e s'],
               (execute_one (opt_code m mx u) pc t) as [b t'|k' t'|e' t'];
        unfold rn_res in Hs; try contradiction.
      * destruct Hs as [E HR']. subst b. apply IH; assumption.
      * cbn [fst snd frel]. auto.
      * cbn [fst snd frel]. auto.
    + cbn [fst snd frel]. split; [apply R_io; assumption|reflexivity].
Qed.

Lemma run_inc_rel : forall todo du fuel s t, incl du code -> incl todo code -> R s t ->
  frel (run_inc fuel (map xcode_of_ucode du) (map xcode_of_ucode todo) s)
       (run_inc fuel (map (opt_code m mx) du) (map (opt_code m mx) todo) t).
Proof.
  induction todo as [|u r IH]; intros du fuel s t Hdu Htodo HR; cbn [map run_inc]; [exact HR|].
  cbv zeta. rewrite !map_length.
  assert (E1 : map xcode_of_ucode du ++ [xcode_of_ucode u] = map xcode_of_ucode (du ++ [u]))
    by (rewrite map_app; reflexivity).
  assert (E2 : map (opt_code m mx) du ++ [opt_code m mx u] = map (opt_code m mx) (du ++ [u]))
    by (rewrite map_app; reflexivity).
  rewrite E1, E2.
  assert (Hdu' : incl (du ++ [u]) code).
  { intros x Hx. apply in_app_or in Hx. destruct Hx as [Hx|[Hx|[]]]; [apply Hdu; assumption|].
    subst. apply Htodo. left. reflexivity. }
  assert (Hr : incl r code) by (intros x Hx; apply Htodo; right; assumption).
  pose proof (exec_loop_rel fuel (du ++ [u]) s t (N.of_nat (length du)) (N.of_nat (length du) + 1) Hdu' HR) as [Hf Hk].
  destruct (exec_loop fuel (map xcode_of_ucode (du ++ [u])) s (N.of_nat (length du)) (N.of_nat (length du) + 1)) as [f1 k1].
  destruct (exec_loop fuel (map (opt_code m mx) (du ++ [u])) t (N.of_nat (length du)) (N.of_nat (length du) + 1)) as [f2 k2].
  cbn [fst snd] in Hf, Hk. subst k2.
  destruct f1, f2; unfold frel in Hf; try contradiction; try exact Hf.
  apply IH; assumption.
Qed.

Lemma frel_beh : forall f1 f2, frel f1 f2 -> beh f1 = beh f2.
Proof.
  intros f1 f2 H. destruct f1, f2; unfold frel in H; try contradiction; cbn [beh].
  - apply R_io in H. destruct H as [H1 H2]. rewrite H1, H2. reflexivity.
  - destruct H as [E [H1 H2]]. rewrite E, H1, H2. reflexivity.
  - destruct H as [E [H1 H2]]. rewrite E, H1, H2. reflexivity.
  - destruct H as [H1 H2]. rewrite H1, H2. reflexivity.
  - destruct H as [H1 H2]. rewrite H1, H2. reflexivity.
Qed.

Lemma R_init : forall input, R (state0 SUnopt input) (state0 (SOpt (mx + 1)) input).
Proof.
  intros input. unfold state0. constructor; cbn [skind_ stacks cur points latest inp outb errb]; try reflexivity.
  split; [apply sel_small; lia|]. rewrite rn_small by lia. reflexivity.
Qed.
End Step.

Theorem renum_step_wt : renum_step_wt_stmt.
Proof.
  intros code m mx u pc s t Hwt Hmap Hin HR.
  destruct (renum_private code m mx Hmap) as (Hsel & Hinj & Hle & Hmx).
  apply (rr_step code m mx); assumption.
Qed.
Print Assumptions renum_step_wt.

Theorem level1_wt : level1_wt_stmt.
Proof.
  intros fuel code input Hwt. unfold run_level, optimize_prog.
  change (1 =? 0) with false. change (1 =? 1) with true. cbv iota.
  destruct (renum_map all_fixed code) as [m mx] eqn:Hmap.
  destruct (renum_private code m mx Hmap) as (Hsel & Hinj & Hle & Hmx).
  cbn [olog orest ostate]. symmetry. apply (frel_beh code m mx).
  change (frel code m mx
            (run_inc fuel (map xcode_of_ucode []) (map xcode_of_ucode code) (state0 SUnopt input))
            (run_inc fuel (map (opt_code m mx) []) (map (opt_code m mx) code) (state0 (SOpt (mx + 1)) input))).
  apply (run_inc_rel code m mx); try assumption.
  - intros x [].
  - apply incl_refl.
  - apply R_init; assumption.
Qed.
Print Assumptions level1_wt.

(* ------------------------------------------------------------------ *)
(* The premise [kinds_ok] is needed: a command of kind > 5 selects its dot count (the `_` branch of [body])  *)
(* but [chk_scan] only registers kind 5.                                                                    *)
(* ------------------------------------------------------------------ *)
Definition cex_cmd (t h d : N) : ucode := mkucode t h d (0, 0) Nil [].
Definition cex_code : list ucode := [cex_cmd 6 0 7; cex_cmd 0 2 3; cex_cmd 1 1 9; cex_cmd 1 1 1].

Theorem level1_needs_kinds : ~ level1_stmt.
Proof.
  intros H. specialize (H 100%nat cex_code []). vm_compute in H. discriminate H.
Qed.
Print Assumptions level1_needs_kinds.

Theorem renum_step_needs_kinds : ~ renum_step_stmt.
Proof.
  intros H.
  assert (Hmap : renum_map all_fixed [cex_cmd 6 0 7] = ([], 4)) by (vm_compute; reflexivity).
  destruct (renum_private _ _ _ Hmap) as (Hsel & Hinj & Hle & Hmx).
  assert (HR0 : Rn [cex_cmd 6 0 7] [] 4 (state0 SUnopt []) (state0 (SOpt (4 + 1)) []))
    by (apply R_init; assumption).
  specialize (H [cex_cmd 6 0 7] [] 4 (cex_cmd 6 0 7) 0 (state0 SUnopt []) (state0 (SOpt (4 + 1)) []) Hmap
                (or_introl eq_refl) HR0).
  vm_compute in H. destruct H as [_ HR]. destruct (Rn_cur _ _ _ _ _ HR) as [[L|(u & [E|[]] & Hty & _)] _].
  - vm_compute in L. apply L. reflexivity.
  - subst u. discriminate Hty.
Qed.
Print Assumptions renum_step_needs_kinds.
