(* Level 2: the emitted program with a serialised pre-state resumes the interpreter exactly where pre-execution stopped. *)
From Coq Require Import List NArith ZArith Bool.
Import ListNotations.
From HV Require Import Model.Big Model.Rat Model.NumText Model.Chars Model.Parse Model.Exec Model.Opt Model.Compile
  Proofs.RatSpec Proofs.OptSpec Proofs.CompSpec Proofs.CoroSpec.
Open Scope N_scope.

(* what pre-execution leaves behind, as far as the compiler relies on it *)
Definition area_targets (log : list xcode) (s : state) : Prop :=
  (forall id v, alist_get (points s) id = Some v -> exists c, nth_error log (N.to_nat v) = Some c /\ has_area c = true) /\
  (forall v, latest s = Some v -> exists c, nth_error log (N.to_nat v) = Some c /\ has_area c = true).
Definition stacks_canon (s : state) : Prop :=
  NoDup (map fst (stacks s)) /\ Forall (fun p => Forall canon_num (snd p)) (stacks s).
Definition with_input (s : state) (input : list (option (list N))) : state :=
  mkstate (skind_ s) (stacks s) (cur s) (points s) (latest s) input (outb s) (errb s).

(* the emitted level-2 program, started on [input], behaves like the interpreter resumed at the first residual command with
   the pre-executed state: both directions, as in compiled_sound / compiled_complete *)
Definition compiled2_sound_stmt := forall s log rest input fuel, rest <> [] -> area_targets log s -> stacks_canon s ->
  match run_pre fuel (log ++ rest) (with_input s input) (N.of_nat (length log)) with
  | FFuel _ _ => True
  | FPanic _ => True
  | x => exists fuel', ibeh (ir_run fuel' (build_ir true 2 s log rest) input) = beh x
  end.
Definition compiled2_complete_stmt := forall s log rest input fuel, rest <> [] -> area_targets log s -> stacks_canon s ->
  match ir_run fuel (build_ir true 2 s log rest) input with
  | IFuel _ => True
  | IBadState => False
  | y => exists fuel', beh (run_pre fuel' (log ++ rest) (with_input s input) (N.of_nat (length log))) = ibeh y
  end.
