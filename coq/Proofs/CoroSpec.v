(* Corollaries that make clauses of the properties explicit. *)
From Coq Require Import List NArith ZArith QArith Bool.
Import ListNotations.
From HV Require Import Model.Big Model.Rat Model.NumText Model.Chars Model.Parse Model.Exec Model.Opt Model.Repl Model.Compile
  Spec.Lang Proofs.RatSpec Proofs.ExecSpec Proofs.OptSpec Proofs.AppSpec.
Open Scope N_scope.

(* C07, program level: with a pop that yields v, a `?` node takes its left branch iff v is below the count, a `!` node iff
   v equals it; NaN (vlt/veq are false on VNaN) goes right *)
Definition calc_question_stmt := forall v cnt l r s, wfn v -> cnt < 2 ^ 63 ->
  calc (Val 0 l r) cnt (ret v) s = calc (if vlt (vof v) cnt then l else r) cnt (ret v) s.
Definition calc_bang_stmt := forall v cnt l r s, wfn v -> cnt < 2 ^ 63 ->
  calc (Val 1 l r) cnt (ret v) s = calc (if veq (vof v) cnt then l else r) cnt (ret v) s.
Definition calc_heart_stmt := forall t l r cnt (pop : M num) s, 2 <= t -> calc (Val t l r) cnt pop s = ROk t s.

(* C09 -> C03: the stack texts embedded in a level-2 compiled program read back as the stacks themselves *)
Definition canon_num (x : num) : Prop := wfn x /\ (is_nan x = true -> x = nan).
Definition stack_roundtrip_stmt := forall l, Forall canon_num l -> deser_stack (ser_stack l) = Some l.

(* C12: after `clear`, what is shown for the following lines is what a fresh session shows for them *)
Definition repl_after_clear_stmt := forall fuel line rest log s, leqb (trim line) KW_CLEAR = true ->
  snd (repl true fuel (line :: rest) log s) = snd (repl true fuel rest [] (state0 SUnopt (inp s))) /\
  fst (repl true fuel (line :: rest) log s) = EvFlush [] [] :: fst (repl true fuel rest [] (state0 SUnopt (inp s))).

(* C05: the in-place operators are the pure ones (set_move of the pure result): in the model they are the same
   functions, so only this remark is left to state: results do not depend on the representation of equal inputs *)
Definition badd_respects_stmt := forall a a' b b', wf a -> wf a' -> wf b -> wf b' -> bval a = bval a' -> bval b = bval b' ->
  badd a b = badd a' b' /\ bsub a b = bsub a' b' /\ bmul a b = bmul a' b'.
