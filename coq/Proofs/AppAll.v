(* Closes the REPL and debugger lemmas. *)
From Coq Require Import List NArith Bool.
From HV Require Import Model.Exec Model.Repl Model.Debug Proofs.OptSpec Proofs.AppSpec.
From HV Require Proofs.ReplProofs Proofs.DebugProofs.
Definition io_frame_t : io_frame_stmt := ReplProofs.io_frame.
Definition run_inc_frame_t : run_inc_frame_stmt := ReplProofs.run_inc_frame.
Definition run_inc_app_ok_t := ReplProofs.run_inc_app_ok.
Definition run_inc_app_stop_t : run_inc_app_stop_stmt := ReplProofs.run_inc_app_stop.
Definition inc_pre_t : inc_pre_stmt := ReplProofs.inc_pre.
Definition repl_whole_t : repl_whole_stmt := ReplProofs.repl_whole.
Definition repl_clear_t : repl_clear_stmt := ReplProofs.repl_clear.
Definition repl_pinned_refuted_t : repl_pinned_refuted_stmt := ReplProofs.repl_pinned_refuted.
Definition dinv_init_t : dinv_init_stmt := DebugProofs.dinv_init.
Definition dinv_step_t : dinv_step_stmt := DebugProofs.dinv_step io_frame_t.
Definition debug_no_panic_t : debug_no_panic_stmt := DebugProofs.debug_no_panic io_frame_t.
Definition debug_run_no_panic_t : debug_run_no_panic_stmt := DebugProofs.debug_run_no_panic io_frame_t.
Definition debug_state_t : debug_state_stmt := DebugProofs.debug_state.
Definition debug_previous_t : debug_previous_stmt := DebugProofs.debug_previous.
Definition debug_pinned_panics_t : debug_pinned_panics_stmt := DebugProofs.debug_pinned_panics.
