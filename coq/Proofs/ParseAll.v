(* Closes the parser-layer lemmas. *)
From Coq Require Import List NArith Bool.
From HV Require Import Model.Chars Model.Parse Spec.Grammar Proofs.ParseSpec.
From HV Require Proofs.ParsePre Proofs.ParseArea Proofs.ParseRender Proofs.ParseDecomp.
Definition run_suffix_t : run_suffix_stmt := ParsePre.run_suffix.
Definition area_build_t : area_build_stmt := ParseArea.area_build.
Definition area_shape_t : area_shape_stmt := ParseArea.area_shape.
Definition area_text_t : area_text_stmt := ParseArea.area_text.
Definition parse_render_t : parse_render_stmt := ParseRender.parse_render run_suffix_t area_build_t.
Definition decompose_flatten_t : decompose_flatten_stmt := ParseDecomp.decompose_flatten.
Definition decompose_valid_t : decompose_valid_stmt := ParseDecomp.decompose_valid.
Definition writable_t : writable_stmt := ParseDecomp.writable area_text_t.
Definition parse_area_shape_t : parse_area_shape_stmt := ParseDecomp.parse_area_shape parse_render_t area_shape_t.
Definition reparse_raw_t : reparse_raw_stmt := ParseDecomp.reparse_raw parse_render_t.
Definition parse_decompose_t := ParseDecomp.parse_decompose parse_render_t.
Definition parse_prefix_refuted_t : parse_prefix_refuted_stmt := ParseRender.parse_prefix_refuted.
