(* Closes the parser-layer lemmas. *)
From Coq Require Import List NArith Bool.
From HV Require Import Model.Chars Model.Parse Spec.Grammar Proofs.ParseSpec.
From HV Require Proofs.ParsePre Proofs.ParseArea Proofs.ParseRender Proofs.ParseDecomp.
Definition run_suffix_t : run_suffix_stmt := ParsePre.run_suffix.
Definition area_build_t : area_build_stmt := ParseArea.area_build.
Definition area_shape_t : area_shape_stmt := ParseArea.area_shape.
Definition area_text_t : area_text_stmt := ParseArea.area_text.
Definition parse_render_t : parse_render_stmt := ParseRender.parse_render run_suffix_t area_build_t.
Definition decompose_flatten_t : decompose_flatten_stmt := ParseDecomp.decompose_flatten.
Definition decompose_valid_t : decompose_valid_stmt := ParseDecomp.decompose_valid.
Definition writable_t : writable_stmt := ParseDecomp.writable area_text_t.
Definition parse_area_shape_t : parse_area_shape_stmt := ParseDecomp.parse_area_shape parse_render_t area_shape_t.
Definition reparse_raw_t : reparse_raw_stmt := ParseDecomp.reparse_raw parse_render_t.
Definition parse_decompose_t := ParseDecomp.parse_decompose parse_render_t.
Definition parse_prefix_refuted_t : parse_prefix_refuted_stmt := ParseRender.parse_prefix_refuted.

(* "exactly the commands the grammar defines": the parser's answer is the meaning of some valid concrete
   syntax tree of the text, and of every one *)
Lemma parse_iff_grammar : forall text cmds,
  parse text = cmds <-> exists t, valid t = true /\ flatten t = text /\ abstract t = cmds.
Proof.
  intros text cmds. split.
  - intros <-. exists (decompose text). split; [apply decompose_valid_t|]. split; [apply decompose_flatten_t|].
    symmetry. apply parse_decompose_t.
  - intros [t [Hv [Hf Ha]]]. rewrite <- Hf, <- Ha. apply parse_render_t. exact Hv.
Qed.

From HV Require Import Proofs.ParseArea.
Lemma parse_area_well_typed : forall text u, In u (parse text) -> well_typed (ar u).
Proof.
  intros text u Hin. rewrite parse_decompose_t in Hin.
  unfold abstract in Hin. revert Hin. generalize (advance (cprefix (decompose text)) (1, 0)).
  induction (ccmds (decompose text)) as [|c cs IH]; intros lc Hin; cbn [abstract_cmds In] in Hin; [contradiction|].
  destruct Hin as [<-|Hin]; [cbn [abstract_cmd ar]; apply area_of_well_typed | eapply IH; exact Hin].
Qed.
