(* Statements for the interactive interpreter (Model/Repl.v) and the debugger (Model/Debug.v). *)
From Coq Require Import List NArith ZArith Bool.
Import ListNotations.
From HV Require Import Model.Big Model.Rat Model.NumText Model.Chars Model.Parse Model.Exec Model.Opt Model.Repl Model.Debug
  Proofs.OptSpec.
Open Scope N_scope.

(* ---------- general facts about the interpreter loop ---------- *)
(* the I/O buffers are write-only: running from a state whose buffers hold extra old text gives the same run with
   that text underneath *)
Definition add_io (o e : list N) (s : state) : state :=
  mkstate (skind_ s) (stacks s) (cur s) (points s) (latest s) (inp s) (outb s ++ o) (errb s ++ e).
Definition map_res {A} (f : state -> state) (r : res A) : res A :=
  match r with ROk a s => ROk a (f s) | RExit k s => RExit k (f s) | RErr e s => RErr e (f s) end.
Definition io_frame_stmt := forall c pc s o e, execute_one c pc (add_io o e s) = map_res (add_io o e) (execute_one c pc s).
Definition map_final (f : state -> state) (x : final) : final :=
  match x with FDone s => FDone (f s) | FExit k s => FExit k (f s) | FErr e s => FErr e (f s)
             | FFuel s pc => FFuel (f s) pc | FPanic s => FPanic (f s) end.
Definition run_inc_frame_stmt := forall fuel done todo s o e,
  run_inc fuel done todo (add_io o e s) = map_final (add_io o e) (run_inc fuel done todo s).

(* running a program in two instalments = running it whole (given enough fuel for each part) *)
Definition run_inc_app_stmt := forall f1 done a b s s1, run_inc f1 done a s = FDone s1 ->
  forall f2, exists F, forall g, run_inc (F + g) done (a ++ b) s = run_inc (f2 + g) (done ++ a) b s1.
Definition run_inc_app_stop_stmt := forall f1 done a b s x, run_inc f1 done a s = x ->
  (forall s1, x <> FDone s1) -> (forall s1 pc, x <> FFuel s1 pc) -> run_inc f1 done (a ++ b) s = x.

(* execute() command by command never looks beyond the newest command: it equals execute_one over the preloaded program *)
Definition inc_pre_stmt := forall f done todo s, targets_ok (N.of_nat (length done)) s ->
  match run_inc f done todo s with
  | FFuel _ _ => True
  | x => run_pre (S f) (done ++ todo) s (N.of_nat (length done)) = x
  end.

(* ---------- REPL ---------- *)
Definition plain_line (line : list N) : bool :=
  negb (leqb (trim line) KW_CLEAR) && negb (leqb (trim line) KW_EXIT).
Definition line_cmds (line : list N) : list xcode :=
  let t := trim line in
  if leqb t [] || leqb t KW_HELP then [] else map xcode_of_ucode (parse line).
Definition rkind (e : rend) : fkind :=
  match e with RAlive | RQuit => KDone | RProgExit c => KExit c | RFail x => KErr x | RFuelOut => KFuel | RPanicked => KPanic end.
(* for every clear-free history that does not run out of fuel: everything shown, in order, and the way the session ends,
   are those of the whole program run at once *)
Definition repl_whole_stmt := forall fuel lines evs e, forallb plain_line lines = true ->
  repl_run true fuel lines = (evs, e) -> e <> RFuelOut ->
  exists F, beh (run_inc F [] (flat_map line_cmds lines) (state0 SUnopt [])) = (rkind e, shown_out evs, shown_err evs).
(* `clear` returns to the initial state *)
Definition repl_clear_stmt := forall fx fuel line rest log s, leqb (trim line) KW_CLEAR = true ->
  repl fx fuel (line :: rest) log s =
  (let (ev, e) := repl fx fuel rest [] (state0 SUnopt (inp s)) in (EvFlush [] [] :: ev, e)).
(* the pinned code (fx12 = false) lost text: witness *)
Definition repl_pinned_refuted_stmt := exists fuel lines,
  forallb plain_line lines = true /\
  shown_out (fst (repl_run false fuel lines)) <> shown_out (fst (repl_run true fuel lines)).

(* ---------- debugger ---------- *)
Definition core (s : state) : state := with_fresh_io s.
(* the state after k executed commands of the (input-free) program, and the next command *)
Fixpoint nsteps (k : nat) (code : list xcode) : option (state * N) :=
  match k with
  | O => Some (state0 SUnopt [], 0)
  | S j => match nsteps j code with
           | Some (s, pc) => match nth_error code (N.to_nat pc) with
                             | Some c => match execute_one c pc (core s) with ROk pc' s' => Some (core s', pc') | _ => None end
                             | None => None
                             end
           | None => None
           end
  end.
(* the history of a debugger state is exactly the sequence of true interpreter states, newest first *)
Fixpoint hist_ok (code : list xcode) (h : list (state * N)) : Prop :=
  match h with
  | [] => False
  | (s, pc) :: older => nsteps (length older) code = Some (core s, pc) /\ (older = [] \/ hist_ok code older)
  end.
Definition dinv (code : list xcode) (d : dstate) : Prop :=
  hist_ok code (hist d) /\ forallb (fun i => i <? N.of_nat (length code)) (brk d) = true.
Definition dinit : dstate := mkd [(state0 SUnopt [], 0)] [0] false (state0 SUnopt []).

(* the invariant holds initially (for a non-empty program) and is preserved by every iteration, whatever the command *)
Definition dinv_init_stmt := forall code, code <> [] -> dinv code dinit.
Definition dinv_step_stmt := forall code lines d evs lines' d', dinv code d ->
  dtrans true true code lines d = (evs, inr (lines', d')) -> dinv code d'.
(* no command sequence makes the debugger crash *)
Definition debug_no_panic_stmt := forall code lines d evs, dinv code d -> dtrans true true code lines d <> (evs, inl DPanic).
Definition debug_run_no_panic_stmt := forall fuel code lines evs e, code <> [] ->
  debug_run true true fuel code lines = (evs, e) -> e <> DPanic.
(* the state shown is the true one: a `state` request made when k steps are on the history shows index k, and the
   invariant says the newest snapshot is the interpreter's state after k commands; `previous` drops exactly one snapshot *)
Definition debug_state_stmt := forall code line rest d, dinv code d -> running d = false ->
  (exists s pc, hd_error (hist d) = Some (s, pc) /\ pc < N.of_nat (length code)) ->
  is_word (hd [] (split_sp (trim line) [])) w_state 115 = true ->
  is_word (hd [] (split_sp (trim line) [])) w_next 110 = false ->
  is_word (hd [] (split_sp (trim line) [])) w_previous 112 = false ->
  is_word (hd [] (split_sp (trim line) [])) w_run 114 = false ->
  dtrans true true code (line :: rest) d = ([DvPrompt; DvState (N.of_nat (length (tl (hist d))))], inr (rest, d)).
Definition debug_previous_stmt := forall code line rest d s pc older, hist d = (s, pc) :: older -> older <> [] ->
  running d = false -> pc < N.of_nat (length code) ->
  is_word (hd [] (split_sp (trim line) [])) w_previous 112 = true ->
  is_word (hd [] (split_sp (trim line) [])) w_next 110 = false ->
  dtrans true true code (line :: rest) d = ([DvPrompt; DvMovedBack], inr (rest, mkd older (brk d) false (dio d))).
(* the pinned code (fx11 = false) could crash: break <len> then break *)
Definition debug_pinned_panics_stmt := exists fuel code lines, code <> [] /\ snd (debug_run false true fuel code lines) = DPanic.
