(* First facts about the rational model: NaN handling. *)
From Coq Require Import List NArith ZArith Lia Bool.
Import ListNotations.
From HV Require Import Model.Big Model.Rat Model.NumText.
Open Scope N_scope.

Lemma nadd_nan_l x : nadd nan x = nan.
Proof. reflexivity. Qed.
Lemma nadd_nan_r x : nadd x nan = nan.
Proof. unfold nadd. replace (is_nan nan) with true by reflexivity. rewrite orb_true_r. reflexivity. Qed.
Lemma nmul_nan_l x : nmul nan x = nan.
Proof. reflexivity. Qed.
Lemma nmul_nan_r x : nmul x nan = nan.
Proof. unfold nmul. replace (is_nan nan) with true by reflexivity. rewrite orb_true_r. reflexivity. Qed.
Lemma nadd_absorbs a b : is_nan a = true \/ is_nan b = true -> nadd a b = nan.
Proof. unfold nadd. intros [H|H]; rewrite H; [|rewrite orb_true_r]; reflexivity. Qed.
Lemma nmul_absorbs a b : is_nan a = true \/ is_nan b = true -> nmul a b = nan.
Proof. unfold nmul. intros [H|H]; rewrite H; [|rewrite orb_true_r]; reflexivity. Qed.
Lemma nneg_nan a : is_nan a = true -> is_nan (nneg a) = true.
Proof. unfold nneg, is_nan. cbn. auto. Qed.
Lemma nflip_nan a : is_nan a = true -> nflip a = a.
Proof. unfold nflip. intros ->. reflexivity. Qed.
Lemma nan_display a : is_nan a = true -> num_display a = NAN_TEXT.
Proof. unfold num_display. intros ->. reflexivity. Qed.
Lemma ncmp_nan a b : is_nan a = true \/ is_nan b = true -> ncmp a b = None.
Proof. unfold ncmp. intros [H|H]; rewrite H; [|rewrite orb_true_r]; reflexivity. Qed.
