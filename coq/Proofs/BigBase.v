(* Basic facts about limb vectors: value, bounds, shrink. *)
From Coq Require Import List NArith ZArith Lia Bool.
Import ListNotations.
From HV Require Import Model.Big.
Open Scope N_scope.
Arguments N.add : simpl never. Arguments N.mul : simpl never. Arguments N.div : simpl never.
Arguments N.modulo : simpl never. Arguments N.pow : simpl never. Arguments N.sub : simpl never.
Arguments N.leb : simpl never. Arguments N.ltb : simpl never. Arguments N.eqb : simpl never.

Lemma B_pos : 0 < B. Proof. reflexivity. Qed.
Lemma B_nz : B <> 0. Proof. discriminate. Qed.

Lemma lval_bound l : limbs_ok l -> lval l < B ^ N.of_nat (length l).
Proof.
  induction 1 as [|x l Hx _ IH]; cbn [lval length].
  - reflexivity.
  - rewrite Nat2N.inj_succ, N.pow_succ_r'. nia.
Qed.

Lemma carry1_val a : forall c, lval (carry1 a c) = lval a + c.
Proof.
  induction a as [|x a IH]; intros c; cbn [carry1 lval].
  - lia.
  - destruct (N.leb_spec B (x + c)); cbn [lval]; rewrite IH; lia.
Qed.

Lemma add_carry_val a : forall b c, lval (add_carry a b c) = lval a + lval b + c.
Proof.
  induction a as [|x a IH]; intros b c.
  - cbn [add_carry lval]. rewrite carry1_val. lia.
  - destruct b as [|y b].
    + cbn [add_carry]. rewrite carry1_val. cbn [lval]. lia.
    + cbn [add_carry lval]. destruct (N.leb_spec B (x + y + c)); cbn [lval]; rewrite IH; lia.
Qed.

Lemma add_core_val a b : lval (add_core a b) = lval a + lval b.
Proof. unfold add_core. rewrite add_carry_val. lia. Qed.
