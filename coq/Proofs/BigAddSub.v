From Coq Require Import List NArith ZArith Lia Bool. Import ListNotations. From HV Require Import Model.Big Proofs.BigBase Proofs.BigSpec. Open Scope N_scope.
(* add_core / sub_core: limb bounds, value, and safety of the index accesses of sub_core. *)
Arguments N.add : simpl never. Arguments N.mul : simpl never. Arguments N.div : simpl never.
Arguments N.modulo : simpl never. Arguments N.pow : simpl never. Arguments N.sub : simpl never.
Arguments N.leb : simpl never. Arguments N.ltb : simpl never. Arguments N.eqb : simpl never.

Lemma limbs_ok_nil : limbs_ok [].
Proof. constructor. Qed.

Lemma limbs_ok_cons x l : limbs_ok (x :: l) <-> x < B /\ limbs_ok l.
Proof.
  unfold limbs_ok. split.
  - intros H. inversion H; subst. split; assumption.
  - intros [Hx Hl]. constructor; assumption.
Qed.

Lemma one_lt_B : 1 < B. Proof. reflexivity. Qed.

(* ---------- add_core ---------- *)

Lemma carry1_ok a : forall c, limbs_ok a -> c <= 1 -> limbs_ok (carry1 a c).
Proof.
  induction a as [|x a IH]; intros c Ha Hc; cbn [carry1].
  - apply limbs_ok_cons. split; [pose proof one_lt_B; lia | apply limbs_ok_nil].
  - apply limbs_ok_cons in Ha. destruct Ha as [Hx Ha].
    destruct (N.leb_spec B (x + c)) as [Hge|Hlt]; apply limbs_ok_cons; split.
    + unfold B in *; lia.
    + apply IH; [assumption | lia].
    + assumption.
    + apply IH; [assumption | lia].
Qed.

Lemma add_carry_ok a : forall b c, limbs_ok a -> limbs_ok b -> c <= 1 -> limbs_ok (add_carry a b c).
Proof.
  induction a as [|x a IH]; intros b c Ha Hb Hc.
  - cbn [add_carry]. apply carry1_ok; assumption.
  - destruct b as [|y b].
    + cbn [add_carry]. apply carry1_ok; assumption.
    + cbn [add_carry].
      apply limbs_ok_cons in Ha. destruct Ha as [Hx Ha].
      apply limbs_ok_cons in Hb. destruct Hb as [Hy Hb].
      destruct (N.leb_spec B (x + y + c)) as [Hge|Hlt]; apply limbs_ok_cons; split.
      * unfold B in *; lia.
      * apply IH; [assumption | assumption | lia].
      * assumption.
      * apply IH; [assumption | assumption | lia].
Qed.

Lemma carry1_nonempty a c : carry1 a c <> [].
Proof.
  destruct a as [|x a]; cbn [carry1].
  - discriminate.
  - destruct (B <=? x + c); discriminate.
Qed.

Lemma add_carry_nonempty a b c : add_carry a b c <> [].
Proof.
  destruct a as [|x a].
  - cbn [add_carry]. apply carry1_nonempty.
  - destruct b as [|y b].
    + cbn [add_carry]. apply carry1_nonempty.
    + cbn [add_carry]. destruct (B <=? x + y + c); discriminate.
Qed.

Theorem add_core_spec : add_core_stmt.
Proof.
  intros a b Ha Hb. split; [|split].
  - unfold add_core. apply add_carry_ok; [assumption | assumption | lia].
  - apply add_core_val.
  - unfold add_core. apply add_carry_nonempty.
Qed.
Print Assumptions add_core_spec.

(* ---------- sub_borrow ---------- *)

Lemma sub_borrow_nonempty a b c : sub_borrow a b c <> [].
Proof.
  destruct a as [|x a].
  - cbn [sub_borrow]. discriminate.
  - destruct b as [|y b]; cbn [sub_borrow].
    + destruct (x <? c); discriminate.
    + destruct (x <? y + c); discriminate.
Qed.

Lemma sub_borrow_ok a : forall b c, limbs_ok a -> limbs_ok b -> c <= 1 -> limbs_ok (sub_borrow a b c).
Proof.
  induction a as [|x a IH]; intros b c Ha Hb Hc.
  - cbn [sub_borrow]. apply limbs_ok_cons. split; [pose proof one_lt_B; lia | apply limbs_ok_nil].
  - apply limbs_ok_cons in Ha. destruct Ha as [Hx Ha].
    destruct b as [|y b]; cbn [sub_borrow].
    + destruct (N.ltb_spec x c) as [Hlt|Hge]; apply limbs_ok_cons; split.
      * unfold B in *; lia.
      * apply IH; [assumption | apply limbs_ok_nil | lia].
      * unfold B in *; lia.
      * apply IH; [assumption | apply limbs_ok_nil | lia].
    + apply limbs_ok_cons in Hb. destruct Hb as [Hy Hb].
      destruct (N.ltb_spec x (y + c)) as [Hlt|Hge]; apply limbs_ok_cons; split.
      * unfold B in *; lia.
      * apply IH; [assumption | assumption | lia].
      * unfold B in *; lia.
      * apply IH; [assumption | assumption | lia].
Qed.

(* value, stated additively; the magnitude hypothesis forces the final borrow cell to 0 *)
Lemma sub_borrow_val a : forall b c, limbs_ok a -> limbs_ok b -> c <= 1 ->
  (length b <= length a)%nat -> lval b + c <= lval a ->
  lval (sub_borrow a b c) + lval b + c = lval a.
Proof.
  induction a as [|x a IH]; intros b c Ha Hb Hc Hlen Hmag.
  - destruct b as [|y b]; [|cbn [length] in Hlen; lia].
    cbn [sub_borrow lval] in *. lia.
  - apply limbs_ok_cons in Ha. destruct Ha as [Hx Ha].
    destruct b as [|y b]; cbn [sub_borrow].
    + cbn [lval] in Hmag.
      destruct (N.ltb_spec x c) as [Hlt|Hge]; cbn [lval].
      * assert (Hm : lval [] + 1 <= lval a) by (cbn [lval]; unfold B in *; lia).
        pose proof (IH [] 1 Ha limbs_ok_nil ltac:(lia) ltac:(cbn [length]; lia) Hm) as E.
        cbn [lval] in E. unfold B in *; lia.
      * assert (Hm : lval [] + 0 <= lval a) by (cbn [lval]; lia).
        pose proof (IH [] 0 Ha limbs_ok_nil ltac:(lia) ltac:(cbn [length]; lia) Hm) as E.
        cbn [lval] in E. unfold B in *; lia.
    + apply limbs_ok_cons in Hb. destruct Hb as [Hy Hb].
      cbn [length] in Hlen. cbn [lval] in Hmag.
      assert (Hlen' : (length b <= length a)%nat) by lia.
      destruct (N.ltb_spec x (y + c)) as [Hlt|Hge]; cbn [lval].
      * assert (Hm : lval b + 1 <= lval a) by (unfold B in *; lia).
        pose proof (IH b 1 Ha Hb ltac:(lia) Hlen' Hm) as E.
        unfold B in *; lia.
      * assert (Hm : lval b + 0 <= lval a) by (unfold B in *; lia).
        pose proof (IH b 0 Ha Hb ltac:(lia) Hlen' Hm) as E.
        unfold B in *; lia.
Qed.

Lemma sub_borrow0_val a b : limbs_ok a -> limbs_ok b ->
  (length b <= length a)%nat -> lval b <= lval a ->
  lval (sub_borrow a b 0) = lval a - lval b.
Proof.
  intros Ha Hb Hlen Hmag.
  pose proof (sub_borrow_val a b 0 Ha Hb ltac:(lia) Hlen ltac:(lia)) as E. lia.
Qed.

(* ---------- sub_core ---------- *)

Section WithLess.
Hypothesis Hless : less_core_stmt.
Hypothesis Hnlen : normal_length_stmt.

Theorem sub_core_spec : sub_core_stmt.
Proof.
  intros a b Ha Hb [[Hane Hbne] Hlen].
  pose proof (Hless a b Ha Hb Hane Hbne) as E.
  unfold sub_core. rewrite E in Hlen. rewrite E.
  destruct (N.ltb_spec (lval a) (lval b)) as [Hlt|Hge]; cbn [fst snd].
  - split; [|split; [|split]].
    + apply sub_borrow_ok; [assumption | assumption | lia].
    + apply sub_borrow_nonempty.
    + reflexivity.
    + apply sub_borrow0_val; [assumption | assumption | assumption | lia].
  - split; [|split; [|split]].
    + apply sub_borrow_ok; [assumption | assumption | lia].
    + apply sub_borrow_nonempty.
    + reflexivity.
    + apply sub_borrow0_val; assumption.
Qed.

Theorem sub_core_safe_normal : sub_core_safe_stmt.
Proof.
  intros a b Na Nb.
  pose proof Na as [Ha [Hane _]]. pose proof Nb as [Hb [Hbne _]].
  unfold sub_core_safe, less_core_safe. split; [split; assumption|].
  rewrite (Hless a b Ha Hb Hane Hbne).
  destruct (N.ltb_spec (lval a) (lval b)) as [Hlt|Hge].
  - apply Hnlen; [assumption | assumption | lia].
  - apply Hnlen; assumption.
Qed.

End WithLess.
Print Assumptions sub_core_spec.
Print Assumptions sub_core_safe_normal.
