(* The whole listing printed by `hyeong check` (Model/Listing.v): never a padding underflow, and the text determines every
   command (C08 clause 3 for the complete output; C13 for the arithmetic of the layout). *)
From Coq Require Import List NArith Bool.
Import ListNotations.
From HV Require Import Model.Chars Model.Parse Model.Listing Spec.Grammar Spec.Lang Proofs.ParseSpec Proofs.ParseArea Proofs.ListingSpec.
Open Scope N_scope.

(* no row ever needs a negative padding, whatever the indices and locations; the only panic site left is COMMANDS[type] for a
   kind the parser never yields *)
Definition listing_total_stmt := forall rawmode fname es,
  (rawmode = true \/ Forall (fun e => ty (snd e) < 6) es) -> listing_text rawmode fname es <> None.
Definition check_listing_total_stmt := forall fname text, check_listing fname text <> None.

(* every row is as wide as the widest: index column and location column are aligned *)
Definition info (c : ucode) : N * N * N * (N * N) * area := (ty c, hc c, dc c, loc c, ar c).
Definition no_nl (l : list N) : Prop := ~ In 10 l.
Definition cmd_ok (c : ucode) : Prop := ty c < 6 /\ grammar_shaped (ar c) /\ well_typed (ar c).

(* the listing determines index, location, kind, counts and area of every command: two command lists with the same listing
   (same file name, which contains no line break) are the same up to the raw source text, which the listing does not show *)
Definition listing_determines_stmt := forall fname es es' t, no_nl fname ->
  Forall (fun e => cmd_ok (snd e)) es -> Forall (fun e => cmd_ok (snd e)) es' ->
  listing_text false fname es = Some t -> listing_text false fname es' = Some t ->
  map (fun e => (fst e, info (snd e))) es = map (fun e => (fst e, info (snd e))) es'.
(* for `check` itself: any two files with the same listing hold the same commands at the same places *)
Definition check_listing_determines_stmt := forall fname text text', no_nl fname ->
  check_listing fname text = check_listing fname text' -> map info (parse text) = map info (parse text').
