(* C08 clause 3: the listing line `KIND_syllables_dots AREA` determines the command; decimal numerals are
   injective digit strings; the location prefix `line:col` determines both numbers. *)
From Coq Require Import List NArith Lia Bool. Import ListNotations.
From HV Require Import Model.Chars Model.Parse Spec.Grammar Spec.Lang Proofs.ParseSpec Proofs.ParseArea Proofs.ListingSpec.
From HV Require Proofs.ExecText.
Open Scope N_scope.

Arguments N.add : simpl never.
Arguments N.mul : simpl never.
Arguments N.sub : simpl never.
Arguments N.div : simpl never.
Arguments N.modulo : simpl never.
Arguments N.pow : simpl never.
Arguments N.leb : simpl never.
Arguments N.ltb : simpl never.
Arguments N.eqb : simpl never.
Arguments N.log2 : simpl never.

Definition is_digit (c : N) : Prop := 48 <= c <= 57.

(* ---------- dec_N a is a non-empty digit string ---------- *)
Lemma dd_digits : forall f n acc, Forall is_digit acc -> Forall is_digit (dec_digits f n acc).
Proof.
  induction f as [|f IH]; intros n acc F; cbn [dec_digits].
  - exact F.
  - destruct (N.ltb_spec n 10) as [L|L].
    + constructor; [unfold is_digit; lia|exact F].
    + apply IH. constructor; [|exact F].
      pose proof (N.mod_lt n 10) as M. set (m := n mod 10) in *. unfold is_digit. lia.
Qed.

Lemma dd_nonempty : forall f n acc, dec_digits (S f) n acc <> [].
Proof.
  intros f n acc. cbn [dec_digits]. destruct (n <? 10); [discriminate|].
  rewrite ExecText.dd_acc. intro H. apply app_eq_nil in H. destruct H as [_ H]. discriminate H.
Qed.

Theorem dec_N_digits : dec_N_digits_stmt.
Proof.
  intro a. split.
  - unfold dec_N. apply dd_nonempty.
  - unfold dec_N. apply (dd_digits _ a []). constructor.
Qed.

(* ---------- the value read back from a digit string ---------- *)
Fixpoint dval (l : list N) (acc : N) : N :=
  match l with [] => acc | c :: r => dval r (acc * 10 + (c - 48)) end.

Lemma dval_snoc : forall l c acc, dval (l ++ [c]) acc = dval l acc * 10 + (c - 48).
Proof.
  induction l as [|x r IH]; intros c acc; cbn [dval app]; [reflexivity|apply IH].
Qed.

Lemma dval_dec_N : forall a, dval (dec_N a) 0 = a.
Proof.
  intro a. induction a as [a IH] using (well_founded_induction N.lt_wf_0).
  destruct (N.lt_ge_cases a 10) as [L|G].
  - rewrite ExecText.dec_N_small by exact L. cbn [dval]. lia.
  - pose proof (N.div_mod a 10) as DM. pose proof (N.mod_lt a 10) as ML.
    set (q := a / 10) in *. set (m := a mod 10) in *.
    assert (E : a = q * 10 + m) by lia.
    assert (Q : 0 < q) by lia.
    rewrite E at 1. rewrite ExecText.dec_N_step by lia.
    rewrite dval_snoc, IH by lia. lia.
Qed.

Theorem dec_N_injective : dec_N_injective_stmt.
Proof.
  intros a b H. rewrite <- (dval_dec_N a), <- (dval_dec_N b), H. reflexivity.
Qed.

(* ---------- a digit string followed by a non-digit: the split point is determined ---------- *)
Lemma delimited_split : forall l1 l2 s r1 r2,
  Forall is_digit l1 -> Forall is_digit l2 -> ~ is_digit s ->
  l1 ++ s :: r1 = l2 ++ s :: r2 -> l1 = l2 /\ r1 = r2.
Proof.
  induction l1 as [|x l1 IH]; intros l2 s r1 r2 F1 F2 NS H; destruct l2 as [|y l2]; cbn [app] in H.
  - injection H as H. auto.
  - exfalso. injection H as H _. subst y. inversion F2; auto.
  - exfalso. injection H as H _. subst x. inversion F1; auto.
  - injection H as Hx Hr. subst y.
    inversion F1 as [|? ? _ F1']; subst. inversion F2 as [|? ? _ F2']; subst.
    destruct (IH l2 s r1 r2 F1' F2' NS Hr) as (-> & ->). auto.
Qed.

Lemma dec_N_is_digit a : Forall is_digit (dec_N a).
Proof. exact (proj2 (dec_N_digits a)). Qed.

Lemma delimited_numeral : forall x y s r1 r2, ~ is_digit s ->
  dec_N x ++ s :: r1 = dec_N y ++ s :: r2 -> x = y /\ r1 = r2.
Proof.
  intros x y s r1 r2 NS H.
  destruct (delimited_split _ _ _ _ _ (dec_N_is_digit x) (dec_N_is_digit y) NS H) as (E & R).
  split; [apply dec_N_injective, E|exact R].
Qed.

(* ---------- the kind syllable ---------- *)
Lemma single_inj : forall k k', k < 6 -> k' < 6 ->
  nth (N.to_nat k) SINGLE 0 = nth (N.to_nat k') SINGLE 0 -> k = k'.
Proof.
  intros k k' L L' H.
  assert (C : forall j, j < 6 -> j = 0 \/ j = 1 \/ j = 2 \/ j = 3 \/ j = 4 \/ j = 5) by (intros; lia).
  destruct (C k L) as [->|[->|[->|[->|[->| ->]]]]];
  destruct (C k' L') as [->|[->|[->|[->|[->| ->]]]]];
  (reflexivity || (exfalso; vm_compute in H; discriminate H)).
Qed.

Theorem listing_injective : listing_injective_stmt.
Proof.
  intros k n d a k' n' d' a' L L' G G' W W' H.
  unfold listing_line in H. cbn [app] in H.
  injection H as Hk Hr.
  apply (single_inj k k' L L') in Hk.
  apply delimited_numeral in Hr; [|unfold is_digit, CH_US; lia].
  destruct Hr as (En & Hr).
  apply delimited_numeral in Hr; [|unfold is_digit, CH_SP; lia].
  destruct Hr as (Ed & Ha).
  apply (display_injective_wt a a' G G' W W') in Ha.
  auto.
Qed.

Theorem loc_injective : loc_injective_stmt.
Proof.
  intros l c l' c' H. unfold loc_text in H. cbn [app] in H.
  apply delimited_numeral in H; [|unfold is_digit; lia].
  destruct H as (El & H).
  apply dec_N_injective in H. auto.
Qed.

Print Assumptions dec_N_digits.
Print Assumptions dec_N_injective.
Print Assumptions listing_injective.
Print Assumptions loc_injective.
