From Coq Require Import List NArith Lia Bool. Import ListNotations. From HV Require Import Model.Chars Model.Parse Spec.Grammar Proofs.ParseSpec. Open Scope N_scope.

(* The pre-pass table is consulted only through "no terminator of the class later". *)

Definition isend (k c : N) : bool := match end_class c with Some j => j =? k | None => false end.
Definition upd (m : N * N * N) (i c : N) : N * N * N :=
  let '(a, b, d) := m in
  match end_class c with
  | Some k => if k =? 0 then (i, b, d) else if k =? 1 then (a, i, d) else (a, b, i)
  | None => m end.

Lemma max_pos_cons : forall c r i m, max_pos (c :: r) i m = max_pos r (i + 1) (upd m i c).
Proof. intros c r i [[a b] d]. reflexivity. Qed.

Lemma later_end_cons : forall k c r, later_end k (c :: r) = isend k c || later_end k r.
Proof. reflexivity. Qed.

Lemma lt3_cases : forall k, k < 3 -> k = 0 \/ k = 1 \/ k = 2.
Proof. intros k H. lia. Qed.

Lemma end_class_cases : forall c,
  end_class c = None \/ end_class c = Some 0 \/ end_class c = Some 1 \/ end_class c = Some 2.
Proof.
  intro c. unfold end_class.
  destruct (c =? 50633); auto.
  destruct ((c =? 50521) || (c =? 50519)); auto.
  destruct ((c =? 51023) || (c =? 51021) || (c =? 51005)); auto.
Qed.

Lemma mp_get_upd : forall m i c k, k < 3 ->
  mp_get (upd m i c) k = if isend k c then i else mp_get m k.
Proof.
  intros [[a b] d] i c k Hk. unfold upd, isend.
  destruct (end_class_cases c) as [E | [E | [E | E]]]; rewrite E;
    destruct (lt3_cases k Hk) as [K | [K | K]]; subst k; reflexivity.
Qed.

Lemma max_pos_none : forall k l i m, k < 3 -> later_end k l = false ->
  mp_get (max_pos l i m) k = mp_get m k.
Proof.
  intros k l. induction l as [| c r IH]; intros i m Hk H.
  - reflexivity.
  - rewrite later_end_cons in H. apply orb_false_iff in H. destruct H as [H1 H2].
    rewrite max_pos_cons, IH by assumption. rewrite mp_get_upd by assumption.
    rewrite H1. reflexivity.
Qed.

Lemma max_pos_later : forall k l i m, k < 3 -> later_end k l = true ->
  i <= mp_get (max_pos l i m) k.
Proof.
  intros k l. induction l as [| c r IH]; intros i m Hk H.
  - discriminate.
  - rewrite max_pos_cons. destruct (later_end k r) eqn:E.
    + pose proof (IH (i + 1) (upd m i c) Hk eq_refl). lia.
    + rewrite later_end_cons, E, orb_false_r in H.
      rewrite max_pos_none by assumption. rewrite mp_get_upd by assumption.
      rewrite H. lia.
Qed.

Lemma index_of_START_lt : forall c k, index_of c START = Some k -> k < 3.
Proof.
  intros c k. unfold index_of, START, index_from.
  destruct (54784 =? c). { intro H; inversion H; reflexivity. }
  destruct (54616 =? c). { intro H; inversion H; reflexivity. }
  destruct (55120 =? c). { intro H; inversion H; reflexivity. }
  discriminate.
Qed.

Lemma step_mp_ext : forall bug mp mp' s i c,
  (forall k, k < 3 -> (mp_get mp k <=? i) = (mp_get mp' k <=? i)) ->
  step bug mp s i c = step bug mp' s i c.
Proof.
  intros bug mp mp' s i c H. unfold step.
  destruct (is_ws c); [reflexivity |].
  destruct (st s =? 1); [reflexivity |].
  destruct (index_of c SINGLE); [reflexivity |].
  destruct (index_of c START) as [k |] eqn:E; [| reflexivity].
  rewrite (H k (index_of_START_lt c k E)). reflexivity.
Qed.

Lemma fake_get : forall r i k, k < 3 ->
  mp_get (if later_end 0 r then i + 1 else 0, if later_end 1 r then i + 1 else 0,
          if later_end 2 r then i + 1 else 0) k = if later_end k r then i + 1 else 0.
Proof.
  intros r i k Hk. destruct (lt3_cases k Hk) as [K | [K | K]]; subst k; reflexivity.
Qed.

Lemma run_gen : forall bug rest i m s,
  (forall k, k < 3 -> mp_get m k <= i) ->
  run bug (max_pos rest i m) rest i s = run_s bug rest i s.
Proof.
  intros bug rest. induction rest as [| c r IH]; intros i m s Hm.
  - reflexivity.
  - cbn [run run_s]. rewrite max_pos_cons.
    assert (Hm' : forall k, k < 3 -> mp_get (upd m i c) k <= i + 1).
    { intros k Hk. rewrite mp_get_upd by assumption.
      destruct (isend k c); [lia | specialize (Hm k Hk); lia]. }
    assert (Hs : step bug (max_pos r (i + 1) (upd m i c)) s i c = step_s bug r s i c).
    { unfold step_s. apply step_mp_ext. intros k Hk.
      rewrite fake_get by assumption.
      destruct (later_end k r) eqn:E.
      - pose proof (max_pos_later k r (i + 1) (upd m i c) Hk E) as HL.
        transitivity false; [apply N.leb_gt; lia | symmetry; apply N.leb_gt; lia].
      - rewrite max_pos_none by assumption.
        assert (Hle : mp_get (upd m i c) k <= i).
        { rewrite mp_get_upd by assumption.
          destruct (isend k c); [lia | exact (Hm k Hk)]. }
        transitivity true; [apply N.leb_le; exact Hle | symmetry; apply N.leb_le; lia]. }
    rewrite Hs. apply IH. exact Hm'.
Qed.

Theorem run_suffix : run_suffix_stmt.
Proof.
  intros bug l. apply run_gen. intros k Hk.
  destruct (lt3_cases k Hk) as [K | [K | K]]; subst k; cbn; lia.
Qed.

Print Assumptions run_suffix.
