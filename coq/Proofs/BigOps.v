(* Signed-level theorems of the number layer (big_number.rs public API), derived from the limb-level
   facts, which are Section hypotheses here and are discharged in Proofs/BigAll.v. *)
From Coq Require Import List NArith ZArith Lia Bool.
Import ListNotations.
From HV Require Import Model.Big Proofs.BigBase Proofs.BigSpec.
Open Scope N_scope.

(* ------------------------------------------------------------------------------------------ *)
(* hypothesis-free helpers                                                                     *)
(* ------------------------------------------------------------------------------------------ *)

Lemma normal_single0 : normal [0].
Proof.
  split; [|split].
  - constructor; [reflexivity|constructor].
  - discriminate.
  - reflexivity.
Qed.

Lemma is_zero_limbs a : is_zero a = true <-> limbs a = [0].
Proof.
  unfold is_zero. destruct (list_eq_dec N.eq_dec (limbs a) [0]) as [e|ne]; split; intros H.
  - exact e.
  - reflexivity.
  - discriminate H.
  - contradiction.
Qed.

Lemma bminus_bneg a : bminus a = bneg a.
Proof. reflexivity. Qed.

Lemma bminus_spec a : wf a -> wf (bminus a) /\ bval (bminus a) = (- bval a)%Z.
Proof.
  intros [Hn Hz]. unfold bminus, is_zero.
  destruct (list_eq_dec N.eq_dec (limbs a) [0]) as [e|ne].
  - split; [split; assumption|]. unfold bval. rewrite (Hz e), e. reflexivity.
  - split.
    + split; cbn [limbs bpos]; [assumption | intros e; contradiction].
    + unfold bval; cbn [bpos limbs]. destruct (bpos a); cbn [negb]; lia.
Qed.

Lemma flip_if_spec s a : wf a ->
  wf (flip_if s a) /\ bval (flip_if s a) = (if s then - bval a else bval a)%Z.
Proof.
  intros Ha. destruct s; cbn [flip_if].
  - apply bminus_spec; assumption.
  - split; [assumption | reflexivity].
Qed.

Lemma shrink_big_wf a : wf a -> shrink_big a = a.
Proof.
  destruct a as [p l]. intros [[_ [_ Hs]] _]. cbn [limbs] in Hs.
  unfold shrink_big; cbn [bpos limbs]. rewrite Hs. reflexivity.
Qed.

Lemma wf_limbs_ok a : wf a -> limbs_ok (limbs a).
Proof. intros [[H _] _]. exact H. Qed.

Lemma wf_limbs_ne a : wf a -> limbs a <> [].
Proof. intros [[_ [H _]] _]. exact H. Qed.

Lemma wf_normal a : wf a -> normal (limbs a).
Proof. intros [H _]. exact H. Qed.

(* ---- to_limbs (bnew) ---- *)

Lemma strip_cons x l :
  strip (x :: l) = match strip l with [] => if x =? 0 then [] else [x] | _ :: _ => x :: strip l end.
Proof. reflexivity. Qed.

Lemma to_limbs_ok f : forall m, limbs_ok (to_limbs f m).
Proof.
  induction f as [|f IH]; intros m; cbn [to_limbs].
  - constructor.
  - constructor.
    + apply N.mod_lt, B_nz.
    + destruct (m / B =? 0); [constructor | apply IH].
Qed.

Lemma to_limbs_val f : forall m, m < B ^ N.of_nat f -> lval (to_limbs f m) = m.
Proof.
  induction f as [|f IH]; intros m H.
  - change (N.of_nat 0) with 0 in H. rewrite N.pow_0_r in H. cbn [to_limbs lval]. lia.
  - rewrite Nat2N.inj_succ, N.pow_succ_r' in H. cbn [to_limbs lval].
    pose proof (N.div_mod m B B_nz) as Hdm.
    destruct (N.eqb_spec (m / B) 0) as [e|ne].
    + cbn [lval]. rewrite e in Hdm. lia.
    + rewrite IH; [lia|]. apply N.div_lt_upper_bound; [apply B_nz | lia].
Qed.

Lemma to_limbs_strip f : forall m, m <> 0 -> m < B ^ N.of_nat f ->
  strip (to_limbs f m) = to_limbs f m /\ to_limbs f m <> [].
Proof.
  induction f as [|f IH]; intros m Hm H.
  - change (N.of_nat 0) with 0 in H. rewrite N.pow_0_r in H. lia.
  - rewrite Nat2N.inj_succ, N.pow_succ_r' in H. cbn [to_limbs].
    pose proof (N.div_mod m B B_nz) as Hdm.
    split; [|discriminate].
    destruct (N.eqb_spec (m / B) 0) as [e|ne].
    + rewrite strip_cons. change (strip []) with (@nil N).
      destruct (N.eqb_spec (m mod B) 0) as [e'|ne']; [|reflexivity].
      rewrite e in Hdm. lia.
    + assert (Hlt : m / B < B ^ N.of_nat f)
        by (apply N.div_lt_upper_bound; [apply B_nz | lia]).
      destruct (IH (m / B) ne Hlt) as [E NE].
      rewrite strip_cons, E.
      destruct (to_limbs f (m / B)) as [|y t]; [congruence | reflexivity].
Qed.

Lemma to_limbs_normal f m : f <> O -> m < B ^ N.of_nat f -> normal (to_limbs f m).
Proof.
  intros Hf H. destruct (N.eq_dec m 0) as [e|ne].
  - subst m. destruct f as [|f]; [congruence|]. exact normal_single0.
  - destruct (to_limbs_strip f m ne H) as [E NE].
    split; [apply to_limbs_ok|]. split; [exact NE|].
    unfold shrink. rewrite E.
    destruct (to_limbs f m) as [|y t]; [congruence | reflexivity].
Qed.

Theorem bnew_spec : bnew_stmt.
Proof.
  intros n H. unfold bnew.
  assert (HB : B ^ N.of_nat 4 = 340282366920938463463374607431768211456)
    by (vm_compute; reflexivity).
  assert (H127 : (2 ^ 127 = 170141183460469231731687303715884105728)%Z)
    by (vm_compute; reflexivity).
  pose proof (N2Z.inj_abs_N n) as Habs.
  assert (Hlt : Z.abs_N n < B ^ N.of_nat 4).
  { rewrite HB. rewrite H127 in H. generalize dependent (Z.abs_N n). intros m Hm. lia. }
  pose proof (to_limbs_val 4 _ Hlt) as Hv.
  assert (Hn : normal (to_limbs 4 (Z.abs_N n))) by (apply to_limbs_normal; [discriminate | exact Hlt]).
  split.
  - split; cbn [limbs bpos]; [exact Hn|].
    intros e. rewrite e in Hv. cbn [lval] in Hv. apply Z.leb_le. lia.
  - unfold bval; cbn [bpos limbs]. rewrite Hv.
    destruct (Z.leb_spec 0 n); lia.
Qed.

(* ------------------------------------------------------------------------------------------ *)
Section Ops.

  Hypothesis Hshv : shrink_val_stmt.
  Hypothesis Hshok : shrink_ok_stmt.
  Hypothesis Hshn : shrink_normal_stmt.
  Hypothesis Hnu : normal_unique_stmt.
  Hypothesis Hadd : add_core_stmt.
  Hypothesis Hless : less_core_stmt.
  Hypothesis Hsub : sub_core_stmt.
  Hypothesis Hsafe : sub_core_safe_stmt.
  Hypothesis Hmul : mult_core_stmt.
  Hypothesis Hdiv : div_core_stmt.

  (* ---- zero ---- *)

  Lemma normal_lval_zero l : normal l -> (lval l = 0 <-> l = [0]).
  Proof.
    intros Hn. split; intros H.
    - apply Hnu; [exact Hn | exact normal_single0 | rewrite H; reflexivity].
    - subst l. reflexivity.
  Qed.

  Lemma bval_zero a : wf a -> (bval a = 0%Z <-> limbs a = [0]).
  Proof.
    intros Ha. rewrite <- (normal_lval_zero _ (wf_normal a Ha)).
    unfold bval. destruct (bpos a); lia.
  Qed.

  Theorem is_zero_spec : is_zero_stmt.
  Proof.
    intros a Ha. rewrite is_zero_limbs. symmetry. apply bval_zero; exact Ha.
  Qed.

  Lemma shrink_idem v : limbs_ok v -> v <> [] -> shrink (shrink v) = shrink v.
  Proof. intros Hok Hne. destruct (Hshn v Hok Hne) as (_ & _ & H). exact H. Qed.

  (* ---- from_vec, uniqueness, negation ---- *)

  Theorem from_vec_spec : from_vec_stmt.
  Proof.
    intros v Hok Hne. unfold from_vec. split.
    - split; cbn [limbs bpos]; [apply Hshn; assumption | reflexivity].
    - unfold bval; cbn [bpos limbs]. rewrite Hshv. reflexivity.
  Qed.

  Theorem wf_unique : wf_unique_stmt.
  Proof.
    intros a b Ha Hb H.
    pose proof (bval_zero a Ha) as Za. pose proof (bval_zero b Hb) as Zb.
    destruct Ha as [Hna Hza], Hb as [Hnb Hzb].
    destruct a as [pa la], b as [pb lb]. cbn [bpos limbs] in *.
    unfold bval in *; cbn [bpos limbs] in *.
    assert (E : lval la = lval lb) by (destruct pa, pb; lia).
    pose proof (Hnu la lb Hna Hnb E) as El. subst lb.
    destruct pa, pb; try reflexivity.
    - assert (e : la = [0]) by (apply Za; lia). pose proof (Hzb e). discriminate.
    - assert (e : la = [0]) by (apply Za; lia). pose proof (Hza e). discriminate.
  Qed.

  Theorem bneg_spec : bneg_stmt.
  Proof. intros a Ha. unfold bneg. apply bminus_spec; exact Ha. Qed.

  (* ---- the common result constructor of add/sub/mul/div ---- *)

  Lemma mk_spec0 s v : limbs_ok v -> v <> [] ->
    wf (flip_if s (from_vec v)) /\
    bval (flip_if s (from_vec v)) = (if s then - Z.of_N (lval v) else Z.of_N (lval v))%Z.
  Proof.
    intros Hok Hne. destruct (from_vec_spec v Hok Hne) as [W V].
    destruct (flip_if_spec s _ W) as [W' V']. split; [exact W'|].
    rewrite V', V. reflexivity.
  Qed.

  Lemma mk_spec s v : limbs_ok v -> v <> [] ->
    wf (shrink_big (flip_if s (from_vec v))) /\
    bval (shrink_big (flip_if s (from_vec v))) = (if s then - Z.of_N (lval v) else Z.of_N (lval v))%Z.
  Proof.
    intros Hok Hne. destruct (mk_spec0 s v Hok Hne) as [W V].
    rewrite (shrink_big_wf _ W). split; assumption.
  Qed.

  Lemma add_mk s la lb : limbs_ok la -> limbs_ok lb ->
    wf (shrink_big (flip_if s (from_vec (add_core la lb)))) /\
    bval (shrink_big (flip_if s (from_vec (add_core la lb)))) =
      (if s then - (Z.of_N (lval la) + Z.of_N (lval lb)) else Z.of_N (lval la) + Z.of_N (lval lb))%Z.
  Proof.
    intros Ha Hb. destruct (Hadd la lb Ha Hb) as (Hok & Hv & Hne).
    destruct (mk_spec s _ Hok Hne) as [W V]. split; [exact W|].
    rewrite V, Hv, N2Z.inj_add. reflexivity.
  Qed.

  Lemma sub_mk (f : bool -> bool) la lb : normal la -> normal lb ->
    wf (let (t, s) := sub_core la lb in shrink_big (flip_if (f s) (from_vec t))) /\
    bval (let (t, s) := sub_core la lb in shrink_big (flip_if (f s) (from_vec t))) =
      (if f (lval la <? lval lb)%N then - Z.abs (Z.of_N (lval la) - Z.of_N (lval lb))
       else Z.abs (Z.of_N (lval la) - Z.of_N (lval lb)))%Z.
  Proof.
    intros Hna Hnb.
    assert (Hoka : limbs_ok la) by apply Hna. assert (Hokb : limbs_ok lb) by apply Hnb.
    pose proof (Hsub la lb Hoka Hokb (Hsafe la lb Hna Hnb)) as (H1 & H2 & H3 & H4).
    destruct (sub_core la lb) as [t s]. cbn [fst snd] in *. subst s.
    destruct (mk_spec (f (lval la <? lval lb)) t H1 H2) as [W V]. split; [exact W|].
    rewrite V, H4.
    destruct (N.ltb_spec (lval la) (lval lb)); destruct (f _); lia.
  Qed.

  (* ---- addition / subtraction ---- *)

  Theorem badd_spec : badd_stmt.
  Proof.
    intros a b Ha Hb.
    pose proof (wf_normal a Ha) as Hna. pose proof (wf_normal b Hb) as Hnb.
    pose proof (wf_limbs_ok a Ha) as Hoka. pose proof (wf_limbs_ok b Hb) as Hokb.
    unfold badd, bval at 2 3.
    destruct (bpos a), (bpos b).
    - destruct (add_mk false _ _ Hoka Hokb) as [W V]. split; [exact W|]. rewrite V. lia.
    - pose proof (sub_mk (fun s => s) _ _ Hna Hnb) as H. cbv beta in H. destruct H as [W V].
      split; [exact W|]. rewrite V.
      destruct (N.ltb_spec (lval (limbs a)) (lval (limbs b))); lia.
    - pose proof (sub_mk (fun s => xorb s true) _ _ Hna Hnb) as H. cbv beta in H. destruct H as [W V].
      split; [exact W|]. rewrite V.
      destruct (N.ltb_spec (lval (limbs a)) (lval (limbs b))); cbn [xorb]; lia.
    - destruct (add_mk true _ _ Hoka Hokb) as [W V]. split; [exact W|]. rewrite V. lia.
  Qed.

  Theorem bsub_spec : bsub_stmt.
  Proof.
    intros a b Ha Hb.
    pose proof (wf_normal a Ha) as Hna. pose proof (wf_normal b Hb) as Hnb.
    pose proof (wf_limbs_ok a Ha) as Hoka. pose proof (wf_limbs_ok b Hb) as Hokb.
    unfold bsub, bval at 2 3.
    destruct (bpos a), (bpos b).
    - pose proof (sub_mk (fun s => s) _ _ Hna Hnb) as H. cbv beta in H. destruct H as [W V].
      split; [exact W|]. rewrite V.
      destruct (N.ltb_spec (lval (limbs a)) (lval (limbs b))); lia.
    - destruct (add_mk false _ _ Hoka Hokb) as [W V]. split; [exact W|]. rewrite V. lia.
    - destruct (add_mk true _ _ Hoka Hokb) as [W V]. split; [exact W|]. rewrite V. lia.
    - pose proof (sub_mk (fun s => xorb s true) _ _ Hna Hnb) as H. cbv beta in H. destruct H as [W V].
      split; [exact W|]. rewrite V.
      destruct (N.ltb_spec (lval (limbs a)) (lval (limbs b))); cbn [xorb]; lia.
  Qed.

  (* ---- multiplication ---- *)

  Theorem bmul_spec : bmul_stmt.
  Proof.
    intros a b Ha Hb.
    pose proof (wf_limbs_ok a Ha) as Hoka. pose proof (wf_limbs_ok b Hb) as Hokb.
    destruct (Hmul _ _ Hoka Hokb) as (Hok & Hv & Hlen & _).
    assert (Hne : mult_core (limbs a) (limbs b) <> []).
    { intros e. rewrite e in Hlen. cbn [length] in Hlen. lia. }
    unfold bmul. destruct (mk_spec0 (xorb (bpos a) (bpos b)) _ Hok Hne) as [W V].
    split; [exact W|]. rewrite V, Hv, N2Z.inj_mul. unfold bval.
    destruct (bpos a), (bpos b); cbn [xorb]; lia.
  Qed.

  (* ---- division / remainder ---- *)

  Theorem bdiv_spec : bdiv_stmt.
  Proof.
    intros a b Ha Hb Hnz.
    pose proof (wf_limbs_ok a Ha) as Hoka. pose proof (wf_limbs_ok b Hb) as Hokb.
    pose proof (wf_limbs_ne a Ha) as Hnea. pose proof (wf_limbs_ne b Hb) as Hneb.
    assert (Hbz : lval (limbs b) <> 0).
    { intros e. apply Hnz. unfold bval. rewrite e. destruct (bpos b); reflexivity. }
    assert (Hbz' : Z.of_N (lval (limbs b)) <> 0%Z) by lia.
    destruct (Hdiv _ _ Hoka Hokb Hnea Hneb Hbz) as (Hok & Hne & Hv).
    unfold bdiv. destruct (mk_spec0 (xorb (bpos a) (bpos b)) _ Hok Hne) as [W V].
    split; [exact W|]. rewrite V, Hv, N2Z.inj_quot. unfold bval.
    destruct (bpos a), (bpos b); cbn [xorb].
    - reflexivity.
    - rewrite Z.quot_opp_r by exact Hbz'. reflexivity.
    - rewrite Z.quot_opp_l by exact Hbz'. reflexivity.
    - rewrite Z.quot_opp_opp by exact Hbz'. reflexivity.
  Qed.

  Theorem brem_spec : brem_stmt.
  Proof.
    intros a b Ha Hb Hnz. unfold brem.
    destruct (bdiv_spec a b Ha Hb Hnz) as [Wd Vd].
    destruct (bmul_spec _ b Wd Hb) as [Wm Vm].
    destruct (bsub_spec a _ Ha Wm) as [Ws Vs].
    split; [exact Ws|]. rewrite Vs, Vm, Vd.
    pose proof (Z.quot_rem' (bval a) (bval b)) as H. lia.
  Qed.

  (* ---- equality / ordering ---- *)

  Theorem beq_spec : beq_stmt.
  Proof.
    intros a b Ha Hb. unfold beq.
    destruct (is_zero a && is_zero b) eqn:Ez.
    - apply andb_true_iff in Ez. destruct Ez as [Za Zb].
      apply (is_zero_spec a Ha) in Za. apply (is_zero_spec b Hb) in Zb.
      split; [intros _; congruence | reflexivity].
    - split.
      + intros H. apply andb_true_iff in H. destruct H as [Hp Hl].
        apply eqb_prop in Hp.
        destruct (list_eq_dec N.eq_dec (limbs a) (limbs b)) as [e|ne]; [|discriminate].
        unfold bval. rewrite Hp, e. reflexivity.
      + intros H. pose proof (wf_unique a b Ha Hb H) as E. subst b.
        rewrite eqb_reflx.
        destruct (list_eq_dec N.eq_dec (limbs a) (limbs a)) as [e|ne]; [reflexivity | congruence].
  Qed.

  Theorem bcmp_spec : bcmp_stmt.
  Proof.
    intros a b Ha Hb. unfold bcmp.
    destruct (beq a b) eqn:E.
    - apply (beq_spec a b Ha Hb) in E. rewrite E. symmetry. apply Z.compare_refl.
    - assert (Hneq : bval a <> bval b).
      { intros H. apply (beq_spec a b Ha Hb) in H. congruence. }
      pose proof (wf_limbs_ok a Ha) as Hoka. pose proof (wf_limbs_ok b Hb) as Hokb.
      pose proof (wf_limbs_ne a Ha) as Hnea. pose proof (wf_limbs_ne b Hb) as Hneb.
      unfold bval in *. symmetry.
      destruct (bpos a), (bpos b).
      + rewrite (Hless _ _ Hoka Hokb Hnea Hneb).
        destruct (N.ltb_spec (lval (limbs a)) (lval (limbs b)));
          [apply Z.compare_lt_iff | apply Z.compare_gt_iff]; lia.
      + apply Z.compare_gt_iff. lia.
      + apply Z.compare_lt_iff. lia.
      + rewrite (Hless _ _ Hokb Hoka Hneb Hnea).
        destruct (N.ltb_spec (lval (limbs b)) (lval (limbs a)));
          [apply Z.compare_lt_iff | apply Z.compare_gt_iff]; lia.
  Qed.

End Ops.

Print Assumptions bnew_spec.
Print Assumptions from_vec_spec.
Print Assumptions is_zero_spec.
Print Assumptions wf_unique.
Print Assumptions bneg_spec.
Print Assumptions badd_spec.
Print Assumptions bsub_spec.
Print Assumptions bmul_spec.
Print Assumptions bdiv_spec.
Print Assumptions brem_spec.
Print Assumptions beq_spec.
Print Assumptions bcmp_spec.
