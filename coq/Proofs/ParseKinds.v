(* The parser only yields command kinds 0..5. *)
From Coq Require Import List NArith Lia Bool.
Import ListNotations.
From HV Require Import Model.Chars Model.Parse Spec.Grammar Proofs.ParseSpec Proofs.ParseAll.
Open Scope N_scope.

Lemma index_from_bound c : forall l i k, index_from c l i = Some k -> k < i + N.of_nat (length l).
Proof.
  induction l as [|x l IH]; intros i k H; cbn [index_from] in H; [discriminate|].
  destruct (x =? c).
  - injection H as <-. cbn [length]. lia.
  - apply IH in H. cbn [length]. lia.
Qed.

Lemma end_kind_bound e k : end_kind e = Some k -> k <= 5.
Proof.
  unfold end_kind. repeat (destruct (_ =? _); [intros H; injection H as <-; lia|]). discriminate.
Qed.

Lemma head_kind_bound h : valid_head h = true -> head_kind h <= 5.
Proof.
  destruct h as [c|s inner e]; cbn [valid_head head_kind].
  - destruct (index_of c SINGLE) as [k|] eqn:E; [|discriminate]. intros _.
    unfold index_of in E. apply index_from_bound in E. cbn in E. lia.
  - destruct (index_of s START) as [k|]; [|discriminate].
    destruct (end_class e) as [k'|]; [|discriminate]. intros _.
    destruct (end_kind e) as [j|] eqn:E; [eapply end_kind_bound; exact E | lia].
Qed.

Lemma abstract_cmds_kinds cs : valid_cmds cs = true -> forall lc u, In u (abstract_cmds cs lc) -> ty u <= 5.
Proof.
  induction cs as [|c cs IH]; intros Hv lc u Hin; cbn [abstract_cmds In] in Hin; [contradiction|].
  cbn [valid_cmds] in Hv. apply andb_prop in Hv as [Hc Hr].
  destruct Hin as [<-|Hin].
  - cbn [abstract_cmd ty]. apply head_kind_bound.
    unfold valid_cmd in Hc. repeat (apply andb_prop in Hc as [Hc ?]). exact Hc.
  - eapply IH; eauto.
Qed.

Theorem parse_kinds : forall text u, In u (parse text) -> ty u <= 5.
Proof.
  intros text u Hin. rewrite parse_decompose_t in Hin. unfold abstract in Hin.
  pose proof (decompose_valid_t text) as Hv. unfold valid in Hv. apply andb_prop in Hv as [_ Hv].
  eapply abstract_cmds_kinds; eauto.
Qed.
