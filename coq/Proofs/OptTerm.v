(* Termination / totality of the optimiser's speculative loop, no-read property, and fuel monotonicity of runs. *)
From Coq Require Import List NArith ZArith Lia Bool.
Import ListNotations.
From HV Require Import Model.Big Model.Rat Model.NumText Model.Chars Model.Parse Model.Exec Model.Opt Proofs.OptSpec.
Open Scope N_scope.

Arguments N.add : simpl never.
Arguments N.mul : simpl never.
Arguments N.sub : simpl never.
Arguments N.leb : simpl never.
Arguments N.ltb : simpl never.
Arguments N.eqb : simpl never.

(* ------------------------------------------------------------------ *)
(* computations that preserve a reflexive-transitive relation on states, whatever the result kind *)

Definition post {A} (r : res A) : state := match r with ROk _ t | RExit _ t | RErr _ t => t end.
Definition pres (R : state -> state -> Prop) {A} (m : M A) : Prop := forall s, R s (post (m s)).

Section Pres.
Variable R : state -> state -> Prop.
Hypothesis Rrefl : forall s, R s s.
Hypothesis Rtrans : forall s t u, R s t -> R t u -> R s u.

Lemma pres_ret {A} (a : A) : pres R (ret a).
Proof. intros s. cbn. apply Rrefl. Qed.

Lemma pres_fail {A} e : pres R (@fail A e).
Proof. intros s. cbn. apply Rrefl. Qed.

Lemma pres_exit {A} k : pres R (@exit_ A k).
Proof. intros s. cbn. apply Rrefl. Qed.

Lemma pres_bind {A B} (m : M A) (f : A -> M B) : pres R m -> (forall a, pres R (f a)) -> pres R (bind m f).
Proof.
  intros Hm Hf s. unfold bind. specialize (Hm s).
  destruct (m s) as [a t|k t|e t]; cbn in *.
  - eapply Rtrans; [exact Hm | apply Hf].
  - exact Hm.
  - exact Hm.
Qed.

Lemma iterM_0 {A} (f : A -> M A) a : iterM 0 f a = ret a.
Proof. reflexivity. Qed.
Lemma iterM_succ {A} n (f : A -> M A) a : iterM (N.succ n) f a = bind (iterM n f a) f.
Proof. unfold iterM. rewrite N.iter_succ. reflexivity. Qed.

Lemma pres_iterM {A} n (f : A -> M A) a : (forall x, pres R (f x)) -> pres R (iterM n f a).
Proof.
  intros Hf. induction n as [|n IH] using N.peano_ind.
  - rewrite iterM_0. apply pres_ret.
  - rewrite iterM_succ. apply pres_bind; assumption.
Qed.

Lemma pres_fold_left {B X} (g : M B -> X -> M B) l m0 :
  (forall m x, pres R m -> pres R (g m x)) -> pres R m0 -> pres R (fold_left g l m0).
Proof.
  intros Hg. revert m0. induction l as [|x l IH]; intros m0 H0; cbn [fold_left].
  - exact H0.
  - apply IH. apply Hg. exact H0.
Qed.

Lemma pres_calc a cnt pop : pres R pop -> pres R (calc a cnt pop).
Proof.
  intros Hp. induction a as [|t l IHl r IHr]; cbn [calc].
  - apply pres_ret.
  - destruct (t =? 0).
    + apply pres_bind; [exact Hp|]. intros v. destruct (ncmp v _) as [[| |]|]; assumption.
    + destruct (t =? 1).
      * apply pres_bind; [exact Hp|]. intros v. destruct (ncmp v _) as [[| |]|]; assumption.
      * apply pres_ret.
Qed.
End Pres.

(* ------------------------------------------------------------------ *)
(* the two relations *)

Definition mono (s t : state) : Prop :=
  (exists d, outb t = d ++ outb s) /\ (exists d, errb t = d ++ errb s).
Definition ext (s t : state) : Prop :=
  points t = points s /\ latest t = latest s /\ mono s t.

Lemma mono_refl s : mono s s.
Proof. split; exists []; reflexivity. Qed.
Lemma mono_trans s t u : mono s t -> mono t u -> mono s u.
Proof.
  intros [[d1 H1] [e1 G1]] [[d2 H2] [e2 G2]]. split.
  - exists (d2 ++ d1). rewrite H2, H1, app_assoc. reflexivity.
  - exists (e2 ++ e1). rewrite G2, G1, app_assoc. reflexivity.
Qed.
Lemma ext_refl s : ext s s.
Proof. repeat split; try reflexivity; exists []; reflexivity. Qed.
Lemma ext_trans s t u : ext s t -> ext t u -> ext s u.
Proof.
  intros (P1 & L1 & M1) (P2 & L2 & M2). split; [congruence|]. split; [congruence|].
  eapply mono_trans; eassumption.
Qed.
Lemma ext_mono s t : ext s t -> mono s t.
Proof. intros (_ & _ & H). exact H. Qed.
Lemma pres_ext_mono {A} (m : M A) : pres ext m -> pres mono m.
Proof. intros H s. apply ext_mono, H. Qed.

Local Hint Resolve ext_refl ext_trans mono_refl mono_trans : core.

Definition e_ret {A} (a : A) : pres ext (ret a) := pres_ret ext ext_refl a.
Definition e_fail {A} e : pres ext (@fail A e) := pres_fail ext ext_refl e.
Definition e_exit {A} k : pres ext (@exit_ A k) := pres_exit ext ext_refl k.
Definition e_bind {A B} (m : M A) (f : A -> M B) := pres_bind ext ext_trans m f.
Definition e_iterM {A} n (f : A -> M A) a := pres_iterM ext ext_refl ext_trans n f a.
Definition e_calc a cnt pop := pres_calc ext ext_refl ext_trans a cnt pop.

Lemma ext_same s t :
  points t = points s -> latest t = latest s -> outb t = outb s -> errb t = errb s -> ext s t.
Proof.
  intros P L O E. repeat split; try assumption; exists []; cbn; assumption.
Qed.

Lemma ext_set_stack s i l : ext s (set_stack s i l).
Proof. apply ext_same; reflexivity. Qed.

Lemma pres_push_stack i x : pres ext (push_stack i x).
Proof.
  intros s. unfold push_stack. destruct (in_range s i); [|apply ext_refl].
  destruct (get_stack s i); [destruct (is_nan x)|]; cbn [post]; auto using ext_set_stack.
Qed.

Lemma pres_pop_stack i : pres ext (pop_stack i).
Proof.
  intros s. unfold pop_stack. destruct (in_range s i); [|apply ext_refl].
  destruct (get_stack s i); cbn [post]; auto using ext_set_stack.
Qed.

Lemma pres_write_out b txt : pres ext (write_out b txt).
Proof.
  intros s. unfold write_out. destruct b; cbn [post]; repeat split; cbn;
    try (exists []; reflexivity); exists (rev txt); reflexivity.
Qed.

Lemma pres_push_wrap i x : pres ext (push_wrap i x).
Proof.
  unfold push_wrap. destruct ((i =? 1) || (i =? 2)).
  - destruct (is_pos x).
    + destruct (num_to_unicode x); [apply pres_write_out | apply e_fail].
    + apply pres_write_out.
  - apply pres_push_stack.
Qed.

Lemma pres_read_line : pres ext read_line.
Proof.
  intros s. unfold read_line. destruct (inp s) as [|[l|] r]; cbn [post].
  - apply ext_refl.
  - apply ext_same; reflexivity.
  - apply ext_same; reflexivity.
Qed.

Lemma pres_push_all i l : pres ext (push_all i l).
Proof.
  induction l as [|c r IH]; cbn [push_all].
  - apply e_ret.
  - apply e_bind; [apply pres_push_stack | intros _; exact IH].
Qed.

Lemma pres_pop_wrap i : pres ext (pop_wrap i).
Proof.
  unfold pop_wrap. destruct (i =? 0).
  - intros s. destruct (get_stack s 0).
    + revert s. change (pres ext (bind read_line (fun l => bind (push_all 0 (rev l)) (fun _ => pop_stack 0)))).
      apply e_bind; [apply pres_read_line|]. intros l.
      apply e_bind; [apply pres_push_all | intros _; apply pres_pop_stack].
    + apply pres_pop_stack.
  - destruct (i =? 1); [apply e_exit|].
    destruct (i =? 2); [apply e_exit|]. apply pres_pop_stack.
Qed.

Lemma pres_guard cs : pres ext (guard cs).
Proof. unfold guard. destruct (cs <=? 2); [apply e_exit | apply e_ret]. Qed.

Lemma pres_gpop cs : pres ext (gpop cs).
Proof. unfold gpop. apply e_bind; [apply pres_guard | intros _; apply pres_pop_wrap]. Qed.

Lemma pres_get_cur : pres ext get_cur.
Proof. intros s. cbn. apply ext_refl. Qed.
Lemma pres_set_cur c : pres ext (set_cur c).
Proof. intros s. cbn. apply ext_same; reflexivity. Qed.

Lemma ty_case {T} (P : T -> Prop) (n : N) a b c d e f :
  P a -> P b -> P c -> P d -> P e -> P f ->
  P (match n with 0 => a | 1 => b | 2 => c | 3 => d | 4 => e | _ => f end).
Proof.
  intros. destruct n as [|p]; auto.
  destruct p as [p|p|]; auto; destruct p as [p|p|]; auto; destruct p as [p|p|]; auto.
Qed.

Ltac pres_tac :=
  repeat first
    [ apply e_ret | apply pres_push_wrap | apply pres_pop_wrap | apply pres_gpop
    | apply pres_set_cur | apply pres_get_cur
    | apply e_bind; [ | intro ]
    | apply e_iterM; intro ].

Lemma pres_fold_push cs (h : num -> num) (g : num -> num -> num) (v : list num) (m0 : M num) :
  pres ext m0 ->
  pres ext (fold_left (fun (m : M num) x => bind m (fun n => let x' := h x in
                         bind (push_wrap cs x') (fun _ => ret (g n x')))) v m0).
Proof.
  intros H0. apply pres_fold_left; [|exact H0]. intros m x Hm. cbv zeta.
  apply e_bind; [exact Hm|]. intro. pres_tac.
Qed.

Lemma pres_body c : pres ext (body c).
Proof.
  unfold body. apply e_bind; [apply pres_get_cur|]. intros cs.
  apply (ty_case (pres ext)); pres_tac; try (apply pres_fold_push; apply e_ret).
Qed.

Lemma pres_obody fx c : pres ext (obody fx c).
Proof.
  unfold obody. apply e_bind; [apply pres_get_cur|]. intros cs.
  apply (ty_case (pres ext)); pres_tac; try (apply pres_fold_push; apply e_ret).
Qed.

(* ------------------------------------------------------------------ *)
(* step facts for the speculative step *)

Lemma bind_ok {A B} (m : M A) (f : A -> M B) s b s' :
  bind m f s = ROk b s' -> exists a s1, m s = ROk a s1 /\ f a s1 = ROk b s'.
Proof.
  unfold bind. destruct (m s) as [a t|k t|e t]; intros H; try discriminate.
  exists a, t. split; [reflexivity | exact H].
Qed.

Lemma pres_ok {R A} (m : M A) s a t : pres R m -> m s = ROk a t -> R s t.
Proof. intros H E. specialize (H s). rewrite E in H. exact H. Qed.

Lemma targets_ok_same n s t : points t = points s -> latest t = latest s -> targets_ok n s -> targets_ok n t.
Proof. intros P L [H1 H2]. split; [rewrite P | rewrite L]; assumption. Qed.

Lemma alist_get_set {V} (l : list (N * V)) k v k' w :
  alist_get (alist_set l k v) k' = Some w -> (k' = k /\ w = v) \/ alist_get l k' = Some w.
Proof.
  induction l as [|[k0 v0] r IH]; cbn [alist_set alist_get].
  - destruct (k =? k') eqn:E; [|intros H; discriminate H]. apply N.eqb_eq in E. intros H. injection H as H. left. split; congruence.
  - destruct (k0 =? k) eqn:E0; cbn [alist_get].
    + apply N.eqb_eq in E0. subst k0. destruct (k =? k') eqn:E.
      * apply N.eqb_eq in E. intros H. injection H as H. left. split; congruence.
      * intros H. right. exact H.
    + destruct (k0 =? k') eqn:E.
      * intros H. right. exact H.
      * exact IH.
Qed.

Ltac disc := let X := fresh in intros X; discriminate X.

Lemma ostep_facts fx c pc s pc' jmp s' len :
  oexecute_one fx c pc s = ROk (pc', jmp) s' -> targets_ok len s -> pc < len ->
  targets_ok len s' /\ (jmp = false -> pc' = pc + 1) /\ (jmp = true -> pc' < len).
Proof.
  intros H T Hpc. unfold oexecute_one in H.
  apply bind_ok in H. destruct H as (u & s1 & Hb & H).
  apply (pres_ok _ _ _ _ (pres_obody fx c)) in Hb. destruct Hb as (P1 & L1 & _).
  apply bind_ok in H. destruct H as (cs & s1' & Hc & H).
  unfold get_cur in Hc. injection Hc as Hcs Hs1. subst s1'.
  apply bind_ok in H. destruct H as (t & s2 & Hk & H).
  apply (pres_ok _ _ _ _ (e_calc _ _ _ (pres_gpop cs))) in Hk. destruct Hk as (P2 & L2 & _).
  assert (T2 : targets_ok len s2).
  { apply (targets_ok_same len s); [congruence | congruence | exact T]. }
  clear P1 L1 P2 L2 T s s1 Hcs.
  destruct (t =? 0).
  { injection H as <- <- <-. split; [exact T2|]. split; [reflexivity | disc]. }
  destruct (t =? 13).
  { unfold bind, get_latest in H. destruct (latest s2) as [loc|] eqn:EL.
    - injection H as <- <- <-. split; [exact T2|]. split; [disc|]. intros _. apply T2. exact EL.
    - injection H as <- <- <-. split; [exact T2|]. split; [reflexivity | disc]. }
  cbv zeta in H. unfold bind, get_point in H.
  destruct (alist_get (points s2) (xac c * 16 + t)) as [v|] eqn:EP.
  - destruct (pc =? v).
    + injection H as <- <- <-. split; [exact T2|]. split; [reflexivity | disc].
    + unfold set_latest, ret in H. injection H as <- <- <-. split.
      * destruct T2 as [Ta Tb]. split; cbn; [exact Ta|]. intros w Hw. injection Hw as <-. exact Hpc.
      * split; [disc|]. intros _. destruct T2 as [Ta _]. eapply Ta. exact EP.
  - unfold set_point, ret in H. injection H as <- <- <-. split.
    + destruct T2 as [Ta Tb]. split; cbn; [|exact Tb]. intros id w Hw.
      apply alist_get_set in Hw. destruct Hw as [[_ ->]|Hw]; [exact Hpc | eapply Ta; exact Hw].
    + split; [reflexivity | disc].
Qed.

(* ------------------------------------------------------------------ *)
(* (A1) termination of the speculative loop *)

Theorem oloop_total : oloop_total_stmt.
Proof.
  intros fx code s pc j fuel len. revert s pc j.
  induction fuel as [|f IH]; intros s pc j T Hpc Hj Hm.
  - exfalso. exact (Nat.nlt_0_r _ Hm).
  - cbn [opt_loop]. destruct (len <=? pc) eqn:E1; [exact T|].
    apply N.leb_gt in E1.
    destruct (100 <=? j) eqn:E2; [exact I|]. apply N.leb_gt in E2.
    destruct (nth_error code (N.to_nat pc)) as [c|] eqn:En.
    2:{ exfalso. apply nth_error_None in En. subst len. lia. }
    destruct (oexecute_one fx c pc s) as [[pc' jm] s'|k s'|e s'] eqn:Es; [|exact I|exact I].
    destruct (ostep_facts _ _ _ _ _ _ _ len Es T E1) as (T' & Hf & Ht).
    destruct jm.
    + specialize (Ht eq_refl). apply IH; [exact T' | lia | lia |].
      assert (Ej : 100 - j = (100 - (j + 1)) + 1) by lia.
      rewrite Ej, N.mul_add_distr_r in Hm.
      generalize dependent ((100 - (j + 1)) * (len + 1)). intros X HX. lia.
    + specialize (Hf eq_refl). subst pc'. apply IH; [exact T' | lia | lia |].
      generalize dependent ((100 - j) * (len + 1)). intros X HX. lia.
Qed.
Print Assumptions oloop_total.

(* ------------------------------------------------------------------ *)
(* (A2) the pre-execution loop never gets stuck *)

Lemma targets_ok_weaken n m s : n <= m -> targets_ok n s -> targets_ok m s.
Proof.
  intros Hnm [Ha Hb]. split.
  - intros id v Hv. specialize (Ha id v Hv). lia.
  - intros v Hv. specialize (Hb v Hv). lia.
Qed.

Lemma len_snoc {A} (log : list A) c : N.of_nat (length (log ++ [c])) = N.of_nat (length log) + 1.
Proof. rewrite app_length. cbn [length]. lia. Qed.

Theorem preexec_total : preexec_total_stmt.
Proof.
  intros fx s0 log todo. revert s0 log.
  induction todo as [|c r IH]; intros s0 log T; cbn [preexec].
  - intros X; discriminate X.
  - pose proof (oloop_total fx (log ++ [c]) s0 (N.of_nat (length log)) 0 (opt_fuel (log ++ [c]))) as H.
    cbv zeta in H.
    assert (E := len_snoc log c).
    assert (H1 : targets_ok (N.of_nat (length (log ++ [c]))) s0).
    { apply (targets_ok_weaken (N.of_nat (length log))); [lia | exact T]. }
    assert (H2 : N.of_nat (length log) <= N.of_nat (length (log ++ [c]))) by lia.
    assert (H3 : 0 <= 100) by lia.
    assert (H4 : (N.to_nat ((100 - 0) * (N.of_nat (length (log ++ [c])) + 1)
                   + (N.of_nat (length (log ++ [c])) - N.of_nat (length log))) < opt_fuel (log ++ [c]))%nat).
    { unfold opt_fuel. rewrite E, app_length. cbn [length]. rewrite N.sub_0_r. lia. }
    specialize (H H1 H2 H3 H4). clear H1 H2 H3 H4.
    rewrite <- E.
    destruct (opt_loop (opt_fuel (log ++ [c])) fx (log ++ [c]) s0 (N.of_nat (length log))
                (N.of_nat (length (log ++ [c]))) 0) as [s'|s'|e s'| |].
    + apply IH. exact H.
    + intros X; discriminate X.
    + intros X; discriminate X.
    + contradiction.
    + contradiction.
Qed.
Print Assumptions preexec_total.

(* (A3) optimize never gets stuck *)
Lemma targets_ok_state0 n k input : targets_ok n (state0 k input).
Proof. split; cbn; intros; discriminate. Qed.

Theorem optimize_total : optimize_total_stmt.
Proof.
  intros fx code level input. unfold optimize_prog.
  destruct (level =? 0); [intros X; discriminate X|].
  destruct (renum_map fx code) as [m mx].
  destruct (level =? 1); [intros X; discriminate X|].
  apply preexec_total. apply targets_ok_state0.
Qed.
Print Assumptions optimize_total.

(* ------------------------------------------------------------------ *)
(* (B) optimising never reads the input *)
Section NoRead.
Hypothesis Hnoread : ostep_no_read_stmt.

Lemma opt_loop_inp fuel fx code s pc len j :
  match opt_loop fuel fx code s pc len j with
  | ODone t | OBail t | OErr _ t => inp t = inp s
  | _ => True
  end.
Proof.
  revert s pc j. induction fuel as [|f IH]; intros s pc j; cbn [opt_loop]; [exact I|].
  destruct (len <=? pc); [reflexivity|].
  destruct (100 <=? j); [reflexivity|].
  destruct (nth_error code (N.to_nat pc)) as [c|]; [|exact I].
  pose proof (Hnoread fx c pc s) as Hn.
  destruct (oexecute_one fx c pc s) as [[pc' jm] s'|k s'|e s']; cbn in Hn; try exact Hn.
  specialize (IH s' pc' (if jm then j + 1 else j)).
  destruct (opt_loop f fx code s' pc' len (if jm then j + 1 else j)); try exact I; congruence.
Qed.

Lemma preexec_inp fx todo : forall s log r, preexec fx s log todo = OptOk r -> inp (ostate r) = inp s.
Proof.
  induction todo as [|c rest IH]; intros s log r H; cbn [preexec] in H.
  - injection H as <-. reflexivity.
  - pose proof (opt_loop_inp (opt_fuel (log ++ [c])) fx (log ++ [c]) s (N.of_nat (length log))
                  (N.of_nat (length log) + 1) 0) as Hl.
    destruct (opt_loop (opt_fuel (log ++ [c])) fx (log ++ [c]) s (N.of_nat (length log))
                  (N.of_nat (length log) + 1) 0) as [s'|s'|e s'| |]; try discriminate H.
    + apply IH in H. congruence.
    + injection H as <-. cbn [ostate]. destruct (fx6 fx); reflexivity.
Qed.

Theorem optimize_no_read : optimize_no_read_stmt.
Proof.
  intros fx code level input r. unfold optimize_prog.
  destruct (level =? 0).
  { intros H. injection H as <-. reflexivity. }
  destruct (renum_map fx code) as [m mx].
  destruct (level =? 1).
  { intros H. injection H as <-. reflexivity. }
  intros H. apply preexec_inp in H. exact H.
Qed.
End NoRead.
Print Assumptions optimize_no_read.
Check optimize_no_read.

(* ------------------------------------------------------------------ *)
(* (A4) more fuel: same finished run, longer output of an interrupted one *)

Lemma mono_same s t : outb t = outb s -> errb t = errb s -> mono s t.
Proof. intros O E. split; exists []; cbn; assumption. Qed.

Lemma pres_execute_one c pc : pres mono (execute_one c pc).
Proof.
  unfold execute_one.
  apply (pres_bind mono mono_trans); [apply pres_ext_mono, pres_body|]. intros _.
  apply (pres_bind mono mono_trans); [apply pres_ext_mono, pres_get_cur|]. intros cs.
  apply (pres_bind mono mono_trans); [apply pres_ext_mono, e_calc, pres_pop_wrap|]. intros t.
  destruct (t =? 0); [apply (pres_ret mono mono_refl)|].
  destruct (t =? 13).
  { intros s. unfold bind, get_latest. destruct (latest s); cbn; apply mono_refl. }
  cbv zeta. intros s. unfold bind, get_point.
  destruct (alist_get (points s) (xac c * 16 + t)) as [v|].
  - destruct (pc =? v); cbn; apply mono_same; reflexivity.
  - cbn. apply mono_same; reflexivity.
Qed.

Lemma exec_loop_more f : forall code s pc len x r d,
  exec_loop f code s pc len = (x, r) -> (forall t p, x <> FFuel t p) ->
  exec_loop (f + d) code s pc len = (x, (r + d)%nat).
Proof.
  induction f as [|f IH]; intros code s pc len x r d H Hx.
  - cbn in H. injection H as <- <-. exfalso. eapply Hx. reflexivity.
  - change (S f + d)%nat with (S (f + d)). cbn [exec_loop] in *.
    destruct (len <=? pc).
    { injection H as <- <-. reflexivity. }
    destruct (nth_error code (N.to_nat pc)) as [c|].
    2:{ injection H as <- <-. reflexivity. }
    destruct (execute_one c pc s) as [pc' s'|k s'|e s'].
    + apply IH; assumption.
    + injection H as <- <-. reflexivity.
    + injection H as <- <-. reflexivity.
Qed.

Lemma exec_loop_cont f : forall code s pc len t p r d,
  exec_loop f code s pc len = (FFuel t p, r) ->
  exec_loop (f + d) code s pc len = exec_loop d code t p len.
Proof.
  induction f as [|f IH]; intros code s pc len t p r d H.
  - cbn in H. injection H as <- <- <-. reflexivity.
  - change (S f + d)%nat with (S (f + d)). cbn [exec_loop] in *.
    destruct (len <=? pc); [discriminate H|].
    destruct (nth_error code (N.to_nat pc)) as [c|]; [|discriminate H].
    destruct (execute_one c pc s) as [pc' s'|k s'|e s']; try discriminate H.
    eapply IH; exact H.
Qed.

Lemma exec_loop_mono_out f : forall code s pc len, mono s (final_state (fst (exec_loop f code s pc len))).
Proof.
  induction f as [|f IH]; intros code s pc len; cbn [exec_loop].
  - cbn. apply mono_refl.
  - destruct (len <=? pc); [cbn; apply mono_refl|].
    destruct (nth_error code (N.to_nat pc)) as [c|]; [|cbn; apply mono_refl].
    pose proof (pres_execute_one c pc s) as Hs.
    destruct (execute_one c pc s) as [pc' s'|k s'|e s']; cbn in Hs; cbn [fst final_state]; try exact Hs.
    eapply mono_trans; [exact Hs | apply IH].
Qed.

Lemma run_inc_mono_out todo : forall f done s, mono s (final_state (run_inc f done todo s)).
Proof.
  induction todo as [|c r IH]; intros f done s; cbn [run_inc].
  - cbn. apply mono_refl.
  - pose proof (exec_loop_mono_out f (done ++ [c]) s (N.of_nat (length done)) (N.of_nat (length done) + 1)) as H.
    destruct (exec_loop f (done ++ [c]) s (N.of_nat (length done)) (N.of_nat (length done) + 1)) as [x f1].
    cbn [fst] in H. destruct x; try exact H.
    cbn [final_state] in H. eapply mono_trans; [exact H | apply IH].
Qed.

Lemma mono_prefix s t : mono s t ->
  out_prefix (rev (outb s)) (rev (outb t)) /\ out_prefix (rev (errb s)) (rev (errb t)).
Proof.
  intros [[d Hd] [e He]]. split.
  - exists (rev d). rewrite Hd, rev_app_distr. reflexivity.
  - exists (rev e). rewrite He, rev_app_distr. reflexivity.
Qed.

Theorem run_mono : run_mono_stmt.
Proof.
  intros f f' done todo. revert f f' done.
  induction todo as [|c r IH]; intros f f' done s Hff.
  - cbn. reflexivity.
  - assert (Ef : f' = (f + (f' - f))%nat) by lia.
    set (d := (f' - f)%nat) in *. clearbody d. subst f'. clear Hff.
    cbn [run_inc].
    destruct (exec_loop f (done ++ [c]) s (N.of_nat (length done)) (N.of_nat (length done) + 1))
      as [x f1] eqn:E.
    destruct x as [s'|k s'|e s'|t p|s'].
    + rewrite (exec_loop_more _ _ _ _ _ _ _ d E) by (intros; discriminate).
      apply IH. lia.
    + rewrite (exec_loop_more _ _ _ _ _ _ _ d E) by (intros; discriminate). reflexivity.
    + rewrite (exec_loop_more _ _ _ _ _ _ _ d E) by (intros; discriminate). reflexivity.
    + rewrite (exec_loop_cont _ _ _ _ _ _ _ _ d E).
      apply mono_prefix.
      pose proof (exec_loop_mono_out d (done ++ [c]) t p (N.of_nat (length done) + 1)) as H.
      destruct (exec_loop d (done ++ [c]) t p (N.of_nat (length done) + 1)) as [y f2].
      cbn [fst] in H. destruct y; try exact H.
      cbn [final_state] in H. eapply mono_trans; [exact H | apply run_inc_mono_out].
    + rewrite (exec_loop_more _ _ _ _ _ _ _ d E) by (intros; discriminate). reflexivity.
Qed.
Print Assumptions run_mono.
