(* The interpreter's number printing (limb-level radix conversion) agrees with the decimal printer of the
   language definition: big_display = dec_Z on well-formed bignums, num_display = value_text o vof. *)
From Coq Require Import List NArith ZArith QArith Qreduction Lia Bool. Import ListNotations. From HV Require Import Model.Big Model.Rat Model.NumText Spec.Lang Proofs.BigSpec Proofs.RatSpec Proofs.BigAll Proofs.RatAll Proofs.TextAll Proofs.ExecSpec.
From HV Require Proofs.RatOps.

Arguments N.add : simpl never.
Arguments N.mul : simpl never.
Arguments N.sub : simpl never.
Arguments N.div : simpl never.
Arguments N.modulo : simpl never.
Arguments N.pow : simpl never.
Arguments N.leb : simpl never.
Arguments N.ltb : simpl never.
Arguments N.eqb : simpl never.
Arguments N.log2 : simpl never.

Open Scope N_scope.

(* ---------- dec_digits: accumulator and fuel ---------- *)
Lemma dd_acc : forall f n acc, dec_digits f n acc = dec_digits f n [] ++ acc.
Proof.
  induction f as [|f IH]; intros n acc; cbn [dec_digits].
  - reflexivity.
  - destruct (n <? 10); [reflexivity|].
    rewrite (IH (n / 10) (_ :: acc)), (IH (n / 10) [_]), <- app_assoc. reflexivity.
Qed.

Lemma dd_fuel : forall f f' n acc, 0 < n -> n < 2 ^ N.of_nat f -> n < 2 ^ N.of_nat f' ->
  dec_digits f n acc = dec_digits f' n acc.
Proof.
  induction f as [|f IH]; intros f' n acc P H H'.
  - cbn in H. change (2 ^ 0) with 1 in H. lia.
  - destruct f' as [|f'].
    + cbn in H'. change (2 ^ 0) with 1 in H'. lia.
    + cbn [dec_digits]. destruct (N.ltb_spec n 10) as [L|L]; [reflexivity|].
      rewrite Nat2N.inj_succ, N.pow_succ_r' in H, H'.
      apply IH.
      * apply N.div_str_pos. lia.
      * apply N.div_lt_upper_bound; lia.
      * apply N.div_lt_upper_bound; lia.
Qed.

Lemma log2_fuel n : n < 2 ^ N.of_nat (S (N.to_nat (N.log2 n))).
Proof.
  rewrite Nat2N.inj_succ, N2Nat.id.
  destruct (N.eq_dec n 0) as [->|NZ].
  - change (N.log2 0) with 0. change (2 ^ N.succ 0) with 2. lia.
  - apply N.log2_spec. lia.
Qed.

Lemma dec_N_small d : d < 10 -> dec_N d = [48 + d].
Proof.
  intros L. unfold dec_N. cbn [dec_digits].
  destruct (N.ltb_spec d 10); [reflexivity|lia].
Qed.

Lemma dec_N_step v d : 0 < v -> d < 10 -> dec_N (v * 10 + d) = dec_N v ++ [48 + d].
Proof.
  intros P L. unfold dec_N at 1. cbn [dec_digits].
  destruct (N.ltb_spec (v * 10 + d) 10) as [C|_]; [lia|].
  assert (Ed : (v * 10 + d) / 10 = v).
  { symmetry. apply (N.div_unique (v * 10 + d) 10 v d); lia. }
  assert (Em : (v * 10 + d) mod 10 = d).
  { symmetry. apply (N.mod_unique (v * 10 + d) 10 v d); lia. }
  rewrite Ed, Em, dd_acc. f_equal. unfold dec_N.
  apply dd_fuel; [exact P| |apply log2_fuel].
  rewrite N2Nat.id.
  assert (Q : 0 < v * 10 + d) by lia.
  pose proof (N.log2_spec _ Q) as [_ U]. rewrite N.pow_succ_r' in U. lia.
Qed.

(* ---------- digits_val ---------- *)
Lemma digits_val_snoc b : forall ds c acc,
  digits_val b (ds ++ [c]) acc = digits_val b ds acc * b + match digit_val c with Some d => d | None => 0 end.
Proof.
  induction ds as [|x r IH]; intros c acc; cbn [digits_val app].
  - reflexivity.
  - apply IH.
Qed.

Lemma digit_ok10 c : digit_ok 10 c -> exists d, d < 10 /\ c = 48 + d /\ digit_val c = Some d.
Proof.
  intros (d & L & ->). exists d. unfold digit_char, digit_val.
  destruct (N.ltb_spec d 10) as [_|C]; [|lia].
  split; [exact L|]. split; [reflexivity|].
  destruct (N.leb_spec 48 (48 + d)) as [_|C]; [|lia].
  destruct (N.leb_spec (48 + d) 57) as [_|C]; [|lia].
  cbn [andb]. f_equal. lia.
Qed.

(* ---------- uniqueness of canonical decimal strings ---------- *)
Lemma canon_dec : forall ds, Forall (digit_ok 10) ds -> ds <> [] -> (hd 0 ds = 48 -> ds = [48]) ->
  ds = dec_N (digits_val 10 ds 0).
Proof.
  induction ds as [|c ds' IH] using rev_ind; intros F NE H.
  - congruence.
  - apply Forall_app in F as [F' Fc]. inversion Fc as [|c0 l0 Okc _]; subst.
    destruct (digit_ok10 c Okc) as (d & L & -> & Dv).
    rewrite digits_val_snoc, Dv.
    destruct ds' as [|x r].
    + cbn [digits_val app]. change (0 * 10 + d) with (0 + d). rewrite N.add_0_l.
      rewrite dec_N_small; auto.
    + assert (Hx : x <> 48).
      { intros ->. cbn [hd app] in H. specialize (H eq_refl).
        inversion H as [E]. destruct r; discriminate. }
      assert (I : x :: r = dec_N (digits_val 10 (x :: r) 0)).
      { apply IH; [exact F'|discriminate|]. cbn [hd]. intros E. contradiction. }
      set (v := digits_val 10 (x :: r) 0) in *.
      assert (P : 0 < v).
      { destruct (N.eq_dec v 0) as [Z|Z]; [|lia].
        rewrite Z in I. rewrite (dec_N_small 0) in I by lia. inversion I. lia. }
      rewrite dec_N_step; auto. rewrite <- I. reflexivity.
Qed.

(* ---------- main theorem 1 ---------- *)
Theorem big_display_dec : forall a, wf a -> big_display a = dec_Z (bval a).
Proof.
  intros a W.
  assert (R10 : 2 <= 10 <= 36) by lia.
  destruct (tsb_t a 10 W R10) as (ds & E & NE & F & H & V).
  unfold big_display. rewrite E. unfold dec_Z.
  rewrite <- V, <- (canon_dec ds F NE H).
  pose proof (RatOps.bpos_iff is_zero_t a W) as Bp.
  destruct (bpos a).
  - destruct (Z.ltb_spec (bval a) 0) as [C|_]; [|reflexivity].
    assert (0 <= bval a)%Z by (apply Bp; reflexivity). lia.
  - destruct (Z.ltb_spec (bval a) 0) as [_|C]; [reflexivity|].
    apply Bp in C. discriminate.
Qed.

(* ---------- Qred on a fraction in lowest terms ---------- *)
Lemma Qred_id n d : Z.gcd n (Zpos d) = 1%Z -> Qred (n # d) = n # d.
Proof.
  intros G. unfold Qred.
  pose proof (Z.ggcd_gcd n (Zpos d)) as Hg.
  pose proof (Z.ggcd_correct_divisors n (Zpos d)) as Hd.
  destruct (Z.ggcd n (Zpos d)) as [g [aa bb]].
  cbn [fst snd] in *. rewrite G in Hg. subst g.
  destruct Hd as [A Bq]. rewrite Z.mul_1_l in A, Bq. subst aa bb.
  reflexivity.
Qed.

(* ---------- main theorem 2 ---------- *)
Theorem vof_text : vof_text_stmt.
Proof.
  intros a W. rewrite (num_display_t a W).
  pose proof W as W'. apply (RatOps.wfn_iff is_zero_t) in W' as (Wu & Wd & P & G).
  unfold vof, nval.
  destruct (is_nan a) eqn:En.
  - reflexivity.
  - assert (NZ : bval (down a) <> 0%Z).
    { intros Z. apply (RatOps.is_nan_iff is_zero_t a Wd) in Z. congruence. }
    assert (Pd : (0 < bval (down a))%Z) by lia.
    assert (Ep : Zpos (Z.to_pos (bval (down a))) = bval (down a)) by (apply Z2Pos.id; exact Pd).
    assert (Q1 : Qred (bval (up a) # Z.to_pos (bval (down a))) = bval (up a) # Z.to_pos (bval (down a))).
    { apply Qred_id. rewrite Ep. exact G. }
    cbn [value_text]. rewrite !Q1. cbn [Qnum Qden]. rewrite Ep.
    rewrite <- (big_display_dec _ Wu), <- (big_display_dec _ Wd).
    reflexivity.
Qed.

Print Assumptions big_display_dec.
Print Assumptions vof_text.
