(* div_core: the bitwise quotient search computes lval a / lval b, and the u32 update
   v[i] += 1 << j never overflows. *)
From Coq Require Import List NArith ZArith Lia Bool.
Import ListNotations.
From HV Require Import Model.Big Proofs.BigBase Proofs.BigSpec.
Open Scope N_scope.

(* ---- generic limb-vector facts ---- *)
Lemma B_pow2 : B = 2 ^ 32. Proof. reflexivity. Qed.

Lemma lval_app l1 l2 : lval (l1 ++ l2) = lval l1 + B ^ N.of_nat (length l1) * lval l2.
Proof.
  induction l1 as [|x l1 IH]; cbn [app lval length].
  - change (N.of_nat 0) with 0. rewrite N.pow_0_r. lia.
  - rewrite IH, Nat2N.inj_succ, N.pow_succ_r'. ring.
Qed.

Lemma lval_repeat0 n : lval (repeat 0 n) = 0.
Proof. induction n as [|n IH]; cbn [repeat lval]; [reflexivity | rewrite IH; lia]. Qed.

Lemma limbs_ok_repeat0 n : limbs_ok (repeat 0 n).
Proof. unfold limbs_ok. induction n; cbn [repeat]; constructor; auto using B_pos. Qed.

Lemma upd_app l1 x l2 f i : i = length l1 -> upd (l1 ++ x :: l2) i f = l1 ++ f x :: l2.
Proof.
  intros ->. unfold upd. induction l1 as [|y l1 IH]; cbn [length firstn skipn app].
  - reflexivity.
  - f_equal. exact IH.
Qed.

(* the shape of every intermediate vector: i zero limbs, the limb being searched, the finished limbs *)
Definition zx (i : nat) (x : N) (hi : list N) : list N := repeat 0 i ++ x :: hi.

Lemma lval_zx i x hi : lval (zx i x hi) = B ^ N.of_nat i * (x + B * lval hi).
Proof. unfold zx. rewrite lval_app, lval_repeat0, repeat_length. cbn [lval]. lia. Qed.

Lemma limbs_ok_zx i x hi : x < B -> limbs_ok hi -> limbs_ok (zx i x hi).
Proof.
  intros Hx Hhi. apply Forall_app; split; [apply limbs_ok_repeat0 | constructor; assumption].
Qed.

Lemma upd_zx i x hi f : upd (zx i x hi) i f = zx i (f x) hi.
Proof. unfold zx. apply upd_app. symmetry; apply repeat_length. Qed.

Lemma nth_zx i x hi : nth i (zx i x hi) 0 = x.
Proof. unfold zx. rewrite app_nth2; rewrite repeat_length; [|lia]. rewrite Nat.sub_diag. reflexivity. Qed.

Lemma length_zx i x hi : length (zx i x hi) = (i + S (length hi))%nat.
Proof. unfold zx. rewrite app_length, repeat_length. reflexivity. Qed.

Lemma zx_next i x hi : zx i x hi = repeat 0 i ++ (x :: hi).
Proof. reflexivity. Qed.

Lemma repeat_S_zx i hi : repeat 0 (S i) ++ hi = zx i 0 hi.
Proof.
  unfold zx. change (repeat 0 (S i)) with (0 :: repeat 0 i). rewrite repeat_cons, <- app_assoc. reflexivity.
Qed.

(* weight of bit m of limb i *)
Definition w (i m : nat) : N := B ^ N.of_nat i * 2 ^ N.of_nat m.

Lemma w_S i m : w i (S m) = 2 * w i m.
Proof. unfold w. rewrite Nat2N.inj_succ, N.pow_succ_r'. ring. Qed.

Lemma w_top i : w (S i) 0 = w i 32.
Proof.
  unfold w. rewrite Nat2N.inj_succ, N.pow_succ_r'. change (N.of_nat 0) with 0. rewrite N.pow_0_r.
  replace (2 ^ N.of_nat 32) with B by reflexivity. ring.
Qed.

Lemma w_00 : w 0 0 = 1.
Proof. reflexivity. Qed.

Lemma lval_zx_add i x hi m : lval (zx i (x + 2 ^ N.of_nat m) hi) = lval (zx i x hi) + w i m.
Proof. rewrite !lval_zx. unfold w. ring. Qed.

Lemma pow2_pos m : 0 < 2 ^ m.
Proof. apply N.neq_0_lt_0, N.pow_nonzero. discriminate. Qed.

(* bit m of a limb whose bits <= m are clear can be set without overflow *)
Lemma pow2_room m x : (m < 32)%nat -> x < B -> (exists c, x = c * 2 ^ N.of_nat (S m)) ->
  x + 2 ^ N.of_nat m < B.
Proof.
  intros Hm Hx [c Hc].
  assert (HB : B = 2 ^ N.of_nat (32 - S m) * 2 ^ N.of_nat (S m)).
  { rewrite <- N.pow_add_r. replace (N.of_nat (32 - S m) + N.of_nat (S m)) with 32 by lia. reflexivity. }
  rewrite Nat2N.inj_succ, N.pow_succ_r' in Hc, HB.
  pose proof (pow2_pos (N.of_nat m)) as HP.
  set (P := 2 ^ N.of_nat m) in *. set (d := 2 ^ N.of_nat (32 - S m)) in *.
  assert (Hcd : c < d) by nia.
  assert (Hle : (c + 1) * (2 * P) <= d * (2 * P)) by (apply N.mul_le_mono_r; lia).
  nia.
Qed.

(* what must hold when the step (i, j) is executed on v: index in range and no u32 overflow *)
Definition step_ok (v : list N) (ij : nat * nat) : Prop :=
  limbs_ok v /\ (fst ij < length v)%nat /\
  nth (fst ij) v 0 + 2 ^ N.of_nat (snd ij) < B /\
  limbs_ok (upd v (fst ij) (fun x => x + 2 ^ N.of_nat (snd ij))).

Lemma step_ok_zx i j x hi : limbs_ok hi -> x + 2 ^ N.of_nat j < B -> step_ok (zx i x hi) (i, j).
Proof.
  intros Hhi Hx. pose proof (pow2_pos (N.of_nat j)) as HP. unfold step_ok. cbn [fst snd].
  rewrite nth_zx, length_zx, upd_zx.
  repeat split; try lia; apply limbs_ok_zx; try assumption; lia.
Qed.

Section Div.
  Hypothesis Hmul : mult_core_stmt.
  Hypothesis Hless : less_core_stmt.

  Section Fixed.
    Variables lhs rhs : list N.
    Hypothesis Hl : limbs_ok lhs.
    Hypothesis Hr : limbs_ok rhs.
    Hypothesis Hln : lhs <> [].
    Hypothesis Hrn : rhs <> [].

    Local Notation a := (lval lhs).
    Local Notation b := (lval rhs).
    Local Notation step := (div_step lhs rhs).

    Fixpoint all_steps (l : list (nat * nat)) (v : list N) : Prop :=
      match l with
      | [] => True
      | ij :: l' => step_ok v ij /\ all_steps l' (step v ij)
      end.

    Lemma all_steps_app l1 : forall l2 v,
      all_steps l1 v -> all_steps l2 (fold_left step l1 v) -> all_steps (l1 ++ l2) v.
    Proof.
      induction l1 as [|ij l1 IH]; intros l2 v H1 H2; cbn [app all_steps fold_left] in *.
      - exact H2.
      - destruct H1 as [H0 H1]. split; [exact H0 | apply IH; assumption].
    Qed.

    Lemma all_steps_nth l1 : forall ij l2 v,
      all_steps (l1 ++ ij :: l2) v -> step_ok (fold_left step l1 v) ij.
    Proof.
      induction l1 as [|ij1 l1 IH]; intros ij l2 v H; cbn [app all_steps fold_left] in *.
      - apply H.
      - destruct H as [_ H]. eapply IH; exact H.
    Qed.

    (* one step on a vector of the standard shape *)
    Lemma step_eq i j x hi : limbs_ok hi -> x + 2 ^ N.of_nat j < B ->
      step (zx i x hi) (i, j) =
      if a <? (lval (zx i x hi) + w i j) * b then zx i x hi else zx i (x + 2 ^ N.of_nat j) hi.
    Proof.
      intros Hhi Hx. unfold div_step. rewrite upd_zx.
      set (v1 := zx i (x + 2 ^ N.of_nat j) hi).
      assert (Hv1 : limbs_ok v1) by (apply limbs_ok_zx; assumption).
      destruct (Hmul v1 rhs Hv1 Hr) as (Hmok & Hmv & Hmlen & _).
      rewrite (Hless lhs (mult_core v1 rhs) Hl Hmok Hln).
      2:{ intro E. rewrite E in Hmlen. cbn [length] in Hmlen. lia. }
      rewrite Hmv. unfold v1 at 1. rewrite lval_zx_add.
      destruct (a <? (lval (zx i x hi) + w i j) * b); [|reflexivity].
      unfold v1. rewrite upd_zx. f_equal. lia.
    Qed.

    (* the 32 (here: m remaining) bits of limb i *)
    Lemma inner i hi (Hhi : limbs_ok hi) : forall m x, (m <= 32)%nat -> x < B ->
      (exists c, x = c * 2 ^ N.of_nat m) ->
      lval (zx i x hi) * b <= a -> a < (lval (zx i x hi) + w i m) * b ->
      exists x',
        fold_left step (map (fun j => (i, j)) (rev (seq 0 m))) (zx i x hi) = zx i x' hi /\
        x' < B /\ lval (zx i x' hi) * b <= a /\ a < (lval (zx i x' hi) + w i 0) * b /\
        all_steps (map (fun j => (i, j)) (rev (seq 0 m))) (zx i x hi).
    Proof.
      induction m as [|m IH]; intros x Hm Hx Hdiv Hlo Hup.
      - exists x. cbn [seq rev map fold_left all_steps]. repeat split; assumption.
      - rewrite seq_S, rev_app_distr, Nat.add_0_l. cbn [rev app map fold_left all_steps].
        assert (Hroom : x + 2 ^ N.of_nat m < B) by (apply pow2_room; [lia | assumption | assumption]).
        rewrite (step_eq i m x hi Hhi Hroom).
        destruct Hdiv as [c Hc]. rewrite Nat2N.inj_succ, N.pow_succ_r' in Hc.
        rewrite w_S in Hup.
        destruct (N.ltb_spec a ((lval (zx i x hi) + w i m) * b)) as [Hlt | Hge].
        + destruct (IH x) as (x' & E & Hx' & Hlo' & Hup' & Hall);
            [lia | assumption | exists (2 * c); lia | assumption | assumption |].
          refine (ex_intro _ x' (conj E (conj Hx' (conj Hlo' (conj Hup' (conj _ Hall)))))).
          apply step_ok_zx; assumption.
        + destruct (IH (x + 2 ^ N.of_nat m)) as (x' & E & Hx' & Hlo' & Hup' & Hall);
            [lia | assumption | exists (2 * c + 1); lia
            | rewrite lval_zx_add; assumption | rewrite lval_zx_add; lia |].
          refine (ex_intro _ x' (conj E (conj Hx' (conj Hlo' (conj Hup' (conj _ Hall)))))).
          apply step_ok_zx; assumption.
    Qed.

    Lemma div_order_S n : div_order (S n) = map (fun j => (n, j)) bits_desc ++ div_order n.
    Proof.
      unfold div_order. rewrite seq_S, rev_app_distr, Nat.add_0_l. cbn [rev app flat_map]. reflexivity.
    Qed.

    (* limbs n-1 .. 0 *)
    Lemma outer : forall n hi, limbs_ok hi ->
      lval (repeat 0 n ++ hi) * b <= a -> a < (lval (repeat 0 n ++ hi) + w n 0) * b ->
      exists hi',
        fold_left step (div_order n) (repeat 0 n ++ hi) = hi' /\
        limbs_ok hi' /\ length hi' = (n + length hi)%nat /\
        lval hi' * b <= a /\ a < (lval hi' + 1) * b /\
        all_steps (div_order n) (repeat 0 n ++ hi).
    Proof.
      induction n as [|n IH]; intros hi Hhi Hlo Hup.
      - exists hi. rewrite w_00 in Hup. cbn [repeat app] in *.
        change (div_order 0) with (@nil (nat * nat)). cbn [fold_left all_steps].
        repeat split; assumption.
      - rewrite repeat_S_zx in *. rewrite div_order_S, fold_left_app. rewrite w_top in Hup.
        destruct (inner n hi Hhi 32%nat 0) as (x' & E & Hx' & Hlo' & Hup' & Hall);
          [lia | apply B_pos | exists 0; lia | assumption | assumption |].
        unfold bits_desc. rewrite E.
        assert (Hhi' : limbs_ok (x' :: hi)) by (constructor; assumption).
        rewrite zx_next in Hlo', Hup'.
        destruct (IH (x' :: hi) Hhi' Hlo' Hup') as (hi' & E' & Hok & Hlen & Hlo'' & Hup'' & Hall').
        refine (ex_intro _ hi' (conj E' (conj Hok (conj _ (conj Hlo'' (conj Hup'' _)))))).
        + rewrite Hlen. cbn [length]. lia.
        + apply all_steps_app; [exact Hall |]. rewrite E. exact Hall'.
    Qed.

    Hypothesis Hb : b <> 0.

    Lemma div_fixed : let n := Nat.max (length lhs) (length rhs) in
      limbs_ok (div_core lhs rhs) /\ div_core lhs rhs <> [] /\ lval (div_core lhs rhs) = a / b /\
      all_steps (div_order n) (repeat 0 n).
    Proof.
      intros n. unfold div_core. fold n.
      assert (Ha : a < w n 0 * b).
      { pose proof (lval_bound lhs Hl) as Hbd. unfold w. change (N.of_nat 0) with 0. rewrite N.pow_0_r.
        assert (Hpw : B ^ N.of_nat (length lhs) <= B ^ N.of_nat n)
          by (apply N.pow_le_mono_r; [apply B_nz | lia]).
        nia. }
      destruct (outer n [] (Forall_nil _)) as (q & E & Hok & Hlen & Hlo & Hup & Hall).
      { rewrite app_nil_r, lval_repeat0. lia. }
      { rewrite app_nil_r, lval_repeat0. lia. }
      rewrite app_nil_r in *. rewrite E.
      repeat split; try assumption.
      - intro Eq. rewrite Eq in Hlen. cbn [length] in Hlen. destruct lhs; [congruence | cbn [length] in *; lia].
      - apply N.div_unique with (r := a - lval q * b); lia.
    Qed.
  End Fixed.

  Theorem div_core_spec : div_core_stmt.
  Proof.
    intros a b Ha Hb Han Hbn Hb0.
    destruct (div_fixed a b Ha Hb Han Hb0) as (H1 & H2 & H3 & _). repeat split; assumption.
  Qed.

  (* every step (i, j) of the fold is executed on a well-formed vector, with i in range, and the
     update v[i] += 1 << j stays below 2^32 *)
  Theorem div_steps_ok : forall a b, limbs_ok a -> limbs_ok b -> a <> [] -> b <> [] -> lval b <> 0 ->
    let n := Nat.max (length a) (length b) in
    forall p ij s, div_order n = p ++ ij :: s ->
      step_ok (fold_left (div_step a b) p (repeat 0 n)) ij.
  Proof.
    intros a b Ha Hb Han Hbn Hb0 n p ij s E.
    destruct (div_fixed a b Ha Hb Han Hb0) as (_ & _ & _ & Hall). fold n in Hall.
    rewrite E in Hall. eapply all_steps_nth; exact Hall.
  Qed.

  (* every intermediate vector of the fold is a vector of u32 limbs *)
  Theorem div_prefix_ok : forall a b, limbs_ok a -> limbs_ok b -> a <> [] -> b <> [] -> lval b <> 0 ->
    let n := Nat.max (length a) (length b) in
    forall p s, div_order n = p ++ s -> limbs_ok (fold_left (div_step a b) p (repeat 0 n)).
  Proof.
    intros a b Ha Hb Han Hbn Hb0 n p s E. destruct s as [|ij s].
    - rewrite app_nil_r in E. subst p. apply (div_core_spec a b Ha Hb Han Hbn Hb0).
    - apply (div_steps_ok a b Ha Hb Han Hbn Hb0 p ij s E).
  Qed.
End Div.

Print Assumptions div_core_spec.
Print Assumptions div_steps_ok.
Print Assumptions div_prefix_ok.
