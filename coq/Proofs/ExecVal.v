(* Value-level refinement: the number operations of the model (Model/Rat.v) compute the value operations of
   the language definition (Spec/Lang.v) through the abstraction [vof].  No premises left. *)
From Coq Require Import List NArith ZArith QArith Qround Qreduction Lia Bool.
Import ListNotations.
From HV Require Import Model.Big Model.Rat Model.NumText Model.Exec Spec.Lang Proofs.BigSpec Proofs.RatSpec
  Proofs.BigAll Proofs.RatAll Proofs.ExecSpec.
From HV Require Proofs.RatOps.

(* ---- small facts about Q ---- *)
Lemma Qred_int z : Qred (z # 1) = z # 1.
Proof.
  unfold Qred.
  pose proof (Z.ggcd_gcd z 1) as Hg. pose proof (Z.ggcd_correct_divisors z 1) as Hd.
  destruct (Z.ggcd z 1) as [g [r1 r2]]. cbn [fst snd] in *.
  rewrite Z.gcd_1_r in Hg. subst g. destruct Hd as [H1 H2].
  rewrite Z.mul_1_l in H1, H2. subst r1 r2. reflexivity.
Qed.

Lemma Qred_inject_Z z : Qred (inject_Z z) = inject_Z z.
Proof. unfold inject_Z. apply Qred_int. Qed.

Lemma Qeq_bool_Qred x y : Qeq_bool (Qred x) y = Qeq_bool x y.
Proof. apply Qeqb_comp; [apply Qred_correct | reflexivity]. Qed.

Lemma Qle_bool_Qred x y : Qle_bool x (Qred y) = Qle_bool x y.
Proof. apply Qleb_comp; [reflexivity | apply Qred_correct]. Qed.

Lemma Qcompare_Qred x y : (Qred x ?= y)%Q = (x ?= y)%Q.
Proof. apply Qcompare_comp; [apply Qred_correct | reflexivity]. Qed.

Lemma small_abs n : (n < 2 ^ 63)%N -> (Z.abs (Z.of_N n) < 2 ^ 127)%Z.
Proof.
  intro H. rewrite Z.abs_eq by apply N2Z.is_nonneg.
  apply N2Z.inj_lt in H. rewrite N2Z.inj_pow in H. change (Z.of_N 2) with 2%Z in H.
  change (Z.of_N 63) with 63%Z in H.
  eapply Z.lt_trans; [exact H|]. apply Z.pow_lt_mono_r; lia.
Qed.

Lemma vof_some x q : nval x = Some q -> vof x = VRat (Qred q).
Proof. unfold vof. intros ->. reflexivity. Qed.
Lemma vof_none x : nval x = None -> vof x = VNaN.
Proof. unfold vof. intros ->. reflexivity. Qed.

(* ---- arithmetic ---- *)
Theorem vof_add : vof_add_stmt.
Proof.
  intros a b Ha Hb. destruct (nadd_t a b Ha Hb) as [Hw He]. split; [exact Hw|].
  unfold vof. destruct (nval (nadd a b)) as [r|], (nval a) as [x|], (nval b) as [y|];
    cbn [oq_eq lift2 vadd] in *; try contradiction; try reflexivity.
  f_equal. apply Qred_complete. rewrite He, !Qred_correct. reflexivity.
Qed.

Theorem vof_mul : vof_mul_stmt.
Proof.
  intros a b Ha Hb. destruct (nmul_t a b Ha Hb) as [Hw He]. split; [exact Hw|].
  unfold vof. destruct (nval (nmul a b)) as [r|], (nval a) as [x|], (nval b) as [y|];
    cbn [oq_eq lift2 vmul] in *; try contradiction; try reflexivity.
  f_equal. apply Qred_complete. rewrite He, !Qred_correct. reflexivity.
Qed.

Theorem vof_neg : vof_neg_stmt.
Proof.
  intros a Ha. destruct (nneg_t a Ha) as [Hw [He Hm]]. split; [exact Hw|]. split; [|exact Hm].
  unfold vof. destruct (nval (nneg a)) as [r|], (nval a) as [x|];
    cbn [oq_eq option_map vneg] in *; try contradiction; try reflexivity.
  f_equal. apply Qred_complete. rewrite He, !Qred_correct. reflexivity.
Qed.

Theorem vof_flip : vof_flip_stmt.
Proof.
  intros a Ha. destruct (nflip_t a Ha) as [Hw He]. split; [exact Hw|].
  unfold vof. destruct (nval a) as [x|]; cbn [vrecip].
  - rewrite Qeq_bool_Qred. destruct (Qeq_bool x 0);
      destruct (nval (nflip a)) as [r|]; cbn [oq_eq] in *; try contradiction; try reflexivity.
    f_equal. apply Qred_complete. rewrite He, !Qred_correct. reflexivity.
  - destruct (nval (nflip a)) as [r|]; cbn [oq_eq] in *; try contradiction; reflexivity.
Qed.

(* ---- constants ---- *)
Theorem vof_nat : vof_nat_stmt.
Proof.
  intros n Hn. destruct (from_num_t (Z.of_N n) (small_abs n Hn)) as [Hw Hv]. split; [exact Hw|].
  rewrite (vof_some _ _ Hv). unfold vnat. rewrite Qred_inject_Z. reflexivity.
Qed.

Lemma nzero_from : nzero = from_num (Z.of_N 0).
Proof. reflexivity. Qed.
Lemma n_one_from : n_one = from_num (Z.of_N 1).
Proof. reflexivity. Qed.

Theorem vof_consts : vof_consts_stmt.
Proof.
  unfold vof_consts_stmt.
  assert (H0 : (0 < 2 ^ 63)%N) by reflexivity. assert (H1 : (1 < 2 ^ 63)%N) by reflexivity.
  destruct (vof_nat 0%N H0) as [A0 B0]. destruct (vof_nat 1%N H1) as [A1 B1].
  rewrite nzero_from, n_one_from.
  split; [exact A0|]. split; [exact B0|]. split; [exact A1|]. split; [exact B1|]. split.
  - apply (RatOps.wfn_nan is_zero_t).
  - apply vof_none. apply is_nan_t; [apply (RatOps.wfn_nan is_zero_t) | reflexivity].
Qed.

Theorem vof_nan : vof_nan_stmt.
Proof.
  intros a Ha. rewrite (is_nan_t a Ha). unfold vof. destruct (nval a); split; intro H; try reflexivity; discriminate H.
Qed.

(* ---- comparison with a count ---- *)
Theorem vof_cmp : vof_cmp_stmt.
Proof.
  intros a n Ha Hn. destruct (from_num_t (Z.of_N n) (small_abs n Hn)) as [Hw Hv].
  rewrite (ncmp_t a _ Ha Hw), Hv. unfold vof.
  destruct (nval a) as [x|]; cbn [vlt veq]; [|split; reflexivity].
  rewrite Qcompare_Qred, Qeq_bool_Qred. split; [reflexivity|].
  destruct (Qeq_bool x (inject_Z (Z.of_N n))) eqn:E.
  - apply Qeq_bool_iff in E. apply Qeq_alt in E. rewrite E. reflexivity.
  - apply Qeq_bool_neq in E. destruct (x ?= inject_Z (Z.of_N n))%Q eqn:C; try reflexivity.
    exfalso. apply E. apply Qeq_alt. exact C.
Qed.

(* ---- output ---- *)
Lemma lval_mod_B l : limbs_ok l -> (lval l mod B = hd 0 l)%N.
Proof.
  destruct l as [|x r]; intro H.
  - reflexivity.
  - cbn [lval hd]. inversion H as [|? ? Hx Hr]; subst.
    rewrite (N.mul_comm B), N.mod_add by (unfold B; lia). apply N.mod_small. exact Hx.
Qed.

Lemma to_int_low b : wf b -> (0 <= bval b)%Z -> (to_int b = Z.to_N (bval b) mod B)%N.
Proof.
  intros [[Hok _] _] Hnn. unfold to_int.
  assert (E : Z.to_N (bval b) = lval (limbs b)).
  { unfold bval in *. destruct (bpos b).
    - apply N2Z.id.
    - assert (lval (limbs b) = 0%N) as -> by lia. reflexivity. }
  rewrite E. symmetry. apply lval_mod_B. exact Hok.
Qed.

Theorem vof_out : vof_out_stmt.
Proof.
  intros a Ha. unfold vof. pose proof (is_pos_t a Ha) as Hp.
  destruct (nval a) as [q|] eqn:Hv.
  - rewrite Qle_bool_Qred. split.
    + destruct (Qle_bool 0 q) eqn:E.
      * apply Hp. exists q. split; [reflexivity|]. apply Qle_bool_iff. exact E.
      * destruct (is_pos a) eqn:P; [|reflexivity].
        destruct (proj1 Hp eq_refl) as [q' [Hq' Hle]]. injection Hq' as <-.
        apply Qle_bool_iff in Hle. congruence.
    + intro E. apply Qle_bool_iff in E. destruct (floor_t a q Ha Hv E) as [Hw Hb].
      rewrite (Qfloor_comp _ _ (Qred_correct q)), <- Hb.
      apply to_int_low; [exact Hw|]. rewrite Hb.
      change 0%Z with (Qfloor 0). apply Qfloor_resp_le. exact E.
  - destruct (is_pos a) eqn:P; [|reflexivity].
    destruct (proj1 Hp eq_refl) as [q' [Hq' _]]. discriminate Hq'.
Qed.

Theorem scalar_same : scalar_stmt.
Proof. intro n. reflexivity. Qed.

Print Assumptions vof_add.
Print Assumptions vof_mul.
Print Assumptions vof_neg.
Print Assumptions vof_flip.
Print Assumptions vof_nat.
Print Assumptions vof_consts.
Print Assumptions vof_nan.
Print Assumptions vof_cmp.
Print Assumptions vof_out.
Print Assumptions scalar_same.
