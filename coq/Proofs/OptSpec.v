(* Statements of the optimiser-layer lemmas (Model/Opt.v against Model/Exec.v). *)
From Coq Require Import List NArith ZArith Bool.
Import ListNotations.
From HV Require Import Model.Big Model.Rat Model.NumText Model.Chars Model.Parse Model.Exec Model.Opt.
Open Scope N_scope.

(* ---------- level 1: renumbering ---------- *)
(* the stacks a program can ever select: 0-3 and the dot counts of its 흑 commands *)
Definition selectable (code : list ucode) (i : N) : Prop := i <= 3 \/ exists u, In u code /\ ty u = 5 /\ dc u = i.
Definition renum_private_stmt := forall code m mx, renum_map all_fixed code = (m, mx) ->
  (forall i, selectable code i -> renum m mx i < mx /\ (i <= 3 -> renum m mx i = i)) /\
  (forall i j, selectable code i -> renum m mx i = renum m mx j -> i = j) /\
  (forall j, renum m mx j <= mx) /\ 4 <= mx.

(* unoptimised state s and optimised state t: selectable stacks coincide through the renumbering *)
Record Rn (code : list ucode) (m : list (N * N)) (mx : N) (s t : state) : Prop := mkRn {
  Rn_ks : skind_ s = SUnopt;
  Rn_kt : skind_ t = SOpt (mx + 1);
  Rn_stk : forall i, selectable code i -> get_stack s i = get_stack t (renum m mx i);
  Rn_cur : selectable code (cur s) /\ cur t = renum m mx (cur s);
  Rn_pts : points s = points t;
  Rn_lat : latest s = latest t;
  Rn_inp : inp s = inp t;
  Rn_out : outb s = outb t;
  Rn_err : errb s = errb t }.
Definition Rn_io (s t : state) : Prop := outb s = outb t /\ errb s = errb t.
Definition rn_res {A} (code : list ucode) m mx (r1 r2 : res A) : Prop :=
  match r1, r2 with
  | ROk a s, ROk b t => a = b /\ Rn code m mx s t
  | RExit k s, RExit k' t => k = k' /\ Rn_io s t
  | RErr e s, RErr e' t => e = e' /\ Rn_io s t
  | _, _ => False
  end.
Definition renum_step_stmt := forall code m mx u pc s t, renum_map all_fixed code = (m, mx) -> In u code ->
  Rn code m mx s t ->
  rn_res code m mx (execute_one (xcode_of_ucode u) pc s) (execute_one (opt_code m mx u) pc t).

(* observable behaviour of a finished (or interrupted) run *)
Inductive fkind := KDone | KExit (c : N) | KErr (e : errkind) | KFuel | KPanic.
Definition beh (f : final) : fkind * list N * list N :=
  match f with
  | FDone s => (KDone, rev (outb s), rev (errb s))
  | FExit c s => (KExit c, rev (outb s), rev (errb s))
  | FErr e s => (KErr e, rev (outb s), rev (errb s))
  | FFuel s _ => (KFuel, rev (outb s), rev (errb s))
  | FPanic s => (KPanic, rev (outb s), rev (errb s))
  end.
(* level 1 runs in lockstep with level 0: same behaviour for every step budget *)
Definition level1_stmt := forall fuel code input,
  beh (run_level all_fixed fuel code 1 input) = beh (run_level all_fixed fuel code 0 input).

(* ---------- level 2: speculative pre-execution ---------- *)
(* a speculative step that completes is a real step; it never touches the input and never exits *)
Definition ostep_sound_stmt := forall c pc s pc' j s',
  oexecute_one all_fixed c pc s = ROk (pc', j) s' -> execute_one c pc s = ROk pc' s' /\ inp s' = inp s.
Definition ostep_err_stmt := forall c pc s e s',
  oexecute_one all_fixed c pc s = RErr e s' -> execute_one c pc s = RErr e s' /\ inp s' = inp s /\ (exists n, e = EEnc n).
Definition ostep_exit_stmt := forall fx c pc s k s',
  oexecute_one fx c pc s = RExit k s' -> k = BAIL /\ inp s' = inp s.
(* optimising never reads the input, whatever the fixes *)
Definition ostep_no_read_stmt := forall fx c pc s,
  inp (match oexecute_one fx c pc s with ROk _ t => t | RExit _ t => t | RErr _ t => t end) = inp s.

(* the speculative loop over one top-level command: if it completes, the real loop completes in the same state,
   using exactly [k] steps for some k <= its budget *)
Definition oloop_sound_stmt := forall fuel code s pc len j s',
  opt_loop fuel all_fixed code s pc len j = ODone s' ->
  exists k, forall f, exec_loop (k + f) code s pc len = (FDone s', f).
Definition oloop_err_stmt := forall fuel code s pc len j e s',
  opt_loop fuel all_fixed code s pc len j = OErr e s' ->
  exists k, forall f, exec_loop (S k + f) code s pc len = (FErr e s', f).

(* pre-executing a prefix and then running the residual program = running the whole program *)
Definition preexec_split_stmt := forall s0 log todo r,
  preexec all_fixed s0 log todo = OptOk r ->
  exists k, forall f, run_inc (k + f) log todo s0 = run_inc f (olog r) (orest r) (ostate r).
Definition preexec_err_stmt := forall s0 log todo e,
  preexec all_fixed s0 log todo = OptErr e ->
  exists f s', run_inc f log todo s0 = FErr e s'.

(* termination and absence of panics: the fuel 101*(len+1)+1 always suffices; label targets stay in range *)
Definition targets_ok (n : N) (s : state) : Prop :=
  (forall id v, alist_get (points s) id = Some v -> v < n) /\ (forall v, latest s = Some v -> v < n).
Definition oloop_total_stmt := forall fx code s pc j fuel, let len := N.of_nat (length code) in
  targets_ok len s -> pc <= len -> j <= 100 ->
  (N.to_nat ((100 - j) * (len + 1) + (len - pc)) < fuel)%nat ->
  match opt_loop fuel fx code s pc len j with OFuel | OPanic => False | ODone t => targets_ok len t | _ => True end.
Definition preexec_total_stmt := forall fx s0 log todo, targets_ok (N.of_nat (length log)) s0 ->
  preexec fx s0 log todo <> OptStuck.
Definition optimize_total_stmt := forall fx code level input, optimize_prog fx code level input <> OptStuck.
(* no effects: whatever the program, optimising leaves the whole input unread *)
Definition optimize_no_read_stmt := forall fx code level input r,
  optimize_prog fx code level input = OptOk r -> inp (ostate r) = input.

(* ---------- the property ---------- *)
Definition level2_stmt := forall code input,
  match optimize_prog all_fixed code 2 input with
  | OptOk r => exists k, forall f, beh (run_level all_fixed (k + f) code 0 input) = beh (run_level all_fixed f code 2 input)
  | OptErr e => exists f s', run_level all_fixed f code 0 input = FErr e s' /\ exists n, e = EEnc n
  | OptStuck => False
  end.
(* output only grows with the step budget, so shorter budgets see prefixes *)
Definition out_prefix (a b : list N) : Prop := exists c, b = a ++ c.
Definition run_mono_stmt := forall f f' done todo s, (f <= f')%nat ->
  match run_inc f done todo s with
  | FFuel t _ => out_prefix (rev (outb t)) (rev (outb (final_state (run_inc f' done todo s)))) /\
                 out_prefix (rev (errb t)) (rev (errb (final_state (run_inc f' done todo s))))
  | x => run_inc f' done todo s = x
  end.

(* ---------- well-typed variants: the parser only yields kinds 0..5 ---------- *)
Definition kinds_ok (code : list ucode) : Prop := forall u, In u code -> ty u <= 5.
Definition renum_step_wt_stmt := forall code m mx u pc s t, kinds_ok code -> renum_map all_fixed code = (m, mx) -> In u code ->
  Rn code m mx s t ->
  rn_res code m mx (execute_one (xcode_of_ucode u) pc s) (execute_one (opt_code m mx u) pc t).
Definition level1_wt_stmt := forall fuel code input, kinds_ok code ->
  beh (run_level all_fixed fuel code 1 input) = beh (run_level all_fixed fuel code 0 input).
Definition level2_wt_stmt := forall code input, kinds_ok code ->
  match optimize_prog all_fixed code 2 input with
  | OptOk r => exists k, forall f, beh (run_level all_fixed (k + f) code 0 input) = beh (run_level all_fixed f code 2 input)
  | OptErr e => exists f s', run_level all_fixed f code 0 input = FErr e s' /\ exists n, e = EEnc n
  | OptStuck => False
  end.
