(* Capstone: what `hyeong run -O<level> FILE` does (Model/Cli.v) against the language definition (Spec/Lang.v),
   composing file decoding, the parser, the interpreter refinement (C01) and the optimiser theorems (C02). *)
From Coq Require Import List NArith ZArith Bool.
Import ListNotations.
From HV Require Import Model.Big Model.Rat Model.NumText Model.Chars Model.Parse Model.Exec Model.Opt Model.Utf8 Model.Cli
  Spec.Lang Proofs.OptSpec Proofs.ExecSpec Proofs.UniSpec.
Open Scope N_scope.

Definition prog_of_text (text : list N) : list scmd := map scmd_of_ucode (parse text).
(* counts below 2^63 (the property excludes counts >= 2^31) *)
Definition small_text (text : list N) : Prop :=
  Forall (fun u => hc u < 2 ^ 63 /\ dc u < 2 ^ 63 /\ hc u * dc u < 2 ^ 63) (parse text).

(* a run of the definition that ends normally or by a program-requested exit is reproduced by the tool at every
   level: same exit status, same bytes on stdout and stderr *)
Definition cli_done_stmt := forall level text input f s, level <= 2 -> scalars text -> scalars input -> small_text text ->
  srun f (prog_of_text text) (lstate0 (lines_of input)) 0 = SDone s ->
  exists F, run_cli level (FBytes true (encode text)) (encode input) F = CExit 0 (encode (out s)) (encode (err s)).
Definition cli_exit_stmt := forall level text input f c s, level <= 2 -> scalars text -> scalars input -> small_text text ->
  srun f (prog_of_text text) (lstate0 (lines_of input)) 0 = SExited c s ->
  exists F, run_cli level (FBytes true (encode text)) (encode input) F = CExit c (encode (out s)) (encode (err s)).
(* a run that stops on an unencodable value stops with the same diagnostic at every level; at level 0 all earlier
   output has been written, at levels 1 and 2 text written before it may be withheld *)
Definition cli_enc_stmt := forall level text input f n s, level <= 2 -> scalars text -> scalars input -> small_text text ->
  srun f (prog_of_text text) (lstate0 (lines_of input)) 0 = SFailed (SEnc n) s ->
  exists F o e, run_cli level (FBytes true (encode text)) (encode input) F = CDiag (DgEnc n) o e /\
    (level = 0 -> o = encode (out s) /\ e = encode (err s)).
