(* Proofs of the statements in Proofs/ExtraSpec.v: debugger output accounting, running mode, end-to-end copy loop. *)
From Coq Require Import List NArith ZArith Lia Bool. Import ListNotations.
From HV Require Import Model.Big Model.Rat Model.NumText Model.Chars Model.Parse Model.Exec Model.Opt Model.Repl Model.Debug Model.Utf8 Model.Cli Spec.Lang Proofs.OptSpec Proofs.AppSpec Proofs.ExecSpec Proofs.UniSpec Proofs.ExtraSpec Proofs.AppAll Proofs.ExecAll Proofs.OptAll.
From HV Require Proofs.UniProofs.
From HV Require Proofs.OptTerm Proofs.ReplProofs.
Open Scope N_scope.

(* ------------------------------------------------------------------ *)
(* debugger: running mode stops at a breakpoint *)

Theorem debug_run_stops : debug_run_stops_stmt.
Proof.
  intros code lines d s pc older Eh Hrun Hpc Hm.
  unfold dtrans. rewrite Eh. cbv zeta.
  apply N.leb_gt in Hpc. rewrite Hpc, Hrun, Hm. reflexivity.
Qed.
Print Assumptions debug_run_stops.

(* ------------------------------------------------------------------ *)
(* debugger: output accounting *)

(* what a step of the debugger leaves in the capture buffers: what was pending, then what the command wrote *)
Definition io_after (code : list xcode) (d : dstate) (io' : state) : Prop :=
  rev (outb io') = pend_out d ++ fst (step_text code d) /\
  rev (errb io') = pend_err d ++ snd (step_text code d).

Lemma dstep_text code d :
  match dstep code d with
  | inl (_, _, io') => io_after code d io'
  | inr (FExit _ io') => io_after code d io'
  | inr (FErr _ io') => io_after code d io'
  | inr _ => True
  end.
Proof.
  unfold dstep, io_after, step_text, pend_out, pend_err.
  destruct (hist d) as [|[s pc] older]; [exact I|].
  destruct (nth_error code (N.to_nat pc)) as [c|]; [|exact I].
  cbv zeta.
  change (mkstate (skind_ s) (stacks s) (cur s) (points s) (latest s) (inp s) (outb (dio d)) (errb (dio d)))
    with (add_io (outb (dio d)) (errb (dio d)) (core s)).
  rewrite io_frame_t.
  destruct (execute_one c pc (core s)) as [pc' t|k t|e t]; cbn [map_res add_io outb errb fst snd];
    rewrite !rev_app_distr; split; reflexivity.
Qed.

Lemma flush_out_flushed io : flush_out [flushed io] = rev (outb io).
Proof. unfold flush_out, flushed. cbn [flat_map]. apply app_nil_r. Qed.
Lemma flush_err_flushed io : flush_err [flushed io] = rev (errb io).
Proof. unfold flush_err, flushed. cbn [flat_map]. apply app_nil_r. Qed.

(* the shapes of event lists that occur *)
Lemma fo_prompt evs : flush_out (DvPrompt :: evs) = flush_out evs. Proof. reflexivity. Qed.
Lemma fe_prompt evs : flush_err (DvPrompt :: evs) = flush_err evs. Proof. reflexivity. Qed.
Lemma fo_show i evs : flush_out (DvShowCode i :: evs) = flush_out evs. Proof. reflexivity. Qed.
Lemma fe_show i evs : flush_err (DvShowCode i :: evs) = flush_err evs. Proof. reflexivity. Qed.
Lemma fo_nil : flush_out [] = []. Proof. reflexivity. Qed.
Lemma fe_nil : flush_err [] = []. Proof. reflexivity. Qed.

Lemma pend_clear h b r io : pend_out (mkd h b r (clear_io io)) = [] /\ pend_err (mkd h b r (clear_io io)) = [].
Proof. split; reflexivity. Qed.

Ltac fin :=
  rewrite ?fo_prompt, ?fe_prompt, ?fo_show, ?fe_show, ?flush_out_flushed, ?flush_err_flushed, ?fo_nil, ?fe_nil;
  unfold pend_out, pend_err, clear_io, with_fresh_io; cbn [dio outb errb rev app];
  rewrite ?app_nil_r;
  try (split; reflexivity).

Theorem debug_output_step : debug_output_step_stmt.
Proof.
  intros code lines d evs lines' d' H.
  pose proof (dstep_text code d) as T.
  unfold dtrans in H. unfold executes.
  destruct (hist d) as [|[s pc] older]; [discriminate H|].
  cbv zeta in H.
  destruct (N.of_nat (length code) <=? pc); [discriminate H|].
  destruct (running d).
  { destruct (mem_N pc (brk d)).
    - injection H as <- <- <-. cbn [negb]. fin.
    - cbn [negb]. destruct (dstep code d) as [[[s' pc'] io']|[t|k t|e t|t p|t]]; try discriminate H.
      injection H as <- <- <-. destruct T as [T1 T2]. fin. split; assumption. }
  destruct lines as [|line rest]; [discriminate H|].
  cbn [hd] in *.
  set (toks := split_sp (trim line) []) in *.
  set (t0 := hd [] toks) in *.
  destruct (is_word t0 w_next 110).
  { cbn [orb]. destruct (dstep code d) as [[[s' pc'] io']|[t|k t|e t|t p|t]]; try discriminate H.
    injection H as <- <- <-. destruct T as [T1 T2]. fin. split; assumption. }
  cbn [orb negb andb].
  destruct (is_word t0 w_previous 112).
  { cbn [negb andb]. destruct older; injection H as <- <- <-; fin. }
  cbn [negb andb].
  destruct (is_word t0 w_run 114).
  { destruct (dstep code d) as [[[s' pc'] io']|[t|k t|e t|t p|t]]; try discriminate H.
    injection H as <- <- <-. destruct T as [T1 T2]. fin. split; assumption. }
  clear T.
  destruct (is_word t0 w_state 115); [injection H as <- <- <-; fin|].
  destruct (is_word t0 w_break 98).
  { destruct (tl toks) as [|w ws].
    - destruct (forallb (fun i => i <? N.of_nat (length code)) (brk d)); [|discriminate H].
      injection H as <- <- <-. fin.
    - destruct (parse_usize w) as [n|e]; [|injection H as <- <- <-; fin].
      destruct (N.of_nat (length code) <=? n); [injection H as <- <- <-; fin|].
      destruct (mem_N n (brk d)); injection H as <- <- <-; fin. }
  destruct (is_word t0 w_help 104); [injection H as <- <- <-; fin|].
  destruct (leqb t0 w_exit); [discriminate H|].
  destruct (leqb t0 []); injection H as <- <- <-; fin.
Qed.
Print Assumptions debug_output_step.

Theorem debug_output_end : debug_output_end_stmt.
Proof.
  intros code lines d evs e H N1 N2 N3.
  pose proof (dstep_text code d) as T.
  unfold dtrans in H. unfold executes.
  destruct (hist d) as [|[s pc] older]; [injection H as <- <-; contradiction N1; reflexivity|].
  cbv zeta in H.
  destruct (N.of_nat (length code) <=? pc); [injection H as <- <-; fin|].
  destruct (running d).
  { destruct (mem_N pc (brk d)); [discriminate H|].
    cbn [negb]. destruct (dstep code d) as [[[s' pc'] io']|[t|k t|e' t|t p|t]]; try discriminate H;
      injection H as <- <-; try (contradiction N1; reflexivity);
      destruct T as [T1 T2]; fin; split; assumption. }
  destruct lines as [|line rest]; [injection H as <- <-; contradiction N2; reflexivity|].
  cbn [hd] in *.
  set (toks := split_sp (trim line) []) in *.
  set (t0 := hd [] toks) in *.
  destruct (is_word t0 w_next 110).
  { cbn [orb]. destruct (dstep code d) as [[[s' pc'] io']|[t|k t|e' t|t p|t]]; try discriminate H;
      injection H as <- <-; try (contradiction N1; reflexivity);
      destruct T as [T1 T2]; cbn [app]; fin; split; assumption. }
  cbn [orb negb andb].
  destruct (is_word t0 w_previous 112).
  { destruct older; discriminate H. }
  cbn [negb andb].
  destruct (is_word t0 w_run 114).
  { destruct (dstep code d) as [[[s' pc'] io']|[t|k t|e' t|t p|t]]; try discriminate H;
      injection H as <- <-; try (contradiction N1; reflexivity);
      destruct T as [T1 T2]; fin; split; assumption. }
  clear T.
  destruct (is_word t0 w_state 115); [discriminate H|].
  destruct (is_word t0 w_break 98).
  { destruct (tl toks) as [|w ws].
    - destruct (forallb (fun i => i <? N.of_nat (length code)) (brk d)); [discriminate H|].
      injection H as <- <-. contradiction N1; reflexivity.
    - destruct (parse_usize w) as [n|e']; [|discriminate H].
      destruct (N.of_nat (length code) <=? n); [discriminate H|].
      destruct (mem_N n (brk d)); discriminate H. }
  destruct (is_word t0 w_help 104); [discriminate H|].
  destruct (leqb t0 w_exit); [injection H as <- <-; contradiction N3; reflexivity|].
  destruct (leqb t0 []); discriminate H.
Qed.
Print Assumptions debug_output_end.

(* ------------------------------------------------------------------ *)
(* end to end: the copy loop through the CLI model *)

(* closed computations, each isolated *)
Definition code6 : list xcode := map xcode_of_ucode (parse CAT_SRC).

Lemma dec_cat : decode (encode CAT_SRC) = Some CAT_SRC.
Proof. vm_compute. reflexivity. Qed.

Lemma code6_prog : map scmd_of_xcode code6 = cat_prog.
Proof. vm_compute. reflexivity. Qed.

Definition smallb (c : xcode) : bool := (xhc c <? 2 ^ 63) && (xdc c <? 2 ^ 63) && (xac c <? 2 ^ 63).
Lemma code6_smallb : forallb smallb code6 = true.
Proof. vm_compute. reflexivity. Qed.
Lemma code6_small : Forall small code6.
Proof.
  apply Forall_forall. intros c Hc.
  pose proof (proj1 (forallb_forall smallb code6) code6_smallb c Hc) as H.
  unfold smallb in H. apply andb_true_iff in H. destruct H as [H H3].
  apply andb_true_iff in H. destruct H as [H1 H2].
  apply N.ltb_lt in H1, H2, H3. split; [exact H1 | split; [exact H2 | exact H3]].
Qed.

(* more fuel does not change a finished preloaded run *)
Lemma run_pre_more code : forall f s pc x, run_pre f code s pc = x -> (forall t p, x <> FFuel t p) ->
  forall d, run_pre (f + d) code s pc = x.
Proof.
  induction f as [|f IH]; intros s pc x H Hx d.
  - cbn in H. exfalso. apply (Hx s pc). symmetry. exact H.
  - cbn [Nat.add run_pre] in *.
    destruct (N.of_nat (length code) <=? pc); [exact H|].
    destruct (nth_error code (N.to_nat pc)) as [c|]; [|exact H].
    destruct (execute_one c pc s) as [pc' s'|k s'|e s']; [|exact H|exact H].
    apply IH; assumption.
Qed.

(* if the incremental loop runs out of fuel, so does the preloaded loop with the same fuel *)
Lemma exec_loop_fuel f : forall code r s pc t p f',
  targets_ok (N.of_nat (length code)) s -> pc <= N.of_nat (length code) ->
  exec_loop f code s pc (N.of_nat (length code)) = (FFuel t p, f') ->
  run_pre f (code ++ r) s pc = FFuel t p.
Proof.
  induction f as [|f IH]; intros code r s pc t p f' T Hpc H.
  - cbn in H. injection H as <- <- _. reflexivity.
  - cbn [exec_loop] in H. destruct (N.of_nat (length code) <=? pc) eqn:E1; [discriminate H|].
    apply N.leb_gt in E1. rewrite ReplProofs.run_pre_step by exact E1.
    destruct (nth_error code (N.to_nat pc)) as [c|]; [|discriminate H].
    destruct (execute_one c pc s) as [pc' s1|q s1|e s1] eqn:Ee; [|discriminate H|discriminate H].
    destruct (ReplProofs.step_facts _ _ _ _ _ _ Ee T E1) as (T1 & Hpc').
    assert (Hle : pc' <= N.of_nat (length code)) by lia.
    exact (IH code r s1 pc' t p f' T1 Hle H).
Qed.

Lemma run_inc_fuel todo : forall f done s t p, targets_ok (N.of_nat (length done)) s ->
  run_inc f done todo s = FFuel t p ->
  run_pre f (done ++ todo) s (N.of_nat (length done)) = FFuel t p.
Proof.
  induction todo as [|c r IH]; intros f done s t p T H.
  - cbn in H. discriminate H.
  - cbn [run_inc] in H.
    assert (T0 : targets_ok (N.of_nat (length (done ++ [c]))) s).
    { apply (OptTerm.targets_ok_weaken (N.of_nat (length done))); [rewrite OptTerm.len_snoc; lia | exact T]. }
    assert (Hpc : N.of_nat (length done) <= N.of_nat (length (done ++ [c]))) by (rewrite OptTerm.len_snoc; lia).
    rewrite <- (OptTerm.len_snoc done c) in H.
    destruct (exec_loop f (done ++ [c]) s (N.of_nat (length done)) (N.of_nat (length (done ++ [c])))) as [x f'] eqn:E.
    destruct x as [s'|q s'|e s'|t0 p0|s']; try discriminate H.
    + pose proof (ReplProofs.exec_loop_pre f (done ++ [c]) r s (N.of_nat (length done)) _ f' T0 Hpc E) as HP.
      cbv beta iota in HP. destruct HP as (T' & u & Hu & Hk).
      rewrite <- app_assoc in Hk. cbn [app] in Hk.
      rewrite Hu, Hk.
      specialize (IH f' (done ++ [c]) s' t p T' H). rewrite <- app_assoc in IH. cbn [app] in IH. exact IH.
    + injection H as -> ->.
      pose proof (exec_loop_fuel f (done ++ [c]) r s (N.of_nat (length done)) t p f' T0 Hpc E) as HP.
      rewrite <- app_assoc in HP. cbn [app] in HP. exact HP.
Qed.

(* a finished preloaded run is a finished incremental run *)
Lemma pre_to_inc fuel code s s1 : targets_ok 0 s ->
  run_pre fuel code s 0 = FDone s1 -> run_inc fuel [] code s = FDone s1.
Proof.
  intros T H.
  assert (H1 : run_pre (S fuel) code s 0 = FDone s1).
  { replace (S fuel) with (fuel + 1)%nat by lia. apply run_pre_more; [exact H | intros t p; discriminate]. }
  pose proof (inc_pre_t fuel [] code s T) as HP. cbn [app length N.of_nat] in HP.
  destruct (run_inc fuel [] code s) as [s'|q s'|e s'|t p|s'] eqn:E.
  - rewrite H1 in HP. symmetry. exact HP.
  - rewrite H1 in HP. discriminate HP.
  - rewrite H1 in HP. discriminate HP.
  - pose proof (run_inc_fuel code fuel [] s t p T E) as HF. cbn [app length N.of_nat] in HF.
    rewrite H in HF. discriminate HF.
  - rewrite H1 in HP. discriminate HP.
Qed.

Lemma targets_ok_state0 k input : targets_ok 0 (state0 k input).
Proof. split; cbn; intros; discriminate. Qed.

Lemma run_cli_cat stdin fuel :
  run_cli 0 (FBytes true (encode CAT_SRC)) stdin fuel =
  match run_inc fuel [] code6 (state0 SUnopt (stdin_lines stdin)) with
  | FDone s => CExit 0 (encode (rev (outb s))) (encode (rev (errb s)))
  | FExit c s => CExit c (encode (rev (outb s))) (encode (rev (errb s)))
  | FErr (EEnc n) s => CDiag (DgEnc n) (encode (rev (outb s))) (encode (rev (errb s)))
  | FErr EIo s => CDiag DgUtf8Stdin (encode (rev (outb s))) (encode (rev (errb s)))
  | FFuel _ _ => CRunning
  | FPanic _ => CPanic
  end.
Proof.
  unfold run_cli. rewrite dec_cat. unfold run_level, code6.
  change (0 =? 0) with true. cbv iota. reflexivity.
Qed.

Lemma lines_small t : scalars t -> forall line c, In (Some line) (lines_of t) -> In c line -> c < 2 ^ 63.
Proof.
  intros Ht line c Hl Hc. unfold lines_of in Hl. apply in_map_iff in Hl.
  destruct Hl as (l & El & Hl). injection El as ->.
  destruct (UniProofs.split_nl_concat t) as [Hcat _].
  assert (Hin : In c t).
  { rewrite <- Hcat. apply in_concat. exists line. split; assumption. }
  unfold scalars in Ht. rewrite Forall_forall in Ht. specialize (Ht c Hin).
  apply UniProofs.scalar_bounds in Ht. destruct Ht as [_ Hb].
  apply N.le_lt_trans with (m := 1114111); [exact Hb | reflexivity].
Qed.

Theorem cat_cli : cat_cli_stmt.
Proof.
  intros t Hne Ht.
  destruct (UniProofs.cat_loop t Hne Ht) as (fuel & s2 & Hs & Ho & He).
  exists fuel. rewrite run_cli_cat.
  rewrite (UniProofs.stdin_lines_ok t Ht). fold (lines_of t).
  pose proof (R_init_t (lines_of t) (lines_small t Ht)) as HR.
  pose proof (run_refines_t fuel code6 _ _ 0 HR code6_small) as HF.
  rewrite code6_prog, Hs in HF.
  destruct (run_pre fuel code6 (state0 SUnopt (lines_of t)) 0) as [s1|q s1|e s1|t1 p1|s1] eqn:Ep;
    cbn [final_rel] in HF; try contradiction.
  rewrite (pre_to_inc fuel code6 _ s1 (targets_ok_state0 _ _) Ep).
  rewrite (R_out _ _ HF), (R_err _ _ HF), Ho, He. reflexivity.
Qed.
Print Assumptions cat_cli.
