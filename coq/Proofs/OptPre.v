(* Level 2 of the optimiser: speculative pre-execution is sound (Model/Opt.v against Model/Exec.v). *)
From Coq Require Import List NArith ZArith Lia Bool.
Import ListNotations.
From HV Require Import Model.Big Model.Rat Model.NumText Model.Chars Model.Parse Model.Exec Model.Opt Proofs.OptSpec.
Open Scope N_scope.

(* ------------------------------------------------------------------------------------------------ *)
(* guarded refinement of monadic computations *)

Definition gref {A B} (R : A -> B -> Prop) (m1 : M A) (m2 : M B) : Prop :=
  forall s, match m1 s with
            | ROk a s' => inp s' = inp s /\ exists b, m2 s = ROk b s' /\ R a b
            | RErr e s' => inp s' = inp s /\ m2 s = RErr e s' /\ exists n, e = EEnc n
            | RExit k s' => inp s' = inp s /\ k = BAIL
            end.

Lemma gref_bind : forall {A B A' B'} (R : A -> B -> Prop) (R' : A' -> B' -> Prop) m1 m2 f1 f2,
  gref R m1 m2 -> (forall a b, R a b -> gref R' (f1 a) (f2 b)) -> gref R' (bind m1 f1) (bind m2 f2).
Proof.
  intros A B A' B' R R' m1 m2 f1 f2 H1 H2 s. unfold bind. specialize (H1 s).
  destruct (m1 s) as [a s1|k s1|e s1].
  - destruct H1 as [Hi [b [Hm HR]]]. rewrite Hm. specialize (H2 a b HR s1).
    destruct (f1 a s1) as [a' s2|k s2|e s2].
    + destruct H2 as [Hi2 Hx]. split; [congruence|exact Hx].
    + destruct H2 as [Hi2 Hx]. split; [congruence|exact Hx].
    + destruct H2 as [Hi2 Hx]. split; [congruence|exact Hx].
  - exact H1.
  - destruct H1 as [Hi [Hm Hn]]. rewrite Hm. auto.
Qed.

Lemma gref_ret : forall {A B} (R : A -> B -> Prop) a b, R a b -> gref R (ret a) (ret b).
Proof. intros A B R a b H s. unfold ret. split; [reflexivity|]. exists b. auto. Qed.

Lemma gref_self_of : forall {A B} (R : A -> B -> Prop) m1 m2, gref R m1 m2 -> gref eq m1 m1.
Proof.
  intros A B R m1 m2 H s. specialize (H s). destruct (m1 s) as [a s1|k s1|e s1] eqn:E.
  - destruct H as [Hi _]. split; [exact Hi|]. exists a. auto.
  - exact H.
  - destruct H as [Hi [_ Hn]]. auto.
Qed.

(* a computation that always succeeds without touching the input refines itself *)
Lemma gref_ok : forall {A} (m : M A), (forall s, exists a s', m s = ROk a s' /\ inp s' = inp s) -> gref eq m m.
Proof.
  intros A m H s. destruct (H s) as [a [s' [E Hi]]]. rewrite E. split; [exact Hi|]. exists a. auto.
Qed.

Lemma get_cur_g : gref eq get_cur get_cur.
Proof. apply gref_ok. intros s. unfold get_cur. eauto. Qed.
Lemma set_cur_g : forall c, gref eq (set_cur c) (set_cur c).
Proof. intros c. apply gref_ok. intros s. unfold set_cur. eexists. eexists. split; [reflexivity|reflexivity]. Qed.
Lemma get_point_g : forall i, gref eq (get_point i) (get_point i).
Proof. intros i. apply gref_ok. intros s. unfold get_point. eauto. Qed.
Lemma set_point_g : forall i l, gref eq (set_point i l) (set_point i l).
Proof. intros i l. apply gref_ok. intros s. unfold set_point. eexists. eexists. split; reflexivity. Qed.
Lemma set_latest_g : forall l, gref eq (set_latest l) (set_latest l).
Proof. intros l. apply gref_ok. intros s. unfold set_latest. eexists. eexists. split; reflexivity. Qed.
Lemma get_latest_g : gref eq get_latest get_latest.
Proof. apply gref_ok. intros s. unfold get_latest. eauto. Qed.

Lemma push_stack_ok : forall i x s, exists s', push_stack i x s = ROk tt s' /\ inp s' = inp s.
Proof.
  intros i x s. unfold push_stack. destruct (in_range s i); [|eauto].
  destruct (get_stack s i); [destruct (is_nan x)|]; eexists; split; reflexivity.
Qed.
Lemma pop_stack_ok : forall i s, exists a s', pop_stack i s = ROk a s' /\ inp s' = inp s.
Proof.
  intros i s. unfold pop_stack. destruct (in_range s i); [|eauto].
  destruct (get_stack s i); eexists; eexists; split; reflexivity.
Qed.
Lemma write_out_ok : forall b t s, exists s', write_out b t s = ROk tt s' /\ inp s' = inp s.
Proof. intros b t s. unfold write_out. destruct b; eexists; split; reflexivity. Qed.

Lemma push_wrap_g : forall i x, gref eq (push_wrap i x) (push_wrap i x).
Proof.
  intros i x s. unfold push_wrap. destruct ((i =? 1) || (i =? 2)).
  - destruct (is_pos x).
    + destruct (num_to_unicode x) as [c|n].
      * destruct (write_out_ok (i =? 2) [c] s) as [s' [E Hi]]. rewrite E. split; [exact Hi|]. exists tt. auto.
      * unfold fail. split; [reflexivity|]. split; [reflexivity|]. exists n. reflexivity.
    + destruct (write_out_ok (i =? 2) (num_display (nneg x)) s) as [s' [E Hi]]. rewrite E.
      split; [exact Hi|]. exists tt. auto.
  - destruct (push_stack_ok i x s) as [s' [E Hi]]. rewrite E. split; [exact Hi|]. exists tt. auto.
Qed.

Lemma gpop_g : forall cs, gref eq (gpop cs) (pop_wrap cs).
Proof.
  intros cs s. unfold gpop, guard, bind. destruct (cs <=? 2) eqn:E.
  - unfold exit_. auto.
  - unfold ret. apply N.leb_gt in E. unfold pop_wrap.
    assert (E0 : cs =? 0 = false) by (apply N.eqb_neq; lia).
    assert (E1 : cs =? 1 = false) by (apply N.eqb_neq; lia).
    assert (E2 : cs =? 2 = false) by (apply N.eqb_neq; lia).
    rewrite E0, E1, E2.
    destruct (pop_stack_ok cs s) as [a [s' [Ep Hi]]]. rewrite Ep. split; [exact Hi|]. exists a. auto.
Qed.
Lemma gpop_self : forall cs, gref eq (gpop cs) (gpop cs).
Proof. intros cs. exact (gref_self_of _ _ _ (gpop_g cs)). Qed.

Lemma iterM_0 : forall {A} (f : A -> M A) a, iterM 0 f a = ret a.
Proof. reflexivity. Qed.
Lemma iterM_succ : forall {A} n (f : A -> M A) a, iterM (N.succ n) f a = bind (iterM n f a) f.
Proof. intros A n f a. unfold iterM. rewrite N.iter_succ. reflexivity. Qed.

Lemma gref_iterM : forall {A B} (R : A -> B -> Prop) f1 f2,
  (forall a b, R a b -> gref R (f1 a) (f2 b)) ->
  forall n a b, R a b -> gref R (iterM n f1 a) (iterM n f2 b).
Proof.
  intros A B R f1 f2 Hf n. induction n as [|n IH] using N.peano_ind; intros a b Hab.
  - rewrite !iterM_0. apply gref_ret. exact Hab.
  - rewrite !iterM_succ. apply gref_bind with (R := R); [apply IH; exact Hab|exact Hf].
Qed.

Lemma gref_fold : forall {A B X} (R : A -> B -> Prop) (F1 : M A -> X -> M A) (F2 : M B -> X -> M B),
  (forall m1 m2 x, gref R m1 m2 -> gref R (F1 m1 x) (F2 m2 x)) ->
  forall v m1 m2, gref R m1 m2 -> gref R (fold_left F1 v m1) (fold_left F2 v m2).
Proof.
  intros A B X R F1 F2 HF v. induction v as [|x v IH]; intros m1 m2 Hm; cbn [fold_left].
  - exact Hm.
  - apply IH. apply HF. exact Hm.
Qed.

Lemma gref_calc : forall a cnt p1 p2, gref eq p1 p2 -> gref eq (calc a cnt p1) (calc a cnt p2).
Proof.
  intros a cnt p1 p2 Hp. induction a as [|t l IHl r IHr]; cbn [calc].
  - apply gref_ret. reflexivity.
  - destruct (t =? 0).
    + apply gref_bind with (R := eq); [exact Hp|]. intros v ? <-.
      destruct (ncmp v (from_num (Z.of_N cnt))) as [[| |]|]; assumption.
    + destruct (t =? 1).
      * apply gref_bind with (R := eq); [exact Hp|]. intros v ? <-.
        destruct (ncmp v (from_num (Z.of_N cnt))) as [[| |]|]; assumption.
      * apply gref_ret. reflexivity.
Qed.

(* ------------------------------------------------------------------------------------------------ *)
(* the command body and the control tail, generic in the pop and in the restore order *)

Definition gbody (p : N -> M num) (o : list num -> list num) (c : xcode) : M unit :=
  bind get_cur (fun cs =>
  match xty c with
  | 0 => push_wrap cs (nmul (from_num (Z.of_N (xhc c))) (from_num (Z.of_N (xdc c))))
  | 1 => bind (iterM (xhc c) (fun n => bind (p cs) (fun v => ret (nadd n v))) nzero) (fun n => push_wrap (xdc c) n)
  | 2 => bind (iterM (xhc c) (fun n => bind (p cs) (fun v => ret (nmul n v))) n_one) (fun n => push_wrap (xdc c) n)
  | 3 => bind (iterM (xhc c) (fun v => bind (p cs) (fun x => ret (x :: v))) [])
              (fun v =>
               bind (fold_left (fun (m : M num) x => bind m (fun n => let x' := nminus x in
                                 bind (push_wrap cs x') (fun _ => ret (nadd n x')))) (o v) (ret nzero))
                    (fun n => push_wrap (xdc c) n))
  | 4 => bind (iterM (xhc c) (fun v => bind (p cs) (fun x => ret (x :: v))) [])
              (fun v =>
               bind (fold_left (fun (m : M num) x => bind m (fun n => let x' := nflip x in
                                 bind (push_wrap cs x') (fun _ => ret (nmul n x')))) (o v) (ret n_one))
                    (fun n => push_wrap (xdc c) n))
  | _ => bind (p cs) (fun n =>
         bind (iterM (xhc c) (fun _ => push_wrap (xdc c) n) tt) (fun _ =>
         bind (push_wrap cs n) (fun _ => set_cur (xdc c))))
  end).

Definition gtail {T} (K : N -> bool -> T) (p : N -> M num) (c : xcode) (pc : N) : M T :=
  bind get_cur (fun cs =>
  bind (calc (xar c) (xac c) (p cs)) (fun t =>
  if t =? 0 then ret (K (pc + 1) false)
  else if t =? 13 then bind get_latest (fun l => match l with Some loc => ret (K loc true) | None => ret (K (pc + 1) false) end)
  else let id := xac c * 16 + t in
       bind (get_point id) (fun p =>
       match p with
       | Some v => if pc =? v then ret (K (pc + 1) false) else bind (set_latest pc) (fun _ => ret (K v true))
       | None => bind (set_point id pc) (fun _ => ret (K (pc + 1) false))
       end))).

Definition ord (fx : fixes) (v : list num) : list num := if fx5 fx then v else rev v.

Lemma body_gbody : forall c, body c = gbody pop_wrap (fun v => v) c.
Proof. reflexivity. Qed.
Lemma obody_gbody : forall fx c, obody fx c = gbody gpop (ord fx) c.
Proof. reflexivity. Qed.
Lemma exec_gtail : forall c pc, execute_one c pc = bind (body c) (fun _ => gtail (fun n _ => n) pop_wrap c pc).
Proof. reflexivity. Qed.
Lemma oexec_gtail : forall fx c pc, oexecute_one fx c pc = bind (obody fx c) (fun _ => gtail pair gpop c pc).
Proof. reflexivity. Qed.

Ltac gb := apply gref_bind with (R := @eq _).

Lemma gbody_g : forall p1 p2 o1 o2 c, (forall cs, gref eq (p1 cs) (p2 cs)) -> (forall v, o1 v = o2 v) ->
  gref eq (gbody p1 o1 c) (gbody p2 o2 c).
Proof.
  intros p1 p2 o1 o2 c Hp Ho. unfold gbody. gb; [apply get_cur_g|]. intros cs ? <-.
  assert (Hacc : forall (g : num -> num -> num) z, gref eq
            (iterM (xhc c) (fun n => bind (p1 cs) (fun v => ret (g n v))) z)
            (iterM (xhc c) (fun n => bind (p2 cs) (fun v => ret (g n v))) z)).
  { intros g z. apply gref_iterM with (R := eq); [|reflexivity]. intros n ? <-. gb; [apply Hp|].
    intros v ? <-. apply gref_ret. reflexivity. }
  assert (Hcol : gref eq
            (iterM (xhc c) (fun v => bind (p1 cs) (fun x => ret (x :: v))) [])
            (iterM (xhc c) (fun v => bind (p2 cs) (fun x => ret (x :: v))) [])).
  { apply gref_iterM with (R := eq); [|reflexivity]. intros n ? <-. gb; [apply Hp|].
    intros v ? <-. apply gref_ret. reflexivity. }
  assert (Hfold : forall (g : num -> num) (h : num -> num -> num) z v, gref eq
            (fold_left (fun (m : M num) x => bind m (fun n => let x' := g x in
                          bind (push_wrap cs x') (fun _ => ret (h n x')))) (o1 v) (ret z))
            (fold_left (fun (m : M num) x => bind m (fun n => let x' := g x in
                          bind (push_wrap cs x') (fun _ => ret (h n x')))) (o2 v) (ret z))).
  { intros g h z v. rewrite Ho. apply gref_fold with (R := eq); [|apply gref_ret; reflexivity].
    intros m1 m2 x Hm. gb; [exact Hm|]. intros n ? <-. cbv zeta. gb; [apply push_wrap_g|].
    intros _ _ _. apply gref_ret. reflexivity. }
  assert (Hdef : gref eq
            (bind (p1 cs) (fun n => bind (iterM (xhc c) (fun _ => push_wrap (xdc c) n) tt) (fun _ =>
               bind (push_wrap cs n) (fun _ => set_cur (xdc c)))))
            (bind (p2 cs) (fun n => bind (iterM (xhc c) (fun _ => push_wrap (xdc c) n) tt) (fun _ =>
               bind (push_wrap cs n) (fun _ => set_cur (xdc c)))))).
  { gb; [apply Hp|]. intros n ? <-. gb.
    - apply gref_iterM with (R := eq); [|reflexivity]. intros [] ? <-. apply push_wrap_g.
    - intros _ _ _. gb; [apply push_wrap_g|]. intros _ _ _. apply set_cur_g. }
  destruct (xty c) as [|[[q|q|]|[q|[r|r|]|]|]]; cbv beta iota; try exact Hdef.
  - apply push_wrap_g.
  - gb; [exact Hcol|]. intros v ? <-. gb; [apply Hfold|]. intros n ? <-. apply push_wrap_g.
  - gb; [exact Hcol|]. intros v ? <-. gb; [apply Hfold|]. intros n ? <-. apply push_wrap_g.
  - gb; [apply Hacc|]. intros n ? <-. apply push_wrap_g.
  - gb; [apply Hacc|]. intros n ? <-. apply push_wrap_g.
Qed.

Lemma gtail_g : forall {T1 T2} (R : T1 -> T2 -> Prop) K1 K2 p1 p2 c pc,
  (forall cs, gref eq (p1 cs) (p2 cs)) -> (forall n b, R (K1 n b) (K2 n b)) ->
  gref R (gtail K1 p1 c pc) (gtail K2 p2 c pc).
Proof.
  intros T1 T2 R K1 K2 p1 p2 c pc Hp HK. unfold gtail. gb; [apply get_cur_g|]. intros cs ? <-.
  gb; [apply gref_calc; apply Hp|]. intros t ? <-.
  destruct (t =? 0); [apply gref_ret; apply HK|].
  destruct (t =? 13).
  - gb; [apply get_latest_g|]. intros l ? <-. destruct l; apply gref_ret; apply HK.
  - cbv zeta. gb; [apply get_point_g|]. intros p ? <-. destruct p as [v|].
    + destruct (pc =? v); [apply gref_ret; apply HK|]. gb; [apply set_latest_g|].
      intros _ _ _. apply gref_ret; apply HK.
    + gb; [apply set_point_g|]. intros _ _ _. apply gref_ret; apply HK.
Qed.

Lemma oexec_g : forall c pc, gref (fun x y => fst x = y) (oexecute_one all_fixed c pc) (execute_one c pc).
Proof.
  intros c pc. rewrite oexec_gtail, exec_gtail, obody_gbody, body_gbody. gb.
  - apply gbody_g; [apply gpop_g|reflexivity].
  - intros _ _ _. apply gtail_g; [apply gpop_g|reflexivity].
Qed.
Lemma oexec_self : forall fx c pc, gref eq (oexecute_one fx c pc) (oexecute_one fx c pc).
Proof.
  intros fx c pc. rewrite oexec_gtail, obody_gbody. gb.
  - apply gbody_g; [apply gpop_self|reflexivity].
  - intros _ _ _. apply gtail_g; [apply gpop_self|reflexivity].
Qed.

(* ------------------------------------------------------------------------------------------------ *)
(* (A) one speculative step *)

Theorem ostep_sound : ostep_sound_stmt.
Proof.
  intros c pc s pc' j s' H. pose proof (oexec_g c pc s) as G. rewrite H in G.
  destruct G as [Hi [b [E Hb]]]. cbn [fst] in Hb. subst b. auto.
Qed.

Theorem ostep_err : ostep_err_stmt.
Proof.
  intros c pc s e s' H. pose proof (oexec_g c pc s) as G. rewrite H in G.
  destruct G as [Hi [E Hn]]. auto.
Qed.

Theorem ostep_exit : ostep_exit_stmt.
Proof.
  intros fx c pc s k s' H. pose proof (oexec_self fx c pc s) as G. rewrite H in G.
  destruct G as [Hi Hk]. auto.
Qed.

Theorem ostep_no_read : ostep_no_read_stmt.
Proof.
  intros fx c pc s. pose proof (oexec_self fx c pc s) as G.
  destruct (oexecute_one fx c pc s) as [a t|k t|e t]; destruct G as [Hi _]; exact Hi.
Qed.

(* ------------------------------------------------------------------------------------------------ *)
(* (A) the speculative loop over one top-level command *)

(* [oloop_sound_stmt] is false as written: [exec_loop] answers [FFuel] when its fuel is 0, even if [len <= pc],
   and it returns the fuel unchanged when [len <= pc]; so [f = 0] always fails. *)
Theorem oloop_sound_stmt_false : ~ oloop_sound_stmt.
Proof.
  intros H. destruct (H 1%nat [] (state0 SUnopt []) 0 0 0 (state0 SUnopt []) eq_refl) as [k Hk].
  specialize (Hk 0%nat). destruct k; cbn in Hk; discriminate.
Qed.

(* corrected form: the remaining budget is positive; in addition, with exactly k units the real loop stops
   (out of fuel) in the same state *)
Definition oloop_sound'_stmt := forall fuel code s pc len j s',
  opt_loop fuel all_fixed code s pc len j = ODone s' ->
  exists k, forall f, exec_loop (k + S f) code s pc len = (FDone s', S f).

Lemma oloop_sound_strong : forall fuel code s pc len j s',
  opt_loop fuel all_fixed code s pc len j = ODone s' ->
  exists k, (forall f, exec_loop (k + S f) code s pc len = (FDone s', S f)) /\
            (exists pc', exec_loop k code s pc len = (FFuel s' pc', 0%nat)) /\
            inp s' = inp s.
Proof.
  induction fuel as [|fuel IH]; intros code s pc len j s' H; cbn [opt_loop] in H; [discriminate|].
  destruct (len <=? pc) eqn:El.
  - injection H as <-. exists 0%nat. split; [|split].
    + intros f. cbn [Nat.add exec_loop]. rewrite El. reflexivity.
    + exists pc. reflexivity.
    + reflexivity.
  - destruct (100 <=? j); [discriminate|].
    destruct (nth_error code (N.to_nat pc)) as [c|] eqn:En; [|discriminate].
    destruct (oexecute_one all_fixed c pc s) as [[pc1 j1] s1|k1 s1|e1 s1] eqn:Eo; try discriminate.
    apply ostep_sound in Eo. destruct Eo as [Ex Hi].
    destruct (IH _ _ _ _ _ _ H) as [k [H1 [[pc' H2] H3]]]. exists (S k). split; [|split].
    + intros f. cbn [Nat.add exec_loop]. rewrite El, En, Ex. apply H1.
    + exists pc'. cbn [exec_loop]. rewrite El, En, Ex. exact H2.
    + congruence.
Qed.

Theorem oloop_sound' : oloop_sound'_stmt.
Proof.
  intros fuel code s pc len j s' H. destruct (oloop_sound_strong _ _ _ _ _ _ _ H) as [k [H1 _]].
  exists k. exact H1.
Qed.

Lemma oloop_err_strong : forall fuel code s pc len j e s',
  opt_loop fuel all_fixed code s pc len j = OErr e s' ->
  (exists k, forall f, exec_loop (S k + f) code s pc len = (FErr e s', f)) /\ (exists n, e = EEnc n) /\ inp s' = inp s.
Proof.
  induction fuel as [|fuel IH]; intros code s pc len j e s' H; cbn [opt_loop] in H; [discriminate|].
  destruct (len <=? pc) eqn:El; [discriminate|].
  destruct (100 <=? j); [discriminate|].
  destruct (nth_error code (N.to_nat pc)) as [c|] eqn:En; [|discriminate].
  destruct (oexecute_one all_fixed c pc s) as [[pc1 j1] s1|k1 s1|e1 s1] eqn:Eo; try discriminate.
  - apply ostep_sound in Eo. destruct Eo as [Ex Hi].
    destruct (IH _ _ _ _ _ _ _ H) as [[k H1] [H2 H3]]. split; [|split; [exact H2|congruence]].
    exists (S k). intros f. change (S (S k) + f)%nat with (S (S k + f)). cbn [exec_loop].
    rewrite El, En, Ex. apply H1.
  - injection H as <- <-. apply ostep_err in Eo. destruct Eo as [Ex [Hi Hn]]. split; [|split; assumption].
    exists 0%nat. intros f. cbn [Nat.add exec_loop]. rewrite El, En, Ex. reflexivity.
Qed.

Theorem oloop_err : oloop_err_stmt.
Proof. intros fuel code s pc len j e s' H. exact (proj1 (oloop_err_strong _ _ _ _ _ _ _ _ H)). Qed.

(* ------------------------------------------------------------------------------------------------ *)
(* (A) pre-execution *)

Definition preexec_split'_stmt := forall s0 log todo r,
  preexec all_fixed s0 log todo = OptOk r ->
  exists k, forall f, run_inc (k + S f) log todo s0 = run_inc (S f) (olog r) (orest r) (ostate r).
(* for every budget, including 0, the observable behaviour agrees *)
Definition preexec_split_beh_stmt := forall s0 log todo r,
  preexec all_fixed s0 log todo = OptOk r ->
  exists k, forall f, beh (run_inc (k + f) log todo s0) = beh (run_inc f (olog r) (orest r) (ostate r)).

Lemma preexec_split_strong : forall todo s0 log r,
  preexec all_fixed s0 log todo = OptOk r ->
  exists k, (forall f, run_inc (k + S f) log todo s0 = run_inc (S f) (olog r) (orest r) (ostate r)) /\
            beh (run_inc k log todo s0) = beh (run_inc 0 (olog r) (orest r) (ostate r)) /\
            (k = 0%nat -> todo <> []) /\
            inp (ostate r) = inp s0.
Proof.
  induction todo as [|c rest IH]; intros s0 log r H; cbn [preexec] in H.
  - injection H as <-. exists 1%nat. cbn [olog orest ostate run_inc]. repeat split. discriminate.
  - destruct (opt_loop (opt_fuel (log ++ [c])) all_fixed (log ++ [c]) s0 (N.of_nat (length log))
                (N.of_nat (length log) + 1) 0) as [s1|s1|e1 s1| |] eqn:Eo; try discriminate.
    + destruct (oloop_sound_strong _ _ _ _ _ _ _ Eo) as [k1 [H1 [[pc' H2] H3]]].
      destruct (IH _ _ _ H) as [k2 [A [B [C D]]]]. exists (k1 + k2)%nat. split; [|split; [|split]].
      * intros f. cbn [run_inc]. replace (k1 + k2 + S f)%nat with (k1 + S (k2 + f))%nat by lia.
        rewrite H1. replace (S (k2 + f)) with (k2 + S f)%nat by lia. apply A.
      * destruct k2 as [|k2].
        -- rewrite Nat.add_0_r. cbn [run_inc]. rewrite H2. rewrite <- B.
           specialize (C eq_refl). destruct rest as [|c' rest']; [contradiction|]. reflexivity.
        -- cbn [run_inc]. rewrite H1. exact B.
      * intros _. discriminate.
      * congruence.
    + cbn [fx6 all_fixed] in H. injection H as <-. exists 0%nat. cbn [olog orest ostate Nat.add].
      repeat split. discriminate.
Qed.

Theorem preexec_split' : preexec_split'_stmt.
Proof.
  intros s0 log todo r H. destruct (preexec_split_strong _ _ _ _ H) as [k [A _]]. exists k. exact A.
Qed.

Theorem preexec_split_beh : preexec_split_beh_stmt.
Proof.
  intros s0 log todo r H. destruct (preexec_split_strong _ _ _ _ H) as [k [A [B _]]]. exists k.
  intros [|f].
  - rewrite Nat.add_0_r. exact B.
  - rewrite A. reflexivity.
Qed.

Lemma run_inc_0_not_err : forall log todo s e s', run_inc 0 log todo s <> FErr e s'.
Proof. intros log todo s e s'. destruct todo; cbn [run_inc exec_loop]; discriminate. Qed.

Lemma preexec_err_strong : forall todo s0 log e,
  preexec all_fixed s0 log todo = OptErr e ->
  (exists f s', run_inc f log todo s0 = FErr e s') /\ exists n, e = EEnc n.
Proof.
  induction todo as [|c rest IH]; intros s0 log e H; cbn [preexec] in H; [discriminate|].
  destruct (opt_loop (opt_fuel (log ++ [c])) all_fixed (log ++ [c]) s0 (N.of_nat (length log))
              (N.of_nat (length log) + 1) 0) as [s1|s1|e1 s1| |] eqn:Eo; try discriminate.
  - destruct (oloop_sound_strong _ _ _ _ _ _ _ Eo) as [k1 [H1 _]].
    destruct (IH _ _ _ H) as [[f [s' Hf]] Hn]. split; [|exact Hn].
    destruct f as [|f]; [exfalso; exact (run_inc_0_not_err _ _ _ _ _ Hf)|].
    exists (k1 + S f)%nat, s'. cbn [run_inc]. rewrite H1. exact Hf.
  - injection H as <-. destruct (oloop_err_strong _ _ _ _ _ _ _ _ Eo) as [[k Hk] [Hn _]]. split; [|exact Hn].
    exists (S k + 0)%nat, s1. cbn [run_inc]. rewrite Hk. reflexivity.
Qed.

Theorem preexec_err : preexec_err_stmt.
Proof. intros s0 log todo e H. exact (proj1 (preexec_err_strong _ _ _ _ H)). Qed.

(* [preexec_split_stmt] is false as written: it quantifies over every s0, including states whose recorded jump
   target lies outside the code log; there the two runs stop, out of fuel, at different command indices
   (same state, same output), whatever k is. *)
Theorem preexec_split_stmt_false : ~ preexec_split_stmt.
Proof.
  intros H.
  pose (s0 := mkstate SUnopt [] 3 [] (Some 1000) [] [] []).
  pose (s1 := mkstate SUnopt [] 0 [] (Some 1000) [] [] []).
  pose (c1 := mkxcode 5 0 0 0 (Val 13 Nil Nil)).
  pose (c2 := mkxcode 1 1 3 3 Nil).
  assert (E : preexec all_fixed s0 [] [c1; c2] = OptOk (mkopt s1 [c1] [c2])) by (vm_compute; reflexivity).
  destruct (H _ _ _ _ E) as [k Hk]. cbn [olog orest ostate] in Hk.
  destruct k as [|[|[|k]]].
  - specialize (Hk 1%nat). vm_compute in Hk. discriminate.
  - specialize (Hk 0%nat). vm_compute in Hk. discriminate.
  - specialize (Hk 0%nat). vm_compute in Hk. discriminate.
  - specialize (Hk 0%nat). vm_compute in Hk. discriminate.
Qed.

(* ------------------------------------------------------------------------------------------------ *)
(* (B) level 2 *)

Lemma beh_err_inv : forall x e s, beh x = beh (FErr e s) -> exists s', x = FErr e s'.
Proof. intros x e s H. destruct x; cbn [beh] in H; try discriminate. injection H as <- _ _. eauto. Qed.

Section Level2.
  Hypothesis Hlevel1 : level1_wt_stmt.
  Hypothesis Htotal : optimize_total_stmt.

  Theorem level2_wt : level2_wt_stmt.
  Proof.
    intros code input Hk.
    assert (H1 : forall fuel, beh (run_level all_fixed fuel code 0 input) =
                              beh (run_level all_fixed fuel code 1 input)).
    { intros fuel. symmetry. apply Hlevel1. exact Hk. }
    pose proof (Htotal all_fixed code 2 input) as Hst.
    unfold run_level at 2 in H1. unfold run_level at 2.
    change (1 =? 0) with false in H1. change (2 =? 0) with false. cbv iota in H1. cbv iota.
    unfold optimize_prog in *.
    change (1 =? 0) with false in H1. change (1 =? 1) with true in H1.
    change (2 =? 0) with false in *. change (2 =? 1) with false in *. cbv iota in *.
    destruct (renum_map all_fixed code) as [m mx].
    cbn [olog orest ostate] in H1.
    destruct (preexec all_fixed (state0 (SOpt (mx + 1)) input) [] (map (opt_code m mx) code)) as [r|e|] eqn:E.
    - destruct (preexec_split_beh _ _ _ _ E) as [k Hs]. exists k. intros f. rewrite H1. apply Hs.
    - destruct (preexec_err_strong _ _ _ _ E) as [[f [s' Hf]] Hn].
      specialize (H1 f). rewrite Hf in H1. apply beh_err_inv in H1. destruct H1 as [s'' H1].
      exists f, s''. split; assumption.
    - apply Hst. reflexivity.
  Qed.
End Level2.

Print Assumptions ostep_sound.
Print Assumptions ostep_err.
Print Assumptions ostep_exit.
Print Assumptions ostep_no_read.
Print Assumptions oloop_sound'.
Print Assumptions oloop_sound_stmt_false.
Print Assumptions oloop_err.
Print Assumptions preexec_split'.
Print Assumptions preexec_split_beh.
Print Assumptions preexec_split_stmt_false.
Print Assumptions preexec_err.
Print Assumptions level2_wt.
Check level2_wt.
