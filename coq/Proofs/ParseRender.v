(* parse_render: on the text of a valid concrete syntax tree the (repaired) parser returns its meaning.
   parse_prefix_refuted: the pinned parser does not. *)
From Coq Require Import List NArith Lia Bool. Import ListNotations.
From HV Require Import Model.Chars Model.Parse Spec.Grammar Proofs.ParseSpec.
From Coq Require Import ZifyBool.
Open Scope N_scope.

Local Arguments N.add : simpl never.
Local Arguments N.sub : simpl never.
Local Arguments N.leb : simpl never.
Local Arguments N.ltb : simpl never.
Local Arguments N.eqb : simpl never.

(* ------------------------------------------------------------------------------------------- *)
(* character tables                                                                            *)
(* ------------------------------------------------------------------------------------------- *)

Definition mem (c : N) (l : list N) : bool := existsb (fun x => x =? c) l.

Lemma index_mem c l : forall i,
  mem c l = match index_from c l i with Some _ => true | None => false end.
Proof.
  induction l as [|x l IH]; intros i; cbn [mem existsb index_from]; [reflexivity|].
  destruct (x =? c); [reflexivity|]. cbn [orb]. apply IH.
Qed.

Lemma index_bound c l : forall i k, index_from c l i = Some k -> k < i + N.of_nat (length l).
Proof.
  induction l as [|x l IH]; intros i k; cbn [index_from length]; [discriminate|].
  destruct (x =? c).
  - intros [= <-]. lia.
  - intros H. apply IH in H. lia.
Qed.

Lemma single_some c k : index_of c SINGLE = Some k -> mem c SINGLE = true /\ k < 6.
Proof.
  intros H. split.
  - rewrite (index_mem c SINGLE 0). unfold index_of in H. rewrite H. reflexivity.
  - apply index_bound in H. cbn [SINGLE length] in H. lia.
Qed.
Lemma single_none c : index_of c SINGLE = None -> mem c SINGLE = false.
Proof. intros H. rewrite (index_mem c SINGLE 0). unfold index_of in H. rewrite H. reflexivity. Qed.
Lemma start_some c k : index_of c START = Some k -> mem c START = true /\ k < 3.
Proof.
  intros H. split.
  - rewrite (index_mem c START 0). unfold index_of in H. rewrite H. reflexivity.
  - apply index_bound in H. cbn [START length] in H. lia.
Qed.
Lemma heart_mem c : is_heart c = mem c HEARTS.
Proof. unfold is_heart, index_of. symmetry. apply index_mem. Qed.
Lemma heart_none c : is_heart c = false -> index_of c HEARTS = None.
Proof. unfold is_heart. destruct (index_of c HEARTS); [discriminate|reflexivity]. Qed.

Ltac chars :=
  unfold is_areach, is_ws, is_dot, is_hangul, CH_Q, CH_BANG, CH_NL in *;
  rewrite ?heart_mem in *;
  unfold mem, SINGLE, START, HEARTS in *; cbn [existsb] in *; lia.

Lemma ws_other c : is_ws c = true -> is_dot c = false /\ is_areach c = false /\ is_hangul c = false.
Proof. intros H. repeat split; chars. Qed.
Lemma nws_nl c : is_ws c = false -> (c =? 10) = false.
Proof. intros H. chars. Qed.
Lemma ws_nl_ch c : is_ws c = true -> (c =? CH_NL) = (c =? 10).
Proof. reflexivity. Qed.
Lemma single_nws c : mem c SINGLE = true -> is_ws c = false.
Proof. intros H. chars. Qed.
Lemma start_other c : mem c START = true ->
  is_ws c = false /\ mem c SINGLE = false /\ is_dot c = false /\ is_areach c = false.
Proof. intros H. repeat split; chars. Qed.
Lemma dot_narea c : is_dot c = true -> is_areach c = false.
Proof. intros H. chars. Qed.

Lemma end_class_inv e k : end_class e = Some k ->
  is_ws e = false /\ is_hangul e = true /\
  exists t, end_kind e = Some t /\ class_of_kind t = k /\ (t =? 10) = false.
Proof.
  unfold end_class, end_kind.
  destruct (N.eqb_spec e 50633) as [->|]; [intros [= <-]; repeat split; exists 0; repeat split|].
  destruct (N.eqb_spec e 50521) as [->|]; [intros [= <-]; repeat split; exists 1; repeat split|].
  destruct (N.eqb_spec e 50519) as [->|]; [intros [= <-]; repeat split; exists 2; repeat split|].
  cbn [orb].
  destruct (N.eqb_spec e 51023) as [->|]; [intros [= <-]; repeat split; exists 3; repeat split|].
  destruct (N.eqb_spec e 51021) as [->|]; [intros [= <-]; repeat split; exists 4; repeat split|].
  destruct (N.eqb_spec e 51005) as [->|]; [intros [= <-]; repeat split; exists 5; repeat split|].
  discriminate.
Qed.

Lemma end_kind_class x t : end_kind x = Some t -> end_class x = Some (class_of_kind t).
Proof.
  unfold end_kind.
  destruct (N.eqb_spec x 50633) as [->|]; [intros [= <-]; reflexivity|].
  destruct (N.eqb_spec x 50521) as [->|]; [intros [= <-]; reflexivity|].
  destruct (N.eqb_spec x 50519) as [->|]; [intros [= <-]; reflexivity|].
  destruct (N.eqb_spec x 51023) as [->|]; [intros [= <-]; reflexivity|].
  destruct (N.eqb_spec x 51021) as [->|]; [intros [= <-]; reflexivity|].
  destruct (N.eqb_spec x 51005) as [->|]; [intros [= <-]; reflexivity|].
  discriminate.
Qed.

(* ------------------------------------------------------------------------------------------- *)
(* single steps of the suffix parser, on explicit states                                       *)
(* ------------------------------------------------------------------------------------------- *)

Ltac prj := cbn [res type_ hangul dots cloc st bz qz line line_start rawc].

Definition nl_ln (c ln : N) : N := if c =? 10 then ln + 1 else ln.
Definition nl_ls (c i ls : N) : N := if c =? 10 then i + 1 else ls.

Lemma nws_ln c ln : is_ws c = false -> nl_ln c ln = ln.
Proof. intros H. unfold nl_ln. rewrite (nws_nl _ H). reflexivity. Qed.
Lemma nws_ls c i ls : is_ws c = false -> nl_ls c i ls = ls.
Proof. intros H. unfold nl_ls. rewrite (nws_nl _ H). reflexivity. Qed.

Lemma step_ws bug rest r t h d cl st b q ln ls rw i c :
  is_ws c = true ->
  step_s bug rest (mkpst r t h d cl st b q ln ls rw) i c
  = mkpst r t h d cl st b q (nl_ln c ln) (nl_ls c i ls) rw.
Proof.
  intros H. unfold step_s, step, nl_ln, nl_ls, CH_NL. rewrite H. prj.
  destruct (c =? 10); reflexivity.
Qed.

Lemma mp_get_s rest i k : k < 3 ->
  (mp_get (if later_end 0 rest then i + 1 else 0, if later_end 1 rest then i + 1 else 0,
           if later_end 2 rest then i + 1 else 0) k <=? i) = negb (later_end k rest).
Proof.
  intros Hk. assert (k = 0 \/ k = 1 \/ k = 2) as [-> | [-> | ->]] by lia; unfold mp_get.
  - change (0 =? 0) with true. cbn match. destruct (later_end 0 rest); lia.
  - change (1 =? 0) with false. change (1 =? 1) with true. cbn match. destruct (later_end 1 rest); lia.
  - change (2 =? 0) with false. change (2 =? 1) with false. cbn match. destruct (later_end 2 rest); lia.
Qed.

Lemma step_single rest r t h d cl st b q ln ls rw i c k :
  (st =? 1) = false -> index_of c SINGLE = Some k ->
  step_s false rest (mkpst r t h d cl st b q ln ls rw) i c
  = mkpst (flush (mkpst r t h d cl st b q ln ls rw)) k 1 0 (ln + 1, i - ls) 0 bang0 [] ln ls [c].
Proof.
  intros Hst Hk. destruct (single_some _ _ Hk) as [Hm Hk6]. pose proof (single_nws _ Hm) as Hws.
  unfold step_s, step. prj. rewrite Hws, Hst, Hk. prj.
  replace (k <? 6) with true by lia. cbn [negb]. rewrite orb_true_r. reflexivity.
Qed.

Lemma step_multi rest r t h d cl st b q ln ls rw i c k :
  (st =? 1) = false -> index_of c START = Some k -> later_end k rest = true ->
  step_s false rest (mkpst r t h d cl st b q ln ls rw) i c
  = mkpst (flush (mkpst r t h d cl st b q ln ls rw)) (k + 6) 1 0 (ln + 1, i - ls) 1 bang0 [] ln ls [c].
Proof.
  intros Hst Hk Hl. destruct (start_some _ _ Hk) as [Hm Hk3].
  destruct (start_other _ Hm) as (Hws & Hsg & _ & _).
  assert (index_of c SINGLE = None) as Hn.
  { unfold index_of. rewrite (index_mem c SINGLE 0) in Hsg. destruct (index_from c SINGLE 0); [discriminate|reflexivity]. }
  unfold step_s, step. prj. rewrite Hws, Hst, Hn, Hk. prj.
  rewrite mp_get_s by assumption. rewrite Hl. cbn [negb]. cbn match.
  replace (k + 6 <? 6) with false by lia. rewrite orb_true_r. reflexivity.
Qed.

Lemma step_inner rest r k h d cl b q ln ls rw i x :
  match end_class x with Some j => negb (j =? k) | None => true end = true ->
  step_s false rest (mkpst r (k + 6) h d cl 1 b q ln ls rw) i x
  = mkpst r (k + 6) (if is_hangul x then h + 1 else h) d cl 1 b q (nl_ln x ln) (nl_ls x i ls)
          (if is_hangul x then x :: rw else rw).
Proof.
  intros Hx. destruct (is_ws x) eqn:Hws.
  - rewrite step_ws by assumption. destruct (ws_other _ Hws) as (_ & _ & Hh). rewrite Hh. reflexivity.
  - rewrite nws_ln, nws_ls by assumption. unfold step_s, step. prj. rewrite Hws.
    change (1 =? 1) with true. prj.
    destruct (end_kind x) as [t|] eqn:E; [|reflexivity].
    apply end_kind_class in E. rewrite E in Hx.
    replace (class_of_kind t + 6 =? k + 6) with false by lia. reflexivity.
Qed.

Lemma step_term rest r k h d cl b q ln ls rw i e t :
  end_class e = Some k -> end_kind e = Some t ->
  step_s false rest (mkpst r (k + 6) h d cl 1 b q ln ls rw) i e
  = mkpst r t (h + 1) 0 cl 0 b q ln ls (e :: rw).
Proof.
  intros He Ht. destruct (end_class_inv _ _ He) as (Hws & Hh & t' & Ht' & Hc & _).
  rewrite Ht in Ht'. injection Ht' as <-.
  unfold step_s, step. prj. rewrite Hws. change (1 =? 1) with true. prj.
  rewrite Ht, Hh, Hc, N.eqb_refl. reflexivity.
Qed.

(* characters that start nothing, outside a multi-syllable head *)
Definition nsD (c st d : N) : N := if is_dot c && (st =? 0) then d + dot_val c else d.
Definition nsS (c st : N) : N := if is_areach c then 2 else st.
Definition nsR (c st : N) (rw : list N) : list N :=
  if (is_dot c && (st =? 0)) || is_areach c then c :: rw else rw.

Lemma area_noop z c : is_areach c = false -> area_step z c = z.
Proof.
  intros H. destruct z as [b q]. unfold is_areach in H.
  apply orb_false_iff in H. destruct H as [H H3]. apply orb_false_iff in H. destruct H as [H1 H2].
  unfold area_step. rewrite H1, H2, (heart_none _ H3). reflexivity.
Qed.

Lemma step_ns rest r t h d cl st b q ln ls rw i c :
  (st =? 1) = false -> starts c rest = false ->
  step_s false rest (mkpst r t h d cl st b q ln ls rw) i c
  = mkpst r t h (nsD c st d) cl (nsS c st) (fst (area_step (b, q) c)) (snd (area_step (b, q) c))
          (nl_ln c ln) (nl_ls c i ls) (nsR c st rw).
Proof.
  intros Hst Hs. destruct (is_ws c) eqn:Hws.
  - rewrite step_ws by assumption. destruct (ws_other _ Hws) as (Hd & Ha & _).
    unfold nsD, nsS, nsR. rewrite Hd, Ha, (area_noop _ _ Ha). reflexivity.
  - rewrite nws_ln, nws_ls by assumption. unfold starts in Hs. unfold step_s, step. prj.
    rewrite Hws, Hst. prj.
    destruct (index_of c SINGLE) eqn:E1; [discriminate|].
    destruct (index_of c START) as [k|] eqn:E2.
    + destruct (start_some _ _ E2) as [Hm Hk]. destruct (start_other _ Hm) as (_ & _ & Hd & Ha).
      rewrite mp_get_s by assumption. rewrite Hs. cbn [negb]. cbn match.
      unfold nsD, nsS, nsR. rewrite Hd, Ha, (area_noop _ _ Ha). reflexivity.
    + unfold nsD, nsS, nsR. destruct (is_dot c) eqn:Hd.
      * rewrite (dot_narea _ Hd), (area_noop _ _ (dot_narea _ Hd)). cbn [andb orb fst snd].
        destruct (st =? 0) eqn:H0; [|reflexivity]. apply N.eqb_eq in H0. subst st. reflexivity.
      * cbn [andb orb]. unfold is_areach, area_step.
        destruct (c =? CH_Q); [reflexivity|]. destruct (c =? CH_BANG); [reflexivity|].
        cbn [orb]. unfold is_heart. destruct (index_of c HEARTS); reflexivity.
Qed.

(* ------------------------------------------------------------------------------------------- *)
(* running over a segment that is followed by [after]                                          *)
(* ------------------------------------------------------------------------------------------- *)

Fixpoint run_a (l after : list N) (i : N) (s : pst) : pst :=
  match l with [] => s | c :: r => run_a r after (i + 1) (step_s false (r ++ after) s i c) end.
Fixpoint lnf (l : list N) (ln : N) : N :=
  match l with [] => ln | c :: r => lnf r (nl_ln c ln) end.
Fixpoint lsf (l : list N) (i ls : N) : N :=
  match l with [] => ls | c :: r => lsf r (i + 1) (nl_ls c i ls) end.

Definition len (l : list N) : N := N.of_nat (length l).
Lemma len_cons c l : len (c :: l) = 1 + len l.
Proof. unfold len. cbn [length]. lia. Qed.
Lemma len_app l1 l2 : len (l1 ++ l2) = len l1 + len l2.
Proof. unfold len. rewrite app_length. lia. Qed.
Lemma len_nil : len [] = 0.
Proof. reflexivity. Qed.

Lemma run_s_app l after : forall i s,
  run_s false (l ++ after) i s = run_s false after (i + len l) (run_a l after i s).
Proof.
  induction l as [|c l IH]; intros i s.
  - cbn [app run_a]. rewrite len_nil, N.add_0_r. reflexivity.
  - cbn [app run_s run_a]. rewrite IH, len_cons. f_equal. lia.
Qed.

Lemma run_a_app l1 l2 after : forall i s,
  run_a (l1 ++ l2) after i s = run_a l2 after (i + len l1) (run_a l1 (l2 ++ after) i s).
Proof.
  induction l1 as [|c l1 IH]; intros i s.
  - cbn [app run_a]. rewrite len_nil, N.add_0_r. reflexivity.
  - cbn [app run_a]. rewrite IH, len_cons, <- app_assoc. f_equal. lia.
Qed.

Lemma lnf_app l1 l2 : forall ln, lnf (l1 ++ l2) ln = lnf l2 (lnf l1 ln).
Proof. induction l1 as [|c l1 IH]; intros ln; cbn [app lnf]; [reflexivity|apply IH]. Qed.
Lemma lsf_app l1 l2 : forall i ls, lsf (l1 ++ l2) i ls = lsf l2 (i + len l1) (lsf l1 i ls).
Proof.
  induction l1 as [|c l1 IH]; intros i ls; cbn [app lsf].
  - rewrite len_nil, N.add_0_r. reflexivity.
  - rewrite IH, len_cons. f_equal. lia.
Qed.

(* position bookkeeping agrees with [advance] *)
Definition pos (ln ls i : N) (lc : N * N) : Prop := ln + 1 = fst lc /\ ls + snd lc = i.
Lemma pos_adv l : forall ln ls i lc, pos ln ls i lc ->
  pos (lnf l ln) (lsf l i ls) (i + len l) (advance l lc).
Proof.
  induction l as [|c l IH]; intros ln ls i lc [H1 H2].
  - cbn [lnf lsf advance]. rewrite len_nil, N.add_0_r. split; assumption.
  - cbn [lnf lsf advance]. rewrite len_cons.
    replace (i + (1 + len l)) with ((i + 1) + len l) by lia. apply IH.
    unfold nl_ln, nl_ls, pos, CH_NL. destruct (c =? 10); cbn [fst snd]; lia.
Qed.
Lemma pos_loc ln ls i lc : pos ln ls i lc -> (ln + 1, i - ls) = lc.
Proof. destruct lc as [a b]. intros [H1 H2]. cbn [fst snd] in *. f_equal; lia. Qed.

(* ---- non-starting characters ---- *)
Fixpoint ns_run (l : list N) (st d : N) (z : bangz * list area) (rw : list N)
  : N * N * (bangz * list area) * list N :=
  match l with
  | [] => (st, d, z, rw)
  | c :: r => ns_run r (nsS c st) (nsD c st d) (area_step z c) (nsR c st rw)
  end.

Lemma nsS_n1 c st : (st =? 1) = false -> (nsS c st =? 1) = false.
Proof. intros H. unfold nsS. destruct (is_areach c); [reflexivity|assumption]. Qed.

Lemma run_ns l after : forall r t h d cl st b q ln ls rw i st' d' b' q' rw',
  all_ctx (fun x a => negb (starts x a)) l after = true ->
  (st =? 1) = false ->
  ns_run l st d (b, q) rw = (st', d', (b', q'), rw') ->
  run_a l after i (mkpst r t h d cl st b q ln ls rw)
  = mkpst r t h d' cl st' b' q' (lnf l ln) (lsf l i ls) rw'.
Proof.
  induction l as [|c l IH]; intros r t h d cl st b q ln ls rw i st' d' b' q' rw' Hv Hst Hr.
  - cbn [ns_run] in Hr. injection Hr as <- <- <- <- <-. reflexivity.
  - cbn [all_ctx] in Hv. apply andb_true_iff in Hv. destruct Hv as [Hc Hv].
    apply negb_true_iff in Hc.
    cbn [run_a lnf lsf]. rewrite step_ns by assumption.
    cbn [ns_run] in Hr. destruct (area_step (b, q) c) as [b1 q1]. cbn [fst snd].
    apply IH; [assumption|apply nsS_n1; assumption|assumption].
Qed.

Lemma ns_run_st l : forall st d z rw st' d' z' rw',
  (st =? 1) = false -> ns_run l st d z rw = (st', d', z', rw') -> (st' =? 1) = false.
Proof.
  induction l as [|c l IH]; intros st d z rw st' d' z' rw' Hst Hr; cbn [ns_run] in Hr.
  - injection Hr as <- _ _ _. assumption.
  - eapply IH; [|eassumption]. apply nsS_n1. assumption.
Qed.

Lemma ns_run_dots l : forall d z rw,
  forallb (fun x => negb (is_areach x)) l = true ->
  ns_run l 0 d z rw = (0, d + dots_of l, z, rev (filter is_dot l) ++ rw).
Proof.
  induction l as [|c l IH]; intros d z rw H.
  - cbn [ns_run dots_of fold_right filter rev app]. rewrite N.add_0_r. reflexivity.
  - cbn [forallb] in H. apply andb_true_iff in H. destruct H as [Ha H]. apply negb_true_iff in Ha.
    cbn [ns_run]. unfold nsS, nsD, nsR. rewrite Ha, (area_noop _ _ Ha).
    change (0 =? 0) with true. rewrite andb_true_r, orb_false_r.
    rewrite IH by assumption. unfold dots_of. cbn [fold_right filter].
    destruct (is_dot c); cbn [rev]; rewrite <- ?app_assoc; cbn [app];
      [rewrite N.add_assoc|rewrite N.add_0_l]; reflexivity.
Qed.

Lemma ns_run_area2 l : forall d z rw,
  ns_run l 2 d z rw = (2, d, fold_left area_step l z, rev (filter is_areach l) ++ rw).
Proof.
  induction l as [|c l IH]; intros d z rw.
  - reflexivity.
  - cbn [ns_run fold_left filter]. unfold nsS, nsD, nsR. change (2 =? 0) with false.
    rewrite andb_false_r. cbn [orb].
    destruct (is_areach c); rewrite IH; cbn [rev]; rewrite <- ?app_assoc; reflexivity.
Qed.

Lemma ns_run_area0 l d z rw :
  match l with [] => true | x :: _ => is_areach x end = true ->
  exists st', (st' =? 1) = false /\
    ns_run l 0 d z rw = (st', d, fold_left area_step l z, rev (filter is_areach l) ++ rw).
Proof.
  destruct l as [|c l]; intros H.
  - exists 0. split; reflexivity.
  - exists 2. split; [reflexivity|].
    cbn [ns_run fold_left filter]. unfold nsS, nsD, nsR. rewrite H.
    assert (is_dot c = false) as Hd.
    { destruct (is_dot c) eqn:E; [|reflexivity]. apply dot_narea in E. congruence. }
    rewrite Hd. cbn [andb orb]. rewrite ns_run_area2. cbn [rev]. rewrite <- app_assoc. reflexivity.
Qed.

Lemma fold_filter_area l : forall z,
  fold_left area_step (filter is_areach l) z = fold_left area_step l z.
Proof.
  induction l as [|c l IH]; intros z; [reflexivity|].
  cbn [filter fold_left]. destruct (is_areach c) eqn:E.
  - cbn [fold_left]. apply IH.
  - rewrite (area_noop _ _ E). apply IH.
Qed.

Lemma all_ctx_weaken (p p' : N -> list N -> bool) l after :
  (forall x a, p x a = true -> p' x a = true) -> all_ctx p l after = true -> all_ctx p' l after = true.
Proof.
  intros Hp. induction l as [|c l IH]; [reflexivity|].
  cbn [all_ctx]. rewrite !andb_true_iff. intros [H1 H2]. split; auto.
Qed.
Lemma all_ctx_forallb (p : N -> bool) l after :
  all_ctx (fun x _ => p x) l after = forallb p l.
Proof. induction l as [|c l IH]; [reflexivity|]. cbn [all_ctx forallb]. rewrite IH. reflexivity. Qed.

(* ---- heads ---- *)
Lemma later_end_mid k l1 e l2 : end_class e = Some k -> later_end k (l1 ++ e :: l2) = true.
Proof.
  intros H. unfold later_end. rewrite existsb_app. cbn [existsb]. rewrite H, N.eqb_refl.
  cbn [orb]. apply orb_true_r.
Qed.

Lemma run_inner k inner after : forall r h d cl b q ln ls rw i,
  forallb (fun x => match end_class x with Some j => negb (j =? k) | None => true end) inner = true ->
  run_a inner after i (mkpst r (k + 6) h d cl 1 b q ln ls rw)
  = mkpst r (k + 6) (h + len (filter is_hangul inner)) d cl 1 b q (lnf inner ln) (lsf inner i ls)
          (rev (filter is_hangul inner) ++ rw).
Proof.
  induction inner as [|c inner IH]; intros r h d cl b q ln ls rw i H.
  - cbn [run_a filter lnf lsf rev app]. rewrite len_nil, N.add_0_r. reflexivity.
  - cbn [forallb] in H. apply andb_true_iff in H. destruct H as [Hc H].
    cbn [run_a lnf lsf filter]. rewrite step_inner by assumption. rewrite IH by assumption.
    destruct (is_hangul c); [|reflexivity].
    rewrite len_cons. cbn [rev]. rewrite <- app_assoc. cbn [app]. f_equal. lia.
Qed.

Lemma run_head hd after r t h d cl st b q ln ls rw i :
  valid_head hd = true -> (st =? 1) = false ->
  run_a (flat_head hd) after i (mkpst r t h d cl st b q ln ls rw)
  = mkpst (flush (mkpst r t h d cl st b q ln ls rw)) (head_kind hd) (head_syl hd) 0 (ln + 1, i - ls) 0
          bang0 [] (lnf (flat_head hd) ln) (lsf (flat_head hd) i ls) (rev (head_raw hd)).
Proof.
  destruct hd as [c|s inner e]; cbn [valid_head flat_head head_kind head_syl head_raw].
  - destruct (index_of c SINGLE) as [k|] eqn:E; [|discriminate]. intros _ Hst.
    cbn [run_a lnf lsf]. rewrite (step_single _ r t h d cl st b q ln ls rw i c k) by assumption.
    destruct (single_some _ _ E) as [Hm _]. pose proof (single_nws _ Hm) as Hws.
    rewrite nws_ln, nws_ls by assumption. reflexivity.
  - destruct (index_of s START) as [k|] eqn:Es; [|discriminate].
    destruct (end_class e) as [k'|] eqn:Ee; [|discriminate]. intros H Hst.
    apply andb_true_iff in H. destruct H as [Hk Hin]. apply N.eqb_eq in Hk. subst k'.
    destruct (end_class_inv _ _ Ee) as (Hwe & Hhe & t' & Ht & Hc & _). rewrite Ht.
    destruct (start_some _ _ Es) as [Hm _]. destruct (start_other _ Hm) as (Hws & _).
    cbn [run_a lnf lsf].
    rewrite (step_multi _ r t h d cl st b q ln ls rw i s k);
      [|assumption|assumption|rewrite <- app_assoc; apply later_end_mid; assumption].
    rewrite run_a_app, lnf_app, lsf_app. rewrite run_inner by assumption. cbn [run_a lnf lsf].
    rewrite (step_term _ _ _ _ _ _ _ _ _ _ _ _ _ t') by assumption.
    rewrite !nws_ln, !nws_ls by assumption.
    cbn [rev]. rewrite rev_app_distr. cbn [rev app]. unfold len. f_equal. lia.
Qed.

Lemma flush_cmd r k h d cl st b q ln ls rw : (k =? 10) = false ->
  flush (mkpst r k h d cl st b q ln ls rw)
  = mkucode k h d cl (area_finish (b, q)) (rev rw) :: r.
Proof. intros H. unfold flush, finish, area_finish. prj. rewrite H. reflexivity. Qed.

Lemma head_kind_n10 hd : valid_head hd = true -> (head_kind hd =? 10) = false.
Proof.
  destruct hd as [c|s inner e]; cbn [valid_head head_kind].
  - destruct (index_of c SINGLE) as [k|] eqn:E; [|discriminate]. intros _.
    destruct (single_some _ _ E) as [_ Hk]. lia.
  - destruct (index_of s START) as [k|] eqn:Es; [|discriminate].
    destruct (end_class e) as [k'|] eqn:Ee; [|discriminate]. intros _.
    destruct (end_class_inv _ _ Ee) as (_ & _ & t' & Ht & _ & Hn). rewrite Ht. assumption.
Qed.

(* ---- one command ---- *)
Lemma run_cmd c after r t h d cl st b q ln ls rw i :
  valid_cmd c after = true -> (st =? 1) = false ->
  exists st' b' q',
    (st' =? 1) = false /\ (head_kind (chead c) =? 10) = false /\
    (b', q') = fold_left area_step (careaitems c) (bang0, []) /\
    run_a (flat_cmd c) after i (mkpst r t h d cl st b q ln ls rw)
    = mkpst (flush (mkpst r t h d cl st b q ln ls rw)) (head_kind (chead c)) (head_syl (chead c))
            (dots_of (cdotitems c)) (ln + 1, i - ls) st' b' q'
            (lnf (flat_cmd c) ln) (lsf (flat_cmd c) i ls)
            (rev (head_raw (chead c) ++ filter is_dot (cdotitems c) ++ filter is_areach (careaitems c))).
Proof.
  destruct c as [hd ds ar]. unfold valid_cmd, flat_cmd. cbn [chead cdotitems careaitems].
  intros H Hst.
  apply andb_true_iff in H. destruct H as [H HD].
  apply andb_true_iff in H. destruct H as [H HC].
  apply andb_true_iff in H. destruct H as [HA HB].
  assert (all_ctx (fun x a => negb (starts x a)) ds (ar ++ after) = true) as HB1.
  { revert HB. apply all_ctx_weaken. intros x a Hx. apply andb_true_iff in Hx. apply Hx. }
  assert (forallb (fun x => negb (is_areach x)) ds = true) as HB2.
  { rewrite <- (all_ctx_forallb _ ds (ar ++ after)). revert HB. apply all_ctx_weaken.
    intros x a Hx. apply andb_true_iff in Hx. apply Hx. }
  destruct (ns_run_area0 ar (0 + dots_of ds) (bang0, []) (rev (filter is_dot ds) ++ rev (head_raw hd)) HC)
    as (st' & Hst' & Hr).
  destruct (fold_left area_step ar (bang0, [])) as [b' q'] eqn:Ef.
  exists st', b', q'. split; [assumption|]. split; [apply head_kind_n10; assumption|].
  split; [reflexivity|].
  rewrite run_a_app, run_a_app. rewrite run_head by assumption.
  erewrite run_ns; [|exact HB1|reflexivity|apply ns_run_dots; exact HB2].
  erewrite run_ns; [|exact HD|reflexivity|exact Hr].
  rewrite !lnf_app, !lsf_app, !rev_app_distr, <- app_assoc, N.add_0_l. reflexivity.
Qed.

Section Render.
Hypothesis Hpre : run_suffix_stmt.
Hypothesis Harea : area_build_stmt.

Lemma glue cs : forall s i lc,
  valid_cmds cs = true -> (st s =? 1) = false -> pos (line s) (line_start s) i lc ->
  rev (flush (run_s false (flat_cmds cs) i s)) = rev (flush s) ++ abstract_cmds cs lc.
Proof.
  induction cs as [|c cs IH]; intros s i lc Hv Hst Hp.
  - cbn [flat_cmds flat_map run_s abstract_cmds]. rewrite app_nil_r. reflexivity.
  - cbn [valid_cmds] in Hv. apply andb_true_iff in Hv. destruct Hv as [Hc Hv].
    change (flat_cmds (c :: cs)) with (flat_cmd c ++ flat_cmds cs).
    rewrite run_s_app. destruct s as [r t h d cl st0 b q ln ls rw]. cbn [st line line_start] in Hst, Hp.
    destruct (run_cmd c (flat_cmds cs) r t h d cl st0 b q ln ls rw i Hc Hst)
      as (st' & b' & q' & Hst' & Hk & Hf & Hrun).
    rewrite Hrun.
    rewrite IH with (lc := advance (flat_cmd c) lc);
      [|assumption|exact Hst'|prj; apply pos_adv; assumption].
    rewrite flush_cmd by assumption. cbn [rev abstract_cmds]. rewrite <- app_assoc. cbn [app].
    f_equal. f_equal. unfold abstract_cmd. f_equal.
    + apply pos_loc. assumption.
    + rewrite Hf, <- fold_filter_area. apply Harea.
    + apply rev_involutive.
Qed.

Theorem parse_render : parse_render_stmt.
Proof.
  intros [pre cs] Hv. unfold valid in Hv. cbn [cprefix ccmds] in Hv.
  apply andb_true_iff in Hv. destruct Hv as [Hp Hc].
  unfold parse, parse_gen, flatten, abstract. cbn [cprefix ccmds].
  rewrite (Hpre false (pre ++ flat_cmds cs)). rewrite run_s_app. unfold pst0.
  destruct (ns_run pre 0 0 (bang0, []) []) as [[[st' d'] [b' q']] rw'] eqn:Er.
  erewrite run_ns; [|exact Hp|reflexivity|exact Er].
  rewrite glue with (lc := advance pre (1, 0)).
  - unfold flush. prj. change (10 =? 10) with true. reflexivity.
  - assumption.
  - prj. eapply ns_run_st; [|exact Er]. reflexivity.
  - prj. apply pos_adv. split; reflexivity.
Qed.
End Render.

Theorem parse_prefix_refuted : parse_prefix_refuted_stmt.
Proof.
  exists (mkcst [63] [mkccmd (HSingle 54805) [] []]). split.
  - vm_compute. reflexivity.
  - intros H. vm_compute in H. discriminate H.
Qed.

Print Assumptions parse_render.
Print Assumptions parse_prefix_refuted.
