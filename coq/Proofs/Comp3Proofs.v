(* Discharging the premises of the level-2 compiler theorem for the states the optimiser produces. *)
From Coq Require Import List NArith ZArith Lia Bool. Import ListNotations.
From HV Require Import Model.Big Model.Rat Model.NumText Model.Chars Model.Parse Model.Exec Model.Opt Model.Compile
  Proofs.RatSpec Proofs.ExecSpec Proofs.OptSpec Proofs.AppSpec Proofs.CompSpec Proofs.CoroSpec Proofs.Comp2Spec
  Proofs.Comp3Spec Proofs.OptAll Proofs.AppAll.
From HV Require Proofs.ExecVal Proofs.OptTerm Proofs.ReplProofs Proofs.CliProofs Proofs.ExtraProofs Proofs.TopProofs
  Proofs.CompLevel2.
Open Scope N_scope.

Arguments N.add : simpl never.
Arguments N.mul : simpl never.
Arguments N.sub : simpl never.
Arguments N.pow : simpl never.
Arguments N.leb : simpl never.
Arguments N.ltb : simpl never.
Arguments N.eqb : simpl never.

(* ------------------------------------------------------------------ *)
(* number facts *)

Lemma wf_nan : wfn nan.
Proof. pose proof ExecVal.vof_consts as H. unfold vof_consts_stmt in H. tauto. Qed.
Lemma wf_zero : wfn nzero.
Proof. pose proof ExecVal.vof_consts as H. unfold vof_consts_stmt in H. tauto. Qed.
Lemma wf_one : wfn n_one.
Proof. pose proof ExecVal.vof_consts as H. unfold vof_consts_stmt in H. tauto. Qed.
Lemma wf_add a b : wfn a -> wfn b -> wfn (nadd a b).
Proof. intros Ha Hb. apply (ExecVal.vof_add a b Ha Hb). Qed.
Lemma wf_mul a b : wfn a -> wfn b -> wfn (nmul a b).
Proof. intros Ha Hb. apply (ExecVal.vof_mul a b Ha Hb). Qed.
Lemma wf_minus a : wfn a -> wfn (nminus a).
Proof. intros Ha. destruct (ExecVal.vof_neg a Ha) as (H1 & _ & H3). rewrite H3. exact H1. Qed.
Lemma wf_flip a : wfn a -> wfn (nflip a).
Proof. intros Ha. apply (ExecVal.vof_flip a Ha). Qed.
Lemma wf_nat n : n < 2 ^ 63 -> wfn (from_num (Z.of_N n)).
Proof. intros Hn. apply (ExecVal.vof_nat n Hn). Qed.

(* ------------------------------------------------------------------ *)
(* association lists *)

Lemma alist_set_keys {V} (l : list (N * V)) k v k' :
  In k' (map fst (alist_set l k v)) -> k' = k \/ In k' (map fst l).
Proof.
  induction l as [|[k0 v0] r IH]; cbn [alist_set map fst In].
  - intros [H|[]]. left. symmetry. exact H.
  - destruct (k0 =? k) eqn:E; cbn [map fst In].
    + intros [H|H]; [left; symmetry; exact H | right; right; exact H].
    + intros [H|H]; [right; left; exact H|].
      destruct (IH H) as [G|G]; [left; exact G | right; right; exact G].
Qed.

Lemma alist_set_nodup {V} (l : list (N * V)) k v : NoDup (map fst l) -> NoDup (map fst (alist_set l k v)).
Proof.
  induction l as [|[k0 v0] r IH]; cbn [alist_set map fst]; intros H.
  - constructor; [intros []|constructor].
  - apply NoDup_cons_iff in H. destruct H as [Hn Hd].
    destruct (k0 =? k) eqn:E; cbn [map fst].
    + apply N.eqb_eq in E. subst k0. constructor; assumption.
    + apply N.eqb_neq in E. constructor; [|apply IH; exact Hd].
      intros Hin. apply alist_set_keys in Hin.
      destruct Hin as [G|G]; [apply E; exact G | apply Hn; exact G].
Qed.

Lemma alist_set_forall {V} (P : N * V -> Prop) l k v : Forall P l -> P (k, v) -> Forall P (alist_set l k v).
Proof.
  intros Hl Hp. induction Hl as [|[k0 v0] r H0 Hr IH]; cbn [alist_set].
  - constructor; [exact Hp|constructor].
  - destruct (k0 =? k); constructor; assumption.
Qed.

Lemma alist_get_forall {V} (Q : V -> Prop) (l : list (N * V)) k v :
  Forall (fun p => Q (snd p)) l -> alist_get l k = Some v -> Q v.
Proof.
  intros Hl. induction Hl as [|[k0 v0] r H0 Hr IH]; cbn [alist_get].
  - intros X; discriminate X.
  - destruct (k0 =? k); [intros X; injection X as <-; exact H0 | exact IH].
Qed.

(* ------------------------------------------------------------------ *)
(* the state invariant and a Hoare triple over the state monad *)

Definition okc (c : xcode) : Prop := xty c = 0 -> xhc c < 2 ^ 63 /\ xdc c < 2 ^ 63.
Definition SI (s : state) : Prop := stacks_wf s /\ input_small s.

Lemma get_stack_wf s i : stacks_wf s -> Forall wfn (get_stack s i).
Proof.
  intros [_ Hf]. unfold get_stack. destruct (alist_get (stacks s) i) as [l|] eqn:E; [|constructor].
  exact (alist_get_forall (Forall wfn) _ _ _ Hf E).
Qed.

Lemma SI_set_stack s i l : SI s -> Forall wfn l -> SI (set_stack s i l).
Proof.
  intros [[Hn Hf] Hi] Hl. split; [split|].
  - cbn [set_stack stacks]. apply alist_set_nodup. exact Hn.
  - cbn [set_stack stacks]. apply alist_set_forall; [exact Hf | exact Hl].
  - exact Hi.
Qed.

Definition hpost {A} (Q : A -> Prop) (r : res A) : Prop :=
  match r with ROk a t => SI t /\ Q a | RExit _ t | RErr _ t => SI t end.
Definition hoare {A} (m : M A) (Q : A -> Prop) : Prop := forall s, SI s -> hpost Q (m s).
Definition anyv {A} (_ : A) : Prop := True.

Lemma h_ret {A} (Q : A -> Prop) a : Q a -> hoare (ret a) Q.
Proof. intros Hq s HS. cbn. split; assumption. Qed.
Lemma h_fail {A} (Q : A -> Prop) e : hoare (@fail A e) Q.
Proof. intros s HS. cbn. exact HS. Qed.
Lemma h_exit {A} (Q : A -> Prop) k : hoare (@exit_ A k) Q.
Proof. intros s HS. cbn. exact HS. Qed.

Lemma h_bind {A B} (m : M A) (f : A -> M B) (Q : A -> Prop) (R : B -> Prop) :
  hoare m Q -> (forall a, Q a -> hoare (f a) R) -> hoare (bind m f) R.
Proof.
  intros Hm Hf s HS. unfold bind. specialize (Hm s HS).
  destruct (m s) as [a t|k t|e t]; cbn [hpost] in *.
  - destruct Hm as [Ht Ha]. apply Hf; assumption.
  - exact Hm.
  - exact Hm.
Qed.

Lemma h_weaken {A} (m : M A) (Q Q' : A -> Prop) : hoare m Q -> (forall a, Q a -> Q' a) -> hoare m Q'.
Proof.
  intros Hm Hq s HS. specialize (Hm s HS). destruct (m s) as [a t|k t|e t]; cbn [hpost] in *; try exact Hm.
  destruct Hm as [Ht Ha]. split; [exact Ht | apply Hq; exact Ha].
Qed.

Lemma h_iterM {A} (Q : A -> Prop) n (f : A -> M A) a :
  Q a -> (forall x, Q x -> hoare (f x) Q) -> hoare (iterM n f a) Q.
Proof.
  intros Ha Hf. induction n as [|n IH] using N.peano_ind.
  - rewrite OptTerm.iterM_0. apply h_ret. exact Ha.
  - rewrite OptTerm.iterM_succ. apply (h_bind _ _ Q); assumption.
Qed.

Lemma h_calc a cnt pop (Q : num -> Prop) : hoare pop Q -> hoare (calc a cnt pop) anyv.
Proof.
  intros Hp. induction a as [|t l IHl r IHr]; cbn [calc].
  - apply h_ret. exact I.
  - destruct (t =? 0).
    + apply (h_bind _ _ Q); [exact Hp|]. intros v _. destruct (ncmp v _) as [[| |]|]; assumption.
    + destruct (t =? 1).
      * apply (h_bind _ _ Q); [exact Hp|]. intros v _. destruct (ncmp v _) as [[| |]|]; assumption.
      * apply h_ret. exact I.
Qed.

(* primitives *)
Lemma h_push_stack i x : wfn x -> hoare (push_stack i x) anyv.
Proof.
  intros Hx s HS. unfold push_stack. destruct (in_range s i); [|split; [exact HS | exact I]].
  pose proof (get_stack_wf s i (proj1 HS)) as Hg. cbv zeta.
  destruct (get_stack s i) as [|y st].
  - destruct (is_nan x); cbn [hpost]; (split; [|exact I]); [exact HS|].
    apply SI_set_stack; [exact HS|]. constructor; [exact Hx|constructor].
  - cbn [hpost]. split; [|exact I]. apply SI_set_stack; [exact HS|]. constructor; assumption.
Qed.

Lemma h_pop_stack i : hoare (pop_stack i) wfn.
Proof.
  intros s HS. unfold pop_stack. destruct (in_range s i); [|split; [exact HS | exact wf_nan]].
  pose proof (get_stack_wf s i (proj1 HS)) as Hg.
  destruct (get_stack s i) as [|y st]; cbn [hpost].
  - split; [exact HS | exact wf_nan].
  - apply Forall_cons_iff in Hg. destruct Hg as [Hy Hst].
    split; [|exact Hy]. apply SI_set_stack; assumption.
Qed.

Lemma h_write_out b txt : hoare (write_out b txt) anyv.
Proof. intros s HS. unfold write_out. destruct b; cbn [hpost]; (split; [exact HS | exact I]). Qed.

Lemma h_push_wrap i x : wfn x -> hoare (push_wrap i x) anyv.
Proof.
  intros Hx. unfold push_wrap. destruct ((i =? 1) || (i =? 2)).
  - destruct (is_pos x).
    + destruct (num_to_unicode x); [apply h_write_out | apply h_fail].
    + apply h_write_out.
  - apply h_push_stack. exact Hx.
Qed.

Definition small_line (l : list N) : Prop := forall c, In c l -> c < 2 ^ 63.

Lemma h_read_line : hoare read_line small_line.
Proof.
  intros s HS. unfold read_line. destruct HS as [Hw Hi].
  destruct (inp s) as [|[l|] r] eqn:E; cbn [hpost].
  - split; [split; assumption|]. intros c [].
  - split; [split; [exact Hw|]|].
    + intros line c H1 H2. apply (Hi line c); [|exact H2]. rewrite E. right. exact H1.
    + intros c Hc. apply (Hi l c); [|exact Hc]. rewrite E. left. reflexivity.
  - split; [exact Hw|].
    intros line c H1 H2. apply (Hi line c); [|exact H2]. rewrite E. right. exact H1.
Qed.

Lemma h_push_all i l : small_line l -> hoare (push_all i l) anyv.
Proof.
  induction l as [|c r IH]; intros Hl; cbn [push_all].
  - apply h_ret. exact I.
  - apply (h_bind _ _ anyv).
    + apply h_push_stack. apply wf_nat. apply Hl. left. reflexivity.
    + intros _ _. apply IH. intros d Hd. apply Hl. right. exact Hd.
Qed.

Lemma h_pop_wrap i : hoare (pop_wrap i) wfn.
Proof.
  unfold pop_wrap. destruct (i =? 0).
  - intros s HS. destruct (get_stack s 0).
    + revert s HS.
      change (hoare (bind read_line (fun l => bind (push_all 0 (rev l)) (fun _ => pop_stack 0))) wfn).
      apply (h_bind _ _ small_line); [apply h_read_line|]. intros l Hl.
      apply (h_bind _ _ anyv); [|intros _ _; apply h_pop_stack].
      apply h_push_all. intros c Hc. apply Hl. apply in_rev. exact Hc.
    + apply h_pop_stack. exact HS.
  - destruct (i =? 1); [apply h_exit|].
    destruct (i =? 2); [apply h_exit|]. apply h_pop_stack.
Qed.

Lemma h_get_cur : hoare get_cur anyv.
Proof. intros s HS. cbn. split; [exact HS | exact I]. Qed.
Lemma h_set_cur c : hoare (set_cur c) anyv.
Proof. intros s HS. cbn. split; [exact HS | exact I]. Qed.

Lemma h_fold_push cs (h : num -> num) (g : num -> num -> num) (v : list num) (m0 : M num) :
  (forall x, wfn x -> wfn (h x)) -> (forall a b, wfn a -> wfn b -> wfn (g a b)) ->
  Forall wfn v -> hoare m0 wfn ->
  hoare (fold_left (fun (m : M num) x => bind m (fun n => let x' := h x in
                         bind (push_wrap cs x') (fun _ => ret (g n x')))) v m0) wfn.
Proof.
  intros Hh Hg Hv. revert m0. induction Hv as [|x v Hx Hv IH]; intros m0 H0; cbn [fold_left].
  - exact H0.
  - apply IH. apply (h_bind _ _ wfn); [exact H0|]. intros n Hn. cbv zeta.
    apply (h_bind _ _ anyv); [apply h_push_wrap, Hh, Hx|]. intros _ _.
    apply h_ret. apply Hg; [exact Hn | apply Hh, Hx].
Qed.

Lemma ty_case0 {T} (P : T -> Prop) (n : N) a b c d e f :
  (n = 0 -> P a) -> P b -> P c -> P d -> P e -> P f ->
  P (match n with 0 => a | 1 => b | 2 => c | 3 => d | 4 => e | _ => f end).
Proof.
  intros Ha. intros. destruct n as [|p]; [apply Ha; reflexivity|].
  destruct p as [p|p|]; auto; destruct p as [p|p|]; auto; destruct p as [p|p|]; auto.
Qed.

Lemma h_pops_fold cs n (g : num -> num -> num) a0 :
  (forall a b, wfn a -> wfn b -> wfn (g a b)) -> wfn a0 ->
  hoare (iterM n (fun n0 => bind (pop_wrap cs) (fun v => ret (g n0 v))) a0) wfn.
Proof.
  intros Hg H0. apply h_iterM; [exact H0|]. intros x Hx.
  apply (h_bind _ _ wfn); [apply h_pop_wrap|]. intros v Hv. apply h_ret. apply Hg; assumption.
Qed.

Lemma h_pops_list cs n :
  hoare (iterM n (fun v => bind (pop_wrap cs) (fun x => ret (x :: v))) []) (Forall wfn).
Proof.
  apply h_iterM; [constructor|]. intros v Hv.
  apply (h_bind _ _ wfn); [apply h_pop_wrap|]. intros x Hx. apply h_ret. constructor; assumption.
Qed.

Lemma h_body c : okc c -> hoare (body c) anyv.
Proof.
  intros Hc. unfold body. apply (h_bind _ _ anyv); [apply h_get_cur|]. intros cs _.
  apply (ty_case0 (fun m => hoare m anyv)).
  - intros E. destruct (Hc E) as [H1 H2]. apply h_push_wrap. apply wf_mul; apply wf_nat; assumption.
  - apply (h_bind _ _ wfn); [apply h_pops_fold; [exact wf_add | exact wf_zero]|].
    intros n Hn. apply h_push_wrap. exact Hn.
  - apply (h_bind _ _ wfn); [apply h_pops_fold; [exact wf_mul | exact wf_one]|].
    intros n Hn. apply h_push_wrap. exact Hn.
  - apply (h_bind _ _ (Forall wfn)); [apply h_pops_list|]. intros v Hv.
    apply (h_bind _ _ wfn).
    + apply h_fold_push; [exact wf_minus | exact wf_add | exact Hv | apply h_ret; exact wf_zero].
    + intros n Hn. apply h_push_wrap. exact Hn.
  - apply (h_bind _ _ (Forall wfn)); [apply h_pops_list|]. intros v Hv.
    apply (h_bind _ _ wfn).
    + apply h_fold_push; [exact wf_flip | exact wf_mul | exact Hv | apply h_ret; exact wf_one].
    + intros n Hn. apply h_push_wrap. exact Hn.
  - apply (h_bind _ _ wfn); [apply h_pop_wrap|]. intros n Hn.
    apply (h_bind _ _ anyv).
    + apply h_iterM; [exact I|]. intros _ _. apply h_push_wrap. exact Hn.
    + intros _ _. apply (h_bind _ _ anyv); [apply h_push_wrap; exact Hn|]. intros _ _. apply h_set_cur.
Qed.

Lemma h_execute_one c pc : okc c -> hoare (execute_one c pc) anyv.
Proof.
  intros Hc. unfold execute_one.
  apply (h_bind _ _ anyv); [apply h_body; exact Hc|]. intros _ _.
  apply (h_bind _ _ anyv); [apply h_get_cur|]. intros cs _.
  apply (h_bind _ _ anyv); [apply (h_calc _ _ _ wfn), h_pop_wrap|]. intros t _.
  destruct (t =? 0); [apply h_ret; exact I|].
  destruct (t =? 13).
  { intros s HS. unfold bind, get_latest. destruct (latest s); cbn; (split; [exact HS | exact I]). }
  cbv zeta. intros s HS. unfold bind, get_point.
  destruct (alist_get (points s) (xac c * 16 + t)) as [v|].
  - destruct (pc =? v); cbn; (split; [exact HS | exact I]).
  - cbn. split; [exact HS | exact I].
Qed.

(* ------------------------------------------------------------------ *)
(* label targets *)

Definition RAT (code : list xcode) (s t : state) : Prop := area_targets code s -> area_targets code t.
Lemma RAT_refl code s : RAT code s s.
Proof. intros H. exact H. Qed.
Lemma RAT_trans code s t u : RAT code s t -> RAT code t u -> RAT code s u.
Proof. intros H1 H2 H. apply H2, H1, H. Qed.
Lemma ext_RAT code s t : OptTerm.ext s t -> RAT code s t.
Proof.
  intros (P & L & _) [Ha Hb]. split.
  - intros id v Hv. apply (Ha id v). rewrite <- P. exact Hv.
  - intros v Hv. apply Hb. rewrite <- L. exact Hv.
Qed.
Lemma pres_ext_RAT code {A} (m : M A) : OptTerm.pres OptTerm.ext m -> OptTerm.pres (RAT code) m.
Proof. intros H s. apply ext_RAT, H. Qed.

Lemma pres_ret_bind {A B} R (a : A) (f : A -> M B) : OptTerm.pres R (f a) -> OptTerm.pres R (bind (ret a) f).
Proof. intros H s. exact (H s). Qed.

Lemma at_label code c pc t : nth_error code (N.to_nat pc) = Some c -> has_area c = true ->
  OptTerm.pres (RAT code)
    (if t =? 0 then ret (pc + 1)
     else if t =? 13 then bind get_latest (fun l => match l with Some loc => ret loc | None => ret (pc + 1) end)
     else let id := xac c * 16 + t in
          bind (get_point id) (fun p =>
          match p with
          | Some v => if pc =? v then ret (pc + 1) else bind (set_latest pc) (fun _ => ret v)
          | None => bind (set_point id pc) (fun _ => ret (pc + 1))
          end)).
Proof.
  intros Hn Ha.
  destruct (t =? 0); [apply (OptTerm.pres_ret _ (RAT_refl code))|].
  destruct (t =? 13).
  { intros s. unfold bind, get_latest. destruct (latest s); cbn; apply RAT_refl. }
  cbv zeta. intros s. unfold bind, get_point.
  destruct (alist_get (points s) (xac c * 16 + t)) as [v|].
  - destruct (pc =? v); cbn; [apply RAT_refl|].
    intros [H1 H2]. split; cbn [points latest]; [exact H1|].
    intros w Hw. injection Hw as <-. exists c. split; assumption.
  - cbn. intros [H1 H2]. split; cbn [points latest]; [|exact H2].
    intros id w Hw. apply OptTerm.alist_get_set in Hw.
    destruct Hw as [[_ ->]|Hw]; [exists c; split; assumption | apply (H1 id w Hw)].
Qed.

Lemma at_execute_one code c pc : nth_error code (N.to_nat pc) = Some c ->
  OptTerm.pres (RAT code) (execute_one c pc).
Proof.
  intros Hn. unfold execute_one.
  apply (OptTerm.pres_bind _ (RAT_trans code)); [apply pres_ext_RAT, OptTerm.pres_body|]. intros _.
  apply (OptTerm.pres_bind _ (RAT_trans code)); [apply pres_ext_RAT, OptTerm.pres_get_cur|]. intros cs.
  destruct (has_area c) eqn:Ha.
  - apply (OptTerm.pres_bind _ (RAT_trans code)); [apply pres_ext_RAT, OptTerm.e_calc, OptTerm.pres_pop_wrap|].
    intros t. apply at_label; assumption.
  - unfold has_area in Ha. destruct (xar c); [|discriminate Ha]. cbn [calc].
    apply pres_ret_bind. cbv beta. rewrite N.eqb_refl. apply (OptTerm.pres_ret _ (RAT_refl code)).
Qed.

(* ------------------------------------------------------------------ *)
(* one interpreter step *)

Lemma step_inv_gen code c pc s : nth_error code (N.to_nat pc) = Some c -> okc c ->
  area_targets code s -> SI s ->
  match execute_one c pc s with ROk _ t | RExit _ t | RErr _ t => area_targets code t /\ SI t end.
Proof.
  intros Hn Hc Ha HS.
  pose proof (at_execute_one code c pc Hn s) as H1.
  pose proof (h_execute_one c pc Hc s HS) as H2.
  destruct (execute_one c pc s) as [a t|k t|e t]; cbn [OptTerm.post hpost] in *.
  - split; [apply H1, Ha | apply H2].
  - split; [apply H1, Ha | exact H2].
  - split; [apply H1, Ha | exact H2].
Qed.

Lemma small_okc code c : small_code code -> In c code -> okc c.
Proof.
  intros Hs Hin _. unfold small_code in Hs. rewrite Forall_forall in Hs.
  destruct (Hs c Hin) as (H1 & H2 & _). split; assumption.
Qed.

Theorem step_inv : step_inv_stmt.
Proof.
  intros code c pc s Hn Hs Ha Hw Hi.
  pose proof (step_inv_gen code c pc s Hn (small_okc code c Hs (nth_error_In _ _ Hn)) Ha (conj Hw Hi)) as H.
  destruct (execute_one c pc s) as [a t|k t|e t]; destruct H as (H1 & H2 & H3); (split; [exact H1 | split; [exact H2 | exact H3]]).
Qed.
Print Assumptions step_inv.

(* ------------------------------------------------------------------ *)
(* the optimiser *)

Lemma opt_loop_inv fuel : forall code s pc len j s', (forall c, In c code -> okc c) ->
  area_targets code s -> SI s ->
  opt_loop fuel all_fixed code s pc len j = ODone s' -> area_targets code s' /\ SI s'.
Proof.
  induction fuel as [|f IH]; intros code s pc len j s' Hc Ha Hs H; cbn [opt_loop] in H; [discriminate H|].
  destruct (len <=? pc).
  { injection H as <-. split; assumption. }
  destruct (100 <=? j); [discriminate H|].
  destruct (nth_error code (N.to_nat pc)) as [c|] eqn:En; [|discriminate H].
  destruct (oexecute_one all_fixed c pc s) as [[pc' jm] s1|k s1|e s1] eqn:Eo; try discriminate H.
  destruct (ostep_sound_t _ _ _ _ _ _ Eo) as [Ee _].
  pose proof (step_inv_gen code c pc s En (Hc c (nth_error_In _ _ En)) Ha Hs) as Hst.
  rewrite Ee in Hst. destruct Hst as [Ha1 Hs1].
  exact (IH code s1 pc' len _ s' Hc Ha1 Hs1 H).
Qed.

Lemma area_targets_app log x s : area_targets log s -> area_targets (log ++ x) s.
Proof.
  assert (G : forall v, (exists c, nth_error log (N.to_nat v) = Some c /\ has_area c = true) ->
                        exists c, nth_error (log ++ x) (N.to_nat v) = Some c /\ has_area c = true).
  { intros v (c & Hc & Hh). exists c. split; [|exact Hh].
    rewrite nth_error_app1; [exact Hc|]. apply nth_error_Some. rewrite Hc. intros X; discriminate X. }
  intros [H1 H2]. split.
  - intros id v Hv. apply G. apply (H1 id v Hv).
  - intros v Hv. apply G. apply (H2 v Hv).
Qed.

Lemma preexec_inv todo : forall s log r, (forall c, In c log -> okc c) -> (forall c, In c todo -> okc c) ->
  area_targets log s -> SI s -> preexec all_fixed s log todo = OptOk r ->
  area_targets (olog r) (ostate r) /\ SI (ostate r).
Proof.
  induction todo as [|c rest IH]; intros s log r Hl Ht Ha Hs H; cbn [preexec] in H.
  - injection H as <-. cbn [olog ostate]. split; assumption.
  - assert (Hl' : forall d, In d (log ++ [c]) -> okc d).
    { intros d Hd. apply in_app_or in Hd. destruct Hd as [Hd|[<-|[]]]; [apply Hl, Hd | apply Ht; left; reflexivity]. }
    destruct (opt_loop (opt_fuel (log ++ [c])) all_fixed (log ++ [c]) s (N.of_nat (length log))
                (N.of_nat (length log) + 1) 0) as [s'|s'|e s'| |] eqn:El; try discriminate H.
    + destruct (opt_loop_inv _ _ _ _ _ _ _ Hl' (area_targets_app log [c] s Ha) Hs El) as [Ha' Hs'].
      apply (IH s' (log ++ [c]) r Hl'); try assumption.
      intros d Hd. apply Ht. right. exact Hd.
    + cbn [fx6 all_fixed] in H. injection H as <-. cbn [olog ostate]. split; assumption.
Qed.

Lemma opt_code_okc m mx code u : small_code (map xcode_of_ucode code) -> In u code -> okc (opt_code m mx u).
Proof.
  intros Hs Hin. unfold small_code in Hs. rewrite Forall_forall in Hs.
  destruct (Hs (xcode_of_ucode u) (in_map _ _ _ Hin)) as (H1 & H2 & _). cbn [xcode_of_ucode xhc xdc] in H1, H2.
  unfold okc, opt_code. cbn [xty xhc xdc]. intros E. rewrite E. rewrite N.eqb_refl. split; assumption.
Qed.

Lemma state0_inv k input : (forall line c, In (Some line) input -> In c line -> c < 2 ^ 63) ->
  area_targets [] (state0 k input) /\ SI (state0 k input).
Proof.
  intros Hin. split; [split|split; [split|]].
  - cbn. intros id v X. discriminate X.
  - cbn. intros v X. discriminate X.
  - cbn. constructor.
  - cbn. constructor.
  - exact Hin.
Qed.

Theorem optimized_inv : optimized_inv_stmt.
Proof.
  intros code input r Hsm Hin H. unfold optimize_prog in H.
  assert (E0 : (2 =? 0) = false) by reflexivity. rewrite E0 in H.
  destruct (renum_map all_fixed code) as [m mx].
  assert (E1 : (2 =? 1) = false) by reflexivity. rewrite E1 in H.
  destruct (state0_inv (SOpt (mx + 1)) input Hin) as [Ha Hs].
  assert (G : area_targets (olog r) (ostate r) /\ SI (ostate r)).
  { apply (preexec_inv (map (opt_code m mx) code) (state0 (SOpt (mx + 1)) input) [] r); try assumption.
    - intros c [].
    - intros c Hc. apply in_map_iff in Hc. destruct Hc as (u & <- & Hu). apply (opt_code_okc m mx code u Hsm Hu). }
  destruct G as [G1 [G2 _]]. split; assumption.
Qed.
Print Assumptions optimized_inv.

(* ------------------------------------------------------------------ *)
(* the compiler theorem for optimised states *)

Lemma area_targets_ok log s : area_targets log s -> targets_ok (N.of_nat (length log)) s.
Proof.
  assert (G : forall v, (exists c, nth_error log (N.to_nat v) = Some c /\ has_area c = true) ->
                        v < N.of_nat (length log)).
  { intros v (c & Hc & _). assert (L : (N.to_nat v < length log)%nat).
    { apply nth_error_Some. rewrite Hc. intros X; discriminate X. }
    lia. }
  intros [H1 H2]. split.
  - intros id v Hv. apply G. apply (H1 id v Hv).
  - intros v Hv. apply G. apply (H2 v Hv).
Qed.

Lemma canon_of_wf s : stacks_wf s -> no_neg_nan s -> stacks_canon s.
Proof.
  intros [Hn Hf] Hq. split; [exact Hn|].
  unfold no_neg_nan in Hq. rewrite Forall_forall in *.
  intros p Hp. specialize (Hf p Hp). specialize (Hq p Hp). rewrite Forall_forall in *.
  intros x Hx. split; [apply Hf, Hx | apply Hq, Hx].
Qed.

Theorem compiled2_optimized : compiled2_optimized_stmt.
Proof.
  intros code input r fuel Hsm Ho Hrest Hnn.
  assert (Hin : forall line c, In (Some line) (@nil (option (list N))) -> In c line -> c < 2 ^ 63).
  { intros line c []. }
  destruct (optimized_inv code [] r Hsm Hin Ho) as [Ha Hw].
  pose proof (canon_of_wf _ Hw Hnn) as Hc.
  pose proof (CompLevel2.compiled2_sound (ostate r) (olog r) (orest r) input (S fuel) Hrest Ha Hc) as Hsound.
  assert (Ht : targets_ok (N.of_nat (length (olog r))) (with_input (ostate r) input)).
  { apply area_targets_ok in Ha. exact Ha. }
  pose proof (inc_pre_t fuel (olog r) (orest r) (with_input (ostate r) input) Ht) as Hip.
  destruct (run_inc fuel (olog r) (orest r) (with_input (ostate r) input)) as [s'|k s'|e s'|s' p|s'];
    try exact I; rewrite Hip in Hsound; exact Hsound.
Qed.
Print Assumptions compiled2_optimized.
