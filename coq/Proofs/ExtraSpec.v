(* More statements: debugger output accounting, running mode, and the end-to-end pass-through corollary. *)
From Coq Require Import List NArith ZArith Bool.
Import ListNotations.
From HV Require Import Model.Big Model.Rat Model.NumText Model.Chars Model.Parse Model.Exec Model.Opt Model.Repl Model.Debug
  Model.Utf8 Model.Cli Spec.Lang Proofs.OptSpec Proofs.AppSpec Proofs.UniSpec.
Open Scope N_scope.

(* ---- debugger: every character the program writes is shown exactly once, in order ---- *)
Definition flush_out (evs : list devent) : list N := flat_map (fun e => match e with DvFlush o _ => o | _ => [] end) evs.
Definition flush_err (evs : list devent) : list N := flat_map (fun e => match e with DvFlush _ x => x | _ => [] end) evs.
Definition pend_out (d : dstate) : list N := rev (outb (dio d)).
Definition pend_err (d : dstate) : list N := rev (errb (dio d)).
(* what the command executed by this iteration (if any) writes, run from a state with empty buffers *)
Definition step_text (code : list xcode) (d : dstate) : list N * list N :=
  match hist d with
  | (s, pc) :: _ => match nth_error code (N.to_nat pc) with
                    | Some c => match execute_one c pc (core s) with
                                | ROk _ t | RExit _ t | RErr _ t => (rev (outb t), rev (errb t))
                                end
                    | None => ([], [])
                    end
  | [] => ([], [])
  end.
(* does this iteration execute a command? (next / run / running mode without a breakpoint) *)
Definition executes (code : list xcode) (lines : list (list N)) (d : dstate) : bool :=
  match hist d with
  | (s, pc) :: _ =>
      if N.of_nat (length code) <=? pc then false
      else if running d then negb (mem_N pc (brk d))
      else match lines with
           | [] => false
           | line :: _ => let t0 := hd [] (split_sp (trim line) []) in is_word t0 w_next 110 || (negb (is_word t0 w_next 110) && negb (is_word t0 w_previous 112) && is_word t0 w_run 114)
           end
  | [] => false
  end.
(* accounting for one iteration that continues: shown text followed by what is still pending equals what was pending
   followed by what the executed command wrote *)
Definition debug_output_step_stmt := forall code lines d evs lines' d',
  dtrans true true code lines d = (evs, inr (lines', d')) ->
  flush_out evs ++ pend_out d' = pend_out d ++ (if executes code lines d then fst (step_text code d) else []) /\
  flush_err evs ++ pend_err d' = pend_err d ++ (if executes code lines d then snd (step_text code d) else []).
(* and for an iteration that ends the session (finished, program exit, diagnosed error): everything pending is shown *)
Definition debug_output_end_stmt := forall code lines d evs e,
  dtrans true true code lines d = (evs, inl e) -> e <> DPanic -> e <> DEof -> e <> DQuit ->
  flush_out evs = pend_out d ++ (if executes code lines d then fst (step_text code d) else []) /\
  flush_err evs = pend_err d ++ (if executes code lines d then snd (step_text code d) else []).
(* `run` stops at the first command carrying a breakpoint: in running mode a breakpointed command is not executed *)
Definition debug_run_stops_stmt := forall code lines d s pc older, hist d = (s, pc) :: older -> running d = true ->
  pc < N.of_nat (length code) -> mem_N pc (brk d) = true ->
  dtrans true true code lines d = ([flushed (dio d)], inr (lines, mkd (hist d) (brk d) false (clear_io (dio d)))).

(* ---- end to end: the copy loop through the CLI model at level 0, bytes in = bytes out ---- *)
Definition BIG_SRC : list N := 54784 :: repeat 50612 1086 ++ [50633] ++ repeat 46 1024.
Definition CAT_SRC : list N :=
  [55121; 32] ++ BIG_SRC ++ [9829; 32; 54637; 46; 46; 46; 32; 54637; 46; 32; 55121; 32] ++ BIG_SRC ++ [63; 9829; 63].
Definition cat_cli_stmt := forall t, t <> [] -> scalars t ->
  exists fuel, run_cli 0 (FBytes true (encode CAT_SRC)) (encode t) fuel = CExit 0 (encode t) [].
