(* Reading a big integer from any text: proofs (see Text2Spec.v). *)
From Coq Require Import List NArith ZArith Lia Bool.
Import ListNotations.
From HV Require Import Model.Big Model.Rat Model.NumText Proofs.BigSpec Proofs.RatSpec Proofs.Text2Spec.
Open Scope N_scope.
Arguments N.add : simpl never. Arguments N.mul : simpl never. Arguments N.sub : simpl never.
Arguments N.leb : simpl never. Arguments N.ltb : simpl never. Arguments N.eqb : simpl never.

Lemma digit_val_lt c k : digit_val c = Some k -> k < 36.
Proof.
  unfold digit_val.
  destruct (N.leb_spec 48 c); destruct (N.leb_spec c 57); cbn [andb];
    try (intros E; injection E as <-; lia);
    destruct (N.leb_spec 65 c); destruct (N.leb_spec c 90); cbn [andb];
    try discriminate; intros E; injection E as <-; lia.
Qed.

Section Text2.
Hypothesis Hadd : badd_stmt.  Hypothesis Hmul : bmul_stmt.  Hypothesis Hnew : bnew_stmt.

Lemma new_small m : m < B -> wf (bnew (Z.of_N m)) /\ bval (bnew (Z.of_N m)) = Z.of_N m.
Proof.
  intros Hm. apply Hnew.
  assert (Z.of_N B < 2 ^ 127)%Z by reflexivity. lia.
Qed.

Lemma range_check1 base : 1 <= base <= 36 -> negb ((1 <=? base) && (base <=? 36)) = false.
Proof.
  intros Hb. destruct (N.leb_spec 1 base); [|lia]. destruct (N.leb_spec base 36); [|lia]. reflexivity.
Qed.

Lemma horner_any base (Hb : 1 <= base <= 36) : forall ds acc n,
  wf acc -> bval acc = Z.of_N n -> all_digits ds ->
  exists res, horner (bnew (Z.of_N base)) ds acc = Some res /\ wf res /\
              bval res = Z.of_N (digits_val base ds n).
Proof.
  destruct (new_small base) as [Hwb Hvb]; [unfold B; lia|].
  induction ds as [|c r IH]; intros acc n Hw Hv Hok.
  - exists acc. cbn [horner digits_val]. auto.
  - inversion Hok as [|? ? Hc Hr]; subst.
    cbn [horner digits_val]. destruct (digit_val c) as [k|] eqn:Ek; [|contradiction].
    pose proof (digit_val_lt c k Ek) as Hk.
    destruct (new_small k) as [Hwd Hvd]; [unfold B; lia|].
    destruct (Hmul acc _ Hw Hwb) as [Hwm Hvm].
    destruct (Hadd _ _ Hwm Hwd) as [Hwa Hva].
    apply IH; [exact Hwa| |exact Hr].
    rewrite Hva, Hvm, Hv, Hvb, Hvd. lia.
Qed.

Lemma horner_reject b : forall ds acc, ~ all_digits ds -> horner b ds acc = None.
Proof.
  induction ds as [|c r IH]; intros acc Hn.
  - exfalso. apply Hn. constructor.
  - cbn [horner]. destruct (digit_val c) as [k|] eqn:Ek; [|reflexivity].
    apply IH. intros Hr. apply Hn. constructor; [congruence|exact Hr].
Qed.

Lemma neg_wf r : wf r -> bval (mkbig false (limbs r)) <> 0%Z -> wf (mkbig false (limbs r)).
Proof.
  intros [Hn _] Hnz. split; cbn [limbs bpos]; [exact Hn|].
  intros E. exfalso. apply Hnz. unfold bval. cbn [limbs bpos]. rewrite E. reflexivity.
Qed.

Theorem fsb_any : fsb_any_stmt.
Proof.
  intros s base Hb neg body.
  destruct (new_small 0) as [Hw0 Hv0]; [reflexivity|].
  assert (Hunf : from_string_base s base =
                 match horner (bnew (Z.of_N base)) body (bnew 0) with
                 | None => FSParse
                 | Some res => FSOk (if neg then mkbig false (limbs res) else res)
                 end).
  { unfold from_string_base, neg, body, fsb_sign. rewrite (range_check1 base Hb).
    destruct s as [|c r]; [reflexivity|]. destruct (c =? CH_MINUS); reflexivity. }
  split.
  - intros Hok.
    destruct (horner_any base Hb body (bnew 0) 0 Hw0 Hv0 Hok) as [res [Hres [Hwr Hvr]]].
    rewrite Hunf, Hres. destruct neg.
    + exists (mkbig false (limbs res)). split; [reflexivity|]. split.
      * rewrite <- Hvr. unfold bval at 1. cbn [limbs bpos].
        assert (E : lval (limbs res) = Z.abs_N (bval res)).
        { unfold bval. destruct (bpos res); [rewrite Zabs2N.id|rewrite Zabs2N.inj_opp, Zabs2N.id]; reflexivity. }
        rewrite E, Hvr. rewrite Zabs2N.id. reflexivity.
      * intros [Hf|Hnz]; [discriminate|]. apply neg_wf; assumption.
    + exists res. split; [reflexivity|]. split; [exact Hvr|]. intros _. exact Hwr.
  - intros Hn. rewrite Hunf, (horner_reject _ body (bnew 0) Hn). reflexivity.
Qed.

End Text2.
