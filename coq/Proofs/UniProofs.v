From Coq Require Import List NArith ZArith QArith Qround Qreduction Lia Bool.
Import ListNotations.
From HV Require Import Model.Chars Model.Parse Model.Utf8 Spec.Lang Proofs.UniSpec.
Open Scope N_scope.

Lemma dm64 c : c = 64 * (c / 64) + c mod 64 /\ c mod 64 < 64.
Proof. split. apply N.div_mod; discriminate. apply N.mod_lt; discriminate. Qed.

Lemma ltb_f a b : b <= a -> (a <? b) = false. Proof. intros; apply N.ltb_ge; lia. Qed.
Lemma ltb_t a b : a < b -> (a <? b) = true. Proof. intros; apply N.ltb_lt; lia. Qed.
Lemma leb_t a b : a <= b -> (a <=? b) = true. Proof. intros; apply N.leb_le; lia. Qed.
Lemma is_cont_t b : 128 <= b -> b < 192 -> is_cont b = true.
Proof. intros. unfold is_cont. rewrite leb_t, ltb_t by lia. reflexivity. Qed.

Lemma scalar_bounds c : is_scalar_value c = true -> (c < 55296 \/ 57343 < c) /\ c <= 1114111.
Proof.
  unfold is_scalar_value. intros H. apply andb_true_iff in H. destruct H as [H1 H2].
  apply orb_true_iff in H1. apply N.leb_le in H2. split; [|exact H2].
  destruct H1 as [H1|H1]; apply N.ltb_lt in H1; [left|right]; exact H1.
Qed.

Lemma decode1_encode1 c r : is_scalar_value c = true -> decode1 (encode1 c ++ r) = Some (c, r).
Proof.
  intros Hs. pose proof (scalar_bounds c Hs) as [Hsur Hmax].
  unfold encode1.
  destruct (c <? 128) eqn:E1.
  { cbn [app decode1]. rewrite E1. reflexivity. }
  apply N.ltb_ge in E1.
  destruct (c <? 2048) eqn:E2.
  { apply N.ltb_lt in E2. cbn [app decode1].
    assert (Hc : (192 + c / 64 - 192) * 64 + (128 + c mod 64 - 128) = c).
    { destruct (dm64 c). set (q := c / 64) in *. set (m := c mod 64) in *. clearbody q m. lia. }
    assert (Hb : 194 <= 192 + c / 64 < 224 /\ 128 <= 128 + c mod 64 < 192).
    { destruct (dm64 c). set (q := c / 64) in *. set (m := c mod 64) in *. clearbody q m. lia. }
    destruct Hb as [Hb0 Hb1].
    rewrite (ltb_f _ 128), (ltb_f _ 194), (ltb_t _ 224) by lia.
    rewrite is_cont_t by lia. rewrite Hc. reflexivity. }
  apply N.ltb_ge in E2.
  destruct (c <? 65536) eqn:E3.
  { apply N.ltb_lt in E3. cbn [app decode1].
    change 4096 with (64 * 64). rewrite <- !N.div_div by discriminate.
    assert (Hc : (224 + c / 64 / 64 - 224) * (64 * 64) + (128 + (c / 64) mod 64 - 128) * 64 + (128 + c mod 64 - 128) = c).
    { destruct (dm64 c). destruct (dm64 (c / 64)). set (q := c / 64) in *. set (m := c mod 64) in *.
      set (q2 := q / 64) in *. set (m2 := q mod 64) in *. clearbody q2 m2 m. clearbody q. lia. }
    assert (Hb : 224 <= 224 + c / 64 / 64 < 240 /\ 128 <= 128 + (c / 64) mod 64 < 192 /\ 128 <= 128 + c mod 64 < 192).
    { destruct (dm64 c). destruct (dm64 (c / 64)). set (q := c / 64) in *. set (m := c mod 64) in *.
      set (q2 := q / 64) in *. set (m2 := q mod 64) in *. clearbody q2 m2 m. clearbody q. lia. }
    destruct Hb as [Hb0 [Hb1 Hb2]].
    rewrite (ltb_f _ 128), (ltb_f _ 194), (ltb_f _ 224), (ltb_t _ 240) by lia.
    rewrite !is_cont_t by lia. cbn [andb]. cbv zeta. rewrite Hc, Hs, leb_t by lia. reflexivity. }
  apply N.ltb_ge in E3. cbn [app decode1].
  change 262144 with (64 * 64 * 64). change 4096 with (64 * 64). rewrite <- !N.div_div by discriminate.
  assert (Hc : (240 + c / 64 / 64 / 64 - 240) * (64 * 64 * 64) + (128 + (c / 64 / 64) mod 64 - 128) * (64 * 64)
               + (128 + (c / 64) mod 64 - 128) * 64 + (128 + c mod 64 - 128) = c).
  { destruct (dm64 c). destruct (dm64 (c / 64)). destruct (dm64 (c / 64 / 64)).
    set (q := c / 64) in *. set (m := c mod 64) in *.
    set (q2 := q / 64) in *. set (m2 := q mod 64) in *.
    set (q3 := q2 / 64) in *. set (m3 := q2 mod 64) in *. clearbody q3 m3 m2 m. clearbody q2. clearbody q. lia. }
  assert (Hb : 240 <= 240 + c / 64 / 64 / 64 < 245 /\ 128 <= 128 + (c / 64 / 64) mod 64 < 192
               /\ 128 <= 128 + (c / 64) mod 64 < 192 /\ 128 <= 128 + c mod 64 < 192).
  { destruct (dm64 c). destruct (dm64 (c / 64)). destruct (dm64 (c / 64 / 64)).
    set (q := c / 64) in *. set (m := c mod 64) in *.
    set (q2 := q / 64) in *. set (m2 := q mod 64) in *.
    set (q3 := q2 / 64) in *. set (m3 := q2 mod 64) in *. clearbody q3 m3 m2 m. clearbody q2. clearbody q. lia. }
  destruct Hb as [Hb0 [Hb1 [Hb2 Hb3]]].
  rewrite (ltb_f _ 128), (ltb_f _ 194), (ltb_f _ 224), (ltb_f _ 240), (ltb_t _ 245) by lia.
  rewrite !is_cont_t by lia. cbn [andb]. cbv zeta. rewrite Hc, !leb_t by lia. reflexivity.
Qed.

(* ---------- decode (encode t) ---------- *)
Lemma encode_cons c t : encode (c :: t) = encode1 c ++ encode t.
Proof. reflexivity. Qed.
Lemma encode_app a b : encode (a ++ b) = encode a ++ encode b.
Proof. unfold encode. apply flat_map_app. Qed.

Lemma encode1_nonempty c : exists b l, encode1 c = b :: l.
Proof.
  unfold encode1. destruct (c <? 128); [eauto|]. destruct (c <? 2048); [eauto|]. destruct (c <? 65536); eauto.
Qed.

Lemma encode_length t : (length t <= length (encode t))%nat.
Proof.
  induction t as [|c t IH]; [apply le_n|].
  rewrite encode_cons, app_length. destruct (encode1_nonempty c) as [b [l E]]. rewrite E. cbn [length]. lia.
Qed.

Lemma decode_fuel_encode t : scalars t -> forall f, (length t <= f)%nat -> decode_fuel f (encode t) = Some t.
Proof.
  induction 1 as [|c t Hc Ht IH]; intros f Hf.
  - destruct f; reflexivity.
  - cbn [length] in Hf. destruct f as [|f]; [lia|].
    rewrite encode_cons. destruct (encode1_nonempty c) as [b [l E]].
    assert (Hd : decode1 (encode1 c ++ encode t) = Some (c, encode t)) by (apply decode1_encode1; exact Hc).
    rewrite E in *. cbn [app] in *. cbn [decode_fuel]. rewrite Hd. rewrite IH by lia. reflexivity.
Qed.

Theorem utf8_roundtrip : utf8_roundtrip_stmt.
Proof.
  intros t Ht. unfold decode. apply decode_fuel_encode; [exact Ht|apply encode_length].
Qed.
Print Assumptions utf8_roundtrip.

(* ---------- split_nl ---------- *)
Lemma split_nl_concat_gen t : forall cur,
  concat (split_nl t cur) = rev cur ++ t /\ Forall (fun l => l <> []) (split_nl t cur).
Proof.
  induction t as [|b r IH]; intros cur.
  - cbn [split_nl]. destruct cur as [|x cur].
    + split; [reflexivity|constructor].
    + split.
      * cbn [concat]. rewrite !app_nil_r. reflexivity.
      * constructor; [|constructor]. cbn [rev]. intros H. apply app_eq_nil in H. destruct H as [_ H]. discriminate.
  - cbn [split_nl]. destruct (b =? 10) eqn:E.
    + destruct (IH []) as [IH1 IH2]. split.
      * cbn [concat]. rewrite IH1. cbn [rev app]. rewrite <- app_assoc. reflexivity.
      * constructor; [|exact IH2]. cbn [rev]. intros H. apply app_eq_nil in H. destruct H as [_ H]. discriminate.
    + destruct (IH (b :: cur)) as [IH1 IH2]. split; [|exact IH2].
      rewrite IH1. cbn [rev]. rewrite <- app_assoc. reflexivity.
Qed.

Theorem split_nl_concat : split_nl_concat_stmt.
Proof. intros t. apply (split_nl_concat_gen t []). Qed.
Print Assumptions split_nl_concat.

Lemma split_nl_skip l1 : Forall (fun b => b <> 10) l1 -> forall l2 cur,
  split_nl (l1 ++ l2) cur = split_nl l2 (rev l1 ++ cur).
Proof.
  induction 1 as [|b l1 Hb Hl IH]; intros l2 cur; [reflexivity|].
  cbn [app split_nl]. apply N.eqb_neq in Hb. rewrite Hb. rewrite IH. cbn [rev]. rewrite <- app_assoc. reflexivity.
Qed.

Lemma encode1_10 : encode1 10 = [10]. Proof. reflexivity. Qed.

Lemma encode1_no_nl c : c <> 10 -> Forall (fun b => b <> 10) (encode1 c).
Proof.
  intros Hc. unfold encode1.
  destruct (c <? 128); [constructor; [exact Hc|constructor]|].
  assert (forall x, 128 + x <> 10) by lia. assert (forall x, 192 + x <> 10) by lia.
  assert (forall x, 224 + x <> 10) by lia. assert (forall x, 240 + x <> 10) by lia.
  destruct (c <? 2048); [repeat (apply Forall_cons; [auto|]); apply Forall_nil|].
  destruct (c <? 65536); repeat (apply Forall_cons; [auto|]); apply Forall_nil.
Qed.

Lemma split_nl_encode t : forall cur,
  split_nl (encode t) (rev (encode (rev cur))) = map encode (split_nl t cur).
Proof.
  induction t as [|c t IH]; intros cur.
  - cbn [encode flat_map split_nl]. destruct cur as [|x cur]; [reflexivity|].
    rewrite rev_involutive. cbn [map].
    destruct (rev (encode (rev (x :: cur)))) eqn:E; [|reflexivity].
    exfalso. apply (f_equal (@rev N)) in E. rewrite rev_involutive in E. cbn [rev] in E.
    rewrite encode_app in E. cbn [encode flat_map] in E. rewrite app_nil_r in E.
    destruct (encode1_nonempty x) as [b [l Ex]]. rewrite Ex in E.
    apply app_eq_nil in E. destruct E as [_ E]. discriminate.
  - rewrite encode_cons. cbn [split_nl]. destruct (c =? 10) eqn:E.
    + apply N.eqb_eq in E. subst c. rewrite encode1_10. cbn [app split_nl]. change (10 =? 10) with true. cbv iota.
      cbn [map]. f_equal.
      * cbn [rev]. rewrite rev_involutive, encode_app. reflexivity.
      * apply (IH []).
    + apply N.eqb_neq in E. rewrite split_nl_skip by (apply encode1_no_nl; exact E).
      rewrite <- IH. f_equal. cbn [rev]. rewrite encode_app, rev_app_distr. cbn [encode flat_map]. rewrite app_nil_r.
      reflexivity.
Qed.

Theorem stdin_lines_ok : stdin_lines_stmt.
Proof.
  intros t Ht. unfold stdin_lines.
  pose proof (split_nl_encode t []) as H. cbn [rev encode flat_map] in H. rewrite H.
  rewrite map_map.
  destruct (split_nl_concat t) as [Hc _].
  assert (Hl : Forall (Forall (fun c => is_scalar_value c = true)) (split_nl t [])).
  { apply Forall_concat. rewrite Hc. exact Ht. }
  clear H Hc.
  induction Hl as [|l ls Hl Hls IH]; [reflexivity|].
  cbn [map]. rewrite IH. f_equal. apply utf8_roundtrip. exact Hl.
Qed.
Print Assumptions stdin_lines_ok.

(* ---------- association lists ---------- *)
Lemma lookup_update_same {V} (l : list (N * V)) k v : lookup (update l k v) k = Some v.
Proof.
  induction l as [|[k' v'] r IH]; cbn [update lookup].
  - rewrite N.eqb_refl. reflexivity.
  - destruct (k' =? k) eqn:E; cbn [lookup].
    + rewrite N.eqb_refl. reflexivity.
    + rewrite E. exact IH.
Qed.
Lemma lookup_update_other {V} (l : list (N * V)) k v j : j <> k -> lookup (update l k v) j = lookup l j.
Proof.
  intros Hj. induction l as [|[k' v'] r IH]; cbn [update lookup].
  - destruct (k =? j) eqn:E; [apply N.eqb_eq in E; congruence|reflexivity].
  - destruct (k' =? k) eqn:E; cbn [lookup].
    + apply N.eqb_eq in E. subst k'. destruct (k =? j) eqn:E2; [apply N.eqb_eq in E2; congruence|reflexivity].
    + rewrite IH. reflexivity.
Qed.
Lemma sget_sset_same s i l : sget (sset s i l) i = l.
Proof. unfold sget, sset. cbn [stk]. rewrite lookup_update_same. reflexivity. Qed.
Lemma sget_sset_other s i l j : j <> i -> sget (sset s i l) j = sget s j.
Proof. intros. unfold sget, sset. cbn [stk]. rewrite lookup_update_other by assumption. reflexivity. Qed.

(* ---------- values ---------- *)
Lemma Qred_inject z : Qred (inject_Z z) = inject_Z z.
Proof.
  unfold Qred, inject_Z.
  pose proof (Z.ggcd_gcd z 1) as Hg. pose proof (Z.ggcd_correct_divisors z 1) as Hd.
  destruct (Z.ggcd z 1) as [g [aa bb]]. cbn [fst snd] in *. rewrite Z.gcd_1_r in Hg. subst g.
  destruct Hd as [Ha Hb]. rewrite Z.mul_1_l in Ha, Hb. subst aa bb. reflexivity.
Qed.
Lemma vadd0_nat c : vadd (vnat 0) (vnat c) = vnat c.
Proof.
  unfold vadd, vnat. f_equal.
  replace (inject_Z (Z.of_N 0) + inject_Z (Z.of_N c))%Q with (inject_Z (Z.of_N c)).
  - apply Qred_inject.
  - unfold Qplus, inject_Z. cbn [Qnum Qden Z.of_N Z.mul Z.add Pos.mul]. rewrite Z.mul_1_r. reflexivity.
Qed.
Lemma vadd0_nan : vadd (vnat 0) VNaN = VNaN. Proof. reflexivity. Qed.
Lemma vlt_nat c n : vlt (vnat c) n = (c <? n).
Proof.
  unfold vlt, vnat, Qcompare, inject_Z. cbn [Qnum Qden]. rewrite !Z.mul_1_r, N2Z.inj_compare.
  unfold N.ltb. reflexivity.
Qed.
Lemma vmul_big : vmul (vnat 1088) (vnat 1024) = vnat BIGC. Proof. vm_compute. reflexivity. Qed.

(* ---------- the abstract view of a state during reading ---------- *)
Definition rem_text (s : lstate) (txt : list N) : Prop :=
  exists pending lines, sget s 0 = map vnat pending /\ input s = map Some lines /\
                        Forall (fun l => l <> []) lines /\ txt = pending ++ concat lines.
Definition view (s : lstate) (txt o : list N) (L : list value) (lbs : list (N * N)) : Prop :=
  rem_text s txt /\ sel s = 0 /\ out s = o /\ err s = [] /\ sget s 3 = L /\ labels s = lbs.

Lemma view_ext s s' txt o L lbs :
  stk s' = stk s -> input s' = input s -> sel s' = sel s -> out s' = out s -> err s' = err s -> labels s' = labels s ->
  view s txt o L lbs -> view s' txt o L lbs.
Proof.
  intros E1 E2 E3 E4 E5 E6 (Hr & Hs & Ho & He & H3 & Hl).
  unfold view, rem_text, sget in *. rewrite E1, E2, E3, E4, E5, E6. repeat split; assumption.
Qed.

Lemma pop_cons s c rest o L lbs : view s (c :: rest) o L lbs ->
  exists s', spop 0 s = SOk (vnat c) s' /\ view s' rest o L lbs.
Proof.
  intros Hv. pose proof Hv as (Hr & Hs & Ho & He & H3 & Hl).
  destruct Hr as (pending & lines & Hg & Hi & Hf & Ht).
  unfold spop. change (0 =? 1) with false. change (0 =? 2) with false. change (0 =? 0) with true. cbv iota. cbn [andb].
  destruct pending as [|p ps].
  - cbn [map] in Hg. cbn [app] in Ht. rewrite Hg. destruct lines as [|l ls]; [discriminate|].
    pose proof (Forall_inv Hf) as Hl0; pose proof (Forall_inv_tail Hf) as Hls. destruct l as [|c' l']; [congruence|].
    cbn [concat app] in Ht. injection Ht as <- ->.
    rewrite Hi. cbn [map]. rewrite sget_sset_same. cbn [map].
    eexists. split; [reflexivity|].
    unfold view. repeat split; try assumption.
    + exists l', ls. rewrite sget_sset_same. repeat split; try assumption.
    + rewrite !sget_sset_other by discriminate. exact H3.
  - cbn [map] in Hg. cbn [app] in Ht. injection Ht as <- ->. rewrite Hg. cbn [andb]. cbv beta iota zeta. rewrite Hg.
    eexists. split; [reflexivity|].
    unfold view. repeat split; try assumption.
    + exists ps, lines. rewrite sget_sset_same. repeat split; try assumption.
    + rewrite !sget_sset_other by discriminate. exact H3.
Qed.

Lemma view_nil_inv s o L lbs : view s [] o L lbs -> sget s 0 = [] /\ input s = [].
Proof.
  intros (Hr & _). destruct Hr as (pending & lines & Hg & Hi & Hf & Ht).
  symmetry in Ht. apply app_eq_nil in Ht. destruct Ht as [-> Hc].
  split; [exact Hg|]. destruct lines as [|l ls]; [exact Hi|].
  pose proof (Forall_inv Hf) as Hl0; pose proof (Forall_inv_tail Hf) as Hls. cbn [concat] in Hc. apply app_eq_nil in Hc. destruct Hc; congruence.
Qed.

Lemma pop_nil s o L lbs : view s [] o L lbs -> spop 0 s = SOk VNaN s.
Proof.
  intros Hv. destruct (view_nil_inv _ _ _ _ Hv) as [Hg Hi].
  unfold spop. change (0 =? 1) with false. change (0 =? 2) with false. change (0 =? 0) with true. cbv iota. cbn [andb].
  rewrite Hg, Hi. rewrite Hg. reflexivity.
Qed.

Lemma spush_rat i q s : i <> 1 -> i <> 2 -> spush i (VRat q) s = SOk tt (sset s i (VRat q :: sget s i)).
Proof.
  intros H1 H2. unfold spush. apply N.eqb_neq in H1, H2. rewrite H1, H2. cbn [orb].
  destruct (sget s i); reflexivity.
Qed.

Lemma push0 s c txt o L lbs : view s txt o L lbs ->
  exists s', spush 0 (vnat c) s = SOk tt s' /\ view s' (c :: txt) o L lbs.
Proof.
  intros (Hr & Hs & Ho & He & H3 & Hl). destruct Hr as (pending & lines & Hg & Hi & Hf & Ht).
  unfold vnat. rewrite spush_rat by discriminate. eexists. split; [reflexivity|].
  unfold view. repeat split; try assumption.
  - exists (c :: pending), lines. rewrite sget_sset_same, Hg. repeat split; try assumption. subst txt. reflexivity.
  - rewrite sget_sset_other by discriminate. exact H3.
Qed.

Lemma push0_nan_nil s o L lbs : view s [] o L lbs -> spush 0 VNaN s = SOk tt s.
Proof.
  intros Hv. destruct (view_nil_inv _ _ _ _ Hv) as [Hg Hi].
  unfold spush. change (0 =? 1) with false. change (0 =? 2) with false. cbn [orb]. rewrite Hg. reflexivity.
Qed.

Definition push_list (L : list value) (v : value) : list value :=
  match L, v with [], VNaN => [] | _, _ => v :: L end.

Lemma push3 s v txt o L lbs : view s txt o L lbs ->
  exists s', spush 3 v s = SOk tt s' /\ view s' txt o (push_list L v) lbs.
Proof.
  intros Hv. pose proof Hv as (Hr & Hs & Ho & He & H3 & Hl). destruct Hr as (pending & lines & Hg & Hi & Hf & Ht).
  unfold spush. change (3 =? 1) with false. change (3 =? 2) with false. cbn [orb]. rewrite H3.
  assert (Hset : view (sset s 3 (v :: L)) txt o (v :: L) lbs).
  { unfold view. repeat split; try assumption.
    - exists pending, lines. rewrite sget_sset_other by discriminate. repeat split; assumption.
    - apply sget_sset_same. }
  destruct L as [|x L]; [destruct v|]; cbn [push_list]; eexists; (split; [reflexivity|]); assumption.
Qed.

Lemma scalar_eq c : scalar c = is_scalar_value c. Proof. reflexivity. Qed.

Lemma print_char s c txt o L lbs : view s txt o L lbs -> is_scalar_value c = true ->
  exists s', spush 1 (vnat c) s = SOk tt s' /\ view s' txt (o ++ [c]) L lbs.
Proof.
  intros Hv Hc. pose proof Hv as (Hr & Hs & Ho & He & H3 & Hl).
  unfold spush, vnat. change (1 =? 1) with true. cbn [orb]. cbv iota.
  assert (Hle : Qle_bool 0 (inject_Z (Z.of_N c)) = true).
  { apply Qle_bool_iff. unfold Qle, inject_Z. cbn [Qnum Qden]. lia. }
  rewrite Hle. rewrite Qfloor_Z, N2Z.id.
  assert (Hm : c mod 4294967296 = c).
  { apply N.mod_small. destruct (scalar_bounds c Hc). lia. }
  rewrite Hm, scalar_eq, Hc. eexists. split; [reflexivity|].
  destruct Hv as (Hr' & _). unfold view, rem_text, sget in *. cbn [stk sel labels input out err].
  rewrite Ho. repeat split; assumption.
Qed.

Lemma print_nan s txt o L lbs : view s txt o L lbs ->
  exists s', spush 1 VNaN s = SOk tt s' /\ view s' txt (o ++ NAN_TEXT_SPEC) L lbs.
Proof.
  intros Hv. pose proof Hv as (Hr & Hs & Ho & He & H3 & Hl).
  unfold spush. change (1 =? 1) with true. cbn [orb]. cbv iota. cbn [value_text].
  eexists. split; [reflexivity|].
  unfold view, rem_text, sget in *. cbn [stk sel labels input out err].
  rewrite Ho. repeat split; assumption.
Qed.

(* ---------- commands ---------- *)
Lemma scommand1 d s : sel s = 0 ->
  scommand 1 1 d s = match spop 0 s with
                     | SOk v s' => spush d (vadd (vnat 0) v) s'
                     | SExit k s' => SExit k s' | SErr e s' => SErr e s'
                     end.
Proof.
  intros Hs. unfold scommand. rewrite Hs. change (N.to_nat 1) with 1%nat. cbn [spops fold_left].
  destruct (spop 0 s); reflexivity.
Qed.

Lemma scommand5 s : sel s = 0 ->
  scommand 5 1 0 s = match spop 0 s with
                     | SOk v s' => match spush 0 v s' with
                                   | SOk _ s'' => match spush 0 v s'' with
                                                  | SOk _ s3 => SOk tt (mklstate (stk s3) 0 (labels s3) (lastj s3) (input s3) (out s3) (err s3))
                                                  | SExit k s3 => SExit k s3 | SErr e s3 => SErr e s3
                                                  end
                                   | SExit k s'' => SExit k s'' | SErr e s'' => SErr e s''
                                   end
                     | SExit k s' => SExit k s' | SErr e s' => SErr e s'
                     end.
Proof.
  intros Hs. unfold scommand. rewrite Hs. change (N.to_nat 1) with 1%nat. cbn [repeat spushes].
  destruct (spop 0 s) as [v s'| |]; try reflexivity.
  destruct (spush 0 v s'); reflexivity.
Qed.

Lemma sstep_nil k n d cnt pc s s1 : scommand k n d s = SOk tt s1 -> sstep k n d cnt Nil pc s = SOk (pc + 1) s1.
Proof. intros H. unfold sstep. rewrite H. reflexivity. Qed.

Lemma step_print_cons pc s c rest o L lbs : view s (c :: rest) o L lbs -> is_scalar_value c = true ->
  exists s', sstep 1 1 1 1 Nil pc s = SOk (pc + 1) s' /\ view s' rest (o ++ [c]) L lbs.
Proof.
  intros Hv Hc. destruct (pop_cons _ _ _ _ _ _ Hv) as (s1 & Hp & Hv1).
  destruct (print_char _ c _ _ _ _ Hv1 Hc) as (s2 & Hq & Hv2).
  exists s2. split; [|exact Hv2]. apply sstep_nil. rewrite scommand1 by apply Hv. rewrite Hp, vadd0_nat. exact Hq.
Qed.

Lemma step_print_nil pc s o L lbs : view s [] o L lbs ->
  exists s', sstep 1 1 1 1 Nil pc s = SOk (pc + 1) s' /\ view s' [] (o ++ NAN_TEXT_SPEC) L lbs.
Proof.
  intros Hv. destruct (print_nan _ _ _ _ _ Hv) as (s2 & Hq & Hv2).
  exists s2. split; [|exact Hv2]. apply sstep_nil. rewrite scommand1 by apply Hv.
  rewrite (pop_nil _ _ _ _ Hv), vadd0_nan. exact Hq.
Qed.

Lemma step_pop3_cons pc s c rest o L lbs : view s (c :: rest) o L lbs ->
  exists s', sstep 1 1 3 3 Nil pc s = SOk (pc + 1) s' /\ view s' rest o (vnat c :: L) lbs.
Proof.
  intros Hv. destruct (pop_cons _ _ _ _ _ _ Hv) as (s1 & Hp & Hv1).
  destruct (push3 _ (vnat c) _ _ _ _ Hv1) as (s2 & Hq & Hv2).
  exists s2. split.
  - apply sstep_nil. rewrite scommand1 by apply Hv. rewrite Hp, vadd0_nat. exact Hq.
  - destruct L; exact Hv2.
Qed.

Lemma step_pop3_nil pc s o L lbs : view s [] o L lbs ->
  exists s', sstep 1 1 3 3 Nil pc s = SOk (pc + 1) s' /\ view s' [] o (push_list L VNaN) lbs.
Proof.
  intros Hv. destruct (push3 _ VNaN _ _ _ _ Hv) as (s2 & Hq & Hv2).
  exists s2. split; [|exact Hv2]. apply sstep_nil. rewrite scommand1 by apply Hv.
  rewrite (pop_nil _ _ _ _ Hv), vadd0_nan. exact Hq.
Qed.

Lemma view_setsel s txt o L lbs : view s txt o L lbs ->
  view (mklstate (stk s) 0 (labels s) (lastj s) (input s) (out s) (err s)) txt o L lbs.
Proof. intros Hv. apply (view_ext s); try reflexivity; [|exact Hv]. cbn [sel]. symmetry. apply Hv. Qed.

Lemma step_dup_cons pc s c rest o L lbs : view s (c :: rest) o L lbs ->
  exists s', sstep 5 1 0 0 Nil pc s = SOk (pc + 1) s' /\ view s' (c :: c :: rest) o L lbs.
Proof.
  intros Hv. destruct (pop_cons _ _ _ _ _ _ Hv) as (s1 & Hp & Hv1).
  destruct (push0 _ c _ _ _ _ Hv1) as (s2 & Hq & Hv2).
  destruct (push0 _ c _ _ _ _ Hv2) as (s3 & Hq3 & Hv3).
  eexists. split.
  - apply sstep_nil. rewrite scommand5 by apply Hv. rewrite Hp, Hq, Hq3. reflexivity.
  - apply view_setsel. exact Hv3.
Qed.

Lemma step_dup_nil pc s o L lbs : view s [] o L lbs ->
  exists s', sstep 5 1 0 0 Nil pc s = SOk (pc + 1) s' /\ view s' [] o L lbs.
Proof.
  intros Hv. eexists. split.
  - apply sstep_nil. rewrite scommand5 by apply Hv.
    rewrite (pop_nil _ _ _ _ Hv), (push0_nan_nil _ _ _ _ Hv), (push0_nan_nil _ _ _ _ Hv). reflexivity.
  - apply view_setsel. exact Hv.
Qed.

(* ---------- running ---------- *)
Lemma srun_step f prog s pc c pc' s' :
  nth_error prog (N.to_nat pc) = Some c ->
  sstep (sk c) (sn c) (sd c) (scount c) (sa c) pc s = SOk pc' s' ->
  srun (S f) prog s pc = srun f prog s' pc'.
Proof. intros H1 H2. cbn [srun]. rewrite H1, H2. reflexivity. Qed.
Lemma srun_end f prog s pc : nth_error prog (N.to_nat pc) = None -> srun (S f) prog s pc = SDone s.
Proof. intros H1. cbn [srun]. rewrite H1. reflexivity. Qed.

Lemma nth_error_mid {A} (pre : list A) x post : nth_error (pre ++ x :: post) (length pre) = Some x.
Proof. induction pre; [reflexivity|exact IHpre]. Qed.
Lemma nth_error_end {A} (pre : list A) : nth_error pre (length pre) = None.
Proof. apply nth_error_None. apply le_n. Qed.

Lemma first_step inp : sstep 5 1 0 0 Nil 0 (lstate0 inp) = SOk 1 (mklstate [] 0 [] None inp [] []).
Proof. reflexivity. Qed.

Lemma view_init t : view (mklstate [] 0 [] None (lines_of t) [] []) t [] [] [].
Proof.
  destruct (split_nl_concat t) as [Hc Hf].
  unfold view. repeat split; try reflexivity.
  exists [], (split_nl t []). repeat split; [exact Hf|]. cbn [app]. symmetry. exact Hc.
Qed.

(* ---------- COPY n ---------- *)
Lemma pc_next {A} (pre : list A) x : N.of_nat (length pre) + 1 = N.of_nat (length (pre ++ [x])).
Proof. rewrite app_length. cbn [length]. lia. Qed.

Lemma copy_gen n : forall pre s txt o L lbs, view s txt o L lbs -> small_scalars txt ->
  exists s', srun (S n) (pre ++ repeat c_print n) s (N.of_nat (length pre)) = SDone s' /\
             out s' = o ++ firstn n txt ++ nan_texts (n - length txt) /\ err s' = [].
Proof.
  induction n as [|n IH]; intros pre s txt o L lbs Hv Ht.
  - exists s. cbn [repeat]. rewrite app_nil_r. split.
    + apply srun_end. rewrite Nat2N.id. apply nth_error_end.
    + cbn [firstn Nat.sub nan_texts app]. rewrite app_nil_r. split; apply Hv.
  - cbn [repeat]. destruct txt as [|c rest].
    + destruct (step_print_nil (N.of_nat (length pre)) _ _ _ _ Hv) as (s1 & Hstep & Hv1).
      erewrite srun_step; [|rewrite Nat2N.id; apply nth_error_mid|exact Hstep].
      rewrite (pc_next pre c_print).
      replace (pre ++ c_print :: repeat c_print n) with ((pre ++ [c_print]) ++ repeat c_print n)
        by (rewrite <- app_assoc; reflexivity).
      destruct (IH (pre ++ [c_print]) s1 [] _ _ _ Hv1 Ht) as (s' & Hr & Ho & He).
      exists s'. split; [exact Hr|]. split; [|exact He].
      rewrite Ho. cbn [firstn length Nat.sub nan_texts app]. rewrite firstn_nil, Nat.sub_0_r, <- app_assoc. reflexivity.
    + pose proof (Forall_inv Ht) as Hc. pose proof (Forall_inv_tail Ht) as Hrest.
      destruct (step_print_cons (N.of_nat (length pre)) _ _ _ _ _ _ Hv Hc) as (s1 & Hstep & Hv1).
      erewrite srun_step; [|rewrite Nat2N.id; apply nth_error_mid|exact Hstep].
      rewrite (pc_next pre c_print).
      replace (pre ++ c_print :: repeat c_print n) with ((pre ++ [c_print]) ++ repeat c_print n)
        by (rewrite <- app_assoc; reflexivity).
      destruct (IH (pre ++ [c_print]) s1 rest _ _ _ Hv1 Hrest) as (s' & Hr & Ho & He).
      exists s'. split; [exact Hr|]. split; [|exact He].
      rewrite Ho. cbn [firstn length Nat.sub]. rewrite <- app_assoc. reflexivity.
Qed.

Theorem copy_n_ok : copy_n_stmt.
Proof.
  intros n t Ht. unfold copy_prog.
  erewrite srun_step; [|reflexivity|apply first_step].
  destruct (copy_gen n [c_select0] _ t _ _ _ (view_init t) Ht) as (s' & Hr & Ho & He).
  exists s'. split; [exact Hr|]. split; [exact Ho|exact He].
Qed.
Print Assumptions copy_n_ok.

(* ---------- the stream of popped values ---------- *)
Definition nan_count (txt : list N) (L : list value) (k : nat) : nat :=
  match txt with [] => match L with [] => 0%nat | _ => k end | _ => (k - length txt)%nat end.

Lemma stream_gen k : forall pre s txt L lbs, view s txt [] L lbs ->
  exists s', srun (S k) (pre ++ repeat c_pop3 k) s (N.of_nat (length pre)) = SDone s' /\
             sget s' 3 = repeat VNaN (nan_count txt L k) ++ rev (map vnat (firstn k txt)) ++ L /\
             out s' = [] /\ err s' = [].
Proof.
  induction k as [|k IH]; intros pre s txt L lbs Hv.
  - exists s. cbn [repeat]. rewrite app_nil_r. split.
    + apply srun_end. rewrite Nat2N.id. apply nth_error_end.
    + replace (nan_count txt L 0) with 0%nat by (destruct txt, L; reflexivity).
      cbn [firstn map rev repeat app]. repeat split; apply Hv.
  - cbn [repeat]. destruct txt as [|c rest].
    + destruct (step_pop3_nil (N.of_nat (length pre)) _ _ _ _ Hv) as (s1 & Hstep & Hv1).
      erewrite srun_step; [|rewrite Nat2N.id; apply nth_error_mid|exact Hstep].
      rewrite (pc_next pre c_pop3).
      replace (pre ++ c_pop3 :: repeat c_pop3 k) with ((pre ++ [c_pop3]) ++ repeat c_pop3 k)
        by (rewrite <- app_assoc; reflexivity).
      destruct (IH (pre ++ [c_pop3]) s1 [] _ _ Hv1) as (s' & Hr & H3 & Ho & He).
      exists s'. split; [exact Hr|]. split; [|split; assumption].
      rewrite H3. rewrite firstn_nil. cbn [firstn map rev app].
      destruct L as [|x L]; cbn [push_list nan_count]; [reflexivity|].
      cbn [repeat]. rewrite repeat_cons, <- app_assoc. reflexivity.
    + destruct (step_pop3_cons (N.of_nat (length pre)) _ _ _ _ _ _ Hv) as (s1 & Hstep & Hv1).
      erewrite srun_step; [|rewrite Nat2N.id; apply nth_error_mid|exact Hstep].
      rewrite (pc_next pre c_pop3).
      replace (pre ++ c_pop3 :: repeat c_pop3 k) with ((pre ++ [c_pop3]) ++ repeat c_pop3 k)
        by (rewrite <- app_assoc; reflexivity).
      destruct (IH (pre ++ [c_pop3]) s1 rest _ _ Hv1) as (s' & Hr & H3 & Ho & He).
      exists s'. split; [exact Hr|]. split; [|split; assumption].
      rewrite H3.
      replace (nan_count rest (vnat c :: L) k) with (k - length rest)%nat
        by (destruct rest; cbn [nan_count length]; [rewrite Nat.sub_0_r|]; reflexivity).
      cbn [nan_count firstn map rev length Nat.sub]. rewrite <- !app_assoc. reflexivity.
Qed.

Theorem stdin_stream : stdin_stream_stmt.
Proof.
  intros k t Ht. unfold stream_prog.
  erewrite srun_step; [|reflexivity|apply first_step].
  destruct (stream_gen k [c_select0] _ t _ _ (view_init t)) as (s' & Hr & H3 & Ho & He).
  exists s'. split; [exact Hr|]. split; [|split; assumption].
  rewrite H3, app_nil_r. destruct t; reflexivity.
Qed.
Print Assumptions stdin_stream.

(* ---------- the copy loop ---------- *)
Definition lbl_ok (lbs : list (N * N)) : Prop :=
  lookup lbs (BIGC * 16 + 2) = None \/ lookup lbs (BIGC * 16 + 2) = Some 1.

Lemma scommand0_big s : sel s = 0 -> scommand 0 1088 1024 s = spush 0 (vnat BIGC) s.
Proof. intros Hs. unfold scommand. rewrite Hs, vmul_big. reflexivity. Qed.

Lemma sarea_q l r cnt s : sel s = 0 ->
  sarea (Val 0 l r) cnt s = match spop 0 s with
                            | SOk v s' => if vlt v cnt then sarea l cnt s' else sarea r cnt s'
                            | SExit k s' => SExit k s' | SErr e s' => SErr e s'
                            end.
Proof. intros Hs. cbn [sarea]. change (0 =? 0) with true. cbv iota. rewrite Hs. reflexivity. Qed.

Lemma step_label s txt o L lbs : view s txt o L lbs -> lbl_ok lbs ->
  exists s' lbs', sstep 0 1088 1024 BIGC (Val 2 Nil Nil) 1 s = SOk 2 s' /\
                  view s' (BIGC :: txt) o L lbs' /\ lookup lbs' (BIGC * 16 + 2) = Some 1.
Proof.
  intros Hv Hl. destruct (push0 _ BIGC _ _ _ _ Hv) as (s1 & Hp & Hv1).
  assert (Hcmd : scommand 0 1088 1024 s = SOk tt s1) by (rewrite scommand0_big by apply Hv; exact Hp).
  unfold sstep. rewrite Hcmd. cbn [sarea]. change (2 =? 0) with false. change (2 =? 1) with false.
  change (2 =? 13) with false. cbv iota zeta.
  assert (Hlab : labels s1 = lbs) by apply Hv1. rewrite Hlab.
  destruct Hl as [Hl|Hl]; rewrite Hl.
  - eexists. exists (update lbs (BIGC * 16 + 2) 1). split; [reflexivity|]. split; [|apply lookup_update_same].
    destruct Hv1 as (Hr & Hs & Ho & He & H3 & Hlb).
    unfold view, rem_text, sget in *. cbn [stk sel labels input out err]. repeat split; assumption.
  - change (1 =? 1) with true. cbv iota. exists s1, lbs. split; [reflexivity|]. split; assumption.
Qed.

Lemma vlt_nan n : vlt VNaN n = false. Proof. reflexivity. Qed.

Lemma step_test_cons s c rest o L lbs : view s (c :: rest) o L lbs -> c < BIGC ->
  lookup lbs (BIGC * 16 + 2) = Some 1 ->
  exists s', sstep 0 1088 1024 BIGC (Val 0 Nil (Val 0 (Val 2 Nil Nil) Nil)) 5 s = SOk 1 s' /\ view s' rest o L lbs.
Proof.
  intros Hv Hc Hl. destruct (push0 _ BIGC _ _ _ _ Hv) as (s1 & Hp & Hv1).
  assert (Hcmd : scommand 0 1088 1024 s = SOk tt s1) by (rewrite scommand0_big by apply Hv; exact Hp).
  destruct (pop_cons _ _ _ _ _ _ Hv1) as (s2 & Hp2 & Hv2).
  destruct (pop_cons _ _ _ _ _ _ Hv2) as (s3 & Hp3 & Hv3).
  unfold sstep. rewrite Hcmd.
  rewrite sarea_q by apply Hv1. rewrite Hp2, vlt_nat, N.ltb_irrefl.
  rewrite sarea_q by apply Hv2. rewrite Hp3, vlt_nat, (ltb_t c BIGC Hc).
  cbn [sarea]. change (2 =? 0) with false. change (2 =? 1) with false.
  change (2 =? 13) with false. cbv iota zeta.
  assert (Hlab : labels s3 = lbs) by apply Hv3. rewrite Hlab, Hl. change (1 =? 5) with false. cbv iota.
  eexists. split; [reflexivity|].
  apply (view_ext s3); try reflexivity; [cbn [labels]; symmetry; exact Hlab|exact Hv3].
Qed.

Lemma step_test_nil s o L lbs : view s [] o L lbs ->
  exists s', sstep 0 1088 1024 BIGC (Val 0 Nil (Val 0 (Val 2 Nil Nil) Nil)) 5 s = SOk 6 s' /\ view s' [] o L lbs.
Proof.
  intros Hv. destruct (push0 _ BIGC _ _ _ _ Hv) as (s1 & Hp & Hv1).
  assert (Hcmd : scommand 0 1088 1024 s = SOk tt s1) by (rewrite scommand0_big by apply Hv; exact Hp).
  destruct (pop_cons _ _ _ _ _ _ Hv1) as (s2 & Hp2 & Hv2).
  unfold sstep. rewrite Hcmd.
  rewrite sarea_q by apply Hv1. rewrite Hp2, vlt_nat, N.ltb_irrefl.
  rewrite sarea_q by apply Hv2. rewrite (pop_nil _ _ _ _ Hv2), vlt_nan.
  cbn [sarea]. exists s2. split; [reflexivity|exact Hv2].
Qed.

Lemma scalar_lt_big c : is_scalar_value c = true -> c < BIGC.
Proof. intros H. destruct (scalar_bounds c H). unfold BIGC. lia. Qed.

Lemma round_last f s c o L lbs : view s [c] o L lbs -> is_scalar_value c = true -> lbl_ok lbs ->
  exists s', srun (6 + f) cat_prog s 1 = SDone s' /\ out s' = o ++ [c] /\ err s' = [].
Proof.
  intros Hv Hc Hl.
  destruct (step_label _ _ _ _ _ Hv Hl) as (s1 & lbs' & Hs1 & Hv1 & Hl1).
  destruct (step_pop3_cons 2 _ _ _ _ _ _ Hv1) as (s2 & Hs2 & Hv2).
  destruct (step_print_cons (2 + 1) _ _ _ _ _ _ Hv2 Hc) as (s3 & Hs3 & Hv3).
  destruct (step_dup_nil (2 + 1 + 1) _ _ _ _ Hv3) as (s4 & Hs4 & Hv4).
  destruct (step_test_nil _ _ _ _ Hv4) as (s5 & Hs5 & Hv5).
  exists s5. split; [|split; apply Hv5].
  change (6 + f)%nat with (S (S (S (S (S (S f)))))).
  erewrite srun_step; [|reflexivity|exact Hs1].
  erewrite srun_step; [|reflexivity|exact Hs2].
  erewrite srun_step; [|reflexivity|exact Hs3].
  erewrite srun_step; [|reflexivity|exact Hs4].
  erewrite srun_step; [|reflexivity|exact Hs5].
  apply srun_end. reflexivity.
Qed.

Lemma cat_gen txt : txt <> [] -> forall s o L lbs, view s txt o L lbs -> small_scalars txt -> lbl_ok lbs ->
  exists fuel s', srun fuel cat_prog s 1 = SDone s' /\ out s' = o ++ txt /\ err s' = [].
Proof.
  induction txt as [|c txt IH]; intros Hne s o L lbs Hv Ht Hl; [congruence|].
  pose proof (Forall_inv Ht) as Hc. pose proof (Forall_inv_tail Ht) as Hrest.
  destruct txt as [|c' rest].
  - destruct (round_last 0 _ _ _ _ _ Hv Hc Hl) as (s' & Hr & Ho & He).
    exists (6 + 0)%nat, s'. repeat split; assumption.
  - assert (Hne' : c' :: rest <> []) by discriminate.
    pose proof (Forall_inv Hrest) as Hc'.
    assert (Hex : exists s1 L1 lbs1, (forall f, srun (5 + f) cat_prog s 1 = srun f cat_prog s1 1) /\
                    view s1 (c' :: rest) (o ++ [c]) L1 lbs1 /\ lbl_ok lbs1).
    { destruct (step_label _ _ _ _ _ Hv Hl) as (s1 & lbs' & Hs1 & Hv1 & Hl1).
      destruct (step_pop3_cons 2 _ _ _ _ _ _ Hv1) as (s2 & Hs2 & Hv2).
      destruct (step_print_cons (2 + 1) _ _ _ _ _ _ Hv2 Hc) as (s3 & Hs3 & Hv3).
      destruct (step_dup_cons (2 + 1 + 1) _ _ _ _ _ _ Hv3) as (s4 & Hs4 & Hv4).
      destruct (step_test_cons _ _ _ _ _ _ Hv4 (scalar_lt_big _ Hc') Hl1) as (s5 & Hs5 & Hv5).
      exists s5, (vnat BIGC :: L), lbs'.
      split; [|split; [exact Hv5|right; exact Hl1]].
      intros f. change (5 + f)%nat with (S (S (S (S (S f))))).
      erewrite srun_step; [|reflexivity|exact Hs1].
      erewrite srun_step; [|reflexivity|exact Hs2].
      erewrite srun_step; [|reflexivity|exact Hs3].
      erewrite srun_step; [|reflexivity|exact Hs4].
      erewrite srun_step; [|reflexivity|exact Hs5].
      reflexivity. }
    destruct Hex as (s1 & L1 & lbs1 & Hrun & Hv1 & Hl1).
    destruct (IH Hne' s1 _ _ _ Hv1 Hrest Hl1) as (fuel & s' & Hr & Ho & He).
    exists (5 + fuel)%nat, s'. rewrite Hrun. split; [exact Hr|]. split; [|exact He].
    rewrite Ho, <- app_assoc. reflexivity.
Qed.

Theorem cat_loop : cat_loop_stmt.
Proof.
  intros t Hne Ht.
  destruct (cat_gen t Hne _ _ _ _ (view_init t) Ht (or_introl eq_refl)) as (fuel & s' & Hr & Ho & He).
  exists (S fuel), s'. split; [|split; assumption].
  erewrite srun_step; [|reflexivity|apply first_step]. exact Hr.
Qed.
Print Assumptions cat_loop.
