(* Discharging the premises of the level-2 compiler theorems for states produced by the optimiser. *)
From Coq Require Import List NArith ZArith Bool.
Import ListNotations.
From HV Require Import Model.Big Model.Rat Model.NumText Model.Chars Model.Parse Model.Exec Model.Opt Model.Compile
  Proofs.RatSpec Proofs.OptSpec Proofs.CompSpec Proofs.CoroSpec Proofs.Comp2Spec.
Open Scope N_scope.

(* invariants of interpretation *)
Definition stacks_wf (s : state) : Prop :=
  NoDup (map fst (stacks s)) /\ Forall (fun p => Forall wfn (snd p)) (stacks s).
Definition small_code (code : list xcode) : Prop := Forall (fun c => xhc c < 2 ^ 63 /\ xdc c < 2 ^ 63 /\ xac c < 2 ^ 63) code.
Definition input_small (s : state) : Prop := forall line c, In (Some line) (inp s) -> In c line -> c < 2 ^ 63.

Definition step_inv_stmt := forall code c pc s, nth_error code (N.to_nat pc) = Some c -> small_code code ->
  area_targets code s -> stacks_wf s -> input_small s ->
  match execute_one c pc s with ROk _ t | RExit _ t | RErr _ t => area_targets code t /\ stacks_wf t /\ input_small t end.

(* what optimisation returns satisfies them *)
Definition optimized_inv_stmt := forall code input r, small_code (map xcode_of_ucode code) ->
  (forall line c, In (Some line) input -> In c line -> c < 2 ^ 63) ->
  optimize_prog all_fixed code 2 input = OptOk r ->
  area_targets (olog r) (ostate r) /\ stacks_wf (ostate r).

(* the only premise left: no NaN of negative sign on the pre-executed stacks *)
Definition no_neg_nan (s : state) : Prop := Forall (fun p => Forall (fun x => is_nan x = true -> x = nan) (snd p)) (stacks s).
Definition compiled2_optimized_stmt := forall code input r fuel, small_code (map xcode_of_ucode code) ->
  optimize_prog all_fixed code 2 [] = OptOk r -> orest r <> [] -> no_neg_nan (ostate r) ->
  match run_inc fuel (olog r) (orest r) (with_input (ostate r) input) with
  | FFuel _ _ => True
  | FPanic _ => True
  | x => exists fuel', ibeh (ir_run fuel' (build_ir true 2 (ostate r) (olog r) (orest r)) input) = beh x
  end.
