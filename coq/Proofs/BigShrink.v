From Coq Require Import List NArith ZArith Lia Bool. Import ListNotations. From HV Require Import Model.Big Proofs.BigBase Proofs.BigSpec. Open Scope N_scope.
(* strip / shrink / normal forms and the magnitude comparison less_core. *)
Arguments N.add : simpl never. Arguments N.mul : simpl never. Arguments N.div : simpl never.
Arguments N.modulo : simpl never. Arguments N.pow : simpl never. Arguments N.sub : simpl never.
Arguments N.leb : simpl never. Arguments N.ltb : simpl never. Arguments N.eqb : simpl never.

(* ---------------------------------------------------------------- strip *)

Lemma strip_cons x l :
  strip (x :: l) = match strip l with
                   | [] => if x =? 0 then [] else [x]
                   | _ :: _ => x :: strip l
                   end.
Proof. reflexivity. Qed.

Lemma strip_nil : strip [] = [].
Proof. reflexivity. Qed.

(* strip removes only most-significant zero limbs *)
Lemma strip_val l : lval (strip l) = lval l.
Proof.
  induction l as [|x l IH]; [reflexivity|].
  rewrite strip_cons. destruct (strip l) as [|y s] eqn:E.
  - cbn [lval] in *. rewrite <- IH.
    destruct (N.eqb_spec x 0) as [Hx|Hx]; cbn [lval]; lia.
  - cbn [lval] in *. rewrite <- IH. reflexivity.
Qed.

Lemma strip_ok l : limbs_ok l -> limbs_ok (strip l).
Proof.
  unfold limbs_ok. induction 1 as [|x l Hx Hl IH]; [constructor|].
  rewrite strip_cons. destruct (strip l) as [|y s].
  - destruct (x =? 0); constructor; [assumption|constructor].
  - constructor; assumption.
Qed.

Lemma strip_nil_val l : strip l = [] -> lval l = 0.
Proof. intros H. rewrite <- strip_val, H. reflexivity. Qed.

Lemma val_strip_nil l : lval l = 0 -> strip l = [].
Proof.
  induction l as [|x l IH]; intros H; [reflexivity|].
  cbn [lval] in H. pose proof B_pos as HB.
  assert (Hx : x = 0) by lia.
  assert (Hl : lval l = 0) by nia.
  rewrite strip_cons, (IH Hl). subst x. reflexivity.
Qed.

Lemma strip_nil_iff l : strip l = [] <-> lval l = 0.
Proof. split; [apply strip_nil_val | apply val_strip_nil]. Qed.

Lemma strip_tail x l : strip (x :: l) = x :: l -> strip l = l.
Proof.
  rewrite strip_cons. destruct (strip l) as [|y s] eqn:E.
  - destruct (x =? 0); intros H; congruence.
  - intros H; congruence.
Qed.

Lemma strip_idem l : strip (strip l) = strip l.
Proof.
  induction l as [|x l IH]; [reflexivity|].
  rewrite strip_cons. destruct (strip l) as [|y s] eqn:E.
  - destruct (N.eqb_spec x 0) as [Hx|Hx]; [reflexivity|].
    rewrite strip_cons, strip_nil. destruct (N.eqb_spec x 0); [contradiction|reflexivity].
  - rewrite strip_cons, IH. reflexivity.
Qed.

(* fixed points of strip: empty, or most significant limb non-zero *)
Lemma strip_fix_iff l : strip l = l <-> (l = [] \/ last l 0 <> 0).
Proof.
  induction l as [|x l IH].
  - split; [left; reflexivity | reflexivity].
  - destruct l as [|y l].
    + rewrite strip_cons, strip_nil. cbn [last].
      destruct (N.eqb_spec x 0) as [Hx|Hx]; split.
      * discriminate.
      * intros [H|H]; [discriminate|contradiction].
      * right; assumption.
      * reflexivity.
    + change (last (x :: y :: l) 0) with (last (y :: l) 0). split.
      * intros H. apply strip_tail in H. apply IH in H.
        destruct H as [H|H]; [discriminate|right; exact H].
      * intros [H|H]; [discriminate|].
        assert (S : strip (y :: l) = y :: l) by (apply IH; right; exact H).
        rewrite strip_cons, S. reflexivity.
Qed.

Lemma strip_last l : strip l = [] \/ last (strip l) 0 <> 0.
Proof. apply strip_fix_iff, strip_idem. Qed.

Lemma strip_length l : (length (strip l) <= length l)%nat.
Proof.
  induction l as [|x l IH]; [cbn; lia|].
  rewrite strip_cons. destruct (strip l) as [|y s].
  - destruct (x =? 0); cbn [length]; lia.
  - cbn [length] in *. lia.
Qed.

(* ---------------------------------------------------------------- bounds *)

Lemma strip_lower l : forall x, strip (x :: l) = x :: l -> B ^ N.of_nat (length l) <= lval (x :: l).
Proof.
  induction l as [|y l IH]; intros x H.
  - rewrite strip_cons, strip_nil in H. cbn [length lval]. change (N.of_nat 0) with 0.
    rewrite N.pow_0_r. destruct (N.eqb_spec x 0) as [Hx|Hx]; [discriminate|lia].
  - pose proof (IH y (strip_tail _ _ H)) as L.
    change (lval (x :: y :: l)) with (x + B * lval (y :: l)).
    cbn [length]. rewrite Nat2N.inj_succ, N.pow_succ_r'.
    pose proof B_pos. nia.
Qed.

(* for limbs_ok l with last limb non-zero: B^(length l - 1) <= lval l < B^(length l) *)
Lemma last_nz_bounds l : limbs_ok l -> last l 0 <> 0 ->
  B ^ N.of_nat (length l - 1) <= lval l < B ^ N.of_nat (length l).
Proof.
  intros Hok Hl. split; [|apply lval_bound, Hok].
  destruct l as [|x l]; [cbn [last] in Hl; contradiction|].
  replace (length (x :: l) - 1)%nat with (length l) by (cbn [length]; lia).
  apply strip_lower, strip_fix_iff. right; exact Hl.
Qed.

Lemma last_nz_pos l : last l 0 <> 0 -> 0 < lval l.
Proof.
  intros Hl. destruct (N.eq_0_gt_0_cases (lval l)) as [E|G]; [|exact G].
  apply val_strip_nil in E.
  assert (S : strip l = l) by (apply strip_fix_iff; right; exact Hl).
  rewrite S in E. subst l. cbn [last] in Hl. contradiction.
Qed.

Lemma pow_B_lt_inv n m : B ^ N.of_nat n < B ^ N.of_nat m -> (n < m)%nat.
Proof.
  intros H. apply N.pow_lt_mono_r_iff in H; [lia|reflexivity].
Qed.

(* length comparison decides magnitude comparison *)
Lemma stripped_len_le a b : strip a = a -> a <> [] -> limbs_ok b -> lval a <= lval b ->
  (length a <= length b)%nat.
Proof.
  intros Sa Na Ob V. destruct a as [|x a]; [contradiction|].
  pose proof (strip_lower a x Sa) as L. pose proof (lval_bound b Ob) as U.
  assert (H : B ^ N.of_nat (length a) < B ^ N.of_nat (length b)) by lia.
  apply pow_B_lt_inv in H. cbn [length]. lia.
Qed.

Lemma last_nz_len_lt a b : limbs_ok a -> limbs_ok b -> last a 0 <> 0 -> last b 0 <> 0 ->
  (length a < length b)%nat -> lval a < lval b.
Proof.
  intros Oa Ob La Lb Hlen.
  destruct (N.lt_ge_cases (lval a) (lval b)) as [L|G]; [exact L|].
  assert (Sb : strip b = b) by (apply strip_fix_iff; right; exact Lb).
  assert (Nb : b <> []) by (intros ->; cbn [last] in Lb; contradiction).
  pose proof (stripped_len_le b a Sb Nb Oa G). lia.
Qed.

(* ---------------------------------------------------------------- shrink *)

Lemma shrink_nil : shrink [] = [].
Proof. reflexivity. Qed.

Lemma shrink_cases l : l <> [] ->
  (strip l = [] /\ shrink l = [0]) \/ (strip l <> [] /\ shrink l = strip l).
Proof.
  intros Hl. unfold shrink. destruct (strip l) as [|y s] eqn:E.
  - left. split; [reflexivity|]. destruct l; [contradiction|reflexivity].
  - right. split; [discriminate|reflexivity].
Qed.

Lemma shrink_nonnil l : l <> [] -> shrink l <> [].
Proof.
  intros Hl. destruct (shrink_cases l Hl) as [[_ ->]|[H ->]]; [discriminate|exact H].
Qed.

Theorem shrink_val : shrink_val_stmt.
Proof.
  intros l. unfold shrink. destruct (strip l) as [|y s] eqn:E.
  - rewrite (strip_nil_val l E). destruct l; reflexivity.
  - rewrite <- E. apply strip_val.
Qed.

Theorem shrink_ok : shrink_ok_stmt.
Proof.
  intros l Hl. unfold shrink. destruct (strip l) as [|y s] eqn:E.
  - destruct l; [constructor|]. constructor; [exact B_pos|constructor].
  - rewrite <- E. apply strip_ok, Hl.
Qed.

Lemma shrink_idem l : shrink (shrink l) = shrink l.
Proof.
  destruct l as [|x l]; [reflexivity|].
  destruct (shrink_cases (x :: l)) as [[_ E]|[Hn E]]; [discriminate| |]; rewrite E.
  - reflexivity.
  - unfold shrink. rewrite strip_idem. destruct (strip (x :: l)); [contradiction|reflexivity].
Qed.

Lemma shrink_length l : (length (shrink l) <= length l)%nat.
Proof.
  unfold shrink. destruct (strip l) as [|y s] eqn:E.
  - destruct l; cbn [length]; lia.
  - rewrite <- E. apply strip_length.
Qed.

Theorem shrink_normal : shrink_normal_stmt.
Proof.
  intros l Hok Hl. split; [|split].
  - apply shrink_ok, Hok.
  - apply shrink_nonnil, Hl.
  - apply shrink_idem.
Qed.

(* ---------------------------------------------------------------- normal *)

Lemma normal_shrink l : normal l -> shrink l = l.
Proof. intros (_ & _ & H). exact H. Qed.

Lemma normal_ok l : normal l -> limbs_ok l.
Proof. intros (H & _). exact H. Qed.

Lemma normal_nonnil l : normal l -> l <> [].
Proof. intros (_ & H & _). exact H. Qed.

Lemma normal_cases l : normal l -> l = [0] \/ (strip l = l /\ l <> []).
Proof.
  intros (_ & Hn & Hs). unfold shrink in Hs. destruct (strip l) as [|y s] eqn:E.
  - destruct l; [contradiction|]. left. symmetry. exact Hs.
  - right. split; [exact Hs|exact Hn].
Qed.

(* for normal l either l = [0] or the last limb is non-zero *)
Lemma normal_last l : normal l -> l = [0] \/ last l 0 <> 0.
Proof.
  intros H. destruct (normal_cases l H) as [E|[S Hn]]; [left; exact E|right].
  apply strip_fix_iff in S. destruct S as [S|S]; [contradiction|exact S].
Qed.

Lemma normal_zero : normal [0].
Proof.
  split; [|split]; [|discriminate|reflexivity].
  constructor; [exact B_pos|constructor].
Qed.

Lemma normal_iff l : normal l <-> limbs_ok l /\ (l = [0] \/ last l 0 <> 0).
Proof.
  split.
  - intros H. split; [apply normal_ok, H|apply normal_last, H].
  - intros [Hok [->|Hl]]; [apply normal_zero|].
    assert (Hn : l <> []) by (intros ->; cbn [last] in Hl; contradiction).
    split; [exact Hok|split; [exact Hn|]].
    assert (S : strip l = l) by (apply strip_fix_iff; right; exact Hl).
    unfold shrink. rewrite S. destruct l; [contradiction|reflexivity].
Qed.

Lemma normal_val_zero l : normal l -> lval l = 0 -> l = [0].
Proof.
  intros H V. destruct (normal_cases l H) as [E|[S Hn]]; [exact E|].
  apply val_strip_nil in V. rewrite S in V. contradiction.
Qed.

Lemma strip_inj a : forall b, limbs_ok a -> limbs_ok b -> strip a = a -> strip b = b ->
  lval a = lval b -> a = b.
Proof.
  induction a as [|x a IH]; intros b Oa Ob Sa Sb V; destruct b as [|y b].
  - reflexivity.
  - symmetry in V. apply val_strip_nil in V. rewrite Sb in V. discriminate.
  - apply val_strip_nil in V. rewrite Sa in V. discriminate.
  - inversion Oa as [|x' a' Hx Oa']; subst. inversion Ob as [|y' b' Hy Ob']; subst.
    cbn [lval] in V. pose proof B_pos as HB.
    assert (E : lval a = lval b).
    { destruct (N.lt_trichotomy (lval a) (lval b)) as [L|[E|L]]; [nia|exact E|nia]. }
    assert (Exy : x = y) by (rewrite E in V; lia).
    subst y. f_equal.
    apply IH; [assumption|assumption|apply (strip_tail x), Sa|apply (strip_tail x), Sb|exact E].
Qed.

Theorem normal_unique : normal_unique_stmt.
Proof.
  intros a b Ha Hb V.
  destruct (normal_cases a Ha) as [Ea|[Sa Na]].
  - subst a. symmetry. apply normal_val_zero; [exact Hb|]. rewrite <- V. reflexivity.
  - destruct (normal_cases b Hb) as [Eb|[Sb Nb]].
    + subst b. apply normal_val_zero; [exact Ha|]. rewrite V. reflexivity.
    + apply strip_inj; [apply normal_ok, Ha|apply normal_ok, Hb|exact Sa|exact Sb|exact V].
Qed.

Theorem normal_length : normal_length_stmt.
Proof.
  intros a b Ha Hb V.
  destruct (normal_cases a Ha) as [Ea|[Sa Na]].
  - subst a. pose proof (normal_nonnil b Hb) as Nb. destruct b; [contradiction|].
    cbn [length]. lia.
  - apply stripped_len_le; [exact Sa|exact Na|apply normal_ok, Hb|exact V].
Qed.

(* ---------------------------------------------------------------- lt_be *)

Lemma lt_be_app p : forall q s t, length p = length q ->
  lt_be (p ++ s) (q ++ t) =
  if lt_be p q then true else if lt_be q p then false else lt_be s t.
Proof.
  induction p as [|x p IH]; intros q s t Hlen; destruct q as [|y q]; try discriminate.
  - reflexivity.
  - cbn [app lt_be]. injection Hlen as Hlen.
    rewrite (N.eqb_sym y x).
    destruct (N.eqb_spec x y) as [E|NE].
    + apply IH, Hlen.
    + destruct (N.ltb_spec x y) as [L|G]; [reflexivity|].
      destruct (N.ltb_spec y x) as [L'|G']; [reflexivity|lia].
Qed.

Lemma lt_be_single x y : lt_be [x] [y] = (x <? y).
Proof.
  cbn [lt_be]. destruct (N.eqb_spec x y) as [E|NE]; [|reflexivity].
  subst. symmetry. apply N.ltb_irrefl.
Qed.

(* big-endian lexicographic comparison of equal-length limb vectors is value comparison *)
Lemma lt_be_rev : forall a b, length a = length b -> limbs_ok a -> limbs_ok b ->
  lt_be (rev a) (rev b) = (lval a <? lval b).
Proof.
  intros a b Hlen. revert a b Hlen.
  (* simultaneous induction so that the IH is available in both directions *)
  assert (G : forall n a b, length a = n -> length b = n -> limbs_ok a -> limbs_ok b ->
              lt_be (rev a) (rev b) = (lval a <? lval b)).
  { induction n as [|n IH]; intros a b La Lb Oa Ob.
    - destruct a; [|discriminate]. destruct b; [|discriminate]. reflexivity.
    - destruct a as [|x a]; [discriminate|]. destruct b as [|y b]; [discriminate|].
      injection La as La. injection Lb as Lb.
      inversion Oa as [|x' a' Hx Oa']; subst x' a'. inversion Ob as [|y' b' Hy Ob']; subst y' b'.
      cbn [rev lval].
      rewrite lt_be_app by (rewrite !rev_length; congruence).
      rewrite (IH a b La Lb Oa' Ob'), (IH b a Lb La Ob' Oa'), lt_be_single.
      pose proof B_pos as HB.
      destruct (N.ltb_spec (lval a) (lval b)) as [L1|G1].
      + symmetry. apply N.ltb_lt. nia.
      + destruct (N.ltb_spec (lval b) (lval a)) as [L2|G2].
        * symmetry. apply N.ltb_ge. nia.
        * assert (E : lval a = lval b) by lia. rewrite E.
          destruct (N.ltb_spec x y) as [L3|G3]; symmetry;
            [apply N.ltb_lt|apply N.ltb_ge]; lia. }
  intros a b Hlen. apply (G (length b)); [exact Hlen|reflexivity].
Qed.

(* ---------------------------------------------------------------- less_core *)

Lemma less_core_normal a b : normal a -> normal b ->
  (if Nat.eqb (length a) (length b) then lt_be (rev a) (rev b)
   else Nat.ltb (length a) (length b)) = (lval a <? lval b).
Proof.
  intros Ha Hb.
  destruct (Nat.eqb_spec (length a) (length b)) as [E|NE].
  - apply lt_be_rev; [exact E|apply normal_ok, Ha|apply normal_ok, Hb].
  - destruct (Nat.ltb_spec (length a) (length b)) as [L|G]; symmetry.
    + apply N.ltb_lt.
      destruct (N.lt_ge_cases (lval a) (lval b)) as [L'|G']; [exact L'|].
      pose proof (normal_length b a Hb Ha G'). lia.
    + apply N.ltb_ge.
      destruct (N.le_gt_cases (lval b) (lval a)) as [L'|G']; [exact L'|].
      pose proof (normal_length a b Ha Hb (N.lt_le_incl _ _ G')). lia.
Qed.

Theorem less_core_spec : less_core_stmt.
Proof.
  intros a b Oa Ob Na Nb. unfold less_core. cbv zeta.
  rewrite <- (shrink_val a), <- (shrink_val b).
  apply less_core_normal; apply shrink_normal; assumption.
Qed.

Lemma less_core_safe_nonnil a b : a <> [] -> b <> [] -> less_core_safe a b.
Proof. intros Ha Hb. split; assumption. Qed.

Print Assumptions shrink_val.
Print Assumptions shrink_ok.
Print Assumptions shrink_normal.
Print Assumptions normal_unique.
Print Assumptions normal_length.
Print Assumptions less_core_spec.
