(* Interactive interpreter: histories that contain `clear` (C12, last clause, at session level). *)
From Coq Require Import List NArith ZArith Bool.
Import ListNotations.
From HV Require Import Model.Big Model.Rat Model.NumText Model.Chars Model.Parse Model.Exec Model.Opt Model.Repl
  Proofs.OptSpec Proofs.AppSpec.
Open Scope N_scope.

(* a history  seg ++ [clear] ++ rest  with seg free of `clear`/`exit`: either the whole program of seg ends the session
   (program exit, diagnosed error) and what was shown is that run's text; or it ends normally, its text is shown, and the rest
   of the session is exactly a fresh session on [rest] *)
Definition repl_clear_split_stmt := forall fuel seg c rest evs e, forallb plain_line seg = true ->
  leqb (trim c) KW_CLEAR = true -> repl_run true fuel (seg ++ c :: rest) = (evs, e) -> e <> RFuelOut ->
  exists F k o x, beh (run_inc F [] (flat_map line_cmds seg) (state0 SUnopt [])) = (k, o, x) /\
    ((k <> KDone /\ rkind e = k /\ shown_out evs = o /\ shown_err evs = x) \/
     (k = KDone /\ e = snd (repl_run true fuel rest) /\
      shown_out evs = o ++ shown_out (fst (repl_run true fuel rest)) /\
      shown_err evs = x ++ shown_err (fst (repl_run true fuel rest)))).

(* the text shown for a whole session is the concatenation, segment by segment, of whole-program runs from the initial state:
   [segs] are the clear-free, exit-free pieces between consecutive `clear` lines *)
Fixpoint join_clear (c : list N) (segs : list (list (list N))) : list (list N) :=
  match segs with
  | [] => []
  | [s] => s
  | s :: r => s ++ c :: join_clear c r
  end.
Inductive session_beh : list (list (list N)) -> fkind -> list N -> list N -> Prop :=
| SB_nil : session_beh [] KDone [] []
| SB_last : forall seg F k o x, beh (run_inc F [] (flat_map line_cmds seg) (state0 SUnopt [])) = (k, o, x) -> k <> KFuel ->
    session_beh [seg] k o x
| SB_stop : forall seg r F k o x, r <> [] -> beh (run_inc F [] (flat_map line_cmds seg) (state0 SUnopt [])) = (k, o, x) ->
    k <> KDone -> k <> KFuel -> session_beh (seg :: r) k o x
| SB_cons : forall seg r F o x k o2 x2, r <> [] ->
    beh (run_inc F [] (flat_map line_cmds seg) (state0 SUnopt [])) = (KDone, o, x) ->
    session_beh r k o2 x2 -> session_beh (seg :: r) k (o ++ o2) (x ++ x2).
Definition repl_session_stmt := forall fuel c segs evs e, Forall (fun seg => forallb plain_line seg = true) segs ->
  leqb (trim c) KW_CLEAR = true -> repl_run true fuel (join_clear c segs) = (evs, e) -> e <> RFuelOut ->
  session_beh segs (rkind e) (shown_out evs) (shown_err evs).
