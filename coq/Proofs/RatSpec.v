(* Statements of the rational-layer and text-layer lemmas, as named propositions. *)
From Coq Require Import List NArith ZArith QArith Qround Lia Bool.
Import ListNotations.
From HV Require Import Model.Big Model.Rat Model.NumText.
Open Scope Z_scope.

(* the mathematical value: None = NaN *)
Definition nval (n : num) : option Q :=
  if is_nan n then None else Some (bval (up n) # Z.to_pos (bval (down n))).

Definition oq_eq (a b : option Q) : Prop :=
  match a, b with Some x, Some y => x == y | None, None => True | _, _ => False end.
Definition lift2 (f : Q -> Q -> Q) (a b : option Q) : option Q :=
  match a, b with Some x, Some y => Some (f x y) | _, _ => None end.
Definition frac (u d : Z) : option Q := if (d =? 0)%Z then None else Some (if (0 <? d) then u # Z.to_pos d else (- u) # Z.to_pos (- d)).

Definition optimize_stmt := forall u d, wf u -> wf d -> (bval u <> 0 \/ bval d <> 0) ->
  wfn (optimize (mknum u d)) /\ oq_eq (nval (optimize (mknum u d))) (frac (bval u) (bval d)).
Definition nadd_stmt := forall a b, wfn a -> wfn b ->
  wfn (nadd a b) /\ oq_eq (nval (nadd a b)) (lift2 Qplus (nval a) (nval b)).
Definition nmul_stmt := forall a b, wfn a -> wfn b ->
  wfn (nmul a b) /\ oq_eq (nval (nmul a b)) (lift2 Qmult (nval a) (nval b)).
Definition nneg_stmt := forall a, wfn a ->
  wfn (nneg a) /\ oq_eq (nval (nneg a)) (option_map Qopp (nval a)) /\ nminus a = nneg a.
Definition nflip_stmt := forall a, wfn a ->
  wfn (nflip a) /\
  oq_eq (nval (nflip a)) (match nval a with Some q => if Qeq_bool q 0 then None else Some (/ q)%Q | None => None end).
Definition floor_stmt := forall a q, wfn a -> nval a = Some q -> (0 <= q)%Q ->
  wf (floor a) /\ bval (floor a) = Qfloor q.
Definition is_pos_stmt := forall a, wfn a ->
  (is_pos a = true <-> exists q, nval a = Some q /\ (0 <= q)%Q).
Definition is_nan_stmt := forall a, wfn a -> (is_nan a = true <-> nval a = None).
Definition wfn_unique_stmt := forall a b q q', wfn a -> wfn b -> nval a = Some q -> nval b = Some q' -> q == q' -> a = b.
Definition neq_stmt := forall a b q q', wfn a -> wfn b -> nval a = Some q -> nval b = Some q' ->
  (neq a b = true <-> q == q').
Definition ncmp_stmt := forall a b, wfn a -> wfn b ->
  ncmp a b = match nval a, nval b with Some x, Some y => Some (x ?= y)%Q | _, _ => None end.
Definition from_num_stmt := forall n, (Z.abs n < 2 ^ 127) -> wfn (from_num n) /\ nval (from_num n) = Some (inject_Z n).

(* ---- text ---- *)
Open Scope N_scope.
Definition digit_ok (base : N) (c : N) : Prop := exists d, d < base /\ c = digit_char d.
Fixpoint digits_val (base : N) (ds : list N) (acc : N) : N :=     (* most significant first *)
  match ds with [] => acc | c :: r => digits_val base r (acc * base + match digit_val c with Some d => d | None => 0 end) end.

Definition tsb_stmt := forall a base, wf a -> 2 <= base <= 36 ->
  exists ds, to_string_base a base = TSOk ((if bpos a then [] else [CH_MINUS]) ++ ds) /\
    ds <> [] /\ Forall (digit_ok base) ds /\ (hd 0 ds = 48 -> ds = [48]) /\
    digits_val base ds 0 = Z.abs_N (bval a).
Definition fsb_tsb_stmt := forall a base s, wf a -> 2 <= base <= 36 ->
  to_string_base a base = TSOk s -> from_string_base s base = FSOk a.
Definition num_roundtrip_stmt := forall n, wfn n ->
  num_from_string (num_display n) = Some (if is_nan n then nan else n).
Definition num_display_stmt := forall n, wfn n ->
  num_display n = if is_nan n then NAN_TEXT
                  else if (bval (down n) =? 1)%Z then big_display (up n)
                  else big_display (up n) ++ [CH_SLASH] ++ big_display (down n).
