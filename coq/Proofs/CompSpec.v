(* Statements for the compiler model (Model/Compile.v). *)
From Coq Require Import List NArith ZArith Bool.
Import ListNotations.
From HV Require Import Model.Big Model.Rat Model.NumText Model.Chars Model.Parse Model.Exec Model.Opt Model.Compile Proofs.OptSpec.
Open Scope N_scope.

(* the generated if/else tree runs block i, and only it, when state = i — for every number of blocks *)
Definition dispatch_selects_stmt := forall n b, b < n -> tree_select (dispatch_tree n) b = b.

(* the block partition: concatenating the blocks gives back the commands; every block is non-empty and is either a
   single area-carrying command or a run of area-free commands *)
Definition block_ok (b : list xcode) : Prop :=
  b <> [] /\ ((exists c, b = [c] /\ has_area c = true) \/ forallb (fun c => negb (has_area c)) b = true).
Definition blocks_partition_stmt := forall code, concat (blocks code) = code /\ Forall block_ok (blocks code).
(* label targets translate to the block that consists of exactly that command *)
Definition block_index_stmt := forall code i c, nth_error code (N.to_nat i) = Some c -> has_area c = true ->
  nth_error (blocks code) (N.to_nat (block_index code i)) = Some [c].
(* first command index of block b *)
Definition block_start (code : list xcode) (b : nat) : N := N.of_nat (length (concat (firstn b (blocks code)))).

(* behaviour of an emitted program *)
Definition ibeh (f : irfinal) : fkind * list N * list N :=
  match f with
  | IDone s => (KDone, rev (outb s), rev (errb s))
  | IExit c s => (KExit c, rev (outb s), rev (errb s))
  | IAbort n s => (KErr (EEnc n), rev (outb s), rev (errb s))
  | IIoErr s => (KErr EIo, rev (outb s), rev (errb s))
  | IFuel s => (KFuel, rev (outb s), rev (errb s))
  | IBadState => (KPanic, [], [])
  end.

(* levels 0 and 1 (no serialised pre-state): the emitted program over the blocks of [code], started in any container
   kind [k], behaves like the interpreter on [code]: every finished interpreter run is matched by the emitted program
   with some step budget, and conversely *)
Definition compiled_sound_stmt := forall k fuel code input,
  match run_pre fuel code (state0 k input) 0 with
  | FFuel _ _ => True
  | FPanic _ => True
  | x => exists fuel', ibeh (ir_run fuel' (build_ir true 1 (state0 k input) [] code) input) = beh x
  end.
Definition compiled_complete_stmt := forall k fuel code input,
  match ir_run fuel (build_ir true 1 (state0 k input) [] code) input with
  | IFuel _ => True
  | IBadState => False
  | y => exists fuel', beh (run_pre fuel' code (state0 k input) 0) = ibeh y
  end.
(* the pinned compiler (before fix 7d19713) resumed a level-2 program at the wrong block *)
Definition compiled_pinned_refuted_stmt := exists code input fuel p p',
  compile_prog all_fixed false code 2 = Some p /\ compile_prog all_fixed true code 2 = Some p' /\
  ibeh (ir_run fuel p input) <> ibeh (ir_run fuel p' input) /\
  ibeh (ir_run fuel p' input) = beh (run_level all_fixed fuel code 0 input).
