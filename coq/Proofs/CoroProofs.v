From Coq Require Import List NArith ZArith QArith Lia Bool. Import ListNotations.
From HV Require Import Model.Big Model.Rat Model.NumText Model.Chars Model.Parse Model.Exec Model.Opt Model.Repl Model.Compile Spec.Lang Proofs.BigSpec Proofs.RatSpec Proofs.ExecSpec Proofs.OptSpec Proofs.AppSpec Proofs.CoroSpec Proofs.BigAll Proofs.TextAll Proofs.AppAll.
From HV Require Proofs.ExecVal.
Open Scope N_scope.

(* ---- calc ---- *)
Lemma calc_val_0 : forall l r cnt (pop : M num) s,
  calc (Val 0 l r) cnt pop s =
  bind pop (fun v => match ncmp v (from_num (Z.of_N cnt)) with Some Lt => calc l cnt pop | _ => calc r cnt pop end) s.
Proof. intros. reflexivity. Qed.

Lemma calc_val_1 : forall l r cnt (pop : M num) s,
  calc (Val 1 l r) cnt pop s =
  bind pop (fun v => match ncmp v (from_num (Z.of_N cnt)) with Some Eq => calc l cnt pop | _ => calc r cnt pop end) s.
Proof. intros. reflexivity. Qed.

Lemma bind_ret : forall A B (a : A) (f : A -> M B) s, bind (ret a) f s = f a s.
Proof. intros. reflexivity. Qed.

Theorem calc_question : calc_question_stmt.
Proof.
  unfold calc_question_stmt. intros v cnt l r s Hv Hc.
  destruct (ExecVal.vof_cmp v cnt Hv Hc) as [Hlt _].
  rewrite calc_val_0, bind_ret. rewrite <- Hlt.
  destruct (ncmp v (from_num (Z.of_N cnt))) as [[ | | ] | ]; reflexivity.
Qed.

Theorem calc_bang : calc_bang_stmt.
Proof.
  unfold calc_bang_stmt. intros v cnt l r s Hv Hc.
  destruct (ExecVal.vof_cmp v cnt Hv Hc) as [_ Heq].
  rewrite calc_val_1, bind_ret. rewrite <- Heq.
  destruct (ncmp v (from_num (Z.of_N cnt))) as [[ | | ] | ]; reflexivity.
Qed.

Theorem calc_heart : calc_heart_stmt.
Proof.
  unfold calc_heart_stmt. intros t l r cnt pop s Ht.
  cbn [calc].
  assert (H0 : (t =? 0) = false) by (apply N.eqb_neq; lia).
  assert (H1 : (t =? 1) = false) by (apply N.eqb_neq; lia).
  rewrite H0, H1. reflexivity.
Qed.

(* ---- stacks ---- *)
Definition dstep (acc : option (list num)) (t : list N) : option (list num) :=
  match acc, num_from_string t with Some a, Some x => Some (x :: a) | _, _ => None end.

Lemma canon_roundtrip : forall x, canon_num x -> num_from_string (num_display x) = Some x.
Proof.
  intros x [Hw Hn]. rewrite (num_roundtrip_t x Hw).
  destruct (is_nan x) eqn:E.
  - rewrite (Hn eq_refl). reflexivity.
  - reflexivity.
Qed.

Lemma deser_gen : forall xs acc, Forall canon_num xs ->
  fold_left dstep (map num_display xs) (Some acc) = Some (rev xs ++ acc).
Proof.
  induction xs as [ | x xs IH]; intros acc HF.
  - reflexivity.
  - inversion HF as [ | x' xs' Hx Hxs]; subst.
    cbn [map fold_left rev]. unfold dstep at 2. rewrite (canon_roundtrip x Hx).
    rewrite (IH (x :: acc) Hxs). rewrite <- app_assoc. reflexivity.
Qed.

Theorem stack_roundtrip : stack_roundtrip_stmt.
Proof.
  unfold stack_roundtrip_stmt. intros l HF.
  unfold deser_stack, ser_stack.
  change (fold_left dstep (map num_display (rev l)) (Some []) = Some l).
  rewrite deser_gen.
  - rewrite rev_involutive, app_nil_r. reflexivity.
  - apply Forall_forall. intros x Hin. apply in_rev in Hin.
    rewrite Forall_forall in HF. apply HF. exact Hin.
Qed.

(* ---- repl ---- *)
Theorem repl_after_clear : repl_after_clear_stmt.
Proof.
  unfold repl_after_clear_stmt. intros fuel line rest log s Hc.
  rewrite (repl_clear_t true fuel line rest log s Hc).
  destruct (repl true fuel rest [] (state0 SUnopt (inp s))) as [ev e].
  split; reflexivity.
Qed.

(* ---- big ---- *)
Theorem badd_respects : badd_respects_stmt.
Proof.
  unfold badd_respects_stmt. intros a a' b b' Ha Ha' Hb Hb' Hab Hbb.
  rewrite (wf_unique_t a a' Ha Ha' Hab), (wf_unique_t b b' Hb Hb' Hbb).
  repeat split; reflexivity.
Qed.

Print Assumptions calc_question.
Print Assumptions calc_bang.
Print Assumptions calc_heart.
Print Assumptions stack_roundtrip.
Print Assumptions repl_after_clear.
Print Assumptions badd_respects.
