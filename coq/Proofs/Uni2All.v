(* Closing the premises of Proofs/Uni2Proofs.v with the compiler theorems of Proofs/Comp4Proofs.v. *)
From HV Require Import Proofs.Comp4Spec Proofs.Comp4Proofs Proofs.Uni2Spec Proofs.Uni2Proofs.
Definition cat_compiled_t : cat_compiled_stmt := cat_compiled compiled_end_to_end_sound.
Definition copy_compiled_t : copy_compiled_stmt := copy_compiled compiled_end_to_end_sound.
