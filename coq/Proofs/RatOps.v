From Coq Require Import List NArith ZArith QArith Qround Qreduction Lia Bool Znumtheory.
Import ListNotations.
From HV Require Import Model.Big Model.Rat Proofs.BigSpec Proofs.RatSpec Proofs.RatBase.
(* Rational layer (src/number/num.rs): optimize, arithmetic, comparison, floor — relative to the
   big-integer layer statements of Proofs/BigSpec.v, which stay premises after [End]. *)
Local Open Scope Z_scope.

(* ---------- pure Z / Q facts ---------- *)

Lemma Qeq_frac a b c d : 0 < b -> 0 < d -> a * d = c * b -> (a # Z.to_pos b == c # Z.to_pos d)%Q.
Proof. intros Hb Hd E. unfold Qeq. cbn [Qnum Qden]. rewrite !Z2Pos.id by assumption. exact E. Qed.

Lemma Qeq_frac_inv a b c d : 0 < b -> 0 < d -> (a # Z.to_pos b == c # Z.to_pos d)%Q -> a * d = c * b.
Proof. intros Hb Hd E. unfold Qeq in E. cbn [Qnum Qden] in E. rewrite !Z2Pos.id in E by assumption. exact E. Qed.

Lemma frac_pos u d : 0 < d -> frac u d = Some (u # Z.to_pos d).
Proof.
  intros H. unfold frac. destruct (Z.eqb_spec d 0) as [E|E]; [lia|].
  destruct (Z.ltb_spec 0 d); [reflexivity|lia].
Qed.

Lemma oq_eq_trans a b c : oq_eq a b -> oq_eq b c -> oq_eq a c.
Proof.
  destruct a, b, c; cbn; try tauto. intros H1 H2. rewrite H1. exact H2.
Qed.

Lemma coprime_unique a d a' d' : 0 < d -> 0 < d' -> Z.gcd a d = 1 -> Z.gcd a' d' = 1 ->
  a * d' = a' * d -> a = a' /\ d = d'.
Proof.
  intros Hd Hd' G G' E.
  assert (D1 : (d | d')).
  { apply Z.gauss with (m := a). - exists a'. lia. - rewrite Z.gcd_comm. exact G. }
  assert (D2 : (d' | d)).
  { apply Z.gauss with (m := a'). - exists a. lia. - rewrite Z.gcd_comm. exact G'. }
  assert (Ed : d = d') by (apply Z.divide_antisym_nonneg; lia || assumption).
  split; [|exact Ed]. subst d'. apply Z.mul_cancel_r with (p := d); lia.
Qed.

(* sign repair after dividing by a gcd of unknown sign *)
Lemma frac_arith u0 d0 g u' d' : g <> 0 -> 0 <= d' -> d0 * g <> 0 ->
  ((u' = u0 /\ d' = d0) \/ (u' = - u0 /\ d' = - d0)) ->
  0 < d' /\ (0 < d0 * g -> u' * (d0 * g) = (u0 * g) * d') /\
  (d0 * g < 0 -> u' * (- (d0 * g)) = (- (u0 * g)) * d').
Proof.
  intros Hg Hd' Hne C.
  assert (d0 <> 0) by (intros ->; lia).
  destruct C as [[-> ->]|[-> ->]]; (split; [lia|split; intros _; ring]).
Qed.

Lemma Qinv_case u d u' d' : 0 < d -> u <> 0 -> 0 <= d' ->
  ((u' = d /\ d' = u) \/ (u' = - d /\ d' = - u)) -> (u' # Z.to_pos d' == / (u # Z.to_pos d))%Q.
Proof.
  intros Hd Hu Hd' C. destruct u as [|p|p]; [congruence| |]; unfold Qinv; cbn [Qnum Qden].
  - destruct C as [[-> ->]|[-> ->]]; [|lia]. cbn [Z.to_pos]. rewrite Z2Pos.id by assumption. reflexivity.
  - destruct C as [[-> ->]|[-> ->]]; [lia|]. cbn [Z.opp Z.to_pos].
    unfold Qeq. cbn [Qnum Qden]. rewrite <- Pos2Z.opp_pos, Z2Pos.id by assumption. reflexivity.
Qed.

Section RatOps.
Hypothesis Hadd : badd_stmt.
Hypothesis Hmul : bmul_stmt.
Hypothesis Hdiv : bdiv_stmt.
Hypothesis Hneg : bneg_stmt.
Hypothesis Heq : beq_stmt.
Hypothesis Hcmp : bcmp_stmt.
Hypothesis Huniq : wf_unique_stmt.
Hypothesis Hzero : is_zero_stmt.
Hypothesis Hgcd : bgcd_stmt.
Hypothesis Hnew : bnew_stmt.

(* ---------- small facts about the big layer ---------- *)

Lemma bval_pos_true a : bpos a = true -> 0 <= bval a.
Proof. unfold bval. intros ->. lia. Qed.
Lemma bval_pos_false a : bpos a = false -> bval a <= 0.
Proof. unfold bval. intros ->. lia. Qed.

Lemma bpos_iff a : wf a -> (bpos a = true <-> 0 <= bval a).
Proof.
  intros W. split; [apply bval_pos_true|].
  intros H. destruct (bpos a) eqn:E; [reflexivity|].
  pose proof (bval_pos_false a E) as H'.
  assert (Z0 : bval a = 0) by lia.
  apply (Hzero a W) in Z0. unfold is_zero in Z0.
  destruct (list_eq_dec N.eq_dec (limbs a) [0%N]) as [e|e]; [|discriminate].
  destruct W as [_ W]. rewrite (W e) in E. discriminate.
Qed.

Lemma wf_bone : wf bone.
Proof.
  unfold wf, normal, bone. cbn [limbs bpos]. refine (conj (conj _ (conj _ eq_refl)) (fun _ => eq_refl)).
  - constructor; [unfold B; lia|constructor].
  - discriminate.
Qed.
Lemma wf_bzero : wf bzero.
Proof.
  unfold wf, normal, bzero. cbn [limbs bpos]. refine (conj (conj _ (conj _ eq_refl)) (fun _ => eq_refl)).
  - constructor; [unfold B; lia|constructor].
  - discriminate.
Qed.
Lemma bval_bone : bval bone = 1.
Proof. vm_compute. reflexivity. Qed.
Lemma bval_bzero : bval bzero = 0.
Proof. vm_compute. reflexivity. Qed.

(* ---------- wfn / nval in terms of integer values ---------- *)

Lemma wfn_iff n : wfn n <->
  wf (up n) /\ wf (down n) /\ 0 <= bval (down n) /\ Z.gcd (bval (up n)) (bval (down n)) = 1.
Proof.
  unfold wfn. split.
  - intros (Wu & Wd & P & G & A). refine (conj Wu (conj Wd (conj _ _))).
    + apply bpos_iff; auto.
    + destruct (Z.eq_dec (bval (down n)) 0) as [E|E]; auto. rewrite E, Z.gcd_0_r. auto.
  - intros (Wu & Wd & P & G). refine (conj Wu (conj Wd (conj _ (conj (fun _ => G) _)))).
    + apply bpos_iff; auto.
    + intros E. rewrite E, Z.gcd_0_r in G. exact G.
Qed.

Lemma is_nan_iff n : wf (down n) -> (is_nan n = true <-> bval (down n) = 0).
Proof. intros W. unfold is_nan. apply Hzero; exact W. Qed.
Lemma is_nan_true n : wf (down n) -> bval (down n) = 0 -> is_nan n = true.
Proof. intros W E. apply is_nan_iff; assumption. Qed.
Lemma is_nan_false n : wf (down n) -> bval (down n) <> 0 -> is_nan n = false.
Proof.
  intros W E. destruct (is_nan n) eqn:N; [|reflexivity]. apply is_nan_iff in N; [contradiction|exact W].
Qed.
Lemma nval_none n : wf (down n) -> bval (down n) = 0 -> nval n = None.
Proof. intros W E. unfold nval. rewrite (is_nan_true n W E). reflexivity. Qed.
Lemma nval_some n : wf (down n) -> bval (down n) <> 0 ->
  nval n = Some (bval (up n) # Z.to_pos (bval (down n))).
Proof. intros W E. unfold nval. rewrite (is_nan_false n W E). reflexivity. Qed.
Lemma nval_inv n q : wf (down n) -> nval n = Some q ->
  bval (down n) <> 0 /\ q = (bval (up n) # Z.to_pos (bval (down n))).
Proof.
  intros W E. destruct (Z.eq_dec (bval (down n)) 0) as [Z0|NZ].
  - rewrite (nval_none n W Z0) in E. discriminate.
  - rewrite (nval_some n W NZ) in E. inversion E. split; [exact NZ|reflexivity].
Qed.

Lemma wfn_nan : wfn nan.
Proof.
  apply wfn_iff. unfold nan. cbn [up down]. rewrite bval_bone, bval_bzero.
  refine (conj wf_bone (conj wf_bzero (conj _ _))); [lia|reflexivity].
Qed.
Lemma nval_nan : nval nan = None.
Proof. reflexivity. Qed.

(* ---------- the sign repair shared by optimize and nflip ---------- *)

Definition repair (u d : big) : num := if bpos d then mknum u d else mknum (bminus u) (bminus d).

Lemma repair_spec u d : wf u -> wf d ->
  exists u' d', repair u d = mknum u' d' /\ wf u' /\ wf d' /\ 0 <= bval d' /\
    ((bval u' = bval u /\ bval d' = bval d) \/ (bval u' = - bval u /\ bval d' = - bval d)).
Proof.
  intros Wu Wd. unfold repair. destruct (bpos d) eqn:E.
  - exists u, d. refine (conj eq_refl (conj Wu (conj Wd (conj _ _)))); [apply bpos_iff; assumption|auto].
  - destruct (Hneg u Wu) as [W1 V1]. destruct (Hneg d Wd) as [W2 V2]. unfold bneg in *.
    exists (bminus u), (bminus d). refine (conj eq_refl (conj W1 (conj W2 (conj _ _)))); [|auto].
    pose proof (bval_pos_false d E). lia.
Qed.

Lemma optimize_repair n :
  optimize n = repair (bdiv (up n) (gcd_total (up n) (down n))) (bdiv (down n) (gcd_total (up n) (down n))).
Proof. reflexivity. Qed.
Lemma nflip_repair n : nflip n = if is_nan n then n else repair (down n) (up n).
Proof. reflexivity. Qed.

(* ---------- optimize ---------- *)

Theorem optimize_spec : optimize_stmt.
Proof.
  intros u d Wu Wd NZ.
  destruct (Hgcd u d Wu Wd) as (g & Eg & Wg & Ag).
  assert (Gnz : bval g <> 0).
  { intros E. rewrite E in Ag. cbn [Z.abs] in Ag. symmetry in Ag. apply Z.gcd_eq_0 in Ag. lia. }
  assert (Du : (bval g | bval u)).
  { apply Z.divide_abs_l. rewrite Ag. apply Z.gcd_divide_l. }
  assert (Dd : (bval g | bval d)).
  { apply Z.divide_abs_l. rewrite Ag. apply Z.gcd_divide_r. }
  destruct Du as [u0 Eu]. destruct Dd as [d0 Ed].
  assert (G0 : Z.gcd u0 d0 = 1).
  { rewrite Eu, Ed, Z.gcd_mul_mono_r in Ag.
    assert (0 < Z.abs (bval g)) by lia. nia. }
  rewrite optimize_repair. cbn [up down]. unfold gcd_total. rewrite Eg.
  destruct (Hdiv u g Wu Wg Gnz) as [Wu' Vu']. destruct (Hdiv d g Wd Wg Gnz) as [Wd' Vd'].
  rewrite Eu, Z.quot_mul in Vu' by exact Gnz. rewrite Ed, Z.quot_mul in Vd' by exact Gnz.
  destruct (repair_spec _ _ Wu' Wd') as (u' & d' & -> & Wu2 & Wd2 & P & C).
  rewrite Vu', Vd' in C.
  split.
  - apply wfn_iff. cbn [up down]. refine (conj Wu2 (conj Wd2 (conj P _))).
    destruct C as [[-> ->]|[-> ->]]; [exact G0|]. rewrite Z.gcd_opp_l, Z.gcd_opp_r. exact G0.
  - rewrite Eu, Ed. unfold frac. destruct (Z.eqb_spec (d0 * bval g) 0) as [E0|E0].
    + rewrite nval_none; cbn [up down oq_eq]; auto.
      assert (d0 = 0) by nia. lia.
    + destruct (frac_arith u0 d0 (bval g) (bval u') (bval d') Gnz P E0 C) as (Pd & A1 & A2).
      rewrite nval_some; cbn [up down]; auto; [|lia].
      destruct (Z.ltb_spec 0 (d0 * bval g)) as [L|L]; cbn [oq_eq]; apply Qeq_frac; auto; lia.
Qed.

(* ---------- arithmetic ---------- *)

Theorem nadd_spec : nadd_stmt.
Proof.
  intros a b Wa Wb.
  apply wfn_iff in Wa as (Wau & Wad & Pa & Ga). apply wfn_iff in Wb as (Wbu & Wbd & Pb & Gb).
  unfold nadd.
  destruct (Z.eq_dec (bval (down a)) 0) as [Ea|Ea].
  { rewrite (is_nan_true a Wad Ea), (nval_none a Wad Ea). cbn. split; [apply wfn_nan|exact I]. }
  destruct (Z.eq_dec (bval (down b)) 0) as [Eb|Eb].
  { rewrite (is_nan_true b Wbd Eb), (nval_none b Wbd Eb), orb_true_r.
    split; [apply wfn_nan|]. rewrite nval_nan. destruct (nval a); exact I. }
  rewrite (is_nan_false a Wad Ea), (is_nan_false b Wbd Eb). cbn [orb].
  destruct (Hmul (up a) (down b) Wau Wbd) as [W1 V1].
  destruct (Hmul (down a) (up b) Wad Wbu) as [W2 V2].
  destruct (Hmul (down a) (down b) Wad Wbd) as [W3 V3].
  destruct (Hadd _ _ W1 W2) as [W4 V4]. rewrite V1, V2 in V4.
  assert (D3 : 0 < bval (bmul (down a) (down b))) by (rewrite V3; nia).
  destruct (optimize_spec _ _ W4 W3 (or_intror (Z.neq_sym _ _ (Z.lt_neq _ _ D3)))) as [W V].
  split; [exact W|].
  eapply oq_eq_trans; [exact V|].
  rewrite (frac_pos _ _ D3), (nval_some a Wad Ea), (nval_some b Wbd Eb). cbn [lift2 oq_eq].
  rewrite V4, V3. unfold Qeq, Qplus. cbn [Qnum Qden].
  rewrite Pos2Z.inj_mul, !Z2Pos.id by nia. ring.
Qed.

Theorem nmul_spec : nmul_stmt.
Proof.
  intros a b Wa Wb.
  apply wfn_iff in Wa as (Wau & Wad & Pa & Ga). apply wfn_iff in Wb as (Wbu & Wbd & Pb & Gb).
  unfold nmul.
  destruct (Z.eq_dec (bval (down a)) 0) as [Ea|Ea].
  { rewrite (is_nan_true a Wad Ea), (nval_none a Wad Ea). cbn. split; [apply wfn_nan|exact I]. }
  destruct (Z.eq_dec (bval (down b)) 0) as [Eb|Eb].
  { rewrite (is_nan_true b Wbd Eb), (nval_none b Wbd Eb), orb_true_r.
    split; [apply wfn_nan|]. rewrite nval_nan. destruct (nval a); exact I. }
  rewrite (is_nan_false a Wad Ea), (is_nan_false b Wbd Eb). cbn [orb].
  destruct (Hmul (up a) (up b) Wau Wbu) as [W1 V1].
  destruct (Hmul (down a) (down b) Wad Wbd) as [W3 V3].
  assert (D3 : 0 < bval (bmul (down a) (down b))) by (rewrite V3; nia).
  destruct (optimize_spec _ _ W1 W3 (or_intror (Z.neq_sym _ _ (Z.lt_neq _ _ D3)))) as [W V].
  split; [exact W|].
  eapply oq_eq_trans; [exact V|].
  rewrite (frac_pos _ _ D3), (nval_some a Wad Ea), (nval_some b Wbd Eb). cbn [lift2 oq_eq].
  rewrite V1, V3. unfold Qeq, Qmult. cbn [Qnum Qden].
  rewrite Pos2Z.inj_mul, !Z2Pos.id by nia. ring.
Qed.

Theorem nneg_spec : nneg_stmt.
Proof.
  intros a Wa. apply wfn_iff in Wa as (Wu & Wd & P & G).
  destruct (Hneg (up a) Wu) as [W1 V1].
  split; [|split; [|reflexivity]].
  - apply wfn_iff. unfold nneg. cbn [up down]. refine (conj W1 (conj Wd (conj P _))).
    rewrite V1, Z.gcd_opp_l. exact G.
  - destruct (Z.eq_dec (bval (down a)) 0) as [E|E].
    + rewrite (nval_none a Wd E), nval_none; cbn; auto.
    + rewrite (nval_some a Wd E), nval_some; cbn [nneg up down]; auto.
      rewrite V1. cbn [option_map oq_eq]. unfold Qopp. cbn [Qnum Qden]. reflexivity.
Qed.

Theorem nflip_spec : nflip_stmt.
Proof.
  intros a Wa. pose proof Wa as Wa'. apply wfn_iff in Wa' as (Wu & Wd & P & G).
  rewrite nflip_repair.
  destruct (Z.eq_dec (bval (down a)) 0) as [E|E].
  { rewrite (is_nan_true a Wd E), (nval_none a Wd E). split; [exact Wa|exact I]. }
  rewrite (is_nan_false a Wd E), (nval_some a Wd E).
  destruct (repair_spec _ _ Wd Wu) as (u' & d' & -> & Wu2 & Wd2 & P2 & C).
  split.
  - apply wfn_iff. cbn [up down]. refine (conj Wu2 (conj Wd2 (conj P2 _))).
    destruct C as [[-> ->]|[-> ->]]; [|rewrite Z.gcd_opp_l, Z.gcd_opp_r]; rewrite Z.gcd_comm; exact G.
  - destruct (Qeq_bool (bval (up a) # Z.to_pos (bval (down a))) 0) eqn:Q0.
    + apply Qeq_bool_iff in Q0. unfold Qeq in Q0. cbn [Qnum Qden] in Q0.
      rewrite nval_none; cbn [up down oq_eq]; auto. lia.
    + apply Qeq_bool_neq in Q0.
      assert (Hu : bval (up a) <> 0).
      { intros Z0. apply Q0. rewrite Z0. unfold Qeq. cbn [Qnum Qden]. reflexivity. }
      rewrite nval_some; cbn [up down oq_eq]; auto; [|lia].
      apply Qinv_case; auto; lia.
Qed.

Theorem floor_spec : floor_stmt.
Proof.
  intros a q Wa Ev Hq. apply wfn_iff in Wa as (Wu & Wd & P & G).
  destruct (nval_inv a q Wd Ev) as [E ->].
  assert (Hu : 0 <= bval (up a)).
  { unfold Qle in Hq. cbn [Qnum Qden] in Hq. lia. }
  unfold floor. destruct (beq (down a) bone) eqn:B1.
  - split; [exact Wu|]. apply (Heq _ _ Wd wf_bone) in B1. rewrite bval_bone in B1.
    rewrite B1. cbn [Z.to_pos Qfloor]. rewrite Z.div_1_r. reflexivity.
  - destruct (Hdiv _ _ Wu Wd E) as [W V]. split; [exact W|].
    rewrite V. cbn [Qfloor]. rewrite Z2Pos.id by lia. apply Z.quot_div_nonneg; lia.
Qed.

Theorem is_pos_spec : is_pos_stmt.
Proof.
  intros a Wa. apply wfn_iff in Wa as (Wu & Wd & P & G). unfold is_pos. split.
  - intros H. apply andb_true_iff in H as [H1 H2]. apply negb_true_iff in H2.
    assert (E : bval (down a) <> 0).
    { intros Z0. rewrite (is_nan_true a Wd Z0) in H2. discriminate. }
    eexists. split; [apply nval_some; assumption|].
    apply bval_pos_true in H1. unfold Qle. cbn [Qnum Qden]. lia.
  - intros (q & Ev & Hq). destruct (nval_inv a q Wd Ev) as [E ->].
    unfold Qle in Hq. cbn [Qnum Qden] in Hq.
    rewrite (is_nan_false a Wd E). cbn [negb]. rewrite andb_true_r. apply bpos_iff; [exact Wu|lia].
Qed.

Theorem is_nan_spec : is_nan_stmt.
Proof.
  intros a _. unfold nval. destruct (is_nan a); split; intros H; try reflexivity; discriminate.
Qed.

(* ---------- uniqueness of representation, equality, comparison ---------- *)

Lemma wfn_vals_eq a b q q' : wfn a -> wfn b -> nval a = Some q -> nval b = Some q' -> (q == q')%Q ->
  bval (up a) = bval (up b) /\ bval (down a) = bval (down b).
Proof.
  intros Wa Wb Ea Eb Q.
  apply wfn_iff in Wa as (Wau & Wad & Pa & Ga). apply wfn_iff in Wb as (Wbu & Wbd & Pb & Gb).
  destruct (nval_inv a q Wad Ea) as [Na ->]. destruct (nval_inv b q' Wbd Eb) as [Nb ->].
  apply Qeq_frac_inv in Q; [|lia|lia].
  apply coprime_unique; auto; lia.
Qed.

Theorem wfn_unique : wfn_unique_stmt.
Proof.
  intros a b q q' Wa Wb Ea Eb Q.
  destruct (wfn_vals_eq a b q q' Wa Wb Ea Eb Q) as [Vu Vd].
  destruct Wa as (Wau & Wad & _). destruct Wb as (Wbu & Wbd & _).
  apply Huniq in Vu; auto. apply Huniq in Vd; auto.
  destruct a as [ua da], b as [ub db]. cbn [up down] in *. subst. reflexivity.
Qed.

Theorem neq_spec : neq_stmt.
Proof.
  intros a b q q' Wa Wb Ea Eb.
  pose proof Wa as (Wau & Wad & _). pose proof Wb as (Wbu & Wbd & _).
  unfold neq. split.
  - intros H. apply andb_true_iff in H as [H1 H2].
    apply (Heq _ _ Wau Wbu) in H1. apply (Heq _ _ Wad Wbd) in H2.
    destruct (nval_inv a q Wad Ea) as [Na ->]. destruct (nval_inv b q' Wbd Eb) as [Nb ->].
    rewrite H1, H2. reflexivity.
  - intros Q. destruct (wfn_vals_eq a b q q' Wa Wb Ea Eb Q) as [Vu Vd].
    apply andb_true_iff. split; apply Heq; assumption.
Qed.

Theorem ncmp_spec : ncmp_stmt.
Proof.
  intros a b Wa Wb.
  pose proof Wa as Wa'. pose proof Wb as Wb'.
  apply wfn_iff in Wa' as (Wau & Wad & Pa & Ga). apply wfn_iff in Wb' as (Wbu & Wbd & Pb & Gb).
  unfold ncmp.
  destruct (Z.eq_dec (bval (down a)) 0) as [Ea|Ea].
  { rewrite (is_nan_true a Wad Ea), (nval_none a Wad Ea). reflexivity. }
  destruct (Z.eq_dec (bval (down b)) 0) as [Eb|Eb].
  { rewrite (is_nan_true b Wbd Eb), (nval_none b Wbd Eb), orb_true_r. destruct (nval a); reflexivity. }
  rewrite (is_nan_false a Wad Ea), (is_nan_false b Wbd Eb). cbn [orb].
  pose proof (nval_some a Wad Ea) as Va. pose proof (nval_some b Wbd Eb) as Vb.
  pose proof (neq_spec a b _ _ Wa Wb Va Vb) as NE.
  rewrite Va, Vb.
  assert (QC : ((bval (up a) # Z.to_pos (bval (down a))) ?= (bval (up b) # Z.to_pos (bval (down b))))%Q
               = (bval (up a) * bval (down b) ?= bval (down a) * bval (up b))).
  { unfold Qcompare. cbn [Qnum Qden]. rewrite !Z2Pos.id by lia.
    rewrite (Z.mul_comm (bval (up b))). reflexivity. }
  destruct (neq a b) eqn:N.
  - destruct NE as [NE _]. specialize (NE eq_refl). apply Qeq_alt in NE. rewrite NE. reflexivity.
  - destruct (Hmul (up a) (down b) Wau Wbd) as [W1 V1].
    destruct (Hmul (down a) (up b) Wad Wbu) as [W2 V2].
    rewrite (Hcmp _ _ W1 W2), V1, V2, QC.
    destruct (bval (up a) * bval (down b) ?= bval (down a) * bval (up b)) eqn:C; try reflexivity.
    exfalso. apply Qeq_alt in QC. apply NE in QC. discriminate.
Qed.

Theorem from_num_spec : from_num_stmt.
Proof.
  intros n Hn. destruct (Hnew n Hn) as [W V]. unfold from_num. split.
  - apply wfn_iff. cbn [up down]. rewrite bval_bone, V. refine (conj W (conj wf_bone (conj _ _))); [lia|].
    apply Z.gcd_1_r.
  - rewrite nval_some; cbn [up down]; [|apply wf_bone|rewrite bval_bone; lia].
    rewrite V, bval_bone. reflexivity.
Qed.

End RatOps.

Print Assumptions optimize_spec.
Print Assumptions nadd_spec.
Print Assumptions nmul_spec.
Print Assumptions nneg_spec.
Print Assumptions nflip_spec.
Print Assumptions floor_spec.
Print Assumptions is_pos_spec.
Print Assumptions is_nan_spec.
Print Assumptions wfn_unique.
Print Assumptions neq_spec.
Print Assumptions ncmp_spec.
Print Assumptions from_num_spec.
