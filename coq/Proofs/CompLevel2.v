(* Level 2 of the compiler model: the emitted program with a serialised pre-state resumes the interpreter where
   pre-execution stopped.  Generalises the simulation of Proofs/CompProofs.v to an arbitrary block partition and an
   arbitrary label translation, and adds the congruence for extensionally equal stacks / label tables. *)
From Coq Require Import List NArith ZArith Lia Bool. Import ListNotations.
From HV Require Import Model.Big Model.Rat Model.NumText Model.Chars Model.Parse Model.Exec Model.Opt Model.Compile Proofs.OptSpec Proofs.CompSpec Proofs.CoroSpec Proofs.Comp2Spec.
From HV Require Proofs.OptTerm Proofs.CompProofs Proofs.CoroProofs.
Import CompProofs.
Open Scope N_scope.

Arguments N.add : simpl never.
Arguments N.mul : simpl never.
Arguments N.sub : simpl never.
Arguments N.div : simpl never.
Arguments N.leb : simpl never.
Arguments N.ltb : simpl never.
Arguments N.eqb : simpl never.

(* ------------------------------------------------------------------ *)
(* (a1) the serialised stacks read back *)

Lemma deser_all_roundtrip : forall l : list (N * list num), Forall (fun p => Forall canon_num (snd p)) l ->
  deser_all (map (fun p => (fst p, ser_stack (snd p))) l) = Some l.
Proof.
  induction l as [|[i v] r IH]; intros H.
  - reflexivity.
  - inversion H as [|x y Hv Hr]; subst. cbn [map deser_all fst snd] in *.
    rewrite (CoroProofs.stack_roundtrip v Hv), (IH Hr). reflexivity.
Qed.

Lemma build_ir2 s log rest : rest <> [] ->
  build_ir true 2 s log rest =
  mkir (blocks log ++ blocks rest) (skind_ s)
       (map (fun p => (fst p, ser_stack (snd p))) (nonempty_stacks s)) (cur s)
       (option_map (block_index log) (latest s)) (trP log (points s))
       (N.of_nat (length (blocks log))) (rev (outb s)) (rev (errb s)).
Proof. intros H. destruct rest; [contradiction H; reflexivity | reflexivity]. Qed.

Lemma deser_build_ir2 s log rest : rest <> [] -> stacks_canon s ->
  deser_all (ir_stacks (build_ir true 2 s log rest)) = Some (nonempty_stacks s).
Proof.
  intros Hr [_ Hc]. rewrite (build_ir2 s log rest Hr). cbn [ir_stacks]. apply deser_all_roundtrip.
  unfold nonempty_stacks. rewrite Forall_forall in *. intros p Hp. apply filter_In in Hp. apply Hc, Hp.
Qed.

(* ------------------------------------------------------------------ *)
(* (a2) states that agree up to the representation of the stack table and of the label table *)

Record Se (s t : state) : Prop := mkSe {
  Se_k : skind_ s = skind_ t;
  Se_cur : cur s = cur t;
  Se_lat : latest s = latest t;
  Se_inp : inp s = inp t;
  Se_out : outb s = outb t;
  Se_err : errb s = errb t;
  Se_stk : forall i, get_stack s i = get_stack t i;
  Se_pts : forall id, alist_get (points s) id = alist_get (points t) id }.

Definition se_res {A} (r1 r2 : res A) : Prop :=
  match r1, r2 with
  | ROk a s, ROk b t => a = b /\ Se s t
  | RExit k s, RExit k' t => k = k' /\ Se s t
  | RErr e s, RErr e' t => e = e' /\ Se s t
  | _, _ => False
  end.
Definition cong {A} (m : M A) : Prop := forall s t, Se s t -> se_res (m s) (m t).

Lemma alist_get_set_eq {V} (l : list (N * V)) k v k' :
  alist_get (alist_set l k v) k' = if k =? k' then Some v else alist_get l k'.
Proof.
  induction l as [|[k0 v0] r IH]; cbn [alist_set alist_get].
  - reflexivity.
  - destruct (k0 =? k) eqn:E0; cbn [alist_get].
    + apply N.eqb_eq in E0. subst k0. destruct (k =? k'); reflexivity.
    + rewrite IH. destruct (k0 =? k') eqn:E1; [|reflexivity].
      apply N.eqb_eq in E1. subst k0. rewrite N.eqb_sym, E0. reflexivity.
Qed.

Lemma get_set_stack s i l j : get_stack (set_stack s i l) j = if i =? j then l else get_stack s j.
Proof. unfold get_stack, set_stack. cbn [stacks]. rewrite alist_get_set_eq. destruct (i =? j); reflexivity. Qed.

Lemma Se_set_stack s t i l : Se s t -> Se (set_stack s i l) (set_stack t i l).
Proof.
  intros [H1 H2 H3 H4 H5 H6 H7 H8]. constructor; try assumption.
  intros j. rewrite !get_set_stack. destruct (i =? j); [reflexivity | apply H7].
Qed.

Lemma Se_in_range s t i : Se s t -> in_range s i = in_range t i.
Proof. intros H. unfold in_range. rewrite (Se_k _ _ H). reflexivity. Qed.

Lemma cong_ret {A} (a : A) : cong (ret a).
Proof. intros s t H. split; [reflexivity | exact H]. Qed.
Lemma cong_fail {A} e : cong (@fail A e).
Proof. intros s t H. split; [reflexivity | exact H]. Qed.
Lemma cong_exit {A} k : cong (@exit_ A k).
Proof. intros s t H. split; [reflexivity | exact H]. Qed.
Lemma cong_bind {A B} (m : M A) (f : A -> M B) : cong m -> (forall a, cong (f a)) -> cong (bind m f).
Proof.
  intros Hm Hf s t H. unfold bind. specialize (Hm s t H).
  destruct (m s) as [a s1|k s1|e s1], (m t) as [b t1|k' t1|e' t1]; cbn [se_res] in *; try contradiction.
  - destruct Hm as [<- H1]. apply Hf. exact H1.
  - exact Hm.
  - exact Hm.
Qed.
Lemma cong_iterM {A} n (f : A -> M A) a : (forall x, cong (f x)) -> cong (iterM n f a).
Proof.
  intros Hf. induction n as [|n IH] using N.peano_ind.
  - rewrite OptTerm.iterM_0. apply cong_ret.
  - rewrite OptTerm.iterM_succ. apply cong_bind; assumption.
Qed.
Lemma cong_fold_left {B X} (g : M B -> X -> M B) l m0 :
  (forall m x, cong m -> cong (g m x)) -> cong m0 -> cong (fold_left g l m0).
Proof.
  intros Hg. revert m0. induction l as [|x l IH]; intros m0 H0; cbn [fold_left].
  - exact H0.
  - apply IH. apply Hg. exact H0.
Qed.
Lemma cong_calc a cnt pop : cong pop -> cong (calc a cnt pop).
Proof.
  intros Hp. induction a as [|t l IHl r IHr]; cbn [calc].
  - apply cong_ret.
  - destruct (t =? 0).
    + apply cong_bind; [exact Hp|]. intros v. destruct (ncmp v _) as [[| |]|]; assumption.
    + destruct (t =? 1).
      * apply cong_bind; [exact Hp|]. intros v. destruct (ncmp v _) as [[| |]|]; assumption.
      * apply cong_ret.
Qed.

Lemma cong_push_stack i x : cong (push_stack i x).
Proof.
  intros s t H. unfold push_stack. rewrite (Se_in_range s t i H), (Se_stk _ _ H i).
  destruct (in_range t i); [|split; [reflexivity | exact H]].
  destruct (get_stack t i); [destruct (is_nan x)|]; cbn [se_res]; (split; [reflexivity|]);
    try exact H; apply Se_set_stack; exact H.
Qed.
Lemma cong_pop_stack i : cong (pop_stack i).
Proof.
  intros s t H. unfold pop_stack. rewrite (Se_in_range s t i H), (Se_stk _ _ H i).
  destruct (in_range t i); [|split; [reflexivity | exact H]].
  destruct (get_stack t i); cbn [se_res]; (split; [reflexivity|]); try exact H; apply Se_set_stack; exact H.
Qed.
Lemma cong_write_out b txt : cong (write_out b txt).
Proof.
  intros s t [H1 H2 H3 H4 H5 H6 H7 H8]. unfold write_out.
  destruct b; cbn [se_res]; (split; [reflexivity|]); constructor; cbn [skind_ cur latest inp outb errb points]; try assumption;
    try (f_equal; assumption); intros j; apply H7.
Qed.
Lemma cong_push_wrap i x : cong (push_wrap i x).
Proof.
  unfold push_wrap. destruct ((i =? 1) || (i =? 2)).
  - destruct (is_pos x).
    + destruct (num_to_unicode x); [apply cong_write_out | apply cong_fail].
    + apply cong_write_out.
  - apply cong_push_stack.
Qed.
Lemma cong_read_line : cong read_line.
Proof.
  intros s t H. pose proof H as [H1 H2 H3 H4 H5 H6 H7 H8]. unfold read_line. rewrite H4.
  destruct (inp t) as [|[l|] r]; cbn [se_res]; (split; [reflexivity|]); try exact H;
    constructor; cbn [skind_ cur latest inp outb errb points]; try assumption; try reflexivity; intros j; apply H7.
Qed.
Lemma cong_push_all i l : cong (push_all i l).
Proof.
  induction l as [|c r IH]; cbn [push_all].
  - apply cong_ret.
  - apply cong_bind; [apply cong_push_stack | intros _; exact IH].
Qed.
Lemma cong_pop_wrap i : cong (pop_wrap i).
Proof.
  unfold pop_wrap. destruct (i =? 0).
  - intros s t H. rewrite (Se_stk _ _ H 0). destruct (get_stack t 0).
    + assert (C : cong (bind read_line (fun l => bind (push_all 0 (rev l)) (fun _ => pop_stack 0)))).
      { apply cong_bind; [apply cong_read_line|]. intros l.
        apply cong_bind; [apply cong_push_all | intros _; apply cong_pop_stack]. }
      apply C. exact H.
    + apply cong_pop_stack. exact H.
  - destruct (i =? 1); [apply cong_exit|].
    destruct (i =? 2); [apply cong_exit|]. apply cong_pop_stack.
Qed.
Lemma cong_get_cur : cong get_cur.
Proof. intros s t H. split; [apply (Se_cur _ _ H) | exact H]. Qed.
Lemma cong_set_cur c : cong (set_cur c).
Proof.
  intros s t [H1 H2 H3 H4 H5 H6 H7 H8]. split; [reflexivity|]. constructor; cbn [skind_ cur latest inp outb errb points];
    try assumption; try reflexivity.
Qed.
Lemma cong_get_point id : cong (get_point id).
Proof. intros s t H. split; [apply (Se_pts _ _ H) | exact H]. Qed.
Lemma cong_set_point id loc : cong (set_point id loc).
Proof.
  intros s t [H1 H2 H3 H4 H5 H6 H7 H8]. split; [reflexivity|]. constructor; cbn [skind_ cur latest inp outb errb points];
    try assumption.
  intros j. rewrite !alist_get_set_eq. destruct (id =? j); [reflexivity | apply H8].
Qed.
Lemma cong_get_latest : cong get_latest.
Proof. intros s t H. split; [apply (Se_lat _ _ H) | exact H]. Qed.
Lemma cong_set_latest loc : cong (set_latest loc).
Proof.
  intros s t [H1 H2 H3 H4 H5 H6 H7 H8]. split; [reflexivity|]. constructor; cbn [skind_ cur latest inp outb errb points];
    try assumption; try reflexivity.
Qed.

Ltac cong_tac :=
  repeat first
    [ apply cong_ret | apply cong_push_wrap | apply cong_pop_wrap
    | apply cong_set_cur | apply cong_get_cur
    | apply cong_bind; [ | intro ]
    | apply cong_iterM; intro ].

Lemma cong_fold_push cs (h : num -> num) (g : num -> num -> num) (v : list num) (m0 : M num) :
  cong m0 ->
  cong (fold_left (fun (m : M num) x => bind m (fun n => let x' := h x in
                         bind (push_wrap cs x') (fun _ => ret (g n x')))) v m0).
Proof.
  intros H0. apply cong_fold_left; [|exact H0]. intros m x Hm. cbv zeta.
  apply cong_bind; [exact Hm|]. intro. cong_tac.
Qed.

Lemma cong_body c : cong (body c).
Proof.
  unfold body. apply cong_bind; [apply cong_get_cur|]. intros cs.
  apply (OptTerm.ty_case (@cong unit)); cong_tac; try (apply cong_fold_push; apply cong_ret).
Qed.

Lemma cong_execute_one c pc : cong (execute_one c pc).
Proof.
  unfold execute_one. apply cong_bind; [apply cong_body|]. intros _.
  apply cong_bind; [apply cong_get_cur|]. intros cs.
  apply cong_bind; [apply cong_calc, cong_pop_wrap|]. intros t0.
  destruct (t0 =? 0); [apply cong_ret|].
  destruct (t0 =? 13).
  { apply cong_bind; [apply cong_get_latest|]. intros [loc|]; apply cong_ret. }
  cbv zeta. apply cong_bind; [apply cong_get_point|]. intros [v|].
  - destruct (pc =? v); [apply cong_ret|]. apply cong_bind; [apply cong_set_latest | intros _; apply cong_ret].
  - apply cong_bind; [apply cong_set_point | intros _; apply cong_ret].
Qed.

Lemma cong_run_block cmds b : cong (run_block cmds b).
Proof.
  induction cmds as [|c r IH]; cbn [run_block].
  - apply cong_ret.
  - apply cong_bind; [apply cong_execute_one|]. intros nb. destruct (nb =? b + 1); [exact IH | apply cong_ret].
Qed.

Definition ir_rel (y1 y2 : irfinal) : Prop :=
  match y1, y2 with
  | IDone s, IDone t => Se s t
  | IExit c s, IExit c' t => c = c' /\ Se s t
  | IAbort n s, IAbort n' t => n = n' /\ Se s t
  | IIoErr s, IIoErr t => Se s t
  | IFuel s, IFuel t => Se s t
  | IBadState, IBadState => True
  | _, _ => False
  end.

Lemma ir_loop_cong p : forall n s t b, Se s t -> ir_rel (ir_loop n p s b) (ir_loop n p t b).
Proof.
  induction n as [|n IH]; intros s t b H; cbn [ir_loop].
  - exact H.
  - destruct (N.of_nat (length (ir_blocks p)) <=? b); [exact H|].
    destruct (nth_error (ir_blocks p) _) as [cmds|]; [|exact I].
    pose proof (cong_run_block cmds b s t H) as R.
    destruct (run_block cmds b s) as [a s1|k s1|e s1], (run_block cmds b t) as [a' t1|k' t1|e' t1];
      cbn [se_res] in R; try contradiction; destruct R as [<- R].
    + apply IH. exact R.
    + split; [reflexivity | exact R].
    + destruct e; cbn [ir_rel]; [split; [reflexivity | exact R] | exact R].
Qed.

Lemma ir_rel_beh y1 y2 : ir_rel y1 y2 -> ibeh y1 = ibeh y2.
Proof.
  destruct y1, y2; cbn [ir_rel]; try contradiction; intros H; try reflexivity;
    try (destruct H as [<- H]); cbn [ibeh]; rewrite (Se_out _ _ H), (Se_err _ _ H); reflexivity.
Qed.

(* ------------------------------------------------------------------ *)
(* (b) the simulation for an arbitrary block partition [bs] of [code] and label translation [tr] *)

Section Gen.
Variable tr : N -> N.

Definition gtrP (P : list (N * N)) : list (N * N) := map (fun p => (fst p, tr (snd p))) P.
Definition gT (s : state) : state := relab (gtrP (points s)) (option_map tr (latest s)) s.

Lemma gtrP_get P id : alist_get (gtrP P) id = option_map tr (alist_get P id).
Proof.
  induction P as [|[k v] r IH]; cbn [gtrP map alist_get fst snd option_map]; [reflexivity|].
  destruct (k =? id); [reflexivity | exact IH].
Qed.
Lemma gtrP_set P id v : gtrP (alist_set P id v) = alist_set (gtrP P) id (tr v).
Proof.
  induction P as [|[k w] r IH]; cbn [gtrP map alist_set fst snd]; [reflexivity|].
  destruct (k =? id); cbn [map fst snd]; [reflexivity|]. f_equal. exact IH.
Qed.

Lemma prel_gT c s : prel c (gT s) = lift_res gT (prel c s).
Proof.
  unfold gT at 1. rewrite frame_prel. pose proof (ext_prel c s) as H.
  destruct (prel c s) as [a t|k t|e t]; cbn [lift_res OptTerm.post] in *; destruct H as (HP & HL & _);
    unfold gT; rewrite HP, HL; reflexivity.
Qed.

Lemma run_block_free_g : forall cmds b s, area_free cmds = true ->
  run_block cmds b (gT s) = match run_seq cmds s with
                            | ROk _ s' => ROk (b + 1) (gT s')
                            | RExit k s' => RExit k (gT s')
                            | RErr e s' => RErr e (gT s')
                            end.
Proof.
  induction cmds as [|c r IH]; intros b s Hf.
  - reflexivity.
  - unfold area_free in Hf. cbn [forallb] in Hf. apply andb_prop in Hf. destruct Hf as [Hc0 Hr].
    apply negb_true_iff in Hc0.
    cbn [run_block run_seq]. unfold bind. rewrite (exec_free c b _ Hc0), prel_gT.
    destruct (prel c s) as [a s1|k s1|e s1]; cbn [lift_res]; [|reflexivity|reflexivity].
    rewrite N.eqb_refl. apply IH. exact Hr.
Qed.

Variable code : list xcode.
Variable bs : list (list xcode).
Hypothesis Hcat : concat bs = code.
Hypothesis Hok : Forall block_ok bs.
Definition gstart (b : nat) : N := N.of_nat (length (concat (firstn b bs))).
Hypothesis Harea : forall v c, nth_error code (N.to_nat v) = Some c -> has_area c = true ->
  (N.to_nat (tr v) < length bs)%nat /\ gstart (N.to_nat (tr v)) = v /\ nth_error bs (N.to_nat (tr v)) = Some [c].

Lemma g_nth_ok b cmds : nth_error bs b = Some cmds -> block_ok cmds.
Proof. intros H. rewrite Forall_forall in Hok. apply Hok. eapply nth_error_In. exact H. Qed.

Lemma g_split b cmds : nth_error bs b = Some cmds ->
  code = concat (firstn b bs) ++ cmds ++ concat (skipn (S b) bs).
Proof. intros H. rewrite <- Hcat. apply nth_split_concat. exact H. Qed.

Lemma gstart_succ b cmds : nth_error bs b = Some cmds ->
  gstart (S b) = N.of_nat (length (concat (firstn b bs) ++ cmds)).
Proof. intros H. unfold gstart. destruct (nth_split_concat _ _ _ H) as [_ ->]. reflexivity. Qed.

Lemma gstart_succ' b cmds : nth_error bs b = Some cmds -> gstart (S b) = gstart b + N.of_nat (length cmds).
Proof. intros H. rewrite (gstart_succ b cmds H). unfold gstart. rewrite app_length. lia. Qed.

Lemma gstart_end : gstart (length bs) = N.of_nat (length code).
Proof. unfold gstart. rewrite firstn_all, Hcat. reflexivity. Qed.

Lemma g_nonempty b cmds : nth_error bs b = Some cmds -> (1 <= length cmds)%nat.
Proof.
  intros H. destruct (g_nth_ok b cmds H) as [Hne _]. destruct cmds; [contradiction Hne; reflexivity | cbn; lia].
Qed.

Lemma g_lt_some b : (b < length bs)%nat -> exists cmds, nth_error bs b = Some cmds.
Proof.
  intros H. destruct (nth_error bs b) eqn:E; [eauto|]. apply nth_error_None in E. lia.
Qed.

Lemma gstart_lt : forall b2 b1, (b1 < b2 <= length bs)%nat -> gstart b1 < gstart b2.
Proof.
  induction b2 as [|b IH]; intros b1 H; [lia|].
  destruct (g_lt_some b) as [cmds Hc]; [lia|].
  rewrite (gstart_succ' b cmds Hc). pose proof (g_nonempty b cmds Hc) as Hl.
  destruct (Nat.eq_dec b1 b) as [->|Hne]; [lia|].
  assert (gstart b1 < gstart b) by (apply IH; lia). lia.
Qed.

Lemma gstart_inj b1 b2 : (b1 <= length bs)%nat -> (b2 <= length bs)%nat -> gstart b1 = gstart b2 -> b1 = b2.
Proof.
  intros H1 H2 E. destruct (Nat.lt_trichotomy b1 b2) as [L|[L|L]]; [|exact L|].
  - pose proof (gstart_lt b2 b1). lia.
  - pose proof (gstart_lt b1 b2). lia.
Qed.

Definition gposrel (pc b : N) : Prop := (N.to_nat b <= length bs)%nat /\ gstart (N.to_nat b) = pc.

Lemma g_area_pos v : area_at code v -> gposrel v (tr v).
Proof.
  intros (c & Hn & Ha). destruct (Harea v c Hn Ha) as (H1 & H2 & _). split; [lia | exact H2].
Qed.

Lemma g_lbl_sim c pc t s1 : inv code s1 -> nth_error code (N.to_nat pc) = Some c -> has_area c = true ->
  exists pc' s' b', lbl c pc t s1 = ROk pc' s' /\ lbl c (tr pc) t (gT s1) = ROk b' (gT s') /\
                    inv code s' /\ gposrel pc' b'.
Proof.
  intros Hi Hn Ha.
  destruct (Harea pc c Hn Ha) as (Blt & Bst & Bnth).
  assert (FT : gposrel (pc + 1) (tr pc + 1)).
  { split; [lia|]. replace (N.to_nat (tr pc + 1)) with (S (N.to_nat (tr pc))) by lia.
    rewrite (gstart_succ' _ _ Bnth), Bst. cbn [length]. lia. }
  unfold lbl. destruct (t =? 0).
  { exists (pc + 1), s1, (tr pc + 1). split; [reflexivity|]. split; [reflexivity|]. split; assumption. }
  destruct (t =? 13).
  { unfold bind, get_latest. change (latest (gT s1)) with (option_map tr (latest s1)).
    destruct (latest s1) as [loc|] eqn:EL; cbn [option_map].
    - exists loc, s1, (tr loc). split; [reflexivity|]. split; [reflexivity|]. split; [exact Hi|].
      apply g_area_pos. apply (proj2 Hi). exact EL.
    - exists (pc + 1), s1, (tr pc + 1). split; [reflexivity|]. split; [reflexivity|]. split; assumption. }
  cbv zeta. unfold bind, get_point. change (points (gT s1)) with (gtrP (points s1)). rewrite gtrP_get.
  set (id := xac c * 16 + t).
  destruct (alist_get (points s1) id) as [v|] eqn:EP; cbn [option_map].
  - assert (Av : area_at code v) by (eapply (proj1 Hi); exact EP). destruct (g_area_pos v Av) as [Vle Vst].
    destruct (pc =? v) eqn:E.
    + apply N.eqb_eq in E. subst v. rewrite N.eqb_refl.
      exists (pc + 1), s1, (tr pc + 1). split; [reflexivity|]. split; [reflexivity|]. split; assumption.
    + apply N.eqb_neq in E.
      assert (E' : (tr pc =? tr v) = false).
      { apply N.eqb_neq. intros X. apply E. rewrite <- Bst, <- Vst, X. reflexivity. }
      rewrite E'. unfold set_latest, ret.
      eexists v, _, (tr v). split; [reflexivity|]. split; [reflexivity|]. split.
      * destruct Hi as [H1 H2]. split; [exact H1|]. cbn [latest]. intros w Hw. injection Hw as <-. exists c. split; assumption.
      * split; assumption.
  - unfold set_point, ret.
    eexists (pc + 1), _, (tr pc + 1). split; [reflexivity|]. split.
    + unfold gT. cbn [points latest]. rewrite gtrP_set. reflexivity.
    + split; [|exact FT]. destruct Hi as [H1 H2]. split; [|exact H2]. cbn [points]. intros id' w Hw.
      apply OptTerm.alist_get_set in Hw. destruct Hw as [[_ ->]|Hw]; [exists c; split; assumption | eapply H1; exact Hw].
Qed.

Lemma g_step_area c b s : inv code s -> (N.to_nat b < length bs)%nat ->
  nth_error bs (N.to_nat b) = Some [c] -> has_area c = true ->
  nth_error code (N.to_nat (gstart (N.to_nat b))) = Some c /\
  match execute_one c (gstart (N.to_nat b)) s with
  | ROk pc' s' => exists b', execute_one c b (gT s) = ROk b' (gT s') /\ inv code s' /\ gposrel pc' b'
  | RExit k s' => execute_one c b (gT s) = RExit k (gT s')
  | RErr e s' => execute_one c b (gT s) = RErr e (gT s')
  end.
Proof.
  intros Hi Hb Hc Ha.
  assert (Hn : nth_error code (N.to_nat (gstart (N.to_nat b))) = Some c).
  { unfold gstart. rewrite Nat2N.id. eapply nth_error_mid. apply (g_split _ _ Hc). }
  split; [exact Hn|].
  set (pc := gstart (N.to_nat b)) in *.
  destruct (Harea pc c Hn Ha) as (Blt & Bst & _).
  assert (Eb : b = tr pc).
  { apply N2Nat.inj. symmetry. apply gstart_inj; [lia | lia | exact Bst]. }
  rewrite !exec_split. unfold bind. rewrite prel_gT.
  pose proof (ext_prel c s) as Hx.
  destruct (prel c s) as [t s1|k s1|e s1]; cbn [lift_res]; [|reflexivity|reflexivity].
  cbn [OptTerm.post] in Hx. destruct Hx as (HP & HL & _).
  assert (Hi1 : inv code s1) by (apply (inv_ext code s); assumption).
  destruct (g_lbl_sim c pc t s1 Hi1 Hn Ha) as (pc' & s' & b' & E1 & E2 & Hi' & Hp).
  rewrite E1. exists b'. rewrite Eb, E2. split; [reflexivity|]. split; assumption.
Qed.

Definition gagrees (n : nat) (s : state) (pc : N) (y : irfinal) : Prop :=
  match y with
  | IFuel t => exists k s' pc', t = gT s' /\ (n <= k)%nat /\ forall f, run_pre (k + f) code s pc = run_pre f code s' pc'
  | IDone t => exists k s', t = gT s' /\ forall f, run_pre (k + f) code s pc = FDone s'
  | IExit c t => exists k s', t = gT s' /\ forall f, run_pre (k + f) code s pc = FExit c s'
  | IAbort m t => exists k s', t = gT s' /\ forall f, run_pre (k + f) code s pc = FErr (EEnc m) s'
  | IIoErr t => exists k s', t = gT s' /\ forall f, run_pre (k + f) code s pc = FErr EIo s'
  | IBadState => False
  end.

Lemma gagrees_step n d s pc s1 pc1 y : (1 <= d)%nat ->
  (forall f, run_pre (d + f) code s pc = run_pre f code s1 pc1) -> gagrees n s1 pc1 y -> gagrees (S n) s pc y.
Proof.
  intros Hd H A. destruct y as [t|c t|m t|t|t|]; cbn [gagrees] in *.
  - destruct A as (k & s' & E & R). exists (d + k)%nat, s'. split; [exact E|]. intros f. rewrite <- Nat.add_assoc, H. apply R.
  - destruct A as (k & s' & E & R). exists (d + k)%nat, s'. split; [exact E|]. intros f. rewrite <- Nat.add_assoc, H. apply R.
  - destruct A as (k & s' & E & R). exists (d + k)%nat, s'. split; [exact E|]. intros f. rewrite <- Nat.add_assoc, H. apply R.
  - destruct A as (k & s' & E & R). exists (d + k)%nat, s'. split; [exact E|]. intros f. rewrite <- Nat.add_assoc, H. apply R.
  - destruct A as (k & s' & pc' & E & L & R). exists (d + k)%nat, s', pc'. split; [exact E|]. split; [lia|].
    intros f. rewrite <- Nat.add_assoc, H. apply R.
  - exact A.
Qed.

Lemma gsim p : ir_blocks p = bs -> forall n s b, inv code s -> (N.to_nat b <= length bs)%nat ->
  gagrees n s (gstart (N.to_nat b)) (ir_loop n p (gT s) b).
Proof.
  intros Hp. induction n as [|n IH]; intros s b Hi Hb.
  - cbn [ir_loop gagrees]. exists 0%nat, s, (gstart (N.to_nat b)). split; [reflexivity|]. split; [lia|].
    intros f. reflexivity.
  - cbn [ir_loop]. rewrite Hp.
    destruct (N.of_nat (length bs) <=? b) eqn:E.
    + apply N.leb_le in E. assert (Hbn : N.to_nat b = length bs) by lia. rewrite Hbn, gstart_end.
      cbn [gagrees]. exists 1%nat, s. split; [reflexivity|]. intros f. cbn [Nat.add run_pre]. rewrite N.leb_refl. reflexivity.
    + apply N.leb_gt in E. rewrite dispatch_selects by exact E.
      destruct (g_lt_some (N.to_nat b)) as [cmds Hc]; [lia|]. rewrite Hc.
      destruct (g_nth_ok _ _ Hc) as [Hne [(c & -> & Ha)|Hfree]].
      * rewrite run_block_single.
        destruct (g_step_area c b s Hi ltac:(lia) Hc Ha) as [Hn Hs].
        destruct (execute_one c (gstart (N.to_nat b)) s) as [pc' s'|k s'|e s'] eqn:Ex.
        -- destruct Hs as (b' & Eb & Hi' & Hle & Hst). rewrite Eb.
           apply (gagrees_step n 1 s _ s' pc'); [lia| |].
           ++ intros f. cbn [Nat.add]. rewrite (run_pre_S code _ _ _ c Hn), Ex. reflexivity.
           ++ rewrite <- Hst. apply IH; assumption.
        -- rewrite Hs. cbn [gagrees]. exists 1%nat, s'. split; [reflexivity|]. intros f. cbn [Nat.add].
           rewrite (run_pre_S code _ _ _ c Hn), Ex. reflexivity.
        -- rewrite Hs. destruct e as [m|]; cbn [gagrees]; exists 1%nat, s'; (split; [reflexivity|]); intros f; cbn [Nat.add];
             rewrite (run_pre_S code _ _ _ c Hn), Ex; reflexivity.
      * rewrite (run_block_free_g cmds b s Hfree).
        pose proof (run_pre_free cmds code _ _ s (g_split _ _ Hc) Hfree) as R.
        pose proof (ext_run_seq cmds s) as Hx.
        fold (gstart (N.to_nat b)) in R. rewrite <- (gstart_succ _ _ Hc) in R.
        destruct (run_seq cmds s) as [u s'|k s'|e s']; cbn [OptTerm.post] in Hx; destruct Hx as (HP & HL & _).
        -- apply (gagrees_step n (length cmds) s _ s' (gstart (S (N.to_nat b)))).
           ++ apply (g_nonempty _ _ Hc).
           ++ exact R.
           ++ replace (S (N.to_nat b)) with (N.to_nat (b + 1)) by lia. apply IH; [|lia].
              apply (inv_ext code s); assumption.
        -- cbn [gagrees]. exists (length cmds), s'. split; [reflexivity | exact R].
        -- destruct e as [m|]; cbn [gagrees]; exists (length cmds), s'; (split; [reflexivity | exact R]).
Qed.

End Gen.

(* ------------------------------------------------------------------ *)
(* (c) the level-2 instance: partition [blocks log ++ blocks rest] of [log ++ rest] *)

Definition tr2 (log rest : list xcode) (v : N) : N :=
  if v <? N.of_nat (length log) then block_index log v
  else N.of_nat (length (blocks log)) + block_index rest (v - N.of_nat (length log)).

Lemma area2 log rest v c : nth_error (log ++ rest) (N.to_nat v) = Some c -> has_area c = true ->
  (N.to_nat (tr2 log rest v) < length (blocks log ++ blocks rest))%nat /\
  gstart (blocks log ++ blocks rest) (N.to_nat (tr2 log rest v)) = v /\
  nth_error (blocks log ++ blocks rest) (N.to_nat (tr2 log rest v)) = Some [c].
Proof.
  intros Hn Ha. unfold tr2. destruct (v <? N.of_nat (length log)) eqn:E.
  - apply N.ltb_lt in E. rewrite nth_error_app1 in Hn by lia.
    destruct (bstart_area log v c Hn Ha) as (H1 & H2 & H3). set (b := N.to_nat (block_index log v)) in *.
    split; [rewrite app_length; lia|]. split.
    + unfold gstart. rewrite firstn_app. replace (b - length (blocks log))%nat with 0%nat by lia.
      cbn [firstn]. rewrite app_nil_r. exact H2.
    + rewrite nth_error_app1 by lia. exact H3.
  - apply N.ltb_ge in E. rewrite nth_error_app2 in Hn by lia.
    set (v' := v - N.of_nat (length log)).
    assert (Hv : (N.to_nat v - length log)%nat = N.to_nat v') by lia. rewrite Hv in Hn.
    destruct (bstart_area rest v' c Hn Ha) as (H1 & H2 & H3). set (b := N.to_nat (block_index rest v')) in *.
    replace (N.to_nat (N.of_nat (length (blocks log)) + block_index rest v')) with (length (blocks log) + b)%nat by lia.
    split; [rewrite app_length; lia|]. split.
    + unfold gstart. rewrite firstn_app, firstn_all2 by lia.
      replace (length (blocks log) + b - length (blocks log))%nat with b by lia.
      rewrite concat_app, app_length, (blocks_concat log). unfold block_start in H2. lia.
    + rewrite nth_error_app2 by lia.
      replace (length (blocks log) + b - length (blocks log))%nat with b by lia. exact H3.
Qed.

Lemma tr2_log log rest v : (exists c, nth_error log (N.to_nat v) = Some c /\ has_area c = true) ->
  tr2 log rest v = block_index log v.
Proof.
  intros (c & Hn & _). unfold tr2.
  assert (L : (N.to_nat v < length log)%nat) by (apply nth_error_Some; rewrite Hn; discriminate).
  destruct (v <? N.of_nat (length log)) eqn:E; [reflexivity|]. apply N.ltb_ge in E. lia.
Qed.

Lemma alist_get_notin {V} (l : list (N * V)) i : ~ In i (map fst l) -> alist_get l i = None.
Proof.
  induction l as [|[k v] r IH]; intros H; cbn [alist_get]; [reflexivity|].
  cbn [map fst In] in H. destruct (k =? i) eqn:E.
  - apply N.eqb_eq in E. contradiction H. left. exact E.
  - apply IH. intros X. apply H. right. exact X.
Qed.

Definition rd {V} (o : option (list V)) : list V := match o with Some x => x | None => [] end.

Lemma filter_get (l : list (N * list num)) i : NoDup (map fst l) ->
  rd (alist_get (filter (fun p => match snd p with [] => false | _ => true end) l) i) = rd (alist_get l i).
Proof.
  induction l as [|[k v] r IH]; intros H; [reflexivity|].
  cbn [map fst] in H. inversion H as [|x y Hnin Hnd]; subst.
  cbn [filter snd]. destruct v as [|a v].
  - cbn [alist_get]. destruct (k =? i) eqn:E.
    + apply N.eqb_eq in E. subst k. rewrite alist_get_notin; [reflexivity|].
      intros X. apply Hnin. apply in_map_iff in X. destruct X as (q & Eq & Hq). apply filter_In in Hq.
      apply in_map_iff. exists q. split; [exact Eq | apply Hq].
    + apply IH. exact Hnd.
  - cbn [alist_get]. destruct (k =? i); [reflexivity|]. apply IH. exact Hnd.
Qed.

Lemma Se_start s log rest input : area_targets log s -> stacks_canon s ->
  Se (mkstate (skind_ s) (nonempty_stacks s) (cur s) (trP log (points s)) (option_map (block_index log) (latest s))
              input (rev (rev (outb s))) (rev (rev (errb s))))
     (gT (tr2 log rest) (with_input s input)).
Proof.
  intros [Tp Tl] [Hnd _]. constructor; cbn [skind_ cur latest inp outb errb points gT relab with_input].
  - reflexivity.
  - reflexivity.
  - destruct (latest s) as [v|] eqn:EL; cbn [option_map]; [|reflexivity].
    rewrite (tr2_log log rest v (Tl v eq_refl)). reflexivity.
  - reflexivity.
  - apply rev_involutive.
  - apply rev_involutive.
  - intros i. unfold get_stack. cbn [stacks with_input relab gT]. apply (filter_get (stacks s) i Hnd).
  - intros id. rewrite trP_get, gtrP_get. destruct (alist_get (points s) id) as [v|] eqn:EP; cbn [option_map]; [|reflexivity].
    rewrite (tr2_log log rest v (Tp id v EP)). reflexivity.
Qed.

Lemma inv_start s log rest input : area_targets log s -> inv (log ++ rest) (with_input s input).
Proof.
  intros [Tp Tl]. split; cbn [points latest with_input].
  - intros id v H. destruct (Tp id v H) as (c & Hn & Ha). exists c. split; [|exact Ha].
    rewrite nth_error_app1; [exact Hn|]. apply nth_error_Some. rewrite Hn. discriminate.
  - intros v H. destruct (Tl v H) as (c & Hn & Ha). exists c. split; [|exact Ha].
    rewrite nth_error_app1; [exact Hn|]. apply nth_error_Some. rewrite Hn. discriminate.
Qed.

Lemma start2 s log rest input n : rest <> [] -> area_targets log s -> stacks_canon s ->
  exists y2, ir_rel (ir_run n (build_ir true 2 s log rest) input) y2 /\
             gagrees (tr2 log rest) (log ++ rest) n (with_input s input) (N.of_nat (length log)) y2.
Proof.
  intros Hr Ht Hc. unfold ir_run. rewrite (deser_build_ir2 s log rest Hr Hc), (build_ir2 s log rest Hr).
  cbn [ir_kind ir_cur ir_points ir_last ir_out ir_err ir_start].
  set (p := mkir _ _ _ _ _ _ _ _ _).
  exists (ir_loop n p (gT (tr2 log rest) (with_input s input)) (N.of_nat (length (blocks log)))). split.
  - apply ir_loop_cong. apply Se_start; assumption.
  - assert (Hcat : concat (blocks log ++ blocks rest) = log ++ rest).
    { rewrite concat_app, !blocks_concat. reflexivity. }
    assert (Hok : Forall block_ok (blocks log ++ blocks rest)).
    { apply Forall_app. split; apply blocks_partition. }
    pose proof (gsim (tr2 log rest) (log ++ rest) (blocks log ++ blocks rest) Hcat Hok (area2 log rest) p eq_refl n
                     (with_input s input) (N.of_nat (length (blocks log))) (inv_start s log rest input Ht)) as G.
    assert (Hs : gstart (blocks log ++ blocks rest) (N.to_nat (N.of_nat (length (blocks log)))) = N.of_nat (length log)).
    { rewrite Nat2N.id. unfold gstart. rewrite firstn_app, firstn_all, Nat.sub_diag. cbn [firstn].
      rewrite app_nil_r, blocks_concat. reflexivity. }
    rewrite Hs in G. apply G. rewrite Nat2N.id, app_length. lia.
Qed.

Theorem compiled2_complete : compiled2_complete_stmt.
Proof.
  intros s log rest input fuel Hr Ht Hc.
  destruct (start2 s log rest input fuel Hr Ht Hc) as (y2 & R & A).
  pose proof (ir_rel_beh _ _ R) as B.
  destruct (ir_run fuel (build_ir true 2 s log rest) input) as [t|c t|m t|t|t|], y2 as [t'|c' t'|m' t'|t'|t'|];
    cbn [ir_rel] in R; try contradiction; try exact I; cbn [gagrees] in A.
  - destruct A as (n & s' & -> & Q). exists (n + 0)%nat. rewrite Q, B. reflexivity.
  - destruct A as (n & s' & -> & Q). exists (n + 0)%nat. rewrite Q, B. reflexivity.
  - destruct A as (n & s' & -> & Q). exists (n + 0)%nat. rewrite Q, B. reflexivity.
  - destruct A as (n & s' & -> & Q). exists (n + 0)%nat. rewrite Q, B. reflexivity.
Qed.
Print Assumptions compiled2_complete.

Lemma sound2_aux s log rest input fuel x : rest <> [] -> area_targets log s -> stacks_canon s ->
  run_pre fuel (log ++ rest) (with_input s input) (N.of_nat (length log)) = x -> nonfuel x ->
  ibeh (ir_run fuel (build_ir true 2 s log rest) input) = beh x.
Proof.
  intros Hr Ht Hc Hx Hnf.
  destruct (start2 s log rest input fuel Hr Ht Hc) as (y2 & R & A).
  rewrite (ir_rel_beh _ _ R). clear R.
  assert (M : forall d, run_pre (fuel + d) (log ++ rest) (with_input s input) (N.of_nat (length log)) = x).
  { intros d. rewrite run_pre_more; [exact Hx | rewrite Hx; exact Hnf]. }
  destruct y2 as [t|c t|m t|t|t|]; cbn [gagrees] in A.
  - destruct A as (n & s' & -> & Q). specialize (Q fuel). rewrite Nat.add_comm, M in Q. rewrite Q. reflexivity.
  - destruct A as (n & s' & -> & Q). specialize (Q fuel). rewrite Nat.add_comm, M in Q. rewrite Q. reflexivity.
  - destruct A as (n & s' & -> & Q). specialize (Q fuel). rewrite Nat.add_comm, M in Q. rewrite Q. reflexivity.
  - destruct A as (n & s' & -> & Q). specialize (Q fuel). rewrite Nat.add_comm, M in Q. rewrite Q. reflexivity.
  - destruct A as (n & s' & pc' & -> & L & Q). specialize (Q 0%nat). cbn [run_pre] in Q.
    replace (n + 0)%nat with (fuel + (n - fuel))%nat in Q by lia. rewrite M in Q. rewrite Q in Hnf. contradiction Hnf.
  - contradiction A.
Qed.

Theorem compiled2_sound : compiled2_sound_stmt.
Proof.
  intros s log rest input fuel Hr Ht Hc.
  destruct (run_pre fuel (log ++ rest) (with_input s input) (N.of_nat (length log))) as [t|c t|e t|t pc|t] eqn:Hx;
    try exact I; exists fuel; apply (sound2_aux s log rest input fuel _ Hr Ht Hc Hx); exact I.
Qed.
Print Assumptions compiled2_sound.
