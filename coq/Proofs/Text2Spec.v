(* Reading a big integer from ANY text (not only from a canonical rendering): statements. *)
From Coq Require Import List NArith ZArith Bool.
Import ListNotations.
From HV Require Import Model.Big Model.Rat Model.NumText Proofs.BigSpec Proofs.RatSpec.
Open Scope N_scope.

(* the characters `from_string_base` accepts: 0-9 and A-Z, whatever the base *)
Definition all_digits (body : list N) : Prop := Forall (fun c => digit_val c <> None) body.
(* the optional leading minus *)
Definition fsb_sign (s : list N) : bool * list N :=
  match s with c :: r => if c =? CH_MINUS then (true, r) else (false, s) | [] => (false, s) end.

(* for every base 1..36 and EVERY text: a text whose body consists of 0-9A-Z reads as the Horner value of its digits
   (leading zeros, digits at or above the base and the empty body included), negated after a leading minus, in normal
   form except for the texts "-0…0" (negative zero); any other text is rejected with a parse error *)
Definition fsb_any_stmt := forall s base, 1 <= base <= 36 ->
  let neg := fst (fsb_sign s) in
  let body := snd (fsb_sign s) in
  (all_digits body ->
     exists a, from_string_base s base = FSOk a /\
       bval a = (if neg then - Z.of_N (digits_val base body 0) else Z.of_N (digits_val base body 0))%Z /\
       (neg = false \/ bval a <> 0%Z -> wf a)) /\
  (~ all_digits body -> from_string_base s base = FSParse).
