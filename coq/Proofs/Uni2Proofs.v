(* C14 at every optimisation level and compiled: proofs of the statements of Proofs/Uni2Spec.v. *)
From Coq Require Import List NArith ZArith Lia Bool.
Import ListNotations.
From HV Require Import Model.Big Model.Rat Model.NumText Model.Chars Model.Parse Model.Exec Model.Opt Model.Utf8 Model.Cli Model.Compile
  Spec.Lang Proofs.OptSpec Proofs.ExecSpec Proofs.UniSpec Proofs.ExtraSpec Proofs.CompSpec Proofs.Comp3Spec Proofs.Comp4Spec
  Proofs.TopSpec Proofs.Uni2Spec Proofs.ExecAll Proofs.OptAll.
From HV Require Proofs.UniProofs Proofs.ExtraProofs Proofs.TopProofs.
Open Scope N_scope.

(* ------------------------------------------------------------------ *)
(* small list facts *)

Lemma repeat_snoc_app {A} (x : A) n l : repeat x n ++ x :: l = x :: repeat x n ++ l.
Proof.
  induction n as [|n IH]; [reflexivity|].
  cbn [repeat app]. rewrite IH. reflexivity.
Qed.

Lemma rev_repeat_x {A} (x : A) n : rev (repeat x n) = repeat x n.
Proof.
  induction n as [|n IH]; [reflexivity|].
  cbn [repeat rev]. rewrite IH.
  pose proof (repeat_snoc_app x n []) as H. rewrite app_nil_r in H. exact H.
Qed.

Lemma map_repeat_x {A B} (f : A -> B) x n : map f (repeat x n) = repeat (f x) n.
Proof.
  induction n as [|n IH]; [reflexivity|]. cbn [repeat map]. rewrite IH. reflexivity.
Qed.

Lemma Forall_repeat_x {A} (P : A -> Prop) x n : P x -> Forall P (repeat x n).
Proof.
  intros H. induction n as [|n IH]; [constructor|]. cbn [repeat]. constructor; assumption.
Qed.

(* ------------------------------------------------------------------ *)
(* the parser on COPY_SRC n *)

Definition core4 (u : ucode) : N * N * N * area := (ty u, hc u, dc u, ar u).
Definition chunk : list N := [32; 54637; 46].
Definition X_print : N * N * N * area := (1, 1, 1, Nil).
Definition X_sel : N * N * N * area := (5, 1, 0, Nil).

Lemma step_space mp s i : step false mp s i 32 = s.
Proof. reflexivity. Qed.

Lemma step_hang mp r t h d cl b q ln ls rw i :
  step false mp (mkpst r t h d cl 0 b q ln ls rw) i 54637 =
  mkpst (flush (mkpst r t h d cl 0 b q ln ls rw)) 1 1 0 (ln + 1, i - ls) 0 bang0 [] ln ls [54637].
Proof.
  unfold step.
  change (is_ws 54637) with false. cbv iota.
  change (st (mkpst r t h d cl 0 b q ln ls rw) =? 1) with false. cbv iota.
  change (index_of 54637 SINGLE) with (Some 1). cbv iota beta.
  rewrite orb_true_r.
  change (1 <? 6) with true. cbv iota. reflexivity.
Qed.

Lemma step_dot mp r i loc ln ls rw :
  step false mp (mkpst r 1 1 0 loc 0 bang0 [] ln ls rw) i 46 =
  mkpst r 1 1 1 loc 0 bang0 [] ln ls (46 :: rw).
Proof. reflexivity. Qed.

Lemma flush_after_dot r loc ln ls rw :
  map core4 (flush (mkpst r 1 1 1 loc 0 bang0 [] ln ls rw)) = X_print :: map core4 r.
Proof. reflexivity. Qed.

Lemma run_chunks mp : forall n i s, st s = 0 ->
  st (run false mp (concat (repeat chunk n)) i s) = 0 /\
  map core4 (flush (run false mp (concat (repeat chunk n)) i s)) = repeat X_print n ++ map core4 (flush s).
Proof.
  induction n as [|n IH]; intros i s Hs.
  - cbn [repeat concat run app]. split; [exact Hs | reflexivity].
  - destruct s as [r t h d cl st0 b q ln ls rw]. cbn [st] in Hs. subst st0.
    change (concat (repeat chunk (S n))) with (32 :: 54637 :: 46 :: concat (repeat chunk n)).
    cbn [run]. rewrite step_space, step_hang, step_dot.
    match goal with |- context [run false mp _ ?j ?s1] =>
      destruct (IH j s1 eq_refl) as (H1 & H2) end.
    split; [exact H1|].
    rewrite H2, flush_after_dot.
    cbn [repeat app]. rewrite repeat_snoc_app. reflexivity.
Qed.

Lemma step_sel mp : step false mp pst0 0 55121 = mkpst [] 5 1 0 (0 + 1, 0 - 0) 0 bang0 [] 0 0 [55121].
Proof. reflexivity. Qed.

Lemma parse_copy_core n : map core4 (parse (COPY_SRC n)) = X_sel :: repeat X_print n.
Proof.
  unfold parse, parse_gen, COPY_SRC.
  set (mp := max_pos _ 0 (0, 0, 0)).
  cbn [run]. rewrite step_sel. fold chunk.
  match goal with |- context [run false mp _ ?j ?s1] =>
    destruct (run_chunks mp n j s1 eq_refl) as (_ & H2) end.
  rewrite map_rev, H2.
  change (map core4 (flush (mkpst [] 5 1 0 (0 + 1, 0 - 0) 0 bang0 [] 0 0 [55121]))) with [X_sel].
  rewrite rev_app_distr. cbn [rev app]. rewrite rev_repeat_x. reflexivity.
Qed.

Definition scmd_of_core (x : N * N * N * area) : scmd :=
  let '(t, h, d, a) := x in mkscmd t h d (h * d) a.

Lemma scmd_core u : scmd_of_ucode u = scmd_of_core (core4 u).
Proof. reflexivity. Qed.

Lemma prog_copy n : prog_of_text (COPY_SRC n) = copy_prog n.
Proof.
  unfold prog_of_text.
  rewrite (map_ext _ _ scmd_core), <- map_map, parse_copy_core.
  cbn [map]. rewrite map_repeat_x. reflexivity.
Qed.

Definition core_small (x : N * N * N * area) : Prop :=
  let '(t, h, d, a) := x in h < 2 ^ 63 /\ d < 2 ^ 63 /\ h * d < 2 ^ 63.

Lemma small_copy n : small_text (COPY_SRC n).
Proof.
  unfold small_text.
  assert (H : Forall core_small (map core4 (parse (COPY_SRC n)))).
  { rewrite parse_copy_core. constructor.
    - cbn. repeat split; reflexivity.
    - apply Forall_repeat_x. cbn. repeat split; reflexivity. }
  rewrite Forall_forall in H. apply Forall_forall. intros u Hu.
  exact (H (core4 u) (in_map core4 _ u Hu)).
Qed.

Lemma scalars_copy n : scalars (COPY_SRC n).
Proof.
  unfold scalars, COPY_SRC. constructor; [reflexivity|].
  induction n as [|n IH]; [constructor|].
  cbn [repeat concat app]. repeat (constructor; [reflexivity|]). exact IH.
Qed.

(* ------------------------------------------------------------------ *)
(* CAT_SRC *)

Lemma prog_cat : prog_of_text CAT_SRC = cat_prog.
Proof. vm_compute. reflexivity. Qed.

Definition smallub (u : ucode) : bool := (hc u <? 2 ^ 63) && (dc u <? 2 ^ 63) && (hc u * dc u <? 2 ^ 63).
Lemma smallb_cat : forallb smallub (parse CAT_SRC) = true.
Proof. vm_compute. reflexivity. Qed.

Lemma small_cat : small_text CAT_SRC.
Proof.
  unfold small_text. apply Forall_forall. intros u Hu.
  pose proof (proj1 (forallb_forall smallub (parse CAT_SRC)) smallb_cat u Hu) as H.
  unfold smallub in H. apply andb_true_iff in H. destruct H as [H H3].
  apply andb_true_iff in H. destruct H as [H1 H2].
  apply N.ltb_lt in H1, H2, H3. split; [exact H1 | split; [exact H2 | exact H3]].
Qed.

Lemma scalarsb_cat : forallb is_scalar_value CAT_SRC = true.
Proof. vm_compute. reflexivity. Qed.

Lemma scalars_cat : scalars CAT_SRC.
Proof.
  unfold scalars. apply Forall_forall. intros c Hc.
  exact (proj1 (forallb_forall is_scalar_value CAT_SRC) scalarsb_cat c Hc).
Qed.

(* ------------------------------------------------------------------ *)
(* A: through the CLI model at every level *)

Theorem cat_cli_levels : cat_cli_levels_stmt.
Proof.
  intros level t Hl Hne Ht.
  destruct (UniProofs.cat_loop t Hne Ht) as (fuel & s & Hs & Ho & He).
  rewrite <- prog_cat in Hs.
  destruct (TopProofs.cli_done level CAT_SRC t fuel s Hl scalars_cat Ht small_cat Hs) as (F & HF).
  exists F. rewrite HF, Ho, He. reflexivity.
Qed.
Print Assumptions cat_cli_levels.

Theorem copy_cli_levels : copy_cli_levels_stmt.
Proof.
  intros level n t Hl Ht.
  destruct (UniProofs.copy_n_ok n t Ht) as (s & Hs & Ho & He).
  rewrite <- prog_copy in Hs.
  destruct (TopProofs.cli_done level (COPY_SRC n) t _ s Hl (scalars_copy n) Ht (small_copy n) Hs) as (F & HF).
  exists F. rewrite HF, Ho, He. reflexivity.
Qed.
Print Assumptions copy_cli_levels.

(* ------------------------------------------------------------------ *)
(* the compiler returns a program *)

Lemma compiles0 fx b code : exists p, compile_prog fx b code 0 = Some p.
Proof. eexists. reflexivity. Qed.

Lemma compiles1 fx b code : exists p, compile_prog fx b code 1 = Some p.
Proof.
  unfold compile_prog, optimize_prog.
  change (1 =? 0) with false. change (1 =? 1) with true. cbv iota.
  destruct (renum_map fx code) as [m mx]. eexists. reflexivity.
Qed.

Lemma compiles2 b code : kinds_ok code -> (forall e, optimize_prog all_fixed code 2 [] <> OptErr e) ->
  exists p, compile_prog all_fixed b code 2 = Some p.
Proof.
  intros Hk He. unfold compile_prog. change (2 =? 0) with false. cbv iota.
  pose proof (level2_wt_t code [] Hk) as H2.
  destruct (optimize_prog all_fixed code 2 []) as [r|e|].
  - eexists. reflexivity.
  - exfalso. exact (He e eq_refl).
  - contradiction.
Qed.

Definition opt_okb (o : optimized) : bool := match o with OptOk _ => true | _ => false end.
Lemma cat_opt2 : opt_okb (optimize_prog all_fixed (parse CAT_SRC) 2 []) = true.
Proof. vm_compute. reflexivity. Qed.

Lemma cat_no_opterr e : optimize_prog all_fixed (parse CAT_SRC) 2 [] <> OptErr e.
Proof. intros H. pose proof cat_opt2 as H2. rewrite H in H2. discriminate H2. Qed.

(* a program text whose run on the empty input ends normally is not rejected by the pre-execution *)
Lemma done_no_opterr text f s e : small_text text ->
  srun f (prog_of_text text) (lstate0 []) 0 = SDone s ->
  optimize_prog all_fixed (parse text) 2 [] <> OptErr e.
Proof.
  intros Hsm Hrun Ho.
  assert (Hnil : scalars []) by constructor.
  change (@nil (option (list N))) with (lines_of []) in Hrun.
  destruct (TopProofs.level0_finished text [] f _ Hnil Hsm Hrun) as (x & Hx & Nx & HF).
  { intros t p. discriminate. }
  destruct x as [s1|c s1|e1 s1|s1 p|s1]; cbn [final_rel] in HF; try contradiction.
  pose proof (level2_wt_t (parse text) [] (parse_kinds_ok text)) as H2.
  rewrite Ho in H2. destruct H2 as (f' & s' & H2 & _).
  change (lines_of []) with (@nil (option (list N))) in Hx.
  rewrite TopProofs.level0_eq in Hx, H2.
  assert (HE : FDone s1 = FErr e s').
  { apply (TopProofs.inc_det f f' _ _ _ _ _ Hx H2); intros t p; discriminate. }
  discriminate HE.
Qed.

Lemma copy_no_opterr n e : optimize_prog all_fixed (parse (COPY_SRC n)) 2 [] <> OptErr e.
Proof.
  assert (Hnil : small_scalars []) by constructor.
  destruct (UniProofs.copy_n_ok n [] Hnil) as (s & Hs & _).
  change (lines_of []) with (@nil (option (list N))) in Hs.
  rewrite <- prog_copy in Hs.
  exact (done_no_opterr (COPY_SRC n) _ s e (small_copy n) Hs).
Qed.

Theorem copy_compiles : copy_compiles_stmt.
Proof.
  intros level n Hl.
  assert (Hc : level = 0 \/ level = 1 \/ level = 2) by lia.
  destruct Hc as [-> | [-> | ->]].
  - split; apply compiles0.
  - split; apply compiles1.
  - split; apply compiles2.
    + apply parse_kinds_ok.
    + apply cat_no_opterr.
    + apply parse_kinds_ok.
    + apply copy_no_opterr.
Qed.
Print Assumptions copy_compiles.

(* ------------------------------------------------------------------ *)
(* B: the compiled programs, from the end-to-end compiler theorem *)

Section Compiled.
Hypothesis He2e : compiled_end_to_end_sound_stmt.

(* a run of the definition that ends normally is reproduced by the emitted program at every level *)
Lemma compiled_done level text input f s p : level <= 2 -> scalars input -> small_text text ->
  srun f (prog_of_text text) (lstate0 (lines_of input)) 0 = SDone s ->
  compile_prog all_fixed true (parse text) level = Some p ->
  exists fuel s', ir_run fuel p (lines_of input) = IDone s' /\ rev (outb s') = out s /\ rev (errb s') = err s.
Proof.
  intros Hl Hi Hsm Hrun Hc.
  destruct (TopProofs.level0_finished text input f _ Hi Hsm Hrun) as (x & Hx & Nx & HF).
  { intros t q. discriminate. }
  destruct x as [s1|c s1|e1 s1|s1 q|s1]; cbn [final_rel] in HF; try contradiction.
  assert (Hsc : small_code (map xcode_of_ucode (parse text))).
  { exact (TopProofs.code_small text Hsm). }
  pose proof (He2e level (parse text) (lines_of input) p f Hl (parse_kinds_ok text) Hsc
                   (ExtraProofs.lines_small input Hi) Hc) as H.
  rewrite Hx in H. destruct H as (fuel' & H). cbn [beh] in H.
  exists fuel'.
  destruct (ir_run fuel' p (lines_of input)) as [s2|c s2|k s2|s2|s2|]; cbn [ibeh] in H; try discriminate H.
  exists s2. injection H as H1 H2.
  split; [reflexivity|].
  rewrite H1, H2. split; [exact (R_out _ _ HF) | exact (R_err _ _ HF)].
Qed.

Theorem cat_compiled : cat_compiled_stmt.
Proof.
  intros level t p Hl Hne Ht Hc.
  destruct (UniProofs.cat_loop t Hne Ht) as (fuel & s & Hs & Ho & He).
  rewrite <- prog_cat in Hs.
  destruct (compiled_done level CAT_SRC t fuel s p Hl Ht small_cat Hs Hc) as (F & s' & H1 & H2 & H3).
  exists F, s'. split; [exact H1|]. rewrite H2, H3, Ho, He. split; reflexivity.
Qed.

Theorem copy_compiled : copy_compiled_stmt.
Proof.
  intros level n t p Hl Ht Hc.
  destruct (UniProofs.copy_n_ok n t Ht) as (s & Hs & Ho & He).
  rewrite <- prog_copy in Hs.
  destruct (compiled_done level (COPY_SRC n) t _ s p Hl Ht (small_copy n) Hs Hc) as (F & s' & H1 & H2 & H3).
  exists F, s'. split; [exact H1|]. rewrite H2, H3, Ho, He. split; reflexivity.
Qed.
End Compiled.

Check (cat_compiled : compiled_end_to_end_sound_stmt -> cat_compiled_stmt).
Check (copy_compiled : compiled_end_to_end_sound_stmt -> copy_compiled_stmt).
Print Assumptions cat_compiled.
Print Assumptions copy_compiled.
