(* Closes the optimiser-layer lemmas. *)
From Coq Require Import List NArith Bool.
From HV Require Import Model.Parse Model.Exec Model.Opt Proofs.OptSpec Proofs.ParseKinds.
From HV Require Proofs.OptRenum Proofs.OptPre Proofs.OptTerm.
Definition renum_private_t : renum_private_stmt := OptRenum.renum_private.
Definition renum_step_wt_t : renum_step_wt_stmt := OptRenum.renum_step_wt.
Definition level1_wt_t : level1_wt_stmt := OptRenum.level1_wt.
Definition optimize_total_t : optimize_total_stmt := OptTerm.optimize_total.
Definition level2_wt_t : level2_wt_stmt := OptPre.level2_wt level1_wt_t optimize_total_t.
Definition ostep_sound_t : ostep_sound_stmt := OptPre.ostep_sound.
Definition ostep_exit_t : ostep_exit_stmt := OptPre.ostep_exit.
Definition ostep_no_read_t : ostep_no_read_stmt := OptPre.ostep_no_read.
Definition optimize_no_read_t : optimize_no_read_stmt := OptTerm.optimize_no_read ostep_no_read_t.
Definition oloop_total_t : oloop_total_stmt := OptTerm.oloop_total.
Definition run_mono_t : run_mono_stmt := OptTerm.run_mono.
Lemma parse_kinds_ok : forall text, kinds_ok (parse text).
Proof. intros text u H. eapply parse_kinds; exact H. Qed.
