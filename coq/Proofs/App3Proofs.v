(* Proofs of the statements in Proofs/App3Spec.v: the debugger's `run`, several iterations at once. *)
From Coq Require Import List NArith ZArith Lia Bool.
Import ListNotations.
From HV Require Import Model.Big Model.Rat Model.NumText Model.Chars Model.Parse Model.Exec Model.Opt Model.Repl Model.Debug
  Proofs.OptSpec Proofs.AppSpec Proofs.ExtraSpec Proofs.App3Spec Proofs.AppAll.
From HV Require Proofs.ExtraProofs.
Open Scope N_scope.

(* ---------- small facts ---------- *)
Lemma core_core s : core (core s) = core s.
Proof. reflexivity. Qed.

Lemma s_io_is_add_io (s io : state) :
  mkstate (skind_ s) (stacks s) (cur s) (points s) (latest s) (inp s) (outb io) (errb io)
  = add_io (outb io) (errb io) (core s).
Proof. reflexivity. Qed.

(* a defined later state of the run means every earlier state is defined *)
Lemma nsteps_down code m : forall n x, nsteps (n + m) code = Some x -> exists y, nsteps n code = Some y.
Proof.
  induction m as [|m IH]; intros n x H.
  - rewrite Nat.add_0_r in H. exists x. exact H.
  - rewrite Nat.add_succ_r in H. cbn [nsteps] in H.
    destruct (nsteps (n + m) code) as [y|] eqn:E; [|discriminate H].
    exact (IH n y E).
Qed.

(* the invariant, read at the newest snapshot *)
Lemma dinv_head code d b : dinv code d -> length (hist d) = S b ->
  exists s0 pc0 older, hist d = (s0, pc0) :: older /\ length older = b /\ nsteps b code = Some (core s0, pc0).
Proof.
  intros [Hh _] Hl.
  destruct (hist d) as [|[s0 pc0] older]; [contradiction Hh|].
  cbn [length] in Hl. injection Hl as Hl.
  cbn [hist_ok] in Hh. destruct Hh as [Hn _].
  exists s0, pc0, older. rewrite Hl in Hn. split; [reflexivity | split; assumption].
Qed.

Lemma flush_out_one io : flush_out [flushed io] = rev (outb io).
Proof. unfold flush_out, flushed. cbn [flat_map]. apply app_nil_r. Qed.
Lemma flush_err_one io : flush_err [flushed io] = rev (errb io).
Proof. unfold flush_err, flushed. cbn [flat_map]. apply app_nil_r. Qed.
Lemma flush_out_app a b : flush_out (a ++ b) = flush_out a ++ flush_out b.
Proof. unfold flush_out. apply flat_map_app. Qed.
Lemma flush_err_app a b : flush_err (a ++ b) = flush_err a ++ flush_err b.
Proof. unfold flush_err. apply flat_map_app. Qed.

(* ---------- one iteration in running mode at a command without breakpoint ---------- *)
Lemma run_step code lines d b sj pc0 x1 :
  dinv code d -> running d = true -> length (hist d) = S b ->
  nsteps b code = Some (sj, pc0) -> pc0 < N.of_nat (length code) -> mem_N pc0 (brk d) = false ->
  nsteps (S b) code = Some x1 ->
  exists d' c pc' t,
    nth_error code (N.to_nat pc0) = Some c /\ execute_one c pc0 (core sj) = ROk pc' t /\
    dtrans true true code lines d = ([], inr (lines, d')) /\
    running d' = true /\ brk d' = brk d /\ length (hist d') = S (S b) /\
    pend_out d' = pend_out d ++ rev (outb t) /\ pend_err d' = pend_err d ++ rev (errb t).
Proof.
  intros Hinv Hrun Hlen Hn Hpc Hm Hn1.
  destruct (dinv_head code d b Hinv Hlen) as (s0 & p0 & older & Eh & Hlo & Hn0).
  rewrite Hn in Hn0. injection Hn0 as -> ->.
  cbn [nsteps] in Hn1. rewrite Hn in Hn1.
  destruct (nth_error code (N.to_nat p0)) as [c|] eqn:Ec; [|discriminate Hn1].
  destruct (execute_one c p0 (core (core s0))) as [pc' t|q t|e t] eqn:Ee; [|discriminate Hn1|discriminate Hn1].
  pose proof Ee as Ee0. rewrite core_core in Ee0.
  assert (Ed : dstep code d = inl (add_io (outb (dio d)) (errb (dio d)) t, pc', add_io (outb (dio d)) (errb (dio d)) t)).
  { unfold dstep. rewrite Eh, Ec. cbv zeta. rewrite s_io_is_add_io, io_frame_t, Ee0. reflexivity. }
  exists (mkd ((add_io (outb (dio d)) (errb (dio d)) t, pc') :: hist d) (brk d) true (add_io (outb (dio d)) (errb (dio d)) t)),
    c, pc', t.
  split; [reflexivity|]. split; [exact Ee|].
  split.
  { unfold dtrans. rewrite Ed. rewrite Eh. cbv zeta.
    apply N.leb_gt in Hpc. rewrite Hpc, Hrun, Hm. reflexivity. }
  cbn [running brk hist dio length]. rewrite Hlen.
  split; [reflexivity|]. split; [reflexivity|]. split; [reflexivity|].
  unfold pend_out, pend_err. cbn [dio add_io outb errb]. rewrite !rev_app_distr. split; reflexivity.
Qed.

(* unfolding texts_from at a command that is executed *)
Lemma texts_from_S code b k sj pc0 c pc' t :
  nsteps b code = Some (sj, pc0) -> nth_error code (N.to_nat pc0) = Some c -> execute_one c pc0 (core sj) = ROk pc' t ->
  texts_from code b (S k) = (rev (outb t) ++ fst (texts_from code (S b) k), rev (errb t) ++ snd (texts_from code (S b) k)).
Proof.
  intros Hn Hc He. cbn [texts_from]. rewrite Hn, Hc, He.
  destruct (texts_from code (S b) k) as [o e]. reflexivity.
Qed.

(* the premises about the next k commands, shifted by one *)
Lemma shift_prem code (P : N -> Prop) b k :
  (forall j, (j < S k)%nat -> exists sj pcj, nsteps (b + j) code = Some (sj, pcj) /\ P pcj) ->
  (forall j, (j < k)%nat -> exists sj pcj, nsteps (S b + j) code = Some (sj, pcj) /\ P pcj).
Proof.
  intros H j Hj. destruct (H (S j)) as (sj & pcj & Hn & HP); [lia|].
  exists sj, pcj. rewrite Nat.add_succ_r in Hn. split; [exact Hn | exact HP].
Qed.

(* ---------- run up to the first breakpoint ---------- *)
Theorem run_to_breakpoint : run_to_breakpoint_stmt.
Proof.
  intros code lines d b k. revert d b.
  induction k as [|k IH]; intros d b s pc Hinv Hrun Hlen Hpre Hn Hpc Hm.
  - rewrite Nat.add_0_r in Hn |- *.
    destruct (dinv_head code d b Hinv Hlen) as (s0 & p0 & older & Eh & Hlo & Hn0).
    rewrite Hn in Hn0. injection Hn0 as Es ->.
    exists [flushed (dio d)], (mkd (hist d) (brk d) false (clear_io (dio d))).
    split.
    { cbn [diter]. rewrite (ExtraProofs.debug_run_stops code lines d s0 p0 older Eh Hrun Hpc Hm).
      cbn [app]. reflexivity. }
    cbn [running brk hist]. split; [reflexivity|]. split; [reflexivity|]. split; [exact Hlen|].
    split.
    { exists s0. rewrite Eh. split; [reflexivity | symmetry; exact Es]. }
    cbn [texts_from fst snd]. rewrite !app_nil_r, flush_out_one, flush_err_one.
    repeat split; reflexivity.
  - destruct (Hpre O) as (sj & pcj & Hnj & Hpcj & Hmj); [lia|].
    rewrite Nat.add_0_r in Hnj.
    rewrite Nat.add_succ_r in Hn. change (S (b + k)) with (S b + k)%nat in Hn.
    destruct (nsteps_down code k (S b) _ Hn) as [x1 Hn1].
    destruct (run_step code lines d b sj pcj x1 Hinv Hrun Hlen Hnj Hpcj Hmj Hn1)
      as (d1 & c & pc' & t & Hc & He & Ht & Hrun1 & Hbrk1 & Hlen1 & Hpo & Hpe).
    pose proof (dinv_step_t code lines d [] lines d1 Hinv Ht) as Hinv1.
    assert (Hpre1 : forall j, (j < k)%nat -> exists sj pcj, nsteps (S b + j) code = Some (sj, pcj) /\
                       pcj < N.of_nat (length code) /\ mem_N pcj (brk d1) = false).
    { rewrite Hbrk1. apply (shift_prem code (fun p => p < N.of_nat (length code) /\ mem_N p (brk d) = false)). exact Hpre. }
    assert (Hm1 : mem_N pc (brk d1) = true) by (rewrite Hbrk1; exact Hm).
    destruct (IH d1 (S b) s pc Hinv1 Hrun1 Hlen1 Hpre1 Hn Hpc Hm1)
      as (evs & d' & Hit & Hr' & Hb' & Hl' & Hhd & Hfo & Hfe & Hpo' & Hpe').
    exists evs, d'.
    split.
    { change (diter (S (S k)) code lines d) with
        (match dtrans true true code lines d with
         | (evs, inr (lines', d')) => match diter (S k) code lines' d' with
                                      | Some (ev2, l2, d2) => Some (evs ++ ev2, l2, d2)
                                      | None => None
                                      end
         | (_, inl _) => None
         end).
      rewrite Ht, Hit. reflexivity. }
    split; [exact Hr'|]. split; [rewrite Hb'; exact Hbrk1|].
    split; [rewrite Hl'; rewrite Nat.add_succ_r; reflexivity|].
    split; [exact Hhd|].
    rewrite (texts_from_S code b k sj pcj c pc' t Hnj Hc He). cbn [fst snd].
    rewrite Hfo, Hfe, Hpo, Hpe, <- !app_assoc.
    repeat split; assumption || reflexivity.
Qed.
Print Assumptions run_to_breakpoint.

(* ---------- run to the end of the program ---------- *)
Theorem run_to_end : run_to_end_stmt.
Proof.
  intros code lines d b k. revert d b.
  induction k as [|k IH]; intros d b s pc fuel Hinv Hrun Hlen Hpre Hn Hpc Hfuel.
  - rewrite Nat.add_0_r in Hn.
    destruct (dinv_head code d b Hinv Hlen) as (s0 & p0 & older & Eh & Hlo & Hn0).
    rewrite Hn in Hn0. injection Hn0 as Es ->.
    destruct fuel as [|f]; [lia|].
    exists [flushed (dio d)].
    split.
    { cbn [dloop]. unfold dtrans. rewrite Eh. cbv zeta.
      apply N.leb_le in Hpc. rewrite Hpc. reflexivity. }
    cbn [texts_from fst snd]. rewrite !app_nil_r, flush_out_one, flush_err_one.
    split; reflexivity.
  - destruct (Hpre O) as (sj & pcj & Hnj & Hpcj & Hmj); [lia|].
    rewrite Nat.add_0_r in Hnj.
    rewrite Nat.add_succ_r in Hn. change (S (b + k)) with (S b + k)%nat in Hn.
    destruct (nsteps_down code k (S b) _ Hn) as [x1 Hn1].
    destruct (run_step code lines d b sj pcj x1 Hinv Hrun Hlen Hnj Hpcj Hmj Hn1)
      as (d1 & c & pc' & t & Hc & He & Ht & Hrun1 & Hbrk1 & Hlen1 & Hpo & Hpe).
    pose proof (dinv_step_t code lines d [] lines d1 Hinv Ht) as Hinv1.
    assert (Hpre1 : forall j, (j < k)%nat -> exists sj pcj, nsteps (S b + j) code = Some (sj, pcj) /\
                       pcj < N.of_nat (length code) /\ mem_N pcj (brk d1) = false).
    { rewrite Hbrk1. apply (shift_prem code (fun p => p < N.of_nat (length code) /\ mem_N p (brk d) = false)). exact Hpre. }
    destruct fuel as [|f]; [lia|].
    assert (Hf : (S k < f)%nat) by lia.
    destruct (IH d1 (S b) s pc f Hinv1 Hrun1 Hlen1 Hpre1 Hn Hpc Hf) as (evs & Hl & Hfo & Hfe).
    exists evs.
    split.
    { cbn [dloop]. rewrite Ht, Hl. reflexivity. }
    rewrite (texts_from_S code b k sj pcj c pc' t Hnj Hc He). cbn [fst snd].
    rewrite Hfo, Hfe, Hpo, Hpe, <- !app_assoc. split; reflexivity.
Qed.
Print Assumptions run_to_end.
