From Coq Require Import List NArith Lia Bool.
Import ListNotations.
From HV Require Import Model.Chars Model.Parse Spec.Grammar Proofs.ParseSpec.
Open Scope N_scope.

(* ================================================================== *)
(* split_on                                                            *)
(* ================================================================== *)

Lemma split_on_cur sep l : forall cur,
  split_on sep l cur = match split_on sep l [] with h :: t => (rev cur ++ h) :: t | [] => [] end.
Proof.
  induction l as [|c r IH]; intro cur; cbn [split_on].
  - cbn [rev]. now rewrite app_nil_r.
  - destruct (c =? sep).
    + cbn [rev]. now rewrite app_nil_r.
    + rewrite (IH (c :: cur)), (IH [c]).
      destruct (split_on sep r []) as [|h t]; [reflexivity|].
      cbn [rev app]. now rewrite <- app_assoc.
Qed.

Lemma split_on_ne sep l : forall cur, split_on sep l cur <> [].
Proof.
  induction l as [|c r IH]; intro cur; cbn [split_on].
  - discriminate.
  - destruct (c =? sep); [discriminate | apply IH].
Qed.

Lemma split_on_cons_ne sep c r : (c =? sep) = false ->
  exists h t, split_on sep r [] = h :: t /\ split_on sep (c :: r) [] = (c :: h) :: t.
Proof.
  intro H. cbn [split_on]. rewrite H. rewrite (split_on_cur sep r [c]).
  destruct (split_on sep r []) as [|h t] eqn:E.
  - now apply split_on_ne in E.
  - exists h, t. split; reflexivity.
Qed.

Lemma split_on_nosep sep l : ~ In sep l -> forall cur, split_on sep l cur = [rev cur ++ l].
Proof.
  induction l as [|c r IH]; intros Hn cur; cbn [split_on].
  - now rewrite app_nil_r.
  - assert (Hc : (c =? sep) = false).
    { apply N.eqb_neq. intro E. apply Hn. left. exact E. }
    rewrite Hc. rewrite IH.
    + cbn [rev]. now rewrite <- app_assoc.
    + intro Hi. apply Hn. right. exact Hi.
Qed.

Lemma split_on_app_sep sep l1 l2 : ~ In sep l1 -> forall cur,
  split_on sep (l1 ++ sep :: l2) cur = (rev cur ++ l1) :: split_on sep l2 [].
Proof.
  induction l1 as [|c r IH]; intros Hn cur; cbn [app split_on].
  - rewrite N.eqb_refl. now rewrite app_nil_r.
  - assert (Hc : (c =? sep) = false).
    { apply N.eqb_neq. intro E. apply Hn. left. exact E. }
    rewrite Hc. rewrite IH.
    + cbn [rev]. now rewrite <- app_assoc.
    + intro Hi. apply Hn. right. exact Hi.
Qed.

Lemma split_on_flat {A} sep (f : A -> list N) l y :
  (forall x, In x l -> ~ In sep (f x)) -> ~ In sep (f y) ->
  split_on sep (flat_map (fun x => f x ++ [sep]) l ++ f y) [] = map f l ++ [f y].
Proof.
  induction l as [|a l IH]; intros Hl Hy.
  - cbn [flat_map app map]. now rewrite split_on_nosep.
  - cbn [flat_map map]. rewrite <- !app_assoc. cbn [app].
    rewrite split_on_app_sep by (apply Hl; left; reflexivity).
    cbn [rev app]. f_equal. apply IH; [|exact Hy].
    intros x Hx. apply Hl. right. exact Hx.
Qed.

(* ================================================================== *)
(* small list facts                                                    *)
(* ================================================================== *)

Lemma removelast_map {A B} (f : A -> B) l : removelast (map f l) = map f (removelast l).
Proof.
  induction l as [|a l IH]; [reflexivity|].
  cbn [map removelast]. destruct l as [|b l]; [reflexivity|].
  cbn [map] in *. now rewrite IH.
Qed.

Lemma last_map {A B} (f : A -> B) l d : last (map f l) (f d) = f (last l d).
Proof.
  induction l as [|a l IH]; [reflexivity|].
  cbn [map last]. destruct l as [|b l]; [reflexivity|].
  cbn [map] in *. exact IH.
Qed.

Lemma Forall_removelast {A} (P : A -> Prop) l : Forall P l -> Forall P (removelast l).
Proof.
  induction 1 as [|x l Hx Hl IH]; [constructor|].
  cbn [removelast]. destruct l; [constructor|]. constructor; assumption.
Qed.

Lemma Forall_last {A} (P : A -> Prop) l d : Forall P l -> P d -> P (last l d).
Proof.
  induction 1 as [|x l Hx Hl IH]; intro Hd; [exact Hd|].
  cbn [last]. destruct l; [exact Hx|]. apply IH, Hd.
Qed.

Lemma map_id_in {A} (f : A -> A) l : (forall x, In x l -> f x = x) -> map f l = l.
Proof.
  induction l as [|a l IH]; intro H; [reflexivity|].
  cbn [map]. rewrite H by (left; reflexivity). f_equal. apply IH.
  intros x Hx. apply H. right. exact Hx.
Qed.

Lemma qu_tree_app l1 l2 x : qu_tree (l1 ++ l2) x = qu_tree l1 (qu_tree l2 x).
Proof. induction l1 as [|a l IH]; [reflexivity|]. cbn [app qu_tree]. now rewrite IH. Qed.

(* ================================================================== *)
(* area_build                                                          *)
(* ================================================================== *)

Definition qu_of (l : list area) : area := qu_tree (removelast l) (last l Nil).
Definition bang_sl (l : list slot) : area := bang_tree (removelast l) (last l None).

Lemma qu_of_cons2 a b l : qu_of (a :: b :: l) = Val 0 a (qu_of (b :: l)).
Proof. reflexivity. Qed.

Lemma bang_sl_snoc cl s : bang_sl (cl ++ [s]) = bang_tree cl s.
Proof. unfold bang_sl. now rewrite removelast_last, last_last. Qed.

Definition merge (x s : slot) : slot := match x with None => s | Some n => Some n end.

(* the `!`-group whose first slots are already in the zipper [b], continued with the text [seg] *)
Definition cont_bang (b : bangz) (seg : list N) : area :=
  match map slot_of (split_on CH_BANG seg []) with
  | s0 :: rest => bang_sl (closed b ++ merge (curslot b) s0 :: rest)
  | [] => Nil
  end.

Lemma cont_bang0 seg : cont_bang bang0 seg = bang_of seg.
Proof.
  unfold cont_bang, bang_of, bang_sl. cbn [bang0 closed curslot app merge].
  destruct (map slot_of (split_on CH_BANG seg [])); reflexivity.
Qed.

Lemma cont_bang_nil b : cont_bang b [] = bangA b.
Proof.
  unfold cont_bang. cbn [split_on rev map slot_of].
  rewrite bang_sl_snoc. unfold bangA. destruct (curslot b); reflexivity.
Qed.

Lemma cont_bang_bang b seg :
  cont_bang b (CH_BANG :: seg) = cont_bang (mkbz (closed b ++ [curslot b]) None) seg.
Proof.
  unfold cont_bang. cbn [split_on]. rewrite N.eqb_refl. cbn [rev map slot_of closed curslot].
  destruct (split_on CH_BANG seg []) as [|h t] eqn:E; [now apply split_on_ne in E|].
  cbn [map merge]. rewrite <- app_assoc. cbn [app].
  destruct (curslot b); reflexivity.
Qed.

Lemma cont_bang_heart b c k seg : (c =? CH_BANG) = false -> index_of c HEARTS = Some k ->
  cont_bang b (c :: seg) = cont_bang (mkbz (closed b) (merge (curslot b) (Some (k + 2)))) seg.
Proof.
  intros Hc Hk. unfold cont_bang.
  destruct (split_on_cons_ne CH_BANG c seg Hc) as (h & t & E1 & E2). rewrite E1, E2.
  cbn [map slot_of closed curslot]. rewrite Hk.
  destruct (curslot b); reflexivity.
Qed.

Lemma cont_bang_other b c seg : (c =? CH_BANG) = false -> index_of c HEARTS = None ->
  cont_bang b (c :: seg) = cont_bang b seg.
Proof.
  intros Hc Hk. unfold cont_bang.
  destruct (split_on_cons_ne CH_BANG c seg Hc) as (h & t & E1 & E2). rewrite E1, E2.
  cbn [map slot_of]. rewrite Hk. reflexivity.
Qed.

Lemma area_build_gen toks : forall b q,
  area_finish (fold_left area_step toks (b, q)) =
  qu_tree (rev q) (match split_on CH_Q toks [] with
                   | seg0 :: segs => qu_of (cont_bang b seg0 :: map bang_of segs)
                   | [] => Nil
                   end).
Proof.
  induction toks as [|c r IH]; intros b q.
  - cbn [fold_left split_on rev map]. unfold area_finish. cbn [fst snd].
    rewrite cont_bang_nil. reflexivity.
  - change (fold_left area_step (c :: r) (b, q)) with (fold_left area_step r (area_step (b, q) c)).
    destruct (c =? CH_Q) eqn:EQ.
    + assert (Hs : area_step (b, q) c = (bang0, bangA b :: q))
        by (unfold area_step; rewrite EQ; reflexivity).
      rewrite Hs, IH. cbn [split_on]. rewrite EQ. cbn [rev].
      destruct (split_on CH_Q r []) as [|seg0 segs] eqn:E; [now apply split_on_ne in E|].
      cbn [map]. rewrite cont_bang0, cont_bang_nil, qu_of_cons2.
      rewrite qu_tree_app. reflexivity.
    + destruct (split_on_cons_ne CH_Q c r EQ) as (seg0 & segs & E1 & E2). rewrite E2.
      destruct (c =? CH_BANG) eqn:EB.
      * assert (Hs : area_step (b, q) c = (mkbz (closed b ++ [curslot b]) None, q))
          by (unfold area_step; rewrite EQ, EB; reflexivity).
        rewrite Hs, IH, E1. apply N.eqb_eq in EB. subst c.
        rewrite cont_bang_bang. reflexivity.
      * destruct (index_of c HEARTS) as [k|] eqn:EH.
        -- assert (Hs : area_step (b, q) c = (mkbz (closed b) (merge (curslot b) (Some (k + 2))), q))
             by (unfold area_step; rewrite EQ, EB, EH; reflexivity).
           rewrite Hs, IH, E1. rewrite (cont_bang_heart b c k seg0 EB EH). reflexivity.
        -- assert (Hs : area_step (b, q) c = (b, q))
             by (unfold area_step; rewrite EQ, EB, EH; reflexivity).
           rewrite Hs, IH, E1. rewrite (cont_bang_other b c seg0 EB EH). reflexivity.
Qed.

Theorem area_build : area_build_stmt.
Proof.
  intro toks. rewrite area_build_gen. cbn [rev qu_tree].
  unfold area_of.
  destruct (split_on CH_Q toks []) as [|seg0 segs] eqn:E; [now apply split_on_ne in E|].
  cbn [map]. rewrite cont_bang0. reflexivity.
Qed.

(* ================================================================== *)
(* area_shape                                                          *)
(* ================================================================== *)

Definition seg_gbang (seg : list N) : gbang :=
  let slots := map slot_of (split_on CH_BANG seg []) in (removelast slots, last slots None).
Definition toks_gq (toks : list N) : gq :=
  let gs := map seg_gbang (split_on CH_Q toks []) in (removelast gs, last gs ([], None)).

Lemma area_of_gq toks : area_of toks = gqA (toks_gq toks).
Proof.
  unfold area_of, toks_gq, gqA. cbn [fst snd].
  rewrite <- removelast_map.
  rewrite <- (last_map gbangA (map seg_gbang (split_on CH_Q toks [])) ([], None)).
  rewrite map_map. reflexivity.
Qed.

Theorem area_shape : area_shape_stmt.
Proof. intro toks. exists (toks_gq toks). apply area_of_gq. Qed.

(* ================================================================== *)
(* area_text                                                           *)
(* ================================================================== *)

Definition slot_ok (s : slot) : bool :=
  match s with Some t => (2 <=? t) && (t <=? 13) | None => true end.
Definition gbang_ok (b : gbang) : bool := forallb slot_ok (snd b :: fst b).
Definition gq_ok (q : gq) : bool := forallb gbang_ok (snd q :: fst q).

Lemma heart_facts t : 2 <= t <= 13 ->
  index_of (heart_char t) HEARTS = Some (t - 2) /\ heart_char t <> CH_BANG /\ heart_char t <> CH_Q.
Proof.
  intro H.
  assert (E : t = 2 \/ t = 3 \/ t = 4 \/ t = 5 \/ t = 6 \/ t = 7 \/ t = 8 \/ t = 9 \/ t = 10 \/
              t = 11 \/ t = 12 \/ t = 13) by lia.
  repeat (destruct E as [E|E]); subst t; vm_compute;
    (split; [reflexivity | split; intro X; discriminate X]).
Qed.

Lemma slot_ok_range t : slot_ok (Some t) = true -> 2 <= t <= 13.
Proof.
  cbn [slot_ok]. intro H. apply andb_true_iff in H. destruct H as [H1 H2].
  apply N.leb_le in H1. apply N.leb_le in H2. lia.
Qed.

Lemma slot_of_text s : slot_ok s = true -> slot_of (slot_text s) = s.
Proof.
  destruct s as [t|]; intro H; [|reflexivity].
  apply slot_ok_range in H. destruct (heart_facts t H) as (E & _ & _).
  cbn [slot_text slot_of]. rewrite E. f_equal. lia.
Qed.

Lemma slot_text_nobang s : slot_ok s = true -> ~ In CH_BANG (slot_text s).
Proof.
  destruct s as [t|]; intros H Hi; [|exact Hi].
  apply slot_ok_range in H. destruct (heart_facts t H) as (_ & E & _).
  destruct Hi as [Hi|[]]. apply E. exact Hi.
Qed.

Lemma slot_text_noq s : slot_ok s = true -> ~ In CH_Q (slot_text s).
Proof.
  destruct s as [t|]; intros H Hi; [|exact Hi].
  apply slot_ok_range in H. destruct (heart_facts t H) as (_ & _ & E).
  destruct Hi as [Hi|[]]. apply E. exact Hi.
Qed.

Lemma gbang_ok_slots b : gbang_ok b = true -> forall s, In s (snd b :: fst b) -> slot_ok s = true.
Proof. unfold gbang_ok. intro H. apply forallb_forall. exact H. Qed.

Lemma bang_of_text b : gbang_ok b = true -> bang_of (gbang_text b) = gbangA b.
Proof.
  intro H. pose proof (gbang_ok_slots b H) as Hs.
  unfold bang_of, gbang_text.
  rewrite (split_on_flat CH_BANG slot_text).
  - rewrite map_app, map_map. cbn [map].
    rewrite (map_id_in (fun x => slot_of (slot_text x))).
    + rewrite removelast_last, last_last.
      rewrite slot_of_text by (apply Hs; left; reflexivity). reflexivity.
    + intros x Hx. apply slot_of_text. apply Hs. right. exact Hx.
  - intros x Hx. apply slot_text_nobang. apply Hs. right. exact Hx.
  - apply slot_text_nobang. apply Hs. left. reflexivity.
Qed.

Lemma gbang_text_noq b : gbang_ok b = true -> ~ In CH_Q (gbang_text b).
Proof.
  intro H. pose proof (gbang_ok_slots b H) as Hs.
  unfold gbang_text. intro Hi. apply in_app_or in Hi. destruct Hi as [Hi|Hi].
  - apply in_flat_map in Hi. destruct Hi as (s & Hin & Hi).
    apply in_app_or in Hi. destruct Hi as [Hi|Hi].
    + revert Hi. apply slot_text_noq. apply Hs. right. exact Hin.
    + destruct Hi as [Hi|[]]. discriminate Hi.
  - revert Hi. apply slot_text_noq. apply Hs. left. reflexivity.
Qed.

Theorem area_text_ok q : gq_ok q = true -> area_of (gq_text q) = gqA q.
Proof.
  intro H.
  assert (Hb : forall b, In b (snd q :: fst q) -> gbang_ok b = true)
    by (apply forallb_forall; exact H).
  unfold area_of, gq_text.
  rewrite (split_on_flat CH_Q gbang_text).
  - rewrite map_app, map_map. cbn [map].
    rewrite removelast_last, last_last.
    rewrite bang_of_text by (apply Hb; left; reflexivity).
    unfold gqA. f_equal. apply map_ext_in. intros b Hin.
    apply bang_of_text. apply Hb. right. exact Hin.
  - intros x Hx. apply gbang_text_noq. apply Hb. right. exact Hx.
  - apply gbang_text_noq. apply Hb. left. reflexivity.
Qed.

Theorem area_text : area_text_stmt.
Proof. intros q H. apply area_text_ok. exact H. Qed.

(* ================================================================== *)
(* injectivity of the two renderings                                   *)
(* ================================================================== *)

(* every node type has its own character: types 0..13 *)
Fixpoint well_typed (a : area) : Prop :=
  match a with Nil => True | Val t l r => t <= 13 /\ well_typed l /\ well_typed r end.
(* heart nodes are leaves *)
Fixpoint leafy (a : area) : Prop :=
  match a with
  | Nil => True
  | Val t l r => (1 < t -> l = Nil /\ r = Nil) /\ leafy l /\ leafy r
  end.

Lemma area_char_facts t : t <= 13 ->
  index_of (area_char t) ([CH_Q; CH_BANG] ++ HEARTS) = Some t /\
  area_char t <> CH_US /\ area_char t <> CH_LB /\ area_char t <> CH_RB.
Proof.
  intro H.
  assert (E : t = 0 \/ t = 1 \/ t = 2 \/ t = 3 \/ t = 4 \/ t = 5 \/ t = 6 \/ t = 7 \/ t = 8 \/ t = 9 \/
              t = 10 \/ t = 11 \/ t = 12 \/ t = 13) by lia.
  repeat (destruct E as [E|E]); subst t; vm_compute;
    (split; [reflexivity | split; [|split]; intro X; discriminate X]).
Qed.

Lemma area_char_inj t t' : t <= 13 -> t' <= 13 -> area_char t = area_char t' -> t = t'.
Proof.
  intros H H' E. destruct (area_char_facts t H) as (F & _). destruct (area_char_facts t' H') as (F' & _).
  rewrite E in F. rewrite F in F'. now injection F'.
Qed.

Lemma leafy_slotA s : leafy (slotA s).
Proof. destruct s; cbn; auto. Qed.

Lemma leafy_bang_tree cl s : leafy (bang_tree cl s).
Proof.
  induction cl as [|x cl IH]; cbn [bang_tree]; [apply leafy_slotA|].
  cbn [leafy]. repeat split; try lia; [apply leafy_slotA | exact IH].
Qed.

Lemma leafy_qu_tree qs x : Forall leafy qs -> leafy x -> leafy (qu_tree qs x).
Proof.
  induction 1 as [|a qs Ha Hq IH]; intro Hx; cbn [qu_tree]; [exact Hx|].
  cbn [leafy]. repeat split; try lia; [exact Ha | apply IH, Hx].
Qed.

Lemma leafy_gqA q : leafy (gqA q).
Proof.
  unfold gqA. apply leafy_qu_tree.
  - apply Forall_forall. intros a Ha. apply in_map_iff in Ha. destruct Ha as (b & <- & _).
    apply leafy_bang_tree.
  - apply leafy_bang_tree.
Qed.

Lemma grammar_shaped_leafy a : grammar_shaped a -> leafy a.
Proof. intros [q ->]. apply leafy_gqA. Qed.

(* ---- prefix rendering ---- *)
Lemma debug_prefix a : leafy a -> well_typed a -> forall b, leafy b -> well_typed b ->
  forall r1 r2, area_debug a ++ r1 = area_debug b ++ r2 -> a = b /\ r1 = r2.
Proof.
  induction a as [|t l IHl r IHr]; intros La Wa b Lb Wb r1 r2 H; destruct b as [|t' l' r'].
  - cbn [area_debug app] in H. injection H as H. auto.
  - exfalso. cbn [area_debug] in H. rewrite <- !app_comm_cons in H. cbn [app] in H.
    injection H as H _. cbn [well_typed] in Wb. destruct Wb as (Wt & _).
    destruct (area_char_facts t' Wt) as (_ & F & _). apply F. symmetry. exact H.
  - exfalso. cbn [area_debug] in H. rewrite <- !app_comm_cons in H. cbn [app] in H.
    injection H as H _. cbn [well_typed] in Wa. destruct Wa as (Wt & _).
    destruct (area_char_facts t Wt) as (_ & F & _). apply F. exact H.
  - cbn [area_debug] in H. rewrite <- !app_comm_cons in H. injection H as Hc Hr.
    cbn [well_typed] in Wa, Wb. destruct Wa as (Wt & Wl & Wr). destruct Wb as (Wt' & Wl' & Wr').
    cbn [leafy] in La, Lb. destruct La as (La0 & Ll & Lr). destruct Lb as (Lb0 & Ll' & Lr').
    apply area_char_inj in Hc; [|assumption|assumption]. subst t'.
    destruct (t <=? 1) eqn:E.
    + rewrite <- !app_assoc in Hr.
      destruct (IHl Ll Wl l' Ll' Wl' _ _ Hr) as (-> & Hr2).
      destruct (IHr Lr Wr r' Lr' Wr' _ _ Hr2) as (-> & ->). auto.
    + apply N.leb_gt in E. destruct (La0 E) as (-> & ->). destruct (Lb0 E) as (-> & ->).
      cbn [app] in Hr. auto.
Qed.

(* ---- bracketed infix rendering ---- *)
Lemma display_val_le t l r rest : (t <=? 1) = true ->
  area_display (Val t l r) ++ rest =
  CH_LB :: area_display l ++ CH_RB :: area_char t :: CH_LB :: area_display r ++ CH_RB :: rest.
Proof.
  intro H. cbn [area_display]. rewrite H. cbn [app].
  rewrite <- !app_assoc. cbn [app]. rewrite <- !app_assoc. reflexivity.
Qed.

Lemma display_val_gt t l r rest : (t <=? 1) = false ->
  area_display (Val t l r) ++ rest = area_char t :: rest.
Proof. intro H. cbn [area_display]. rewrite H. reflexivity. Qed.

Lemma display_prefix a : leafy a -> well_typed a -> forall b, leafy b -> well_typed b ->
  forall r1 r2, area_display a ++ r1 = area_display b ++ r2 -> a = b /\ r1 = r2.
Proof.
  induction a as [|t l IHl r IHr]; intros La Wa b Lb Wb r1 r2 H; destruct b as [|t' l' r'].
  - cbn [area_display app] in H. injection H as H. auto.
  - exfalso. cbn [well_typed] in Wb. destruct Wb as (Wt & _).
    destruct (area_char_facts t' Wt) as (_ & F & _).
    destruct (t' <=? 1) eqn:E.
    + rewrite display_val_le in H by exact E. cbn [area_display app] in H. discriminate H.
    + rewrite display_val_gt in H by exact E. cbn [area_display app] in H.
      injection H as H _. apply F. symmetry. exact H.
  - exfalso. cbn [well_typed] in Wa. destruct Wa as (Wt & _).
    destruct (area_char_facts t Wt) as (_ & F & _).
    destruct (t <=? 1) eqn:E.
    + rewrite display_val_le in H by exact E. cbn [area_display app] in H. discriminate H.
    + rewrite display_val_gt in H by exact E. cbn [area_display app] in H.
      injection H as H _. apply F. exact H.
  - cbn [well_typed] in Wa, Wb. destruct Wa as (Wt & Wl & Wr). destruct Wb as (Wt' & Wl' & Wr').
    cbn [leafy] in La, Lb. destruct La as (La0 & Ll & Lr). destruct Lb as (Lb0 & Ll' & Lr').
    destruct (area_char_facts t Wt) as (_ & _ & Ft & _).
    destruct (area_char_facts t' Wt') as (_ & _ & Ft' & _).
    destruct (t <=? 1) eqn:E; destruct (t' <=? 1) eqn:E'.
    + rewrite (display_val_le t) in H by exact E. rewrite (display_val_le t') in H by exact E'.
      injection H as H.
      destruct (IHl Ll Wl l' Ll' Wl' _ _ H) as (-> & H2).
      injection H2 as Hc H3.
      apply area_char_inj in Hc; [|assumption|assumption]. subst t'.
      destruct (IHr Lr Wr r' Lr' Wr' _ _ H3) as (-> & H4).
      injection H4 as ->. auto.
    + exfalso. rewrite (display_val_le t) in H by exact E. rewrite (display_val_gt t') in H by exact E'.
      injection H as H _. apply Ft'. symmetry. exact H.
    + exfalso. rewrite (display_val_gt t) in H by exact E. rewrite (display_val_le t') in H by exact E'.
      injection H as H _. apply Ft. exact H.
    + rewrite (display_val_gt t) in H by exact E. rewrite (display_val_gt t') in H by exact E'.
      injection H as Hc ->.
      apply area_char_inj in Hc; [|assumption|assumption]. subst t'.
      apply N.leb_gt in E. destruct (La0 E) as (-> & ->). destruct (Lb0 E) as (-> & ->). auto.
Qed.

(* The statements of ParseSpec hold once all node types are at most 13 (each type then has its own
   character); without that they fail, see [display_injective_refuted] / [debug_injective_refuted]. *)
Theorem display_injective_wt : forall a b, grammar_shaped a -> grammar_shaped b ->
  well_typed a -> well_typed b -> area_display a = area_display b -> a = b.
Proof.
  intros a b Ga Gb Wa Wb H.
  apply (display_prefix a (grammar_shaped_leafy a Ga) Wa b (grammar_shaped_leafy b Gb) Wb [] []).
  now rewrite !app_nil_r.
Qed.

Theorem debug_injective_wt : forall a b, grammar_shaped a -> grammar_shaped b ->
  well_typed a -> well_typed b -> area_debug a = area_debug b -> a = b.
Proof.
  intros a b Ga Gb Wa Wb H.
  apply (debug_prefix a (grammar_shaped_leafy a Ga) Wa b (grammar_shaped_leafy b Gb) Wb [] []).
  now rewrite !app_nil_r.
Qed.

(* counterexample to the unrestricted statements: types 14 and 15 are both printed as code point 0 *)
Lemma gs_leaf t : grammar_shaped (Val t Nil Nil).
Proof. exists ([], ([], Some t)). reflexivity. Qed.

Theorem display_injective_refuted : ~ display_injective_stmt.
Proof.
  intro H. specialize (H (Val 14 Nil Nil) (Val 15 Nil Nil) (gs_leaf 14) (gs_leaf 15) eq_refl).
  discriminate H.
Qed.

Theorem debug_injective_refuted : ~ debug_injective_stmt.
Proof.
  intro H. specialize (H (Val 14 Nil Nil) (Val 15 Nil Nil) (gs_leaf 14) (gs_leaf 15) eq_refl).
  discriminate H.
Qed.

(* ---- where well_typed comes from: parser output and checked commands ---- *)
Definition slot_le13 (s : slot) : Prop := match s with Some t => t <= 13 | None => True end.

Lemma wt_slotA s : slot_le13 s -> well_typed (slotA s).
Proof. destruct s; cbn; auto. Qed.

Lemma wt_bang_tree cl s : Forall slot_le13 cl -> slot_le13 s -> well_typed (bang_tree cl s).
Proof.
  induction 1 as [|x cl Hx Hc IH]; intro Hs; cbn [bang_tree]; [apply wt_slotA, Hs|].
  cbn [well_typed]. repeat split; [lia | apply wt_slotA, Hx | apply IH, Hs].
Qed.

Lemma wt_qu_tree qs x : Forall well_typed qs -> well_typed x -> well_typed (qu_tree qs x).
Proof.
  induction 1 as [|a qs Ha Hq IH]; intro Hx; cbn [qu_tree]; [exact Hx|].
  cbn [well_typed]. repeat split; [lia | exact Ha | apply IH, Hx].
Qed.

Lemma index_from_bound c l : forall i k, index_from c l i = Some k -> k < i + N.of_nat (length l).
Proof.
  induction l as [|x l IH]; intros i k H; cbn [index_from] in H; [discriminate H|].
  cbn [length]. destruct (x =? c).
  - injection H as <-. lia.
  - apply IH in H. lia.
Qed.

Lemma slot_of_le13 l : slot_le13 (slot_of l).
Proof.
  induction l as [|c r IH]; cbn [slot_of]; [exact I|].
  destruct (index_of c HEARTS) as [k|] eqn:E; [|exact IH].
  unfold index_of in E. apply index_from_bound in E. cbn [HEARTS length] in E.
  cbn [slot_le13]. lia.
Qed.

Lemma wt_bang_of seg : well_typed (bang_of seg).
Proof.
  unfold bang_of.
  assert (F : Forall slot_le13 (map slot_of (split_on CH_BANG seg []))).
  { apply Forall_forall. intros s Hs. apply in_map_iff in Hs. destruct Hs as (l & <- & _).
    apply slot_of_le13. }
  apply wt_bang_tree; [apply Forall_removelast, F | apply Forall_last; [exact F | exact I]].
Qed.

Theorem area_of_well_typed toks : well_typed (area_of toks).
Proof.
  unfold area_of.
  assert (F : Forall well_typed (map bang_of (split_on CH_Q toks []))).
  { apply Forall_forall. intros s Hs. apply in_map_iff in Hs. destruct Hs as (l & <- & _).
    apply wt_bang_of. }
  apply wt_qu_tree; [apply Forall_removelast, F | apply Forall_last; [exact F | exact I]].
Qed.

Lemma slot_ok_le13 s : slot_ok s = true -> slot_le13 s.
Proof. destruct s as [t|]; intro H; [|exact I]. apply slot_ok_range in H. cbn. lia. Qed.

Lemma wt_gbangA b : gbang_ok b = true -> well_typed (gbangA b).
Proof.
  intro H. pose proof (gbang_ok_slots b H) as Hs. unfold gbangA. apply wt_bang_tree.
  - apply Forall_forall. intros s Hin. apply slot_ok_le13, Hs. right. exact Hin.
  - apply slot_ok_le13, Hs. left. reflexivity.
Qed.

Theorem gqA_well_typed q : gq_ok q = true -> well_typed (gqA q).
Proof.
  intro H.
  assert (Hb : forall b, In b (snd q :: fst q) -> gbang_ok b = true)
    by (apply forallb_forall; exact H).
  unfold gqA. apply wt_qu_tree.
  - apply Forall_forall. intros a Ha. apply in_map_iff in Ha. destruct Ha as (b & <- & Hin).
    apply wt_gbangA, Hb. right. exact Hin.
  - apply wt_gbangA, Hb. left. reflexivity.
Qed.

(* consequences: the renderings are injective on the trees the parser can produce *)
Theorem display_injective_area_of : forall t1 t2,
  area_display (area_of t1) = area_display (area_of t2) -> area_of t1 = area_of t2.
Proof.
  intros t1 t2. apply display_injective_wt; try apply area_of_well_typed; apply area_shape.
Qed.

Theorem debug_injective_area_of : forall t1 t2,
  area_debug (area_of t1) = area_debug (area_of t2) -> area_of t1 = area_of t2.
Proof.
  intros t1 t2. apply debug_injective_wt; try apply area_of_well_typed; apply area_shape.
Qed.

Print Assumptions area_build.
Print Assumptions area_shape.
Print Assumptions area_text.
Print Assumptions display_injective_wt.
Print Assumptions debug_injective_wt.
Print Assumptions display_injective_refuted.
Print Assumptions debug_injective_refuted.
Print Assumptions area_of_well_typed.
Print Assumptions gqA_well_typed.
Print Assumptions display_injective_area_of.
Print Assumptions debug_injective_area_of.
