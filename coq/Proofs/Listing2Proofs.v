(* The whole listing of `hyeong check` (Model/Listing.v): no padding width underflows, and the text of the listing
   determines index, location, kind, counts and area of every command (statements in Proofs/Listing2Spec.v). *)
From Coq Require Import List NArith Lia Bool. Import ListNotations.
From HV Require Import Model.Chars Model.Parse Model.Listing Spec.Grammar Spec.Lang Proofs.ParseSpec Proofs.ParseArea
  Proofs.ListingSpec Proofs.ListingProofs Proofs.Listing2Spec.
From HV Require Proofs.ParseAll Proofs.OptSpec Proofs.OptAll.
Open Scope N_scope.

Arguments N.add : simpl never.
Arguments N.mul : simpl never.
Arguments N.sub : simpl never.
Arguments N.div : simpl never.
Arguments N.modulo : simpl never.
Arguments N.pow : simpl never.
Arguments N.leb : simpl never.
Arguments N.ltb : simpl never.
Arguments N.eqb : simpl never.
Arguments N.max : simpl never.
Arguments N.log2 : simpl never.

(* ====================================================================================================== *)
(* Part 1: totality                                                                                          *)
(* ====================================================================================================== *)

Lemma fold_max_ge_acc {A} (f : A -> N) : forall es a, a <= fold_left (fun m e => N.max m (f e)) es a.
Proof.
  induction es as [|e es IH]; intro a; cbn [fold_left]; [lia|].
  pose proof (IH (N.max a (f e))) as H. lia.
Qed.

Lemma fold_max_ge_in {A} (f : A -> N) : forall es a e, In e es -> f e <= fold_left (fun m e => N.max m (f e)) es a.
Proof.
  induction es as [|x es IH]; intros a e Hin; cbn [fold_left]; [contradiction|].
  destruct Hin as [->|Hin].
  - pose proof (fold_max_ge_acc f es (N.max a (f e))) as H. lia.
  - apply IH, Hin.
Qed.

Lemma idx_width_ge es e : In e es -> dlen (fst e) <= idx_width es.
Proof. intro H. unfold idx_width. apply (fold_max_ge_in (fun e => dlen (fst e)) es 0 e H). Qed.

Lemma loc_width_ge es e : In e es -> dlen (fst (loc (snd e))) + dlen (snd (loc (snd e))) <= loc_width es.
Proof.
  intro H. unfold loc_width.
  apply (fold_max_ge_in (fun e => dlen (fst (loc (snd e))) + dlen (snd (loc (snd e)))) es 0 e H).
Qed.

Lemma usub_some a b : b <= a -> usub a b = Some (a - b).
Proof. intro H. unfold usub. destruct (N.leb_spec b a) as [_|L]; [reflexivity|lia]. Qed.

Lemma single_length : length SINGLE = 6%nat.
Proof. reflexivity. Qed.

Lemma entry_tail_some rawmode c : rawmode = true \/ ty c < 6 -> exists tl, entry_tail rawmode c = Some tl.
Proof.
  intros [->|L]; unfold entry_tail.
  - eexists; reflexivity.
  - destruct rawmode; [eexists; reflexivity|].
    destruct (nth_error SINGLE (N.to_nat (ty c))) as [ch|] eqn:E; [eexists; reflexivity|].
    exfalso. apply nth_error_None in E. rewrite single_length in E. lia.
Qed.

Lemma row_total rawmode fname iw lw e :
  dlen (fst e) <= iw -> dlen (fst (loc (snd e))) + dlen (snd (loc (snd e))) <= lw ->
  rawmode = true \/ ty (snd e) < 6 -> listing_row rawmode fname iw lw e <> None.
Proof.
  destruct e as [i c]. cbn [fst snd]. intros Hi Hl Ht. unfold listing_row.
  destruct (loc c) as [l k]. cbn [fst snd] in Hl.
  rewrite (usub_some iw (dlen i)) by lia.
  rewrite (usub_some lw (dlen l)) by lia.
  rewrite (usub_some (lw - dlen l) (dlen k)) by lia.
  destruct (entry_tail_some rawmode c Ht) as [tl ->]. discriminate.
Qed.

Lemma rows_total rawmode fname iw lw : forall es,
  (forall e, In e es -> dlen (fst e) <= iw /\ dlen (fst (loc (snd e))) + dlen (snd (loc (snd e))) <= lw) ->
  rawmode = true \/ Forall (fun e => ty (snd e) < 6) es ->
  listing_rows rawmode fname iw lw es <> None.
Proof.
  induction es as [|e es IH]; intros Hw Ht; cbn [listing_rows]; [discriminate|].
  assert (R : listing_row rawmode fname iw lw e <> None).
  { destruct (Hw e (or_introl eq_refl)) as [Hi Hl]. apply row_total; [exact Hi|exact Hl|].
    destruct Ht as [Ht|Ht]; [left; exact Ht|right; inversion Ht; assumption]. }
  assert (S : listing_rows rawmode fname iw lw es <> None).
  { apply IH.
    - intros x Hx. apply Hw. right. exact Hx.
    - destruct Ht as [Ht|Ht]; [left; exact Ht|right; inversion Ht; assumption]. }
  destruct (listing_row rawmode fname iw lw e); [|congruence].
  destruct (listing_rows rawmode fname iw lw es); [discriminate|congruence].
Qed.

Theorem listing_total : listing_total_stmt.
Proof.
  intros rawmode fname es Ht. unfold listing_text. apply rows_total; [|exact Ht].
  intros e Hin. split; [apply idx_width_ge, Hin|apply loc_width_ge, Hin].
Qed.

Lemma enumerate_snd {A} : forall (l : list A) i, map snd (enumerate_from i l) = l.
Proof.
  induction l as [|x l IH]; intro i; cbn [enumerate_from map snd]; [reflexivity|]. rewrite IH. reflexivity.
Qed.

Lemma enumerate_in {A} (l : list A) i e : In e (enumerate_from i l) -> In (snd e) l.
Proof. intro H. rewrite <- (enumerate_snd l i). apply in_map, H. Qed.

Theorem check_listing_total : check_listing_total_stmt.
Proof.
  intros fname text. unfold check_listing. apply listing_total. right.
  apply Forall_forall. intros e Hin. apply enumerate_in in Hin.
  pose proof (OptAll.parse_kinds_ok text (snd e) Hin) as K. lia.
Qed.

(* ====================================================================================================== *)
(* Part 2: the text determines the commands                                                                  *)
(* ====================================================================================================== *)

(* a block of characters with property P followed by one without: the split point is determined *)
Lemma pref_split (P : N -> Prop) : forall l1 l2 x y r1 r2,
  Forall P l1 -> Forall P l2 -> ~ P x -> ~ P y ->
  l1 ++ x :: r1 = l2 ++ y :: r2 -> l1 = l2 /\ x :: r1 = y :: r2.
Proof.
  induction l1 as [|a l1 IH]; intros l2 x y r1 r2 F1 F2 Nx Ny H; destruct l2 as [|b l2]; cbn [app] in H.
  - auto.
  - exfalso. injection H as H _. subst b. inversion F2; auto.
  - exfalso. injection H as H _. subst a. inversion F1; auto.
  - injection H as Hx Hr. subst b.
    inversion F1 as [|? ? _ F1']; subst. inversion F2 as [|? ? _ F2']; subst.
    destruct (IH l2 x y r1 r2 F1' F2' Nx Ny Hr) as (-> & E). auto.
Qed.

Lemma pref_numeral a b x y r1 r2 : ~ is_digit x -> ~ is_digit y ->
  dec_N a ++ x :: r1 = dec_N b ++ y :: r2 -> a = b /\ x :: r1 = y :: r2.
Proof.
  intros Nx Ny H.
  destruct (pref_split is_digit _ _ _ _ _ _ (dec_N_is_digit a) (dec_N_is_digit b) Nx Ny H) as (E & R).
  split; [apply dec_N_injective, E|exact R].
Qed.

Definition is_sp (c : N) : Prop := c = 32.
Definition not_nl (c : N) : Prop := c <> 10.

Lemma spaces_sp p : Forall is_sp (spaces p).
Proof. unfold spaces. induction (N.to_nat p) as [|n IH]; cbn [repeat]; constructor; [reflexivity|exact IH]. Qed.

Lemma spaces_cons p r : spaces p ++ 32 :: r = 32 :: spaces p ++ r.
Proof.
  unfold spaces. induction (N.to_nat p) as [|n IH]; cbn [repeat app]; [reflexivity|]. rewrite IH. reflexivity.
Qed.

(* the shape of a row *)
Definition row_of (fname : list N) (i p1 l k p2 : N) (tl : list N) : list N :=
  dec_N i ++ spaces p1 ++ [32; 124; 32] ++ fname ++ [58] ++ dec_N l ++ [58] ++ dec_N k ++ spaces p2 ++ [32; 32] ++ tl ++ [10].

Lemma row_of_flat fname i p1 l k p2 tl rest :
  row_of fname i p1 l k p2 tl ++ rest =
  dec_N i ++ 32 :: spaces p1 ++ 124 :: 32 :: fname ++ 58 :: dec_N l ++ 58 :: dec_N k ++ 32 :: 32 :: spaces p2 ++ tl ++ 10 :: rest.
Proof.
  unfold row_of. repeat rewrite <- app_assoc. cbn [app].
  rewrite (spaces_cons p1). rewrite (spaces_cons p2). rewrite (spaces_cons p2). reflexivity.
Qed.

Lemma row_of_nonnil fname i p1 l k p2 tl rest : row_of fname i p1 l k p2 tl ++ rest <> [].
Proof.
  rewrite row_of_flat. intro H. apply app_eq_nil in H. destruct H as [H _].
  exact (proj1 (dec_N_digits i) H).
Qed.

Lemma row_inj fname i p1 l k p2 ch tl rest i' p1' l' k' p2' ch' tl' rest' :
  ch <> 32 -> ch' <> 32 -> Forall not_nl (ch :: tl) -> Forall not_nl (ch' :: tl') ->
  row_of fname i p1 l k p2 (ch :: tl) ++ rest = row_of fname i' p1' l' k' p2' (ch' :: tl') ++ rest' ->
  i = i' /\ l = l' /\ k = k' /\ ch :: tl = ch' :: tl' /\ rest = rest'.
Proof.
  intros C C' F F' H. rewrite !row_of_flat in H.
  apply pref_numeral in H; [|unfold is_digit; lia|unfold is_digit; lia].
  destruct H as (Ei & H). injection H as H.
  apply (pref_split is_sp) in H; [|apply spaces_sp|apply spaces_sp|unfold is_sp; lia|unfold is_sp; lia].
  destruct H as (_ & H). injection H as H.
  apply app_inv_head in H. injection H as H.
  apply pref_numeral in H; [|unfold is_digit; lia|unfold is_digit; lia].
  destruct H as (El & H). injection H as H.
  apply pref_numeral in H; [|unfold is_digit; lia|unfold is_digit; lia].
  destruct H as (Ek & H). injection H as H.
  cbn [app] in H.
  apply (pref_split is_sp) in H; [|apply spaces_sp|apply spaces_sp|exact C|exact C'].
  destruct H as (_ & H).
  change (ch :: tl ++ 10 :: rest) with ((ch :: tl) ++ 10 :: rest) in H.
  change (ch' :: tl' ++ 10 :: rest') with ((ch' :: tl') ++ 10 :: rest') in H.
  apply (pref_split not_nl) in H; [|exact F|exact F'|unfold not_nl; lia|unfold not_nl; lia].
  destruct H as (Et & H). injection H as H.
  auto.
Qed.

(* ---------- characters of the tail ---------- *)
Lemma single_hangul k : k < 6 -> 44032 <= nth (N.to_nat k) SINGLE 0.
Proof.
  intro L.
  assert (C : k = 0 \/ k = 1 \/ k = 2 \/ k = 3 \/ k = 4 \/ k = 5) by lia.
  destruct C as [->|[->|[->|[->|[->| ->]]]]]; vm_compute; discriminate.
Qed.

Lemma area_chars_not_nl : Forall not_nl ([CH_Q; CH_BANG] ++ HEARTS).
Proof. unfold CH_Q, CH_BANG, HEARTS, not_nl. cbn [app]. repeat constructor; discriminate. Qed.

Lemma area_char_not_nl t : not_nl (area_char t).
Proof.
  unfold area_char.
  destruct (nth_in_or_default (N.to_nat t) ([CH_Q; CH_BANG] ++ HEARTS) 0) as [H|H].
  - exact (proj1 (Forall_forall _ _) area_chars_not_nl _ H).
  - rewrite H. unfold not_nl. discriminate.
Qed.

Lemma area_display_not_nl : forall a, Forall not_nl (area_display a).
Proof.
  induction a as [|t l IHl r IHr]; cbn [area_display].
  - constructor; [unfold not_nl, CH_US; discriminate|constructor].
  - destruct (t <=? 1).
    + repeat (apply Forall_app; split); try assumption;
        (constructor; [|constructor]); try apply area_char_not_nl; unfold not_nl, CH_LB, CH_RB; discriminate.
    + constructor; [apply area_char_not_nl|constructor].
Qed.

Lemma digits_not_nl a : Forall not_nl (dec_N a).
Proof.
  eapply Forall_impl; [|apply dec_N_is_digit]. intros c D. unfold is_digit in D. unfold not_nl. lia.
Qed.

Lemma listing_line_cons k n d a :
  listing_line k n d a = nth (N.to_nat k) SINGLE 0 :: (CH_US :: dec_N n ++ CH_US :: dec_N d ++ CH_SP :: area_display a).
Proof. reflexivity. Qed.

Lemma listing_tail_not_nl n d a : Forall not_nl (CH_US :: dec_N n ++ CH_US :: dec_N d ++ CH_SP :: area_display a).
Proof.
  constructor; [unfold not_nl, CH_US; discriminate|].
  apply Forall_app; split; [apply digits_not_nl|].
  constructor; [unfold not_nl, CH_US; discriminate|].
  apply Forall_app; split; [apply digits_not_nl|].
  constructor; [unfold not_nl, CH_SP; discriminate|].
  apply area_display_not_nl.
Qed.

(* ---------- a row of the model has the shape row_of, its tail being the listing line of ListingSpec ---------- *)
Lemma row_shape fname iw lw i c a :
  listing_row false fname iw lw (i, c) = Some a ->
  exists p1 p2, a = row_of fname i p1 (fst (loc c)) (snd (loc c)) p2 (listing_line (ty c) (hc c) (dc c) (ar c)).
Proof.
  unfold listing_row. destruct (loc c) as [l k]. cbn [fst snd].
  destruct (usub iw (dlen i)) as [p1|]; [|discriminate].
  destruct (usub lw (dlen l)) as [q|]; [|discriminate].
  destruct (usub q (dlen k)) as [p2|]; [|discriminate].
  unfold entry_tail.
  destruct (nth_error SINGLE (N.to_nat (ty c))) as [ch|] eqn:E; [|discriminate].
  intro H. injection H as <-. exists p1, p2.
  apply (nth_error_nth _ _ 0) in E. subst ch. reflexivity.
Qed.

Definition key (e : N * ucode) : N * (N * N * N * (N * N) * area) := (fst e, info (snd e)).

Lemma rows_head_determine fname i c i' c' p1 p2 p1' p2' rest rest' :
  cmd_ok c -> cmd_ok c' ->
  row_of fname i p1 (fst (loc c)) (snd (loc c)) p2 (listing_line (ty c) (hc c) (dc c) (ar c)) ++ rest =
  row_of fname i' p1' (fst (loc c')) (snd (loc c')) p2' (listing_line (ty c') (hc c') (dc c') (ar c')) ++ rest' ->
  key (i, c) = key (i', c') /\ rest = rest'.
Proof.
  intros (L & G & W) (L' & G' & W') H.
  pose proof (single_hangul (ty c) L) as S. pose proof (single_hangul (ty c') L') as S'.
  rewrite (listing_line_cons (ty c)), (listing_line_cons (ty c')) in H.
  apply row_inj in H.
  - destruct H as (Ei & El & Ek & Et & Er).
    rewrite <- !listing_line_cons in Et.
    apply listing_injective in Et; try assumption.
    destruct Et as (E1 & E2 & E3 & E4).
    split; [|exact Er]. unfold key, info. cbn [fst snd].
    rewrite Ei, E1, E2, E3, E4.
    rewrite (surjective_pairing (loc c)), (surjective_pairing (loc c')), El, Ek. reflexivity.
  - lia.
  - lia.
  - constructor; [unfold not_nl; lia|apply listing_tail_not_nl].
  - constructor; [unfold not_nl; lia|apply listing_tail_not_nl].
Qed.

Lemma rows_determine fname : forall es es' iw lw iw' lw' t,
  Forall (fun e => cmd_ok (snd e)) es -> Forall (fun e => cmd_ok (snd e)) es' ->
  listing_rows false fname iw lw es = Some t -> listing_rows false fname iw' lw' es' = Some t ->
  map key es = map key es'.
Proof.
  induction es as [|[i c] es IH]; intros es' iw lw iw' lw' t F F' H H'; destruct es' as [|[i' c'] es'].
  - reflexivity.
  - exfalso. cbn [listing_rows] in H, H'. injection H as <-.
    destruct (listing_row false fname iw' lw' (i', c')) as [a|] eqn:R; [|discriminate].
    destruct (listing_rows false fname iw' lw' es') as [b|]; [|discriminate].
    injection H' as H'. destruct (row_shape _ _ _ _ _ _ R) as (p1 & p2 & ->).
    exact (row_of_nonnil _ _ _ _ _ _ _ _ H').
  - exfalso. cbn [listing_rows] in H, H'. injection H' as <-.
    destruct (listing_row false fname iw lw (i, c)) as [a|] eqn:R; [|discriminate].
    destruct (listing_rows false fname iw lw es) as [b|]; [|discriminate].
    injection H as H. destruct (row_shape _ _ _ _ _ _ R) as (p1 & p2 & ->).
    exact (row_of_nonnil _ _ _ _ _ _ _ _ H).
  - cbn [listing_rows] in H, H'.
    destruct (listing_row false fname iw lw (i, c)) as [a|] eqn:R; [|discriminate].
    destruct (listing_rows false fname iw lw es) as [b|] eqn:Rs; [|discriminate].
    destruct (listing_row false fname iw' lw' (i', c')) as [a'|] eqn:R'; [|discriminate].
    destruct (listing_rows false fname iw' lw' es') as [b'|] eqn:Rs'; [|discriminate].
    injection H as H. injection H' as H'. rewrite <- H in H'. clear H.
    destruct (row_shape _ _ _ _ _ _ R) as (p1 & p2 & ->).
    destruct (row_shape _ _ _ _ _ _ R') as (p1' & p2' & ->).
    inversion F as [|? ? Fc Fr]; subst. inversion F' as [|? ? Fc' Fr']; subst. cbn [snd] in Fc, Fc'.
    symmetry in H'.
    destruct (rows_head_determine _ _ _ _ _ _ _ _ _ _ _ Fc Fc' H') as (Ek & Eb). subst b'.
    cbn [map]. rewrite Ek. f_equal.
    exact (IH es' iw lw iw' lw' b Fr Fr' Rs Rs').
Qed.

Theorem listing_determines : listing_determines_stmt.
Proof.
  intros fname es es' t _ F F' H H'. unfold listing_text in H, H'.
  exact (rows_determine fname es es' _ _ _ _ t F F' H H').
Qed.

Lemma parse_cmd_ok text : Forall (fun e : N * ucode => cmd_ok (snd e)) (enumerate_from 0 (parse text)).
Proof.
  apply Forall_forall. intros e Hin. apply enumerate_in in Hin. unfold cmd_ok. split; [|split].
  - pose proof (OptAll.parse_kinds_ok text (snd e) Hin) as K. lia.
  - exact (ParseAll.parse_area_shape_t text (snd e) Hin).
  - exact (ParseAll.parse_area_well_typed text (snd e) Hin).
Qed.

Lemma map_info_enumerate text : map info (parse text) = map snd (map key (enumerate_from 0 (parse text))).
Proof.
  rewrite map_map. rewrite <- (enumerate_snd (parse text) 0) at 1. rewrite map_map. reflexivity.
Qed.

Theorem check_listing_determines : check_listing_determines_stmt.
Proof.
  intros fname text text' Hf H.
  destruct (check_listing fname text) as [t|] eqn:E; [|exfalso; exact (check_listing_total fname text E)].
  symmetry in H. unfold check_listing in E, H.
  pose proof (listing_determines fname _ _ t Hf (parse_cmd_ok text) (parse_cmd_ok text') E H) as K.
  rewrite (map_info_enumerate text), (map_info_enumerate text'). unfold key. rewrite K. reflexivity.
Qed.

Print Assumptions listing_total.
Print Assumptions check_listing_total.
Print Assumptions listing_determines.
Print Assumptions check_listing_determines.
