(* Every text is in the grammar (decompose), the canonical writing, re-parsing of raw texts. *)
From Coq Require Import List NArith Lia Bool.
Import ListNotations.
From HV Require Import Model.Chars Model.Parse Spec.Grammar Proofs.ParseSpec.
Open Scope N_scope.

Local Notation nst := (fun (x : N) (a : list N) => negb (starts x a)).
Local Notation nsa := (fun (x : N) (a : list N) => negb (starts x a) && negb (is_areach x)).

(* ---------------------------------------------------------------- generic list facts *)
Lemma all_ctx_app p l1 l2 after :
  all_ctx p (l1 ++ l2) after = all_ctx p l1 (l2 ++ after) && all_ctx p l2 after.
Proof.
  induction l1 as [|a l1 IH]; cbn [all_ctx app].
  - reflexivity.
  - rewrite IH, <- app_assoc, andb_assoc. reflexivity.
Qed.

Lemma all_ctx_forall (p : N -> list N -> bool) l after :
  (forall x, In x l -> forall a, p x a = true) -> all_ctx p l after = true.
Proof.
  induction l as [|a l IH]; intros H; cbn [all_ctx].
  - reflexivity.
  - rewrite (H a (or_introl eq_refl)), IH; [reflexivity|].
    intros x Hx; apply H; right; exact Hx.
Qed.

Lemma flat_cmds_app l1 l2 : flat_cmds (l1 ++ l2) = flat_cmds l1 ++ flat_cmds l2.
Proof. unfold flat_cmds. apply flat_map_app. Qed.

Lemma forallb_rev {A} (f : A -> bool) l : forallb f (rev l) = forallb f l.
Proof.
  induction l as [|a l IH]; cbn [rev forallb].
  - reflexivity.
  - rewrite forallb_app, IH. cbn [forallb]. rewrite andb_true_r, andb_comm. reflexivity.
Qed.

(* validity of a command list that is followed by more text *)
Fixpoint valid_cmds_a (cs : list ccmd) (after : list N) : bool :=
  match cs with
  | [] => true
  | c :: r => valid_cmd c (flat_cmds r ++ after) && valid_cmds_a r after
  end.

Lemma valid_cmds_a_nil cs : valid_cmds_a cs [] = valid_cmds cs.
Proof.
  induction cs as [|c r IH]; cbn [valid_cmds_a valid_cmds].
  - reflexivity.
  - rewrite IH, app_nil_r. reflexivity.
Qed.

Lemma valid_cmds_a_app l1 l2 after :
  valid_cmds_a (l1 ++ l2) after = valid_cmds_a l1 (flat_cmds l2 ++ after) && valid_cmds_a l2 after.
Proof.
  induction l1 as [|c l1 IH]; cbn [valid_cmds_a app].
  - reflexivity.
  - rewrite IH, flat_cmds_app, <- app_assoc, andb_assoc. reflexivity.
Qed.

(* ---------------------------------------------------------------- the scanner invariant *)
Definition nk (k : N) : N -> bool :=
  fun x => match end_class x with Some j => negb (j =? k) | None => true end.

Definition pend (s : dst) : list N :=
  match dmode_ s with
  | DPrefix => []
  | DInner _ => dstart s :: rev (dinner s)
  | _ => flat_head (dhead s) ++ rev (ddots s) ++ rev (darea s)
  end.
Definition dtext (s : dst) : list N := rev (dpre s) ++ flat_cmds (rev (ddone s)) ++ pend s.

Definition minv (s : dst) (rest : list N) : Prop :=
  match dmode_ s with
  | DPrefix => ddone s = []
  | DInner k => later_end k rest = true /\ index_of (dstart s) START = Some k
                /\ forallb (nk k) (dinner s) = true
  | DDots => darea s = [] /\ valid_head (dhead s) = true /\ all_ctx nsa (rev (ddots s)) rest = true
  | DArea => valid_head (dhead s) = true
             /\ all_ctx nsa (rev (ddots s)) (rev (darea s) ++ rest) = true
             /\ match rev (darea s) with [] => false | x :: _ => is_areach x end = true
             /\ all_ctx nst (rev (darea s)) rest = true
  end.
Definition inv (s : dst) (rest : list N) : Prop :=
  all_ctx nst (rev (dpre s)) (flat_cmds (rev (ddone s)) ++ pend s ++ rest) = true
  /\ valid_cmds_a (rev (ddone s)) (pend s ++ rest) = true
  /\ minv s rest.

Ltac listeq :=
  unfold flat_cmds, flat_cmd;
  cbn [flat_head flat_map chead cdotitems careaitems rev app];
  repeat (rewrite ?app_nil_r, <- ?app_assoc; cbn [app]); try reflexivity.

Lemma dclose_text s :
  match dmode_ s with DInner _ => False | _ => True end ->
  flat_cmds (rev (dclose s)) = flat_cmds (rev (ddone s)) ++ pend s.
Proof.
  destruct s as [pre done m st inn hd dots ar]. unfold dclose, pend.
  cbn [dmode_ dpre ddone dstart dinner dhead ddots darea].
  destruct m; intros H; try contradiction.
  - rewrite app_nil_r. reflexivity.
  - cbn [rev]. rewrite flat_cmds_app. listeq.
  - cbn [rev]. rewrite flat_cmds_app. listeq.
Qed.

Lemma dclose_valid s c rest :
  match dmode_ s with DInner _ => False | _ => True end ->
  valid_cmds_a (rev (ddone s)) (pend s ++ c :: rest) = true ->
  minv s (c :: rest) ->
  valid_cmds_a (rev (dclose s)) (c :: rest) = true.
Proof.
  destruct s as [pre done m st inn hd dots ar]. unfold dclose, pend, minv.
  cbn [dmode_ dpre ddone dstart dinner dhead ddots darea].
  destruct m; intros H P2 P3; try contradiction.
  - exact P2.
  - destruct P3 as (-> & Hh & Hd).
    cbn [rev]. rewrite valid_cmds_a_app. apply andb_true_iff. split.
    + rewrite <- P2. f_equal. listeq.
    + cbn [valid_cmds_a flat_cmds flat_map app]. rewrite andb_true_r.
      unfold valid_cmd. cbn [chead cdotitems careaitems rev app all_ctx].
      rewrite Hh, Hd. reflexivity.
  - destruct P3 as (Hh & Hd & Hf & Ha).
    cbn [rev]. rewrite valid_cmds_a_app. apply andb_true_iff. split.
    + rewrite <- P2. f_equal. listeq.
    + cbn [valid_cmds_a flat_cmds flat_map app]. rewrite andb_true_r.
      unfold valid_cmd. cbn [chead cdotitems careaitems app].
      rewrite Hh, Hd, Ha. cbn [andb].
      destruct (rev ar); [discriminate Hf | rewrite Hf; reflexivity].
Qed.

Lemma starts_cases c rest :
  starts c rest = true ->
  (exists i, index_of c SINGLE = Some i) \/
  (index_of c SINGLE = None /\ exists k, index_of c START = Some k /\ later_end k rest = true).
Proof.
  unfold starts. destruct (index_of c SINGLE) as [i|].
  - intros _. left. exists i. reflexivity.
  - destruct (index_of c START) as [k|]; [|discriminate].
    intros H. right. split; [reflexivity|]. exists k. split; [reflexivity|exact H].
Qed.

Lemma later_end_cons k c rest :
  later_end k (c :: rest) = (match end_class c with Some j => j =? k | None => false end) || later_end k rest.
Proof. reflexivity. Qed.

Definition not_inner (s : dst) : Prop := match dmode_ s with DInner _ => False | _ => True end.

Lemma dstep_start_eq s c rest :
  not_inner s -> starts c rest = true ->
  dstep s c rest =
  match index_of c SINGLE, index_of c START with
  | Some _, _ => mkdst (dpre s) (dclose s) DDots 0 [] (HSingle c) [] []
  | None, Some k => mkdst (dpre s) (dclose s) (DInner k) c [] (HSingle 0) [] []
  | None, None => s
  end.
Proof.
  unfold not_inner, dstep. destruct (dmode_ s); intros H Hs; try contradiction; rewrite Hs; reflexivity.
Qed.

Lemma dstep_start_inv s c rest :
  not_inner s -> starts c rest = true -> inv s (c :: rest) ->
  inv (dstep s c rest) rest /\ dtext (dstep s c rest) = dtext s ++ [c].
Proof.
  intros Hni Hs (P1 & P2 & P3).
  pose proof (dclose_text s Hni) as HT. pose proof (dclose_valid s c rest Hni P2 P3) as HV.
  rewrite (dstep_start_eq s c rest Hni Hs).
  destruct (starts_cases _ _ Hs) as [[i Hi]|[Hn [k [Hk Hl]]]].
  - rewrite Hi. unfold inv, minv, dtext, pend.
    cbn [dmode_ dpre ddone dstart dinner dhead ddots darea]. rewrite HT.
    repeat split.
    + rewrite <- P1. f_equal. listeq.
    + rewrite <- HV. f_equal.
    + unfold valid_head. rewrite Hi. reflexivity.
    + unfold dtext. listeq.
  - rewrite Hn, Hk. unfold inv, minv, dtext, pend.
    cbn [dmode_ dpre ddone dstart dinner dhead ddots darea]. rewrite HT.
    repeat split.
    + rewrite <- P1. f_equal. listeq.
    + rewrite <- HV. f_equal.
    + exact Hl.
    + exact Hk.
    + unfold dtext. listeq.
Qed.

Lemma dstep_inv s c rest :
  inv s (c :: rest) ->
  inv (dstep s c rest) rest /\ dtext (dstep s c rest) = dtext s ++ [c].
Proof.
  intros Hinv.
  destruct (dmode_ s) as [|k| |] eqn:Em.
  - (* DPrefix *)
    destruct (starts c rest) eqn:Hs.
    { apply dstep_start_inv; [unfold not_inner; rewrite Em; exact I | exact Hs | exact Hinv]. }
    destruct Hinv as (P1 & P2 & P3).
    destruct s as [pre done m st inn hd dots ar].
    unfold inv, minv, dtext, pend, dstep in *.
    cbn [dmode_ dpre ddone dstart dinner dhead ddots darea] in *. subst m.
    rewrite Hs. cbn [dmode_ dpre ddone dstart dinner dhead ddots darea].
    subst done. cbn [rev flat_cmds flat_map app] in *.
    repeat split.
    + rewrite all_ctx_app. cbn [all_ctx app]. rewrite P1, Hs. reflexivity.
    + listeq.
  - (* DInner *)
    destruct Hinv as (P1 & P2 & P3).
    destruct s as [pre done m st inn hd dots ar].
    unfold inv, minv, dtext, pend, dstep in *.
    cbn [dmode_ dpre ddone dstart dinner dhead ddots darea] in *. subst m.
    destruct P3 as (Hl & Hst & Hin). rewrite later_end_cons in Hl.
    destruct (end_class c) as [j|] eqn:Ec; [destruct (j =? k) eqn:Ejk|].
    + cbn [dmode_ dpre ddone dstart dinner dhead ddots darea].
      repeat split.
      * rewrite <- P1. f_equal. listeq.
      * rewrite <- P2. f_equal. listeq.
      * unfold valid_head. rewrite Hst, Ec. apply N.eqb_eq in Ejk. subst j.
        rewrite N.eqb_refl, forallb_rev. exact Hin.
      * listeq.
    + cbn [dmode_ dpre ddone dstart dinner dhead ddots darea].
      cbn [orb] in Hl.
      repeat split.
      * rewrite <- P1. f_equal. listeq.
      * rewrite <- P2. f_equal. listeq.
      * exact Hl.
      * exact Hst.
      * cbn [forallb]. unfold nk at 1. rewrite Ec, Ejk, Hin. reflexivity.
      * listeq.
    + cbn [dmode_ dpre ddone dstart dinner dhead ddots darea].
      cbn [orb] in Hl.
      repeat split.
      * rewrite <- P1. f_equal. listeq.
      * rewrite <- P2. f_equal. listeq.
      * exact Hl.
      * exact Hst.
      * cbn [forallb]. unfold nk at 1. rewrite Ec, Hin. reflexivity.
      * listeq.
  - (* DDots *)
    destruct (starts c rest) eqn:Hs.
    { apply dstep_start_inv; [unfold not_inner; rewrite Em; exact I | exact Hs | exact Hinv]. }
    destruct Hinv as (P1 & P2 & P3).
    destruct s as [pre done m st inn hd dots ar].
    unfold inv, minv, dtext, pend, dstep in *.
    cbn [dmode_ dpre ddone dstart dinner dhead ddots darea] in *. subst m.
    rewrite Hs. destruct P3 as (-> & Hh & Hd).
    destruct (is_areach c) eqn:Ea;
      cbn [dmode_ dpre ddone dstart dinner dhead ddots darea].
    + repeat split.
      * rewrite <- P1. f_equal. listeq.
      * rewrite <- P2. f_equal. listeq.
      * exact Hh.
      * rewrite <- Hd. f_equal.
      * exact Ea.
      * cbn [rev app all_ctx]. rewrite Hs. reflexivity.
      * listeq.
    + repeat split.
      * rewrite <- P1. f_equal. listeq.
      * rewrite <- P2. f_equal. listeq.
      * exact Hh.
      * cbn [rev]. rewrite all_ctx_app. cbn [all_ctx app]. rewrite Hd, Hs, Ea. reflexivity.
      * listeq.
  - (* DArea *)
    destruct (starts c rest) eqn:Hs.
    { apply dstep_start_inv; [unfold not_inner; rewrite Em; exact I | exact Hs | exact Hinv]. }
    destruct Hinv as (P1 & P2 & P3).
    destruct s as [pre done m st inn hd dots ar].
    unfold inv, minv, dtext, pend, dstep in *.
    cbn [dmode_ dpre ddone dstart dinner dhead ddots darea] in *. subst m.
    rewrite Hs. destruct P3 as (Hh & Hd & Hf & Ha).
    cbn [dmode_ dpre ddone dstart dinner dhead ddots darea].
    repeat split.
    + rewrite <- P1. f_equal. listeq.
    + rewrite <- P2. f_equal. listeq.
    + exact Hh.
    + rewrite <- Hd. f_equal. listeq.
    + cbn [rev]. destruct (rev ar); [discriminate Hf | exact Hf].
    + cbn [rev]. rewrite all_ctx_app. cbn [all_ctx app]. rewrite Ha, Hs. reflexivity.
    + listeq.
Qed.

Lemma dscan_inv rest : forall s,
  inv s rest -> inv (dscan rest s) [] /\ dtext (dscan rest s) = dtext s ++ rest.
Proof.
  induction rest as [|c rest IH]; intros s Hinv; cbn [dscan].
  - split; [exact Hinv | rewrite app_nil_r; reflexivity].
  - destruct (dstep_inv s c rest Hinv) as [Hi Ht].
    destruct (IH _ Hi) as [Hi' Ht']. split; [exact Hi'|].
    rewrite Ht', Ht, <- app_assoc. reflexivity.
Qed.

Lemma inv0 text : inv dst0 text.
Proof. unfold inv, minv, dst0. cbn. repeat split. Qed.

Lemma inv_final s : inv s [] ->
  not_inner s /\ flatten (mkcst (rev (dpre s)) (rev (dclose s))) = dtext s
  /\ valid (mkcst (rev (dpre s)) (rev (dclose s))) = true.
Proof.
  intros (P1 & P2 & P3).
  assert (Hni : not_inner s).
  { unfold not_inner, minv in *. destruct (dmode_ s); try exact I.
    destruct P3 as [H _]. discriminate H. }
  split; [exact Hni|].
  pose proof (dclose_text s Hni) as HT.
  unfold flatten, valid, dtext. cbn [cprefix ccmds]. rewrite HT. split; [reflexivity|].
  rewrite app_nil_r in P1. rewrite P1. cbn [andb].
  rewrite <- valid_cmds_a_nil.
  destruct s as [pre done m st inn hd dots ar].
  unfold dclose, pend, minv, not_inner in *.
  cbn [dmode_ dpre ddone dstart dinner dhead ddots darea] in *.
  destruct m; try contradiction.
  - exact P2.
  - destruct P3 as (-> & Hh & Hd).
    cbn [rev]. rewrite valid_cmds_a_app. apply andb_true_iff. split.
    + rewrite <- P2. f_equal. listeq.
    + cbn [valid_cmds_a flat_cmds flat_map app]. rewrite andb_true_r.
      unfold valid_cmd. cbn [chead cdotitems careaitems rev app all_ctx].
      rewrite Hh, Hd. reflexivity.
  - destruct P3 as (Hh & Hd & Hf & Ha).
    cbn [rev]. rewrite valid_cmds_a_app. apply andb_true_iff. split.
    + rewrite <- P2. f_equal. listeq.
    + cbn [valid_cmds_a flat_cmds flat_map app]. rewrite andb_true_r.
      unfold valid_cmd. cbn [chead cdotitems careaitems app].
      rewrite Hh, Hd, Ha. cbn [andb].
      destruct (rev ar); [discriminate Hf | rewrite Hf; reflexivity].
Qed.

Theorem decompose_flatten : decompose_flatten_stmt.
Proof.
  intros text. unfold decompose.
  destruct (dscan_inv text dst0 (inv0 text)) as [Hi Ht].
  destruct (inv_final _ Hi) as (_ & Hf & _).
  cbv zeta. rewrite Hf, Ht. reflexivity.
Qed.
Print Assumptions decompose_flatten.

Theorem decompose_valid : decompose_valid_stmt.
Proof.
  intros text. unfold decompose.
  destruct (dscan_inv text dst0 (inv0 text)) as [Hi Ht].
  destruct (inv_final _ Hi) as (_ & _ & Hv).
  exact Hv.
Qed.
Print Assumptions decompose_valid.

(* ---------------------------------------------------------------- character facts *)
Definition areachP (x : N) : Prop := is_areach x = true.
Definition dotP (x : N) : Prop := is_dot x = true.

Lemma index_from_In c l : forall i k, index_from c l i = Some k -> In c l.
Proof.
  induction l as [|x l IH]; intros i k H; cbn [index_from] in H.
  - discriminate.
  - destruct (x =? c) eqn:E.
    + apply N.eqb_eq in E. left. exact E.
    + right. exact (IH _ _ H).
Qed.

Lemma starts_false c a : index_of c SINGLE = None -> index_of c START = None -> starts c a = false.
Proof. intros H1 H2. unfold starts. rewrite H1, H2. reflexivity. Qed.

Lemma areach_cases c : is_areach c = true -> In c ([CH_Q; CH_BANG] ++ HEARTS).
Proof.
  unfold is_areach. intros H.
  apply orb_true_iff in H. destruct H as [H|H].
  - apply orb_true_iff in H. destruct H as [H|H]; apply N.eqb_eq in H; subst c.
    + left. reflexivity.
    + right. left. reflexivity.
  - right. right. unfold is_heart in H.
    destruct (index_of c HEARTS) eqn:E; [|discriminate].
    exact (index_from_In _ _ _ _ E).
Qed.

Lemma areach_nostart c a : is_areach c = true -> starts c a = false.
Proof.
  intros H. apply areach_cases in H. unfold CH_Q, CH_BANG, HEARTS in H. cbn [In app] in H.
  repeat (destruct H as [H|H]; [subst c; apply starts_false; reflexivity|]).
  contradiction.
Qed.

Lemma dot_cases c : is_dot c = true -> c = 46 \/ c = 8230 \/ c = 8943 \/ c = 8942.
Proof.
  unfold is_dot. intros H.
  repeat (apply orb_true_iff in H; destruct H as [H|H]); apply N.eqb_eq in H; auto.
Qed.

Lemma dot_nostart c a : is_dot c = true -> starts c a = false.
Proof.
  intros H. apply dot_cases in H.
  destruct H as [H|[H|[H|H]]]; subst c; apply starts_false; reflexivity.
Qed.

Lemma dot_nareach c : is_dot c = true -> is_areach c = false.
Proof.
  intros H. apply dot_cases in H.
  destruct H as [H|[H|[H|H]]]; subst c; reflexivity.
Qed.

Lemma filter_all {A} (f : A -> bool) l : Forall (fun x => f x = true) l -> filter f l = l.
Proof.
  induction 1 as [|x l Hx _ IH]; cbn [filter].
  - reflexivity.
  - rewrite Hx, IH. reflexivity.
Qed.

Lemma filter_Forall {A} (f : A -> bool) l : Forall (fun x => f x = true) (filter f l).
Proof.
  induction l as [|x l IH]; cbn [filter].
  - constructor.
  - destruct (f x) eqn:E; [constructor; assumption | assumption].
Qed.

Lemma filter_idem {A} (f : A -> bool) l : filter f (filter f l) = filter f l.
Proof. apply filter_all, filter_Forall. Qed.

Lemma forallb_filter {A} (f g : A -> bool) l : forallb f l = true -> forallb f (filter g l) = true.
Proof.
  induction l as [|x l IH]; cbn [filter forallb]; intros H.
  - reflexivity.
  - apply andb_true_iff in H. destruct H as [H1 H2].
    destruct (g x); cbn [forallb]; [rewrite H1|]; auto.
Qed.

(* a command whose dot items are dots and whose area items are area characters is valid anywhere *)
Lemma valid_cmd_clean h ds ar after :
  valid_head h = true -> Forall dotP ds -> Forall areachP ar ->
  valid_cmd (mkccmd h ds ar) after = true.
Proof.
  intros Hh Hd Ha. unfold valid_cmd. cbn [chead cdotitems careaitems].
  rewrite Hh. cbn [andb].
  rewrite all_ctx_forall.
  2:{ intros x Hx a. rewrite Forall_forall in Hd. specialize (Hd x Hx).
      rewrite (dot_nostart _ _ Hd), (dot_nareach _ Hd). reflexivity. }
  rewrite all_ctx_forall.
  2:{ intros x Hx a. rewrite Forall_forall in Ha. specialize (Ha x Hx).
      rewrite (areach_nostart _ _ Ha). reflexivity. }
  destruct Ha as [|x l Hx _]; [reflexivity|]. rewrite Hx. reflexivity.
Qed.

(* ---------------------------------------------------------------- the canonical writing *)
Definition ok_slot (s : slot) : bool := match s with Some t => (2 <=? t) && (t <=? 13) | None => true end.

Lemma Forall_flat_map_intro {A B} (P : B -> Prop) (f : A -> list B) l :
  (forall x, In x l -> Forall P (f x)) -> Forall P (flat_map f l).
Proof.
  induction l as [|x l IH]; intros H; cbn [flat_map].
  - constructor.
  - apply Forall_app. split.
    + apply H. left. reflexivity.
    + apply IH. intros y Hy. apply H. right. exact Hy.
Qed.

Lemma heart_char_areach t : 2 <= t -> t <= 13 -> is_areach (heart_char t) = true.
Proof.
  intros H1 H2.
  assert (H : t = 2 \/ t = 3 \/ t = 4 \/ t = 5 \/ t = 6 \/ t = 7 \/ t = 8 \/ t = 9 \/ t = 10
              \/ t = 11 \/ t = 12 \/ t = 13) by lia.
  repeat (destruct H as [H|H]; [subst t; reflexivity|]). subst t; reflexivity.
Qed.

Lemma slot_text_areach s : ok_slot s = true -> Forall areachP (slot_text s).
Proof.
  destruct s as [t|]; cbn [ok_slot slot_text]; intros H.
  - apply andb_true_iff in H. destruct H as [H1 H2].
    apply N.leb_le in H1. apply N.leb_le in H2.
    constructor; [apply heart_char_areach; assumption | constructor].
  - constructor.
Qed.

Lemma gbang_text_areach (b : gbang) :
  forallb ok_slot (snd b :: fst b) = true -> Forall areachP (gbang_text b).
Proof.
  cbn [forallb]. intros H. apply andb_true_iff in H. destruct H as [H1 H2].
  unfold gbang_text. apply Forall_app. split.
  - apply Forall_flat_map_intro. intros s Hs. apply Forall_app. split.
    + apply slot_text_areach. rewrite forallb_forall in H2. apply H2. exact Hs.
    + constructor; [reflexivity | constructor].
  - apply slot_text_areach. exact H1.
Qed.

Lemma gq_text_areach (q : gq) :
  forallb (fun b : gbang => forallb ok_slot (snd b :: fst b)) (snd q :: fst q) = true ->
  Forall areachP (gq_text q).
Proof.
  cbn [forallb]. intros H. apply andb_true_iff in H. destruct H as [H1 H2].
  unfold gq_text. apply Forall_app. split.
  - apply Forall_flat_map_intro. intros b Hb. apply Forall_app. split.
    + apply gbang_text_areach. rewrite forallb_forall in H2. apply H2. exact Hb.
    + constructor; [reflexivity | constructor].
  - apply gbang_text_areach. exact H1.
Qed.

Lemma canon_facts k : k < 6 ->
  index_of (nth (N.to_nat k) SINGLE 0) SINGLE = Some k /\
  index_of (nth (N.to_nat (class_of_kind k)) START 0) START = Some (class_of_kind k) /\
  end_class (nth (N.to_nat k) ENDS 0) = Some (class_of_kind k) /\
  end_kind (nth (N.to_nat k) ENDS 0) = Some k /\
  nk (class_of_kind k) (nth (N.to_nat (class_of_kind k)) FILLER 0) = true /\
  is_hangul (nth (N.to_nat (class_of_kind k)) FILLER 0) = true.
Proof.
  intros H.
  assert (H' : k = 0 \/ k = 1 \/ k = 2 \/ k = 3 \/ k = 4 \/ k = 5) by lia.
  destruct H' as [H'|[H'|[H'|[H'|[H'|H']]]]]; subst k; vm_compute; repeat split; reflexivity.
Qed.

Lemma forallb_repeat {A} (f : A -> bool) x m : f x = true -> forallb f (repeat x m) = true.
Proof. intros H. induction m; cbn [repeat forallb]; [reflexivity | rewrite H, IHm; reflexivity]. Qed.

Lemma Forall_repeat {A} (P : A -> Prop) x m : P x -> Forall P (repeat x m).
Proof. intros H. induction m; cbn [repeat]; constructor; assumption. Qed.

Lemma canon_head_ok k n : k < 6 -> 1 <= n ->
  valid_head (canon_head k n) = true /\ head_kind (canon_head k n) = k /\ head_syl (canon_head k n) = n.
Proof.
  intros Hk Hn. destruct (canon_facts k Hk) as (F1 & F2 & F3 & F4 & F5 & F6).
  unfold canon_head. destruct (n =? 1) eqn:En.
  - apply N.eqb_eq in En. subst n. unfold valid_head, head_kind, head_syl. rewrite F1. auto.
  - apply N.eqb_neq in En. cbv zeta. unfold valid_head, head_kind, head_syl.
    rewrite F2, F3, F4, N.eqb_refl. cbn [andb]. repeat split.
    + apply forallb_repeat. exact F5.
    + rewrite filter_all by (apply Forall_repeat; exact F6).
      rewrite repeat_length. lia.
Qed.

Lemma dots_of_repeat m : dots_of (repeat 46 m) = N.of_nat m.
Proof.
  induction m as [|m IH]; [reflexivity|].
  cbn [repeat]. change (dots_of (46 :: repeat 46 m)) with (1 + dots_of (repeat 46 m)).
  rewrite IH. lia.
Qed.

Lemma cmd_ok_parts c : cmd_ok c = true ->
  kind c < 6 /\ 1 <= syl c /\
  forallb (fun b : gbang => forallb ok_slot (snd b :: fst b)) (snd (garea c) :: fst (garea c)) = true.
Proof.
  unfold cmd_ok. intros H.
  apply andb_true_iff in H. destruct H as [H H3].
  apply andb_true_iff in H. destruct H as [H1 H2].
  apply N.ltb_lt in H1. apply N.leb_le in H2. repeat split; assumption.
Qed.

Lemma canon_cmd_valid c after : cmd_ok c = true -> valid_cmd (canon_cmd c) after = true.
Proof.
  intros H. destruct (cmd_ok_parts c H) as (Hk & Hn & Hq).
  unfold canon_cmd. apply valid_cmd_clean.
  - apply canon_head_ok; assumption.
  - apply Forall_repeat. reflexivity.
  - apply gq_text_areach. exact Hq.
Qed.

Lemma canon_valid cs : forallb cmd_ok cs = true -> valid_cmds (map canon_cmd cs) = true.
Proof.
  induction cs as [|c r IH]; cbn [forallb map valid_cmds]; intros H.
  - reflexivity.
  - apply andb_true_iff in H. destruct H as [H1 H2].
    rewrite canon_cmd_valid, IH by assumption. reflexivity.
Qed.

Section WithLemmas.
Hypothesis Hrender : parse_render_stmt.
Hypothesis Hshape : area_shape_stmt.
Hypothesis Htext : area_text_stmt.

Lemma canon_abstract cs : forallb cmd_ok cs = true -> forall lc,
  map strip_u (abstract_cmds (map canon_cmd cs) lc)
  = map (fun c => (kind c, syl c, dotc c, gqA (garea c))) cs.
Proof.
  induction cs as [|c r IH]; cbn [forallb map abstract_cmds]; intros H lc.
  - reflexivity.
  - apply andb_true_iff in H. destruct H as [H1 H2].
    rewrite (IH H2). f_equal.
    destruct (cmd_ok_parts c H1) as (Hk & Hn & Hq).
    destruct (canon_head_ok _ _ Hk Hn) as (_ & K1 & K2).
    unfold abstract_cmd, strip_u, canon_cmd. cbn [ty hc dc ar chead cdotitems careaitems].
    rewrite K1, K2, dots_of_repeat, N2Nat.id.
    rewrite (filter_all _ _ (gq_text_areach _ Hq)).
    rewrite (Htext _ Hq). reflexivity.
Qed.

Theorem writable : writable_stmt.
Proof.
  intros cs H. split.
  - unfold valid, canon. cbn [cprefix ccmds all_ctx andb]. apply canon_valid. exact H.
  - unfold abstract, canon. cbn [cprefix ccmds]. apply canon_abstract. exact H.
Qed.

Lemma parse_decompose text : parse text = abstract (decompose text).
Proof.
  rewrite <- (Hrender _ (decompose_valid text)), decompose_flatten. reflexivity.
Qed.

Lemma abstract_cmds_area cs : forall lc u, In u (abstract_cmds cs lc) -> exists toks, ar u = area_of toks.
Proof.
  induction cs as [|c r IH]; cbn [abstract_cmds In]; intros lc u H.
  - contradiction.
  - destruct H as [H|H].
    + subst u. eexists. reflexivity.
    + exact (IH _ _ H).
Qed.

Theorem parse_area_shape : parse_area_shape_stmt.
Proof.
  intros text u H. rewrite parse_decompose in H. unfold abstract in H.
  destruct (abstract_cmds_area _ _ _ H) as [toks Ht]. rewrite Ht. apply Hshape.
Qed.

(* ---- re-parsing the raw texts ---- *)
Definition clean_head (h : head) : head :=
  match h with HSingle c => HSingle c | HMulti s inner e => HMulti s (filter is_hangul inner) e end.
Definition clean_cmd (c : ccmd) : ccmd :=
  mkccmd (clean_head (chead c)) (filter is_dot (cdotitems c)) (filter is_areach (careaitems c)).
Definition clean (t : cst) : cst := mkcst [] (map clean_cmd (ccmds t)).

Lemma clean_head_valid h : valid_head h = true -> valid_head (clean_head h) = true.
Proof.
  destruct h as [c|s inner e]; cbn [clean_head valid_head]; [auto|].
  destruct (index_of s START) as [k|]; [|auto].
  destruct (end_class e) as [k'|]; [|auto].
  intros H. apply andb_true_iff in H. destruct H as [H1 H2].
  rewrite H1. cbn [andb]. apply forallb_filter. exact H2.
Qed.

Lemma valid_cmds_heads cs : valid_cmds cs = true -> Forall (fun c => valid_head (chead c) = true) cs.
Proof.
  induction cs as [|c r IH]; cbn [valid_cmds]; intros H; constructor.
  - unfold valid_cmd in H. repeat (apply andb_true_iff in H; destruct H as [H _]). exact H.
  - apply IH. apply andb_true_iff in H. apply H.
Qed.

Lemma clean_valid_cmds cs :
  Forall (fun c => valid_head (chead c) = true) cs -> valid_cmds (map clean_cmd cs) = true.
Proof.
  induction 1 as [|c r Hc _ IH]; cbn [map valid_cmds].
  - reflexivity.
  - rewrite IH, andb_true_r. unfold clean_cmd. apply valid_cmd_clean.
    + apply clean_head_valid. exact Hc.
    + apply filter_Forall.
    + apply filter_Forall.
Qed.

Lemma clean_valid t : valid t = true -> valid (clean t) = true.
Proof.
  unfold valid at 1. intros H. apply andb_true_iff in H. destruct H as [_ H].
  unfold valid, clean. cbn [cprefix ccmds all_ctx andb].
  apply clean_valid_cmds, valid_cmds_heads. exact H.
Qed.

Lemma dots_of_filter l : dots_of (filter is_dot l) = dots_of l.
Proof.
  induction l as [|x l IH]; [reflexivity|].
  cbn [filter]. destruct (is_dot x) eqn:E.
  - change (dots_of (x :: filter is_dot l)) with ((if is_dot x then dot_val x else 0) + dots_of (filter is_dot l)).
    change (dots_of (x :: l)) with ((if is_dot x then dot_val x else 0) + dots_of l).
    rewrite IH. reflexivity.
  - change (dots_of (x :: l)) with ((if is_dot x then dot_val x else 0) + dots_of l).
    rewrite E, IH. reflexivity.
Qed.

Lemma clean_head_raw h : flat_head (clean_head h) = head_raw h.
Proof. destruct h; reflexivity. Qed.

Lemma clean_strip c lc lc' : strip_u (abstract_cmd (clean_cmd c) lc) = strip_u (abstract_cmd c lc').
Proof.
  unfold abstract_cmd, strip_u, clean_cmd. cbn [ty hc dc ar chead cdotitems careaitems].
  rewrite dots_of_filter, filter_idem.
  destruct (chead c) as [x|s inner e]; cbn [clean_head head_kind head_syl]; [reflexivity|].
  rewrite filter_idem. reflexivity.
Qed.

Lemma clean_abstract cs : forall lc lc',
  map strip_u (abstract_cmds (map clean_cmd cs) lc) = map strip_u (abstract_cmds cs lc').
Proof.
  induction cs as [|c r IH]; cbn [map abstract_cmds]; intros lc lc'.
  - reflexivity.
  - rewrite (clean_strip c lc lc'), (IH _ (advance (flat_cmd c) lc')). reflexivity.
Qed.

Lemma clean_raw cs : forall lc,
  concat (map raw (abstract_cmds cs lc)) = flat_cmds (map clean_cmd cs).
Proof.
  induction cs as [|c r IH]; cbn [map abstract_cmds concat]; intros lc.
  - reflexivity.
  - rewrite IH. unfold flat_cmds. cbn [flat_map]. f_equal.
    unfold abstract_cmd, clean_cmd, flat_cmd. cbn [raw chead cdotitems careaitems].
    rewrite clean_head_raw. reflexivity.
Qed.

Theorem reparse_raw : reparse_raw_stmt.
Proof.
  intros text. rewrite (parse_decompose text).
  set (t := decompose text).
  assert (Hv : valid (clean t) = true) by (apply clean_valid, decompose_valid).
  assert (Hraw : concat (map raw (abstract t)) = flatten (clean t))
    by (unfold abstract; rewrite clean_raw; reflexivity).
  rewrite Hraw, (Hrender _ Hv). unfold abstract, clean. cbn [cprefix ccmds].
  apply clean_abstract.
Qed.

End WithLemmas.
Print Assumptions writable.
Print Assumptions parse_area_shape.
Print Assumptions reparse_raw.
Check writable. Check parse_area_shape. Check reparse_raw.
