(* Debugger, several iterations at once: `run` executes exactly the commands up to the first one carrying a breakpoint, shows
   everything they write exactly once and in order, and stops there with the true state (C11, `run` clause at session level). *)
From Coq Require Import List NArith ZArith Bool.
Import ListNotations.
From HV Require Import Model.Big Model.Rat Model.NumText Model.Chars Model.Parse Model.Exec Model.Opt Model.Repl Model.Debug
  Proofs.OptSpec Proofs.AppSpec Proofs.ExtraSpec.
Open Scope N_scope.

(* k iterations of the main loop, as long as the session goes on *)
Fixpoint diter (k : nat) (code : list xcode) (lines : list (list N)) (d : dstate) : option (list devent * list (list N) * dstate) :=
  match k with
  | O => Some ([], lines, d)
  | S j => match dtrans true true code lines d with
           | (evs, inr (lines', d')) => match diter j code lines' d' with
                                        | Some (ev2, l2, d2) => Some (evs ++ ev2, l2, d2)
                                        | None => None
                                        end
           | (_, inl _) => None
           end
  end.

(* the text written by the commands number b, b+1, ..., b+k-1 of the run (each from a state with empty buffers) *)
Fixpoint texts_from (code : list xcode) (b k : nat) : list N * list N :=
  match k with
  | O => ([], [])
  | S j => match nsteps b code with
           | Some (s, pc) => match nth_error code (N.to_nat pc) with
                             | Some c => match execute_one c pc (core s) with
                                         | ROk _ t | RExit _ t | RErr _ t =>
                                             let (o, e) := texts_from code (S b) j in (rev (outb t) ++ o, rev (errb t) ++ e)
                                         end
                             | None => ([], [])
                             end
           | None => ([], [])
           end
  end.

(* in running mode with b steps on the history: if the next k commands of the run carry no breakpoint and the one after them
   does, then k+1 iterations later the debugger has stopped (not running), the history holds exactly b+k steps, its newest
   snapshot is the interpreter's state after b+k commands, the breakpoints and the unread command lines are untouched, and the
   text shown is what was pending followed by everything those k commands wrote — nothing is left pending *)
Definition run_to_breakpoint_stmt := forall code lines d b k s pc,
  dinv code d -> running d = true -> length (hist d) = S b ->
  (forall j, (j < k)%nat -> exists sj pcj, nsteps (b + j) code = Some (sj, pcj) /\
                                          pcj < N.of_nat (length code) /\ mem_N pcj (brk d) = false) ->
  nsteps (b + k) code = Some (s, pc) -> pc < N.of_nat (length code) -> mem_N pc (brk d) = true ->
  exists evs d', diter (S k) code lines d = Some (evs, lines, d') /\
    running d' = false /\ brk d' = brk d /\ length (hist d') = S (b + k) /\
    (exists s', hd_error (hist d') = Some (s', pc) /\ core s' = s) /\
    flush_out evs = pend_out d ++ fst (texts_from code b k) /\
    flush_err evs = pend_err d ++ snd (texts_from code b k) /\
    pend_out d' = [] /\ pend_err d' = [].

(* and when no command of the rest of the run carries a breakpoint and the program runs off its end after k more commands, the
   session ends (finished) having shown everything *)
Definition run_to_end_stmt := forall code lines d b k s pc fuel,
  dinv code d -> running d = true -> length (hist d) = S b ->
  (forall j, (j < k)%nat -> exists sj pcj, nsteps (b + j) code = Some (sj, pcj) /\
                                          pcj < N.of_nat (length code) /\ mem_N pcj (brk d) = false) ->
  nsteps (b + k) code = Some (s, pc) -> N.of_nat (length code) <= pc -> (S k < fuel)%nat ->
  exists evs, dloop true true fuel code lines d = (evs, DFinished) /\
    flush_out evs = pend_out d ++ fst (texts_from code b k) /\
    flush_err evs = pend_err d ++ snd (texts_from code b k).
