(* Statements for C13 (CLI never panics) and C14 (Unicode pass-through). *)
From Coq Require Import List NArith ZArith QArith Bool.
Import ListNotations.
From HV Require Import Model.Big Model.Rat Model.NumText Model.Chars Model.Parse Model.Exec Model.Opt Model.Utf8 Model.Cli
  Spec.Lang Proofs.OptSpec.
Open Scope N_scope.

(* ---------- UTF-8 ---------- *)
Definition scalars (t : list N) : Prop := Forall (fun c => is_scalar_value c = true) t.
Definition utf8_roundtrip_stmt := forall t, scalars t -> decode (encode t) = Some t.
(* the byte stream of a text is read as the lines of the text, each with its terminator *)
Definition stdin_lines_stmt := forall t, scalars t -> stdin_lines (encode t) = map Some (split_nl t []).
Definition split_nl_concat_stmt := forall t, concat (split_nl t []) = t /\ Forall (fun l => l <> []) (split_nl t []).

(* ---------- C13 ---------- *)
Definition run_inc_no_panic_stmt := forall fuel done todo s, targets_ok (N.of_nat (length done)) s ->
  forall t, run_inc fuel done todo s <> FPanic t.
Definition optimized_targets_stmt := forall fx code level input r, optimize_prog fx code level input = OptOk r ->
  targets_ok (N.of_nat (length (olog r))) (ostate r).
Definition cli_no_panic_stmt := forall level file stdin fuel, run_cli level file stdin fuel <> CPanic.
Definition check_no_panic_stmt := forall file, check_cli file <> CPanic /\ check_cli file <> CRunning.

(* ---------- C14: the language definition on the copy programs ---------- *)
Definition c_select0 : scmd := mkscmd 5 1 0 0 Nil.              (* 흑 : select stack 0 (standard input) *)
Definition c_print : scmd := mkscmd 1 1 1 1 Nil.                (* 항. : pop one value, push it to stack 1 (standard output) *)
Definition copy_prog (n : nat) : list scmd := c_select0 :: repeat c_print n.
Definition lines_of (t : list N) : list (option (list N)) := map Some (split_nl t []).
Definition small_scalars (t : list N) : Prop := Forall (fun c => is_scalar_value c = true) t.
Fixpoint nan_texts (k : nat) : list N := match k with O => [] | S j => NAN_TEXT_SPEC ++ nan_texts j end.

(* COPY n prints the first n characters of the input; when it reads past the end it sees NaN (and prints the NaN text),
   and only then *)
Definition copy_n_stmt := forall n t, small_scalars t ->
  exists s, srun (S (S n)) (copy_prog n) (lstate0 (lines_of t)) 0 = SDone s /\
            out s = firstn n t ++ nan_texts (n - length t) /\ err s = [].

(* the k-th character popped from standard input is the k-th character of the text, NaN exactly at and after the end *)
Definition c_pop3 : scmd := mkscmd 1 1 3 3 Nil.                 (* 항... : pop one value from the selected stack, push it to stack 3 *)
Definition stream_prog (k : nat) : list scmd := c_select0 :: repeat c_pop3 k.
Definition stdin_stream_stmt := forall k t, small_scalars t ->
  exists s, srun (S (S k)) (stream_prog k) (lstate0 (lines_of t)) 0 = SDone s /\
            sget s 3 = repeat VNaN (match t with [] => 0%nat | _ => k - length t end) ++ rev (map vnat (firstn k t)) /\
            out s = [] /\ err s = [].

(* the copy loop: 흑 ; BIG♥ ; 항... ; 항. ; 흑 ; BIG?♥?  with BIG a 형-kind command whose count exceeds every scalar value *)
Definition BIGC : N := 1114112.       (* 1088 syllables x 1024 dots *)
Definition hq (t : N) (l r : area) : area := Val 0 l r.
Definition cat_prog : list scmd :=
  [ c_select0;
    mkscmd 0 1088 1024 BIGC (Val 2 Nil Nil);                                   (* push the count; label *)
    mkscmd 1 1 3 3 Nil;                                                         (* discard it to stack 3 *)
    mkscmd 1 1 1 1 Nil;                                                         (* print the next character *)
    c_select0;                                                                  (* duplicate the following one (흑 with 0 dots on stack 0) *)
    mkscmd 0 1088 1024 BIGC (Val 0 Nil (Val 0 (Val 2 Nil Nil) Nil)) ].         (* ?(_, ?(♥, _)): pop count, pop copy; jump back if it is a character *)
Definition cat_loop_stmt := forall t, t <> [] -> small_scalars t ->
  exists fuel s, srun fuel cat_prog (lstate0 (lines_of t)) 0 = SDone s /\ out s = t /\ err s = [].
