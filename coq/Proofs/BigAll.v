(* Closes the number-layer lemmas: every named statement of BigSpec.v, with no premises left. *)
From Coq Require Import List NArith ZArith Bool.
From HV Require Import Model.Big Proofs.BigSpec.
From HV Require Proofs.BigShrink Proofs.BigAddSub Proofs.BigMul Proofs.BigDiv Proofs.BigOps Proofs.BigGcd.

Definition shrink_val_t : shrink_val_stmt := BigShrink.shrink_val.
Definition shrink_ok_t : shrink_ok_stmt := BigShrink.shrink_ok.
Definition shrink_normal_t : shrink_normal_stmt := BigShrink.shrink_normal.
Definition normal_unique_t : normal_unique_stmt := BigShrink.normal_unique.
Definition normal_length_t : normal_length_stmt := BigShrink.normal_length.
Definition less_core_t : less_core_stmt := BigShrink.less_core_spec.
Definition add_core_t : add_core_stmt := BigAddSub.add_core_spec.
Definition sub_core_t : sub_core_stmt := BigAddSub.sub_core_spec less_core_t.
Definition sub_core_safe_t : sub_core_safe_stmt := BigAddSub.sub_core_safe_normal less_core_t normal_length_t.
Definition mult_core_t : mult_core_stmt := BigMul.mult_core_spec.
Definition div_core_t : div_core_stmt := BigDiv.div_core_spec mult_core_t less_core_t.

Definition from_vec_t : from_vec_stmt := BigOps.from_vec_spec shrink_val_t shrink_normal_t.
Definition is_zero_t : is_zero_stmt := BigOps.is_zero_spec normal_unique_t.
Definition wf_unique_t : wf_unique_stmt := BigOps.wf_unique normal_unique_t.
Definition bneg_t : bneg_stmt := BigOps.bneg_spec.
Definition bnew_t : bnew_stmt := BigOps.bnew_spec.
Definition badd_t : badd_stmt := BigOps.badd_spec shrink_val_t shrink_normal_t add_core_t sub_core_t sub_core_safe_t.
Definition bsub_t : bsub_stmt := BigOps.bsub_spec shrink_val_t shrink_normal_t add_core_t sub_core_t sub_core_safe_t.
Definition bmul_t : bmul_stmt := BigOps.bmul_spec shrink_val_t shrink_normal_t mult_core_t.
Definition bdiv_t : bdiv_stmt := BigOps.bdiv_spec shrink_val_t shrink_normal_t div_core_t.
Definition beq_t : beq_stmt := BigOps.beq_spec normal_unique_t.
Definition bcmp_t : bcmp_stmt := BigOps.bcmp_spec normal_unique_t less_core_t.
Definition brem_t : brem_stmt :=
  BigOps.brem_spec shrink_val_t shrink_normal_t add_core_t sub_core_t sub_core_safe_t mult_core_t div_core_t.
Definition bgcd_t : bgcd_stmt := BigGcd.bgcd_spec brem_t is_zero_t.
