(* C08 clause 3, the whole listing line: `KIND_syllables_dots AREA` determines the command. *)
From Coq Require Import List NArith Bool.
Import ListNotations.
From HV Require Import Model.Chars Model.Parse Spec.Grammar Spec.Lang Proofs.ParseSpec Proofs.ParseArea.
Open Scope N_scope.

(* app/check.rs l.97-104: "{}_{}_{} {}" with COMMANDS[type], hangul count, dot count, Display of the area *)
Definition listing_line (k n d : N) (a : area) : list N :=
  [nth (N.to_nat k) SINGLE 0] ++ [CH_US] ++ dec_N n ++ [CH_US] ++ dec_N d ++ [CH_SP] ++ area_display a.

Definition dec_N_injective_stmt := forall a b, dec_N a = dec_N b -> a = b.
Definition dec_N_digits_stmt := forall a, dec_N a <> [] /\ Forall (fun c => 48 <= c <= 57) (dec_N a).
Definition listing_injective_stmt := forall k n d a k' n' d' a',
  k < 6 -> k' < 6 -> grammar_shaped a -> grammar_shaped a' -> well_typed a -> well_typed a' ->
  listing_line k n d a = listing_line k' n' d' a' -> k = k' /\ n = n' /\ d = d' /\ a = a'.
(* the location prefix `file:line:col` : two decimal numerals separated by ':' determine both numbers *)
Definition loc_text (l c : N) : list N := dec_N l ++ [58] ++ dec_N c.
Definition loc_injective_stmt := forall l c l' c', loc_text l c = loc_text l' c' -> l = l' /\ c = c'.
