(* Closes the interpreter-layer lemmas. *)
From Coq Require Import List NArith ZArith QArith Bool.
From HV Require Import Model.Big Model.Rat Model.NumText Model.Exec Spec.Lang Proofs.RatSpec Proofs.ExecSpec.
From HV Require Proofs.ExecVal Proofs.ExecText Proofs.ExecStep.
Definition vof_text_t : vof_text_stmt := ExecText.vof_text.
Definition step_refines_t : step_refines_stmt :=
  ExecStep.step_refines ExecVal.vof_add ExecVal.vof_mul ExecVal.vof_neg ExecVal.vof_flip ExecVal.vof_nat ExecVal.vof_consts
    ExecVal.vof_nan ExecVal.vof_cmp ExecVal.vof_out ExecText.vof_text ExecVal.scalar_same.
Definition run_refines_t : run_refines_stmt :=
  ExecStep.run_refines ExecVal.vof_add ExecVal.vof_mul ExecVal.vof_neg ExecVal.vof_flip ExecVal.vof_nat ExecVal.vof_consts
    ExecVal.vof_nan ExecVal.vof_cmp ExecVal.vof_out ExecText.vof_text ExecVal.scalar_same.
Definition R_init_t : R_init_stmt := ExecStep.R_init.
