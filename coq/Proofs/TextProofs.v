(* Radix conversion (to_string_base / from_string_base) and Num Display / from_string round trip. *)
From Coq Require Import List NArith ZArith QArith Lia Bool.
Import ListNotations.
From HV Require Import Model.Big Model.Rat Model.NumText Proofs.BigSpec Proofs.RatSpec.
Open Scope N_scope.
Arguments N.add : simpl never. Arguments N.mul : simpl never. Arguments N.div : simpl never.
Arguments N.modulo : simpl never. Arguments N.pow : simpl never. Arguments N.sub : simpl never.
Arguments N.leb : simpl never. Arguments N.ltb : simpl never. Arguments N.eqb : simpl never.

(* ---------- pure facts (no hypotheses) ---------- *)

Lemma tp_B_eq : B = 2 ^ 32. Proof. reflexivity. Qed.

Lemma tp_lval_bound l : limbs_ok l -> lval l < B ^ N.of_nat (length l).
Proof.
  induction 1 as [|x l Hx _ IH]; cbn [lval length].
  - reflexivity.
  - rewrite Nat2N.inj_succ, N.pow_succ_r'. nia.
Qed.

Lemma digit_val_char d : d < 36 -> digit_val (digit_char d) = Some d.
Proof.
  intros Hd. unfold digit_val, digit_char.
  destruct (N.ltb_spec d 10) as [H|H].
  - destruct (N.leb_spec 48 (48 + d)); [|lia].
    destruct (N.leb_spec (48 + d) 57); [|lia].
    cbn [andb]. f_equal. lia.
  - destruct (N.leb_spec 48 (65 + d - 10)); [|lia].
    destruct (N.leb_spec (65 + d - 10) 57); [lia|].
    cbn [andb].
    destruct (N.leb_spec 65 (65 + d - 10)); [|lia].
    destruct (N.leb_spec (65 + d - 10) 90); [|lia].
    cbn [andb]. f_equal. lia.
Qed.

Lemma digit_char_range d : d < 36 ->
  (48 <= digit_char d <= 57 \/ 65 <= digit_char d <= 90).
Proof.
  intros Hd. unfold digit_char. destruct (N.ltb_spec d 10); lia.
Qed.

Lemma digit_char_zero d : d < 36 -> digit_char d = 48 -> d = 0.
Proof.
  intros Hd. unfold digit_char. destruct (N.ltb_spec d 10); lia.
Qed.

Lemma digit_ok_range base c : base <= 36 -> digit_ok base c ->
  (48 <= c <= 57 \/ 65 <= c <= 90).
Proof.
  intros Hb [d [Hd ->]]. apply digit_char_range. lia.
Qed.

Lemma digit_ok_not_minus base c : base <= 36 -> digit_ok base c -> (c =? CH_MINUS) = false.
Proof.
  intros Hb H. apply digit_ok_range in H; [|exact Hb].
  apply N.eqb_neq. unfold CH_MINUS. lia.
Qed.

Lemma digit_ok_not_slash base c : base <= 36 -> digit_ok base c -> c <> CH_SLASH.
Proof.
  intros Hb H. apply digit_ok_range in H; [|exact Hb]. unfold CH_SLASH. lia.
Qed.

(* little-endian value of a digit string *)
Definition dv (c : N) : N := match digit_val c with Some d => d | None => 0 end.
Fixpoint le_val (base : N) (ds : list N) : N :=
  match ds with [] => 0 | c :: r => dv c + base * le_val base r end.

Lemma digits_val_app base l1 : forall l2 acc,
  digits_val base (l1 ++ l2) acc = digits_val base l2 (digits_val base l1 acc).
Proof.
  induction l1 as [|c l1 IH]; intros l2 acc; cbn [app digits_val]; [reflexivity|].
  apply IH.
Qed.

Lemma digits_val_rev base ds : digits_val base (rev ds) 0 = le_val base ds.
Proof.
  induction ds as [|c r IH]; cbn [rev le_val]; [reflexivity|].
  rewrite digits_val_app, IH. cbn [digits_val]. unfold dv. lia.
Qed.

Lemma rev_nil_inv {A} (l : list A) : rev l = [] -> l = [].
Proof.
  intros H. apply (f_equal (@rev A)) in H. rewrite rev_involutive in H. exact H.
Qed.

(* split_slash *)
Lemma split_slash_none s : forall cur, Forall (fun c => c <> CH_SLASH) s ->
  split_slash s cur = [rev cur ++ s].
Proof.
  induction s as [|c r IH]; intros cur Hs; cbn [split_slash].
  - rewrite app_nil_r. reflexivity.
  - inversion Hs as [|? ? Hc Hr]; subst.
    destruct (N.eqb_spec c CH_SLASH) as [E|_]; [contradiction|].
    rewrite IH by exact Hr. cbn [rev]. rewrite <- app_assoc. reflexivity.
Qed.

Lemma split_slash_one a : forall cur rest, Forall (fun c => c <> CH_SLASH) a ->
  split_slash (a ++ CH_SLASH :: rest) cur = (rev cur ++ a) :: split_slash rest [].
Proof.
  induction a as [|c r IH]; intros cur rest Ha; cbn [split_slash app].
  - rewrite N.eqb_refl, app_nil_r. reflexivity.
  - inversion Ha as [|? ? Hc Hr]; subst.
    destruct (N.eqb_spec c CH_SLASH) as [E|_]; [contradiction|].
    rewrite IH by exact Hr. cbn [rev]. rewrite <- app_assoc. reflexivity.
Qed.

Lemma wf_bzero : wf bzero.
Proof.
  unfold wf, bzero, normal. cbn [limbs bpos]. repeat split.
  - constructor; [reflexivity|constructor].
  - discriminate.
Qed.

Lemma wf_bone : wf bone.
Proof.
  unfold wf, bone, normal. cbn [limbs bpos]. repeat split.
  - constructor; [reflexivity|constructor].
  - discriminate.
Qed.

Lemma wf_abs a : wf a -> wf (mkbig true (limbs a)).
Proof. unfold wf. cbn [limbs bpos]. intros [H _]. split; [exact H|reflexivity]. Qed.

Lemma bval_abs a : bval (mkbig true (limbs a)) = Z.of_N (Z.abs_N (bval a)).
Proof.
  unfold bval. cbn [limbs bpos]. destruct (bpos a).
  - rewrite Zabs2N.id. reflexivity.
  - rewrite Zabs2N.inj_opp, Zabs2N.id. reflexivity.
Qed.

Lemma bval_abs_lval a : Z.abs_N (bval a) = lval (limbs a).
Proof.
  unfold bval. destruct (bpos a).
  - apply Zabs2N.id.
  - rewrite Zabs2N.inj_opp. apply Zabs2N.id.
Qed.

Section TextProofs.
Hypothesis Hadd : badd_stmt.  Hypothesis Hmul : bmul_stmt.  Hypothesis Hdiv : bdiv_stmt.  Hypothesis Hrem : brem_stmt.
Hypothesis Heq : beq_stmt.  Hypothesis Huniq : wf_unique_stmt.  Hypothesis Hzero : is_zero_stmt.  Hypothesis Hnew : bnew_stmt.
Hypothesis Hopt : optimize_stmt.   Hypothesis Hwfnu : wfn_unique_stmt.  Hypothesis Hnneg : nneg_stmt.

Lemma bnew_small m : m < B -> wf (bnew (Z.of_N m)) /\ bval (bnew (Z.of_N m)) = Z.of_N m.
Proof.
  intros Hm. apply Hnew.
  assert (Z.of_N B < 2 ^ 127)%Z by reflexivity. lia.
Qed.

Lemma small_to_int r m : wf r -> bval r = Z.of_N m -> m < B -> to_int r = m.
Proof.
  intros Hr Hv Hm. destruct (bnew_small m Hm) as [Hw Hbv].
  assert (E : r = bnew (Z.of_N m)) by (apply Huniq; [exact Hr|exact Hw|congruence]).
  rewrite E. unfold to_int, bnew. cbn [limbs to_limbs hd].
  rewrite Zabs2N.id. apply N.mod_small. exact Hm.
Qed.

Lemma base_big base : base <= 36 ->
  wf (bnew (Z.of_N base)) /\ bval (bnew (Z.of_N base)) = Z.of_N base.
Proof. intros Hb. apply bnew_small. unfold B. lia. Qed.

Lemma digits_loop base (Hb : 2 <= base <= 36) : forall k num n,
  wf num -> bval num = Z.of_N n -> n < base ^ N.of_nat k ->
  exists ds, digits_fuel (S k) num (bnew (Z.of_N base)) = Some ds /\
    Forall (digit_ok base) ds /\ (ds = [] \/ hd 0 (rev ds) <> 48) /\
    le_val base ds = n /\ (ds = [] -> n = 0).
Proof.
  destruct (base_big base (proj2 Hb)) as [Hwb Hvb].
  induction k as [|k IH]; intros num n Hw Hv Hn.
  - assert (n = 0) by (cbn in Hn; lia). subst n.
    cbn [digits_fuel]. replace (is_zero num) with true
      by (symmetry; apply Hzero; [exact Hw|exact Hv]).
    exists []. repeat split; auto.
  - change (digits_fuel (S (S k)) num (bnew (Z.of_N base)))
      with (if is_zero num then Some []
            else match digits_fuel (S k) (bdiv num (bnew (Z.of_N base))) (bnew (Z.of_N base)) with
                 | Some r => Some (digit_char (to_int (brem num (bnew (Z.of_N base)))) :: r)
                 | None => None end).
    destruct (is_zero num) eqn:Ez.
    + apply Hzero in Ez; [|exact Hw]. assert (n = 0) by lia. subst n.
      exists []. repeat split; auto.
    + assert (Hnz : n <> 0).
      { intros ->. assert (is_zero num = true) by (apply Hzero; [exact Hw|exact Hv]). congruence. }
      assert (Hbnz : bval (bnew (Z.of_N base)) <> 0%Z) by (rewrite Hvb; lia).
      destruct (Hdiv num _ Hw Hwb Hbnz) as [Hwq Hvq].
      destruct (Hrem num _ Hw Hwb Hbnz) as [Hwr Hvr].
      rewrite Hv, Hvb, <- N2Z.inj_quot in Hvq.
      rewrite Hv, Hvb, <- N2Z.inj_rem in Hvr.
      assert (Hbase0 : base <> 0) by lia.
      pose proof (N.mod_lt n base Hbase0) as Hmod.
      pose proof (N.div_mod n base Hbase0) as Hdm.
      assert (Hq : n / base < base ^ N.of_nat k).
      { apply N.div_lt_upper_bound; [exact Hbase0|].
        rewrite Nat2N.inj_succ, N.pow_succ_r' in Hn. exact Hn. }
      destruct (IH _ _ Hwq Hvq Hq) as [ds [Hds [Hok [Hms [Hval Hnil]]]]].
      rewrite Hds.
      assert (Hti : to_int (brem num (bnew (Z.of_N base))) = n mod base).
      { apply small_to_int; [exact Hwr|exact Hvr|unfold B; lia]. }
      rewrite Hti.
      exists (digit_char (n mod base) :: ds). split; [reflexivity|].
      split; [constructor; [exists (n mod base); split; [exact Hmod|reflexivity]|exact Hok]|].
      split; [|split].
      * right. cbn [rev]. destruct (rev ds) as [|x t] eqn:Er.
        -- apply rev_nil_inv in Er. specialize (Hnil Er).
           cbn [app hd]. intros E. apply digit_char_zero in E; [|lia]. lia.
        -- cbn [app hd]. destruct Hms as [E|Hms]; [subst ds; discriminate|].
           exact Hms.
      * cbn [le_val]. unfold dv. rewrite digit_val_char by lia. rewrite Hval. lia.
      * discriminate.
Qed.

Lemma fuel_enough a base : wf a -> 2 <= base ->
  lval (limbs a) < base ^ N.of_nat (32 * length (limbs a)).
Proof.
  intros [[Hok _] _] Hb.
  apply N.lt_le_trans with (B ^ N.of_nat (length (limbs a))).
  - apply tp_lval_bound. exact Hok.
  - rewrite tp_B_eq, <- N.pow_mul_r, Nat2N.inj_mul.
    change (N.of_nat 32) with 32. apply N.pow_le_mono_l. exact Hb.
Qed.

Lemma neg_nonzero a : wf a -> bpos a = false -> lval (limbs a) <> 0.
Proof.
  intros Hw Hp E.
  assert (Ea : a = bzero).
  { apply Huniq; [exact Hw|exact wf_bzero|]. unfold bval. rewrite Hp, E. reflexivity. }
  rewrite Ea in Hp. discriminate.
Qed.

Lemma range_check base : 2 <= base <= 36 -> negb ((1 <=? base) && (base <=? 36)) = false.
Proof.
  intros Hb. destruct (N.leb_spec 1 base); [|lia]. destruct (N.leb_spec base 36); [|lia]. reflexivity.
Qed.

Theorem tsb_spec : tsb_stmt.
Proof.
  intros a base Hw Hb. unfold to_string_base. rewrite (range_check base Hb).
  unfold ts_bound. replace (32 * length (limbs a) + 1)%nat with (S (32 * length (limbs a))) by lia.
  destruct (digits_loop base Hb (32 * length (limbs a)) (mkbig true (limbs a)) (lval (limbs a)))
    as [ds [Hds [Hok [Hms [Hval Hnil]]]]].
  - apply wf_abs. exact Hw.
  - reflexivity.
  - apply fuel_enough; [exact Hw|lia].
  - rewrite Hds. rewrite bval_abs_lval.
    destruct (bpos a) eqn:Hp.
    + destruct ds as [|c ds'].
      * exists [48]. cbn [rev app]. repeat split.
        -- discriminate.
        -- constructor; [|constructor]. exists 0. split; [lia|reflexivity].
        -- rewrite (Hnil eq_refl). reflexivity.
      * exists (rev (c :: ds')). cbn [app]. split; [reflexivity|].
        split; [intros E; apply rev_nil_inv in E; discriminate|].
        split; [apply Forall_rev; exact Hok|].
        split.
        -- intros E. destruct Hms as [Hms|Hms]; [discriminate|]. contradiction.
        -- rewrite digits_val_rev. exact Hval.
    + pose proof (neg_nonzero a Hw Hp) as Hnz.
      destruct ds as [|c ds'].
      * exfalso. apply Hnz. apply Hnil. reflexivity.
      * exists (rev (c :: ds')). rewrite rev_unit. split; [reflexivity|].
        split; [intros E; apply rev_nil_inv in E; discriminate|].
        split; [apply Forall_rev; exact Hok|].
        split.
        -- intros E. destruct Hms as [Hms|Hms]; [discriminate|]. contradiction.
        -- rewrite digits_val_rev. exact Hval.
Qed.

Lemma horner_ok base (Hb : 2 <= base <= 36) : forall ds acc n,
  wf acc -> bval acc = Z.of_N n -> Forall (digit_ok base) ds ->
  exists res, horner (bnew (Z.of_N base)) ds acc = Some res /\ wf res /\
              bval res = Z.of_N (digits_val base ds n).
Proof.
  destruct (base_big base (proj2 Hb)) as [Hwb Hvb].
  induction ds as [|c r IH]; intros acc n Hw Hv Hok.
  - exists acc. cbn [horner digits_val]. auto.
  - inversion Hok as [|? ? Hc Hr]; subst. destruct Hc as [d [Hd ->]].
    cbn [horner digits_val]. rewrite digit_val_char by lia.
    destruct (bnew_small d) as [Hwd Hvd]; [unfold B; lia|].
    destruct (Hmul acc _ Hw Hwb) as [Hwm Hvm].
    destruct (Hadd _ _ Hwm Hwd) as [Hwa Hva].
    apply IH; [exact Hwa| |exact Hr].
    rewrite Hva, Hvm, Hv, Hvb, Hvd. lia.
Qed.

Lemma fsb_digits base ds : 2 <= base <= 36 -> ds <> [] -> Forall (digit_ok base) ds ->
  exists r, from_string_base ds base = FSOk r /\ wf r /\ bval r = Z.of_N (digits_val base ds 0).
Proof.
  intros Hb Hne Hok. unfold from_string_base. rewrite (range_check base Hb).
  destruct ds as [|c r]; [contradiction|].
  assert (Ec : (c =? CH_MINUS) = false).
  { apply (digit_ok_not_minus base); [lia|]. inversion Hok; assumption. }
  rewrite Ec.
  destruct (horner_ok base Hb (c :: r) (bnew 0) 0) as [res [Hres [Hwr Hvr]]].
  - apply (bnew_small 0). reflexivity.
  - apply (bnew_small 0). reflexivity.
  - exact Hok.
  - rewrite Hres. exists res. auto.
Qed.

Lemma fsb_minus_digits base ds : 2 <= base <= 36 -> Forall (digit_ok base) ds ->
  exists r, from_string_base (CH_MINUS :: ds) base = FSOk (mkbig false (limbs r)) /\ wf r /\
            bval r = Z.of_N (digits_val base ds 0).
Proof.
  intros Hb Hok. unfold from_string_base. rewrite (range_check base Hb).
  rewrite N.eqb_refl.
  destruct (horner_ok base Hb ds (bnew 0) 0) as [res [Hres [Hwr Hvr]]].
  - apply (bnew_small 0). reflexivity.
  - apply (bnew_small 0). reflexivity.
  - exact Hok.
  - rewrite Hres. exists res. auto.
Qed.

Lemma abs_unique a r : wf a -> wf r -> bval r = Z.of_N (Z.abs_N (bval a)) ->
  r = mkbig true (limbs a).
Proof.
  intros Hw Hr Hv. apply Huniq; [exact Hr|apply wf_abs; exact Hw|].
  rewrite bval_abs. exact Hv.
Qed.

Theorem fsb_tsb : fsb_tsb_stmt.
Proof.
  intros a base s Hw Hb Hs.
  destruct (tsb_spec a base Hw Hb) as [ds [Hts [Hne [Hok [_ Hval]]]]].
  rewrite Hts in Hs. injection Hs as <-.
  destruct (bpos a) eqn:Hp.
  - cbn [app]. destruct (fsb_digits base ds Hb Hne Hok) as [r [Hr [Hwr Hvr]]].
    rewrite Hr. f_equal. rewrite Hval in Hvr.
    rewrite (abs_unique a r Hw Hwr Hvr). destruct a as [p l]. cbn in Hp |- *. congruence.
  - cbn [app]. destruct (fsb_minus_digits base ds Hb Hok) as [r [Hr [Hwr Hvr]]].
    rewrite Hr. f_equal. rewrite Hval in Hvr.
    rewrite (abs_unique a r Hw Hwr Hvr). destruct a as [p l]. cbn in Hp |- *. congruence.
Qed.

Theorem num_display_spec : num_display_stmt.
Proof.
  intros n Hn. unfold num_display. destruct (is_nan n); [reflexivity|].
  destruct Hn as [_ [Hwd _]].
  pose proof (Heq (down n) bone Hwd wf_bone) as He.
  change (bval bone) with 1%Z in He.
  destruct (beq (down n) bone); destruct (Z.eqb_spec (bval (down n)) 1) as [E1|E1]; try reflexivity.
  - exfalso. apply E1. apply He. reflexivity.
  - destruct He as [_ He]. specialize (He E1). discriminate.
Qed.

(* ---------- Num round trip ---------- *)

Lemma big_display_shape x : wf x ->
  exists ds, big_display x = (if bpos x then [] else [CH_MINUS]) ++ ds /\ ds <> [] /\
    Forall (digit_ok 10) ds /\ digits_val 10 ds 0 = Z.abs_N (bval x).
Proof.
  intros Hw. destruct (tsb_spec x 10 Hw) as [ds [Hts [Hne [Hok [_ Hval]]]]]; [lia|].
  exists ds. unfold big_display. rewrite Hts. auto.
Qed.

Lemma read_digits x ds : wf x -> ds <> [] -> Forall (digit_ok 10) ds ->
  digits_val 10 ds 0 = Z.abs_N (bval x) ->
  from_string_base ds 10 = FSOk (mkbig true (limbs x)).
Proof.
  intros Hw Hne Hok Hval.
  destruct (fsb_digits 10 ds) as [r [Hr [Hwr Hvr]]]; [lia|exact Hne|exact Hok|].
  rewrite Hr. f_equal. apply abs_unique; [exact Hw|exact Hwr|]. rewrite Hvr, Hval. reflexivity.
Qed.

Definition parts_res (parts : list (list N)) : option num :=
  match parts with
  | [a] => match from_string_base a 10 with FSOk u => Some (from_big_num u bone) | _ => None end
  | a :: b :: _ => match from_string_base a 10, from_string_base b 10 with
                   | FSOk u, FSOk d => Some (from_big_num u d) | _, _ => None end
  | [] => None
  end.

Lemma hd_digits_small ds rest : ds <> [] -> Forall (digit_ok 10) ds -> 48 <= hd 0 (ds ++ rest) <= 90.
Proof.
  intros Hne Hok. destruct ds as [|c r]; [contradiction|]. cbn [app hd].
  inversion Hok as [|? ? Hc _]; subst. apply digit_ok_range in Hc; lia.
Qed.

Lemma nfs_shape (neg : bool) ds rest : ds <> [] -> Forall (digit_ok 10) ds ->
  num_from_string ((if neg then [CH_MINUS] else []) ++ ds ++ rest) =
  match parts_res (split_slash (ds ++ rest) []) with
  | Some r => Some (if neg then nminus r else r) | None => None end.
Proof.
  intros Hne Hok. pose proof (hd_digits_small ds rest Hne Hok) as Hhd.
  unfold num_from_string.
  destruct (list_eq_dec N.eq_dec _ NAN_TEXT) as [E|_].
  - exfalso. apply (f_equal (hd 0)) in E. destruct neg; cbn [app] in E.
    + cbn in E. discriminate.
    + change (hd 0 NAN_TEXT) with 45320 in E. lia.
  - destruct neg; cbn [app].
    + rewrite N.eqb_refl. reflexivity.
    + destruct (ds ++ rest) as [|c r] eqn:E.
      * cbn [hd] in Hhd. lia.
      * cbn [hd] in Hhd. destruct (N.eqb_spec c CH_MINUS) as [E2|_]; [unfold CH_MINUS in E2; lia|].
        reflexivity.
Qed.

Lemma digits_no_slash ds : Forall (digit_ok 10) ds -> Forall (fun c => c <> CH_SLASH) ds.
Proof.
  intros H. eapply Forall_impl; [|exact H]. intros c Hc. apply (digit_ok_not_slash 10); [lia|exact Hc].
Qed.

Lemma opt_canon u d : wf u -> wf d -> bpos d = true -> bval d <> 0%Z ->
  Z.gcd (bval u) (bval d) = 1%Z ->
  optimize (mknum (mkbig true (limbs u)) d) = mknum (mkbig true (limbs u)) d.
Proof.
  intros Hwu Hwd Hpd Hdnz Hg.
  pose proof (wf_abs u Hwu) as Hwa.
  assert (Hdpos : (0 < bval d)%Z).
  { unfold bval in *. rewrite Hpd in *. lia. }
  destruct (Hopt _ _ Hwa Hwd (or_intror Hdnz)) as [Hwfo Hvo].
  assert (Hz : is_zero d = false).
  { destruct (is_zero d) eqn:E; [|reflexivity]. apply Hzero in E; [contradiction|exact Hwd]. }
  assert (Hwfn' : wfn (mknum (mkbig true (limbs u)) d)).
  { unfold wfn. cbn [up down].
    split; [exact Hwa|]. split; [exact Hwd|]. split; [exact Hpd|]. split.
    - intros _. rewrite bval_abs, N2Z.inj_abs_N, Z.gcd_abs_l. exact Hg.
    - intros E. contradiction. }
  assert (Hnv : nval (mknum (mkbig true (limbs u)) d) =
                Some (bval (mkbig true (limbs u)) # Z.to_pos (bval d))).
  { unfold nval, is_nan. cbn [up down]. rewrite Hz. reflexivity. }
  unfold frac in Hvo.
  destruct (Z.eqb_spec (bval d) 0) as [E|_]; [contradiction|].
  destruct (Z.ltb_spec 0 (bval d)) as [_|E]; [|lia].
  destruct (nval (optimize (mknum (mkbig true (limbs u)) d))) as [q|] eqn:Eq; [|contradiction].
  cbn [oq_eq] in Hvo.
  exact (Hwfnu _ _ _ _ Hwfo Hwfn' Eq Hnv Hvo).
Qed.

Lemma restore_sign u d : wf u ->
  (if negb (bpos u) then nminus (mknum (mkbig true (limbs u)) d) else mknum (mkbig true (limbs u)) d)
  = mknum u d.
Proof.
  intros Hw. destruct u as [p l]. cbn [bpos limbs negb]. destruct p; cbn [negb]; [reflexivity|].
  unfold nminus, bminus, is_zero. cbn [up down limbs bpos negb].
  destruct (list_eq_dec N.eq_dec l [0]) as [E|_]; [|reflexivity].
  destruct Hw as [_ Hs]. cbn [limbs bpos] in Hs. specialize (Hs E). discriminate.
Qed.

Theorem num_roundtrip : num_roundtrip_stmt.
Proof.
  intros n Hn. rewrite (num_display_spec n Hn).
  destruct (is_nan n) eqn:En.
  - unfold num_from_string. destruct (list_eq_dec N.eq_dec NAN_TEXT NAN_TEXT) as [_|E]; [reflexivity|contradiction].
  - destruct n as [u d]. destruct Hn as [Hwu [Hwd [Hpd [Hg _]]]]. cbn [up down] in *.
    unfold is_nan in En. cbn [down] in En.
    assert (Hdnz : bval d <> 0%Z).
    { intros E. apply Hzero in E; [congruence|exact Hwd]. }
    specialize (Hg Hdnz).
    destruct (big_display_shape u Hwu) as [dsu [Hdu [Hneu [Hoku Hvu]]]].
    destruct (big_display_shape d Hwd) as [dsd [Hdd [Hned [Hokd Hvd]]]].
    rewrite Hpd in Hdd. cbn [app] in Hdd.
    assert (Hdabs : mkbig true (limbs d) = d).
    { destruct d as [p l]. cbn [bpos limbs] in *. congruence. }
    pose proof (read_digits u dsu Hwu Hneu Hoku Hvu) as Hru.
    pose proof (read_digits d dsd Hwd Hned Hokd Hvd) as Hrd. rewrite Hdabs in Hrd.
    pose proof (opt_canon u d Hwu Hwd Hpd Hdnz Hg) as Hoc.
    pose proof (restore_sign u d Hwu) as Hrs.
    assert (Hsgn : (if bpos u then [] else [CH_MINUS]) = (if negb (bpos u) then [CH_MINUS] else [])).
    { destruct (bpos u); reflexivity. }
    rewrite Hdu, Hdd, Hsgn.
    destruct (Z.eqb_spec (bval d) 1) as [E1|E1].
    + assert (Ed : d = bone) by (apply Huniq; [exact Hwd|exact wf_bone|exact E1]).
      rewrite <- (app_nil_r dsu) at 1.
      rewrite nfs_shape by assumption. rewrite app_nil_r.
      rewrite split_slash_none by (apply digits_no_slash; exact Hoku).
      cbn [rev app parts_res]. rewrite Hru. unfold from_big_num. rewrite <- Ed, Hoc.
      f_equal. exact Hrs.
    + rewrite <- app_assoc. rewrite nfs_shape by assumption.
      cbn [app]. rewrite split_slash_one by (apply digits_no_slash; exact Hoku).
      rewrite split_slash_none by (apply digits_no_slash; exact Hokd).
      cbn [rev app parts_res]. rewrite Hru, Hrd. unfold from_big_num. rewrite Hoc.
      f_equal. exact Hrs.
Qed.

End TextProofs.

Print Assumptions tsb_spec.
Print Assumptions fsb_tsb.
Print Assumptions num_display_spec.
Print Assumptions num_roundtrip.
Check tsb_spec. Check fsb_tsb. Check num_display_spec. Check num_roundtrip.
