(* Level 2 without the NaN-sign premise, both directions, and the end-to-end statement against level 0.
   (a) a simulation of the interpreter on states whose stacks agree up to the representation of NaN;
   (b) the serialised pre-state of a state and of its canonical form are the same text, so the level-2 theorems of
       Proofs/CompLevel2.v apply to the canonical form and transfer through (a);
   (c) pre-execution does not depend on the input (it never reads it), so what compile_prog pre-executes on the empty input
       is what run_level pre-executes on the real one;
   (d) the composition with level1_wt / level2_wt. *)
From Coq Require Import List NArith ZArith Lia Bool. Import ListNotations.
From HV Require Import Model.Big Model.Rat Model.NumText Model.Chars Model.Parse Model.Exec Model.Opt Model.Compile
  Proofs.RatSpec Proofs.OptSpec Proofs.AppSpec Proofs.CompSpec Proofs.CoroSpec Proofs.Comp2Spec
  Proofs.Comp3Spec Proofs.Comp4Spec Proofs.OptAll Proofs.AppAll.
From HV Require Proofs.OptTerm Proofs.ExtraProofs Proofs.TopProofs Proofs.CompProofs Proofs.CompLevel2 Proofs.Comp3Proofs.
Open Scope N_scope.

Arguments N.add : simpl never.
Arguments N.mul : simpl never.
Arguments N.sub : simpl never.
Arguments N.pow : simpl never.
Arguments N.leb : simpl never.
Arguments N.ltb : simpl never.
Arguments N.eqb : simpl never.

(* ------------------------------------------------------------------ *)
(* (a0) numbers up to the representation of NaN *)

Definition nrel (x y : num) : Prop := x = y \/ (is_nan x = true /\ is_nan y = true).

Lemma nrel_refl x : nrel x x.
Proof. left. reflexivity. Qed.

Lemma nrel_is_nan x y : nrel x y -> is_nan x = is_nan y.
Proof. intros [->|[H1 H2]]; [reflexivity | rewrite H1, H2; reflexivity]. Qed.

Lemma nadd_nan_l a c : is_nan a = true -> nadd a c = nan.
Proof. intros H. unfold nadd. rewrite H. reflexivity. Qed.
Lemma nadd_nan_r a c : is_nan c = true -> nadd a c = nan.
Proof. intros H. unfold nadd. rewrite H, orb_true_r. reflexivity. Qed.
Lemma nmul_nan_l a c : is_nan a = true -> nmul a c = nan.
Proof. intros H. unfold nmul. rewrite H. reflexivity. Qed.
Lemma nmul_nan_r a c : is_nan c = true -> nmul a c = nan.
Proof. intros H. unfold nmul. rewrite H, orb_true_r. reflexivity. Qed.

Lemma nrel_add a b c d : nrel a b -> nrel c d -> nrel (nadd a c) (nadd b d).
Proof.
  intros [->|[Ha Hb]] [->|[Hc Hd]]; left.
  - reflexivity.
  - rewrite (nadd_nan_r b c Hc), (nadd_nan_r b d Hd). reflexivity.
  - rewrite (nadd_nan_l a d Ha), (nadd_nan_l b d Hb). reflexivity.
  - rewrite (nadd_nan_l a c Ha), (nadd_nan_l b d Hb). reflexivity.
Qed.
Lemma nrel_mul a b c d : nrel a b -> nrel c d -> nrel (nmul a c) (nmul b d).
Proof.
  intros [->|[Ha Hb]] [->|[Hc Hd]]; left.
  - reflexivity.
  - rewrite (nmul_nan_r b c Hc), (nmul_nan_r b d Hd). reflexivity.
  - rewrite (nmul_nan_l a d Ha), (nmul_nan_l b d Hb). reflexivity.
  - rewrite (nmul_nan_l a c Ha), (nmul_nan_l b d Hb). reflexivity.
Qed.
Lemma nrel_minus a b : nrel a b -> nrel (nminus a) (nminus b).
Proof. intros [->|[Ha Hb]]; [left; reflexivity | right; split; assumption]. Qed.
Lemma nrel_flip a b : nrel a b -> nrel (nflip a) (nflip b).
Proof.
  intros [->|[Ha Hb]]; [left; reflexivity|]. right. unfold nflip. rewrite Ha, Hb. split; assumption.
Qed.
Lemma nrel_cmp a b c : nrel a b -> ncmp a c = ncmp b c.
Proof. intros [->|[Ha Hb]]; [reflexivity|]. unfold ncmp. rewrite Ha, Hb. reflexivity. Qed.
Lemma is_pos_nan a : is_nan a = true -> is_pos a = false.
Proof. intros H. unfold is_pos. rewrite H. apply andb_false_r. Qed.
Lemma nrel_is_pos a b : nrel a b -> is_pos a = is_pos b.
Proof. intros [->|[Ha Hb]]; [reflexivity|]. rewrite (is_pos_nan a Ha), (is_pos_nan b Hb). reflexivity. Qed.
Lemma disp_neg_nan a : is_nan a = true -> num_display (nneg a) = NAN_TEXT.
Proof. intros H. unfold num_display. change (is_nan (nneg a)) with (is_nan a). rewrite H. reflexivity. Qed.
Lemma nrel_disp_neg a b : nrel a b -> num_display (nneg a) = num_display (nneg b).
Proof. intros [->|[Ha Hb]]; [reflexivity|]. rewrite (disp_neg_nan a Ha), (disp_neg_nan b Hb). reflexivity. Qed.

(* ------------------------------------------------------------------ *)
(* (a1) states up to the representation of NaN, and the simulation of the state monad *)

Record Sn (s t : state) : Prop := mkSn {
  Sn_k : skind_ s = skind_ t;
  Sn_cur : cur s = cur t;
  Sn_pts : points s = points t;
  Sn_lat : latest s = latest t;
  Sn_inp : inp s = inp t;
  Sn_out : outb s = outb t;
  Sn_err : errb s = errb t;
  Sn_stk : forall i, Forall2 nrel (get_stack s i) (get_stack t i) }.

Definition sn_res {A} (P : A -> A -> Prop) (r1 r2 : res A) : Prop :=
  match r1, r2 with
  | ROk a s, ROk b t => P a b /\ Sn s t
  | RExit k s, RExit k' t => k = k' /\ Sn s t
  | RErr e s, RErr e' t => e = e' /\ Sn s t
  | _, _ => False
  end.
Definition sim {A} (P : A -> A -> Prop) (m1 m2 : M A) : Prop := forall s t, Sn s t -> sn_res P (m1 s) (m2 t).

Lemma Forall2_nrel_refl l : Forall2 nrel l l.
Proof. induction l; constructor; [apply nrel_refl | assumption]. Qed.

Lemma Sn_refl s : Sn s s.
Proof. constructor; try reflexivity. intros i. apply Forall2_nrel_refl. Qed.

Lemma Sn_set_stack s t i l l' : Sn s t -> Forall2 nrel l l' -> Sn (set_stack s i l) (set_stack t i l').
Proof.
  intros [H1 H2 H3 H4 H5 H6 H7 H8] Hl. constructor; try assumption.
  intros j. rewrite !CompLevel2.get_set_stack. destruct (i =? j); [exact Hl | apply H8].
Qed.

Lemma Sn_in_range s t i : Sn s t -> in_range s i = in_range t i.
Proof. intros H. unfold in_range. rewrite (Sn_k _ _ H). reflexivity. Qed.

Lemma sim_ret {A} (P : A -> A -> Prop) a b : P a b -> sim P (ret a) (ret b).
Proof. intros Hp s t H. split; [exact Hp | exact H]. Qed.
Lemma sim_fail {A} (P : A -> A -> Prop) e : sim P (@fail A e) (@fail A e).
Proof. intros s t H. split; [reflexivity | exact H]. Qed.
Lemma sim_exit {A} (P : A -> A -> Prop) k : sim P (@exit_ A k) (@exit_ A k).
Proof. intros s t H. split; [reflexivity | exact H]. Qed.
Lemma sim_bind {A B} (P : A -> A -> Prop) (Q : B -> B -> Prop) (m1 m2 : M A) (f1 f2 : A -> M B) :
  sim P m1 m2 -> (forall a b, P a b -> sim Q (f1 a) (f2 b)) -> sim Q (bind m1 f1) (bind m2 f2).
Proof.
  intros Hm Hf s t H. unfold bind. specialize (Hm s t H).
  destruct (m1 s) as [a s1|k s1|e s1], (m2 t) as [b t1|k' t1|e' t1]; cbn [sn_res] in *; try contradiction.
  - destruct Hm as [Hp H1]. apply Hf; assumption.
  - exact Hm.
  - exact Hm.
Qed.
Lemma sim_iterM {A} (P : A -> A -> Prop) n (f g : A -> M A) a b :
  P a b -> (forall x y, P x y -> sim P (f x) (g y)) -> sim P (iterM n f a) (iterM n g b).
Proof.
  intros Hab Hf. induction n as [|n IH] using N.peano_ind.
  - rewrite !OptTerm.iterM_0. apply sim_ret. exact Hab.
  - rewrite !OptTerm.iterM_succ. apply (sim_bind P); assumption.
Qed.
Lemma sim_calc a cnt pop pop' : sim nrel pop pop' -> sim eq (calc a cnt pop) (calc a cnt pop').
Proof.
  intros Hp. induction a as [|t l IHl r IHr]; cbn [calc].
  - apply sim_ret. reflexivity.
  - destruct (t =? 0).
    + apply (sim_bind nrel); [exact Hp|]. intros v w Hvw. rewrite (nrel_cmp v w _ Hvw).
      destruct (ncmp w _) as [[| |]|]; assumption.
    + destruct (t =? 1).
      * apply (sim_bind nrel); [exact Hp|]. intros v w Hvw. rewrite (nrel_cmp v w _ Hvw).
        destruct (ncmp w _) as [[| |]|]; assumption.
      * apply sim_ret. reflexivity.
Qed.

(* primitives *)
Lemma sim_push_stack i x y : nrel x y -> sim eq (push_stack i x) (push_stack i y).
Proof.
  intros Hxy s t H. unfold push_stack. rewrite (Sn_in_range s t i H).
  destruct (in_range t i); [|split; [reflexivity | exact H]].
  pose proof (Sn_stk _ _ H i) as Hs. cbv zeta.
  destruct Hs as [|a b l l' Hab Hl].
  - rewrite (nrel_is_nan x y Hxy). destruct (is_nan y); cbn [sn_res]; (split; [reflexivity|]); [exact H|].
    apply Sn_set_stack; [exact H|]. constructor; [exact Hxy | constructor].
  - cbn [sn_res]. split; [reflexivity|]. apply Sn_set_stack; [exact H|].
    constructor; [exact Hxy|]. constructor; assumption.
Qed.
Lemma sim_pop_stack i : sim nrel (pop_stack i) (pop_stack i).
Proof.
  intros s t H. unfold pop_stack. rewrite (Sn_in_range s t i H).
  destruct (in_range t i); [|split; [apply nrel_refl | exact H]].
  pose proof (Sn_stk _ _ H i) as Hs.
  destruct Hs as [|a b l l' Hab Hl]; cbn [sn_res].
  - split; [apply nrel_refl | exact H].
  - split; [exact Hab|]. apply Sn_set_stack; assumption.
Qed.
Lemma sim_write_out b txt : sim eq (write_out b txt) (write_out b txt).
Proof.
  intros s t [H1 H2 H3 H4 H5 H6 H7 H8]. unfold write_out.
  destruct b; cbn [sn_res]; (split; [reflexivity|]); constructor; cbn [skind_ cur latest inp outb errb points]; try assumption;
    try (f_equal; assumption); intros j; apply H8.
Qed.
Lemma sim_push_wrap i x y : nrel x y -> sim eq (push_wrap i x) (push_wrap i y).
Proof.
  intros Hxy. unfold push_wrap. destruct ((i =? 1) || (i =? 2)).
  - rewrite (nrel_is_pos x y Hxy). destruct (is_pos y) eqn:E.
    + assert (Exy : x = y).
      { destruct Hxy as [Hxy|[_ Hy]]; [exact Hxy|]. rewrite (is_pos_nan y Hy) in E. discriminate E. }
      subst y. destruct (num_to_unicode x); [apply sim_write_out | apply sim_fail].
    + rewrite (nrel_disp_neg x y Hxy). apply sim_write_out.
  - apply sim_push_stack. exact Hxy.
Qed.
Lemma sim_read_line : sim eq read_line read_line.
Proof.
  intros s t H. pose proof H as [H1 H2 H3 H4 H5 H6 H7 H8]. unfold read_line. rewrite H5.
  destruct (inp t) as [|[l|] r]; cbn [sn_res]; (split; [reflexivity|]); try exact H;
    constructor; cbn [skind_ cur latest inp outb errb points]; try assumption; try reflexivity; intros j; apply H8.
Qed.
Lemma sim_push_all i l : sim eq (push_all i l) (push_all i l).
Proof.
  induction l as [|c r IH]; cbn [push_all].
  - apply sim_ret. reflexivity.
  - apply (sim_bind eq); [apply sim_push_stack, nrel_refl | intros _ _ _; exact IH].
Qed.
Lemma sim_pop_wrap i : sim nrel (pop_wrap i) (pop_wrap i).
Proof.
  unfold pop_wrap. destruct (i =? 0).
  - intros s t H. pose proof (Sn_stk _ _ H 0) as Hs.
    assert (C : sim nrel (bind read_line (fun l => bind (push_all 0 (rev l)) (fun _ => pop_stack 0)))
                         (bind read_line (fun l => bind (push_all 0 (rev l)) (fun _ => pop_stack 0)))).
    { apply (sim_bind eq); [apply sim_read_line|]. intros l ? <-.
      apply (sim_bind eq); [apply sim_push_all | intros _ _ _; apply sim_pop_stack]. }
    destruct (get_stack s 0) as [|a l], (get_stack t 0) as [|b l']; try (inversion Hs; fail).
    + apply C. exact H.
    + apply sim_pop_stack. exact H.
  - destruct (i =? 1); [apply sim_exit|].
    destruct (i =? 2); [apply sim_exit|]. apply sim_pop_stack.
Qed.
Lemma sim_get_cur : sim eq get_cur get_cur.
Proof. intros s t H. split; [apply (Sn_cur _ _ H) | exact H]. Qed.
Lemma sim_set_cur c : sim eq (set_cur c) (set_cur c).
Proof.
  intros s t [H1 H2 H3 H4 H5 H6 H7 H8]. split; [reflexivity|]. constructor; cbn [skind_ cur latest inp outb errb points];
    try assumption; try reflexivity.
Qed.
Lemma sim_get_point id : sim eq (get_point id) (get_point id).
Proof. intros s t H. split; [unfold get_point; rewrite (Sn_pts _ _ H); reflexivity | exact H]. Qed.
Lemma sim_set_point id loc : sim eq (set_point id loc) (set_point id loc).
Proof.
  intros s t [H1 H2 H3 H4 H5 H6 H7 H8]. split; [reflexivity|]. constructor; cbn [skind_ cur latest inp outb errb points];
    try assumption. rewrite H3. reflexivity.
Qed.
Lemma sim_get_latest : sim eq get_latest get_latest.
Proof. intros s t H. split; [apply (Sn_lat _ _ H) | exact H]. Qed.
Lemma sim_set_latest loc : sim eq (set_latest loc) (set_latest loc).
Proof.
  intros s t [H1 H2 H3 H4 H5 H6 H7 H8]. split; [reflexivity|]. constructor; cbn [skind_ cur latest inp outb errb points];
    try assumption; try reflexivity.
Qed.

Lemma sim_fold_push cs (h : num -> num) (g : num -> num -> num) (v w : list num) (m0 m0' : M num) :
  (forall x y, nrel x y -> nrel (h x) (h y)) ->
  (forall a b c d, nrel a b -> nrel c d -> nrel (g a c) (g b d)) ->
  Forall2 nrel v w -> sim nrel m0 m0' ->
  sim nrel (fold_left (fun (m : M num) x => bind m (fun n => let x' := h x in
                         bind (push_wrap cs x') (fun _ => ret (g n x')))) v m0)
           (fold_left (fun (m : M num) x => bind m (fun n => let x' := h x in
                         bind (push_wrap cs x') (fun _ => ret (g n x')))) w m0').
Proof.
  intros Hh Hg Hv. revert m0 m0'. induction Hv as [|x y v w Hxy Hv IH]; intros m0 m0' H0; cbn [fold_left].
  - exact H0.
  - apply IH. apply (sim_bind nrel); [exact H0|]. intros n n' Hn. cbv zeta.
    apply (sim_bind eq); [apply sim_push_wrap, Hh, Hxy|]. intros _ _ _.
    apply sim_ret. apply Hg; [exact Hn | apply Hh, Hxy].
Qed.

Lemma sim_pops_fold cs n (g : num -> num -> num) a0 :
  (forall a b c d, nrel a b -> nrel c d -> nrel (g a c) (g b d)) ->
  sim nrel (iterM n (fun n0 => bind (pop_wrap cs) (fun v => ret (g n0 v))) a0)
           (iterM n (fun n0 => bind (pop_wrap cs) (fun v => ret (g n0 v))) a0).
Proof.
  intros Hg. apply sim_iterM; [apply nrel_refl|]. intros x y Hxy.
  apply (sim_bind nrel); [apply sim_pop_wrap|]. intros v w Hvw. apply sim_ret. apply Hg; assumption.
Qed.
Lemma sim_pops_list cs n :
  sim (Forall2 nrel) (iterM n (fun v => bind (pop_wrap cs) (fun x => ret (x :: v))) [])
                     (iterM n (fun v => bind (pop_wrap cs) (fun x => ret (x :: v))) []).
Proof.
  apply sim_iterM; [constructor|]. intros v w Hvw.
  apply (sim_bind nrel); [apply sim_pop_wrap|]. intros x y Hxy. apply sim_ret. constructor; assumption.
Qed.

Lemma sim_body c : sim eq (body c) (body c).
Proof.
  unfold body. apply (sim_bind eq); [apply sim_get_cur|]. intros cs ? <-.
  apply (OptTerm.ty_case (fun m : M unit => sim eq m m)).
  - apply sim_push_wrap, nrel_refl.
  - apply (sim_bind nrel); [apply sim_pops_fold, nrel_add|]. intros n n' Hn. apply sim_push_wrap, Hn.
  - apply (sim_bind nrel); [apply sim_pops_fold, nrel_mul|]. intros n n' Hn. apply sim_push_wrap, Hn.
  - apply (sim_bind (Forall2 nrel)); [apply sim_pops_list|]. intros v w Hvw.
    apply (sim_bind nrel).
    + apply sim_fold_push; [exact nrel_minus | exact nrel_add | exact Hvw | apply sim_ret, nrel_refl].
    + intros n n' Hn. apply sim_push_wrap, Hn.
  - apply (sim_bind (Forall2 nrel)); [apply sim_pops_list|]. intros v w Hvw.
    apply (sim_bind nrel).
    + apply sim_fold_push; [exact nrel_flip | exact nrel_mul | exact Hvw | apply sim_ret, nrel_refl].
    + intros n n' Hn. apply sim_push_wrap, Hn.
  - apply (sim_bind nrel); [apply sim_pop_wrap|]. intros n n' Hn.
    apply (sim_bind eq).
    + apply sim_iterM; [reflexivity|]. intros _ _ _. apply sim_push_wrap, Hn.
    + intros _ _ _. apply (sim_bind eq); [apply sim_push_wrap, Hn|]. intros _ _ _. apply sim_set_cur.
Qed.

Lemma sim_execute_one c pc : sim eq (execute_one c pc) (execute_one c pc).
Proof.
  unfold execute_one. apply (sim_bind eq); [apply sim_body|]. intros _ _ _.
  apply (sim_bind eq); [apply sim_get_cur|]. intros cs ? <-.
  apply (sim_bind eq); [apply sim_calc, sim_pop_wrap|]. intros t0 ? <-.
  destruct (t0 =? 0); [apply sim_ret; reflexivity|].
  destruct (t0 =? 13).
  { apply (sim_bind eq); [apply sim_get_latest|]. intros [loc|] ? <-; apply sim_ret; reflexivity. }
  cbv zeta. apply (sim_bind eq); [apply sim_get_point|]. intros [v|] ? <-.
  - destruct (pc =? v); [apply sim_ret; reflexivity|].
    apply (sim_bind eq); [apply sim_set_latest | intros _ _ _; apply sim_ret; reflexivity].
  - apply (sim_bind eq); [apply sim_set_point | intros _ _ _; apply sim_ret; reflexivity].
Qed.

(* whole runs *)
Definition frel (x y : final) : Prop :=
  match x, y with
  | FDone s, FDone t => Sn s t
  | FExit c s, FExit c' t => c = c' /\ Sn s t
  | FErr e s, FErr e' t => e = e' /\ Sn s t
  | FFuel s p, FFuel t p' => p = p' /\ Sn s t
  | FPanic s, FPanic t => Sn s t
  | _, _ => False
  end.

Lemma run_pre_sim code : forall fuel s t pc, Sn s t -> frel (run_pre fuel code s pc) (run_pre fuel code t pc).
Proof.
  induction fuel as [|f IH]; intros s t pc H; cbn [run_pre].
  - split; [reflexivity | exact H].
  - destruct (N.of_nat (length code) <=? pc); [exact H|].
    destruct (nth_error code (N.to_nat pc)) as [c|]; [|exact H].
    pose proof (sim_execute_one c pc s t H) as Hs.
    destruct (execute_one c pc s) as [a s1|k s1|e s1], (execute_one c pc t) as [b t1|k' t1|e' t1];
      cbn [sn_res] in Hs; try contradiction.
    + destruct Hs as [<- Hs]. apply IH. exact Hs.
    + exact Hs.
    + exact Hs.
Qed.

Lemma frel_beh x y : frel x y -> beh x = beh y.
Proof.
  destruct x, y; cbn [frel]; try contradiction; intros H; try (destruct H as [<- H]); cbn [beh];
    rewrite (Sn_out _ _ H), (Sn_err _ _ H); reflexivity.
Qed.

(* ------------------------------------------------------------------ *)
(* (b) the canonical form of a state *)

Definition canon (x : num) : num := if is_nan x then nan else x.
Definition canon_state (s : state) : state :=
  mkstate (skind_ s) (map (fun p => (fst p, map canon (snd p))) (stacks s)) (cur s) (points s) (latest s) (inp s) (outb s) (errb s).

Lemma is_nan_nan : is_nan nan = true.
Proof. reflexivity. Qed.

Lemma nrel_canon x : nrel (canon x) x.
Proof.
  unfold canon. destruct (is_nan x) eqn:E; [right; split; [exact is_nan_nan | exact E] | apply nrel_refl].
Qed.

Lemma canon_canon_num x : wfn x -> canon_num (canon x).
Proof.
  intros Hx. unfold canon. destruct (is_nan x) eqn:E; split.
  - exact Comp3Proofs.wf_nan.
  - intros _. reflexivity.
  - exact Hx.
  - intros H. rewrite E in H. discriminate H.
Qed.

Lemma disp_canon x : num_display (canon x) = num_display x.
Proof.
  unfold canon. destruct (is_nan x) eqn:E; [|reflexivity]. unfold num_display at 2. rewrite E. reflexivity.
Qed.

Lemma ser_canon l : ser_stack (map canon l) = ser_stack l.
Proof.
  unfold ser_stack. rewrite <- map_rev, map_map. apply map_ext. intros x. apply disp_canon.
Qed.

Lemma alist_get_canon (l : list (N * list num)) i :
  alist_get (map (fun p => (fst p, map canon (snd p))) l) i = option_map (map canon) (alist_get l i).
Proof.
  induction l as [|[k v] r IH]; cbn [map alist_get fst snd option_map]; [reflexivity|].
  destruct (k =? i); [reflexivity | exact IH].
Qed.

Lemma get_stack_canon s i : get_stack (canon_state s) i = map canon (get_stack s i).
Proof.
  unfold get_stack, canon_state. cbn [stacks]. rewrite alist_get_canon.
  destruct (alist_get (stacks s) i); reflexivity.
Qed.

Lemma ser_stacks_canon (l : list (N * list num)) :
  map (fun p => (fst p, ser_stack (snd p)))
      (filter (fun p => match snd p with [] => false | _ => true end) (map (fun p => (fst p, map canon (snd p))) l)) =
  map (fun p => (fst p, ser_stack (snd p))) (filter (fun p => match snd p with [] => false | _ => true end) l).
Proof.
  induction l as [|[k v] r IH]; [reflexivity|].
  cbn [map filter fst snd]. destruct v as [|a v]; cbn [map]; [exact IH|].
  cbn [fst snd]. rewrite IH. f_equal. f_equal. exact (ser_canon (a :: v)).
Qed.

Lemma build_ir_canon s log rest : build_ir true 2 (canon_state s) log rest = build_ir true 2 s log rest.
Proof.
  unfold build_ir. destruct (2 <? 2); [reflexivity|]. destruct rest as [|c rest]; [reflexivity|].
  unfold nonempty_stacks. unfold canon_state at 2. cbn [stacks]. rewrite ser_stacks_canon. reflexivity.
Qed.

Lemma canon_state_canon s : stacks_wf s -> stacks_canon (canon_state s).
Proof.
  intros [Hn Hf]. split.
  - unfold canon_state. cbn [stacks]. rewrite map_map. cbn [fst]. exact Hn.
  - unfold canon_state. cbn [stacks]. rewrite Forall_forall in *. intros p Hp.
    apply in_map_iff in Hp. destruct Hp as (q & <- & Hq). cbn [snd].
    specialize (Hf q Hq). rewrite Forall_forall in *. intros x Hx.
    apply in_map_iff in Hx. destruct Hx as (y & <- & Hy). apply canon_canon_num. apply Hf, Hy.
Qed.

Lemma canon_state_targets log s : area_targets log s -> area_targets log (canon_state s).
Proof. intros H. exact H. Qed.

Lemma Sn_canon s input : Sn (with_input (canon_state s) input) (with_input s input).
Proof.
  constructor; try reflexivity. intros i.
  change (get_stack (with_input (canon_state s) input) i) with (get_stack (canon_state s) i).
  change (get_stack (with_input s input) i) with (get_stack s i).
  rewrite get_stack_canon. induction (get_stack s i) as [|x l IH]; cbn [map]; constructor; [apply nrel_canon | exact IH].
Qed.

Lemma canon_run s input code fuel pc :
  beh (run_pre fuel code (with_input (canon_state s) input) pc) = beh (run_pre fuel code (with_input s input) pc).
Proof. apply frel_beh, run_pre_sim, Sn_canon. Qed.

(* ------------------------------------------------------------------ *)
(* plumbing: the two shapes of the statements *)

Definition fmatch (Q : fkind * list N * list N -> Prop) (x : final) : Prop :=
  match x with
  | FDone s => Q (beh (FDone s)) | FExit c s => Q (beh (FExit c s)) | FErr e s => Q (beh (FErr e s))
  | FFuel _ _ => True | FPanic _ => True
  end.
Definition imatch (Q : fkind * list N * list N -> Prop) (y : irfinal) : Prop :=
  match y with
  | IDone s => Q (ibeh (IDone s)) | IExit c s => Q (ibeh (IExit c s)) | IAbort n s => Q (ibeh (IAbort n s))
  | IIoErr s => Q (ibeh (IIoErr s)) | IFuel _ => True | IBadState => False
  end.

Lemma fmatch_beh Q x y : beh x = beh y -> fmatch Q x -> fmatch Q y.
Proof.
  destruct x, y; cbn [beh fmatch]; intros E H; try exact I; try discriminate E; rewrite <- E; exact H.
Qed.

Lemma imatch_impl (Q Q' : fkind * list N * list N -> Prop) y :
  (forall b, fst (fst b) <> KFuel -> Q b -> Q' b) -> imatch Q y -> imatch Q' y.
Proof.
  intros HQ. destruct y; cbn [imatch ibeh]; intros H; try exact H; apply HQ; try exact H; cbn [fst]; discriminate.
Qed.

Lemma not_fuel_of_beh x b : beh x = b -> fst (fst b) <> KFuel -> TopProofs.not_fuel x.
Proof. intros <- H t p ->. apply H. reflexivity. Qed.

(* a finished preloaded run from the middle is a finished incremental run *)
Lemma pre_to_inc fuel done todo s x : targets_ok (N.of_nat (length done)) s ->
  run_pre fuel (done ++ todo) s (N.of_nat (length done)) = x -> TopProofs.not_fuel x ->
  run_inc fuel done todo s = x.
Proof.
  intros T H Hx.
  assert (H1 : run_pre (S fuel) (done ++ todo) s (N.of_nat (length done)) = x).
  { replace (S fuel) with (fuel + 1)%nat by lia. apply ExtraProofs.run_pre_more; [exact H | exact Hx]. }
  pose proof (inc_pre_t fuel done todo s T) as HP.
  destruct (run_inc fuel done todo s) as [s'|q s'|e s'|t p|s'] eqn:E.
  - rewrite H1 in HP. symmetry. exact HP.
  - rewrite H1 in HP. symmetry. exact HP.
  - rewrite H1 in HP. symmetry. exact HP.
  - pose proof (ExtraProofs.run_inc_fuel todo fuel done s t p T E) as HF.
    rewrite H in HF. exfalso. exact (Hx t p HF).
  - rewrite H1 in HP. symmetry. exact HP.
Qed.

Lemma fmatch_inc_pre Q f done todo s : targets_ok (N.of_nat (length done)) s ->
  fmatch Q (run_pre (S f) (done ++ todo) s (N.of_nat (length done))) -> fmatch Q (run_inc f done todo s).
Proof.
  intros T H. pose proof (inc_pre_t f done todo s T) as HP.
  destruct (run_inc f done todo s) as [s'|q s'|e s'|t p|s']; try exact I; rewrite HP in H; exact H.
Qed.

(* ------------------------------------------------------------------ *)
(* the level-2 theorems for optimiser results *)

Lemma opt_facts code r : small_code (map xcode_of_ucode code) -> optimize_prog all_fixed code 2 [] = OptOk r ->
  area_targets (olog r) (ostate r) /\ stacks_wf (ostate r).
Proof.
  intros Hsm Ho. apply (Comp3Proofs.optimized_inv code [] r Hsm); [|exact Ho]. intros line c [].
Qed.

Lemma targets_with_input log s input : area_targets log s -> targets_ok (N.of_nat (length log)) (with_input s input).
Proof. intros Ha. apply Comp3Proofs.area_targets_ok in Ha. exact Ha. Qed.

Theorem compiled2_opt_sound : compiled2_opt_sound_stmt.
Proof.
  intros code input r fuel Hsm _ Ho Hrest.
  destruct (opt_facts code r Hsm Ho) as [Ha Hw].
  pose proof (CompLevel2.compiled2_sound (canon_state (ostate r)) (olog r) (orest r) input (S fuel) Hrest
                (canon_state_targets _ _ Ha) (canon_state_canon _ Hw)) as Hsound.
  rewrite build_ir_canon in Hsound.
  pose (Q := fun b => exists fuel', ibeh (ir_run fuel' (build_ir true 2 (ostate r) (olog r) (orest r)) input) = b).
  change (fmatch Q (run_inc fuel (olog r) (orest r) (with_input (ostate r) input))).
  change (fmatch Q (run_pre (S fuel) (olog r ++ orest r) (with_input (canon_state (ostate r)) input)
                            (N.of_nat (length (olog r))))) in Hsound.
  apply fmatch_inc_pre; [apply targets_with_input, Ha|].
  exact (fmatch_beh Q _ _ (canon_run _ _ _ _ _) Hsound).
Qed.
Print Assumptions compiled2_opt_sound.

Theorem compiled2_opt_complete : compiled2_opt_complete_stmt.
Proof.
  intros code input r fuel Hsm _ Ho Hrest.
  destruct (opt_facts code r Hsm Ho) as [Ha Hw].
  pose proof (CompLevel2.compiled2_complete (canon_state (ostate r)) (olog r) (orest r) input fuel Hrest
                (canon_state_targets _ _ Ha) (canon_state_canon _ Hw)) as Hc.
  rewrite build_ir_canon in Hc.
  change (imatch (fun b => exists fuel', beh (run_inc fuel' (olog r) (orest r) (with_input (ostate r) input)) = b)
                 (ir_run fuel (build_ir true 2 (ostate r) (olog r) (orest r)) input)).
  change (imatch (fun b => exists fuel', beh (run_pre fuel' (olog r ++ orest r) (with_input (canon_state (ostate r)) input)
                                                     (N.of_nat (length (olog r)))) = b)
                 (ir_run fuel (build_ir true 2 (ostate r) (olog r) (orest r)) input)) in Hc.
  revert Hc. apply imatch_impl. intros b Hb [f E].
  rewrite canon_run in E. exists f.
  rewrite (pre_to_inc f (olog r) (orest r) (with_input (ostate r) input) _ (targets_with_input _ _ input Ha) eq_refl
             (not_fuel_of_beh _ b E Hb)).
  exact E.
Qed.
Print Assumptions compiled2_opt_complete.

(* ------------------------------------------------------------------ *)
(* (c) pre-execution does not depend on the input: speculative steps commute with swapping the input *)

Definition wi (i : list (option (list N))) (s : state) : state := with_input s i.
Definition iframe {A} (m : M A) : Prop := forall i s, m (wi i s) = CompProofs.lift_res (wi i) (m s).

Lemma iframe_ret {A} (a : A) : iframe (ret a).
Proof. intros i s. reflexivity. Qed.
Lemma iframe_fail {A} e : iframe (@fail A e).
Proof. intros i s. reflexivity. Qed.
Lemma iframe_exit {A} k : iframe (@exit_ A k).
Proof. intros i s. reflexivity. Qed.
Lemma iframe_bind {A B} (m : M A) (f : A -> M B) : iframe m -> (forall a, iframe (f a)) -> iframe (bind m f).
Proof.
  intros Hm Hf i s. unfold bind. rewrite Hm.
  destruct (m s) as [a t|k t|e t]; cbn [CompProofs.lift_res]; [apply Hf | reflexivity | reflexivity].
Qed.
Lemma iframe_iterM {A} n (f : A -> M A) a : (forall x, iframe (f x)) -> iframe (iterM n f a).
Proof.
  intros Hf. induction n as [|n IH] using N.peano_ind.
  - rewrite OptTerm.iterM_0. apply iframe_ret.
  - rewrite OptTerm.iterM_succ. apply iframe_bind; assumption.
Qed.
Lemma iframe_fold_left {B X} (g : M B -> X -> M B) l m0 :
  (forall m x, iframe m -> iframe (g m x)) -> iframe m0 -> iframe (fold_left g l m0).
Proof.
  intros Hg. revert m0. induction l as [|x l IH]; intros m0 H0; cbn [fold_left].
  - exact H0.
  - apply IH. apply Hg. exact H0.
Qed.
Lemma iframe_calc a cnt pop : iframe pop -> iframe (calc a cnt pop).
Proof.
  intros Hp. induction a as [|t l IHl r IHr]; cbn [calc].
  - apply iframe_ret.
  - destruct (t =? 0).
    + apply iframe_bind; [exact Hp|]. intros v. destruct (ncmp v _) as [[| |]|]; assumption.
    + destruct (t =? 1).
      * apply iframe_bind; [exact Hp|]. intros v. destruct (ncmp v _) as [[| |]|]; assumption.
      * apply iframe_ret.
Qed.
Lemma iframe_push_stack j x : iframe (push_stack j x).
Proof.
  intros i s. unfold push_stack.
  change (in_range (wi i s) j) with (in_range s j).
  change (get_stack (wi i s) j) with (get_stack s j).
  destruct (in_range s j); [|reflexivity].
  destruct (get_stack s j); [destruct (is_nan x)|]; reflexivity.
Qed.
Lemma iframe_pop_stack j : iframe (pop_stack j).
Proof.
  intros i s. unfold pop_stack.
  change (in_range (wi i s) j) with (in_range s j).
  change (get_stack (wi i s) j) with (get_stack s j).
  destruct (in_range s j); [|reflexivity].
  destruct (get_stack s j); reflexivity.
Qed.
Lemma iframe_write_out b txt : iframe (write_out b txt).
Proof. intros i s. unfold write_out. destruct b; reflexivity. Qed.
Lemma iframe_push_wrap j x : iframe (push_wrap j x).
Proof.
  unfold push_wrap. destruct ((j =? 1) || (j =? 2)).
  - destruct (is_pos x).
    + destruct (num_to_unicode x); [apply iframe_write_out | apply iframe_fail].
    + apply iframe_write_out.
  - apply iframe_push_stack.
Qed.
(* the guarded pop never reaches the reading stack 0 *)
Lemma iframe_gpop cs : iframe (gpop cs).
Proof.
  unfold gpop, guard. destruct (cs <=? 2) eqn:E.
  - intros i s. reflexivity.
  - apply N.leb_gt in E. apply iframe_bind; [apply iframe_ret|]. intros _.
    unfold pop_wrap.
    assert (E0 : (cs =? 0) = false) by (apply N.eqb_neq; lia).
    assert (E1 : (cs =? 1) = false) by (apply N.eqb_neq; lia).
    assert (E2 : (cs =? 2) = false) by (apply N.eqb_neq; lia).
    rewrite E0, E1, E2. apply iframe_pop_stack.
Qed.
Lemma iframe_get_cur : iframe get_cur.
Proof. intros i s. reflexivity. Qed.
Lemma iframe_set_cur c : iframe (set_cur c).
Proof. intros i s. reflexivity. Qed.
Lemma iframe_get_latest : iframe get_latest.
Proof. intros i s. reflexivity. Qed.
Lemma iframe_set_latest l : iframe (set_latest l).
Proof. intros i s. reflexivity. Qed.
Lemma iframe_get_point id : iframe (get_point id).
Proof. intros i s. reflexivity. Qed.
Lemma iframe_set_point id l : iframe (set_point id l).
Proof. intros i s. reflexivity. Qed.

Ltac iframe_tac :=
  repeat first
    [ apply iframe_ret | apply iframe_push_wrap | apply iframe_gpop
    | apply iframe_set_cur | apply iframe_get_cur
    | apply iframe_bind; [ | intro ]
    | apply iframe_iterM; intro ].

Lemma iframe_fold_push cs (h : num -> num) (g : num -> num -> num) (v : list num) (m0 : M num) :
  iframe m0 ->
  iframe (fold_left (fun (m : M num) x => bind m (fun n => let x' := h x in
                         bind (push_wrap cs x') (fun _ => ret (g n x')))) v m0).
Proof.
  intros H0. apply iframe_fold_left; [|exact H0]. intros m x Hm. cbv zeta.
  apply iframe_bind; [exact Hm|]. intro. iframe_tac.
Qed.

Lemma iframe_obody fx c : iframe (obody fx c).
Proof.
  unfold obody. apply iframe_bind; [apply iframe_get_cur|]. intros cs.
  apply (OptTerm.ty_case (@iframe unit)); iframe_tac; try (apply iframe_fold_push; apply iframe_ret).
Qed.

Lemma iframe_oexecute_one fx c pc : iframe (oexecute_one fx c pc).
Proof.
  unfold oexecute_one.
  apply iframe_bind; [apply iframe_obody|]. intros _.
  apply iframe_bind; [apply iframe_get_cur|]. intros cs.
  apply iframe_bind; [apply iframe_calc, iframe_gpop|]. intros t.
  destruct (t =? 0); [apply iframe_ret|].
  destruct (t =? 13).
  { apply iframe_bind; [apply iframe_get_latest|]. intros [loc|]; apply iframe_ret. }
  cbv zeta. apply iframe_bind; [apply iframe_get_point|]. intros [v|].
  - destruct (pc =? v); [apply iframe_ret|].
    apply iframe_bind; [apply iframe_set_latest | intros _; apply iframe_ret].
  - apply iframe_bind; [apply iframe_set_point | intros _; apply iframe_ret].
Qed.

Definition map_ores (f : state -> state) (o : ores) : ores :=
  match o with ODone s => ODone (f s) | OBail s => OBail (f s) | OErr e s => OErr e (f s) | OFuel => OFuel | OPanic => OPanic end.

Lemma opt_loop_frame fuel : forall fx code s pc len j i,
  opt_loop fuel fx code (wi i s) pc len j = map_ores (wi i) (opt_loop fuel fx code s pc len j).
Proof.
  induction fuel as [|f IH]; intros fx code s pc len j i; cbn [opt_loop].
  - reflexivity.
  - destruct (len <=? pc); [reflexivity|].
    destruct (100 <=? j); [reflexivity|].
    destruct (nth_error code (N.to_nat pc)) as [c|]; [|reflexivity].
    rewrite (iframe_oexecute_one fx c pc i s).
    destruct (oexecute_one fx c pc s) as [[pc' jm] s'|k s'|e s']; cbn [CompProofs.lift_res map_ores];
      [apply IH | reflexivity | reflexivity].
Qed.

Definition swap_input (i : list (option (list N))) (o : optimized) : optimized :=
  match o with OptOk r => OptOk (mkopt (wi i (ostate r)) (olog r) (orest r)) | x => x end.

Lemma preexec_frame todo : forall s log i,
  preexec all_fixed (wi i s) log todo = swap_input i (preexec all_fixed s log todo).
Proof.
  induction todo as [|c r IH]; intros s log i; cbn [preexec].
  - reflexivity.
  - rewrite opt_loop_frame.
    destruct (opt_loop (opt_fuel (log ++ [c])) all_fixed (log ++ [c]) s (N.of_nat (length log)) (N.of_nat (length log) + 1) 0)
      as [s'|s'|e s'| |]; cbn [map_ores].
    + apply IH.
    + reflexivity.
    + reflexivity.
    + reflexivity.
    + reflexivity.
Qed.

Lemma optimize_input code input r : optimize_prog all_fixed code 2 [] = OptOk r ->
  optimize_prog all_fixed code 2 input = OptOk (mkopt (with_input (ostate r) input) (olog r) (orest r)).
Proof.
  unfold optimize_prog.
  assert (E0 : (2 =? 0) = false) by reflexivity. rewrite E0.
  destruct (renum_map all_fixed code) as [m mx].
  assert (E1 : (2 =? 1) = false) by reflexivity. rewrite E1.
  intros H.
  change (state0 (SOpt (mx + 1)) input) with (wi input (state0 (SOpt (mx + 1)) [])).
  rewrite preexec_frame, H. reflexivity.
Qed.

(* ------------------------------------------------------------------ *)
(* (d) end to end *)

Definition ucode_x (code : list ucode) : list xcode := map xcode_of_ucode code.

Lemma level0_eq f code input :
  run_level all_fixed f code 0 input = run_inc f [] (ucode_x code) (state0 SUnopt input).
Proof. reflexivity. Qed.

(* what is compiled and what is run at each level *)
Lemma compile0_eq code : compile_prog all_fixed true code 0 = Some (build_ir true 1 (state0 SUnopt []) [] (ucode_x code)).
Proof. reflexivity. Qed.

Lemma compile1_eq code m mx : renum_map all_fixed code = (m, mx) ->
  compile_prog all_fixed true code 1 = Some (build_ir true 1 (state0 (SOpt (mx + 1)) []) [] (map (opt_code m mx) code)).
Proof. intros E. unfold compile_prog, optimize_prog. rewrite E. reflexivity. Qed.

Lemma run_level1_eq code m mx f input : renum_map all_fixed code = (m, mx) ->
  run_level all_fixed f code 1 input = run_inc f [] (map (opt_code m mx) code) (state0 (SOpt (mx + 1)) input).
Proof. intros E. unfold run_level, optimize_prog. rewrite E. reflexivity. Qed.

Lemma compile2_inv code p : compile_prog all_fixed true code 2 = Some p ->
  exists r, optimize_prog all_fixed code 2 [] = OptOk r /\ p = build_ir true 2 (ostate r) (olog r) (orest r).
Proof.
  unfold compile_prog. assert (E0 : (2 =? 0) = false) by reflexivity. rewrite E0.
  destruct (optimize_prog all_fixed code 2 []) as [r|e|]; intros H; try discriminate H.
  injection H as <-. exists r. split; reflexivity.
Qed.

Lemma run_level2_eq code r f input : optimize_prog all_fixed code 2 [] = OptOk r ->
  run_level all_fixed f code 2 input = run_inc f (olog r) (orest r) (with_input (ostate r) input).
Proof.
  intros Ho. unfold run_level. assert (E0 : (2 =? 0) = false) by reflexivity. rewrite E0.
  rewrite (optimize_input code input r Ho). reflexivity.
Qed.

(* the state0 argument of build_ir matters only through its container kind below level 2 *)
Lemma build_ir_low k i1 i2 code : build_ir true 1 (state0 k i1) [] code = build_ir true 1 (state0 k i2) [] code.
Proof. reflexivity. Qed.

Lemma level2_beh code input r : kinds_ok code -> optimize_prog all_fixed code 2 [] = OptOk r ->
  exists k, forall f, beh (run_level all_fixed (k + f) code 0 input) =
                      beh (run_inc f (olog r) (orest r) (with_input (ostate r) input)).
Proof.
  intros Hk Ho. pose proof (level2_wt_t code input Hk) as H2.
  rewrite (optimize_input code input r Ho) in H2. destruct H2 as [k H2].
  exists k. intros f. rewrite (H2 f). rewrite (run_level2_eq code r f input Ho). reflexivity.
Qed.

(* a finished level-0 run stays the same with a larger budget *)
Lemma level0_more f k code input Q :
  (forall x, run_level all_fixed (k + f) code 0 input = x -> fmatch Q x) -> fmatch Q (run_level all_fixed f code 0 input).
Proof.
  intros H. rewrite level0_eq.
  pose proof (run_mono_t f (k + f)%nat [] (ucode_x code) (state0 SUnopt input) (Nat.le_add_l f k)) as HM.
  destruct (run_inc f [] (ucode_x code) (state0 SUnopt input)) as [s|c s|e s|s p|s] eqn:E; try exact I;
    apply H; rewrite level0_eq; exact HM.
Qed.

(* the print-only program *)
Lemma print_only s log input f :
  ir_run (S f) (build_ir true 2 s log []) input =
  IDone (mkstate (skind_ s) [] 3 [] None input (rev (rev (outb s))) (rev (rev (errb s)))).
Proof. reflexivity. Qed.

Lemma print_only_beh s log input f :
  ibeh (ir_run (S f) (build_ir true 2 s log []) input) = beh (FDone (with_input s input)).
Proof. rewrite print_only. cbn [ibeh beh outb errb with_input]. rewrite !rev_involutive. reflexivity. Qed.

Theorem compiled_end_to_end_sound : compiled_end_to_end_sound_stmt.
Proof.
  intros level code input p fuel Hl Hk Hsm Hin Hc.
  pose (Q := fun b => exists fuel', ibeh (ir_run fuel' p input) = b).
  change (fmatch Q (run_level all_fixed fuel code 0 input)).
  assert (Hlv : level = 0 \/ level = 1 \/ level = 2) by lia.
  destruct Hlv as [-> | [-> | ->]].
  - (* level 0 *)
    rewrite compile0_eq in Hc. injection Hc as <-. rewrite level0_eq.
    apply fmatch_inc_pre; [apply ExtraProofs.targets_ok_state0|].
    exact (CompProofs.compiled_sound SUnopt (S fuel) (ucode_x code) input).
  - (* level 1 *)
    destruct (renum_map all_fixed code) as [m mx] eqn:Er.
    rewrite (compile1_eq code m mx Er) in Hc. injection Hc as <-.
    apply (fmatch_beh Q _ _ (level1_wt_t fuel code input Hk)).
    rewrite (run_level1_eq code m mx fuel input Er).
    apply fmatch_inc_pre; [apply ExtraProofs.targets_ok_state0|].
    exact (CompProofs.compiled_sound (SOpt (mx + 1)) (S fuel) (map (opt_code m mx) code) input).
  - (* level 2 *)
    destruct (compile2_inv code p Hc) as (r & Ho & Hp).
    destruct (level2_beh code input r Hk Ho) as [k Hb].
    apply (level0_more fuel k). intros x Hx.
    specialize (Hb fuel). rewrite Hx in Hb. apply (fmatch_beh Q _ _ (eq_sym Hb)).
    assert (Hd : orest r = [] \/ orest r <> []) by (destruct (orest r); [left; reflexivity | right; discriminate]).
    destruct Hd as [Erest|Hne].
    + rewrite Erest. cbn [run_inc fmatch]. exists 1%nat. subst p. rewrite Erest. apply print_only_beh.
    + subst p. exact (compiled2_opt_sound code input r fuel Hsm Hin Ho Hne).
Qed.
Print Assumptions compiled_end_to_end_sound.

Theorem compiled_end_to_end_complete : compiled_end_to_end_complete_stmt.
Proof.
  intros level code input p fuel Hl Hk Hsm Hin Hc.
  pose (Q := fun b => exists fuel', beh (run_level all_fixed fuel' code 0 input) = b).
  change (imatch Q (ir_run fuel p input)).
  assert (Hlv : level = 0 \/ level = 1 \/ level = 2) by lia.
  destruct Hlv as [-> | [-> | ->]].
  - (* level 0 *)
    rewrite compile0_eq in Hc. injection Hc as <-.
    pose proof (CompProofs.compiled_complete SUnopt fuel (ucode_x code) input) as H.
    change (imatch (fun b => exists fuel', beh (run_pre fuel' (ucode_x code) (state0 SUnopt input) 0) = b)
                   (ir_run fuel (build_ir true 1 (state0 SUnopt []) [] (ucode_x code)) input)) in H.
    revert H. apply imatch_impl. intros b Hb [f E]. exists f. rewrite level0_eq.
    rewrite (TopProofs.pre_to_inc_gen f (ucode_x code) (state0 SUnopt input) _
               (ExtraProofs.targets_ok_state0 _ _) eq_refl (not_fuel_of_beh _ b E Hb)).
    exact E.
  - (* level 1 *)
    destruct (renum_map all_fixed code) as [m mx] eqn:Er.
    rewrite (compile1_eq code m mx Er) in Hc. injection Hc as <-.
    pose proof (CompProofs.compiled_complete (SOpt (mx + 1)) fuel (map (opt_code m mx) code) input) as H.
    change (imatch (fun b => exists fuel', beh (run_pre fuel' (map (opt_code m mx) code) (state0 (SOpt (mx + 1)) input) 0) = b)
                   (ir_run fuel (build_ir true 1 (state0 (SOpt (mx + 1)) []) [] (map (opt_code m mx) code)) input)) in H.
    revert H. apply imatch_impl. intros b Hb [f E]. exists f.
    rewrite <- (level1_wt_t f code input Hk), (run_level1_eq code m mx f input Er).
    rewrite (TopProofs.pre_to_inc_gen f (map (opt_code m mx) code) (state0 (SOpt (mx + 1)) input) _
               (ExtraProofs.targets_ok_state0 _ _) eq_refl (not_fuel_of_beh _ b E Hb)).
    exact E.
  - (* level 2 *)
    destruct (compile2_inv code p Hc) as (r & Ho & Hp).
    destruct (level2_beh code input r Hk Ho) as [k Hb].
    assert (Hd : orest r = [] \/ orest r <> []) by (destruct (orest r); [left; reflexivity | right; discriminate]).
    destruct Hd as [Erest|Hne].
    + subst p. rewrite Erest. destruct fuel as [|f]; [exact I|].
      rewrite print_only. cbn [imatch]. exists (k + 0)%nat. rewrite (Hb 0%nat), Erest.
      cbn [run_inc]. rewrite <- (print_only_beh (ostate r) (olog r) input f), print_only. reflexivity.
    + pose proof (compiled2_opt_complete code input r fuel Hsm Hin Ho Hne) as H.
      rewrite <- Hp in H.
      change (imatch (fun b => exists fuel', beh (run_inc fuel' (olog r) (orest r) (with_input (ostate r) input)) = b)
                     (ir_run fuel p input)) in H.
      revert H. apply imatch_impl. intros b _ [f E]. exists (k + f)%nat. rewrite (Hb f). exact E.
Qed.
Print Assumptions compiled_end_to_end_complete.
