(* C08 — any command list can be written as source text and is read back unchanged; re-parsing reported
   source texts is stable; the `check` listing determines every command.  Property theorems only. *)
From Coq Require Import List NArith Bool.
Import ListNotations.
From HV Require Import Model.Chars Model.Parse Spec.Grammar Spec.Lang Proofs.ParseSpec Proofs.ParseAll Proofs.ParseArea Proofs.ListingSpec.
From HV Require Proofs.ListingProofs.
From HV Require Model.Listing Proofs.Listing2Spec Proofs.Listing2Proofs.
Open Scope N_scope.

(* clause 1a: every way of writing — any concrete syntax tree satisfying the context condition, with arbitrary
   filler syllables, ellipsis characters, redundant hearts, whitespace and foreign text where the grammar
   ignores them, counts and trees of any size — parses back to its meaning *)
Theorem C08_any_rendering_parses_back : forall t, valid t = true -> parse (flatten t) = abstract t.
Proof. exact parse_render_t. Qed.
Print Assumptions C08_any_rendering_parses_back.

(* clause 1b: every command list (kind < 6, syllables >= 1, any dot count, any grammar-shaped area with heart
   types 2..13) has a writing, and its meaning is that list *)
Theorem C08_every_list_is_writable : forall cs, forallb cmd_ok cs = true ->
  valid (canon cs) = true /\
  map strip_u (abstract (canon cs)) = map (fun c => (kind c, syl c, dotc c, gqA (garea c))) cs.
Proof. exact writable_t. Qed.
Print Assumptions C08_every_list_is_writable.

Theorem C08_area_text_means_tree : forall q : gq,
  forallb (fun b : gbang => forallb (fun s : slot => match s with Some t => (2 <=? t) && (t <=? 13) | None => true end) (snd b :: fst b))
          (snd q :: fst q) = true ->
  area_of (gq_text q) = gqA q.
Proof. exact area_text_t. Qed.
Print Assumptions C08_area_text_means_tree.

(* clause 2: for ANY text, re-parsing the concatenation of the reported source texts returns the same commands *)
Theorem C08_reparse_raw : forall text,
  map strip_u (parse (concat (map raw (parse text)))) = map strip_u (parse text).
Proof. exact reparse_raw_t. Qed.
Print Assumptions C08_reparse_raw.

(* clause 3: both renderings of area trees are injective on the trees the parser can produce
   (grammar-shaped, node types <= 13; C04_area_shape / C04_area_well_typed give the premises) *)
Theorem C08_display_injective : forall a b, grammar_shaped a -> grammar_shaped b -> well_typed a -> well_typed b ->
  area_display a = area_display b -> a = b.
Proof. exact display_injective_wt. Qed.
Print Assumptions C08_display_injective.
Theorem C08_debug_injective : forall a b, grammar_shaped a -> grammar_shaped b -> well_typed a -> well_typed b ->
  area_debug a = area_debug b -> a = b.
Proof. exact debug_injective_wt. Qed.
Print Assumptions C08_debug_injective.
(* without the type-range premise the statement is false (types >= 14 all print as the same character) *)
Theorem C08_display_injective_needs_types : ~ display_injective_stmt.
Proof. exact display_injective_refuted. Qed.
Print Assumptions C08_display_injective_needs_types.

(* the whole listing line `KIND_syllables_dots AREA` determines the command, and `line:column` determines the location *)
Theorem C08_listing_line_injective : forall k n d a k' n' d' a',
  k < 6 -> k' < 6 -> grammar_shaped a -> grammar_shaped a' -> well_typed a -> well_typed a' ->
  listing_line k n d a = listing_line k' n' d' a' -> k = k' /\ n = n' /\ d = d' /\ a = a'.
Proof. exact ListingProofs.listing_injective. Qed.
Print Assumptions C08_listing_line_injective.
Theorem C08_location_injective : forall l c l' c', loc_text l c = loc_text l' c' -> l = l' /\ c = c'.
Proof. exact ListingProofs.loc_injective. Qed.
Print Assumptions C08_location_injective.

(* the COMPLETE text printed by `hyeong check FILE` (Model/Listing.v: index column, `file:line:col`, paddings, one row per
   command) determines every command: two files with the same listing hold the same commands at the same places *)
Theorem C08_check_output_determines_commands : forall fname text text', ~ In 10 fname ->
  Listing.check_listing fname text = Listing.check_listing fname text' ->
  map (fun c => (ty c, hc c, dc c, loc c, ar c)) (parse text) = map (fun c => (ty c, hc c, dc c, loc c, ar c)) (parse text').
Proof. exact Listing2Proofs.check_listing_determines. Qed.
Print Assumptions C08_check_output_determines_commands.

Example C08_examples :
  let cs := [mkcmd 3 4 2 ([([Some 2; None], Some 13)], ([], None)); mkcmd 0 1 0 ([], ([], None)); mkcmd 5 2 1 ([], ([None], Some 3))] in
  forallb cmd_ok cs = true /\
  map strip_u (parse (flatten (canon cs))) = map (fun c => (kind c, syl c, dotc c, gqA (garea c))) cs.
Proof. vm_compute. split; reflexivity. Qed.
Print Assumptions C08_examples.

(* the model's listing for a three-command file named "t.h" (what `hyeong check` prints, rows only) *)
Example C08_listing_example :
  Listing.check_listing [116;46;104] [54805;46;46;32;54637;46;10;32;32;32;54784;50633;46;46;46;9829;63] =
  Some ([48;32;124;32;116;46;104;58;49;58;48;32;32;54805;95;49;95;50;32;95;10] ++
        [49;32;124;32;116;46;104;58;49;58;52;32;32;54637;95;49;95;49;32;95;10] ++
        [50;32;124;32;116;46;104;58;50;58;51;32;32;54805;95;50;95;51;32;91;9829;93;63;91;95;93;10]).
Proof. vm_compute. reflexivity. Qed.
Print Assumptions C08_listing_example.
