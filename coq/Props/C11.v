(* C11 — placeholder; replaced when Proofs/DebugProofs.v is in. *)
From Coq Require Import List NArith Bool.
Import ListNotations.
From HV Require Import Model.Exec Model.Debug.
Theorem C11_no_commands : forall fx11 fx13 fuel code, (0 < length code)%nat ->
  debug_run fx11 fx13 (S fuel) code [] = ([DvPrompt], DEof).
Proof. intros fx11 fx13 fuel code H. destruct code; [inversion H|]. reflexivity. Qed.
Print Assumptions C11_no_commands.
